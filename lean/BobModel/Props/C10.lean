import BobModel.Proofs.C10
/-
C10 — Workspace state commits atomically and is single-writer.

Property theorems about the model of `pym/bob/state.py` (`Model/StateFS.lean`).  Only statements that
mention the property live here; the invariant and its preservation are in `Proofs/C10.lean`.

Reading guide.  `runHist c FS.empty hist` is the event trace (file-system operations plus ghost
markers) of a history of Bob invocations, each `__init__ ; API calls ; finalize`, started on an empty
directory.  `Ghost.run` folds the markers of a trace prefix into
`base` (state at the end of the last completed invocation), `since` (snapshots saved after that);
`Adm G x` says `x` is `base` or one of `since`.  `recover fs g` is a machine crash with garbling `g` of
every unsynced content followed by the documented removal of the stale lock file;
`(initRun c fs).res` is what the next start of Bob loads.
-/
namespace C10
open StateFS

/-! ### the constants the model hard-wires are the ones of the current source -/

/-- trailer layout (`struct.pack("=L")`, `data[:-4]`, `data[-4:]`): 4 bytes, little endian (host order on
the supported hosts) — what `StateFS.trailer` / `StateFS.verify` implement. -/
theorem consts_match_model :
    Consts.C10.trailerLen = 4 ∧ Consts.C10.verifySlice = 4 ∧ Consts.C10.trailerBigEndian = false ∧
    Consts.C10.lockFlags = ["O_CREAT", "O_EXCL", "O_WRONLY"] := by
  decide

/-- the four files of the protocol are four different names (so `StateFS.Name` is a faithful abstraction) -/
theorem names_distinct : (Name.all.map Name.path).Nodup := by
  decide

/-- a state stamped with `CUR_VERSION` passes the version window and triggers no upgrade -/
theorem current_version_loads {σ μ : Type} (c : Cfg σ μ) (hc : c.Lawful) (s : σ) :
    Consts.C10.minVersion ≤ Consts.C10.curVersion ∧ upgrade c Consts.C10.curVersion s = s ∧
    loadBytes c (encS c s) = .ok s :=
  ⟨by decide, upgrade_cur c s, loadBytes_enc c hc s⟩

/-! ### checksum -/

/-- what `__save` writes always verifies -/
theorem adler_roundtrip (p : Bytes) : verify (enc p) = true := verify_enc p

/-- a file shorter than the trailer (in particular the empty file left by delayed allocation) is rejected -/
theorem verify_rejects_short (d : Bytes) (h : d.length < 4) : verify d = false := verify_short d h

/-- a file of zero bytes of any length is rejected -/
theorem verify_rejects_zeros (n : Nat) : verify (List.replicate n (0 : UInt8)) = false := verify_zeros n

/-- changing exactly one byte (payload or trailer) of a saved file is detected -/
theorem adler_single_byte (p pre suf : Bytes) (x y : UInt8) (hxy : x ≠ y) (h : enc p = pre ++ x :: suf) :
    verify (pre ++ y :: suf) = false := single_byte p pre suf x y hxy h

/-- hence truncation below 4 bytes, zero fill and any single-byte change are `Detectable` garblings -/
theorem detectable_examples :
    Detectable (fun _ d => d) ∧ Detectable (fun _ d => d.take 3) ∧ Detectable (fun _ _ => []) ∧
    Detectable (fun _ d => List.replicate d.length 0) := by
  refine ⟨fun d => Or.inl rfl, fun d => Or.inr ?_, fun d => Or.inr ?_, fun d => Or.inr ?_⟩
  · exact verify_short _ (by simp; omega)
  · exact verify_short _ (by simp)
  · exact verify_zeros _

/-! ### atomic commit -/

/-- **recover_is_snapshot.**  For every history of invocations (any mutator semantics, any sequence of
API calls including unbalanced asynchronous sections), every prefix of its event trace (hence every prefix
of its file-system operation trace) and every detectable garbling: the next start loads, without error,
the state at the end of the last completed invocation or one snapshot saved since — one `decode (enc s)`,
never a mixture. -/
theorem recover_is_snapshot {σ μ : Type} (c : Cfg σ μ) (hc : c.Lawful) (hist : List (List (Call μ)))
    (n : Nat) (g : Garble) (hg : Detectable g) :
    let evs := (runHist c FS.empty hist).take n
    ∃ x, (initRun c (recover (applyOps FS.empty (evOps evs)) g)).res = .ok x ∧ Adm (Ghost.init.run evs) x := by
  intro evs
  have h := AllPre_take (runHist_pre c hc FS.empty Ghost.init hist (Inv_init c)) n
  rw [← applyEvs_ops]
  exact fresh_start c hc _ _ (Inv_recover c _ _ g hg h) (recover_lock _ g)

/-- in particular, once the last invocation of a history has completed (nothing saved since), every crash
afterwards recovers exactly its final state -/
theorem completed_invocation_is_durable {σ μ : Type} (c : Cfg σ μ) (hc : c.Lawful) (hist : List (List (Call μ)))
    (g : Garble) (hg : Detectable g)
    (hdone : (Ghost.init.run (runHist c FS.empty hist)).since = []) :
    (initRun c (recover (applyOps FS.empty (evOps (runHist c FS.empty hist))) g)).res =
      .ok (Ghost.init.run (runHist c FS.empty hist)).base := by
  have h := recover_is_snapshot c hc hist (runHist c FS.empty hist).length g hg
  simp only [List.take_length] at h
  obtain ⟨x, hx, ha⟩ := h
  rcases ha with ha | ⟨s, hs, _⟩
  · rw [hx, ha]
  · rw [hdone] at hs; cases hs

/-- **a mere process kill loses nothing**: without garbling, at every prefix of every history the next
start loads exactly the newest snapshot whose rename to the uncommitted name is part of the prefix
(`Dur.durable`), however far its commit got.  This is where `adler_roundtrip` is needed. -/
theorem kill_loses_nothing {σ μ : Type} (c : Cfg σ μ) (hc : c.Lawful) (hist : List (List (Call μ))) (n : Nat) :
    let evs := (runHist c FS.empty hist).take n
    (initRun c (recover (applyOps FS.empty (evOps evs)) (fun _ d => d))).res =
      .ok (Dur.run ⟨none, none⟩ evs).durable := by
  intro evs
  have h0 : K c FS.empty (⟨none, none⟩ : Dur σ) := ⟨none, Or.inl ⟨rfl, rfl⟩, Or.inl ⟨rfl, rfl⟩⟩
  have h := AllPreD_take (runHistK c hc FS.empty ⟨none, none⟩ hist h0) n
  rw [← applyEvs_ops]
  exact (initK c hc _ _ (K_kill c _ _ h)).2 (recover_lock _ _)

/-- the same after any number of earlier crashes: sessions are complete invocations or invocations cut at
an arbitrary event and crashed with a detectable garbling (then recovered).  After a history that ends
in a crash, the next start loads an admissible state. -/
theorem recover_is_snapshot_multi {σ μ : Type} (c : Cfg σ μ) (hc : c.Lawful) (ss : List (Session μ))
    (calls : List (Call μ)) (cut : Nat) (g : Garble) (hd : ∀ s ∈ ss, s.Det) (hg : Detectable g) :
    let r := runSessions c FS.empty Ghost.init (ss ++ [.crashed calls cut g])
    ∃ x, (initRun c r.1).res = .ok x ∧ Adm r.2 x := by
  intro r
  have hall : ∀ s ∈ ss ++ [Session.crashed calls cut g], s.Det := by
    intro s hs
    rcases List.mem_append.mp hs with h | h
    · exact hd s h
    · simp at h; subst h; exact hg
  have hinv := runSessions_inv c hc (ss ++ [.crashed calls cut g]) FS.empty Ghost.init hall (Inv_init c)
  refine fresh_start c hc _ _ hinv ?_
  -- the last session ended in `recover`, which removed the lock
  have : ∀ (l : List (Session μ)) (fs : FS) (G : Ghost σ),
      (runSessions c fs G (l ++ [.crashed calls cut g])).1 .lock = none := by
    intro l
    induction l with
    | nil => intro fs G; simp [runSessions, runSession, recover_lock]
    | cons s l ih => intro fs G; simpa [runSessions] using ih _ _
  exact this ss _ _

/-- the committed file is durable at every instant: no prefix of any run leaves `.bob-state.pickle`
present but unsynced or with a content that is not exactly one saved snapshot -/
theorem committed_always_synced {σ μ : Type} (c : Cfg σ μ) (hc : c.Lawful) (hist : List (List (Call μ))) (n : Nat) :
    let fs := applyOps FS.empty (evOps ((runHist c FS.empty hist).take n))
    fs .pickle = none ∨ ∃ s, fs .pickle = some ⟨encS c s, true⟩ := by
  intro fs
  have h := AllPre_take (runHist_pre c hc FS.empty Ghost.init hist (Inv_init c)) n
  rw [applyEvs_ops] at h
  obtain ⟨x, hp, _, _⟩ := h
  rcases hp with ⟨h1, _⟩ | ⟨s, h1, _⟩
  · exact Or.inl h1
  · exact Or.inr ⟨s, h1⟩

/-! ### single writer -/

/-- in any interleaving of the steps of two instances on one directory at most one is live, and a live
instance implies the lock file exists -/
theorem single_writer {σ μ : Type} (c : Cfg σ μ) (acts : List (Act μ)) :
    let w := run2 c ⟨FS.empty, none, none⟩ acts
    ¬ (w.ma.isSome = true ∧ w.mb.isSome = true) ∧
      ((w.ma.isSome = true ∨ w.mb.isSome = true) → (w.fs .lock).isSome = true) :=
  run2_inv c _ acts ⟨by simp, by simp⟩

/-- while the lock exists a start fails with "locked" having attempted only the exclusive create: the
file system is unchanged (no write, no commit, no unlock) -/
theorem second_instance_refused {σ μ : Type} (c : Cfg σ μ) (fs : FS) (h : (fs .lock).isSome = true) :
    (initRun c fs).res = .error .locked ∧ (initRun c fs).evs = [.op (.createExcl .lock)] ∧
      applyEvs fs (initRun c fs).evs = fs := initRun_locked c fs h

/-! ### asynchronous mode -/

/-- between `setAsynchronous` and the matching `setSynchronous` (nesting allowed) nothing is emitted, and
the matching `setSynchronous` emits exactly one save, of the final state, iff some mutator asked for one -/
theorem async_defers {σ μ : Type} (c : Cfg σ μ) (mem : Mem σ) (cs : List (Call μ))
    (h0 : mem.async = 0) (hd : mem.dirty = false) (h : Inside 1 cs) (hb : depthAfter 1 cs = 1) :
    (runCalls c mem (.setAsync :: cs)).2 = [] ∧
    (runCalls c mem (.setAsync :: cs ++ [.setSync])).2 =
      (if (foldMuts c mem.cur false cs).2 then saveEvs c (foldMuts c mem.cur false cs).1 else []) :=
  async_section c mem cs h0 hd h hb

/-! ### the hypotheses are satisfiable: a small concrete instance -/

/-- toy codec: states are bytes, the pickle is `[version, state]` -/
def toy : Cfg UInt8 UInt8 where
  pickle v s := [UInt8.ofNat v, s]
  unpickle d := match d with
    | v :: s :: _ => some (v.toNat, s)
    | _ => none
  up _ s := s
  default := 0
  step _ m := (m, true)

example : toy.Lawful := by
  intro s t
  simp [toy, Consts.C10.curVersion]

/-- two invocations, the second cut after its save's rename, the uncommitted file garbled to nothing:
the recovery is the state of the first invocation -/
example :
    let evs := (runHist toy FS.empty [[.mut 7], [.mut 9]]).take 22
    (initRun toy (recover (applyOps FS.empty (evOps evs)) (fun _ _ => []))).res = .ok (some 7) := by
  rfl

/-- ... and intact it is the newer snapshot -/
example :
    let evs := (runHist toy FS.empty [[.mut 7], [.mut 9]]).take 22
    (initRun toy (recover (applyOps FS.empty (evOps evs)) (fun _ d => d))).res = .ok (some 9) := by
  rfl

example : Inside (μ := UInt8) 1 [.mut 1, .setAsync, .mut 2, .setSync, .mut 3] ∧
    depthAfter (μ := UInt8) 1 [.mut 1, .setAsync, .mut 2, .setSync, .mut 3] = 1 := by
  simp [Inside, depthAfter]

end C10
