import BobModel.Proofs.C20Order
/-
C20 — Jenkins job graph is acyclic, complete and faithful: property theorems about the model
`BobModel/Model/Jenkins.lean` of pym/bob/cmds/jenkins/jenkins.py (JobNameCalculator.sanitize,
_genJenkinsJobs, JenkinsJob.getUpstreamJobs).  Helper lemmas are in Proofs/C20*.lean.

All theorems quantify over every package graph `g` that is a finite DAG (`WF`: a rank function that
decreases along dependencies, ids below `n`), every list of roots, every isolate predicate `iso`
and every job name prefix `pfx`.  The order in which names and jobs are processed is covered by the
invariant: it is kept by *any* guarded merge (`merge_step_keeps_invariant`, `merge_loops_any_order`).
-/
namespace C20
open Jenkins

variable {g : Graph} {n : Nat} {roots : List Nat}

/-! ## 1. `childs` is reachability in the quotient graph -/

/-- **childs_is_reachability**, inductive step: one iteration of the merge loop that collapses job `j`
into job `i` (taken when the reachability test `comparable` fails) re-establishes the invariant `Inv`:
`pkgs` are the classes of `vidToJob`, `parents` the direct dependents, `childs` exactly the package
steps reachable in the *new* quotient graph (this is what `addChilds` has to achieve), and the quotient
graph is acyclic. -/
theorem merge_step_keeps_invariant {s : St} {i j : Nat} (h : Inv g n s) (hi : s.v2j i = some i)
    (hj : s.v2j j = some j) (hij : i ≠ j) (hc : comparable s i j = false) :
    Inv g n (mergeInto n i j s) :=
  (inv_mergeInto h hi hj hij hc).1

/-- the test of the merge loop is reachability between the two jobs (this is why it is sound) -/
theorem merge_test_is_reachability {s : St} {i j : Nat} (h : Inv g n s) (hi : s.v2j i = some i)
    (hj : s.v2j j = some j) :
    comparable s i j = true ↔ (QReachV g s.v2j i j ∨ QReachV g s.v2j j i) := by
  unfold comparable
  rw [Bool.or_eq_true, h.reaches_iff hi hj, h.reaches_iff hj hi]

/-- whenever the test `i.childs >= (j.pkgs|j.childs)` holds for two distinct jobs, the inclusion is strict
(`i` itself is in `i.childs` but not reachable from `j`): replacing `>=` by `>` in the merge loop is not a
change of behaviour (the corresponding mutant is equivalent) -/
theorem superset_test_is_strict {s : St} {i j : Nat} (h : Inv g n s) (hi : s.v2j i = some i)
    (hj : s.v2j j = some j) (hij : i ≠ j) (ht : reaches s i j = true) :
    i ∈ (s.job i).childs ∧ i ∉ union (s.job j).pkgs (s.job j).childs := by
  have hii : i ∈ (s.job i).childs := h.pkgs_sub_childs hi ((h.pkgs i hi i).mpr hi)
  refine ⟨hii, fun hmem => ?_⟩
  have rij : QReachV g s.v2j i j := (h.reaches_iff hi hj).mp ht
  have rji : QReachV g s.v2j j i := by
    rcases mem_union.mp hmem with hm | hm
    · exact SameJobV.reach ⟨j, hj, (h.pkgs j hj i).mp hm⟩
    · exact (h.childs j hj i).mp hm
  obtain ⟨k, h1, h2⟩ := h.acyclic i j rij rji (by rw [hi]; simp)
  rw [hi] at h1; rw [hj] at h2
  cases h1; cases h2
  exact hij rfl

/-- the merge loops keep the invariant for every list of names, processed in any order -/
theorem merge_loops_any_order {s : St} (L : List Str) (h : Inv g n s) (hN : NamesOk s.names s) :
    Inv g n (L.foldl (mergeName n) s) :=
  (mergeAll_spec L s h hN).1

/-- **childs_is_reachability** for the result of `sanitize`'s merge phase -/
theorem childs_is_reachability (iso : Str → Bool) (wf : WF g n roots) :
    ∀ k, (sanitizeSt g n iso roots).v2j k = some k →
      ∀ w, w ∈ ((sanitizeSt g n iso roots).job k).childs ↔ QReachV g (sanitizeSt g n iso roots).v2j k w :=
  (sanitize_final iso wf).1.childs

/-! ## 2. merging keeps the job graph acyclic -/

/-- **merge_keeps_acyclic**: collapsing two jobs neither of which reaches the other keeps the quotient
graph acyclic (stated on the `vidToJob` map alone) -/
theorem merge_keeps_acyclic {m : Nat → Option Nat} {i j : Nat}
    (hclosed : ∀ v, m v ≠ none → ∀ d ∈ g.deps v, m d ≠ none)
    (hacyclic : ∀ v w, QReachV g m v w → QReachV g m w v → m v ≠ none → SameJobV m v w)
    (hij : i ≠ j) (hi : m i = some i) (hj : m j = some j)
    (nij : ¬ QReachV g m i j) (nji : ¬ QReachV g m j i) :
    ∀ v w, QReachV g (mrg m i j) v w → QReachV g (mrg m i j) w v → mrg m i j v ≠ none → SameJobV (mrg m i j) v w :=
  acyclic_mrg hclosed hacyclic hij hi hj nij nji

/-- the abstract job graph after `sanitize` is acyclic: two package steps that reach each other (through
dependencies and through membership in a common job) are in the same job -/
theorem abstract_job_graph_acyclic (iso : Str → Bool) (wf : WF g n roots) :
    ∀ v w, QReachV g (sanitizeSt g n iso roots).v2j v w → QReachV g (sanitizeSt g n iso roots).v2j w v →
      (sanitizeSt g n iso roots).v2j v ≠ none → SameJobV (sanitizeSt g n iso roots).v2j v w :=
  (sanitize_final iso wf).1.acyclic

/-! ## 3. names -/

/-- `getJobInternalName` does not identify two assigned display names -/
def FoldInjective (n : Nat) (pfx : Str) (pn : PkgNames) : Prop :=
  ∀ v, v < n → ∀ w, w < n → internalName pfx pn v = internalName pfx pn w → displayName pfx pn v = displayName pfx pn w

/-- every package step that `sanitize` met has a name: `getJobDisplayName` cannot raise `KeyError` -/
theorem names_total (iso : Str → Bool) (wf : WF g n roots) {v : Nat} (hv : (sanitizeSt g n iso roots).v2j v ≠ none) :
    ∃ nm, sanitize g n iso roots v = some nm := by
  obtain ⟨h, hN, _⟩ := sanitize_final iso wf
  exact Jenkins.names_total h hN hv

/-- distinct abstract jobs get distinct *display* names, if no plain group name equals a numbered name of
another group -/
theorem display_names_unique_partial (iso : Str → Bool) (wf : WF g n roots)
    (hfresh : NumberingFresh (finalNames g (sanitizeSt g n iso roots))) {v w : Nat}
    (hv : (sanitizeSt g n iso roots).v2j v ≠ none) (hw : (sanitizeSt g n iso roots).v2j w ≠ none) :
    sanitize g n iso roots v = sanitize g n iso roots w ↔ SameJobV (sanitizeSt g n iso roots).v2j v w := by
  obtain ⟨h, hN, _⟩ := sanitize_final iso wf
  exact ⟨names_injective h hN hfresh hv hw, names_welldefined h hN⟩

/-- display names without the hypothesis: false of code and model, see `display_names_unique_fails` -/
def display_names_unique_goal : Prop :=
  ∀ (g : Graph) (n : Nat) (roots : List Nat) (iso : Str → Bool), WF g n roots →
    ∀ v w, (sanitizeSt g n iso roots).v2j v ≠ none → (sanitizeSt g n iso roots).v2j w ≠ none →
      sanitize g n iso roots v = sanitize g n iso roots w → SameJobV (sanitizeSt g n iso roots).v2j v w

/-- **names_unique**, the full statement: distinct jobs get distinct job names (`getJobInternalName`).
It is false of the code and of the model, see `names_unique_fails` below. -/
def names_unique_goal : Prop :=
  ∀ (g : Graph) (n : Nat) (roots : List Nat) (iso : Str → Bool) (pfx : Str), WF g n roots →
    ∀ v w, (sanitizeSt g n iso roots).v2j v ≠ none → (sanitizeSt g n iso roots).v2j w ≠ none →
      internalName pfx (sanitize g n iso roots) v = internalName pfx (sanitize g n iso roots) w →
      SameJobV (sanitizeSt g n iso roots).v2j v w

/-- **names_unique_partial**: added hypotheses `NumberingFresh` (numbering suffix does not hit an existing
name) and `FoldInjective` (character/case folding does not identify two names) -/
theorem names_unique_partial (iso : Str → Bool) (pfx : Str) (wf : WF g n roots)
    (hfresh : NumberingFresh (finalNames g (sanitizeSt g n iso roots)))
    (hfold : FoldInjective n pfx (sanitize g n iso roots)) {v w : Nat}
    (hv : (sanitizeSt g n iso roots).v2j v ≠ none) (hw : (sanitizeSt g n iso roots).v2j w ≠ none) :
    internalName pfx (sanitize g n iso roots) v = internalName pfx (sanitize g n iso roots) w ↔
      SameJobV (sanitizeSt g n iso roots).v2j v w := by
  obtain ⟨h, hN, _⟩ := sanitize_final iso wf
  constructor
  · intro heq
    obtain ⟨kv, hkv⟩ := Option.ne_none_iff_exists'.mp hv
    obtain ⟨kw, hkw⟩ := Option.ne_none_iff_exists'.mp hw
    have hd := hfold v (h.lt v kv hkv) w (h.lt w kw hkw) heq
    obtain ⟨a, ha⟩ := Jenkins.names_total h hN hv
    obtain ⟨b, hb⟩ := Jenkins.names_total h hN hw
    have ha' : sanitize g n iso roots v = some a := ha
    have hb' : sanitize g n iso roots w = some b := hb
    unfold displayName at hd
    rw [ha', hb'] at hd
    simp only [Option.map_some, Option.some.injEq] at hd
    have hab : a = b := List.append_cancel_left hd
    refine names_injective h hN hfresh hv hw ?_
    show sanitize g n iso roots v = sanitize g n iso roots w
    rw [ha', hb', hab]
  · intro hs
    have : sanitize g n iso roots v = sanitize g n iso roots w := names_welldefined h hN hs
    unfold internalName displayName
    rw [this]

/-! ## 3/4. the generated jobs -/

theorem visited_known (iso : Str → Bool) (wf : WF g n roots) :
    ∀ v ∈ visited g roots n, (sanitizeSt g n iso roots).v2j v ≠ none := by
  obtain ⟨h, _, hroots⟩ := sanitize_final iso wf
  intro v hv
  obtain ⟨r, hr, hrv⟩ := visited_sound n v hv
  refine Reach.fwd_closed (G := fun x => (sanitizeSt g n iso roots).v2j x ≠ none) hrv (hroots r hr) ?_
  intro u d e hu
  exact h.closed u hu d (wf.vdeps u d e)

theorem genJobs_defined (iso : Str → Bool) (pfx : Str) (wf : WF g n roots) :
    genJobs g n pfx (sanitize g n iso roots) roots =
      some (mkJobs g (internalName pfx (sanitize g n iso roots)) (visited g roots n)) := by
  apply genJobs_eq
  intro v hv
  obtain ⟨nm, hnm⟩ := names_total iso wf (visited_known iso wf v hv)
  simp [internalName, displayName, hnm]

/-- **jobs_partition**: job generation does not fail, job names are pairwise distinct, and every package
step reachable from a root through valid dependencies is a package of exactly one job -/
theorem jobs_partition (iso : Str → Bool) (pfx : Str) (wf : WF g n roots) :
    ∃ jobs, genJobs g n pfx (sanitize g n iso roots) roots = some jobs ∧ (jobs.map (·.name)).Nodup ∧
      ∀ r ∈ roots, ∀ v, VReach g r v → ∃ j ∈ jobs, v ∈ j.pkgs ∧ ∀ j' ∈ jobs, v ∈ j'.pkgs → j' = j := by
  refine ⟨_, genJobs_defined iso pfx wf, mkJobs_names_nodup, ?_⟩
  intro r hr v hrv
  obtain ⟨rank, hrk1, hrk2⟩ := wf.dag
  have hvis : v ∈ visited g roots n :=
    visited_complete (fun a d hd => hrk1 a d (wf.vdeps a d hd)) hrk2 hr hrv
  obtain ⟨nm, hnm⟩ := names_total iso wf (visited_known iso wf v hvis)
  have hin : internalName pfx (sanitize g n iso roots) v = some (foldName (pfx ++ nm)) := by
    simp [internalName, displayName, hnm]
  refine ⟨⟨foldName (pfx ++ nm), _, _⟩, mem_mkJobs.mpr ⟨_, ⟨v, hvis, hin⟩, rfl⟩, ?_, ?_⟩
  · simp only [List.mem_filter, decide_eq_true_eq]; exact ⟨hvis, hin⟩
  · intro j' hj' hv'
    obtain ⟨nm', _, rfl⟩ := mem_mkJobs.mp hj'
    simp only [List.mem_filter, decide_eq_true_eq] at hv'
    have : nm' = foldName (pfx ++ nm) := by
      have := hv'.2; rw [hin] at this; injection this with this; exact this.symm
    subst this; rfl

/-- **deps_complete**: the job of a package step has the job of each of its valid dependencies
(arguments, tools, sandbox) among its upstream jobs, unless it is the same job -/
theorem deps_complete (iso : Str → Bool) (pfx : Str) (wf : WF g n roots) {jobs : List JJob}
    (hjobs : genJobs g n pfx (sanitize g n iso roots) roots = some jobs)
    {r v d : Nat} (hr : r ∈ roots) (hrv : VReach g r v) (hd : d ∈ g.vdeps v)
    {j j' : JJob} (hj : j ∈ jobs) (hvj : v ∈ j.pkgs) (hj' : j' ∈ jobs) (hdj : d ∈ j'.pkgs) :
    j' = j ∨ j'.name ∈ j.up := by
  rw [genJobs_defined iso pfx wf] at hjobs
  injection hjobs with hjobs
  subst hjobs
  obtain ⟨rank, hrk1, hrk2⟩ := wf.dag
  have hvis : v ∈ visited g roots n :=
    visited_complete (fun a d hd => hrk1 a d (wf.vdeps a d hd)) hrk2 hr hrv
  obtain ⟨nm, _, rfl⟩ := mem_mkJobs.mp hj
  obtain ⟨nm', _, rfl⟩ := mem_mkJobs.mp hj'
  simp only [List.mem_filter, decide_eq_true_eq] at hvj hdj
  by_cases hnn : nm' = nm
  · subst hnn; exact Or.inl rfl
  · exact Or.inr (mem_upstream.mpr ⟨v, hvis, hvj.2, d, hd, hdj.2, hnn⟩)

/-- **job_graph_acyclic**, the full statement: the generated job graph has no cycle.  False of code and
model without the name hypotheses, see `job_graph_cyclic_witness`. -/
def job_graph_acyclic_goal : Prop :=
  ∀ (g : Graph) (n : Nat) (roots : List Nat) (iso : Str → Bool) (pfx : Str), WF g n roots →
    ∀ jobs, genJobs g n pfx (sanitize g n iso roots) roots = some jobs →
      ∀ a c, UpEdge jobs a c → ¬ Reach (UpEdge jobs) c a

/-- **job_graph_acyclic_partial**: for every DAG, root list, isolate predicate and prefix the upstream
relation of the generated jobs has no cycle, under `NumberingFresh` and `FoldInjective` -/
theorem job_graph_acyclic_partial (iso : Str → Bool) (pfx : Str) (wf : WF g n roots)
    (hfresh : NumberingFresh (finalNames g (sanitizeSt g n iso roots)))
    (hfold : FoldInjective n pfx (sanitize g n iso roots)) {jobs : List JJob}
    (hjobs : genJobs g n pfx (sanitize g n iso roots) roots = some jobs) :
    ∀ a c, UpEdge jobs a c → ¬ Reach (UpEdge jobs) c a := by
  rw [genJobs_defined iso pfx wf] at hjobs
  injection hjobs with hjobs
  subst hjobs
  obtain ⟨h, _, _⟩ := sanitize_final iso wf
  exact job_graph_acyclic_core h (visited_known iso wf) wf.vdeps
    (fun v w hs => by
      by_cases hv : (sanitizeSt g n iso roots).v2j v ≠ none
      · have hw : (sanitizeSt g n iso roots).v2j w ≠ none := by
          obtain ⟨k, _, hk⟩ := hs; rw [hk]; simp
        exact (names_unique_partial iso pfx wf hfresh hfold hv hw).mpr hs
      · obtain ⟨k, hk, _⟩ := hs; exact absurd (by rw [hk]; simp) hv)
    (fun v w hv hw he => (names_unique_partial iso pfx wf hfresh hfold hv hw).mp he)

/-- `genJenkinsBuildOrder` never reports "Jobs are cyclic" (under the same hypotheses) -/
theorem build_order_never_cyclic_partial (iso : Str → Bool) (pfx : Str) (wf : WF g n roots)
    (hfresh : NumberingFresh (finalNames g (sanitizeSt g n iso roots)))
    (hfold : FoldInjective n pfx (sanitize g n iso roots)) {jobs : List JJob}
    (hjobs : genJobs g n pfx (sanitize g n iso roots) roots = some jobs) :
    (buildOrder jobs).isSome = true :=
  buildOrder_isSome (job_graph_acyclic_partial iso pfx wf hfresh hfold hjobs)

/-! ## witnesses -/

section witness

/-- F-C20-1: recipes `a.b` (root) -> `x` -> `a+b` -/
def wG : Graph :=
  { deps := fun v => match v with | 0 => [1] | 1 => [2] | _ => []
    vdeps := fun v => match v with | 0 => [1] | 1 => [2] | _ => []
    pkgName := fun v => match v with | 0 => "a.b".toList | 1 => "x".toList | _ => "a+b".toList
    recipe := fun v => match v with | 0 => "a.b".toList | 1 => "x".toList | _ => "a+b".toList }

theorem wG_wf : WF wG 3 [0] :=
  { dag := ⟨fun v => 3 - v, by
      intro v d hd
      match v, hd with
      | 0, hd => simp [wG] at hd; subst hd; decide
      | 1, hd => simp [wG] at hd; subst hd; decide
      | _ + 2, hd => simp [wG] at hd, fun v => by show 3 - v ≤ 3; omega⟩
    depsLt := by
      intro v d hd
      match v, hd with
      | 0, hd => simp [wG] at hd; subst hd; decide
      | 1, hd => simp [wG] at hd; subst hd; decide
      | _ + 2, hd => simp [wG] at hd
    rootsLt := by decide
    vdeps := fun _ _ h => h }

/-- the three package steps are three abstract jobs, but `a.b` and `a+b` get the same job name `a_b` -/
theorem names_unique_fails : ¬ names_unique_goal := by
  intro h
  obtain ⟨k, h0, h2⟩ := h wG 3 [0] (fun _ => false) [] wG_wf 0 2 (by decide) (by decide) (by decide)
  have e0 : (sanitizeSt wG 3 (fun _ => false) [0]).v2j 0 = some 0 := by decide
  have e2 : (sanitizeSt wG 3 (fun _ => false) [0]).v2j 2 = some 2 := by decide
  rw [e0] at h0; rw [e2] at h2
  cases h0; cases h2

/-- and the generated job graph is cyclic (`a_b -> x -> a_b`): the model reproduces "Jobs are cyclic" -/
theorem job_graph_cyclic_witness :
    (genJobs wG 3 [] (sanitize wG 3 (fun _ => false) [0]) [0]).map buildOrder = some none := by
  decide

/-- F-C20-2: `root -> a-1 -> q -> a` (variant using a tool of `p`) `-> p -> a` (variant without the tool).
The two variants of `a` cannot be merged and share the longest prefix `a`, so they are numbered `a-1`, `a-2`;
`a-1` is also the name of the recipe `a-1`. -/
def nG : Graph :=
  { deps := fun v => match v with | 0 => [1] | 1 => [2] | 2 => [3] | 3 => [4] | 4 => [5] | _ => []
    vdeps := fun v => match v with | 0 => [1] | 1 => [2] | 2 => [3] | 3 => [4] | 4 => [5] | _ => []
    pkgName := fun v => match v with
      | 0 => "root".toList | 1 => "a-1".toList | 2 => "q".toList | 3 => "a".toList | 4 => "p".toList | _ => "a".toList
    recipe := fun v => match v with
      | 0 => "root".toList | 1 => "a-1".toList | 2 => "q".toList | 3 => "a".toList | 4 => "p".toList | _ => "a".toList }

/-- the recipe `a-1` and the first variant of `a` are different abstract jobs with the same display name, and
the generated job graph is cyclic (`a-1 -> q -> a-1`) -/
theorem numbering_collision_witness :
    (sanitizeSt nG 6 (fun _ => false) [0]).v2j 1 = some 1 ∧ (sanitizeSt nG 6 (fun _ => false) [0]).v2j 3 = some 3 ∧
    sanitize nG 6 (fun _ => false) [0] 1 = sanitize nG 6 (fun _ => false) [0] 3 ∧
    (genJobs nG 6 [] (sanitize nG 6 (fun _ => false) [0]) [0]).map buildOrder = some none := by
  decide

theorem nG_wf : WF nG 6 [0] :=
  { dag := ⟨fun v => 6 - v, by
      intro v d hd
      match v, hd with
      | 0, hd => simp [nG] at hd; subst hd; decide
      | 1, hd => simp [nG] at hd; subst hd; decide
      | 2, hd => simp [nG] at hd; subst hd; decide
      | 3, hd => simp [nG] at hd; subst hd; decide
      | 4, hd => simp [nG] at hd; subst hd; decide
      | _ + 5, hd => simp [nG] at hd, fun v => by show 6 - v ≤ 6; omega⟩
    depsLt := by
      intro v d hd
      match v, hd with
      | 0, hd => simp [nG] at hd; subst hd; decide
      | 1, hd => simp [nG] at hd; subst hd; decide
      | 2, hd => simp [nG] at hd; subst hd; decide
      | 3, hd => simp [nG] at hd; subst hd; decide
      | 4, hd => simp [nG] at hd; subst hd; decide
      | _ + 5, hd => simp [nG] at hd
    rootsLt := by decide
    vdeps := fun _ _ h => h }

theorem display_names_unique_fails : ¬ display_names_unique_goal := by
  intro h
  obtain ⟨k, h1, h3⟩ := h nG 6 [0] (fun _ => false) nG_wf 1 3 (by decide) (by decide) numbering_collision_witness.2.2.1
  rw [numbering_collision_witness.1] at h1
  rw [numbering_collision_witness.2.1] at h3
  cases h1; cases h3

/-- a non-trivial instance of the hypotheses: recipe `m` with packages `m-a` (root) -> `x` -> `m-b`.  The two
packages of `m` cannot be merged, get the names `m-a` / `m-b` from the longest prefix rule, the job graph
is `m-a -> x -> m-b`. -/
def okG : Graph :=
  { deps := fun v => match v with | 0 => [1] | 1 => [2] | _ => []
    vdeps := fun v => match v with | 0 => [1] | 1 => [2] | _ => []
    pkgName := fun v => match v with | 0 => "m-a".toList | 1 => "x".toList | _ => "m-b".toList
    recipe := fun v => match v with | 0 => "m".toList | 1 => "x".toList | _ => "m".toList }

example : NumberingFresh (finalNames okG (sanitizeSt okG 3 (fun _ => false) [0])) ∧
    FoldInjective 3 "P.".toList (sanitize okG 3 (fun _ => false) [0]) ∧
    (genJobs okG 3 "P.".toList (sanitize okG 3 (fun _ => false) [0]) [0]).map buildOrder =
      some (some ["p_m-b".toList, "p_x".toList, "p_m-a".toList]) := by
  refine ⟨?_, ?_, ?_⟩
  · unfold NumberingFresh; decide
  · unfold FoldInjective; decide
  · decide

end witness

end C20
