import BobModel.Model.PathSpec
/-
Declarative meaning of package path queries (doc/manpages/bobpaths.rst), independent of the
evaluation strategy of pathspec.py: a location path is evaluated step by step along real
edges of the graph; `descendant` is the transitive closure of the child relation; a path in a
predicate is an *exists* test.
-/
namespace PathSpec

/-- a real edge of the package graph; `qi = false` admits direct dependencies only -/
def edge (g : Graph) (qi : Bool) (a b : Node) : Prop :=
  ∃ e ∈ g.children a, e.node = b ∧ (qi = true ∨ e.direct = true)

def axisRel (g : Graph) : Axis → Node → Node → Prop
  | .self, a, b => a = b
  | .child, a, b => edge g true a b
  | .descendant, a, b => Relation.TransGen (edge g true) a b
  | .descendantOrSelf, a, b => a = b ∨ Relation.TransGen (edge g true) a b
  | .directChild, a, b => edge g false a b
  | .directDescendant, a, b => Relation.TransGen (edge g false) a b
  | .directDescendantOrSelf, a, b => a = b ∨ Relation.TransGen (edge g false) a b

mutual
/-- the predicate expression is true for context package `n` -/
def holds (g : Graph) : Pred → Node → Prop
  | .not p, n => ¬ holds g p n
  | .and l r, n => holds g l n ∧ holds g r n
  | .or l r, n => holds g l n ∨ holds g r n
  | .path abs steps, n => ∃ m, sem g steps (if abs then g.root else n) m
  | .cmp op l r, n => cmpOp op (g.sval l n) (g.sval r n) = true
  | .truth e, n => StringParser.isTrue (g.sval e n) = true
def holdsOpt (g : Graph) : OptPred → Node → Prop
  | .none, _ => True
  | .some p, n => holds g p n
/-- `sem g steps a b`: package `b` is selected by the steps for context package `a` -/
def sem (g : Graph) : Steps → Node → Node → Prop
  | .nil, a, b => a = b
  | .cons ax test op rest, a, b =>
    ∃ c, axisRel g ax a c ∧ nameTest test (g.name c) = true ∧ holdsOpt g op c ∧ sem g rest c b
end

/-- well-formed persisted graph: keys are `0 .. size-1`, and a (parent, child) pair occurs
under one name only -/
structure Graph.WF (g : Graph) : Prop where
  root_lt : g.root < g.size
  edge_lt : ∀ p e, e ∈ g.children p → e.node < g.size
  targets_nodup : ∀ p, ((g.children p).map (·.node)).Nodup

/-- a real path from `a` to `b` along the child names `stack`, every node after `a` in `valid` -/
def PathWithin (g : Graph) (valid : List Node) : Node → List Str → Node → Prop
  | a, [], b => a = b
  | a, nm :: rest, b => ∃ e ∈ g.children a, e.name = nm ∧ e.node ∈ valid ∧ PathWithin g valid e.node rest b

/-- `b` is `a` or a descendant of `a` (along any dependency edge) -/
def Reach (g : Graph) (a b : Node) : Prop := a = b ∨ Relation.TransGen (edge g true) a b

/-- the graph has no cycle -/
def Graph.Acyclic (g : Graph) : Prop := ∀ a, ¬ Relation.TransGen (edge g true) a a

/-- a step is "complex" for the empty-result modes: wildcard name test, predicate, or a
descendant axis -/
def stepComplex (ax : Axis) (test : Str) (op : OptPred) : Bool :=
  test.contains '*' || op.isSome ||
    (ax == .descendant || ax == .descendantOrSelf || ax == .directDescendant || ax == .directDescendantOrSelf)

def Steps.take : Nat → Steps → Steps
  | 0, _ => .nil
  | _ + 1, .nil => .nil
  | n + 1, .cons ax test op rest => .cons ax test op (rest.take n)

def Steps.length : Steps → Nat
  | .nil => 0
  | .cons _ _ _ rest => rest.length + 1

def Steps.anyComplex : Steps → Bool
  | .nil => false
  | .cons ax test op rest => stepComplex ax test op || rest.anyComplex

/-- a real path from `a` to `b` along the names `stack` that is admitted by the axis -/
def axisPath (g : Graph) : Axis → Node → List Str → Node → Prop
  | .self, a, s, b => s = [] ∧ a = b
  | .child, a, s, b => ∃ e ∈ g.children a, s = [e.name] ∧ e.node = b
  | .directChild, a, s, b => ∃ e ∈ g.children a, s = [e.name] ∧ e.node = b ∧ e.direct = true
  | .descendant, a, s, b => s ≠ [] ∧ PathWithin g (List.range g.size) a s b
  | .descendantOrSelf, a, s, b => PathWithin g (List.range g.size) a s b
  | .directDescendant, a, s, b => s ≠ [] ∧ PathWithin { g with children := fun i => (g.children i).filter (·.direct) } (List.range g.size) a s b
  | .directDescendantOrSelf, a, s, b => PathWithin { g with children := fun i => (g.children i).filter (·.direct) } (List.range g.size) a s b

/-- the path `stack` from `a` to `b` passes through the steps of the query: it can be cut into one
piece per step, each piece admitted by the axis and ending in a package that passes the name test
and the predicate of the step -/
def semPath (g : Graph) : Steps → Node → List Str → Node → Prop
  | .nil, a, s, b => s = [] ∧ a = b
  | .cons ax test op rest, a, s, b =>
    ∃ c s1 s2, s = s1 ++ s2 ∧ axisPath g ax a s1 c ∧ nameTest test (g.name c) = true ∧ holdsOpt g op c ∧
      semPath g rest c s2 b

end PathSpec
