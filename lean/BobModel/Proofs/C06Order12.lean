import BobModel.Proofs.C06Order11
/-
Ordering invariants of the scheduler model, part 12: **deps_first** for all modes.  The check `chk` of part 6 is
generalised (`gchk`: any "needs" / "covers" relations) and instantiated twice: for the obligation "the dependencies
of `s` are finished" (`Full.chk`, now with `covers` arms for the sequential scheduler: `spawnSeq`, `results`) and
for the obligation "task `k` is done" (`Full.chkD`: needed by `spawnSeq .cook _ false made` for the tasks in `made`,
covered by `waitOnly` / `yieldRel _ false`).  `Full.DepsInv` is `DepsInv` of part 8 with both checks.
-/
namespace Sched
open JobSem

/-- walk along a continuation: every need of an operation holds already or is covered by an operation in front of it -/
def gchk (nd cv : Op → Nat → Prop) : (Nat → Prop) → List Op → Prop
  | _, [] => True
  | C, o :: r => (∀ s, nd o s → C s) ∧ gchk nd cv (fun s => C s ∨ cv o s) r

theorem gchk_mono {nd cv cv' : Op → Nat → Prop} (hcov : ∀ o s, cv o s → cv' o s) :
    ∀ (l : List Op) (C C' : Nat → Prop), (∀ s, C s → C' s) → gchk nd cv C l → gchk nd cv' C' l
  | [], _, _, _, _ => trivial
  | o :: r, C, C', hC, h => by
    refine ⟨fun s hs => hC s (h.1 s hs), gchk_mono hcov r _ _ ?_ h.2⟩
    intro s hs
    rcases hs with hs | hs
    · exact Or.inl (hC s hs)
    · exact Or.inr (hcov o s hs)

theorem gchk_noneed {nd cv : Op → Nat → Prop} : ∀ (l : List Op) (C : Nat → Prop), (∀ o ∈ l, ∀ s, ¬ nd o s) → gchk nd cv C l
  | [], _, _ => trivial
  | o :: r, C, h => ⟨fun s hs => absurd hs (h o (by simp) s), gchk_noneed r _ (fun o' ho' => h o' (by simp [ho']))⟩

theorem gchk_append {nd cv : Op → Nat → Prop} : ∀ (a b : List Op) (C : Nat → Prop), gchk nd cv C a →
    gchk nd cv (fun s => C s ∨ ∃ o ∈ a, cv o s) b → gchk nd cv C (a ++ b)
  | [], b, C, _, hb => by
    refine gchk_mono (fun _ _ h => h) b _ _ ?_ hb
    intro s hs
    rcases hs with hs | ⟨o, ho, _⟩
    · exact hs
    · cases ho
  | o :: a, b, C, ha, hb => by
    refine ⟨ha.1, gchk_append a b _ ha.2 (gchk_mono (fun _ _ h => h) b _ _ ?_ hb)⟩
    intro s hs
    rcases hs with hs | ⟨o', ho', hc⟩
    · exact Or.inl (Or.inl hs)
    · rcases List.mem_cons.mp ho' with e | e
      · subst e; exact Or.inl (Or.inr hc)
      · exact Or.inr ⟨o', e, hc⟩

theorem gchk_replace {nd cv cv' : Op → Nat → Prop} {H H' : Nat → Prop} {op : Op} {rest body : List Op}
    (hD : ∀ s, H s → H' s) (hcov : ∀ o s, cv o s → cv' o s)
    (h : gchk nd cv H (op :: rest)) (hbody : gchk nd cv' H' body)
    (htrans : ∀ s, cv op s → H' s ∨ ∃ o ∈ body, cv' o s) : gchk nd cv' H' (body ++ rest) := by
  refine gchk_append body rest _ hbody (gchk_mono hcov rest _ _ ?_ h.2)
  intro s hs
  rcases hs with hs | hs
  · exact Or.inl (hD s hs)
  · exact htrans s hs

theorem gchk_cons_noneed {nd cv : Op → Nat → Prop} {o : Op} {r : List Op} {C : Nat → Prop} (hn : ∀ s, ¬ nd o s)
    (h : gchk nd cv C r) : gchk nd cv C (o :: r) :=
  ⟨fun s hs => absurd hs (hn s), gchk_mono (fun _ _ h => h) r _ _ (fun _ hs => Or.inl hs) h⟩

namespace Full

/-- every valid dependency of `s` is finished or cooked by one of the tasks `ks`, which is done -/
def coveredDone (P : Project) (st : St) (s : Nat) (ks : List Nat) : Prop :=
  ∀ d ∈ (P.info s).deps, (P.info d).valid = true →
    finishedOk P st.trace (P.info d).path = true ∨ ∃ k ∈ ks, cooks P st k d ∧ (st.task k).ops = []

def covers (P : Project) (st : St) (o : Op) (s : Nat) : Prop :=
  match o with
  | .cook steps co => co = false ∧ covered P st s steps []
  | .spawn trk todo co => trk = .cook ∧ co = false ∧ covered P st s todo []
  | .yieldRel ks rs => rs = true ∧ covered P st s [] ks
  | .gather ks => covered P st s [] ks
  | .spawnSeq trk todo co made => trk = .cook ∧ co = false ∧ covered P st s todo made
  | .results made => coveredDone P st s made
  | _ => False

abbrev chk (P : Project) (st : St) : (Nat → Prop) → List Op → Prop := gchk (needs P) (covers P st)

/-- the sequential spawn loop of cook tasks needs the tasks it has collected to be done -/
def needsD (o : Op) (k : Nat) : Prop :=
  match o with
  | .spawnSeq trk _ co made => trk = .cook ∧ co = false ∧ k ∈ made
  | _ => False

def coversD (st : St) (o : Op) (k : Nat) : Prop :=
  match o with
  | .waitOnly ks => k ∈ ks ∧ k < st.tasks.length
  | .yieldRel ks rs => rs = false ∧ k ∈ ks ∧ k < st.tasks.length
  | _ => False

def doneAt (st : St) (k : Nat) : Prop := (st.task k).ops = [] ∧ k < st.tasks.length

abbrev chkD (st : St) : (Nat → Prop) → List Op → Prop := gchk needsD (coversD st)

macro "dnone" : tactic =>
  `(tactic| first | exact trivial | (refine gchk_noneed _ _ ?_; simp [needsD]))
macro "dnoc" : tactic => `(tactic| (intro k hk; simp [coversD] at hk))

theorem chk_mono {P : Project} {st st' : St} (hcov : ∀ o s, covers P st o s → covers P st' o s) :
    ∀ (l : List Op) (C C' : Nat → Prop), (∀ s, C s → C' s) → chk P st C l → chk P st' C' l :=
  fun l C C' hC h => gchk_mono hcov l C C' hC h

theorem chk_noneed {P : Project} {st : St} (l : List Op) (C : Nat → Prop) (h : ∀ o ∈ l, ∀ s, ¬ needs P o s) :
    chk P st C l := gchk_noneed l C h

theorem chk_replace {P : Project} {st st' : St} {op : Op} {rest body : List Op}
    (hD : ∀ s, depsDone P st s → depsDone P st' s)
    (hcov : ∀ o s, covers P st o s → covers P st' o s)
    (h : chk P st (depsDone P st) (op :: rest))
    (hbody : chk P st' (depsDone P st') body)
    (htrans : ∀ s, covers P st op s → depsDone P st' s ∨ ∃ o ∈ body, covers P st' o s) :
    chk P st' (depsDone P st') (body ++ rest) := gchk_replace hD hcov h hbody htrans

theorem chk_cons_noneed {P : Project} {g : St} {o : Op} {r : List Op} {C : Nat → Prop} (hn : ∀ s, ¬ needs P o s)
    (h : chk P g C r) : chk P g C (o :: r) := gchk_cons_noneed hn h

theorem chk_filter {P : Project} {st : St} (C : Nat → Prop) (r : List Op) : chk P st C (r.filter Op.isFin) := by
  refine gchk_noneed _ _ ?_
  intro o ho s hn
  have := (List.mem_filter.mp ho).2
  cases o <;> simp [Op.isFin] at this <;> simp [needs] at hn

theorem chkD_filter {st : St} (C : Nat → Prop) (r : List Op) : chkD st C (r.filter Op.isFin) := by
  refine gchk_noneed _ _ ?_
  intro o ho s hn
  have := (List.mem_filter.mp ho).2
  cases o <;> simp [Op.isFin] at this <;> simp [needsD] at hn

theorem coversD_mono {st g : St} (h : st.tasks.length ≤ g.tasks.length) {o : Op} {k : Nat} (hc : coversD st o k) :
    coversD g o k := by
  cases o <;> simp only [coversD] at hc ⊢
  case waitOnly ks => exact ⟨hc.1, by omega⟩
  case yieldRel ks rs => exact ⟨hc.1, hc.2.1, by omega⟩

theorem covers_mono {P : Project} {st g : St} (h : ∃ evs, g.trace = st.trace ++ evs)
    (hk : ∀ k d, cooks P st k d → cooks P g k d)
    (hdn : ∀ k, k < st.tasks.length → (st.task k).ops = [] → (g.task k).ops = [])
    (o : Op) (s : Nat) (hc : covers P st o s) : covers P g o s := by
  cases o <;> simp only [covers] at hc ⊢
  case cook steps co => exact ⟨hc.1, covered_mono h hk hc.2⟩
  case spawn trk todo co => exact ⟨hc.1, hc.2.1, covered_mono h hk hc.2.2⟩
  case yieldRel ks rs => exact ⟨hc.1, covered_mono h hk hc.2⟩
  case gather ks => exact covered_mono h hk hc
  case spawnSeq trk todo co made => exact ⟨hc.1, hc.2.1, covered_mono h hk hc.2.2⟩
  case results made =>
    obtain ⟨evs, he⟩ := h
    intro d hd hv
    rcases hc d hd hv with h1 | ⟨k, hk1, hk2, hk3⟩
    · left; rw [he]; exact finishedOk_append _ _ _ h1
    · have hlt : k < st.tasks.length := by
        obtain ⟨d', c1, _, _⟩ := hk2
        exact kind_lt c1
      exact Or.inr ⟨k, hk1, hk k d hk2, hdn k hlt hk3⟩

structure DepsInv (P : Project) (st : St) : Prop where
  ranFin : ∀ p, RanAt st.wasRun p → finishedOk P st.trace p = true
  setFin : ∀ i, setFinOK P st.trace (st.task i).ops
  live : ∀ i, liveOK P st.trace (st.task i)
  track : Track P st
  sv : ∀ i, ∀ o ∈ (st.task i).ops, SVop P o
  ord : ∀ i, chk P st (depsDone P st) (st.task i).ops
  first : depsFirstFrom P [] st.trace = true
  ordD : ∀ i, chkD st (doneAt st) (st.task i).ops

/-- general form of a step of task `t` -/
theorem DepsInv.update {P : Project} {st g : St} {new : List Task} {t : Nat} (hi : DepsInv P st)
    (hg : GrowT st g new) (ht : t < st.tasks.length) (hne : (st.task t).ops ≠ []) (x' : Task)
    (hk : x'.kind = (st.task t).kind)
    (htr : ∃ evs, g.trace = st.trace ++ evs)
    (hran : ∀ p, RanAt g.wasRun p → finishedOk P g.trace p = true)
    (hset : setFinOK P g.trace x'.ops)
    (hlive : liveOK P g.trace x')
    (hT : Track P g)
    (hsv : ∀ o ∈ x'.ops, SVop P o)
    (hord : chk P g (depsDone P g) x'.ops)
    (hordD : chkD g (doneAt g) x'.ops)
    (hfirst : depsFirstFrom P [] g.trace = true) : DepsInv P (g.setTask t x') := by
  have hgt : g.task t = st.task t := task_append_left hg.tasks ht
  have hdn1 : ∀ k, (st.task k).ops = [] ∧ k < st.tasks.length → ((g.setTask t x').task k).ops = [] ∧
      k < (g.setTask t x').tasks.length := by
    intro k ⟨h1, h2⟩
    have hkt : k ≠ t := by intro e; subst e; exact hne h1
    rcases task_cases x' hg ht k with h | h | h | h
    · exact absurd h.1 hkt
    · refine ⟨by rw [h.2.2]; exact h1, ?_⟩
      simp only [setTask_tasks, List.length_set, hg.tasks, List.length_append]; omega
    · omega
    · omega
  have hdn2 : ∀ k, (g.task k).ops = [] ∧ k < g.tasks.length → ((g.setTask t x').task k).ops = [] ∧
      k < (g.setTask t x').tasks.length := by
    intro k ⟨h1, h2⟩
    have hkt : k ≠ t := by intro e; subst e; rw [hgt] at h1; exact hne h1
    refine ⟨?_, by simpa using h2⟩
    have : (g.setTask t x').task k = g.task k := by
      simp [St.task, St.setTask, List.getD, Ne.symm hkt]
    rw [this]; exact h1
  have hlen1 : st.tasks.length ≤ (g.setTask t x').tasks.length := by
    simp only [setTask_tasks, List.length_set, hg.tasks, List.length_append]; omega
  have hlen2 : g.tasks.length ≤ (g.setTask t x').tasks.length := by simp
  have hk' : x'.kind = (g.task t).kind := by rw [hgt]; exact hk
  have hcooks : ∀ k d, cooks P st k d → cooks P (g.setTask t x') k d :=
    fun k d h => cooks_setTask g t x' hk' k d (cooks_grow hg.tasks h)
  have hcov1 : ∀ o s, covers P st o s → covers P (g.setTask t x') o s :=
    fun o s h => covers_mono (g := g.setTask t x') htr hcooks (fun k h1 h2 => (hdn1 k ⟨h2, h1⟩).1) o s h
  have hcov2 : ∀ o s, covers P g o s → covers P (g.setTask t x') o s :=
    fun o s h => covers_mono (g := g.setTask t x') ⟨[], by simp⟩ (cooks_setTask g t x' hk')
      (fun k h1 h2 => (hdn2 k ⟨h2, h1⟩).1) o s h
  obtain ⟨evs, he⟩ := htr
  refine ⟨hran, ?_, ?_, ?_, ?_, ?_, hfirst, ?_⟩
  rotate_left 5
  · intro i
    rcases task_cases x' hg ht i with h | h | h | h
    · rw [h.2]
      exact gchk_mono (fun o k hc => coversD_mono hlen2 hc) _ _ _ hdn2 hordD
    · rw [h.2.2]
      exact gchk_mono (fun o k hc => coversD_mono hlen1 hc) _ _ _ hdn1 (hi.ordD i)
    · refine gchk_noneed _ _ ?_
      intro o ho s hn
      rcases h.2.2.ops_mem o ho with e | e | ⟨a, e⟩ <;> subst e <;> simp [needsD] at hn
    · rw [h.2.2]; trivial
  · intro i
    rcases task_cases x' hg ht i with h | h | h | h
    · rw [h.2]; exact hset
    · rw [h.2.2]
      intro s hs
      rcases hi.setFin i s hs with h1 | h1
      · left; simp only [setTask_trace, he]; exact finishedOk_append _ _ _ h1
      · exact Or.inr h1
    · intro s hs
      rcases h.2.2.ops_mem _ hs with e | e | ⟨a, e⟩ <;> cases e
    · rw [h.2.2]; intro s hs; cases hs
  · intro i
    rcases task_cases x' hg ht i with h | h | h | h
    · rw [h.2]; exact hlive
    · rw [h.2.2]
      intro s h1 h2
      rcases hi.live i s h1 h2 with h3 | h3 | h3
      · exact Or.inl h3
      · right; left; simp only [setTask_trace, he]; exact finishedOk_append _ _ _ h3
      · exact Or.inr (Or.inr h3)
    · intro s _ _
      right; right
      rcases h.2.2.2 with e | ⟨a, e⟩ <;> rw [e] <;> exact ⟨.start, by simp, rfl⟩
    · rw [h.2.2]; intro s h1; cases h1
  · intro key k hm
    obtain ⟨d, h1, h2, h3⟩ := hT key k hm
    exact ⟨d, by rw [task_kind_setTask g t x' hk']; exact h1, h2, h3⟩
  · intro i o ho
    rcases task_cases x' hg ht i with h | h | h | h
    · rw [h.2] at ho; exact hsv o ho
    · rw [h.2.2] at ho; exact hi.sv i o ho
    · rcases h.2.2.ops_mem _ ho with e | e | ⟨a, e⟩ <;> subst e <;> trivial
    · rw [h.2.2] at ho; cases ho
  · intro i
    rcases task_cases x' hg ht i with h | h | h | h
    · rw [h.2]
      exact chk_mono hcov2 _ _ _ (fun s hs => hs) hord
    · rw [h.2.2]
      refine chk_mono hcov1 _ _ _ ?_ (hi.ord i)
      intro s hs
      exact depsDone_mono (g := g.setTask t x') ⟨evs, by simp [he]⟩ s hs
    · exact chk_noneed _ _ h.2.2.noneed
    · rw [h.2.2]; trivial

/-- the head operation `op` is replaced by `body`; no script starts -/
theorem DepsInv.bodyStep {P : Project} {st g : St} {new : List Task} {t : Nat} {op : Op} {rest : List Op}
    (hi : DepsInv P st) (hops : (st.task t).ops = op :: rest) (hg : GrowT st g new)
    (hran : ∀ p, RanAt g.wasRun p → finishedOk P g.trace p = true) (htr' : ∃ evs, g.trace = st.trace ++ evs)
    (hfirst : depsFirstFrom P [] g.trace = true)
    (hT : Track P g) (body : List Op) (e : Option Err) (he : (st.task t).err.isSome = true → e.isSome = true)
    (b1 : chk P g (depsDone P g) body)
    (b2 : ∀ s, covers P st op s → depsDone P g s ∨ ∃ o ∈ body, covers P g o s)
    (b3 : ∀ s, Op.setRun s false ∈ body → finishedOk P g.trace (P.info s).path = true ∨ Op.run s ∈ body)
    (b4 : ∀ s, (op = .run s ∨ ∃ r, op = .runWait s r) →
      finishedOk P g.trace (P.info s).path = true ∨ Op.run s ∈ body ∨ ∃ r, Op.runWait s r ∈ body)
    (b5 : ∀ s, liveFor s op = true → (st.task t).kind = .cook s false → (P.info s).valid = true →
      finishedOk P g.trace (P.info s).path = true ∨ ∃ o ∈ body, liveFor s o = true)
    (b6 : ∀ o ∈ body, SVop P o)
    (d1 : chkD g (doneAt g) body := by dnone)
    (d2 : ∀ k, coversD st op k → doneAt g k ∨ ∃ o ∈ body, coversD g o k := by dnoc) :
    DepsInv P (g.setTask t { kind := (st.task t).kind, ops := body ++ rest, err := e }) := by
  have ht := task_lt hops
  have hne : (st.task t).ops ≠ [] := by rw [hops]; simp
  have hlen : st.tasks.length ≤ g.tasks.length := by rw [hg.tasks, List.length_append]; omega
  have hdn : ∀ k, (st.task k).ops = [] ∧ k < st.tasks.length → (g.task k).ops = [] ∧ k < g.tasks.length := by
    intro k ⟨h1, h2⟩
    exact ⟨by rw [task_append_left hg.tasks h2]; exact h1, by omega⟩
  obtain ⟨evs, hev⟩ := htr'
  have htr' : ∃ evs, g.trace = st.trace ++ evs := ⟨evs, hev⟩
  have hcooks : ∀ k d, cooks P st k d → cooks P g k d := fun k d h => cooks_grow hg.tasks h
  refine hi.update hg ht hne _ rfl htr' hran ?_ ?_ hT ?_ ?_ ?_ hfirst
  rotate_left 4
  · have hordD := hi.ordD t
    rw [hops] at hordD
    exact gchk_replace hdn (fun o k hc => coversD_mono hlen hc) hordD d1 d2
  · intro s hs
    simp only [List.mem_append] at hs ⊢
    rcases hs with hs | hs
    · rcases b3 s hs with h | h
      · exact Or.inl h
      · exact Or.inr (Or.inl (Or.inl h))
    · have hold := hi.setFin t s (by rw [hops]; exact List.mem_cons_of_mem _ hs)
      rw [hops] at hold
      rcases hold with h | h | ⟨r, h⟩
      · left; rw [hev]; exact finishedOk_append _ _ _ h
      · rcases List.mem_cons.mp h with e1 | e1
        · rcases b4 s (Or.inl e1.symm) with h' | h' | ⟨r, h'⟩
          · exact Or.inl h'
          · exact Or.inr (Or.inl (Or.inl h'))
          · exact Or.inr (Or.inr ⟨r, Or.inl h'⟩)
        · exact Or.inr (Or.inl (Or.inr e1))
      · rcases List.mem_cons.mp h with e1 | e1
        · rcases b4 s (Or.inr ⟨r, e1.symm⟩) with h' | h' | ⟨r', h'⟩
          · exact Or.inl h'
          · exact Or.inr (Or.inl (Or.inl h'))
          · exact Or.inr (Or.inr ⟨r', Or.inl h'⟩)
        · exact Or.inr (Or.inr ⟨r, Or.inr e1⟩)
  · intro s h1 h2
    rcases hi.live t s h1 h2 with h3 | h3 | ⟨o, ho, hl⟩
    · exact Or.inl (he h3)
    · right; left; rw [hev]; exact finishedOk_append _ _ _ h3
    · rw [hops] at ho
      rcases List.mem_cons.mp ho with e1 | e1
      · subst e1
        rcases b5 s hl h1 h2 with h' | ⟨o', ho', hl'⟩
        · exact Or.inr (Or.inl h')
        · exact Or.inr (Or.inr ⟨o', by simp [ho'], hl'⟩)
      · exact Or.inr (Or.inr ⟨o, by simp [e1], hl⟩)
  · intro o ho
    simp only [List.mem_append] at ho
    rcases ho with ho | ho
    · exact b6 o ho
    · exact hi.sv t o (by rw [hops]; exact List.mem_cons_of_mem _ ho)
  · have hord := hi.ord t
    rw [hops] at hord
    exact chk_replace (fun s hs => depsDone_mono htr' s hs)
      (fun o s h => covers_mono htr' hcooks (fun k h1 h2 => (hdn k ⟨h2, h1⟩).1) o s h) hord b1 b2

/-- the `wasRun` table is kept and no script starts -/
theorem DepsInv.quiet {P : Project} {st g : St} (hi : DepsInv P st) (hwr : g.wasRun = st.wasRun)
    (htr : ∃ evs, g.trace = st.trace ++ evs ∧ ∀ e ∈ evs, e.isStart = false) :
    (∀ p, RanAt g.wasRun p → finishedOk P g.trace p = true) ∧ (∃ evs, g.trace = st.trace ++ evs) ∧
    depsFirstFrom P [] g.trace = true := by
  obtain ⟨evs, hev, hq⟩ := htr
  refine ⟨?_, ⟨evs, hev⟩, ?_⟩
  · intro p hp
    rw [hwr] at hp
    rw [hev]; exact finishedOk_append _ _ _ (hi.ranFin p hp)
  · rw [hev, depsFirstFrom_append, hi.first, depsFirstFrom_quiet _ _ hq]; rfl

/-- an exception starts to propagate -/
theorem DepsInv.raiseStep {P : Project} {st g : St} {t : Nat} {op : Op} {rest : List Op} (e : Err)
    (hi : DepsInv P st) (hops : (st.task t).ops = op :: rest) (hg : g.tasks = st.tasks) (hc : g.cookT = st.cookT)
    (hwr : g.wasRun = st.wasRun) (htr : ∃ evs, g.trace = st.trace ++ evs ∧ ∀ e ∈ evs, e.isStart = false) :
    DepsInv P (g.setTask t (raise (st.task t) e rest)) := by
  have ht := task_lt hops
  obtain ⟨evs, hev, hq⟩ := htr
  refine hi.update (GrowT.same hg) ht (by rw [hops]; simp) _ rfl ⟨evs, hev⟩ ?_ ?_ ?_ ?_ ?_ (chk_filter _ _)
    (chkD_filter _ _) ?_
  · intro p hp
    rw [hwr] at hp
    rw [hev]; exact finishedOk_append _ _ _ (hi.ranFin p hp)
  · intro s hs
    have := (List.mem_filter.mp hs).2
    simp [Op.isFin] at this
  · intro s _ _
    exact Or.inl rfl
  · exact hi.track.grow (new := []) (by simp [hg]) (by rw [hc]; exact fun e he => he)
  · intro o ho
    have := (List.mem_filter.mp ho).2
    cases o <;> simp [Op.isFin] at this <;> trivial
  · rw [hev, depsFirstFrom_append, hi.first, depsFirstFrom_quiet _ _ hq]; rfl


end Full
end Sched
