import BobModel.Proofs.C20Final
/-
C20: `_genJenkinsJobs` / `getUpstreamJobs` -- which packages are visited, how they are grouped into
jobs and what the upstream sets contain.
-/
namespace Jenkins

/-- reachability along valid dependencies (what has to be built for a root) -/
abbrev VReach (g : Graph) : Nat → Nat → Prop := Reach (fun a b => b ∈ g.vdeps a)

theorem mem_foldl_union (f : Nat → List Nat) : ∀ (L acc : List Nat) (x : Nat),
    x ∈ L.foldl (fun acc v => union acc (f v)) acc ↔ x ∈ acc ∨ ∃ v ∈ L, x ∈ f v := by
  intro L
  induction L with
  | nil => intro acc x; simp
  | cons a L ih =>
    intro acc x
    simp only [List.foldl_cons, ih, mem_union, List.mem_cons, exists_eq_or_imp]
    constructor
    · rintro ((h | h) | h)
      · exact Or.inl h
      · exact Or.inr (Or.inl h)
      · exact Or.inr (Or.inr h)
    · rintro (h | h | h)
      · exact Or.inl (Or.inl h)
      · exact Or.inl (Or.inr h)
      · exact Or.inr h

theorem mem_expand {g : Graph} {vis : List Nat} {x : Nat} :
    x ∈ expand g vis ↔ x ∈ vis ∨ ∃ v ∈ vis, x ∈ g.vdeps v := mem_foldl_union g.vdeps vis vis x

theorem mem_visited_zero {g : Graph} {roots : List Nat} {x : Nat} : x ∈ visited g roots 0 ↔ x ∈ roots := by
  unfold visited
  rw [mem_foldl_union (fun r => [r]) roots [] x]
  simp

theorem visited_mono {g : Graph} {roots : List Nat} {x : Nat} : ∀ {k k' : Nat}, k ≤ k' → x ∈ visited g roots k →
    x ∈ visited g roots k' := by
  intro k k' h
  induction h with
  | refl => exact id
  | step _ ih => intro hx; exact mem_expand.mpr (Or.inl (ih hx))

theorem visited_sound {g : Graph} {roots : List Nat} : ∀ (k : Nat) (x : Nat), x ∈ visited g roots k →
    ∃ r ∈ roots, VReach g r x := by
  intro k
  induction k with
  | zero => intro x hx; exact ⟨x, mem_visited_zero.mp hx, Reach.refl _⟩
  | succ k ih =>
    intro x hx
    rcases mem_expand.mp hx with hx | ⟨v, hv, hx⟩
    · exact ih x hx
    · obtain ⟨r, hr, hrv⟩ := ih v hv
      exact ⟨r, hr, Reach.tail hrv hx⟩

theorem VReach.rank {g : Graph} {rank : Nat → Nat} (hr : ∀ v, ∀ d ∈ g.vdeps v, rank d < rank v) {v w : Nat}
    (h : VReach g v w) : rank w ≤ rank v := by
  induction h with
  | refl => exact Nat.le_refl _
  | tail _ e ih => exact Nat.le_trans (Nat.le_of_lt (hr _ _ e)) ih

theorem visited_complete {g : Graph} {roots : List Nat} {rank : Nat → Nat} {n : Nat}
    (hr : ∀ v, ∀ d ∈ g.vdeps v, rank d < rank v) (hrk : ∀ v, rank v ≤ n) {r x : Nat} (hroot : r ∈ roots)
    (h : VReach g r x) : x ∈ visited g roots n := by
  have key : x ∈ visited g roots (rank r - rank x) := by
    induction h with
    | refl => exact visited_mono (Nat.zero_le _) (mem_visited_zero.mpr hroot)
    | @tail b c hb e ih =>
      have h1 := hr b c e
      have h2 := VReach.rank hr hb
      have : c ∈ visited g roots (rank r - rank b + 1) := mem_expand.mpr (Or.inr ⟨b, ih, e⟩)
      exact visited_mono (by omega) this
  exact visited_mono (by have := hrk r; omega) key

/-! ### names of the jobs, upstream sets -/

theorem mem_insertNew {l : List Str} {x y : Str} : y ∈ insertNew l x ↔ y ∈ l ∨ y = x := by
  unfold insertNew
  split
  · rename_i h
    have : x ∈ l := by simpa using h
    constructor
    · exact Or.inl
    · rintro (h' | rfl)
      · exact h'
      · exact this
  · simp

theorem nodup_insertNew {l : List Str} {x : Str} (h : l.Nodup) : (insertNew l x).Nodup := by
  unfold insertNew
  split
  · exact h
  · rename_i hx
    have hx' : x ∉ l := by simpa using hx
    rw [List.nodup_append]
    refine ⟨h, by simp, ?_⟩
    intro a ha b hb e; simp at hb; subst hb; subst e; exact hx' ha

def jobNames (nameOf : Nat → Option Str) (vis : List Nat) : List Str :=
  vis.foldl (fun acc v => match nameOf v with | some nm => insertNew acc nm | none => acc) []

theorem jobNames_spec (nameOf : Nat → Option Str) : ∀ (vis : List Nat) (acc : List Str), acc.Nodup →
    (vis.foldl (fun acc v => match nameOf v with | some nm => insertNew acc nm | none => acc) acc).Nodup ∧
    ∀ y, y ∈ vis.foldl (fun acc v => match nameOf v with | some nm => insertNew acc nm | none => acc) acc ↔
      (y ∈ acc ∨ ∃ v ∈ vis, nameOf v = some y) := by
  intro vis
  induction vis with
  | nil => intro acc h; exact ⟨h, fun y => by simp⟩
  | cons a vis ih =>
    intro acc h
    simp only [List.foldl_cons]
    cases ha : nameOf a with
    | none =>
      obtain ⟨r1, r2⟩ := ih acc h
      refine ⟨r1, fun y => ?_⟩
      rw [r2 y]
      constructor
      · rintro (h' | ⟨v, hv, hy⟩)
        · exact Or.inl h'
        · exact Or.inr ⟨v, List.mem_cons_of_mem _ hv, hy⟩
      · rintro (h' | ⟨v, hv, hy⟩)
        · exact Or.inl h'
        · rcases List.mem_cons.mp hv with rfl | hv
          · rw [ha] at hy; cases hy
          · exact Or.inr ⟨v, hv, hy⟩
    | some nm =>
      obtain ⟨r1, r2⟩ := ih (insertNew acc nm) (nodup_insertNew h)
      refine ⟨r1, fun y => ?_⟩
      rw [r2 y, mem_insertNew]
      constructor
      · rintro ((h' | h') | ⟨v, hv, hy⟩)
        · exact Or.inl h'
        · exact Or.inr ⟨a, by simp, by rw [ha, h']⟩
        · exact Or.inr ⟨v, List.mem_cons_of_mem _ hv, hy⟩
      · rintro (h' | ⟨v, hv, hy⟩)
        · exact Or.inl (Or.inl h')
        · rcases List.mem_cons.mp hv with rfl | hv
          · rw [ha] at hy; cases hy; exact Or.inl (Or.inr rfl)
          · exact Or.inr ⟨v, hv, hy⟩

theorem mem_upstream_inner (nameOf : Nat → Option Str) (nm : Str) : ∀ (ds : List Nat) (acc : List Str) (u : Str),
    u ∈ ds.foldl (fun acc d => match nameOf d with
        | some dn => if dn = nm then acc else insertNew acc dn
        | none => acc) acc ↔ (u ∈ acc ∨ ∃ d ∈ ds, nameOf d = some u ∧ u ≠ nm) := by
  intro ds
  induction ds with
  | nil => intro acc u; simp
  | cons a ds ih =>
    intro acc u
    simp only [List.foldl_cons]
    rw [ih]
    cases ha : nameOf a with
    | none =>
      simp only
      constructor
      · rintro (h | ⟨d, hd, h⟩)
        · exact Or.inl h
        · exact Or.inr ⟨d, List.mem_cons_of_mem _ hd, h⟩
      · rintro (h | ⟨d, hd, h1, h2⟩)
        · exact Or.inl h
        · rcases List.mem_cons.mp hd with rfl | hd
          · rw [ha] at h1; cases h1
          · exact Or.inr ⟨d, hd, h1, h2⟩
    | some dn =>
      simp only
      by_cases hdn : dn = nm
      · rw [if_pos hdn]
        constructor
        · rintro (h | ⟨d, hd, h⟩)
          · exact Or.inl h
          · exact Or.inr ⟨d, List.mem_cons_of_mem _ hd, h⟩
        · rintro (h | ⟨d, hd, h1, h2⟩)
          · exact Or.inl h
          · rcases List.mem_cons.mp hd with rfl | hd
            · rw [ha] at h1; cases h1; exact absurd hdn h2
            · exact Or.inr ⟨d, hd, h1, h2⟩
      · rw [if_neg hdn, mem_insertNew]
        constructor
        · rintro ((h | h) | ⟨d, hd, h⟩)
          · exact Or.inl h
          · exact Or.inr ⟨a, by simp, by rw [ha, h], by rw [h]; exact hdn⟩
          · exact Or.inr ⟨d, List.mem_cons_of_mem _ hd, h⟩
        · rintro (h | ⟨d, hd, h1, h2⟩)
          · exact Or.inl (Or.inl h)
          · rcases List.mem_cons.mp hd with rfl | hd
            · rw [ha] at h1; cases h1; exact Or.inl (Or.inr rfl)
            · exact Or.inr ⟨d, hd, h1, h2⟩

theorem mem_upstream_outer (g : Graph) (nameOf : Nat → Option Str) (nm : Str) : ∀ (vis : List Nat) (acc : List Str) (u : Str),
    u ∈ vis.foldl (fun acc v =>
      if nameOf v = some nm then
        (g.vdeps v).foldl (fun acc d => match nameOf d with
          | some dn => if dn = nm then acc else insertNew acc dn
          | none => acc) acc
      else acc) acc ↔
      (u ∈ acc ∨ ∃ v ∈ vis, nameOf v = some nm ∧ ∃ d ∈ g.vdeps v, nameOf d = some u ∧ u ≠ nm) := by
  intro vis
  induction vis with
  | nil => intro acc u; simp
  | cons a vis ih =>
    intro acc u
    simp only [List.foldl_cons]
    rw [ih]
    by_cases ha : nameOf a = some nm
    · rw [if_pos ha, mem_upstream_inner]
      constructor
      · rintro ((h | ⟨d, hd, h⟩) | ⟨v, hv, h⟩)
        · exact Or.inl h
        · exact Or.inr ⟨a, by simp, ha, d, hd, h⟩
        · exact Or.inr ⟨v, List.mem_cons_of_mem _ hv, h⟩
      · rintro (h | ⟨v, hv, h1, h2⟩)
        · exact Or.inl (Or.inl h)
        · rcases List.mem_cons.mp hv with rfl | hv
          · exact Or.inl (Or.inr h2)
          · exact Or.inr ⟨v, hv, h1, h2⟩
    · rw [if_neg ha]
      constructor
      · rintro (h | ⟨v, hv, h⟩)
        · exact Or.inl h
        · exact Or.inr ⟨v, List.mem_cons_of_mem _ hv, h⟩
      · rintro (h | ⟨v, hv, h1, h2⟩)
        · exact Or.inl h
        · rcases List.mem_cons.mp hv with rfl | hv
          · exact absurd h1 ha
          · exact Or.inr ⟨v, hv, h1, h2⟩

theorem mem_upstream {g : Graph} {nameOf : Nat → Option Str} {vis : List Nat} {nm u : Str} :
    u ∈ upstream g nameOf vis nm ↔
      ∃ v ∈ vis, nameOf v = some nm ∧ ∃ d ∈ g.vdeps v, nameOf d = some u ∧ u ≠ nm := by
  unfold upstream
  exact (mem_upstream_outer g nameOf nm vis [] u).trans (by simp)

/-- the jobs `genJobs` returns when every visited package step has a name -/
def mkJobs (g : Graph) (nameOf : Nat → Option Str) (vis : List Nat) : List JJob :=
  (jobNames nameOf vis).map fun nm => ⟨nm, vis.filter (fun v => nameOf v = some nm), upstream g nameOf vis nm⟩

theorem genJobs_eq {g : Graph} {n : Nat} {pfx : Str} {pn : PkgNames} {roots : List Nat}
    (h : ∀ v ∈ visited g roots n, (internalName pfx pn v).isSome = true) :
    genJobs g n pfx pn roots = some (mkJobs g (internalName pfx pn) (visited g roots n)) := by
  unfold genJobs
  simp only
  rw [if_pos (List.all_eq_true.mpr h)]
  rfl

theorem mem_mkJobs {g : Graph} {nameOf : Nat → Option Str} {vis : List Nat} {j : JJob} :
    j ∈ mkJobs g nameOf vis ↔ ∃ nm, (∃ v ∈ vis, nameOf v = some nm) ∧
      j = ⟨nm, vis.filter (fun v => nameOf v = some nm), upstream g nameOf vis nm⟩ := by
  unfold mkJobs jobNames
  rw [List.mem_map]
  constructor
  · rintro ⟨nm, hnm, rfl⟩
    have := ((jobNames_spec nameOf vis [] (by simp)).2 nm).mp hnm
    simp only [List.not_mem_nil, false_or] at this
    exact ⟨nm, this, rfl⟩
  · rintro ⟨nm, hnm, rfl⟩
    exact ⟨nm, ((jobNames_spec nameOf vis [] (by simp)).2 nm).mpr (Or.inr hnm), rfl⟩

theorem mkJobs_names_nodup {g : Graph} {nameOf : Nat → Option Str} {vis : List Nat} :
    ((mkJobs g nameOf vis).map (·.name)).Nodup := by
  unfold mkJobs
  rw [List.map_map]
  have : ((fun x : JJob => x.name) ∘ fun nm => (⟨nm, vis.filter (fun v => nameOf v = some nm), upstream g nameOf vis nm⟩ : JJob)) = id := by
    funext nm; rfl
  rw [this, List.map_id]
  exact (jobNames_spec nameOf vis [] (by simp)).1

/-- an edge of the job graph: job `a` has `b` among its upstream jobs -/
def UpEdge (jobs : List JJob) (a b : Str) : Prop := ∃ j ∈ jobs, j.name = a ∧ b ∈ j.up

theorem upEdge_lift {g : Graph} {nameOf : Nat → Option Str} {vis : List Nat} {a b : Str}
    (h : UpEdge (mkJobs g nameOf vis) a b) :
    ∃ v ∈ vis, ∃ d ∈ g.vdeps v, nameOf v = some a ∧ nameOf d = some b ∧ b ≠ a := by
  obtain ⟨j, hj, hn, hb⟩ := h
  obtain ⟨nm, _, rfl⟩ := mem_mkJobs.mp hj
  simp only at hn hb
  subst hn
  obtain ⟨v, hv, h1, d, hd, h2, h3⟩ := mem_upstream.mp hb
  exact ⟨v, hv, d, hd, h1, h2, h3⟩

/-- the job graph has no cycle when names separate the abstract jobs -/
theorem job_graph_acyclic_core {g : Graph} {n : Nat} {s : St} {nameOf : Nat → Option Str} {vis : List Nat}
    (h : Inv g n s) (hvis : ∀ v ∈ vis, s.v2j v ≠ none) (hvd : ∀ v, ∀ d ∈ g.vdeps v, d ∈ g.deps v)
    (hwd : ∀ v w, SameJobV s.v2j v w → nameOf v = nameOf w)
    (hsep : ∀ v w, s.v2j v ≠ none → s.v2j w ≠ none → nameOf v = nameOf w → SameJobV s.v2j v w) :
    ∀ a c, UpEdge (mkJobs g nameOf vis) a c → ¬ Reach (UpEdge (mkJobs g nameOf vis)) c a := by
  -- a path in the job graph lifts to a path in the quotient graph, from any package step of the first job
  have lift : ∀ c b, Reach (UpEdge (mkJobs g nameOf vis)) c b → ∀ x, s.v2j x ≠ none → nameOf x = some c →
      ∃ y, s.v2j y ≠ none ∧ nameOf y = some b ∧ QReachV g s.v2j x y := by
    intro c b r
    induction r with
    | refl => intro x hx hn; exact ⟨x, hx, hn, Reach.refl _⟩
    | @tail b b' _ e ih =>
      intro x hx hn
      obtain ⟨y, hy, hyn, rxy⟩ := ih x hx hn
      obtain ⟨v, hv, d, hd, h1, h2, _⟩ := upEdge_lift e
      have hvk := hvis v hv
      have hyv : SameJobV s.v2j y v := hsep y v hy hvk (by rw [hyn, h1])
      have hdk : s.v2j d ≠ none := h.closed v hvk d (hvd v d hd)
      exact ⟨d, hdk, h2, Reach.trans rxy (Reach.tail hyv.reach (Or.inr ⟨hvk, hvd v d hd⟩))⟩
  intro a c e r
  obtain ⟨v, hv, d, hd, h1, h2, hne⟩ := upEdge_lift e
  have hvk := hvis v hv
  have hdk : s.v2j d ≠ none := h.closed v hvk d (hvd v d hd)
  obtain ⟨y, hy, hyn, rdy⟩ := lift c a r d hdk h2
  have hyv : SameJobV s.v2j y v := hsep y v hy hvk (by rw [hyn, h1])
  have rvd : QReachV g s.v2j v d := Reach.single (Or.inr ⟨hvk, hvd v d hd⟩)
  have rdv : QReachV g s.v2j d v := Reach.trans rdy hyv.reach
  have := hwd v d (h.acyclic v d rvd rdv hvk)
  rw [h1, h2] at this
  cases this
  exact hne rfl

end Jenkins
