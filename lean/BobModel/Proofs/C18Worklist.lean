import BobModel.Model.PathSpec
/-
Helper lemmas for C18: list-sets, and the worklist loop of `__evalAxisDescendant` /
`__evalAxisAncestor` computes exactly the transitive closure without exhausting its fuel.
-/
namespace PathSpec

/-! ### list sets -/

@[simp] theorem mem_dedup {l : List Node} {x : Node} : x ∈ dedup l ↔ x ∈ l := by
  induction l with
  | nil => simp [dedup]
  | cons y ys ih =>
    simp only [dedup]
    split
    · rename_i h
      have hy : y ∈ ys := by simpa using h
      rw [ih]
      constructor
      · intro hx; exact List.mem_cons_of_mem _ hx
      · intro hx
        rcases List.mem_cons.mp hx with rfl | hx
        · exact hy
        · exact hx
    · simp [ih]

theorem dedup_nodup (l : List Node) : (dedup l).Nodup := by
  induction l with
  | nil => simp [dedup]
  | cons y ys ih =>
    simp only [dedup]
    split
    · exact ih
    · rename_i h
      have hy : y ∉ ys := by simpa using h
      exact List.nodup_cons.mpr ⟨by simpa using hy, ih⟩

@[simp] theorem mem_union {a b : List Node} {x : Node} : x ∈ union a b ↔ x ∈ a ∨ x ∈ b := by
  simp only [union, List.mem_append, List.mem_filter, mem_dedup]
  by_cases h : x ∈ a <;> simp [h]

@[simp] theorem mem_inter {a b : List Node} {x : Node} : x ∈ inter a b ↔ x ∈ a ∧ x ∈ b := by
  simp [inter]

@[simp] theorem mem_diff {a b : List Node} {x : Node} : x ∈ diff a b ↔ x ∈ a ∧ x ∉ b := by
  simp [diff]

theorem superset_iff {a b : List Node} : superset a b = true ↔ ∀ x ∈ b, x ∈ a := by
  simp [superset]

/-! ### transitive closure helpers -/

theorem transGen_head {α : Type} {r : α → α → Prop} {a b c : α}
    (h : r a b) (t : Relation.TransGen r b c) : Relation.TransGen r a c := by
  induction t with
  | single h' => exact .tail (.single h) h'
  | tail _ h' ih => exact .tail ih h'

theorem transGen_trans {α : Type} {r : α → α → Prop} {a b c : α}
    (t1 : Relation.TransGen r a b) (t2 : Relation.TransGen r b c) : Relation.TransGen r a c := by
  induction t2 with
  | single h => exact .tail t1 h
  | tail _ h ih => exact .tail ih h

theorem transGen_flip {α : Type} (r : α → α → Prop) (a b : α) :
    Relation.TransGen (fun x y => r y x) a b ↔ Relation.TransGen r b a := by
  constructor
  · intro t
    induction t with
    | single h => exact .single h
    | tail _ h ih => exact transGen_head h ih
  · intro t
    induction t with
    | single h => exact .single h
    | tail _ h ih => exact transGen_head (r := fun x y => r y x) h ih

theorem transGen_mono {α : Type} {r s : α → α → Prop} (h : ∀ a b, r a b → s a b) {a b : α}
    (t : Relation.TransGen r a b) : Relation.TransGen s a b := by
  induction t with
  | single h' => exact .single (h _ _ h')
  | tail _ h' ih => exact .tail ih (h _ _ h')

/-! ### the worklist loop -/

theorem filter_length_le_of_imp {α : Type} (l : List α) (p q : α → Bool) (h : ∀ x, p x = true → q x = true) :
    (l.filter p).length ≤ (l.filter q).length := by
  induction l with
  | nil => simp
  | cons x xs ih =>
    simp only [List.filter_cons]
    by_cases hp : p x = true
    · simp [hp, h x hp]; exact ih
    · simp only [hp]
      by_cases hq : q x = true
      · simp only [hq, if_true, List.length_cons, Bool.false_eq_true, if_false]; omega
      · simp only [hq, Bool.false_eq_true, if_false]; exact ih

/-- number of keys below `size` that are not yet in `ret` -/
def unseen (size : Nat) (ret : List Node) : Nat :=
  ((List.range size).filter (fun i => !ret.contains i)).length

theorem unseen_lt {size : Nat} {ret extra : List Node} {x : Node}
    (hx : x ∈ extra) (hlt : x < size) (hnot : x ∉ ret) :
    unseen size (ret ++ extra) < unseen size ret := by
  unfold unseen
  have hsub : ∀ i, (fun i => !(ret ++ extra).contains i) i = true → (fun i => !ret.contains i) i = true := by
    intro i; simp; intro h _; exact h
  -- the filter for `ret ++ extra` is a strict sub-filter: `x` is dropped
  have h1 : ((List.range size).filter (fun i => !(ret ++ extra).contains i)).length
      ≤ (((List.range size).filter (fun i => !ret.contains i)).filter (fun i => i != x)).length := by
    rw [List.filter_filter]
    apply filter_length_le_of_imp
    intro i
    simp only [Bool.not_eq_true', List.contains_eq_mem, List.mem_append, decide_eq_false_iff_not, not_or,
      Bool.and_eq_true, bne_iff_ne, ne_eq, and_imp]
    intro h1 h2
    refine ⟨?_, h1⟩
    intro hix; subst hix; exact h2 hx
  have hxmem : x ∈ (List.range size).filter (fun i => !ret.contains i) := by
    simp [List.mem_filter, hlt, hnot]
  have h2 : (((List.range size).filter (fun i => !ret.contains i)).filter (fun i => i != x)).length
      < ((List.range size).filter (fun i => !ret.contains i)).length := by
    apply List.length_filter_lt_length_iff_exists.mpr
    exact ⟨x, hxmem, by simp⟩
  omega

/-- the loop never runs out of fuel when it starts with `unseen + 2` -/
theorem worklist_some (succ : Node → List Node) (size : Nat)
    (hsucc : ∀ a b, b ∈ succ a → b < size) :
    ∀ (fuel : Nat) (todo ret : List Node), unseen size ret + 2 ≤ fuel →
      ∃ r, worklist succ fuel todo ret = some r := by
  intro fuel
  induction fuel with
  | zero => intro _ _ h; omega
  | succ fuel ih =>
    intro todo ret hfuel
    simp only [worklist]
    split
    · exact ⟨ret, rfl⟩
    · -- one more iteration
      generalize hc : dedup (todo.flatMap succ) = childs
      by_cases hempty : (diff childs ret) = []
      · -- next call returns at once
        rw [hempty]
        cases fuel with
        | zero => omega
        | succ f => exact ⟨ret ++ [], by simp [worklist]⟩
      · obtain ⟨x, hx⟩ := List.exists_mem_of_ne_nil _ hempty
        have hx' := mem_diff.mp hx
        have hxc : x ∈ todo.flatMap succ := by rw [← hc] at hx'; exact mem_dedup.mp hx'.1
        obtain ⟨a, _, hxa⟩ := List.mem_flatMap.mp hxc
        have hlt := hsucc a x hxa
        have := unseen_lt (size := size) hx hlt hx'.2
        exact ih _ _ (by omega)

/-- what a successful run returns -/
theorem worklist_inv (succ : Node → List Node) :
    ∀ (fuel : Nat) (todo ret r : List Node), worklist succ fuel todo ret = some r →
      (∀ x ∈ ret, x ∈ r) ∧
      (∀ x ∈ r, x ∈ ret ∨ ∃ t ∈ todo, Relation.TransGen (fun a b => b ∈ succ a) t x) ∧
      ((∀ y ∈ ret, y ∈ todo ∨ ∀ z ∈ succ y, z ∈ ret) →
        (∀ y ∈ r, ∀ z ∈ succ y, z ∈ r) ∧ (∀ t ∈ todo, ∀ z ∈ succ t, z ∈ r)) := by
  intro fuel
  induction fuel with
  | zero => intro _ _ _ h; simp [worklist] at h
  | succ fuel ih =>
    intro todo ret r h
    simp only [worklist] at h
    split at h
    · rename_i hte
      have hnil : todo = [] := by simpa using hte
      cases h
      refine ⟨fun x hx => hx, fun x hx => Or.inl hx, ?_⟩
      intro hcl
      subst hnil
      refine ⟨?_, by simp⟩
      intro y hy z hz
      rcases hcl y hy with h' | h'
      · simp at h'
      · exact h' z hz
    · generalize hc : dedup (todo.flatMap succ) = childs at h
      have hch : ∀ z, z ∈ childs ↔ ∃ t ∈ todo, z ∈ succ t := by
        intro z; rw [← hc, mem_dedup, List.mem_flatMap]
      obtain ⟨h1, h2, h3⟩ := ih _ _ _ h
      refine ⟨fun x hx => h1 x (List.mem_append_left _ hx), ?_, ?_⟩
      · intro x hx
        rcases h2 x hx with hx' | ⟨t, ht, htx⟩
        · rcases List.mem_append.mp hx' with hx'' | hx''
          · exact Or.inl hx''
          · obtain ⟨t, ht, hz⟩ := (hch x).mp (mem_diff.mp hx'').1
            exact Or.inr ⟨t, ht, .single hz⟩
        · obtain ⟨t0, ht0, hz⟩ := (hch t).mp (mem_diff.mp ht).1
          exact Or.inr ⟨t0, ht0, transGen_head hz htx⟩
      · intro hcl
        have hpre : ∀ y ∈ ret ++ diff childs ret, y ∈ diff childs ret ∨ ∀ z ∈ succ y, z ∈ ret ++ diff childs ret := by
          intro y hy
          have hchilds : ∀ z ∈ childs, z ∈ ret ++ diff childs ret := by
            intro z hz
            by_cases hzr : z ∈ ret
            · exact List.mem_append_left _ hzr
            · exact List.mem_append_right _ (mem_diff.mpr ⟨hz, hzr⟩)
          rcases List.mem_append.mp hy with hy' | hy'
          · rcases hcl y hy' with hyt | hyc
            · exact Or.inr fun z hz => hchilds z ((hch z).mpr ⟨y, hyt, hz⟩)
            · exact Or.inr fun z hz => List.mem_append_left _ (hyc z hz)
          · exact Or.inl hy'
        obtain ⟨hA, _⟩ := h3 hpre
        refine ⟨hA, ?_⟩
        intro t ht z hz
        have hzc : z ∈ childs := (hch z).mpr ⟨t, ht, hz⟩
        apply h1
        by_cases hzr : z ∈ ret
        · exact List.mem_append_left _ hzr
        · exact List.mem_append_right _ (mem_diff.mpr ⟨hzc, hzr⟩)

/-- **the worklist loops compute exactly the transitive closure, and the fuel suffices** -/
theorem worklist_spec (succ : Node → List Node) (size : Nat)
    (hsucc : ∀ a b, b ∈ succ a → b < size) (nodes : List Node) :
    ∃ r, worklist succ (size + 2) nodes [] = some r ∧
      ∀ x, x ∈ r ↔ ∃ n ∈ nodes, Relation.TransGen (fun a b => b ∈ succ a) n x := by
  have hun : unseen size [] = size := by
    unfold unseen
    rw [List.filter_eq_self.mpr (by simp)]
    simp
  obtain ⟨r, hr⟩ := worklist_some succ size hsucc (size + 2) nodes [] (by omega)
  refine ⟨r, hr, ?_⟩
  obtain ⟨_, h2, h3⟩ := worklist_inv succ _ _ _ _ hr
  obtain ⟨hclosed, hfirst⟩ := h3 (by simp)
  intro x
  constructor
  · intro hx
    rcases h2 x hx with h | h
    · simp at h
    · exact h
  · rintro ⟨n, hn, t⟩
    induction t with
    | single h => exact hfirst n hn _ h
    | tail _ h ih => exact hclosed _ ih _ h

theorem worklist_getD_spec (succ : Node → List Node) (size : Nat)
    (hsucc : ∀ a b, b ∈ succ a → b < size) (nodes : List Node) (x : Node) :
    x ∈ (worklist succ (size + 2) nodes []).getD [] ↔
      ∃ n ∈ nodes, Relation.TransGen (fun a b => b ∈ succ a) n x := by
  obtain ⟨r, hr, hspec⟩ := worklist_spec succ size hsucc nodes
  rw [hr]
  exact hspec x

end PathSpec
