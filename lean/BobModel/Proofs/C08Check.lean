import BobModel.Proofs.C08Run
/-
Helper lemmas for Props/C08.lean, part 7: executable checkers for the hypotheses of the
confinement theorem on a concrete (finite) file system, so that the non-vacuity examples and
the refutation witnesses can discharge them by evaluation.
-/
namespace TarExtract

theorem aget_mem {α β : Type} [DecidableEq α] {m : List (α × β)} {x : α} {v : β} (h : aget m x = some v) :
    (x, v) ∈ m := by
  induction m with
  | nil => simp [aget] at h
  | cons kv r ih =>
    obtain ⟨k, w⟩ := kv
    simp only [aget] at h
    by_cases hk : k = x
    · simp only [hk, if_true, Option.some.injEq] at h; subst h; subst hk; simp
    · simp only [hk, if_false] at h; exact List.mem_cons_of_mem _ (ih h)

def isDirB (fs : FS) (p : Path) : Bool :=
  match fs.look p with
  | some (.dir _) => true
  | _ => false

theorem isDirB_iff {fs : FS} {p : Path} : isDirB fs p = true ↔ IsDir fs p := by
  unfold isDirB IsDir
  cases h : fs.look p with
  | none => simp
  | some e => cases e <;> simp

def wfCheck (fs : FS) : Bool := fs.names.all (fun kv => kv.1 = [] || isDirB fs kv.1.dropLast)

theorem wf_of_check {fs : FS} (h : wfCheck fs = true) : WF fs := by
  intro p c e hl
  have hm := aget_mem hl
  unfold wfCheck at h
  rw [List.all_eq_true] at h
  have := h _ hm
  simp only [List.dropLast_concat, Bool.or_eq_true, decide_eq_true_eq] at this
  rcases this with h1 | h2
  · simp at h1
  · exact isDirB_iff.mp h2

def freshCheck (fs : FS) : Bool :=
  fs.names.all (fun kv => match kv.2 with | .ref i => decide (i < fs.next) | _ => true)

theorem fresh_of_check {fs : FS} (h : freshCheck fs = true) : ∀ p i, fs.look p = some (.ref i) → i < fs.next := by
  intro p i hl
  have hm := aget_mem hl
  unfold freshCheck at h
  rw [List.all_eq_true] at h
  simpa using h _ hm

def dirsCheck (dest : Path) (fs : FS) : Bool := (List.range (dest.length + 1)).all (fun k => isDirB fs (dest.take k))

theorem dirs_of_check {dest : Path} {fs : FS} (h : dirsCheck dest fs = true) :
    ∀ k, k ≤ dest.length → IsDir fs (dest.take k) := by
  intro k hk
  unfold dirsCheck at h
  rw [List.all_eq_true] at h
  exact isDirB_iff.mp (h k (by simp; omega))

theorem inv_of_check {dest : Path} {fs : FS} (h : (wfCheck fs && freshCheck fs && dirsCheck dest fs) = true) : Inv dest fs := by
  simp only [Bool.and_eq_true] at h
  exact ⟨wf_of_check h.1.1, fresh_of_check h.1.2, dirs_of_check h.2⟩

def sepCheck (dest : Path) (fs : FS) : Bool :=
  fs.names.all (fun kv => fs.names.all (fun kw =>
    !(dest.isPrefixOf kv.1) || dest.isPrefixOf kw.1 ||
      (match kv.2, kw.2 with | .ref i, .ref j => decide (i ≠ j) | _, _ => true)))

theorem sep_of_check {dest : Path} {fs : FS} (h : sepCheck dest fs = true) : Sep dest fs := by
  intro p q i hp hq hlp hlq
  have hmp := aget_mem hlp
  have hmq := aget_mem hlq
  unfold sepCheck at h
  rw [List.all_eq_true] at h
  have h1 := h _ hmp
  rw [List.all_eq_true] at h1
  have h2 := h1 _ hmq
  have hp' : dest.isPrefixOf p = true := List.isPrefixOf_iff_prefix.mpr hp
  have hq' : dest.isPrefixOf q = false := by
    cases hb : dest.isPrefixOf q with
    | false => rfl
    | true => exact absurd (List.isPrefixOf_iff_prefix.mp hb) hq
  simp [hp', hq'] at h2

def auditCheck (dest audit : Path) (cfg : Cfg) (fs : FS) : Bool :=
  decide (audit ≠ []) && audit.all (fun c => decide (c ≠ dot ∧ c ≠ dotdot)) &&
  (List.range audit.length).all (fun k => isDirB fs (audit.take k)) &&
  (fs.look audit).isNone && !(dest.isPrefixOf audit) && decide (audit.length ≤ cfg.fuel)

theorem auditOk_of_check {dest audit : Path} {cfg : Cfg} {fs : FS} (h : auditCheck dest audit cfg fs = true) :
    AuditOk dest audit cfg fs := by
  unfold auditCheck at h
  simp only [Bool.and_eq_true, decide_eq_true_eq, List.all_eq_true, Bool.not_eq_true', Option.isNone_iff_eq_none] at h
  obtain ⟨⟨⟨⟨⟨h1, h2⟩, h3⟩, h4⟩, h5⟩, h6⟩ := h
  refine ⟨h1, h2, ?_, h4, ?_, h6⟩
  · intro k hk; exact isDirB_iff.mp (h3 k (by simpa using hk))
  · intro hin
    have := List.isPrefixOf_iff_prefix.mpr hin
    rw [h5] at this; cases this

end TarExtract
