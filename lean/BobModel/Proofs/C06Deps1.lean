import BobModel.Proofs.C06Trace
/-
Facts about the `wasRun` table used by the ordering theorems: under `PathVid` (a valid step's workspace is
not shared with another variant) `_wasAlreadyRun` never prunes an entry, the filter at the top of `_cook`
leaves exactly the steps that have not been run, and "was run" is stable.
-/
namespace Sched
open JobSem

/-- a workspace belongs to one variant (C16): a valid step's workspace is not shared with a step of another variant id -/
def PathVid (P : Project) : Prop :=
  ∀ s s', (P.info s).valid = true → (P.info s).path = (P.info s').path → (P.info s').vid = (P.info s).vid

abbrev WasRun := List (Nat × Nat × Bool)

/-- the step was run in this invocation (`_wasAlreadyRun(step, skippedOk)` would say yes) -/
def WasOk (P : Project) (wr : WasRun) (s : Nat) (co : Bool) : Prop :=
  ∃ sk, lookup (P.info s).path wr = some ((P.info s).vid, sk) ∧ (co = true ∨ sk = false)

/-- every entry of the table was made for a valid step -/
def WrValid (P : Project) (wr : WasRun) : Prop :=
  ∀ p v sk, lookup p wr = some (v, sk) → ∃ s, (P.info s).valid = true ∧ (P.info s).path = p ∧ (P.info s).vid = v

theorem wasAlreadyRun_spec {P : Project} {wr : WasRun} (hpv : PathVid P) (hv : WrValid P wr) (s : Nat) (co : Bool) :
    (wasAlreadyRun P wr s co).2 = wr ∧ ((wasAlreadyRun P wr s co).1 = true ↔ WasOk P wr s co) := by
  unfold wasAlreadyRun WasOk
  simp only
  cases hl : lookup (P.info s).path wr with
  | none => simp
  | some e =>
    obtain ⟨v, sk⟩ := e
    obtain ⟨s0, h1, h2, h3⟩ := hv _ _ _ hl
    have hvid : (P.info s).vid = v := by rw [← h3]; exact hpv s0 s h1 h2
    simp only [hvid, ne_eq, not_true_eq_false, ↓reduceIte]
    cases co <;> cases sk <;> simp

theorem filterTodo_spec {P : Project} {wr : WasRun} (hpv : PathVid P) (hv : WrValid P wr) (co : Bool) (steps : List Nat) :
    (filterTodo P co steps wr).2 = wr ∧
    (∀ d ∈ steps, (P.info d).valid = true → WasOk P wr d co ∨ d ∈ (filterTodo P co steps wr).1) ∧
    (∀ d ∈ (filterTodo P co steps wr).1, d ∈ steps ∧ (P.info d).valid = true) := by
  induction steps with
  | nil => simp [filterTodo]
  | cons s r ih =>
    obtain ⟨i1, i2, i3⟩ := ih
    unfold filterTodo
    by_cases hval : (P.info s).valid = true
    · simp only [hval, ↓reduceIte]
      obtain ⟨w1, w2⟩ := wasAlreadyRun_spec hpv hv s co
      rw [w1]
      refine ⟨i1, ?_, ?_⟩
      · intro d hd hdv
        rcases List.mem_cons.mp hd with e | e
        · subst e
          by_cases hr : (wasAlreadyRun P wr d co).1 = true
          · exact Or.inl (w2.mp hr)
          · right; simp [hr]
        · rcases i2 d e hdv with h | h
          · exact Or.inl h
          · right
            by_cases hr : (wasAlreadyRun P wr s co).1 = true <;> simp [hr, h]
      · intro d hd
        by_cases hr : (wasAlreadyRun P wr s co).1 = true
        · simp only [hr, ↓reduceIte] at hd
          exact ⟨List.mem_cons_of_mem _ (i3 d hd).1, (i3 d hd).2⟩
        · simp only [hr, Bool.false_eq_true, ↓reduceIte, List.mem_cons] at hd
          rcases hd with e | e
          · subst e; exact ⟨by simp, hval⟩
          · exact ⟨List.mem_cons_of_mem _ (i3 d e).1, (i3 d e).2⟩
    · simp only [hval, Bool.false_eq_true, ↓reduceIte]
      refine ⟨i1, ?_, ?_⟩
      · intro d hd hdv
        rcases List.mem_cons.mp hd with e | e
        · subst e; exact absurd hdv hval
        · exact i2 d e hdv
      · intro d hd
        exact ⟨List.mem_cons_of_mem _ (i3 d hd).1, (i3 d hd).2⟩

theorem WrValid.insert {P : Project} {wr : WasRun} (hv : WrValid P wr) (s : Nat) (sk : Bool)
    (hs : (P.info s).valid = true) : WrValid P (Sched.insert (P.info s).path ((P.info s).vid, sk) wr) := by
  intro p v sk' hl
  by_cases hp : p = (P.info s).path
  · subst hp
    rw [lookup_insert_self] at hl
    cases hl
    exact ⟨s, hs, rfl, rfl⟩
  · rw [lookup_insert_ne _ _ _ _ hp] at hl
    exact hv p v sk' hl

/-- recording a run (not skipped) keeps every "was run" fact -/
theorem WasOk.insert {P : Project} {wr : WasRun} (hpv : PathVid P) {d : Nat} {co : Bool} (h : WasOk P wr d co) (s : Nat)
    (hs : (P.info s).valid = true) : WasOk P (Sched.insert (P.info s).path ((P.info s).vid, false) wr) d co := by
  obtain ⟨sk, h1, h2⟩ := h
  by_cases hp : (P.info d).path = (P.info s).path
  · refine ⟨false, ?_, Or.inr rfl⟩
    rw [hp, lookup_insert_self, hpv s d hs hp.symm]
  · exact ⟨sk, by rw [lookup_insert_ne _ _ _ _ hp]; exact h1, h2⟩

theorem WasOk.self {P : Project} (wr : WasRun) (s : Nat) (co : Bool) :
    WasOk P (Sched.insert (P.info s).path ((P.info s).vid, false) wr) s co :=
  ⟨false, lookup_insert_self _ _ _, Or.inr rfl⟩

/-! ### finished scripts in the history -/

theorem finishedOk_append {P : Project} (tr evs : List Ev) (p : Nat) (h : finishedOk P tr p = true) :
    finishedOk P (tr ++ evs) p = true := by
  simp only [finishedOk, List.any_append, Bool.or_eq_true] at *
  exact Or.inl h

theorem finishedOk_fin {P : Project} (tr : List Ev) (t s : Nat) :
    finishedOk P (tr ++ [Ev.fin t s true]) (P.info s).path = true := by
  simp [finishedOk, List.any_append]

theorem depsFirstFrom_append {P : Project} (pre a b : List Ev) :
    depsFirstFrom P pre (a ++ b) = (depsFirstFrom P pre a && depsFirstFrom P (pre ++ a) b) := by
  induction a generalizing pre with
  | nil => simp [depsFirstFrom]
  | cons e r ih =>
    simp only [List.cons_append, depsFirstFrom, ih, List.append_assoc, List.singleton_append, List.nil_append, Bool.and_assoc]

theorem depsFirstFrom_quiet {P : Project} (pre evs : List Ev) (h : ∀ e ∈ evs, e.isStart = false) :
    depsFirstFrom P pre evs = true := by
  induction evs generalizing pre with
  | nil => rfl
  | cons e r ih =>
    have he := h e (by simp)
    simp only [depsFirstFrom, Bool.and_eq_true]
    refine ⟨?_, ih _ (fun e' he' => h e' (by simp [he']))⟩
    cases e <;> simp_all [Ev.isStart]

end Sched
