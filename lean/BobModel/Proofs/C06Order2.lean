import BobModel.Proofs.C06Order1
/-
Ordering invariants of the scheduler model, part 2: **once**.  Per workspace the script starts and ends of
the history alternate, and a workspace is started again only after a failed execution.

Invariant (`OnceInv`), per workspace `p` with `status` = what the history says about `p`:
* status = running  iff  some task is suspended in `runWait` of a step of `p` (it holds the lock of `p`);
* status = ok       =>   the `wasRun` table says "run, not skipped" for `p`, or the task that ran the script is
                         about to record it (`setRun _ false` at its head, still inside the lock);
* a task that is going to run a script in `p` (`run` in its continuation) or to record a skipped run has
  checked under the lock that the table does not say "run" for `p`, and nobody else can change that entry
  while the lock is held (`LockInv`).
-/
namespace Sched
open JobSem

/-! ### status of a workspace according to the history -/

def statusOf (P : Project) (p : Nat) : WsStatus → List Ev → WsStatus
  | s, [] => s
  | s, .start _ x :: r => if (P.info x).path == p then statusOf P p .running r else statusOf P p s r
  | s, .fin _ x ok :: r =>
    if (P.info x).path == p then statusOf P p (if ok then .ok else .failed) r else statusOf P p s r
  | s, _ :: r => statusOf P p s r

theorem legalFrom_append (P : Project) (p : Nat) (a b : List Ev) (s : WsStatus) :
    legalFrom P p s (a ++ b) = (legalFrom P p s a && legalFrom P p (statusOf P p s a) b) := by
  induction a generalizing s with
  | nil => simp [legalFrom, statusOf]
  | cons e r ih =>
    cases e <;> simp only [List.cons_append, legalFrom, statusOf, ih] <;> (try split) <;> simp [Bool.and_assoc]

theorem statusOf_append (P : Project) (p : Nat) (a b : List Ev) (s : WsStatus) :
    statusOf P p s (a ++ b) = statusOf P p (statusOf P p s a) b := by
  induction a generalizing s with
  | nil => simp [statusOf]
  | cons e r ih =>
    cases e <;> simp only [List.cons_append, statusOf, ih] <;> (try split) <;> rfl

theorem quiet_status (P : Project) (p : Nat) (evs : List Ev) (s : WsStatus)
    (h : ∀ e ∈ evs, e.isStart = false ∧ e.isFin = false) :
    legalFrom P p s evs = true ∧ statusOf P p s evs = s := by
  induction evs generalizing s with
  | nil => simp [legalFrom, statusOf]
  | cons e r ih =>
    have he := h e (by simp)
    have := ih s (fun e' he' => h e' (by simp [he']))
    cases e <;> simp_all [legalFrom, statusOf, Ev.isStart, Ev.isFin]

theorem quiet_noStartFin {e : Ev} (h : e.quiet = true) : e.isStart = false ∧ e.isFin = false := by
  cases e <;> simp_all [Ev.quiet, Ev.isStart, Ev.isFin, Ev.isSetRun]

/-- "run, not skipped" is recorded for workspace `p` -/
def RanAt (wr : WasRun) (p : Nat) : Prop := ∃ v, lookup p wr = some (v, false)

theorem RanAt_WasOk {P : Project} {wr : WasRun} (hpv : PathVid P) (hv : WrValid P wr) {s : Nat} (co : Bool)
    (h : RanAt wr (P.info s).path) : WasOk P wr s co := by
  obtain ⟨v, hl⟩ := h
  obtain ⟨s0, h1, h2, h3⟩ := hv _ _ _ hl
  refine ⟨false, ?_, Or.inr rfl⟩
  rw [hl, ← h3, hpv s0 s h1 h2]

/-! ### shape of lock sections -/

def secShape (P : Project) : List Op → Bool
  | [] => true
  | o :: r =>
    (match o with
     | .underLock s _ => r.head? == some (.unlock (P.info s).path)
     | .setRun s _ => r.head? == some (.unlock (P.info s).path)
     | .run s => r.take 2 == [.setRun s false, .unlock (P.info s).path]
     | .runWait s _ => r.take 2 == [.setRun s false, .unlock (P.info s).path]
     | _ => true) && secShape P r

theorem secShape_tail {P : Project} {o : Op} {r : List Op} (h : secShape P (o :: r) = true) : secShape P r = true := by
  simp only [secShape, Bool.and_eq_true] at h; exact h.2

theorem secShape_cons_nosec {P : Project} {o : Op} {r : List Op} (ho : o.sec = false) :
    secShape P (o :: r) = secShape P r := by
  cases o <;> simp_all [secShape, Op.sec]

theorem secShape_append_nosec {P : Project} {body rest : List Op} (hb : ∀ o ∈ body, o.sec = false)
    (h : secShape P rest = true) : secShape P (body ++ rest) = true := by
  induction body with
  | nil => exact h
  | cons o b ih =>
    rw [List.cons_append, secShape_cons_nosec (hb o (by simp))]
    exact ih (fun o' ho' => hb o' (by simp [ho']))

theorem isFin_nosec {o : Op} (h : o.isFin = true) : o.sec = false := by
  cases o <;> simp_all [Op.isFin, Op.sec]

theorem secShape_filter (P : Project) (r : List Op) : secShape P (r.filter Op.isFin) = true := by
  have := secShape_append_nosec (P := P) (body := r.filter Op.isFin) (rest := [])
    (fun o ho => isFin_nosec (List.mem_filter.mp ho).2) rfl
  simpa using this

/-! ### two tasks inside the lock of one workspace -/

theorem underLockOK_mem {P : Project} {l : List Op} (h : underLockOK P l = true) {o : Op} (ho : o ∈ l) {p : Nat}
    (hs : o.section? P = some p) : 1 ≤ ulc p l := by
  induction l with
  | nil => cases ho
  | cons a r ih =>
    simp only [underLockOK, Bool.and_eq_true] at h
    rcases List.mem_cons.mp ho with e | e
    · subst e
      rw [hs] at h
      have hm : Op.unlock p ∈ r := by simpa using h.1
      have : 0 < ulc p r := by
        unfold ulc
        exact List.length_pos_of_mem (List.mem_filter.mpr ⟨hm, by simp [Op.isUnlock]⟩)
      rw [ulc_cons]; omega
    · have := ih h.2 e
      rw [ulc_cons]; omega

theorem sum_two (f : Task → Nat) : ∀ (l : List Task) (i j : Nat) (_ : i ≠ j) (hi : i < l.length) (hj : j < l.length),
    f l[i] + f l[j] ≤ (l.map f).sum
  | [], _, _, _, hi, _ => by simp at hi
  | _ :: _, 0, 0, hij, _, _ => absurd rfl hij
  | a :: l, 0, j + 1, _, _, hj => by
    have hj' : j < l.length := by simpa using hj
    have := mem_le_sum (List.mem_map_of_mem (f := f) (List.getElem_mem hj'))
    simp only [List.getElem_cons_zero, List.getElem_cons_succ, List.map_cons, List.sum_cons]
    omega
  | a :: l, i + 1, 0, _, hi, _ => by
    have hi' : i < l.length := by simpa using hi
    have := mem_le_sum (List.mem_map_of_mem (f := f) (List.getElem_mem hi'))
    simp only [List.getElem_cons_zero, List.getElem_cons_succ, List.map_cons, List.sum_cons]
    omega
  | a :: l, i + 1, j + 1, hij, hi, hj => by
    have := sum_two f l i j (by omega) (by simpa using hi) (by simpa using hj)
    simp only [List.getElem_cons_succ, List.map_cons, List.sum_cons]
    omega

theorem tsum_two (f : Task → Nat) (st : St) {i j : Nat} (hij : i ≠ j) (hi : i < st.tasks.length)
    (hj : j < st.tasks.length) : f (st.task i) + f (st.task j) ≤ tsum f st := by
  rw [task_eq_getElem hi, task_eq_getElem hj]
  exact sum_two f st.tasks i j hij hi hj

/-- two different tasks cannot both be inside the lock section of workspace `p` -/
theorem LockInv.excl {P : Project} {st : St} (hl : LockInv P st) {i j : Nat} (hij : i ≠ j) {o o' : Op} {p : Nat}
    (ho : o ∈ (st.task i).ops) (hs : o.section? P = some p)
    (ho' : o' ∈ (st.task j).ops) (hs' : o'.section? P = some p) : False := by
  have hi : i < st.tasks.length := by
    cases h : (st.task i).ops with
    | nil => rw [h] at ho; cases ho
    | cons a r => exact task_lt h
  have hj : j < st.tasks.length := by
    cases h : (st.task j).ops with
    | nil => rw [h] at ho'; cases ho'
    | cons a r => exact task_lt h
  have h1 := underLockOK_mem (hl.sect _ (task_mem hi)) ho hs
  have h2 := underLockOK_mem (hl.sect _ (task_mem hj)) ho' hs'
  have h3 := tsum_two (Task.unlocks p) st hij hi hj
  have h4 := hl.holders_le_one p
  rw [unlocks_eq, unlocks_eq] at h3
  unfold lockHolders at h4
  omega

/-- inside one task: behind a `setRun` (or `underLock`) at the head, whose `unlock` follows directly, there is no
further lock-section operation of the same workspace -/
theorem LockInv.single {P : Project} {st : St} (hl : LockInv P st) {i : Nat} {o o' : Op} {p : Nat} {r : List Op}
    (hops : (st.task i).ops = o :: .unlock p :: r) (ho' : o' ∈ r) (hs' : o'.section? P = some p) : False := by
  have hi := task_lt hops
  have hsec := hl.sect _ (task_mem hi)
  rw [hops] at hsec
  have h1 := underLockOK_mem (underLockOK_tail (underLockOK_tail hsec)) ho' hs'
  have h3 := tsum_ge (Task.unlocks p) st i hi
  have h4 := hl.holders_le_one p
  rw [unlocks_eq, hops, ulc_cons, ulc_cons] at h3
  simp only [Op.isUnlock, beq_self_eq_true, ↓reduceIte] at h3
  unfold lockHolders at h4
  omega

end Sched
