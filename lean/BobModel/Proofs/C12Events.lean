import BobModel.Proofs.C12Checkout
/-
Helper lemmas for C12: `bob clean -s`, `bob clean --attic`, and histories of events.
-/
namespace Checkout

variable {σ κ ι : Type}

/-- an expendable SCM directory holds no work item -/
def ExpClean (sem : ScmSem σ κ) (work : κ → ι → Prop) : Prop :=
  ∀ s k i, sem.expendable s (some k) = true → ¬ work k i

/-! ### bob clean --attic -/

theorem mem_foldl_rmAttic (ks : List (Nat × Comps)) :
    ∀ (st : St σ κ) (e : Loc × κ), e ∈ st.fs → (∀ k, k ∈ ks → e.1.under (.attic k.1 k.2) = false) →
      e ∈ (ks.foldl (fun st k => emit (Op.rmAttic k.1 k.2) st) st).fs := by
  induction ks with
  | nil => intro st e h _; exact h
  | cons k rest ih =>
    intro st e h hk
    simp only [List.foldl_cons]
    apply ih
    · simp only [emit, applyOp]
      exact List.mem_filter.mpr ⟨h, by simp [hk k List.mem_cons_self]⟩
    · intro k' hk'; exact hk k' (List.mem_cons_of_mem _ hk')

/-- what `bob clean --attic` removes lies below a selected attic directory -/
theorem cleanAttic_keeps (sem : ScmSem σ κ) (st : St σ κ) (e : Loc × κ) (h : e ∈ st.fs)
    (hk : ∀ k, k ∈ atticDeletable sem st → e.1.under (.attic k.1 k.2) = false) :
    e ∈ (cleanAttic sem false st).fs := by
  unfold cleanAttic
  simp only [Bool.false_eq_true, if_false]
  exact mem_foldl_rmAttic _ st e h hk

theorem under_refl (l : Loc) : l.under l = true := by
  have hp : ∀ p : Comps, isPrefix p p = true := by
    intro p; induction p with
    | nil => rfl
    | cons a as ih => simp [isPrefix, ih]
  cases l with
  | ws p => simp [Loc.under, hp]
  | attic n p => simp [Loc.under, hp]

/-- every registered, existing attic directory at or below a selected one reports `expendable` -/
theorem atticDeletable_expendable (sem : ScmSem σ κ) (st : St σ κ) (k : Nat × Comps)
    (h : k ∈ atticDeletable sem st) :
    ∀ e', e' ∈ st.atticReg → atticPresent st e'.1 = true → regBelow k e'.1 = true → regExpendable sem st e' = true := by
  unfold atticDeletable at h
  rw [List.mem_map] at h
  obtain ⟨e, he, hk⟩ := h
  obtain ⟨_, hc⟩ := List.mem_filter.mp he
  rw [List.all_eq_true] at hc
  subst hk
  intro e' he' hp hb
  have := hc e' (List.mem_filter.mpr ⟨he', hp⟩)
  simpa [hb] using this

/-- the item lies below a selected attic directory in a directory that is not a registered attic
SCM (or not the content the registration refers to): nothing `bob clean --attic` can consult -/
def UnregisteredInDeletable (sem : ScmSem σ κ) (work : κ → ι → Prop) (st : St σ κ) (i : ι) : Prop :=
  ∃ key, key ∈ atticDeletable sem st ∧ ∃ n sub k, (Loc.attic n sub, k) ∈ st.fs ∧ work k i ∧
    (Loc.attic n sub).under (.attic key.1 key.2) = true ∧
    ¬ ∃ s, ((n, sub), some s) ∈ st.atticReg ∧ contentAt st.fs (.attic n sub) = some k

theorem cleanAttic_present (sem : ScmSem σ κ) (work : κ → ι → Prop) (hexp : ExpClean sem work)
    (dry : Bool) (st : St σ κ) (i : ι) (h : Present work st.fs i) :
    Present work (cleanAttic sem dry st).fs i ∨ (dry = false ∧ UnregisteredInDeletable sem work st i) := by
  cases dry with
  | true => left; exact h
  | false =>
    obtain ⟨l, k, hm, hw⟩ := h
    by_cases hcov : ∃ key, key ∈ atticDeletable sem st ∧ l.under (.attic key.1 key.2) = true
    · obtain ⟨key, hkey, hu⟩ := hcov
      right
      cases l with
      | ws p => simp [Loc.under] at hu
      | attic n sub =>
        refine ⟨rfl, key, hkey, n, sub, k, hm, hw, hu, ?_⟩
        intro ⟨s, hreg, hc⟩
        have hpres : atticPresent st (n, sub) = true := by
          unfold atticPresent
          rw [List.any_eq_true]
          exact ⟨(.attic n sub, k), hm, under_refl _⟩
        have hbel : regBelow key (n, sub) = true := by
          simpa [regBelow, Loc.under] using hu
        have := atticDeletable_expendable sem st key hkey ((n, sub), some s) hreg hpres hbel
        simp only [regExpendable, hc] at this
        exact hexp s k i this hw
    · left
      refine ⟨l, k, cleanAttic_keeps sem st (l, k) hm ?_, hw⟩
      intro key hkey
      cases hu : l.under (.attic key.1 key.2) with
      | false => rfl
      | true => exact absurd ⟨key, hkey, hu⟩ hcov

/-! ### bob clean -s -/

/-- the item is in a workspace directory that is not the registered content of an SCM of the
directory state (nothing `checkRegularSource` looks at) -/
def UntrackedWs (work : κ → ι → Prop) (st : St σ κ) (i : ι) : Prop :=
  ∃ p k, (Loc.ws p, k) ∈ st.fs ∧ work k i ∧
    ¬ ∃ e s, e ∈ st.old ∧ e.spec = some s ∧ normComps e.dir = p ∧ contentAt st.fs (.ws p) = some k

theorem cleanSrc_unchanged (sem : ScmSem σ κ) (dry : Bool) (st : St σ κ)
    (h : dry = true ∨ srcExpendable sem st = false) : cleanSrc sem dry st = st := by
  unfold cleanSrc
  rcases h with h | h <;> simp [h]

theorem cleanSrc_present (sem : ScmSem σ κ) (work : κ → ι → Prop) (hexp : ExpClean sem work)
    (dry : Bool) (st : St σ κ) (i : ι) (h : Present work st.fs i) :
    Present work (cleanSrc sem dry st).fs i ∨ (dry = false ∧ UntrackedWs work st i) := by
  unfold cleanSrc
  split
  · left; exact h
  · rename_i hc
    simp only [Bool.or_eq_true, Bool.not_eq_true', not_or, Bool.not_eq_true] at hc
    obtain ⟨⟨hdry, _⟩, hexpd⟩ := hc
    have hexpd' : srcExpendable sem st = true := by simpa using hexpd
    obtain ⟨l, k, hm, hw⟩ := h
    cases l with
    | attic n p =>
      left
      refine ⟨.attic n p, k, ?_, hw⟩
      simp only [emit, applyOp]
      exact List.mem_filter.mpr ⟨hm, rfl⟩
    | ws p =>
      right
      refine ⟨hdry, p, k, hm, hw, ?_⟩
      intro ⟨e, s, he, hs, hp, hc⟩
      unfold srcExpendable at hexpd'
      rw [List.all_eq_true] at hexpd'
      have := hexpd' e he
      simp only [hs, hp, hc] at this
      exact hexp s k i this hw

/-! ### histories -/

inductive Event (σ κ : Type)
  | build (sem : ScmSem σ κ) (fl : Flags) (indet : Bool) (new : List (NewEntry σ))
  | cleanSrc (sem : ScmSem σ κ) (dry : Bool)
  | cleanAttic (sem : ScmSem σ κ) (dry : Bool)
  | other (f : St σ κ → St σ κ)

def runEv : Event σ κ → St σ κ → St σ κ
  | .build sem fl indet new, st => (cook sem fl indet new st).1
  | .cleanSrc sem dry, st => cleanSrc sem dry st
  | .cleanAttic sem dry, st => cleanAttic sem dry st
  | .other f, st => f st

def run (h : List (Event σ κ)) (st : St σ κ) : St σ κ := h.foldl (fun st ev => runEv ev st) st

/-- the SCM semantics of an event keep work items / report them -/
def EvOk (work : κ → ι → Prop) : Event σ κ → Prop
  | .build sem _ _ _ => SemKeeps sem work
  | .cleanSrc sem _ => ExpClean sem work
  | .cleanAttic sem _ => ExpClean sem work
  | .other _ => True

/-- the exact circumstances under which event `ev` in state `st` loses the item `i` -/
def Lost (work : κ → ι → Prop) : Event σ κ → St σ κ → ι → Prop
  | .build sem _ _ new, st, i => PrunedBelow sem work new st.fs i
  | .cleanSrc _ dry, st, i => dry = false ∧ UntrackedWs work st i
  | .cleanAttic sem dry, st, i => dry = false ∧ UnregisteredInDeletable sem work st i
  | .other f, st, i => ¬ Present work (f st).fs i

def NoLoss (work : κ → ι → Prop) : List (Event σ κ) → St σ κ → ι → Prop
  | [], _, _ => True
  | ev :: rest, st, i => ¬ Lost work ev st i ∧ NoLoss work rest (runEv ev st) i

theorem step_present (work : κ → ι → Prop) (ev : Event σ κ) (hok : EvOk work ev) (st : St σ κ) (i : ι)
    (h : Present work st.fs i) : Present work (runEv ev st).fs i ∨ Lost work ev st i := by
  cases ev with
  | build sem fl indet new =>
    exact Present_of_J _ (J_cook hok fl indet st (J_init st h))
  | cleanSrc sem dry => exact cleanSrc_present sem work hok dry st i h
  | cleanAttic sem dry => exact cleanAttic_present sem work hok dry st i h
  | other f =>
    by_cases hp : Present work (f st).fs i
    · exact Or.inl hp
    · exact Or.inr hp

theorem history_present (work : κ → ι → Prop) :
    ∀ (h : List (Event σ κ)) (st : St σ κ) (i : ι), (∀ ev, ev ∈ h → EvOk work ev) →
      NoLoss work h st i → Present work st.fs i → Present work (run h st).fs i := by
  intro h
  induction h with
  | nil => intro st i _ _ hp; exact hp
  | cons ev rest ih =>
    intro st i hok hnl hp
    simp only [run, List.foldl_cons]
    obtain ⟨h1, h2⟩ := hnl
    rcases step_present work ev (hok ev List.mem_cons_self) st i hp with h3 | h3
    · exact ih (runEv ev st) i (fun e he => hok e (List.mem_cons_of_mem _ he)) h2 h3
    · exact absurd h3 h1

end Checkout
