import BobModel.Proofs.C13Quote
/-
Helper lemmas for C13: `evalCmds` on the text rendered from a well-formed command list computes the
fold of the commands' intended meaning.
-/
namespace ShellEnv

theorem joinWith_cons_ne (sep x : Str) {l : List Str} (h : l ≠ []) :
    joinWith sep (x :: l) = x ++ sep ++ joinWith sep l := by
  cases l with
  | nil => exact absurd rfl h
  | cons y r => simp [joinWith]

theorem joinWith_len (sep : Str) (hs : sep.length = 1) : ∀ xs : List Str, xs.length ≤ (joinWith sep xs).length + 1
  | [] => by simp [joinWith]
  | [x] => by simp [joinWith]
  | x :: y :: r => by
    have := joinWith_len sep hs (y :: r)
    simp only [joinWith, List.length_append, List.length_cons] at *
    omega

theorem stripPrefix_append : ∀ (p t : Str), stripPrefix p (p ++ t) = some t
  | [], t => by simp [stripPrefix]
  | c :: p, t => by simp [stripPrefix, stripPrefix_append p t]

theorem isNameStart_isNameChar {c : Char} (h : isNameStart c = true) : isNameChar c = true := by
  simp only [isNameStart, isNameChar, Char.isAlphanum, Bool.or_eq_true] at *
  rcases h with h | h
  · exact Or.inl (Or.inl h)
  · exact Or.inr h

theorem isIdent_all {n : Str} (h : isIdent n = true) : n.all isNameChar = true ∧ headIs isNameStart n = true := by
  cases n with
  | nil => simp [isIdent] at h
  | cons c r =>
    simp only [isIdent, Bool.and_eq_true] at h
    simp [headIs, h.1, h.2, isNameStart_isNameChar h.1]

theorem spanName_append : ∀ (n rest : Str), n.all isNameChar = true → headIs isNameChar rest = false →
    spanName (n ++ rest) = (n, rest)
  | [], rest, _, h => by
    cases rest with
    | nil => simp [spanName]
    | cons c r => simp only [headIs] at h; simp [spanName, h]
  | c :: n, rest, hn, h => by
    simp only [List.all_cons, Bool.and_eq_true] at hn
    simp [spanName, hn.1, spanName_append n rest hn.2 h]

theorem headIs_append {p : Char → Bool} {n : Str} (rest : Str) (h : headIs p n = true) :
    headIs p (n ++ rest) = true := by
  cases n with
  | nil => simp [headIs] at h
  | cons c r => simpa [headIs] using h

theorem tail_headIs_name {tl : Str} (h : Tail tl) : headIs isNameChar tl = false := by
  rcases h with h | ⟨r, h⟩ <;> subst h
  · rfl
  · simp only [headIs]; decide

theorem lexWord_tail (E : Env) (acc : Str) {tl : Str} (h : Tail tl) :
    lexWord E wordStop .unq acc tl = .ok (acc, tl) := by
  rcases h with h | ⟨r, h⟩ <;> subst h
  · simp [lexWord]
  · simp only [lexWord]
    simp only [show ¬ ('\n' = nulChar) by decide, show ¬ ('\n' = '\'') by decide, show ¬ ('\n' = '"') by decide,
      show wordStop '\n' = true by decide, if_false, if_true]

theorem endCmd_tail {tl : Str} (h : Tail tl) : endCmd tl = .ok tl.tail := by
  rcases h with h | ⟨r, h⟩ <;> subst h <;> simp [endCmd]

theorem dropLine_append : ∀ (t : Str) {tl : Str}, '\n' ∉ t → Tail tl → dropLine (t ++ tl) = tl.tail
  | [], tl, _, h => by
    rcases h with h | ⟨r, h⟩ <;> subst h <;> simp [dropLine]
  | c :: t, tl, hn, h => by
    have hc : c ≠ '\n' := fun e => hn (by simp [e])
    have ht : '\n' ∉ t := fun e => hn (by simp [e])
    simp [dropLine, hc, dropLine_append t ht h]

/-- the right-hand side of an export line: quoted parts joined by `:`, optionally ending in `$PATH` -/
theorem lexWord_join (E : Env) {tl : Str} (extraTxt extraVal : List Str)
    (hextra : ∀ acc, lexWord E wordStop .unq acc (joinWith [':'] extraTxt ++ tl) =
      .ok (acc ++ joinWith [':'] extraVal, tl))
    (hlen : extraTxt = [] ↔ extraVal = []) :
    ∀ (parts : List Str) (acc : Str), (∀ p ∈ parts, NoNul p) →
      lexWord E wordStop .unq acc (joinWith [':'] (parts.map shlexQuote ++ extraTxt) ++ tl) =
        .ok (acc ++ joinWith [':'] (parts ++ extraVal), tl) := by
  intro parts
  induction parts with
  | nil => intro acc _; simpa using hextra acc
  | cons p ps ih =>
    intro acc hn
    have hp : NoNul p := hn p (by simp)
    have hps : ∀ q ∈ ps, NoNul q := fun q hq => hn q (by simp [hq])
    by_cases he : ps.map shlexQuote ++ extraTxt = []
    · have h1 : ps = [] := by
        cases ps with
        | nil => rfl
        | cons a b => simp at he
      subst h1
      have h2 : extraTxt = [] := by simpa using he
      have h3 : extraVal = [] := hlen.mp h2
      subst h2 h3
      simp only [List.map_cons, List.map_nil, List.append_nil, joinWith]
      rw [lexWord_quote E wordStop safeStop_word p acc tl hp]
      simpa [joinWith] using hextra (acc ++ p)
    · have he' : ps ++ extraVal ≠ [] := by
        intro h
        apply he
        have h1 : ps = [] := List.append_eq_nil_iff.mp h |>.1
        have h2 : extraVal = [] := List.append_eq_nil_iff.mp h |>.2
        simp [h1, hlen.mpr h2]
      simp only [List.map_cons, List.cons_append]
      rw [joinWith_cons_ne _ _ he, joinWith_cons_ne _ _ he']
      simp only [List.append_assoc]
      rw [lexWord_quote E wordStop safeStop_word p acc _ hp]
      simp only [List.singleton_append, lexWord]
      simp only [show ¬ (':' = nulChar) by decide, show ¬ (':' = '\'') by decide, show ¬ (':' = '"') by decide,
        show wordStop ':' = false by decide, show ¬ (':' = '\\') by decide, show ¬ (':' = '$') by decide,
        show plainChar ':' = true by decide, if_false, if_true, Bool.false_eq_true]
      rw [ih _ hps]
      simp

theorem varPath_facts :
    Consts.C13.varPath.all isNameChar = true ∧ headIs isNameStart Consts.C13.varPath = true := by decide

theorem lexWord_rhs (E : Env) (e : Export) {tl : Str} (htl : Tail tl) (hn : ∀ p ∈ e.parts, NoNul p) (acc : Str) :
    lexWord E wordStop .unq acc (e.rhs ++ tl) = .ok (acc ++ e.value E, tl) := by
  unfold Export.rhs Export.value
  cases hw : e.withPath with
  | false =>
    simp only [Bool.false_eq_true, if_false]
    apply lexWord_join E [] [] _ (by simp) e.parts acc hn
    intro acc
    simpa [joinWith] using lexWord_tail E acc htl
  | true =>
    simp only [if_true]
    apply lexWord_join E [dollarPath] [(lookup E Consts.C13.varPath).getD []] _ (by simp) e.parts acc hn
    intro acc
    simp only [joinWith, dollarPath, List.cons_append, lexWord]
    simp only [show ¬ ('$' = nulChar) by decide, show ¬ ('$' = '\'') by decide, show ¬ ('$' = '"') by decide,
      show wordStop '$' = false by decide, show ¬ ('$' = '\\') by decide, if_false, if_true, Bool.false_eq_true]
    unfold expandTail
    rw [spanName_append _ _ varPath_facts.1 (tail_headIs_name htl), headIs_append _ varPath_facts.2]
    rcases htl with h | ⟨r, h⟩ <;> subst h
    · simp
    · simp [show wordStop '\n' = true by decide]

theorem parseExport_render (sh : Sh) (e : Export) {tl : Str} (htl : Tail tl)
    (hid : isIdent e.name = true) (hn : ∀ p ∈ e.parts, NoNul p) :
    parseExport sh (e.name ++ '=' :: e.rhs ++ tl) = .ok (Cmd.eval sh (.export e), tl.tail) := by
  have hs : spanName (e.name ++ '=' :: (e.rhs ++ tl)) = (e.name, '=' :: (e.rhs ++ tl)) :=
    spanName_append _ _ (isIdent_all hid).1 (by simp only [headIs]; decide)
  unfold parseExport
  simp only [List.append_assoc, List.cons_append, hs, hid, ne_eq, not_true_eq_false, if_false, Bool.not_true,
    Bool.false_eq_true]
  have := lexWord_rhs sh.env e htl hn []
  simp only [List.nil_append] at this
  rw [this]
  simp [endCmd_tail htl, Cmd.eval]

/-! ### `declare -A NAME=( [k]=v … )` -/

theorem skipBlanks_bracket (r : Str) : skipBlanks ('[' :: r) = '[' :: r := by
  simp [skipBlanks]

theorem lexWord_elem (E : Env) (kv : Str × Str) (rest : Str) (hk : NoNul kv.1) (hv : NoNul kv.2) :
    lexWord E subStop .unq [] (shlexQuote kv.1 ++ ']' :: '=' :: (shlexQuote kv.2 ++ ' ' :: rest)) =
      .ok (kv.1, ']' :: '=' :: (shlexQuote kv.2 ++ ' ' :: rest)) ∧
    lexWord E wordStop .unq [] (shlexQuote kv.2 ++ ' ' :: rest) = .ok (kv.2, ' ' :: rest) := by
  constructor
  · rw [lexWord_quote E subStop safeStop_sub kv.1 [] _ hk]
    simp only [List.nil_append, lexWord]
    simp only [show ¬ (']' = nulChar) by decide, show ¬ (']' = '\'') by decide, show ¬ (']' = '"') by decide,
      show subStop ']' = true by decide, if_false, if_true]
  · rw [lexWord_quote E wordStop safeStop_word kv.2 [] _ hv]
    simp only [List.nil_append, lexWord]
    simp only [show ¬ (' ' = nulChar) by decide, show ¬ (' ' = '\'') by decide, show ¬ (' ' = '"') by decide,
      show wordStop ' ' = true by decide, if_false, if_true]

theorem parseElems_close (E : Env) (f : Nat) (acc : List (Str × Str)) (tl : Str) :
    parseElems E (f + 1) acc (' ' :: ')' :: tl) = .ok (acc, tl) := by
  simp [parseElems, skipBlanks]

theorem parseElems_close2 (E : Env) (f : Nat) (acc : List (Str × Str)) (tl : Str) :
    parseElems E (f + 1) acc (' ' :: ' ' :: ')' :: tl) = .ok (acc, tl) := by
  simp [parseElems, skipBlanks]

theorem parseElems_one (E : Env) (f : Nat) (acc : List (Str × Str)) (kv : Str × Str) (rest : Str)
    (hk0 : kv.1 ≠ []) (hk : NoNul kv.1) (hv : NoNul kv.2) :
    parseElems E (f + 1) acc (' ' :: (renderElem kv ++ ' ' :: rest)) = parseElems E f (kv :: acc) (' ' :: rest) := by
  obtain ⟨h1, h2⟩ := lexWord_elem E kv rest hk hv
  have hne : kv.1.isEmpty = false := by
    cases h : kv.1 with
    | nil => exact absurd h hk0
    | cons a b => rfl
  simp only [parseElems, renderElem, List.cons_append, List.append_assoc, skipBlanks,
    decide_true, skipBlanks_bracket]
  simp only [Bool.true_or, if_true, show ¬ ('[' = ')') by decide, if_false, h1, h2, decide_true, Bool.and_self,
    hne, Bool.false_eq_true]

theorem parseElems_render (E : Env) {tl : Str} :
    ∀ (es : List (Str × Str)) (kv : Str × Str) (f : Nat) (acc : List (Str × Str)),
      es.length + 2 ≤ f → (∀ e ∈ kv :: es, e.1 ≠ [] ∧ NoNul e.1 ∧ NoNul e.2) →
      parseElems E f acc (' ' :: (joinWith [' '] ((kv :: es).map renderElem) ++ ' ' :: ')' :: tl)) =
        .ok ((kv :: es).reverse ++ acc, tl) := by
  intro es
  induction es with
  | nil =>
    intro kv f acc hf hwf
    obtain ⟨f', rfl⟩ : ∃ f', f = f' + 2 := ⟨f - 2, by simp at hf; omega⟩
    obtain ⟨a, b, c⟩ := hwf kv (by simp)
    simp only [List.map_cons, List.map_nil, joinWith]
    rw [parseElems_one E _ acc kv _ a b c, parseElems_close]
    simp
  | cons e es ih =>
    intro kv f acc hf hwf
    obtain ⟨f', rfl⟩ : ∃ f', f = f' + 1 := ⟨f - 1, by simp at hf; omega⟩
    obtain ⟨a, b, c⟩ := hwf kv (by simp)
    have hrest : ∀ x ∈ e :: es, x.1 ≠ [] ∧ NoNul x.1 ∧ NoNul x.2 := fun x hx => hwf x (by simp [hx])
    simp only [List.map_cons]
    rw [joinWith_cons_ne _ _ (by simp)]
    simp only [List.append_assoc, List.cons_append]
    rw [parseElems_one E _ acc kv _ a b c]
    have := ih e f' (kv :: acc) (by simp at hf ⊢; omega) hrest
    simp only [List.map_cons] at this
    simp only [List.nil_append]
    rw [this]
    simp

theorem parseDeclare_render (sh : Sh) (n : Str) (es : List (Str × Str)) {tl : Str} (htl : Tail tl)
    (hid : isIdent n = true) (hwf : ∀ e ∈ es, e.1 ≠ [] ∧ NoNul e.1 ∧ NoNul e.2) :
    parseDeclare sh (n ++ ['=', '(', ' '] ++ joinWith [' '] (es.map renderElem) ++ [' ', ')'] ++ tl) =
      .ok (Cmd.eval sh (.declareA n es), tl.tail) := by
  have hs : spanName (n ++ '=' :: '(' :: ' ' :: (joinWith [' '] (es.map renderElem) ++ ' ' :: ')' :: tl)) =
      (n, '=' :: '(' :: ' ' :: (joinWith [' '] (es.map renderElem) ++ ' ' :: ')' :: tl)) :=
    spanName_append _ _ (isIdent_all hid).1 (by simp only [headIs]; decide)
  unfold parseDeclare
  simp only [List.append_assoc, List.cons_append, List.nil_append, hs, hid, Bool.not_true, Bool.false_eq_true,
    if_false, stripPrefix, if_true]
  cases es with
  | nil =>
    simp only [List.map_nil, joinWith, List.nil_append, List.length_cons]
    rw [parseElems_close2]
    simp [endCmd_tail htl, Cmd.eval]
  | cons kv es =>
    have hlen := joinWith_len [' '] rfl ((kv :: es).map renderElem)
    rw [parseElems_render sh.env es kv _ [] _ hwf]
    · simp [endCmd_tail htl, Cmd.eval]
    · simp only [List.length_cons, List.length_append, List.length_map] at hlen ⊢
      omega

/-! ### one command, then the whole text -/

theorem evalCmds_nil (f : Nat) (sh : Sh) : evalCmds f sh [] = .ok sh := by
  cases f <;> simp [evalCmds]

theorem evalCmds_cmd (f : Nat) (sh : Sh) (c : Cmd) {tl : Str} (htl : Tail tl) (hwf : c.WF) :
    evalCmds (f + 1) sh (c.render ++ tl) = evalCmds f (c.eval sh) tl.tail := by
  cases c with
  | line t =>
    obtain ⟨h1, h2⟩ := hwf
    rcases h1 with h1 | ⟨r, h1⟩ <;> subst h1
    · simp only [Cmd.render, List.nil_append, Cmd.eval]
      rcases htl with h | ⟨r, h⟩ <;> subst h
      · simp [evalCmds_nil]
      · simp [evalCmds]
    · have hr : '\n' ∉ r := fun e => h2 (by simp [e])
      simp only [Cmd.render, List.cons_append, Cmd.eval, evalCmds]
      simp only [show ¬ ('#' = '\n') by decide, if_false, if_true]
      rw [dropLine_append r hr htl]
  | raw t => exact absurd hwf (by simp [Cmd.WF])
  | declareA n es =>
    obtain ⟨h1, h2⟩ := hwf
    have := parseDeclare_render sh n es htl h1 h2
    simp only [Cmd.render, kwDeclare, List.cons_append, List.append_assoc, evalCmds]
    simp only [show ¬ ('d' = '\n') by decide, show ¬ ('d' = '#') by decide, if_false]
    simp only [kwExport, stripPrefix, show ¬ ('e' = 'd') by decide, if_false, if_true]
    simp only [List.append_assoc, List.cons_append, List.nil_append] at this
    simp only [List.nil_append]
    rw [this]
  | «export» e =>
    obtain ⟨h1, h2⟩ := hwf
    have := parseExport_render sh e htl h1 h2
    simp only [Cmd.render, kwExport, List.cons_append, List.append_assoc, evalCmds]
    simp only [show ¬ ('e' = '\n') by decide, show ¬ ('e' = '#') by decide, if_false]
    simp only [stripPrefix, if_true]
    simp only [List.append_assoc, List.cons_append] at this
    simp only [List.nil_append]
    rw [this]
  | setO t =>
    obtain ⟨r, h1, h2⟩ := hwf
    subst h1
    simp only [Cmd.render, kwSetO, List.cons_append, List.append_assoc, evalCmds]
    simp only [show ¬ ('s' = '\n') by decide, show ¬ ('s' = '#') by decide, if_false]
    simp only [kwExport, kwDeclare, stripPrefix, show ¬ ('e' = 's') by decide, show ¬ ('d' = 's') by decide,
      if_false, if_true, List.nil_append]
    rw [dropLine_append r h2 htl]
    simp [Cmd.eval]

theorem renderCmds_cons (c : Cmd) (cs : List Cmd) :
    ∃ tl, Tail tl ∧ renderCmds (c :: cs) = c.render ++ tl ∧ tl.tail = renderCmds cs := by
  cases cs with
  | nil => exact ⟨[], Or.inl rfl, by simp [renderCmds, joinWith], by simp [renderCmds, joinWith]⟩
  | cons d ds =>
    refine ⟨'\n' :: renderCmds (d :: ds), Or.inr ⟨_, rfl⟩, ?_, by simp⟩
    simp [renderCmds, joinWith]

/-- **bash on the rendered text = fold of the intended meaning of the commands** -/
theorem evalCmds_render : ∀ (cs : List Cmd) (f : Nat) (sh : Sh), cs.length ≤ f → (∀ c ∈ cs, c.WF) →
    evalCmds f sh (renderCmds cs) = .ok (cs.foldl Cmd.eval sh)
  | [], f, sh, _, _ => by simp [renderCmds, joinWith, evalCmds_nil]
  | c :: cs, f, sh, hf, hwf => by
    obtain ⟨f', rfl⟩ : ∃ f', f = f' + 1 := ⟨f - 1, by simp at hf; omega⟩
    obtain ⟨tl, h1, h2, h3⟩ := renderCmds_cons c cs
    rw [h2, evalCmds_cmd f' sh c h1 (hwf c (by simp)), h3]
    rw [evalCmds_render cs f' (c.eval sh) (by simp at hf; omega) (fun d hd => hwf d (by simp [hd]))]
    simp

theorem evalScript_render (cs : List Cmd) (sh : Sh) (hwf : ∀ c ∈ cs, c.WF) :
    evalScript sh (renderCmds cs) = .ok (cs.foldl Cmd.eval sh) := by
  unfold evalScript
  apply evalCmds_render cs _ sh _ hwf
  have := joinWith_len ['\n'] rfl (cs.map Cmd.render)
  simp only [List.length_map] at this
  exact this

end ShellEnv
