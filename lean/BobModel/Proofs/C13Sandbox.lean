import BobModel.Proofs.C13Env
/-
Helper lemmas for C13: the option parser of the sandbox helper on a rendered group list, and the mount
contract `resolve`.
-/
namespace ShellEnv

/-- groups whose option letter the helper understands the way `HArg` means it -/
def HArg.Ok : HArg → Prop
  | .flag c => c = 'i' ∨ c = 'n' ∨ c = 'r'
  | .opt c _ => c = 'S' ∨ c = 'W' ∨ c = 'H' ∨ c = 'd'
  | .mount _ => True
  | .mountSame _ => True

/-- the mounts in effect once a pending `-M` is flushed -/
def HelperOpts.eff (o : HelperOpts) : List Mount := o.flush.mounts

theorem flush_pending (o : HelperOpts) : o.flush.pending = none := by
  unfold HelperOpts.flush
  split <;> simp_all

theorem eff_none (o : HelperOpts) (h : o.pending = none) : o.eff = o.mounts := by
  simp [HelperOpts.eff, HelperOpts.flush, h]

theorem eff_some (o : HelperOpts) (s : Str) (h : o.pending = some s) : o.eff = o.mounts ++ [⟨s, s, false⟩] := by
  simp [HelperOpts.eff, HelperOpts.flush, h]

theorem eff_flags (o : HelperOpts) (fl : List Char) : ({ o with flags := fl } : HelperOpts).eff = o.eff := by
  unfold HelperOpts.eff HelperOpts.flush
  cases o.pending <;> rfl

theorem optLetter_dash (c : Char) : optLetter (dash c) = some c := rfl

theorem parseHelper_end (o o' : HelperOpts) (cmd : List Str) (h : parseHelper o (['-', '-'] :: cmd) = .ok o') :
    o'.mounts = o.eff := by
  cases cmd with
  | nil =>
    simp only [parseHelper, optLetter, if_true, Except.ok.injEq] at h
    rw [← h]; rfl
  | cons v r =>
    simp only [parseHelper, optLetter, if_true, Except.ok.injEq] at h
    rw [← h]; rfl

theorem applyOpt_plain (o o1 : HelperOpts) (c : Char) (v : Str) (hc : c = 'S' ∨ c = 'W' ∨ c = 'H' ∨ c = 'd')
    (h : applyOpt o c v = .ok o1) : o1.eff = o.eff := by
  unfold applyOpt at h
  rcases hc with rfl | rfl | rfl | rfl
  · simp only [if_true] at h
    split at h
    · exact absurd h (by simp)
    · simp only [Except.ok.injEq] at h; rw [← h]; unfold HelperOpts.eff HelperOpts.flush; cases o.pending <;> rfl
  · simp only [show ¬ ('W' = 'S') by decide, if_false, if_true] at h
    split at h
    · exact absurd h (by simp)
    · simp only [Except.ok.injEq] at h; rw [← h]; unfold HelperOpts.eff HelperOpts.flush; cases o.pending <;> rfl
  · simp only [show ¬ ('H' = 'S') by decide, show ¬ ('H' = 'W') by decide, if_false, if_true] at h
    simp only [Except.ok.injEq] at h; rw [← h]; unfold HelperOpts.eff HelperOpts.flush; cases o.pending <;> rfl
  · simp only [show ¬ ('d' = 'S') by decide, show ¬ ('d' = 'W') by decide, show ¬ ('d' = 'H') by decide,
      if_false, if_true] at h
    split at h
    · exact absurd h (by simp)
    · simp only [Except.ok.injEq] at h; rw [← h]; unfold HelperOpts.eff HelperOpts.flush; cases o.pending <;> rfl

theorem applyOpt_M (o o1 : HelperOpts) (s : Str) (h : applyOpt o 'M' s = .ok o1) :
    o1.mounts = o.eff ∧ o1.pending = some s := by
  unfold applyOpt at h
  simp only [show ¬ ('M' = 'S') by decide, show ¬ ('M' = 'W') by decide, show ¬ ('M' = 'H') by decide,
    show ¬ ('M' = 'd') by decide, if_false, if_true] at h
  split at h
  · exact absurd h (by simp)
  · simp only [Except.ok.injEq] at h; rw [← h]; exact ⟨rfl, rfl⟩

theorem applyOpt_target (o o1 : HelperOpts) (s t : Str) (rw : Bool) (hp : o.pending = some s)
    (h : applyOpt o (if rw then 'w' else 'm') t = .ok o1) :
    o1.mounts = o.mounts ++ [⟨s, t, rw⟩] ∧ o1.pending = none := by
  have key : ∀ c : Char, (c = 'm' ∨ c = 'w') → applyOpt o c t = .ok o1 →
      o1.mounts = o.mounts ++ [⟨s, t, decide (c = 'w')⟩] ∧ o1.pending = none := by
    intro c hc h
    unfold applyOpt at h
    have h1 : ¬ c = 'S' := by rcases hc with rfl | rfl <;> decide
    have h2 : ¬ c = 'W' := by rcases hc with rfl | rfl <;> decide
    have h3 : ¬ c = 'H' := by rcases hc with rfl | rfl <;> decide
    have h4 : ¬ c = 'd' := by rcases hc with rfl | rfl <;> decide
    have h5 : ¬ c = 'M' := by rcases hc with rfl | rfl <;> decide
    have h6 : (decide (c = 'm') || decide (c = 'w')) = true := by rcases hc with rfl | rfl <;> decide
    simp only [h1, h2, h3, h4, h5, if_false] at h
    rw [if_pos h6] at h
    split at h
    · exact absurd h (by simp)
    · rw [hp] at h
      simp only [Except.ok.injEq] at h
      rw [← h]
      exact ⟨rfl, rfl⟩
  cases rw with
  | false => simpa using key 'm' (Or.inl rfl) (by simpa using h)
  | true => simpa using key 'w' (Or.inr rfl) (by simpa using h)

/-- one option group in front of the (non-empty) rest of the command line -/
theorem parseHelper_group (g : HArg) (hg : g.Ok) (o o' : HelperOpts) (v : Str) (r : List Str)
    (h : parseHelper o (g.render ++ v :: r) = .ok o') :
    ∃ o₁, parseHelper o₁ (v :: r) = .ok o' ∧ o₁.eff = o.eff ++ g.mounts := by
  cases g with
  | flag c =>
    have hf : isFlagOpt c = true := by rcases hg with rfl | rfl | rfl <;> decide
    have hd : c ≠ '-' := by rcases hg with rfl | rfl | rfl <;> decide
    simp only [HArg.render, List.cons_append, List.nil_append, parseHelper, optLetter_dash, hd, if_false, hf, if_true] at h
    exact ⟨_, h, by simp [eff_flags, HArg.mounts]⟩
  | opt c x =>
    have hf : isFlagOpt c = false := by rcases hg with rfl | rfl | rfl | rfl <;> decide
    have hd : c ≠ '-' := by rcases hg with rfl | rfl | rfl | rfl <;> decide
    simp only [HArg.render, List.cons_append, List.nil_append, parseHelper, optLetter_dash, hd, if_false, hf,
      Bool.false_eq_true] at h
    cases ha : applyOpt o c x with
    | error e => simp [ha] at h
    | ok o1 =>
      simp only [ha] at h
      exact ⟨o1, h, by simp [applyOpt_plain o o1 c x hg ha, HArg.mounts]⟩
  | mountSame s =>
    simp only [HArg.render, List.cons_append, List.nil_append, parseHelper, optLetter_dash,
      show ¬ ('M' = '-') by decide, show isFlagOpt 'M' = false by decide, if_false, Bool.false_eq_true] at h
    cases ha : applyOpt o 'M' s with
    | error e => simp [ha] at h
    | ok o1 =>
      simp only [ha] at h
      obtain ⟨h1, h2⟩ := applyOpt_M o o1 s ha
      exact ⟨o1, h, by simp [eff_some o1 s h2, h1, HArg.mounts]⟩
  | mount m =>
    simp only [HArg.render, List.cons_append, List.nil_append, parseHelper, optLetter_dash,
      show ¬ ('M' = '-') by decide, show isFlagOpt 'M' = false by decide, if_false, Bool.false_eq_true] at h
    cases ha : applyOpt o 'M' m.src with
    | error e => simp [ha] at h
    | ok o1 =>
      simp only [ha] at h
      obtain ⟨h1, h2⟩ := applyOpt_M o o1 m.src ha
      have hd : (if m.rw = true then 'w' else 'm') ≠ '-' := by cases m.rw <;> decide
      have hf : isFlagOpt (if m.rw = true then 'w' else 'm') = false := by cases m.rw <;> decide
      simp only [parseHelper, optLetter_dash, hd, if_false, hf, Bool.false_eq_true] at h
      cases hb : applyOpt o1 (if m.rw = true then 'w' else 'm') m.tgt with
      | error e => simp [hb] at h
      | ok o2 =>
        simp only [hb] at h
        obtain ⟨h3, h4⟩ := applyOpt_target o1 o2 m.src m.tgt m.rw h2 hb
        exact ⟨o2, h, by simp [eff_none o2 h4, h3, h1, HArg.mounts]⟩

/-- **the helper's option parser on a rendered command line**: if it accepts `groups -- command`, the mount
table it builds is exactly the groups' mounts in order (after what was in effect before) -/
theorem parseHelper_render : ∀ (gs : List HArg) (o o' : HelperOpts) (cmd : List Str), (∀ g ∈ gs, g.Ok) →
    parseHelper o (renderHArgs gs ++ ['-', '-'] :: cmd) = .ok o' → o'.mounts = o.eff ++ gs.flatMap HArg.mounts
  | [], o, o', cmd, _, h => by
    simp only [renderHArgs, List.flatMap_nil, List.nil_append] at h
    simp [parseHelper_end o o' cmd h]
  | g :: gs, o, o', cmd, hok, h => by
    have hr : renderHArgs (g :: gs) ++ ['-', '-'] :: cmd = g.render ++ (renderHArgs gs ++ ['-', '-'] :: cmd) := by
      simp [renderHArgs]
    rw [hr] at h
    obtain ⟨v, r, hvr⟩ : ∃ v r, renderHArgs gs ++ ['-', '-'] :: cmd = v :: r := by
      cases hx : renderHArgs gs ++ ['-', '-'] :: cmd with
      | nil => simp at hx
      | cons v r => exact ⟨v, r, rfl⟩
    rw [hvr] at h
    obtain ⟨o₁, h1, h2⟩ := parseHelper_group g (hok g (by simp)) o o' v r h
    rw [← hvr] at h1
    have := parseHelper_render gs o₁ o' cmd (fun x hx => hok x (by simp [hx])) h1
    rw [this, h2]
    simp

/-! ### the mount contract -/

theorem resolve_mem (ms : List Mount) (p : Str) (m : Mount) (rest : List Str) (h : resolve ms p = some (m, rest)) :
    m ∈ ms := by
  unfold resolve at h
  cases hf : ms.reverse.find? (fun m => (comps m.tgt).isPrefixOf (comps p)) with
  | none => simp [hf] at h
  | some x =>
    simp only [hf, Option.map_some, Option.some.injEq, Prod.mk.injEq] at h
    have := List.mem_of_find?_eq_some hf
    rw [← h.1]
    simpa using this

/-- a later mount whose target covers the path hides every earlier mount -/
theorem resolve_after (a b : List Mount) (w : Mount) (p : Str) (m : Mount) (rest : List Str)
    (hw : (comps w.tgt).isPrefixOf (comps p) = true) (h : resolve (a ++ w :: b) p = some (m, rest)) :
    m = w ∨ m ∈ b := by
  unfold resolve at h
  simp only [List.reverse_append, List.reverse_cons, List.append_assoc, List.singleton_append, List.find?_append] at h
  cases hf : b.reverse.find? (fun m => (comps m.tgt).isPrefixOf (comps p)) with
  | some x =>
    simp only [hf, Option.some_or, Option.map_some, Option.some.injEq, Prod.mk.injEq] at h
    right
    have := List.mem_of_find?_eq_some hf
    rw [← h.1]
    simpa using this
  | none =>
    simp only [hf, Option.none_or, List.find?_cons, hw, Option.map_some, Option.some.injEq, Prod.mk.injEq] at h
    exact Or.inl h.1.symm

theorem flatMap_mounts_map (l : List Str) (g : Str → Mount) :
    (l.map fun f => HArg.mount (g f)).flatMap HArg.mounts = l.map g := by
  induction l with
  | nil => rfl
  | cons x r ih => simp [List.flatMap_cons, HArg.mounts, ih]

theorem flatMap_mounts_map' {α : Type} (l : List α) (g : α → Mount) :
    (l.map fun f => HArg.mount (g f)).flatMap HArg.mounts = l.map g := by
  induction l with
  | nil => rfl
  | cons x r ih => simp [List.flatMap_cons, HArg.mounts, ih]

def whiteoutMount (tmpDir cwd : Str) : Mount := ⟨pathJoin tmpDir (strOf "whiteout"), cwd, true⟩

/-- the mounts of the part `executeStep` appends, in order -/
def stepMounts (abs : Str → Str) (realScript execScript : Str) (envFile : Option Str) (wsStorage wsExec : Str)
    (depMounts : List (Str × Str)) : List Mount :=
  [⟨abs realScript, execScript, false⟩] ++
  (match envFile with | some f => [⟨abs f, strOf "/bob/env", true⟩] | none => []) ++
  [⟨abs wsStorage, abs wsExec, true⟩] ++ depMounts.map fun d => ⟨abs d.1, abs d.2, false⟩

theorem stepGroups_mounts (abs : Str → Str) (rs es : Str) (net : Bool) (envFile : Option Str) (wsS wsE : Str)
    (deps : List (Str × Str)) :
    (stepGroups abs rs es net envFile wsS wsE deps).flatMap HArg.mounts = stepMounts abs rs es envFile wsS wsE deps := by
  unfold stepGroups stepMounts
  cases net <;> cases envFile <;>
    simp [List.flatMap_append, List.flatMap_cons, HArg.mounts, flatMap_mounts_map']

theorem slimGroups_mounts (tmpDir cwd : Str) (entries : List Str) :
    (slimGroups tmpDir cwd entries).flatMap HArg.mounts =
      (entries.filter (· ≠ tmpStr)).map (fun f => ⟨'/' :: f, '/' :: f, false⟩) ++ [whiteoutMount tmpDir cwd] := by
  unfold slimGroups whiteoutMount
  simp [List.flatMap_append, List.flatMap_cons, HArg.mounts, flatMap_mounts_map]

theorem stepGroups_ok (abs : Str → Str) (rs es : Str) (net : Bool) (envFile : Option Str) (wsS wsE : Str)
    (deps : List (Str × Str)) : ∀ g ∈ stepGroups abs rs es net envFile wsS wsE deps, g.Ok := by
  intro g hg
  unfold stepGroups at hg
  simp only [List.mem_append, List.mem_cons, List.mem_nil_iff, or_false, List.mem_map] at hg
  rcases hg with (((rfl | hg) | hg) | (rfl | rfl)) | ⟨d, _, rfl⟩
  · trivial
  · cases net <;> simp at hg
    subst hg; exact Or.inr (Or.inl rfl)
  · cases envFile <;> simp at hg
    subst hg; trivial
  · trivial
  · exact Or.inr (Or.inl rfl)
  · trivial

theorem slimGroups_ok (tmpDir cwd : Str) (entries : List Str) : ∀ g ∈ slimGroups tmpDir cwd entries, g.Ok := by
  intro g hg
  unfold slimGroups at hg
  simp only [List.mem_append, List.mem_cons, List.mem_nil_iff, or_false, List.mem_map] at hg
  rcases hg with ((rfl | rfl | rfl) | ⟨f, _, rfl⟩) | rfl
  · exact Or.inl rfl
  · exact Or.inl rfl
  · exact Or.inr (Or.inr (Or.inr rfl))
  · trivial
  · trivial

theorem hostMountGroups_spec (skip : Str) (ex : Str → Bool) (hm : HostMount) :
    (∀ g ∈ hostMountGroups skip ex hm, g.Ok) ∧
    ∀ m ∈ (hostMountGroups skip ex hm).flatMap HArg.mounts,
      m.src = hm.host ∧ hm.options.contains skip = false ∧ (m.rw = true → hm.options.contains (strOf "rw") = true) := by
  unfold hostMountGroups
  split
  · simp
  · rename_i h1
    simp only [Bool.not_eq_true] at h1
    split
    · simp
    · split
      · rename_i h3
        refine ⟨fun g hg => by simp at hg; subst hg; trivial, fun m hm' => ?_⟩
        simp only [List.flatMap_cons, List.flatMap_nil, HArg.mounts, List.append_nil, List.mem_cons, List.mem_nil_iff,
          or_false] at hm'
        subst hm'
        exact ⟨rfl, h1, fun _ => h3⟩
      · split
        · refine ⟨fun g hg => by simp at hg; subst hg; trivial, fun m hm' => ?_⟩
          simp only [List.flatMap_cons, List.flatMap_nil, HArg.mounts, List.append_nil, List.mem_cons, List.mem_nil_iff,
            or_false] at hm'
          subst hm'
          exact ⟨rfl, h1, fun h => by simp at h⟩
        · refine ⟨fun g hg => by simp at hg; subst hg; trivial, fun m hm' => ?_⟩
          simp only [List.flatMap_cons, List.flatMap_nil, HArg.mounts, List.append_nil, List.mem_cons, List.mem_nil_iff,
            or_false] at hm'
          subst hm'
          exact ⟨rfl, h1, fun h => by simp at h⟩

theorem fatGroups_ok (tmpDir rootFs : Str) (entries : List Str) (isJenkins : Bool) (ex : Str → Bool)
    (hms : List HostMount) (user : Str) : ∀ g ∈ fatGroups tmpDir rootFs entries isJenkins ex hms user, g.Ok := by
  intro g hg
  unfold fatGroups at hg
  simp only [List.mem_append, List.mem_cons, List.mem_nil_iff, or_false, List.mem_map, List.mem_flatMap] at hg
  rcases hg with (((rfl | rfl | rfl) | ⟨f, _, rfl⟩) | ⟨hm, _, hg⟩) | hg
  · exact Or.inl rfl
  · exact Or.inr (Or.inr (Or.inl rfl))
  · exact Or.inr (Or.inr (Or.inr rfl))
  · trivial
  · exact (hostMountGroups_spec _ ex hm).1 g hg
  · split at hg
    · simp at hg; subst hg; exact Or.inr (Or.inr rfl)
    · split at hg
      · simp at hg; subst hg; exact Or.inl rfl
      · simp at hg

/-- the mounts of an image sandbox before the step part: image entries (read-only) and the host mounts the
sandbox recipe declared -/
theorem fatGroups_mounts (tmpDir rootFs : Str) (entries : List Str) (isJenkins : Bool) (ex : Str → Bool)
    (hms : List HostMount) (user : Str) :
    ∀ m ∈ (fatGroups tmpDir rootFs entries isJenkins ex hms user).flatMap HArg.mounts,
      (∃ f ∈ entries, m = ⟨pathJoin rootFs f, '/' :: f, false⟩) ∨
      (∃ hm ∈ hms, m.src = hm.host ∧ (m.rw = true → hm.options.contains (strOf "rw") = true)) := by
  intro m hm
  obtain ⟨g, hg, hmg⟩ := List.mem_flatMap.mp hm
  unfold fatGroups at hg
  simp only [List.mem_append, List.mem_cons, List.mem_nil_iff, or_false, List.mem_map, List.mem_flatMap] at hg
  rcases hg with (((rfl | rfl | rfl) | ⟨f, hf, rfl⟩) | ⟨h, hh, hgh⟩) | hg
  · simp [HArg.mounts] at hmg
  · simp [HArg.mounts] at hmg
  · simp [HArg.mounts] at hmg
  · simp only [HArg.mounts, List.mem_cons, List.mem_nil_iff, or_false] at hmg
    exact Or.inl ⟨f, hf, hmg⟩
  · have := (hostMountGroups_spec _ ex h).2 m (List.mem_flatMap.mpr ⟨g, hgh, hmg⟩)
    exact Or.inr ⟨h, hh, this.1, this.2.2⟩
  · split at hg
    · simp at hg; subst hg; simp [HArg.mounts] at hmg
    · split at hg
      · simp at hg; subst hg; simp [HArg.mounts] at hmg
      · simp at hg

/-! ### concrete instances used by the non-vacuity examples in Props/C13.lean -/

/-- a recipe environment with a quote, a dollar sign, a blank, a newline and an empty value -/
def exFull : Env := [(['A'], ['x', ' ', '\'', '$']), (['B'], ['\n']), (['C'], []), (['P', 'A', 'T', 'H'], ['z'])]

/-- step declared with strong variable A, weak variable B (C and PATH undeclared), one tool, one argument -/
def exSpec : Spec :=
  { env := stepEnvOf exFull [['A']] [['B']], paths := [['/', 't', ' ', 'b']], libraryPaths := [['/', 'l']],
    cwd := ['/', 'w'], args := [['/', 'd']], allPaths := [(['d', '\''], ['/', 'd'])], depPaths := [], toolPaths := [] }

theorem exSpec_wf : Spec.WF id exSpec := ⟨by decide, by decide, by decide, by decide, by decide, by decide⟩

def exDesc : StepDesc :=
  { env := [], valid := true, isCheckout := false,
    args := [⟨['l'], true, false, ['/', 'p', '/', 'l'], ['/', 'p', '/', 'l']⟩, ⟨['x'], false, false, [], []⟩],
    tools := [⟨['t'], ⟨['t'], true, false, ['/', 'p', '/', 't'], ['/', 'p', '/', 't']⟩, ['b', 'i', 'n'], [['l', 'i', 'b']]⟩],
    sandbox := none, chain := [⟨['l'], true, true, ['/', 'p', '/', 's'], ['/', 'p', '/', 's']⟩] }

/-- the command line of a slim sandbox for a step in project `/p` with one dependency -/
def exSlimArgv : List Str :=
  renderHArgs (slimGroups ['/', 't'] ['/', 'p'] [['u', 's', 'r'], tmpStr] ++
    stepGroups id ['/', 's'] ['/', 's'] false none ['/', 'p', '/', 'w'] ['/', 'p', '/', 'w']
      [(['/', 'p', '/', 'd'], ['/', 'p', '/', 'd'])]) ++ ['-', '-'] :: [['b']]

end ShellEnv
