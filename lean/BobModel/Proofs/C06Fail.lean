import BobModel.Proofs.C06Lock
/-
Failure handling of the scheduler model: the bookkeeping itself never raises (no task ever carries an
internal exception), without keep-going the first recorded build error clears `running` for good, with
keep-going `running` is never cleared.
-/
namespace Sched
open JobSem

structure ErrInv (cfg : Cfg) (st : St) : Prop where
  noInternal : ∀ x ∈ st.tasks, x.err ≠ some .internal
  stop : cfg.keepGoing = false → 0 < st.errors → st.running = false
  keep : cfg.keepGoing = true → st.running = true

theorem ErrInv.update {cfg : Cfg} {st g : St} {t : Nat} {x' : Task} {new : List Task}
    (hi : ErrInv cfg st) (hg : GrowT st g new) (herr : x'.err ≠ some .internal)
    (hrun : g.running = st.running) (herrs : g.errors = st.errors) : ErrInv cfg (g.setTask t x') := by
  refine ⟨?_, ?_, ?_⟩
  · intro y hy
    simp only [setTask_tasks, hg.tasks] at hy
    rcases List.mem_or_eq_of_mem_set hy with hy | hy
    · rcases List.mem_append.mp hy with hy | hy
      · exact hi.noInternal y hy
      · rw [(hg.init y hy).1]; simp
    · subst hy; exact herr
  · simp only [setTask_running, setTask_errors, hrun, herrs]; exact hi.stop
  · simp only [setTask_running, hrun]; exact hi.keep

/-- every step of a task preserves `ErrInv`, given that `release` and `unlock` cannot fail (accounting) -/
theorem ErrInv.stepTask {n : Nat} {P : Project} {cfg : Cfg} {st st' : St} {t : Nat}
    (hi : ErrInv cfg st) (htok : TokInv n st) (hlock : LockInv P st)
    (h : stepTask P cfg st t = some st') : ErrInv cfg st' := by
  unfold Sched.stepTask at h
  simp only at h
  split at h
  · cases h
  · rename_i op rest hops
    have ht := task_lt hops
    have he := hi.noInternal _ (task_mem ht)
    -- continue with the same pending exception
    have cont : ∀ (g : St) (new : List Task) (k : TKind) (ops : List Op), GrowT st g new →
        g.running = st.running → g.errors = st.errors →
        ErrInv cfg (g.setTask t { kind := k, ops := ops, err := (st.task t).err }) :=
      fun g new k ops hg h1 h2 => hi.update hg he h1 h2
    have rais : ∀ (g : St) (new : List Task) (e : Err) (r : List Op), e ≠ .internal → GrowT st g new →
        g.running = st.running → g.errors = st.errors →
        ErrInv cfg (g.setTask t (raise (st.task t) e r)) :=
      fun g new e r hne hg h1 h2 => hi.update hg (by simp [raise]; exact hne) h1 h2
    cases op <;> simp only at h
    case fence k =>
      split at h
      · split at h <;> cases h
        · exact rais _ [] _ _ (by simp) (GrowT.same rfl) rfl rfl
        · exact cont _ [] _ _ (GrowT.same rfl) rfl rfl
      · cases h
    case start =>
      split at h <;> cases h
      · exact cont _ [] _ _ (GrowT.same rfl) rfl rfl
      · exact cont _ [] _ _ (GrowT.same rfl) rfl rfl
    case startWait =>
      split at h <;> cases h
      exact cont _ [] _ _ (GrowT.same rfl) rfl rfl
    case release =>
      obtain ⟨r', e⟩ := htok.release_ok hops (Or.inl rfl)
      rw [e] at h
      simp only at h
      cases h
      exact cont _ [] _ _ (GrowT.same rfl) rfl rfl
    case checkRunning =>
      split at h <;> cases h
      · exact cont _ [] _ _ (GrowT.same rfl) rfl rfl
      · exact rais _ [] _ _ (by simp) (GrowT.same rfl) rfl rfl
    case cook steps co =>
      split at h <;> cases h
      · exact cont _ [] _ _ (GrowT.same rfl) rfl rfl
      · exact cont _ [] _ _ (GrowT.same rfl) rfl rfl
    case spawn trk steps co =>
      split at h <;> cases h
      · obtain ⟨new, hg⟩ := createTasks_grow P trk co steps st
        exact cont _ new _ _ hg.toT hg.running hg.errors
      · exact cont _ [] _ _ (GrowT.same rfl) rfl rfl
    case spawnSeq trk todo co made =>
      split at h
      · cases h; exact cont _ [] _ _ (GrowT.same rfl) rfl rfl
      · rename_i s todo'
        cases h
        obtain ⟨new, hg⟩ := createTask_grow P st trk s co
        exact cont _ new _ _ hg.toT hg.running hg.errors
    case yieldRel ks rs =>
      obtain ⟨r', e⟩ := htok.release_ok hops (Or.inr ⟨ks, rs, rfl⟩)
      rw [e] at h
      simp only at h
      cases h
      exact cont _ [] _ _ (GrowT.same rfl) rfl rfl
    case gather ks =>
      split at h
      · split at h <;> cases h
        · exact rais _ [] _ _ (by simp) (GrowT.same rfl) rfl rfl
        · exact cont _ [] _ _ (GrowT.same rfl) rfl rfl
      · cases h
    case waitOnly ks =>
      split at h <;> cases h
      exact cont _ [] _ _ (GrowT.same rfl) rfl rfl
    case results ks =>
      split at h <;> cases h
      · exact rais _ [] _ _ (by simp) (GrowT.same rfl) rfl rfl
      · exact cont _ [] _ _ (GrowT.same rfl) rfl rfl
    case reacq =>
      split at h <;> cases h
      · exact cont _ [] _ _ (GrowT.same rfl) rfl rfl
      · exact cont _ [] _ _ (GrowT.same rfl) rfl rfl
    case reacqWait =>
      split at h <;> cases h
      exact cont _ [] _ _ (GrowT.same rfl) rfl rfl
    case cookBody s co =>
      split at h
      · cases h; exact rais _ [] _ _ (by simp) (GrowT.same rfl) rfl rfl
      · split at h
        · cases h; exact cont _ [] _ _ (GrowT.same rfl) rfl rfl
        · split at h <;> cases h
          · exact cont _ [] _ _ (GrowT.same rfl) rfl rfl
          · exact cont _ [] _ _ (GrowT.same rfl) rfl rfl
    case lock s co dl =>
      split at h <;> cases h
      · exact cont _ [] _ _ (GrowT.same rfl) rfl rfl
      · exact cont _ [] _ _ (GrowT.same rfl) rfl rfl
    case lockWait s co dl =>
      split at h <;> cases h
      exact cont _ [] _ _ (GrowT.same rfl) rfl rfl
    case underLock s co =>
      split at h <;> cases h
      · exact cont _ [] _ _ (GrowT.same rfl) rfl rfl
      · exact cont _ [] _ _ (GrowT.same rfl) rfl rfl
    case download s =>
      cases h
      refine cont _ [] _ _ (GrowT.same ?_) ?_ ?_ <;> split <;> rfl
    case unlock p =>
      obtain ⟨l, e⟩ := hlock.unlock_ok hops
      rw [e] at h
      simp only at h
      cases h
      exact cont _ [] _ _ (GrowT.same rfl) rfl rfl
    case bidSingle s =>
      split at h
      · split at h <;> cases h
        · exact cont _ [] _ _ (GrowT.same rfl) rfl rfl
        · exact cont _ [] _ _ (GrowT.same rfl) rfl rfl
      · split at h <;> cases h
        · exact cont _ [] _ _ (GrowT.same rfl) rfl rfl
        · exact cont _ [] _ _ (GrowT.same rfl) rfl rfl
    case cacheSrc s => cases h; exact cont _ [] _ _ (GrowT.same rfl) rfl rfl
    case cacheDist s => cases h; exact cont _ [] _ _ (GrowT.same rfl) rfl rfl
    case run s => cases h; exact cont _ [] _ _ (GrowT.same rfl) rfl rfl
    case runWait s res =>
      split at h
      · cases h
      · cases h; exact cont _ [] _ _ (GrowT.same rfl) rfl rfl
      · cases h; exact rais _ [] _ _ (by simp) (GrowT.same rfl) rfl rfl
    case setRun s sk => cases h; exact cont _ [] _ _ (GrowT.same rfl) rfl rfl
    case spawnTop targets =>
      split at h <;> cases h
      · obtain ⟨new, hg⟩ := createTops_grow targets st
        exact cont _ new _ _ hg.toT hg.running hg.errors
      · exact cont _ [] _ _ (GrowT.same rfl) rfl rfl
    case spawnTopSeq todo made =>
      split at h
      · cases h; exact cont _ [] _ _ (GrowT.same rfl) rfl rfl
      · rename_i s todo'
        cases h
        obtain ⟨new, hg⟩ := createTop_grow st s
        exact cont _ new _ _ hg.toT hg.running hg.errors
    case wrapEnd =>
      split at h
      · cases h
        refine hi.update (GrowT.same ?_) he ?_ ?_ <;> split <;> rfl
      · cases h
        refine ⟨?_, ?_, ?_⟩
        · intro y hy
          simp only [setTask_tasks, emit_tasks] at hy
          rcases List.mem_or_eq_of_mem_set hy with hy | hy
          · exact hi.noInternal y hy
          · subst hy; simp
        · intro hk _
          simp [hk]
        · intro hk
          simp only [setTask_running, emit_running, hk, ↓reduceIte]
          exact hi.keep hk
      · rename_i hint
        exact absurd hint he
      · cases h
        exact hi.update (GrowT.same rfl) he rfl rfl

theorem ErrInv.step {n : Nat} {P : Project} {cfg : Cfg} {st st' : St} {c : Choice}
    (hi : ErrInv cfg st) (htok : TokInv n st) (hlock : LockInv P st)
    (h : step P cfg st c = some st') : ErrInv cfg st' := by
  cases c with
  | task t => exact hi.stepTask htok hlock h
  | finish t ok =>
    simp only [Sched.step, finishScript] at h
    split at h
    · rename_i s rest hops
      cases h
      have ht := task_lt hops
      exact hi.update (x' := { kind := (st.task t).kind, ops := Op.runWait s (some ok) :: rest, err := (st.task t).err })
        (GrowT.same rfl) (hi.noInternal (st.task t) (task_mem ht)) rfl rfl
    · cases h
  | callback =>
    simp only [Sched.step] at h
    split at h
    · split at h <;> cases h
      exact ⟨hi.noInternal, hi.stop, hi.keep⟩
    · cases h
  | envTake =>
    simp only [Sched.step] at h
    split at h
    · rename_i s hs
      cases he : s.envTake with
      | none => simp [he] at h
      | some s' =>
        simp only [he, Option.map_some, Option.some.injEq] at h
        subst h
        exact ⟨hi.noInternal, hi.stop, hi.keep⟩
    · cases h
  | envReturn =>
    simp only [Sched.step] at h
    split at h
    · rename_i s hs
      cases he : s.envReturn with
      | none => simp [he] at h
      | some s' =>
        simp only [he, Option.map_some, Option.some.injEq] at h
        subst h
        exact ⟨hi.noInternal, hi.stop, hi.keep⟩
    · cases h

theorem ErrInv.init (cfg : Cfg) (r0 : Runners) : ErrInv cfg (init cfg r0) := by
  refine ⟨?_, ?_, ?_⟩
  · intro x hx
    simp only [Sched.init, List.mem_singleton] at hx
    subst hx; simp
  · intro _ h; simp [Sched.init] at h
  · intro _; rfl

theorem ErrInv.reach {n : Nat} {P : Project} {cfg : Cfg} {r0 : Runners} {st : St} (hr : GoodRunners n r0)
    (h : Reach P cfg r0 st) : ErrInv cfg st := by
  induction h with
  | init => exact ErrInv.init cfg r0
  | step c hprev hs ih => exact ih.step (TokInv.reach hr hprev) (LockInv.reach hr hprev) hs

end Sched
