import BobModel.Proofs.C19Spec
import BobModel.Proofs.C19Order
/-
C19 helper lemmas: the repaired scanner normalises any sound index to a function of the files.
-/
namespace ArchiveIndex
open Retention

theorem findRow_some {rows : List Row} {b : Bid} {r : Row} (h : findRow rows b = some r) : r ∈ rows ∧ r.bid = b := by
  unfold findRow at h
  exact ⟨List.mem_of_find?_eq_some h, by simpa using List.find?_some h⟩

theorem findRow_none {rows : List Row} {b : Bid} (h : findRow rows b = none) : ∀ r ∈ rows, r.bid ≠ b := by
  unfold findRow at h
  intro r hr
  have := List.find?_eq_none.mp h r hr
  simpa using this

theorem mem_dropRow {rows : List Row} {b : Bid} {r : Row} : r ∈ dropRow rows b ↔ r ∈ rows ∧ r.bid ≠ b := by
  simp [dropRow]

theorem dropRow_of_none {rows : List Row} {b : Bid} (h : findRow rows b = none) : dropRow rows b = rows := by
  unfold dropRow
  rw [List.filter_eq_self]
  intro r hr
  simpa using findRow_none h r hr

theorem mem_dropRefs {refs : List (Bid × Bid)} {b : Bid} {p : Bid × Bid} : p ∈ dropRefs refs b ↔ p ∈ refs ∧ p.1 ≠ b := by
  simp [dropRefs]

theorem mem_addRefs {b : Bid} : ∀ (rs : List Bid) (refs : List (Bid × Bid)) (p : Bid × Bid),
    p ∈ addRefs refs b rs ↔ p ∈ refs ∨ (p.1 = b ∧ p.2 ∈ rs) := by
  intro rs
  induction rs with
  | nil => intro refs p; simp [addRefs]
  | cons r rest ih =>
    intro refs p
    simp only [addRefs]
    rw [ih]
    by_cases hc : refs.contains (b, r) = true
    · simp only [hc, if_true, List.mem_cons]
      have hm : (b, r) ∈ refs := List.contains_iff_mem.mp hc
      constructor
      · rintro (h | ⟨h1, h2⟩)
        · exact Or.inl h
        · exact Or.inr ⟨h1, Or.inr h2⟩
      · rintro (h | ⟨h1, (h2 | h2)⟩)
        · exact Or.inl h
        · left
          have : p = (b, r) := by rw [← h1, ← h2]
          rw [this]; exact hm
        · exact Or.inr ⟨h1, h2⟩
    · simp only [hc, Bool.false_eq_true, if_false, List.mem_append, List.mem_cons, List.not_mem_nil, or_false]
      constructor
      · rintro ((h | h) | ⟨h1, h2⟩)
        · exact Or.inl h
        · rw [h]; exact Or.inr ⟨rfl, Or.inl rfl⟩
        · exact Or.inr ⟨h1, Or.inr h2⟩
      · rintro (h | ⟨h1, (h2 | h2)⟩)
        · exact Or.inl (Or.inl h)
        · left; right
          rw [← h1, ← h2]
        · exact Or.inr ⟨h1, h2⟩

theorem nodup_filter_map {rows : List Row} (p : Row → Bool) (h : (rows.map fun r => r.bid).Nodup) :
    ((rows.filter p).map fun r => r.bid).Nodup :=
  List.Nodup.sublist (List.Sublist.map _ List.filter_sublist) h

theorem eq_of_bid_eq : ∀ {rows : List Row}, (rows.map fun r => r.bid).Nodup → ∀ {a b : Row}, a ∈ rows → b ∈ rows →
    a.bid = b.bid → a = b
  | [], _, _, _, ha, _, _ => by simp at ha
  | x :: rest, h, a, b, ha, hb, hab => by
    simp only [List.map_cons, List.nodup_cons, List.mem_map] at h
    rcases List.mem_cons.mp ha with hax | ha'
    · rcases List.mem_cons.mp hb with hbx | hb'
      · rw [hax, hbx]
      · exact absurd ⟨b, hb', by rw [← hab, hax]⟩ h.1
    · rcases List.mem_cons.mp hb with hbx | hb'
      · exact absurd ⟨a, ha', by rw [hab, hbx]⟩ h.1
      · exact eq_of_bid_eq h.2 ha' hb' hab

theorem nodup_of_map : ∀ {rows : List Row}, (rows.map fun r => r.bid).Nodup → rows.Nodup
  | [], _ => by simp
  | x :: rest, h => by
    simp only [List.map_cons, List.nodup_cons, List.mem_map] at h
    exact List.nodup_cons.mpr ⟨fun hx => h.1 ⟨x, hx, rfl⟩, nodup_of_map h.2⟩

/-- removing the row of a build id together with its references keeps the index sound -/
theorem sound_drop {C : Bid → Stat → Option AuditInfo} {idx : Index} (h : Sound C idx) (b : Bid) :
    Sound C ⟨dropRow idx.rows b, dropRefs idx.refs b⟩ := by
  refine ⟨nodup_filter_map _ h.distinct, ?_, ?_⟩
  · intro r hr
    obtain ⟨hr1, hr2⟩ := mem_dropRow.mp hr
    obtain ⟨a, ha1, ha2, ha3⟩ := h.rows r hr1
    refine ⟨a, ha1, ha2, ?_⟩
    intro x
    rw [mem_dropRefs, ha3]
    simp [hr2]
  · intro p hp
    obtain ⟨hp1, hp2⟩ := mem_dropRefs.mp hp
    obtain ⟨r, hr, hrb⟩ := h.owned p hp1
    exact ⟨r, mem_dropRow.mpr ⟨hr, by rw [hrb]; exact hp2⟩, hrb⟩

/-- reading an artifact into an index that knows nothing about its build id -/
theorem sound_reread {C : Bid → Stat → Option AuditInfo} {idx : Index} (h : Sound C idx) (f : FileEnt)
    (hf : f.audit = C f.bid f.stat) (hrow : ∀ r ∈ idx.rows, r.bid ≠ f.bid) (href : ∀ p ∈ idx.refs, p.1 ≠ f.bid) :
    Sound C (reread idx f) := by
  unfold reread
  cases ha : f.audit with
  | none => exact h
  | some a =>
    simp only
    refine ⟨?_, ?_, ?_⟩
    · simp only [List.map_cons, List.nodup_cons, List.mem_map]
      exact ⟨fun ⟨r, hr, hb⟩ => hrow r hr hb, h.distinct⟩
    · intro r hr
      rcases List.mem_cons.mp hr with rfl | hr
      · refine ⟨a, by rw [← hf, ha], rfl, ?_⟩
        intro x
        rw [mem_addRefs]
        constructor
        · rintro (h' | ⟨_, h'⟩)
          · exact absurd rfl (href _ h')
          · exact h'
        · intro h'; exact Or.inr ⟨rfl, h'⟩
      · obtain ⟨a', ha1, ha2, ha3⟩ := h.rows r hr
        refine ⟨a', ha1, ha2, ?_⟩
        intro x
        rw [mem_addRefs, ha3]
        constructor
        · rintro (h' | ⟨h1, _⟩)
          · exact h'
          · exact absurd h1 (hrow r hr)
        · intro h'; exact Or.inl h'
    · intro p hp
      rcases (mem_addRefs _ _ _).mp hp with hp | ⟨hp1, _⟩
      · obtain ⟨r, hr, hrb⟩ := h.owned p hp
        exact ⟨r, by simp [hr], hrb⟩
      · exact ⟨⟨f.bid, f.stat, a.vars⟩, by simp, hp1.symm⟩

theorem scanOneR_cases (idx : Index) (f : FileEnt) :
    (∃ r, findRow idx.rows f.bid = some r ∧ r.stat = f.stat ∧ scanOneR idx f = idx) ∨
    scanOneR idx f = reread ⟨dropRow idx.rows f.bid, dropRefs idx.refs f.bid⟩ f := by
  unfold scanOneR
  cases hfr : findRow idx.rows f.bid with
  | none => right; simp [dropRow_of_none hfr]
  | some r =>
    by_cases hs : r.stat = f.stat
    · left; exact ⟨r, rfl, hs, by simp [hs]⟩
    · right; simp [hs]

theorem sound_scanOneR {C : Bid → Stat → Option AuditInfo} {idx : Index} (h : Sound C idx) (f : FileEnt)
    (hf : f.audit = C f.bid f.stat) : Sound C (scanOneR idx f) := by
  rcases scanOneR_cases idx f with ⟨r, _, _, he⟩ | he
  · rw [he]; exact h
  · rw [he]
    apply sound_reread (sound_drop h f.bid) f hf
    · intro r hr; exact (mem_dropRow.mp hr).2
    · intro p hp; exact (mem_dropRefs.mp hp).2

theorem upToDate_scanOneR_self {C : Bid → Stat → Option AuditInfo} {idx : Index} (h : Sound C idx) (f : FileEnt)
    (hf : f.audit = C f.bid f.stat) : UpToDate f (scanOneR idx f) := by
  rcases scanOneR_cases idx f with ⟨r, hfr, hs, he⟩ | he
  · rw [he]
    obtain ⟨hr, hb⟩ := findRow_some hfr
    obtain ⟨a, ha1, ha2, _⟩ := h.rows r hr
    have hfa : f.audit = some a := by rw [hf, ← hb, ← hs]; exact ha1
    unfold UpToDate
    rw [hfa]
    simp only
    have : (⟨f.bid, f.stat, a.vars⟩ : Row) = r := by
      cases r
      simp_all
    rw [this]; exact hr
  · rw [he]
    unfold UpToDate reread
    cases ha : f.audit with
    | none =>
      simp only
      intro r hr
      exact (mem_dropRow.mp hr).2
    | some a => simp

theorem scanOneR_rows_other (idx : Index) (f : FileEnt) {r : Row} (hr : r.bid ≠ f.bid) :
    r ∈ (scanOneR idx f).rows ↔ r ∈ idx.rows := by
  rcases scanOneR_cases idx f with ⟨_, _, _, he⟩ | he
  · rw [he]
  · rw [he]
    unfold reread
    cases f.audit with
    | none => simp [mem_dropRow, hr]
    | some a =>
      simp only [List.mem_cons, mem_dropRow]
      constructor
      · rintro (h | h)
        · exact absurd (by rw [h]) hr
        · exact h.1
      · intro h; exact Or.inr ⟨h, hr⟩

theorem upToDate_scanOneR_other (idx : Index) (f g : FileEnt) (hne : g.bid ≠ f.bid) (h : UpToDate g idx) :
    UpToDate g (scanOneR idx f) := by
  unfold UpToDate at h ⊢
  cases hg : g.audit with
  | some a =>
    simp only [hg] at h ⊢
    exact (scanOneR_rows_other idx f (r := ⟨g.bid, g.stat, a.vars⟩) hne).mpr h
  | none =>
    simp only [hg] at h ⊢
    intro r hr
    by_cases hrf : r.bid = f.bid
    · rw [hrf]; exact fun h' => hne h'.symm
    · exact h r ((scanOneR_rows_other idx f hrf).mp hr)

theorem fold_scanOneR {C : Bid → Stat → Option AuditInfo} : ∀ (files : List FileEnt) (idx : Index),
    Sound C idx → FilesOk C files →
    Sound C (files.foldl scanOneR idx) ∧
    (∀ g : FileEnt, UpToDate g idx → g.bid ∉ files.map (fun f => f.bid) → UpToDate g (files.foldl scanOneR idx)) ∧
    (∀ f ∈ files, UpToDate f (files.foldl scanOneR idx)) := by
  intro files
  induction files with
  | nil => intro idx h _; exact ⟨h, fun g hg _ => hg, by simp⟩
  | cons f rest ih =>
    intro idx h hok
    obtain ⟨hnd, haud⟩ := hok
    simp only [List.map_cons, List.nodup_cons] at hnd
    have hf := haud f (by simp)
    have hok' : FilesOk C rest := ⟨hnd.2, fun g hg => haud g (by simp [hg])⟩
    obtain ⟨i1, i2, i3⟩ := ih (scanOneR idx f) (sound_scanOneR h f hf) hok'
    simp only [List.foldl_cons]
    refine ⟨i1, ?_, ?_⟩
    · intro g hg hgn
      simp only [List.map_cons, List.mem_cons, not_or] at hgn
      exact i2 g (upToDate_scanOneR_other idx f g hgn.1 hg) hgn.2
    · intro g hg
      rcases List.mem_cons.mp hg with rfl | hg
      · exact i2 g (upToDate_scanOneR_self h g hf) hnd.1
      · exact i3 g hg

theorem scanRepaired_spec {C : Bid → Stat → Option AuditInfo} {idx : Index} {files : List FileEnt}
    (h : Sound C idx) (hok : FilesOk C files) :
    Sound C (scanRepaired idx files) ∧ Normal files (scanRepaired idx files) := by
  obtain ⟨s1, _, u1⟩ := fold_scanOneR files idx h hok
  unfold scanRepaired
  simp only
  generalize hi1 : files.foldl scanOneR idx = i1 at s1 u1
  -- membership in the filtered rows
  have hrows : ∀ r, r ∈ i1.rows.filter (fun r => (files.map fun f => f.bid).contains r.bid) ↔
      r ∈ i1.rows ∧ ∃ f ∈ files, f.bid = r.bid := by
    intro r
    simp only [List.mem_filter, List.contains_iff_mem, List.mem_map]
  have hany : ∀ (p : Bid × Bid), (i1.rows.filter (fun r => (files.map fun f => f.bid).contains r.bid)).any (fun r => r.bid == p.1) = true ↔
      ∃ r ∈ i1.rows, (∃ f ∈ files, f.bid = r.bid) ∧ r.bid = p.1 := by
    intro p
    simp only [List.any_eq_true, beq_iff_eq, hrows]
    constructor
    · rintro ⟨r, ⟨h1, h2⟩, h3⟩; exact ⟨r, h1, h2, h3⟩
    · rintro ⟨r, h1, h2, h3⟩; exact ⟨r, ⟨h1, h2⟩, h3⟩
  -- the row that belongs to a file
  have hrowfile : ∀ r ∈ i1.rows, ∀ f ∈ files, f.bid = r.bid → rowOfFile f = some r := by
    intro r hr f hf hb
    have hu := u1 f hf
    unfold UpToDate at hu
    unfold rowOfFile
    cases ha : f.audit with
    | none =>
      simp only [ha] at hu
      exact absurd hb.symm (hu r hr)
    | some a =>
      simp only [ha] at hu
      simp only [Option.map_some, Option.some.injEq]
      exact eq_of_bid_eq s1.distinct hu hr hb
  have hsound : Sound C ⟨i1.rows.filter (fun r => (files.map fun f => f.bid).contains r.bid),
      i1.refs.filter (fun p => (i1.rows.filter (fun r => (files.map fun f => f.bid).contains r.bid)).any (fun r => r.bid == p.1))⟩ := by
    refine ⟨nodup_filter_map _ s1.distinct, ?_, ?_⟩
    · intro r hr
      obtain ⟨hr1, hr2⟩ := (hrows r).mp hr
      obtain ⟨a, ha1, ha2, ha3⟩ := s1.rows r hr1
      refine ⟨a, ha1, ha2, ?_⟩
      intro x
      simp only [List.mem_filter]
      have hx := hany (r.bid, x)
      simp only at hx
      rw [hx, ha3]
      constructor
      · exact fun h' => h'.1
      · exact fun h' => ⟨h', r, hr1, hr2, rfl⟩
    · intro p hp
      simp only [List.mem_filter] at hp
      obtain ⟨r, hr1, hr2, hr3⟩ := (hany p).mp hp.2
      exact ⟨r, (hrows r).mpr ⟨hr1, hr2⟩, hr3⟩
  refine ⟨hsound, ?_, ?_, nodup_filter_map _ s1.distinct⟩
  · intro r
    simp only
    rw [hrows]
    constructor
    · rintro ⟨hr, f, hf, hb⟩
      exact ⟨f, hf, hrowfile r hr f hf hb⟩
    · rintro ⟨f, hf, hrf⟩
      have hu := u1 f hf
      unfold UpToDate at hu
      unfold rowOfFile at hrf
      cases ha : f.audit with
      | none => simp [ha] at hrf
      | some a =>
        simp only [ha, Option.map_some, Option.some.injEq] at hrf hu
        subst hrf
        exact ⟨hu, f, hf, rfl⟩
  · intro p
    simp only [List.mem_filter]
    rw [hany]
    constructor
    · rintro ⟨hp, r, hr1, ⟨f, hf, hb⟩, hr3⟩
      have hrf := hrowfile r hr1 f hf hb
      obtain ⟨a, ha1, _, ha3⟩ := s1.rows r hr1
      unfold rowOfFile at hrf
      cases ha : f.audit with
      | none => simp [ha] at hrf
      | some a' =>
        simp only [ha, Option.map_some, Option.some.injEq] at hrf
        subst hrf
        simp only at ha1 ha3 hr3
        have hc : C f.bid f.stat = some a' := by rw [← hok.2 f hf]; exact ha
        rw [hc] at ha1
        injection ha1 with ha1
        subst ha1
        refine ⟨f, hf, a', ha, hr3.symm, ?_⟩
        have : (f.bid, p.2) ∈ i1.refs := by
          rw [hr3]; exact hp
        exact (ha3 p.2).mp this
    · rintro ⟨f, hf, a, ha, hp1, hp2⟩
      have hu := u1 f hf
      unfold UpToDate at hu
      simp only [ha] at hu
      obtain ⟨a', ha1, _, ha3⟩ := s1.rows _ hu
      simp only at ha1 ha3
      have : C f.bid f.stat = some a := by rw [← hok.2 f hf]; exact ha
      rw [this] at ha1
      injection ha1 with ha1
      subst ha1
      refine ⟨?_, ⟨f.bid, f.stat, a.vars⟩, hu, ⟨f, hf, rfl⟩, hp1.symm⟩
      have := (ha3 p.2).mpr hp2
      rw [← hp1] at this
      exact this

theorem scanOne_rows_other (idx : Index) (f : FileEnt) {r : Row} (hr : r.bid ≠ f.bid) :
    r ∈ (scanOne idx f).rows ↔ r ∈ idx.rows := by
  unfold scanOne
  cases findRow idx.rows f.bid with
  | none =>
    simp only [reread]
    cases f.audit with
    | none => rfl
    | some a =>
      simp only [List.mem_cons]
      constructor
      · rintro (h | h)
        · exact absurd (by rw [h]) hr
        · exact h
      · exact fun h => Or.inr h
  | some r' =>
    simp only
    split
    · rfl
    · simp only [reread]
      cases f.audit with
      | none => simp [mem_dropRow, hr]
      | some a =>
        simp only [List.mem_cons, mem_dropRow]
        constructor
        · rintro (h | h)
          · exact absurd (by rw [h]) hr
          · exact h.1
        · exact fun h => Or.inr ⟨h, hr⟩

theorem scanCurrent_rows_other : ∀ (files : List FileEnt) (idx : Index) {r : Row},
    (∀ f ∈ files, r.bid ≠ f.bid) → (r ∈ (scanCurrent idx files).rows ↔ r ∈ idx.rows) := by
  intro files
  induction files with
  | nil => intro idx r _; rfl
  | cons f rest ih =>
    intro idx r h
    simp only [scanCurrent, List.foldl_cons]
    have := ih (scanOne idx f) (r := r) (fun g hg => h g (by simp [hg]))
    simp only [scanCurrent] at this
    rw [this, scanOne_rows_other idx f (h f (by simp))]

theorem sound_empty (C : Bid → Stat → Option AuditInfo) : Sound C Index.empty := by
  constructor <;> simp [Index.empty]

/-! ### the enumeration order is canonical -/

theorem perm_insertRow (r : Row) : ∀ (l : List Row), (insertRow r l).Perm (r :: l)
  | [] => by simp [insertRow]
  | x :: rest => by
    simp only [insertRow]
    split
    · exact List.Perm.refl _
    · exact ((perm_insertRow r rest).cons x).trans (List.Perm.swap r x rest)

theorem perm_sortedRows : ∀ (l : List Row), (sortedRows l).Perm l
  | [] => by simp [sortedRows]
  | x :: rest => by
    simp only [sortedRows, List.foldr_cons]
    exact (perm_insertRow x _).trans ((perm_sortedRows rest).cons x)

def RowLe (a b : Row) : Prop := strLe a.bid b.bid = true

theorem sorted_insertRow (r : Row) : ∀ (l : List Row), l.Pairwise RowLe → (insertRow r l).Pairwise RowLe
  | [], _ => by simp [insertRow]
  | x :: rest, h => by
    simp only [List.pairwise_cons] at h
    simp only [insertRow]
    split
    · rename_i hle
      simp only [List.pairwise_cons]
      refine ⟨?_, h.1, h.2⟩
      intro a ha
      rcases List.mem_cons.mp ha with rfl | ha
      · exact hle
      · exact strLe_trans hle (h.1 a ha)
    · rename_i hle
      have hxr : strLe x.bid r.bid = true := by
        rcases strLe_total x.bid r.bid with h' | h'
        · exact h'
        · exact absurd h' hle
      simp only [List.pairwise_cons]
      refine ⟨?_, sorted_insertRow r rest h.2⟩
      intro a ha
      rcases List.mem_cons.mp (((perm_insertRow r rest).mem_iff).mp ha) with hax | ha'
      · rw [hax]; exact hxr
      · exact h.1 a ha'

theorem sorted_sortedRows : ∀ (l : List Row), (sortedRows l).Pairwise RowLe
  | [] => by simp [sortedRows]
  | x :: rest => by
    simp only [sortedRows, List.foldr_cons]
    exact sorted_insertRow x _ (sorted_sortedRows rest)

theorem sortedRows_eq {l1 l2 : List Row} (h1 : (l1.map fun r => r.bid).Nodup) (h2 : (l2.map fun r => r.bid).Nodup)
    (hm : ∀ r, r ∈ l1 ↔ r ∈ l2) : sortedRows l1 = sortedRows l2 := by
  have hp : l1.Perm l2 := (List.perm_ext_iff_of_nodup (nodup_of_map h1) (nodup_of_map h2)).mpr hm
  have hps : (sortedRows l1).Perm (sortedRows l2) := (perm_sortedRows l1).trans (hp.trans (perm_sortedRows l2).symm)
  apply List.Perm.eq_of_pairwise (le := RowLe) _ (sorted_sortedRows l1) (sorted_sortedRows l2) hps
  intro a b ha hb hab hba
  have ha1 : a ∈ l1 := (perm_sortedRows l1).mem_iff.mp ha
  have hb1 : b ∈ l1 := (hm b).mpr ((perm_sortedRows l2).mem_iff.mp hb)
  exact eq_of_bid_eq h1 ha1 hb1 (strLe_antisymm hab hba)

theorem normal_indexEq {files : List FileEnt} {i j : Index} (hi : Normal files i) (hj : Normal files j) : IndexEq i j := by
  refine ⟨sortedRows_eq hi.distinct hj.distinct ?_, ?_⟩
  · intro r; rw [hi.rows, hj.rows]
  · intro p; rw [hi.refs, hj.refs]

end ArchiveIndex
