import BobModel.Proofs.C06Order5
/-
Ordering invariants of the scheduler model, part 6: **deps_first**, definitions.

`chk` walks along a continuation and checks that every operation that leads to a script start of step `s`
(`lock s _ false`, `lockWait`, `underLock`, `run`, `runWait`) is reached only when the scripts of all valid
dependencies of `s` have ended successfully: either that is already so (`depsDone`), or an operation in front of it
guarantees it when it completes (`covers`: the `_cook` of the dependencies, the spawn of their cook tasks, the
`gather` on these tasks).
-/
namespace Sched
open JobSem

def depsDone (P : Project) (st : St) (s : Nat) : Prop :=
  ∀ d ∈ (P.info s).deps, (P.info d).valid = true → finishedOk P st.trace (P.info d).path = true

/-- the script of `s` is really run by `underLock s co` (it is not skipped) -/
def willRun (P : Project) (s : Nat) (co : Bool) : Prop := (P.info s).kind = .checkout ∨ co = false

/-- task `k` is the cook task (not checkout-only) of a valid step in the workspace of `d` -/
def cooks (P : Project) (st : St) (k d : Nat) : Prop :=
  ∃ d', (st.task k).kind = .cook d' false ∧ (P.info d').valid = true ∧ (P.info d').path = (P.info d).path

def needs (P : Project) (o : Op) (s' : Nat) : Prop :=
  match o with
  | .lock s co dl => dl = false ∧ s' = s ∧ willRun P s co
  | .lockWait s co dl => dl = false ∧ s' = s ∧ willRun P s co
  | .underLock s co => s' = s ∧ willRun P s co
  | .run s => s' = s
  | .runWait s _ => s' = s
  | _ => False

/-- every valid dependency of `s` is finished, or listed in `l`, or cooked by one of the tasks `ks` -/
def covered (P : Project) (st : St) (s : Nat) (l ks : List Nat) : Prop :=
  ∀ d ∈ (P.info s).deps, (P.info d).valid = true →
    finishedOk P st.trace (P.info d).path = true ∨ d ∈ l ∨ ∃ k ∈ ks, cooks P st k d

def covers (P : Project) (st : St) (o : Op) (s : Nat) : Prop :=
  match o with
  | .cook steps co => co = false ∧ covered P st s steps []
  | .spawn trk todo co => trk = .cook ∧ co = false ∧ covered P st s todo []
  | .yieldRel ks rs => rs = true ∧ covered P st s [] ks
  | .gather ks => covered P st s [] ks
  | _ => False

def chk (P : Project) (st : St) : (Nat → Prop) → List Op → Prop
  | _, [] => True
  | C, o :: r => (∀ s, needs P o s → C s) ∧ chk P st (fun s => C s ∨ covers P st o s) r

theorem chk_mono {P : Project} {st st' : St} (hcov : ∀ o s, covers P st o s → covers P st' o s) :
    ∀ (l : List Op) (C C' : Nat → Prop), (∀ s, C s → C' s) → chk P st C l → chk P st' C' l
  | [], _, _, _, _ => trivial
  | o :: r, C, C', hC, h => by
    refine ⟨fun s hs => hC s (h.1 s hs), chk_mono hcov r _ _ ?_ h.2⟩
    intro s hs
    rcases hs with hs | hs
    · exact Or.inl (hC s hs)
    · exact Or.inr (hcov o s hs)

theorem chk_noneed {P : Project} {st : St} : ∀ (l : List Op) (C : Nat → Prop), (∀ o ∈ l, ∀ s, ¬ needs P o s) → chk P st C l
  | [], _, _ => trivial
  | o :: r, C, h => ⟨fun s hs => absurd hs (h o (by simp) s), chk_noneed r _ (fun o' ho' => h o' (by simp [ho']))⟩

theorem chk_append {P : Project} {st : St} : ∀ (a b : List Op) (C : Nat → Prop), chk P st C a →
    chk P st (fun s => C s ∨ ∃ o ∈ a, covers P st o s) b → chk P st C (a ++ b)
  | [], b, C, _, hb => by
    refine chk_mono (fun _ _ h => h) b _ _ ?_ hb
    intro s hs
    rcases hs with hs | ⟨o, ho, _⟩
    · exact hs
    · cases ho
  | o :: a, b, C, ha, hb => by
    refine ⟨ha.1, chk_append a b _ ha.2 (chk_mono (fun _ _ h => h) b _ _ ?_ hb)⟩
    intro s hs
    rcases hs with hs | ⟨o', ho', hc⟩
    · exact Or.inl (Or.inl hs)
    · rcases List.mem_cons.mp ho' with e | e
      · subst e; exact Or.inl (Or.inr hc)
      · exact Or.inr ⟨o', e, hc⟩

/-- the head operation is replaced by `body` -/
theorem chk_replace {P : Project} {st st' : St} {op : Op} {rest body : List Op}
    (hD : ∀ s, depsDone P st s → depsDone P st' s)
    (hcov : ∀ o s, covers P st o s → covers P st' o s)
    (h : chk P st (depsDone P st) (op :: rest))
    (hbody : chk P st' (depsDone P st') body)
    (htrans : ∀ s, covers P st op s → depsDone P st' s ∨ ∃ o ∈ body, covers P st' o s) :
    chk P st' (depsDone P st') (body ++ rest) := by
  refine chk_append body rest _ hbody (chk_mono hcov rest _ _ ?_ h.2)
  intro s hs
  rcases hs with hs | hs
  · exact Or.inl (hD s hs)
  · exact htrans s hs

theorem chk_filter {P : Project} {st : St} (C : Nat → Prop) (r : List Op) : chk P st C (r.filter Op.isFin) := by
  refine chk_noneed _ _ ?_
  intro o ho s hn
  have := (List.mem_filter.mp ho).2
  cases o <;> simp [Op.isFin] at this <;> simp [needs] at hn

/-! ### the tracker of cook tasks -/

/-- every tracked cook task is the cook task of a valid step of the workspace of its key -/
def Track (P : Project) (st : St) : Prop :=
  ∀ key k, (key, k) ∈ st.cookT → ∃ d, (st.task k).kind = .cook d key.2.2 ∧ (P.info d).valid = true ∧ (P.info d).path = key.1

theorem klookup_mem {key : Key} {k : Nat} : ∀ {m : List (Key × Nat)}, klookup key m = some k → (key, k) ∈ m
  | [], h => by simp [klookup] at h
  | (k', v) :: r, h => by
    simp only [klookup] at h
    split at h
    · rename_i e; cases h; subst e; simp
    · exact List.mem_cons_of_mem _ (klookup_mem h)

theorem mem_kremove {key : Key} {e : Key × Nat} : ∀ {m : List (Key × Nat)}, e ∈ kremove key m → e ∈ m
  | [], h => by simp [kremove] at h
  | (k', v) :: r, h => by
    simp only [kremove] at h
    split at h
    · exact List.mem_cons_of_mem _ h
    · rcases List.mem_cons.mp h with e | e
      · subst e; simp
      · exact List.mem_cons_of_mem _ (mem_kremove e)

theorem kind_lt {st : St} {k : Nat} {d : Nat} {co : Bool} (h : (st.task k).kind = .cook d co) : k < st.tasks.length := by
  by_cases hk : k < st.tasks.length
  · exact hk
  · rw [task_default_ops st (Nat.le_of_not_lt hk)] at h
    cases h

theorem task_append_left {st g : St} {new : List Task} (hg : g.tasks = st.tasks ++ new) {k : Nat}
    (hk : k < st.tasks.length) : g.task k = st.task k := by
  simp [St.task, List.getD, hg, List.getElem?_append_left hk]

/-- what `__createCookTask` returns for a valid step: a cook task of its workspace -/
theorem createTask_cook {P : Project} {st : St} (hT : Track P st) (s : Nat) (co : Bool) (hv : (P.info s).valid = true) :
    Track P (createTask P st .cook s co).1 ∧
    ∃ d, ((createTask P st .cook s co).1.task (createTask P st .cook s co).2).kind = .cook d co ∧
      (P.info d).valid = true ∧ (P.info d).path = (P.info s).path := by
  unfold createTask
  simp only
  split
  · rename_i k hk
    refine ⟨hT, ?_⟩
    have := hT _ _ (klookup_mem hk)
    simpa [keyOf] using this
  · refine ⟨?_, ?_⟩
    · intro key k hm
      simp only [St.emit, St.setTracker, St.tracker, List.mem_append, List.mem_singleton, Prod.mk.injEq] at hm
      rcases hm with hm | ⟨e1, e2⟩
      · obtain ⟨d, h1, h2, h3⟩ := hT key k hm
        refine ⟨d, ?_, h2, h3⟩
        rw [← h1]
        exact congrArg Task.kind (task_append_left (st := st) rfl (kind_lt h1))
      · subst e1; subst e2
        refine ⟨s, ?_, hv, rfl⟩
        simp [St.task, St.emit, St.setTracker, List.getD, keyOf, mkKind]
    · refine ⟨s, ?_, hv, rfl⟩
      simp [St.task, St.emit, St.setTracker, List.getD, mkKind]

theorem createTask_bid_cookT (P : Project) (st : St) (s : Nat) (co : Bool) :
    (createTask P st .bid s co).1.cookT = st.cookT := by
  unfold createTask
  simp only
  split <;> rfl

theorem Track.grow {P : Project} {st g : St} {new : List Task} (hT : Track P st) (hg : g.tasks = st.tasks ++ new)
    (hc : ∀ e ∈ g.cookT, e ∈ st.cookT) : Track P g := by
  intro key k hm
  obtain ⟨d, h1, h2, h3⟩ := hT key k (hc _ hm)
  exact ⟨d, by rw [task_append_left hg (kind_lt h1)]; exact h1, h2, h3⟩

theorem cooks_grow {P : Project} {st g : St} {new : List Task} (hg : g.tasks = st.tasks ++ new) {k d : Nat}
    (h : cooks P st k d) : cooks P g k d := by
  obtain ⟨d', h1, h2, h3⟩ := h
  exact ⟨d', by rw [task_append_left hg (kind_lt h1)]; exact h1, h2, h3⟩

/-- `createTasks` for valid steps: every step gets a cook task of its workspace -/
theorem createTasks_cook {P : Project} (co : Bool) : ∀ (steps : List Nat) (st : St), Track P st →
    (∀ d ∈ steps, (P.info d).valid = true) →
    Track P (createTasks P .cook co steps st).1 ∧
    ∀ d ∈ steps, ∃ k ∈ (createTasks P .cook co steps st).2, ∃ d',
      ((createTasks P .cook co steps st).1.task k).kind = .cook d' co ∧ (P.info d').valid = true ∧
      (P.info d').path = (P.info d).path
  | [], st, hT, _ => ⟨hT, by simp⟩
  | s :: r, st, hT, hv => by
    obtain ⟨hT1, d1, k1, k2, k3⟩ := createTask_cook hT s co (hv s (by simp))
    obtain ⟨hT2, h2⟩ := createTasks_cook co r (createTask P st .cook s co).1 hT1 (fun d hd => hv d (by simp [hd]))
    obtain ⟨new, hg⟩ := createTasks_grow P .cook co r (createTask P st .cook s co).1
    refine ⟨by simpa [createTasks] using hT2, ?_⟩
    intro d hd
    simp only [createTasks]
    rcases List.mem_cons.mp hd with e | e
    · subst e
      exact ⟨_, List.mem_cons.mpr (Or.inl rfl), d1, by rw [task_append_left hg.tasks (kind_lt k1)]; exact k1, k2, k3⟩
    · obtain ⟨k, hk, hc⟩ := h2 d e
      exact ⟨k, by simp [hk], hc⟩

theorem createTasks_bid_cookT (P : Project) (co : Bool) : ∀ (steps : List Nat) (st : St),
    (createTasks P .bid co steps st).1.cookT = st.cookT
  | [], _ => rfl
  | s :: r, st => by
    simp only [createTasks]
    rw [createTasks_bid_cookT P co r, createTask_bid_cookT]

theorem createTops_cookT : ∀ (targets : List Nat) (st : St), (createTops targets st).1.cookT = st.cookT
  | [], _ => rfl
  | s :: r, st => by
    simp only [createTops]
    rw [createTops_cookT r]
    rfl

end Sched
