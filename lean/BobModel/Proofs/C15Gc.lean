import BobModel.Proofs.C15Inv
import BobModel.Proofs.C15Select
/-
C15: what a gc process may hold as candidates (flagged by the links at scan time; non-forced: unused only).
-/
namespace Share

/-- the candidates / the remaining plan a gc process carries -/
def Pc.cands : Pc → List Cand
  | .gScanOpen _ _ c _ => c
  | .gScanLock _ _ _ _ c _ => c
  | .gMove _ plan _ _ _ => plan
  | _ => []

theorem Pc.cands_of_notEX {pc : Pc} (h : pc.holdsEX = false) : pc.cands = [] := by
  cases pc <;> first | rfl | (simp [Pc.holdsEX] at h)

theorem gcSelect_sub (quota : Option Nat) (pun : Bool) (cands : List Cand) (total : Nat) :
    ∀ c ∈ (gcSelect quota pun cands total).1, c ∈ cands := by
  intro c hc
  unfold gcSelect at hc
  obtain ⟨rest, hr⟩ := gcLoop_prefix quota pun (sortCands cands) total
  have : c ∈ sortCands cands := by rw [hr]; exact List.mem_append_left _ hc
  exact (sortCands_perm cands).mem_iff.mp this

theorem gcPlan_cands_sub (prog : Prog) (g : Store) (rm : List (Bid × Nat)) (cands : List Cand) (t : Nat) :
    ∀ c ∈ (gcPlan prog g rm cands t).2.cands, c ∈ cands := by
  unfold gcPlan
  simp only
  split
  · intro c hc; simp [Pc.cands] at hc
  · intro c hc; exact gcSelect_sub _ _ _ _ c hc

theorem gcNext_cands_sub (prog : Prog) (g : Store) (rm todo : List (Bid × Nat)) (cands : List Cand) (t : Nat) :
    ∀ c ∈ (gcNext prog g rm todo cands t).2.cands, c ∈ cands := by
  unfold gcNext
  split
  · exact gcPlan_cands_sub prog g rm cands t
  · intro c hc; exact hc

/-- `checkUnused` answers "unused" only if no recorded user links to the package -/
theorem checkUnused_sound (g : Store) (b : Bid) (users : List Ws) (h : checkUnused g b users = .ok true) :
    ∀ u ∈ users, g.links u ≠ some b := by
  induction users with
  | nil => intro u hu; cases hu
  | cons x rest ih =>
    unfold checkUnused at h
    cases hl : g.links x with
    | none =>
      simp only [hl] at h
      intro u hu
      rcases List.mem_cons.mp hu with rfl | hu
      · rw [hl]; simp
      · exact ih h u hu
    | some b' =>
      simp only [hl] at h
      split at h
      · cases h
      · split at h
        · cases h
        · rename_i hne
          intro u hu
          rcases List.mem_cons.mp hu with rfl | hu
          · rw [hl]; intro hh; cases hh; exact hne rfl
          · exact ih h u hu

/-- the judgement behind one candidate: where it was flagged unused, no recorded user linked to it and it is
not the package that is being installed -/
def Judged (prog : Prog) (g : Store) (c : Cand) : Prop :=
  c.unused = true → ∃ d m, g.final c.bid = some d ∧ d.info = some (.valid m) ∧ (∀ u ∈ m.users, g.links u ≠ some c.bid) ∧
    (gcCtx prog).newPkg ≠ some c.bid

/-- one scan step: every candidate afterwards was there before, or is the scanned package judged by the
links of its recorded users in the store of this very moment; a non-forced gc only adds unused ones -/
theorem scan_step (H : Nat → Nat) (cfg : Cfg) (prog : Prog) (exO shO : Bool) (g : Store)
    (rm : List (Bid × Nat)) (k : Bid) (sz : Nat) (rest : List (Bid × Nat)) (cands : List Cand) (total : Nat) :
    ∀ c ∈ (stepPc H cfg prog exO shO g (.gScanLock rm k sz rest cands total)).2.cands,
      c ∈ cands ∨ (c.bid = k ∧ Judged prog g c ∧ ((gcCtx prog).pruneUsed = false → c.unused = true)) := by
  intro c hc
  unfold stepPc at hc
  simp only at hc
  split at hc
  · rename_i a w m t hf
    cases hu : checkUnused g k m.users with
    | error e => simp only [hu] at hc; simp [Pc.cands] at hc
    | ok u =>
      simp only [hu] at hc
      have := gcNext_cands_sub _ _ _ _ _ _ c hc
      split at this
      · rename_i hcond
        rcases List.mem_append.mp this with h | h
        · exact Or.inl h
        · right
          simp only [List.mem_singleton] at h
          subst h
          refine ⟨rfl, ?_, ?_⟩
          · intro hun
            simp only [Bool.and_eq_true, bne_iff_ne, ne_eq] at hun
            refine ⟨_, m, hf, rfl, ?_, ?_⟩
            · rw [hun.1] at hu; exact checkUnused_sound g k m.users hu
            · intro hh; exact hun.2 hh.symm
          · intro hpu
            simpa [hpu] using hcond
      · exact Or.inl this
  · simp [Pc.cands] at hc

/-- a non-forced gc only ever holds candidates that it flagged unused -/
def CandOk (prog : Prog) (pc : Pc) : Prop :=
  (gcCtx prog).pruneUsed = false → ∀ c ∈ pc.cands, c.unused = true

theorem stepPc_candOk (H : Nat → Nat) (cfg : Cfg) (prog : Prog) (exO shO : Bool) (g : Store) (pc : Pc)
    (h : CandOk prog pc) : CandOk prog (stepPc H cfg prog exO shO g pc).2 := by
  intro hpu c hc
  cases pc
  case gLock =>
    unfold stepPc at hc; simp only at hc
    split at hc
    · simp [Pc.cands] at hc
    · split at hc
      · have := gcNext_cands_sub _ _ _ _ _ _ c hc
        cases this
      · simp [Pc.cands] at hc
  case gScanOpen rm todo cands total =>
    unfold stepPc at hc; simp only at hc
    split at hc
    · exact h hpu c (gcPlan_cands_sub _ _ _ _ _ c hc)
    · split at hc
      · exact h hpu c (gcNext_cands_sub _ _ _ _ _ _ c hc)
      · split at hc
        · exact h hpu c (gcNext_cands_sub _ _ _ _ _ _ c hc)
        · exact h hpu c hc
  case gScanLock rm k sz rest cands total =>
    rcases scan_step H cfg prog exO shO g rm k sz rest cands total c hc with h1 | ⟨_, _, h3⟩
    · exact h hpu c h1
    · exact h3 hpu
  case gMove rm plan t d te =>
    unfold stepPc at hc; simp only at hc
    cases plan with
    | nil => simp only at hc; split at hc <;> simp [Pc.cands] at hc
    | cons c0 rest =>
      simp only at hc
      cases hf : g.final c0.bid with
      | none => simp only [hf] at hc; split at hc <;> simp [Pc.cands] at hc
      | some dd =>
        simp only [hf] at hc
        cases rest with
        | nil => simp only at hc; split at hc <;> simp [Pc.cands] at hc
        | cons c1 r2 =>
          simp only [Pc.cands] at hc
          exact h hpu c (List.mem_cons_of_mem _ hc)
  all_goals
    (rw [Pc.cands_of_notEX (stepPc_notEX H cfg prog exO shO g _ rfl (by intro hh; cases hh))] at hc; cases hc)

end Share
