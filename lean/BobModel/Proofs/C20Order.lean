import BobModel.Proofs.C20Jobs
/-
C20: `genJenkinsBuildOrder` reports "Jobs are cyclic" only if the job graph has a cycle.
-/
namespace Jenkins

theorem foldlM_isSome {σ : Type} (f : σ → Str → Option σ) : ∀ (l : List Str) (st : σ),
    (∀ st d, d ∈ l → (f st d).isSome = true) → (l.foldlM f st).isSome = true := by
  intro l
  induction l with
  | nil => intro st _; simp [List.foldlM_nil, pure]
  | cons a l ih =>
    intro st h
    rw [List.foldlM_cons]
    have ha := h st a (by simp)
    cases hfa : f st a with
    | none => rw [hfa] at ha; cases ha
    | some st' =>
      show (l.foldlM f st').isSome = true
      exact ih st' (fun st d hd => h st d (List.mem_cons_of_mem _ hd))

theorem upOf_edge {jobs : List JJob} {a d : Str} (h : d ∈ upOf jobs a) : UpEdge jobs a d := by
  unfold upOf at h
  cases hf : jobs.find? (fun j => j.name = a) with
  | none => rw [hf] at h; cases h
  | some j =>
    rw [hf] at h
    have hn := List.find?_some hf
    exact ⟨j, List.mem_of_find?_eq_some hf, by simpa using hn, h⟩

/-- the recursion stack `processing` consists of jobs that reach the visited job by at least one edge, so a
job found on the stack closes a cycle -/
theorem visitJob_isSome {jobs : List JJob} (hac : ∀ a c, UpEdge jobs a c → ¬ Reach (UpEdge jobs) c a) :
    ∀ (fuel : Nat) (j : Str) (processing : List Str) (st : List Str × List Str),
      (∀ p ∈ processing, ∃ c, UpEdge jobs p c ∧ Reach (UpEdge jobs) c j) →
      (visitJob jobs fuel j processing st).isSome = true := by
  intro fuel
  induction fuel with
  | zero => intro j processing st _; rfl
  | succ f ih =>
    intro j processing st hp
    simp only [visitJob]
    split
    · rename_i hc
      have : j ∈ processing := by simpa using hc
      obtain ⟨c, e, r⟩ := hp j this
      exact absurd r (hac j c e)
    · split
      · have hfold : ((upOf jobs j).foldlM (fun st d => visitJob jobs f d (j :: processing) st) st).isSome = true := by
          apply foldlM_isSome
          intro st' d hd
          apply ih
          intro p hpm
          have ed := upOf_edge hd
          rcases List.mem_cons.mp hpm with rfl | hpm
          · exact ⟨d, ed, Reach.refl _⟩
          · obtain ⟨c, e, r⟩ := hp p hpm
            exact ⟨c, e, Reach.tail r ed⟩
        cases hres : (upOf jobs j).foldlM (fun st d => visitJob jobs f d (j :: processing) st) st with
        | none => rw [hres] at hfold; cases hfold
        | some st' => rfl
      · rfl

theorem buildOrder_isSome {jobs : List JJob} (hac : ∀ a c, UpEdge jobs a c → ¬ Reach (UpEdge jobs) c a) :
    (buildOrder jobs).isSome = true := by
  unfold buildOrder
  simp only
  have : ((jobs.map (·.name)).foldlM (fun st j => visitJob jobs ((jobs.map (·.name)).length + 1) j [] st)
      (jobs.map (·.name), [])).isSome = true := by
    apply foldlM_isSome
    intro st d _
    exact visitJob_isSome hac _ d [] st (fun p hp => by cases hp)
  cases hres : (jobs.map (·.name)).foldlM (fun st j => visitJob jobs ((jobs.map (·.name)).length + 1) j [] st)
      (jobs.map (·.name), []) with
  | none => rw [hres] at this; cases this
  | some st => rfl

end Jenkins
