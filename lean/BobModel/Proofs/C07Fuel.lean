import BobModel.Model.Download
/-
C07 helper lemmas, part 6: the restart loop terminates - every restart fixes the source id of one more package,
so `size t + 1` rounds always suffice and `cook` never ends in `Res.restart`.
-/
namespace Download

theorem upd_same' {β : Type} (f : Path → β) (p : Path) (v : β) : upd f p v p = v := by simp [upd]

/-- `_getBuildId` only touches the Build-Id cache -/
theorem gb_fixed (E : Env) (t : Pkg) : ∀ m, (getBuildId E t m).2.fixed = m.fixed :=
  Pkg.rec (motive_1 := fun t => ∀ m, (getBuildId E t m).2.fixed = m.fixed)
    (motive_2 := fun ds => ∀ m, (getBuildIds E ds m).2.fixed = m.fixed)
    (fun i ds ih m => by
      unfold getBuildId
      cases hb : m.bids i.path with
      | some b => rfl
      | none =>
        simp only
        have := ih m
        cases hg : getBuildIds E ds m with
        | mk bs m1 => rw [hg] at this; exact this)
    (fun m => rfl)
    (fun d ds hd hds m => by
      unfold getBuildIds
      have h1 := hd m
      cases hg : getBuildId E d m with
      | mk b m1 =>
        rw [hg] at h1
        simp only
        have h2 := hds m1
        cases hg2 : getBuildIds E ds m1 with
        | mk bs m2 => rw [hg2] at h2; simp only; rw [h2, h1])
    t

/-- what a cook does to the set of known source ids -/
def FixPost (N : List Pkg) (r : Run) : Res → Prop
  | .ok r' => r'.mem.fixed = r.mem.fixed
  | .abort _ => True
  | .restart r' => ∃ u ∈ N, r.mem.fixed u.path = false ∧ r'.mem.fixed = upd r.mem.fixed u.path true

theorem war_fixed (i : PInfo) (r : Run) : (wasAlreadyRun i r).2.mem.fixed = r.mem.fixed := by
  unfold wasAlreadyRun
  split
  · rfl
  · split <;> rfl

theorem dlPhase_fixed (E : Env) (cfg : Cfg) (depth : Nat) (i : PInfo) (b : BuildId) (r : Run) :
    (dlPhase E cfg depth i b r).2.mem.fixed = r.mem.fixed := by
  unfold dlPhase
  split
  · rfl
  · simp only
    split <;> rfl

theorem finish_fixed (E : Env) (cfg : Cfg) (depth : Nat) (i : PInfo) (ds : List Pkg) (b : BuildId) (r : Run) :
    FixPost [] r (finishPkg E cfg depth i ds b r) := by
  unfold finishPkg
  simp only
  split
  · exact war_fixed i r
  · split
    · exact war_fixed i r
    · exact war_fixed i r

theorem fixPost_mono {N N' : List Pkg} (h : ∀ u ∈ N, u ∈ N') {r : Run} {x : Res} (hp : FixPost N r x) : FixPost N' r x := by
  cases x with
  | ok r' => exact hp
  | abort r' => trivial
  | restart r' =>
    obtain ⟨u, hu, h1, h2⟩ := hp
    exact ⟨u, h u hu, h1, h2⟩

theorem fixPost_trans {N : List Pkg} {r r1 : Run} (h : r1.mem.fixed = r.mem.fixed) {x : Res} (hp : FixPost N r1 x) :
    FixPost N r x := by
  cases x with
  | ok r' => exact hp.trans h
  | abort r' => trivial
  | restart r' =>
    obtain ⟨u, hu, h1, h2⟩ := hp
    exact ⟨u, hu, by rw [← h]; exact h1, by rw [← h]; exact h2⟩

theorem checkSrc_some (i : PInfo) (r r5 : Run) (h : checkSrc i r = some r5) :
    r.mem.fixed i.path = false ∧ r5.mem.fixed = upd r.mem.fixed i.path true := by
  unfold checkSrc at h
  by_cases hs : srcNow r.mem i = i.src
  · simp [hs] at h
  · simp only [ne_eq, hs, not_false_eq_true, decide_true, if_true, Option.some.injEq] at h
    constructor
    · cases hf : r.mem.fixed i.path with
      | false => rfl
      | true => exact absurd (by simp [srcNow, hf]) hs
    · rw [← h]; rfl

def FK (E : Env) (cfg : Cfg) (t : Pkg) : Prop := ∀ depth r, FixPost (nodes t) r (cookPkg E cfg depth t r)
def FKL (E : Env) (cfg : Cfg) (ds : List Pkg) : Prop := ∀ depth r, FixPost (nodesL ds) r (cookList E cfg depth ds r)

theorem fk_mk (E : Env) (cfg : Cfg) (i : PInfo) (ds : List Pkg) (ih : FKL E cfg ds) : FK E cfg (.mk i ds) := by
  intro depth r
  unfold cookPkg
  simp only
  split
  · exact war_fixed i r
  · have h1 : ((wasAlreadyRun i r).2.exec E (prepOps i ((wasAlreadyRun i r).2.st.loc i.path))).mem.fixed = r.mem.fixed :=
      war_fixed i r
    have h3 : (dlPhase E cfg depth i
        (getBuildId E (.mk i ds) ((wasAlreadyRun i r).2.exec E (prepOps i ((wasAlreadyRun i r).2.st.loc i.path))).mem).1
        { (wasAlreadyRun i r).2.exec E (prepOps i ((wasAlreadyRun i r).2.st.loc i.path)) with
          mem := (getBuildId E (.mk i ds) ((wasAlreadyRun i r).2.exec E (prepOps i ((wasAlreadyRun i r).2.st.loc i.path))).mem).2 }).2.mem.fixed
        = r.mem.fixed := by
      rw [dlPhase_fixed]
      show (getBuildId E (.mk i ds) _).2.fixed = _
      rw [gb_fixed, h1]
    split
    · trivial
    · exact h3
    · split
      · rename_i r5 hcs
        obtain ⟨c1, c2⟩ := checkSrc_some i _ r5 hcs
        refine ⟨.mk i ds, by simp [nodes], ?_, ?_⟩
        · rw [← h3]; exact c1
        · rw [c2, h3]; rfl
      · have h5 := ih (depth + 2) (dlPhase E cfg depth i
          (getBuildId E (.mk i ds) ((wasAlreadyRun i r).2.exec E (prepOps i ((wasAlreadyRun i r).2.st.loc i.path))).mem).1
          { (wasAlreadyRun i r).2.exec E (prepOps i ((wasAlreadyRun i r).2.st.loc i.path)) with
            mem := (getBuildId E (.mk i ds) ((wasAlreadyRun i r).2.exec E (prepOps i ((wasAlreadyRun i r).2.st.loc i.path))).mem).2 }).2
        split
        · rename_i r5 hcl
          rw [hcl] at h5
          have hf := finish_fixed E cfg depth i ds
            (getBuildId E (.mk i ds) ((wasAlreadyRun i r).2.exec E (prepOps i ((wasAlreadyRun i r).2.st.loc i.path))).mem).1 r5
          exact fixPost_trans (h5.trans h3) (fixPost_mono (fun u hu => by cases hu) hf)
        · exact fixPost_trans h3 (fixPost_mono (fun u hu => by simp [nodes, hu]) h5)

theorem fkl_cons (E : Env) (cfg : Cfg) (d : Pkg) (ds : List Pkg) (hd : FK E cfg d) (hds : FKL E cfg ds) :
    FKL E cfg (d :: ds) := by
  intro depth r
  have h1 := hd depth r
  simp only [cookList]
  split
  · rename_i r1 hc
    rw [hc] at h1
    exact fixPost_trans h1 (fixPost_mono (fun u hu => by simp [nodesL, hu]) (hds depth r1))
  · exact fixPost_mono (fun u hu => by simp [nodesL, hu]) h1

theorem fk_all (E : Env) (cfg : Cfg) (t : Pkg) : FK E cfg t :=
  Pkg.rec (motive_1 := fun t => FK E cfg t) (motive_2 := fun ds => FKL E cfg ds)
    (fun i ds ih => fk_mk E cfg i ds ih) (fun _ _ => rfl) (fun d ds hd hds => fkl_cons E cfg d ds hd hds) t

/-! ### counting -/

/-- packages whose source id is not known for sure -/
def unfixed (F : Path → Bool) (L : List Path) : Nat := (L.filter fun q => !F q).length

theorem unfixed_le (F : Path → Bool) (p : Path) (L : List Path) : unfixed (upd F p true) L ≤ unfixed F L := by
  induction L with
  | nil => simp [unfixed]
  | cons q L ih =>
    simp only [unfixed, List.filter_cons] at ih ⊢
    by_cases hq : q = p
    · subst hq
      rw [upd_same']
      simp only [Bool.not_true, Bool.false_eq_true, if_false]
      split
      · simp only [List.length_cons]; omega
      · exact ih
    · have : upd F p true q = F q := by simp [upd, hq]
      rw [this]
      split
      · simp only [List.length_cons]; omega
      · exact ih

theorem unfixed_lt (F : Path → Bool) (p : Path) (L : List Path) (hp : p ∈ L) (hf : F p = false) :
    unfixed (upd F p true) L < unfixed F L := by
  induction L with
  | nil => cases hp
  | cons q L ih =>
    simp only [unfixed, List.filter_cons]
    by_cases hq : q = p
    · subst hq
      rw [upd_same', hf]
      simp only [Bool.not_true, Bool.false_eq_true, if_false, Bool.not_false, if_true, List.length_cons]
      have := unfixed_le F q L
      simp only [unfixed] at this
      omega
    · have h1 : upd F p true q = F q := by simp [upd, hq]
      rw [h1]
      have hp' : p ∈ L := by
        rcases List.mem_cons.mp hp with h | h
        · exact absurd h.symm hq
        · exact h
      have := ih hp'
      simp only [unfixed] at this
      split
      · simp only [List.length_cons]; omega
      · exact this

theorem unfixed_le_length (F : Path → Bool) (L : List Path) : unfixed F L ≤ L.length := by
  simp only [unfixed]
  exact List.length_filter_le _ _

theorem length_nodes (t : Pkg) : (nodes t).length = size t :=
  Pkg.rec (motive_1 := fun t => (nodes t).length = size t) (motive_2 := fun ds => (nodesL ds).length = sizeL ds)
    (fun i ds ih => by simp only [nodes, size, List.length_cons, ih]; omega)
    rfl
    (fun d ds hd hds => by simp only [nodesL, sizeL, List.length_append, hd, hds])
    t

/-- **the fuel suffices**: with more rounds than packages whose source id is not fixed the loop does not run out -/
theorem rounds_terminate (E : Env) (cfg : Cfg) (t : Pkg) : ∀ (n : Nat) (r : Run),
    unfixed r.mem.fixed ((nodes t).map Pkg.path) < n → ∀ r', cookRounds E cfg t n r ≠ .restart r' := by
  intro n
  induction n with
  | zero => intro r h; omega
  | succ n ih =>
    intro r h r' hc
    simp only [cookRounds] at hc
    have hf := fk_all E cfg t 0 r
    cases hk : cookPkg E cfg 0 t r with
    | ok r1 => rw [hk] at hc; cases hc
    | abort r1 => rw [hk] at hc; cases hc
    | restart r1 =>
      rw [hk] at hc hf
      simp only at hc
      obtain ⟨u, hu, h1, h2⟩ := hf
      have hlt := unfixed_lt r.mem.fixed u.path ((nodes t).map Pkg.path) (List.mem_map.mpr ⟨u, hu, rfl⟩) h1
      rw [← h2] at hlt
      exact ih r1 (by omega) r' hc

/-- `cook` never gives up restarting -/
theorem cook_no_restart (E : Env) (cfg : Cfg) (t : Pkg) (s : St) (a : Archive) : ∀ r', cook E cfg t s a ≠ .restart r' := by
  unfold cook
  apply rounds_terminate
  have := unfixed_le_length (Mem.init.fixed) ((nodes t).map Pkg.path)
  rw [List.length_map, length_nodes] at this
  show unfixed Mem.init.fixed _ < _
  omega

end Download
