import BobModel.Model.Checkout
/-
Helper lemmas for C12: the sort order of `checkoutsFromState` (lists of path components, compared
like Python lists of strings) is a total preorder in which a directory precedes everything below it.
-/
namespace Checkout

theorem lexLe_total : ∀ a b : List Char, (lexLe a b || lexLe b a) = true := by
  intro a
  induction a with
  | nil => intro b; simp [lexLe]
  | cons x xs ih =>
    intro b
    cases b with
    | nil => simp [lexLe]
    | cons y ys =>
      simp only [lexLe]
      by_cases h1 : x.toNat < y.toNat
      · simp [h1]
      · by_cases h2 : y.toNat < x.toNat
        · simp [h1, h2]
        · simp only [h1, h2, if_false]
          exact ih ys

theorem lexLe_refl : ∀ a : List Char, lexLe a a = true := by
  intro a
  induction a with
  | nil => rfl
  | cons x xs ih => simp [lexLe, ih]

theorem lexLe_antisymm : ∀ a b : List Char, lexLe a b = true → lexLe b a = true → a = b := by
  intro a
  induction a with
  | nil =>
    intro b _ h2
    cases b with
    | nil => rfl
    | cons y ys => simp [lexLe] at h2
  | cons x xs ih =>
    intro b h1 h2
    cases b with
    | nil => simp [lexLe] at h1
    | cons y ys =>
      simp only [lexLe] at h1 h2
      by_cases hxy : x.toNat < y.toNat
      · have : ¬ y.toNat < x.toNat := by omega
        simp [hxy, this] at h2
      · by_cases hyx : y.toNat < x.toNat
        · simp [hxy, hyx] at h1
        · simp only [hxy, hyx, if_false] at h1 h2
          have hx : x = y := Char.toNat_inj.mp (by omega)
          rw [hx, ih ys h1 h2]

theorem lexLe_trans : ∀ a b c : List Char, lexLe a b = true → lexLe b c = true → lexLe a c = true := by
  intro a
  induction a with
  | nil => intro b c _ _; simp [lexLe]
  | cons x xs ih =>
    intro b c h1 h2
    cases b with
    | nil => simp [lexLe] at h1
    | cons y ys =>
      cases c with
      | nil => simp [lexLe] at h2
      | cons z zs =>
        simp only [lexLe] at h1 h2 ⊢
        by_cases hxy : x.toNat < y.toNat
        · by_cases hyz : y.toNat < z.toNat
          · have : x.toNat < z.toNat := by omega
            simp [this]
          · by_cases hzy : z.toNat < y.toNat
            · simp [hyz, hzy] at h2
            · have : x.toNat < z.toNat := by omega
              simp [this]
        · by_cases hyx : y.toNat < x.toNat
          · simp [hxy, hyx] at h1
          · simp only [hxy, hyx, if_false] at h1
            by_cases hyz : y.toNat < z.toNat
            · have : x.toNat < z.toNat := by omega
              simp [this]
            · by_cases hzy : z.toNat < y.toNat
              · simp [hyz, hzy] at h2
              · simp only [hyz, hzy, if_false] at h2
                have h3 : ¬ x.toNat < z.toNat := by omega
                have h4 : ¬ z.toNat < x.toNat := by omega
                simp only [h3, h4, if_false]
                exact ih ys zs h1 h2

theorem compsLe_total : ∀ a b : Comps, (compsLe a b || compsLe b a) = true := by
  intro a
  induction a with
  | nil => intro b; simp [compsLe]
  | cons x xs ih =>
    intro b
    cases b with
    | nil => simp [compsLe]
    | cons y ys =>
      simp only [compsLe]
      by_cases h : x = y
      · subst h; simp only [beq_self_eq_true, if_true]; exact ih ys
      · have h1 : (x == y) = false := by simpa using h
        have h2 : (y == x) = false := by simpa using fun e => h e.symm
        simp only [h1, h2, Bool.false_eq_true, if_false]
        exact lexLe_total _ _

theorem compsLe_trans : ∀ a b c : Comps, compsLe a b = true → compsLe b c = true → compsLe a c = true := by
  intro a
  induction a with
  | nil => intro b c _ _; simp [compsLe]
  | cons x xs ih =>
    intro b c h1 h2
    cases b with
    | nil => simp [compsLe] at h1
    | cons y ys =>
      cases c with
      | nil => simp [compsLe] at h2
      | cons z zs =>
        simp only [compsLe] at h1 h2 ⊢
        by_cases hxy : x = y
        · subst hxy
          simp only [beq_self_eq_true, if_true] at h1
          by_cases hxz : x = z
          · subst hxz
            simp only [beq_self_eq_true, if_true] at h2 ⊢
            exact ih ys zs h1 h2
          · have : (x == z) = false := by simpa using hxz
            simp only [this, Bool.false_eq_true, if_false] at h2 ⊢
            exact h2
        · have hxy' : (x == y) = false := by simpa using hxy
          simp only [hxy', Bool.false_eq_true, if_false] at h1
          by_cases hyz : y = z
          · subst hyz
            simp only [hxy', Bool.false_eq_true, if_false]
            exact h1
          · have hyz' : (y == z) = false := by simpa using hyz
            simp only [hyz', Bool.false_eq_true, if_false] at h2
            by_cases hxz : x = z
            · subst hxz
              exact absurd (String.toList_inj.mp (lexLe_antisymm _ _ h1 h2)) hxy
            · have : (x == z) = false := by simpa using hxz
              simp only [this, Bool.false_eq_true, if_false]
              exact lexLe_trans _ _ _ h1 h2

/-- something strictly below `q` never sorts before or equal to `q` -/
theorem compsLe_below_false : ∀ (q p : Comps), isPrefix q p = true → q ≠ p → compsLe p q = false := by
  intro q
  induction q with
  | nil =>
    intro p _ hne
    cases p with
    | nil => exact absurd rfl hne
    | cons a as => rfl
  | cons b bs ih =>
    intro p hp hne
    cases p with
    | nil => simp [isPrefix] at hp
    | cons a as =>
      simp only [isPrefix, Bool.and_eq_true, beq_iff_eq] at hp
      obtain ⟨hba, hrest⟩ := hp
      subst hba
      simp only [compsLe, beq_self_eq_true, if_true]
      exact ih as hrest (fun e => hne (by rw [e]))

variable {σ : Type}

/-- **`checkoutsFromState` is top-down**: in the sorted list no entry is preceded by an entry strictly
below it - a directory always comes before the SCM directories nested in it (no side condition on
the names since the order is by path components) -/
theorem sortedOld_topdown (old : List (OldEntry σ)) :
    (sortedOld old).Pairwise (fun x y =>
      ¬ (isPrefix (normComps y.dir) (normComps x.dir) = true ∧ normComps y.dir ≠ normComps x.dir)) := by
  have h := List.pairwise_mergeSort (le := fun a b : OldEntry σ => compsLe (normComps a.dir) (normComps b.dir))
    (fun a b c => compsLe_trans _ _ _) (fun a b => compsLe_total _ _) old
  unfold sortedOld
  refine h.imp ?_
  intro x y hle ⟨hp, hne⟩
  rw [compsLe_below_false _ _ hp hne] at hle
  cases hle

end Checkout
