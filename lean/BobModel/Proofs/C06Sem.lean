import BobModel.Model.JobSem
/-
Lemmas about the semaphore models (Model/JobSem.lean): the invariant of the non-recursive job server
semaphore and of asyncio.BoundedSemaphore, and closed counterexamples for the recursive mode.
-/
namespace JobSem

/-! ### waiter lists -/

theorem inflight_append (a b : List (Nat × Bool)) : inflight (a ++ b) = inflight a + inflight b := by
  simp [inflight, List.filter_append]

theorem notDone_append (a b : List (Nat × Bool)) : notDone (a ++ b) = notDone a + notDone b := by
  simp [notDone, List.filter_append]

@[simp] theorem inflight_nil : inflight [] = 0 := rfl
@[simp] theorem notDone_nil : notDone [] = 0 := rfl

@[simp] theorem inflight_cons (t : Nat) (d : Bool) (w : List (Nat × Bool)) :
    inflight ((t, d) :: w) = (if d then 1 else 0) + inflight w := by
  cases d <;> simp [inflight, List.filter_cons] <;> omega

@[simp] theorem notDone_cons (t : Nat) (d : Bool) (w : List (Nat × Bool)) :
    notDone ((t, d) :: w) = (if d then 0 else 1) + notDone w := by
  cases d <;> simp [notDone, List.filter_cons] <;> omega

theorem inflight_add_notDone (w : List (Nat × Bool)) : inflight w + notDone w = w.length := by
  induction w with
  | nil => rfl
  | cons a w ih => obtain ⟨t, d⟩ := a; cases d <;> simp <;> omega

theorem wakeFirst_some (w : List (Nat × Bool)) (h : 0 < notDone w) :
    ∃ w', wakeFirst w = some w' ∧ inflight w' = inflight w + 1 ∧ notDone w' + 1 = notDone w ∧ w'.length = w.length := by
  induction w with
  | nil => simp at h
  | cons a w ih =>
    obtain ⟨t, d⟩ := a
    cases d with
    | false => exact ⟨(t, true) :: w, by simp [wakeFirst], by simp; omega, by simp; omega, by simp⟩
    | true =>
      have h' : 0 < notDone w := by simpa using h
      obtain ⟨w', e, h1, h2, h3⟩ := ih h'
      exact ⟨(t, true) :: w', by simp [wakeFirst, e], by simp [h1]; omega, by simp; omega, by simp [h3]⟩

theorem wakeFirst_none (w : List (Nat × Bool)) (h : notDone w = 0) : wakeFirst w = none := by
  induction w with
  | nil => rfl
  | cons a w ih =>
    obtain ⟨t, d⟩ := a
    cases d with
    | false => simp at h
    | true => simp at h; simp [wakeFirst, ih h]

theorem erase_done (w : List (Nat × Bool)) (t : Nat) (h : w.contains (t, true) = true) :
    inflight (w.erase (t, true)) + 1 = inflight w ∧ notDone (w.erase (t, true)) = notDone w ∧
    (w.erase (t, true)).length + 1 = w.length := by
  induction w with
  | nil => simp at h
  | cons a w ih =>
    by_cases e : a = (t, true)
    · subst e; simp; omega
    · have hc : w.contains (t, true) = true := by
        simp only [List.contains_cons, Bool.or_eq_true, beq_iff_eq] at h
        rcases h with h | h
        · exact absurd h.symm e
        · exact h
      obtain ⟨h1, h2, h3⟩ := ih hc
      rw [List.erase_cons_tail (by simpa using e)]
      obtain ⟨u, d⟩ := a
      cases d <;> simp <;> omega

/-! ### asyncio.Semaphore -/

theorem wakeLoop_zero (fuel : Nat) (s : ASem) (h : s.value = 0) : ASem.wakeLoop fuel s = s := by
  cases fuel with
  | zero => rfl
  | succ f => simp [ASem.wakeLoop, h]

theorem wakeNext_inv (s : ASem) (hv : 0 < s.value) :
    s.wakeNext.1.value + inflight s.wakeNext.1.waiters = s.value + inflight s.waiters ∧
    s.wakeNext.1.waiters.length = s.waiters.length := by
  unfold ASem.wakeNext
  by_cases h : 0 < notDone s.waiters
  · obtain ⟨w', e, h1, _, h3⟩ := wakeFirst_some _ h
    simp [e, h1, h3]; omega
  · have : notDone s.waiters = 0 := by omega
    simp [wakeFirst_none _ this]

theorem wakeLoop_inv (fuel : Nat) (s : ASem) :
    (ASem.wakeLoop fuel s).value + inflight (ASem.wakeLoop fuel s).waiters = s.value + inflight s.waiters ∧
    (ASem.wakeLoop fuel s).waiters.length = s.waiters.length := by
  induction fuel generalizing s with
  | zero => simp [ASem.wakeLoop]
  | succ f ih =>
    unfold ASem.wakeLoop
    by_cases hv : 0 < s.value
    · simp only [hv, ↓reduceIte]
      have hn := wakeNext_inv s hv
      rcases hw : s.wakeNext with ⟨s', b⟩
      rw [hw] at hn
      cases b with
      | true => simp only; have := ih s'; simp only at hn; omega
      | false => simp
    · simp [hv]

/-- `h` owners, `b` slots: asyncio.BoundedSemaphore -/
def BInv (b h : Nat) (s : ASem) : Prop := s.value + h + inflight s.waiters = b

theorem BInv.acquire {b h : Nat} {s : ASem} (t : Nat) (hi : BInv b h s) :
    ((s.acquire t).2 = .got → BInv b (h + 1) (s.acquire t).1 ∧ (s.acquire t).1.waiters = s.waiters) ∧
    ((s.acquire t).2 = .blocked → BInv b h (s.acquire t).1 ∧ (s.acquire t).1.waiters = s.waiters ++ [(t, false)]) := by
  unfold ASem.acquire
  by_cases hl : s.locked = true
  · simp [hl, BInv, inflight_append] at *; exact hi
  · simp only [hl]
    have hv : 0 < s.value := by
      simp [ASem.locked] at hl; omega
    simp [BInv] at *; omega

theorem BInv.resume {b h : Nat} {s : ASem} (t : Nat) (hi : BInv b h s) (hw : s.woken t = true) :
    BInv b (h + 1) (s.resume t) ∧ (s.resume t).waiters.length + 1 = s.waiters.length := by
  unfold ASem.resume
  obtain ⟨h1, _, h3⟩ := erase_done s.waiters t hw
  have := wakeLoop_inv ({ s with waiters := s.waiters.erase (t, true) } : ASem).value { s with waiters := s.waiters.erase (t, true) }
  simp only [BInv] at *
  omega

theorem release_inv (s : ASem) :
    s.release.value + inflight s.release.waiters = s.value + 1 + inflight s.waiters ∧
    s.release.waiters.length = s.waiters.length := by
  unfold ASem.release
  have := wakeNext_inv ({ s with value := s.value + 1 } : ASem) (by simp)
  simpa using this

theorem BInv.release {b h : Nat} {s : ASem} (hi : BInv b (h + 1) s) :
    ∃ s', s.releaseBounded b = .ok s' ∧ BInv b h s' ∧ s'.waiters.length = s.waiters.length := by
  unfold ASem.releaseBounded
  have hv : ¬ s.value ≥ b := by simp [BInv] at hi; omega
  rw [if_neg hv]
  refine ⟨_, rfl, ?_, (release_inv s).2⟩
  have := (release_inv s).1
  simp only [BInv] at *; omega

/-! ### JobServerSemaphore (both modes) -/

/-- the implicit slot of the parent `make` is in use -/
def imp (s : St) : Nat := if s.recursive && decide (0 < s.acquired) then 1 else 0

/-- invariant of the job server semaphore; `n` = tokens that circulate (pipe, `__tokens`, child makes).
`__acquired` counts the owners including those a slot was handed over to and who have not continued yet. -/
def SemInv (n : Nat) (s : St) : Prop :=
  s.pipe + s.tokens + s.envHeld = n ∧
  s.tokens + imp s = s.acquired ∧
  s.waitersCnt = notDone s.sem.waiters ∧ s.sem.value = 0 ∧ (s.reader = true ↔ 0 < s.waitersCnt) ∧
  (s.recursive = true → 0 < s.waitersCnt → 0 < s.acquired)

theorem SemInv.init (r : Bool) (n : Nat) : SemInv n (St.init r n) := by
  simp [SemInv, St.init, imp]

theorem sem_acquire_blocked (s : ASem) (t : Nat) (h : s.value = 0) :
    s.acquire t = ({ s with waiters := s.waiters ++ [(t, false)] }, .blocked) := by
  simp [ASem.acquire, ASem.locked, h]

theorem SemInv.acquire {n : Nat} {s : St} (t : Nat) (h : SemInv n s) :
    SemInv n (s.acquire t).1 ∧
    ((s.acquire t).2 = .got → (s.acquire t).1.acquired = s.acquired + 1 ∧ (s.acquire t).1.sem.waiters = s.sem.waiters) ∧
    ((s.acquire t).2 = .blocked → (s.acquire t).1.acquired = s.acquired ∧
      (s.acquire t).1.sem.waiters = s.sem.waiters ++ [(t, false)]) := by
  obtain ⟨h1, h2, h3, h4, h5, h6⟩ := h
  unfold St.acquire
  by_cases e0 : (s.recursive && s.acquired == 0) = true
  · simp only [e0, ↓reduceIte]
    have hr : s.recursive = true := by simp at e0; exact e0.1
    have ha : s.acquired = 0 := by simp at e0; exact e0.2
    have ht : s.tokens = 0 := by simp [imp, ha] at h2; exact h2
    refine ⟨⟨h1, ?_, h3, h4, h5, ?_⟩, ?_, ?_⟩
    · simp [imp, hr, ht]
    · intro _ _; simp
    · intro _; simp [ha]
    · intro hc; simp at hc
  · have e0' : (s.recursive && s.acquired == 0) = false := by simpa using e0
    simp only [e0', Bool.false_eq_true, ↓reduceIte]
    by_cases hp : s.pipe > 0
    · simp only [hp, ↓reduceIte]
      refine ⟨⟨by simp only; omega, ?_, h3, h4, h5, ?_⟩, ?_, ?_⟩
      · simp only [imp] at *
        cases hr : s.recursive <;> simp [hr] at e0' h2 ⊢
        · omega
        · have : 0 < s.acquired := by omega
          simp [this] at h2; omega
      · intro _ _; simp
      · intro _; simp
      · intro hc; simp at hc
    · simp only [hp, ↓reduceIte, sem_acquire_blocked _ t h4]
      refine ⟨⟨h1, ?_, ?_, h4, ?_, ?_⟩, ?_, ?_⟩
      · simpa [imp] using h2
      · simp [notDone_append]; exact h3
      · simp; by_cases hz : s.waitersCnt = 0 <;> simp [hz]
        have := h5.2 (by omega); exact this
      · intro hr _
        have hr' : s.recursive = true := hr
        simp only
        cases ha : s.acquired with
        | zero => simp [hr', ha] at e0'
        | succ k => omega
      · intro hc; simp at hc
      · intro _; simp

theorem SemInv.resume {n : Nat} {s : St} (t : Nat) (h : SemInv n s) (hw : s.woken t = true) :
    SemInv n (s.resume t) ∧ (s.resume t).acquired = s.acquired ∧
    (s.resume t).sem.waiters.length + 1 = s.sem.waiters.length ∧
    inflight (s.resume t).sem.waiters + 1 = inflight s.sem.waiters := by
  obtain ⟨h1, h2, h3, h4, h5, h6⟩ := h
  obtain ⟨e1, e2, e3⟩ := erase_done s.sem.waiters t hw
  have hres : s.sem.resume t = { s.sem with waiters := s.sem.waiters.erase (t, true) } := by
    unfold ASem.resume
    exact wakeLoop_zero _ _ h4
  unfold St.resume
  rw [hres]
  refine ⟨⟨h1, h2, ?_, h4, h5, h6⟩, rfl, e3, e1⟩
  simp only; omega

theorem sem_release_handover (s : ASem) (hv : s.value = 0) (hn : 0 < notDone s.waiters) :
    s.release.value = 0 ∧ inflight s.release.waiters = inflight s.waiters + 1 ∧
    notDone s.release.waiters + 1 = notDone s.waiters ∧ s.release.waiters.length = s.waiters.length := by
  obtain ⟨w', e, h1, h2, h3⟩ := wakeFirst_some _ hn
  simp [ASem.release, ASem.wakeNext, e, hv, h1, h3]; omega

/-- `release` by an owner: never raises; the number of owners that are not in flight drops by one -/
theorem SemInv.release {n : Nat} {s : St} (h : SemInv n s) (ha : 0 < s.acquired) :
    ∃ s', s.release = .ok s' ∧ SemInv n s' ∧
      s'.acquired + inflight s.sem.waiters + 1 = s.acquired + inflight s'.sem.waiters ∧
      s'.sem.waiters.length = s.sem.waiters.length := by
  obtain ⟨h1, h2, h3, h4, h5, h6⟩ := h
  unfold St.release
  have ha' : (s.acquired == 0) = false := by simp; omega
  simp only [ha', Bool.false_eq_true, ↓reduceIte]
  by_cases hw : s.waitersCnt = 0
  · have hne : (s.waitersCnt != 0) = false := by simp [hw]
    simp only [hne, Bool.false_eq_true, ↓reduceIte]
    by_cases e1 : (!s.recursive || decide (s.acquired > 1)) = true
    · simp only [e1, ↓reduceIte]
      have ht : s.tokens ≠ 0 := by
        simp only [imp] at h2
        cases hr : s.recursive <;> simp [hr] at e1 h2
        · omega
        · have : 0 < s.acquired := by omega
          simp [this] at h2; omega
      have ht' : (s.tokens == 0) = false := by simpa using ht
      simp only [ht', Bool.false_eq_true, ↓reduceIte]
      refine ⟨_, rfl, ⟨by simp only; omega, ?_, h3, h4, h5, ?_⟩, by simp only; omega, rfl⟩
      · simp only [imp] at *
        cases hr : s.recursive <;> simp [hr] at e1 h2 ⊢
        · omega
        · have p1 : 0 < s.acquired := by omega
          have p2 : 0 < s.acquired - 1 := by omega
          simp [p1] at h2; simp [p2]; omega
      · intro _ hc; simp only at hc; omega
    · have e1' : (!s.recursive || decide (s.acquired > 1)) = false := by simpa using e1
      simp only [e1', Bool.false_eq_true, ↓reduceIte]
      have hr : s.recursive = true := by simp at e1'; exact e1'.1
      have h1a : s.acquired = 1 := by simp at e1'; omega
      refine ⟨_, rfl, ⟨h1, ?_, h3, h4, h5, ?_⟩, by simp only; omega, rfl⟩
      · simp [imp, hr, h1a] at h2 ⊢; exact h2
      · intro _ hc; simp only at hc; omega
  · have hne : (s.waitersCnt != 0) = true := by simp [hw]
    simp only [hne, ↓reduceIte]
    obtain ⟨r1, r2, r3, r4⟩ := sem_release_handover s.sem h4 (by omega)
    refine ⟨_, rfl, ⟨h1, ?_, ?_, r1, ?_, ?_⟩, ?_, r4⟩
    · simpa [imp] using h2
    · simp only; omega
    · simp only
      by_cases hz : s.waitersCnt - 1 = 0
      · simp [hz]
      · have : (s.waitersCnt - 1 == 0) = false := by simpa using hz
        simp only [this, Bool.false_eq_true, ↓reduceIte]
        constructor
        · intro _; omega
        · intro _; exact h5.2 (by omega)
    · intro _ _; simp only; exact ha
    · simp only; omega

/-- release without a slot raises (any mode) -/
theorem release_zero (s : St) (h : s.acquired = 0) : s.release = .error .valueError := by
  simp [St.release, h]

def CbPre (n : Nat) (s : St) : Prop :=
  s.pipe + s.tokens + s.envHeld = n ∧ s.tokens + imp s = s.acquired ∧
    s.waitersCnt = notDone s.sem.waiters ∧ s.sem.value = 0 ∧ (s.recursive = true → 0 < s.waitersCnt → 0 < s.acquired)

theorem cbLoop_inv {n : Nat} (fuel : Nat) (s : St) (h : CbPre n s) :
    CbPre n (cbLoop fuel s) ∧
    (cbLoop fuel s).acquired + inflight s.sem.waiters = s.acquired + inflight (cbLoop fuel s).sem.waiters ∧
    (cbLoop fuel s).sem.waiters.length = s.sem.waiters.length ∧
    (cbLoop fuel s).reader = s.reader ∧ (cbLoop fuel s).waitersCnt ≤ s.waitersCnt ∧
    (0 < fuel → 0 < s.waitersCnt → 0 < s.pipe → (cbLoop fuel s).waitersCnt < s.waitersCnt) := by
  induction fuel generalizing s with
  | zero => exact ⟨h, rfl, rfl, rfl, Nat.le_refl _, fun h0 => absurd h0 (by omega)⟩
  | succ f ih =>
    obtain ⟨h1, h2, h3, h4, h6⟩ := h
    unfold cbLoop
    by_cases hw : s.waitersCnt = 0
    · have hw' : (s.waitersCnt == 0) = true := by simpa using hw
      simp only [hw', ↓reduceIte]
      exact ⟨⟨h1, h2, h3, h4, h6⟩, by trivial, by trivial, by trivial, by first | trivial | omega, by intros; omega⟩
    · have hw' : (s.waitersCnt == 0) = false := by simpa using hw
      simp only [hw', Bool.false_eq_true, ↓reduceIte]
      by_cases hp : s.pipe = 0
      · have hp' : (s.pipe == 0) = true := by simpa using hp
        simp only [hp', ↓reduceIte]
        exact ⟨⟨h1, h2, h3, h4, h6⟩, by trivial, by trivial, by trivial, by first | trivial | omega, by intros; omega⟩
      · have hp' : (s.pipe == 0) = false := by simpa using hp
        simp only [hp', Bool.false_eq_true, ↓reduceIte]
        obtain ⟨r1, r2, r3, r4⟩ := sem_release_handover s.sem h4 (by omega)
        have himp : s.tokens + 1 + (if (s.recursive && decide (0 < s.acquired + 1)) = true then 1 else 0) = s.acquired + 1 := by
          simp only [imp] at h2
          cases hr : s.recursive <;> simp [hr] at h2 h6 ⊢
          · omega
          · have : 0 < s.acquired := h6 (by omega)
            simp [this] at h2; omega
        have := ih { s with pipe := s.pipe - 1, tokens := s.tokens + 1, waitersCnt := s.waitersCnt - 1, acquired := s.acquired + 1, sem := s.sem.release }
          ⟨by simp only; omega, by simpa only [imp] using himp, by simp only; omega, r1, by intro _ _; simp only; omega⟩
        obtain ⟨i1, i2, i3, i4, i5, _⟩ := this
        simp only at i2 i3 i4 i5
        refine ⟨i1, by omega, by omega, i4, by omega, ?_⟩
        intro _ _ _; omega

theorem SemInv.callback {n : Nat} {s : St} (h : SemInv n s) :
    SemInv n s.callback ∧
    s.callback.acquired + inflight s.sem.waiters = s.acquired + inflight s.callback.sem.waiters ∧
    s.callback.sem.waiters.length = s.sem.waiters.length := by
  obtain ⟨h1, h2, h3, h4, h5, h6⟩ := h
  have := cbLoop_inv (n := n) s.waitersCnt s ⟨h1, h2, h3, h4, h6⟩
  obtain ⟨⟨c1, c2, c3, c4, c6⟩, a1, a2, a3, a4, _⟩ := this
  unfold St.callback
  simp only
  by_cases hz : (cbLoop s.waitersCnt s).waitersCnt = 0
  · have : ((cbLoop s.waitersCnt s).waitersCnt == 0) = true := by simpa using hz
    simp only [this, ↓reduceIte]
    refine ⟨⟨c1, ?_, c3, c4, ?_, ?_⟩, a1, a2⟩
    · simpa [imp] using c2
    · simp [hz]
    · intro _ hc; simp only at hc; omega
  · have : ((cbLoop s.waitersCnt s).waitersCnt == 0) = false := by simpa using hz
    simp only [this, Bool.false_eq_true, ↓reduceIte]
    refine ⟨⟨c1, c2, c3, c4, ?_, c6⟩, a1, a2⟩
    rw [a3]
    constructor
    · intro _; omega
    · intro _; exact h5.2 (by omega)

/-- the callback serves waiters as long as tokens are in the pipe -/
theorem SemInv.callback_serves {n : Nat} {s : St} (h : SemInv n s) (hw : 0 < s.waitersCnt) (hp : 0 < s.pipe) :
    s.callback.waitersCnt < s.waitersCnt := by
  obtain ⟨h1, h2, h3, h4, h5, h6⟩ := h
  have := cbLoop_inv (n := n) s.waitersCnt s ⟨h1, h2, h3, h4, h6⟩
  obtain ⟨_, _, _, _, _, a5⟩ := this
  have := a5 hw hw hp
  unfold St.callback
  simp only
  split <;> (try simp only) <;> omega

theorem SemInv.envTake {n : Nat} {s s' : St} (h : SemInv n s) (e : s.envTake = some s') :
    SemInv n s' ∧ s'.acquired = s.acquired ∧ s'.sem.waiters = s.sem.waiters := by
  obtain ⟨h1, h2, h3, h4, h5, h6⟩ := h
  unfold St.envTake at e
  split at e
  · cases e
    exact ⟨⟨by simp only; omega, by simpa [imp] using h2, h3, h4, h5, h6⟩, rfl, rfl⟩
  · cases e

theorem SemInv.envReturn {n : Nat} {s s' : St} (h : SemInv n s) (e : s.envReturn = some s') :
    SemInv n s' ∧ s'.acquired = s.acquired ∧ s'.sem.waiters = s.sem.waiters := by
  obtain ⟨h1, h2, h3, h4, h5, h6⟩ := h
  unfold St.envReturn at e
  split at e
  · cases e
    exact ⟨⟨by simp only; omega, by simpa [imp] using h2, h3, h4, h5, h6⟩, rfl, rfl⟩
  · cases e

/-- at most `n` owners, plus the implicit slot in recursive mode -/
theorem SemInv.acquired_le {n : Nat} {s : St} (h : SemInv n s) :
    s.acquired ≤ n + (if s.recursive then 1 else 0) := by
  obtain ⟨h1, h2, _⟩ := h
  simp only [imp] at h2
  cases hr : s.recursive <;> simp [hr] at h2 ⊢
  · omega
  · by_cases hp : 0 < s.acquired
    · simp [hp] at h2; omega
    · omega

/-- safety form of "no lost wake-up": a waiter that has not been served implies that the reader
callback of the pipe is registered (so a token arriving in the pipe is noticed) -/
theorem SemInv.no_lost_wakeup {n : Nat} {s : St} (h : SemInv n s) (hw : 0 < notDone s.sem.waiters) :
    s.reader = true := by
  obtain ⟨_, _, h3, _, h5, _⟩ := h
  exact h5.2 (by omega)

end JobSem
