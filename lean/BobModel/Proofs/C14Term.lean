import BobModel.Proofs.C14Validate
/-
Helper lemmas for C14, part 4: termination of the worklist loop of `getReferencedBuildIds`.

The source keeps no `done` set, so an id may be pushed (and popped) once per reference path that leads to it.
The loop still terminates on an acyclic reference graph: give every id the weight

    cost i = 1 + Σ_{r ∈ references of the record of i} cost r        (1 when `i` has no record)

(the number of nodes of the unfolding of the graph below `i`); every iteration replaces `cur` by at most its
references, so the total weight of the worklist drops by at least one.  `cost` is defined with a depth fuel
(`costF`) and read at depth `rank i`; the only facts needed are that it is monotone in the depth and that
`rank` strictly decreases along references.
-/
namespace Audit
open Consts.C14

/-- `Σ_{x ∈ l} f x` -/
def wsum (f : Id → Nat) : List Id → Nat
  | [] => 0
  | x :: t => f x + wsum f t

theorem wsum_append (f : Id → Nat) (s t : List Id) : wsum f (s ++ t) = wsum f s + wsum f t := by
  induction s with
  | nil => simp [wsum]
  | cons x s ih => simp only [List.cons_append, wsum, ih]; omega

theorem wsum_mono {f g : Id → Nat} {l : List Id} (h : ∀ x ∈ l, f x ≤ g x) : wsum f l ≤ wsum g l := by
  induction l with
  | nil => simp [wsum]
  | cons x l ih =>
    have h1 := h x (by simp)
    have h2 := ih (fun y hy => h y (List.mem_cons_of_mem _ hy))
    simp only [wsum]
    omega

theorem wsum_setAdd_le (f : Id → Nat) (s : List Id) (x : Id) : wsum f (setAdd s x) ≤ wsum f s + f x := by
  unfold setAdd
  split
  · omega
  · rw [wsum_append]; simp [wsum]

/-- a set union never weighs more than the two operands together (duplicates are dropped) -/
theorem wsum_setUnion_le (f : Id → Nat) (t : List Id) : ∀ s : List Id, wsum f (setUnion s t) ≤ wsum f s + wsum f t := by
  induction t with
  | nil => intro s; simp [setUnion, wsum]
  | cons x t ih =>
    intro s
    have h1 := ih (setAdd s x)
    have h2 := wsum_setAdd_le f s x
    simp only [setUnion, wsum]
    omega

/-- the size of the unfolding below `i`, cut at depth `n` -/
def costF (refs : List (Id × Artifact)) : Nat → Id → Nat
  | 0, _ => 1
  | n + 1, i => 1 + match lookupRef refs i with
    | none => 0
    | some c => wsum (costF refs n) c.getReferences

theorem costF_pos (refs : List (Id × Artifact)) (n : Nat) (i : Id) : 1 ≤ costF refs n i := by
  cases n <;> simp only [costF] <;> omega

theorem costF_succ_some {refs : List (Id × Artifact)} {i : Id} {c : Artifact} (n : Nat)
    (h : lookupRef refs i = some c) : costF refs (n + 1) i = 1 + wsum (costF refs n) c.getReferences := by
  simp only [costF, h]

theorem costF_mono_succ (refs : List (Id × Artifact)) : ∀ (n : Nat) (i : Id), costF refs n i ≤ costF refs (n + 1) i := by
  intro n
  induction n with
  | zero => intro i; simp only [costF]; omega
  | succ n ih =>
    intro i
    cases hl : lookupRef refs i with
    | none => simp only [costF, hl]; omega
    | some c =>
      rw [costF_succ_some n hl, costF_succ_some (n + 1) hl]
      have := wsum_mono (l := c.getReferences) (fun x _ => ih x)
      omega

theorem costF_mono (refs : List (Id × Artifact)) (i : Id) {n m : Nat} (h : n ≤ m) : costF refs n i ≤ costF refs m i := by
  induction m with
  | zero =>
    have : n = 0 := by omega
    subst this
    exact Nat.le_refl _
  | succ m ih =>
    by_cases hn : n = m + 1
    · subst hn; exact Nat.le_refl _
    · exact Nat.le_trans (ih (by omega)) (costF_mono_succ refs m i)

/-- the reference graph is acyclic: `rank` strictly decreases along references of stored records -/
def Acyclic (refs : List (Id × Artifact)) (rank : Id → Nat) : Prop :=
  ∀ j c i, lookupRef refs j = some c → i ∈ c.getReferences → rank i < rank j

/-- weight of an id: the size of the whole unfolding below it -/
def cost (refs : List (Id × Artifact)) (rank : Id → Nat) (i : Id) : Nat := costF refs (rank i) i

theorem cost_pos (refs : List (Id × Artifact)) (rank : Id → Nat) (i : Id) : 1 ≤ cost refs rank i :=
  costF_pos _ _ _

/-- a record weighs strictly more than all its references together -/
theorem cost_step {refs : List (Id × Artifact)} {rank : Id → Nat} (hr : Acyclic refs rank) {j : Id} {c : Artifact}
    (hl : lookupRef refs j = some c) : 1 + wsum (cost refs rank) c.getReferences ≤ cost refs rank j := by
  unfold cost
  cases hn : rank j with
  | zero =>
    cases hg : c.getReferences with
    | nil => simp only [wsum, costF]; omega
    | cons x t =>
      have := hr j c x hl (by rw [hg]; simp)
      omega
  | succ n =>
    rw [costF_succ_some n hl]
    have := wsum_mono (f := fun i => costF refs (rank i) i) (g := costF refs n) (l := c.getReferences)
      (fun x hx => costF_mono refs x (by have := hr j c x hl hx; omega))
    omega

namespace Audit

/-- **the loop of `getReferencedBuildIds` terminates on an acyclic reference graph**: fuel equal to the weight
of the worklist suffices, whatever the accumulator -/
theorem rbiLoop_fuel {refs : List (Id × Artifact)} {rank : Id → Nat} (hr : Acyclic refs rank) :
    ∀ (fuel : Nat) (wl acc : List Id), wsum (cost refs rank) wl ≤ fuel → rbiLoop refs fuel wl acc ≠ .outOfFuel := by
  intro fuel
  induction fuel with
  | zero =>
    intro wl acc h
    cases wl with
    | nil => simp [rbiLoop]
    | cons cur rest =>
      have := cost_pos refs rank cur
      simp only [wsum] at h
      omega
  | succ fuel ih =>
    intro wl acc h
    cases wl with
    | nil => simp [rbiLoop]
    | cons cur rest =>
      simp only [wsum] at h
      simp only [rbiLoop]
      cases hl : lookupRef refs cur with
      | none => simp
      | some c =>
        simp only
        cases hs : c.step with
        | none => simp
        | some s =>
          simp only
          by_cases hst : s = stopLabel.toList
          · simp only [hst, if_true]
            cases hb : c.buildId with
            | none => simp
            | some bb =>
              simp only
              have := cost_pos refs rank cur
              exact ih _ _ (by omega)
          · simp only [hst, if_false]
            have h1 := cost_step hr hl
            have h2 := wsum_setUnion_le (cost refs rank) c.getReferences rest
            exact ih _ _ (by omega)

/-- the fuel that suffices for `getReferencedBuildIds` -/
def rbiFuel (a : Audit) (rank : Id → Nat) : Nat := wsum (cost a.references rank) a.artifact.getReferences

theorem getReferencedBuildIds_fuel {a : Audit} {rank : Id → Nat} (hr : Acyclic a.references rank) {fuel : Nat}
    (hf : rbiFuel a rank ≤ fuel) : getReferencedBuildIds fuel a ≠ .outOfFuel := by
  unfold getReferencedBuildIds
  have := rbiLoop_fuel hr fuel a.artifact.getReferences [] hf
  cases hres : rbiLoop a.references fuel a.artifact.getReferences [] with
  | ok ids => simp
  | keyError => simp
  | outOfFuel => exact absurd hres this

/-! ### closed and labelled trails are not broken -/

/-- every stored record carries a step label, and the stop (`dist`) records a decodable build-id -/
def Labelled (a : Audit) : Prop :=
  ∀ p ∈ a.references, ∃ s, p.2.step = some s ∧ (s = stopLabel.toList → ∃ b, p.2.buildId = some b)

theorem path_reach {a : Audit} {s j : Id} (hs : Reach a s) (hp : Path a.references s j) : Reach a j := by
  induction hp with
  | refl => exact hs
  | step _ hl _ hm ih => exact Reach.step ih hl hm

theorem not_broken_of_closed_labelled {a : Audit} (hc : Closed a) (hlab : Labelled a) :
    ¬ Broken a.references a.artifact.getReferences := by
  rintro ⟨s, hs, j, hp, hbr⟩
  have hreach : Reach a j := path_reach (Reach.base hs) hp
  rcases hbr with hnone | ⟨c, hl, hbad⟩
  · exact lookupRef_eq_none_iff.1 hnone (hc j hreach)
  · obtain ⟨st, hst, hbid⟩ := hlab (j, c) (lookupRef_mem hl)
    rcases hbad with h | ⟨h1, h2⟩
    · simp only at hst
      rw [h] at hst
      cases hst
    · simp only at hst hbid
      rw [h1] at hst
      cases hst
      obtain ⟨b, hb⟩ := hbid rfl
      rw [h2] at hb
      cases hb

/-! ### a concrete three-record DAG (non-vacuity of the termination and total-correctness theorems)

`pkg → [3, 1]`, `1 → [2]`, `2 → [3]`, `3` is the `dist` record: id `3` is popped twice (4 pops for 3 records),
which is the revisiting the source's loop without a `done` set does. -/

def exRec (step : String) (args : List Id) : Artifact :=
  { other := [("meta".toList, .map [("step".toList, .str step.toList)]), ("build-id".toList, .str "ab".toList)],
    args := some args, tools := none, sandbox := none, cachedId := none }

def exAudit : Audit :=
  { artifact := exRec "package" [[3], [1]],
    references := [([1], exRec "package" [[2]]), ([2], exRec "build" [[3]]), ([3], exRec "dist" [])] }

def exRank : Id → Nat
  | [1] => 2
  | [2] => 1
  | _ => 0

theorem exAudit_labelled : Labelled exAudit := by
  intro p hp
  simp only [exAudit, List.mem_cons, List.not_mem_nil, or_false] at hp
  rcases hp with rfl | rfl | rfl
  · exact ⟨"package".toList, by decide, fun h => absurd h (by decide)⟩
  · exact ⟨"build".toList, by decide, fun h => absurd h (by decide)⟩
  · exact ⟨"dist".toList, by decide, fun _ => ⟨[0xab], by decide⟩⟩

theorem exAudit_acyclic : Acyclic exAudit.references exRank := by
  intro j c i hl hi
  simp only [exAudit, lookupRef] at hl
  split at hl
  · cases hl; rename_i h; subst h; revert i; decide
  · split at hl
    · cases hl; rename_i h; subst h; revert i; decide
    · split at hl
      · cases hl; rename_i h; subst h; revert i; decide
      · cases hl

end Audit

end Audit
