import BobModel.Proofs.C12Git
/-
The executable command instance `modelOps` (the one the harness compares with git 2.39)
satisfies `GitContract`, provided the upstream repositories only offer upstream commits.
-/
namespace GitSwitch

/-- every ref offered by an upstream repository names an upstream commit -/
def UnivUp (U : Commit → Prop) (univ : List (String × Upstream)) : Prop :=
  ∀ u up, (u, up) ∈ univ → (∀ n c, (n, c) ∈ up.branches → ¬ U c) ∧ (∀ n c, (n, c) ∈ up.tags → ¬ U c)

variable {D : Dag} {U : Commit → Prop}

theorem mFetch_shape (univ : List (String × Upstream)) (t : Option Name) (r r' : Repo)
    (h : mFetch D univ t r = .ok r') :
    r'.heads = r.heads ∧ r'.head = r.head ∧ r'.dirty = r.dirty ∧ r'.untracked = r.untracked ∧ r'.url = r.url ∧
    ∃ u up, (u, up) ∈ univ ∧ r'.remotes = up.branches ∧
      ∀ n c, (n, c) ∈ r'.tags → (n, c) ∈ r.tags ∨ (n, c) ∈ up.tags := by
  unfold mFetch at h
  cases hu : r.url with
  | none => simp [hu] at h
  | some u =>
    simp only [hu] at h
    cases hup : assoc univ u with
    | none => simp [hup] at h
    | some up =>
      simp only [hup] at h
      have hmem : (u, up) ∈ univ := assoc_mem _ _ _ hup
      have hfollow : ∀ n c, (n, c) ∈ r.tags ++ List.filter
          (fun x => (assoc r.tags x.1).isNone &&
            (closure D (D.fuel * D.fuel + up.branches.length + 1) (List.map (fun x => x.2) up.branches) r.objs).contains x.2)
          up.tags → (n, c) ∈ r.tags ∨ (n, c) ∈ up.tags := by
        intro n c hm
        rw [List.mem_append] at hm
        rcases hm with hm | hm
        · exact Or.inl hm
        · exact Or.inr (List.mem_filter.mp hm).1
      cases t with
      | none =>
        simp only [Except.ok.injEq] at h
        subst h
        exact ⟨rfl, rfl, rfl, rfl, hu.symm ▸ rfl, u, up, hmem, rfl, hfollow⟩
      | some tg =>
        simp only at h
        cases htu : assoc up.tags tg with
        | none => simp [htu] at h
        | some c =>
          simp only [htu] at h
          cases htl : assoc r.tags tg with
          | some c' =>
            simp only [htl] at h
            split at h
            · simp only [Except.ok.injEq] at h
              subst h
              exact ⟨rfl, rfl, rfl, rfl, hu.symm ▸ rfl, u, up, hmem, rfl, hfollow⟩
            · cases h
          | none =>
            simp only [htl, Except.ok.injEq] at h
            subst h
            refine ⟨rfl, rfl, rfl, rfl, hu.symm ▸ rfl, u, up, hmem, rfl, ?_⟩
            intro n c' hm
            simp only at hm
            split at hm
            · exact hfollow n c' hm
            · rw [List.mem_append] at hm
              rcases hm with hm | hm
              · exact hfollow n c' hm
              · simp only [List.mem_singleton, Prod.mk.injEq] at hm
                obtain ⟨h1, h2⟩ := hm
                subst h1; subst h2
                exact Or.inr (assoc_mem _ _ _ htu)

theorem modelOps_contract (univ : List (String × Upstream)) (hu : UnivUp U univ) :
    GitContract D U (modelOps D univ) where
  fetch_local := by
    intro t r r' h
    obtain ⟨h1, h2, h3, h4, h5, _⟩ := mFetch_shape univ t r r' h
    exact ⟨h1, h2, ⟨h3, h4⟩, h5⟩
  fetch_upstream := by
    intro t r r' h hr
    obtain ⟨_, _, _, _, _, u, up, hm, hrem, htags⟩ := mFetch_shape univ t r r' h
    constructor
    · intro n c hc
      rw [hrem] at hc
      exact (hu u up hm).1 n c hc
    · intro n c hc
      rcases htags n c hc with h1 | h1
      · exact hr.2 n c h1
      · exact (hu u up hm).2 n c h1
  detach := by
    intro c r r' h
    simp only [modelOps, mCheckoutDetach] at h
    split at h
    · simp only [Except.ok.injEq] at h; subst h
      exact ⟨rfl, rfl, ⟨rfl, rfl⟩, rfl, rfl⟩
    · cases h
  branch := by
    intro n r r' h
    simp only [modelOps, mCheckoutBranch] at h
    cases hn : assoc r.heads n with
    | none => simp [hn] at h
    | some c =>
      simp only [hn] at h
      split at h
      · simp only [Except.ok.injEq] at h; subst h
        exact ⟨rfl, rfl, ⟨rfl, rfl⟩, rfl, rfl⟩
      · cases h
  new := by
    intro n c r r' h
    simp only [modelOps, mCheckoutNew] at h
    split at h
    · rename_i hcond
      simp only [Bool.and_eq_true, Option.isNone_iff_eq_none] at hcond
      simp only [Except.ok.injEq] at h; subst h
      refine ⟨hcond.1.1, ?_, ?_, rfl, ⟨rfl, rfl⟩, rfl, rfl⟩
      · intro m hm
        exact assoc_append_none _ _ _ _ hm
      · exact assoc_append_new _ _ _ hcond.1.1
    · cases h
  mergeFF := by
    intro n r r' h
    simp only [modelOps, mMergeFF] at h
    cases hrem : assoc r.remotes n with
    | none => simp [hrem] at h
    | some t' =>
      cases hhc : r.headCommit with
      | none => simp [hrem, hhc] at h
      | some hcm =>
        simp only [hrem, hhc] at h
        split at h
        · simp only [Except.ok.injEq] at h; subst h
          exact ⟨rfl, ⟨rfl, rfl⟩, rfl, rfl, Or.inl rfl⟩
        · split at h
          · rename_i hcond
            simp only [Bool.and_eq_true] at hcond
            cases hhead : r.head with
            | detached d => simp [hhead] at h
            | branch b =>
              simp only [hhead, Except.ok.injEq] at h; subst h
              refine ⟨by simp, ⟨rfl, rfl⟩, rfl, rfl, Or.inr ⟨b, hcm, t', by simp, ?_, ?_, ?_, ?_⟩⟩
              · simpa [Repo.headCommit, hhead] using hhc
              · exact reachB_sound D _ t' hcm hcond.1
              · exact assoc_setAssoc_same _ _ _
              · intro m hm
                exact assoc_setAssoc_other _ _ _ _ hm
          · cases h
  reset := by
    intro c r r' h
    simp only [modelOps, mResetKeep] at h
    split at h
    · cases hhead : r.head with
      | detached d =>
        simp only [hhead, Except.ok.injEq] at h; subst h
        exact ⟨⟨rfl, rfl⟩, rfl, rfl, Or.inr ⟨d, by simp, rfl, rfl⟩⟩
      | branch b =>
        simp only [hhead] at h
        split at h
        · simp only [Except.ok.injEq] at h; subst h
          refine ⟨⟨rfl, rfl⟩, rfl, rfl, Or.inl ⟨b, by simp, by simp, assoc_setAssoc_same _ _ _, ?_⟩⟩
          intro m hm
          exact assoc_setAssoc_other _ _ _ _ hm
        · cases h
    · cases h
  contains_sound := by
    intro r x h hx hh
    simp only [modelOps, mContains, hh] at hx
    rw [List.mem_append] at hx
    rcases hx with hx | hx
    · rw [List.mem_map] at hx
      obtain ⟨⟨n, t⟩, hm, he⟩ := hx
      simp only at he; subst he
      have := (List.mem_filter.mp hm).2
      simp only [Bool.and_eq_true, beq_iff_eq] at this
      exact Or.inl ⟨t, this.1, reachB_sound D _ t h this.2⟩
    · rw [List.mem_map] at hx
      obtain ⟨⟨n, t⟩, hm, _⟩ := hx
      have := (List.mem_filter.mp hm).2
      simp only [Bool.and_eq_true, beq_iff_eq] at this
      exact Or.inr ⟨n, t, this.1, reachB_sound D _ t h this.2⟩
  ancestor_sound := by
    intro a c h
    exact reachB_sound D _ a c h

end GitSwitch
