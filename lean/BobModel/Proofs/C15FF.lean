import BobModel.Proofs.C15Acc
/-
C15: the invariant of the patched code (flush before unlock) on a store whose repo.json exists:
no spurious failure, repo.json = installed packages.
-/
namespace Share

local notation "fx" => (Cfg.mk true true true true)

/-- repo.json as the fixed code reads it: a missing or empty file is an empty repository -/
def logicalOf : RepoFile → List (Bid × Nat)
  | .valid l => l
  | _ => []

theorem readRepo_fx {r : RepoFile} (h : r ≠ .absent) : readRepo fx r = some (logicalOf r) := by
  cases r <;> first | rfl | exact absurd rfl h

/-- the invariant of the fixed code; `L` is the logical content of repo.json (what a reader under the lock gets from
the disk - nothing if the file is missing or empty -, or what the moving gc holds while the file is rewritten) -/
structure InvFF (s : St) (L : List (Bid × Nat)) : Prop where
  mutex : Mutex s
  pcs : ∀ (i : Nat) (pi : Proc), s.procs[i]? = some pi → PcFF pi.pc ∧ GcWf pi.pc ∧ TmpOk pi.prog pi.pc
  repoOk : (logicalOf s.g.repo = L ∧ ∀ (i : Nat) (pi : Proc) (rm : List (Bid × Nat)), s.procs[i]? = some pi →
              pi.pc.rmeta = some rm → rm = L ∧ pi.pc.dirty = false)
         ∨ (s.g.repo = .torn ∧ ∃ (i : Nat) (pi : Proc), s.procs[i]? = some pi ∧ pi.pc.rmeta = some L ∧ pi.pc.dirty = true)
  nodup : (keys L).Nodup
  recorded : ∀ b sz, (b, sz) ∈ L → ∃ d m, s.g.final b = some d ∧ d.info = some (.valid m) ∧ m.size = sz
  pkgs : ∀ b d, s.g.final b = some d → ∃ m, d.info = some (.valid m) ∧
           ((b, m.size) ∈ L ∨ ∃ (i : Nat) (pi : Proc), s.procs[i]? = some pi ∧ pi.pc.inWindow = true ∧ opBid pi.prog = b)
  window : ∀ (i : Nat) (pi : Proc), s.procs[i]? = some pi → pi.pc.inWindow = true →
           opBid pi.prog ∉ keys L ∧
           ∃ d m, s.g.final (opBid pi.prog) = some d ∧ d.info = some (.valid m) ∧ m.size = opSize pi.prog
  uniq : ∀ (i j : Nat) (pi pj : Proc), s.procs[i]? = some pi → s.procs[j]? = some pj → pi.pc.inWindow = true →
           pj.pc.inWindow = true → opBid pi.prog = opBid pj.prog → i = j

theorem set_get_self {α : Type} {l : List α} {p : Nat} {x a : α} (h : l[p]? = some x) : (l.set p a)[p]? = some a := by
  have hl : p < l.length := by
    rcases Nat.lt_or_ge p l.length with hl | hl
    · exact hl
    · rw [List.getElem?_eq_none hl] at h; cases h
  exact List.getElem?_set_self hl

theorem set_get_other {α : Type} {l : List α} {p i : Nat} {a x : α} (hne : i ≠ p) (h : l[i]? = some x) :
    (l.set p a)[i]? = some x := by
  rw [List.getElem?_set_ne (fun e => hne e.symm)]; exact h

/-- a segment that does not touch repo.json, changes packages only through `use`, and neither enters nor leaves the
exclusive section or the window -/
theorem invFF_silent (s : St) (L : List (Bid × Nat)) (p : Nat) (pr : Proc) (g' : Store) (pc' : Pc) (pub' : Bool)
    (inv : InvFF s L) (hpr : s.procs[p]? = some pr)
    (hmx : Mutex ⟨g', s.procs.set p { pr with pc := pc', pub := pub' }⟩)
    (hrepo : g'.repo = s.g.repo ∨ (s.g.repo = .absent ∧ g'.repo = .torn)) (hfin : FinalQuiet s.g g')
    (hrm : pr.pc.rmeta = none) (hrm' : pc'.rmeta = none) (hwin : pc'.inWindow = pr.pc.inWindow)
    (hpcs : PcFF pc' ∧ GcWf pc' ∧ TmpOk pr.prog pc') :
    InvFF ⟨g', s.procs.set p { pr with pc := pc', pub := pub' }⟩ L := by
  -- every process of the new state is an old one with the same program and the same window status
  have hold : ∀ (i : Nat) (pi : Proc), (s.procs.set p { pr with pc := pc', pub := pub' })[i]? = some pi →
      ∃ po, s.procs[i]? = some po ∧ po.prog = pi.prog ∧ po.pc.inWindow = pi.pc.inWindow ∧
        (i ≠ p → po = pi) ∧ (i = p → pi.pc = pc') := by
    intro i pi hi
    rcases getElem?_set_cases hi with ⟨rfl, rfl, _⟩ | ⟨hne, hi'⟩
    · exact ⟨pr, hpr, rfl, hwin.symm, fun h => absurd rfl h, fun _ => rfl⟩
    · exact ⟨pi, hi', rfl, rfl, fun _ => rfl, fun h => absurd h hne⟩
  have hnew : ∀ (i : Nat) (po : Proc), s.procs[i]? = some po →
      ∃ pi, (s.procs.set p { pr with pc := pc', pub := pub' })[i]? = some pi ∧ po.prog = pi.prog ∧
        po.pc.inWindow = pi.pc.inWindow := by
    intro i po hi
    by_cases e : i = p
    · subst e
      rw [hpr] at hi; cases hi
      exact ⟨_, set_get_self hpr, rfl, hwin.symm⟩
    · exact ⟨po, set_get_other e hi, rfl, rfl⟩
  refine ⟨hmx, ?_, ?_, inv.nodup, ?_, ?_, ?_, ?_⟩
  · intro i pi hi
    rcases getElem?_set_cases hi with ⟨rfl, rfl, _⟩ | ⟨_, hi'⟩
    · exact hpcs
    · exact inv.pcs i pi hi'
  · rcases inv.repoOk with ⟨hv, hall⟩ | ⟨ht, i, pi, hi, hrmi, hdi⟩
    · left
      refine ⟨?_, ?_⟩
      · rcases hrepo with h | ⟨h1, h2⟩
        · rw [h]; exact hv
        · rw [h2]; rw [h1] at hv; exact hv
      intro i pi rm hi hr
      rcases getElem?_set_cases hi with ⟨rfl, rfl, _⟩ | ⟨_, hi'⟩
      · simp only at hr; rw [hrm'] at hr; cases hr
      · exact hall i pi rm hi' hr
    · right
      have hrepo' : g'.repo = s.g.repo := by
        rcases hrepo with h | ⟨h1, _⟩
        · exact h
        · rw [ht] at h1; cases h1
      refine ⟨by rw [hrepo']; exact ht, i, pi, ?_, hrmi, hdi⟩
      have : i ≠ p := by
        intro e; subst e
        rw [hpr] at hi; cases hi
        rw [hrm] at hrmi; cases hrmi
      exact set_get_other this hi
  · intro b sz hb
    obtain ⟨d, m, hd, hm, hs⟩ := inv.recorded b sz hb
    obtain ⟨d', m', h1, h2, h3⟩ := finalQuiet_fwd hfin hd hm
    exact ⟨d', m', h1, h2, by rw [h3]; exact hs⟩
  · intro b d' hd'
    obtain ⟨d, hd, hinfo⟩ := finalQuiet_rev hfin hd'
    obtain ⟨m, hm, hor⟩ := inv.pkgs b d hd
    obtain ⟨m', hm', hs⟩ := hinfo m hm
    refine ⟨m', hm', ?_⟩
    rcases hor with h | ⟨i, po, hi, hw, hb⟩
    · left; rw [hs]; exact h
    · right
      obtain ⟨pi, hpi, hprog, hwi⟩ := hnew i po hi
      exact ⟨i, pi, hpi, by rw [← hwi]; exact hw, by rw [← hprog]; exact hb⟩
  · intro i pi hi hw
    obtain ⟨po, hpo, hprog, hwo, _, _⟩ := hold i pi hi
    obtain ⟨h1, d, m, hd, hm, hs⟩ := inv.window i po hpo (by rw [hwo]; exact hw)
    rw [hprog] at h1 hd hs
    obtain ⟨d', m', h2, h3, h4⟩ := finalQuiet_fwd hfin hd hm
    exact ⟨h1, d', m', h2, h3, by rw [h4]; exact hs⟩
  · intro i j pi pj hi hj hwi hwj hb
    obtain ⟨poi, hpoi, hprogi, hwoi, _, _⟩ := hold i pi hi
    obtain ⟨poj, hpoj, hprogj, hwoj, _, _⟩ := hold j pj hj
    exact inv.uniq i j poi poj hpoi hpoj (by rw [hwoi]; exact hwi) (by rw [hwoj]; exact hwj)
      (by rw [hprogi, hprogj]; exact hb)

theorem mem_keys_of_mem {l : List (Bid × Nat)} {b sz : Nat} (h : (b, sz) ∈ l) : b ∈ keys l :=
  List.mem_map.mpr ⟨(b, sz), h, rfl⟩

theorem exists_of_mem_keys {l : List (Bid × Nat)} {b : Nat} (h : b ∈ keys l) : ∃ sz, (b, sz) ∈ l := by
  obtain ⟨⟨k, v⟩, hm, rfl⟩ := List.mem_map.mp h
  exact ⟨v, hm⟩

/-- the publishing rename -/
theorem invFF_publish (s : St) (L : List (Bid × Nat)) (p : Nat) (pr : Proc) (tmp : PkgDir) (g' : Store) (pub' : Bool)
    (inv : InvFF s L) (hpr : s.procs[p]? = some pr) (hpc : pr.pc = .iRename tmp)
    (hnone : s.g.final (opBid pr.prog) = none)
    (hfin : g'.final = upd s.g.final (opBid pr.prog) (some tmp)) (hrepo : g'.repo = s.g.repo)
    (hmx : Mutex ⟨g', s.procs.set p { pr with pc := .iAddOpen, pub := pub' }⟩) :
    InvFF ⟨g', s.procs.set p { pr with pc := .iAddOpen, pub := pub' }⟩ L := by
  have htmp : TmpOk pr.prog (.iRename tmp) := by have := (inv.pcs p pr hpr).2.2; rw [hpc] at this; exact this
  obtain ⟨mt, hmt, hsz⟩ := htmp
  have hnw : pr.pc.inWindow = false := by rw [hpc]; rfl
  have hself := set_get_self (a := { pr with pc := Pc.iAddOpen, pub := pub' }) hpr
  have hbL : opBid pr.prog ∉ keys L := by
    intro hk
    obtain ⟨sz, hm⟩ := exists_of_mem_keys hk
    obtain ⟨d, _, hd, _⟩ := inv.recorded _ _ hm
    rw [hnone] at hd; cases hd
  have hother : ∀ b, b ≠ opBid pr.prog → g'.final b = s.g.final b := by
    intro b hb; rw [hfin]; simp [upd, hb]
  have hpres : ∀ b d, s.g.final b = some d → g'.final b = some d := by
    intro b d hd
    have : b ≠ opBid pr.prog := by intro e; rw [e, hnone] at hd; cases hd
    rw [hother b this]; exact hd
  refine ⟨hmx, ?_, ?_, inv.nodup, ?_, ?_, ?_, ?_⟩
  · intro i pi hi
    rcases getElem?_set_cases hi with ⟨rfl, rfl, _⟩ | ⟨_, hi'⟩
    · exact ⟨trivial, trivial, trivial⟩
    · exact inv.pcs i pi hi'
  · rcases inv.repoOk with ⟨hv, hall⟩ | ⟨ht, i, pi, hi, hrmi, hdi⟩
    · left
      refine ⟨by rw [hrepo]; exact hv, ?_⟩
      intro i pi rm hi hr
      rcases getElem?_set_cases hi with ⟨rfl, rfl, _⟩ | ⟨_, hi'⟩
      · simp [Pc.rmeta] at hr
      · exact hall i pi rm hi' hr
    · right
      refine ⟨by rw [hrepo]; exact ht, i, pi, ?_, hrmi, hdi⟩
      have : i ≠ p := by
        intro e; subst e
        rw [hpr] at hi; cases hi
        rw [hpc] at hrmi; simp [Pc.rmeta] at hrmi
      exact set_get_other this hi
  · intro b sz hb
    obtain ⟨d, m, hd, hm, hs⟩ := inv.recorded b sz hb
    exact ⟨d, m, hpres b d hd, hm, hs⟩
  · intro b d' hd'
    by_cases e : b = opBid pr.prog
    · subst e
      rw [hfin] at hd'
      simp [upd] at hd'
      subst hd'
      exact ⟨mt, hmt, Or.inr ⟨p, _, hself, rfl, rfl⟩⟩
    · rw [hother b e] at hd'
      obtain ⟨m, hm, hor⟩ := inv.pkgs b d' hd'
      refine ⟨m, hm, ?_⟩
      rcases hor with h | ⟨i, po, hi, hw, hb⟩
      · exact Or.inl h
      · right
        have : i ≠ p := by
          intro e'; subst e'
          rw [hpr] at hi; cases hi
          rw [hnw] at hw; cases hw
        exact ⟨i, po, set_get_other this hi, hw, hb⟩
  · intro i pi hi hw
    rcases getElem?_set_cases hi with ⟨rfl, rfl, _⟩ | ⟨_, hi'⟩
    · refine ⟨hbL, tmp, mt, ?_, hmt, hsz⟩
      rw [hfin]; simp [upd]
    · obtain ⟨h1, d, m, hd, hm, hs⟩ := inv.window i pi hi' hw
      exact ⟨h1, d, m, hpres _ d hd, hm, hs⟩
  · intro i j pi pj hi hj hwi hwj hb
    rcases getElem?_set_cases hi with ⟨rfl, rfl, _⟩ | ⟨hip, hi'⟩ <;>
      rcases getElem?_set_cases hj with ⟨rfl, rfl, _⟩ | ⟨hjp, hj'⟩
    · rfl
    · exfalso
      obtain ⟨_, d, _, hd, _⟩ := inv.window j pj hj' hwj
      simp only at hb
      rw [← hb, hnone] at hd; cases hd
    · exfalso
      obtain ⟨_, d, _, hd, _⟩ := inv.window i pi hi' hwi
      simp only at hb
      rw [hb, hnone] at hd; cases hd
    · exact inv.uniq i j pi pj hi' hj' hwi hwj hb

/-- `__addPackage` under the exclusive lock -/
theorem invFF_add (s : St) (L : List (Bid × Nat)) (p : Nat) (pr : Proc) (g' : Store) (pc' : Pc) (pub' : Bool)
    (inv : InvFF s L) (hpr : s.procs[p]? = some pr) (hpc : pr.pc = .iAddLock)
    (hnoEX : ∀ (i : Nat) (pi : Proc), s.procs[i]? = some pi → i ≠ p → pi.pc.holdsEX = false)
    (hfin : g'.final = s.g.final)
    (hna : s.g.repo ≠ .absent)
    (hrepo : ∀ l, readRepo fx s.g.repo = some l → g'.repo = .valid (setPkg l (opBid pr.prog) (opSize pr.prog)))
    (hpc' : PcFF pc' ∧ GcWf pc' ∧ TmpOk pr.prog pc') (hrm' : pc'.rmeta = none) (hw' : pc'.inWindow = false)
    (hmx : Mutex ⟨g', s.procs.set p { pr with pc := pc', pub := pub' }⟩) :
    InvFF ⟨g', s.procs.set p { pr with pc := pc', pub := pub' }⟩ (setPkg L (opBid pr.prog) (opSize pr.prog)) := by
  have hwp : pr.pc.inWindow = true := by rw [hpc]; rfl
  obtain ⟨hbL, d0, m0, hd0, hm0, hs0⟩ := inv.window p pr hpr hwp
  have hvalid : readRepo fx s.g.repo = some L := by
    rw [readRepo_fx hna]
    rcases inv.repoOk with ⟨hv, _⟩ | ⟨_, i, pi, hi, hrmi, _⟩
    · rw [hv]
    · exfalso
      have hex := Pc.holdsEX_of_rmeta hrmi
      have : i ≠ p := by
        intro e; subst e
        rw [hpr] at hi; cases hi
        rw [hpc] at hex; cases hex
      rw [hnoEX i pi hi this] at hex; cases hex
  refine ⟨hmx, ?_, ?_, nodup_setPkg L _ _ inv.nodup, ?_, ?_, ?_, ?_⟩
  · intro i pi hi
    rcases getElem?_set_cases hi with ⟨rfl, rfl, _⟩ | ⟨_, hi'⟩
    · exact hpc'
    · exact inv.pcs i pi hi'
  · left
    refine ⟨by rw [hrepo L hvalid]; rfl, ?_⟩
    intro i pi rm hi hr
    rcases getElem?_set_cases hi with ⟨rfl, rfl, _⟩ | ⟨hip, hi'⟩
    · simp only at hr; rw [hrm'] at hr; cases hr
    · have := Pc.holdsEX_of_rmeta hr
      rw [hnoEX i pi hi' hip] at this; cases this
  · intro b sz hb
    rw [hfin]
    rcases (mem_setPkg L _ _ inv.nodup b sz).mp hb with ⟨rfl, rfl⟩ | ⟨_, hm⟩
    · exact ⟨d0, m0, hd0, hm0, hs0⟩
    · exact inv.recorded b sz hm
  · intro b d hd
    rw [hfin] at hd
    obtain ⟨m, hm, hor⟩ := inv.pkgs b d hd
    refine ⟨m, hm, ?_⟩
    rcases hor with h | ⟨i, po, hi, hw, hb⟩
    · left
      refine (mem_setPkg L _ _ inv.nodup b m.size).mpr (Or.inr ⟨?_, h⟩)
      intro e; subst e; exact hbL (mem_keys_of_mem h)
    · by_cases e : i = p
      · subst e
        rw [hpr] at hi; cases hi
        left
        subst hb
        rw [hd0] at hd; cases hd
        rw [hm0] at hm; cases hm
        exact (mem_setPkg L _ _ inv.nodup _ _).mpr (Or.inl ⟨rfl, hs0⟩)
      · right; exact ⟨i, po, set_get_other e hi, hw, hb⟩
  · intro i pi hi hw
    rcases getElem?_set_cases hi with ⟨rfl, rfl, _⟩ | ⟨hip, hi'⟩
    · simp only at hw; rw [hw'] at hw; cases hw
    · obtain ⟨h1, d, m, hd, hm, hs⟩ := inv.window i pi hi' hw
      refine ⟨?_, d, m, by rw [hfin]; exact hd, hm, hs⟩
      intro hk
      rcases (keys_setPkg_mem L _ _ _).mp hk with e | hk'
      · exact hip (inv.uniq i p pi pr hi' hpr hw hwp e)
      · exact h1 hk'
  · intro i j pi pj hi hj hwi hwj hb
    rcases getElem?_set_cases hi with ⟨rfl, rfl, _⟩ | ⟨_, hi'⟩
    · simp only at hwi; rw [hw'] at hwi; cases hwi
    · rcases getElem?_set_cases hj with ⟨rfl, rfl, _⟩ | ⟨_, hj'⟩
      · simp only at hwj; rw [hw'] at hwj; cases hwj
      · exact inv.uniq i j pi pj hi' hj' hwi hwj hb

/-- a gc segment that changes no package: taking the lock, scanning, leaving the exclusive section (restoring
repo.json if it was being rewritten) -/
theorem invFF_gc_quiet (s : St) (L : List (Bid × Nat)) (p : Nat) (pr : Proc) (g' : Store) (pc' : Pc) (pub' : Bool)
    (inv : InvFF s L) (hpr : s.procs[p]? = some pr)
    (hfin : g'.final = s.g.final) (hrepo : logicalOf g'.repo = L)
    (hothers : ∀ (i : Nat) (pi : Proc) (rm : List (Bid × Nat)), i ≠ p → s.procs[i]? = some pi → pi.pc.rmeta = some rm →
      rm = L ∧ pi.pc.dirty = false)
    (hrm' : ∀ rm, pc'.rmeta = some rm → rm = L ∧ pc'.dirty = false)
    (hw : pr.pc.inWindow = false) (hw' : pc'.inWindow = false)
    (hpc' : PcFF pc' ∧ GcWf pc' ∧ TmpOk pr.prog pc')
    (hmx : Mutex ⟨g', s.procs.set p { pr with pc := pc', pub := pub' }⟩) :
    InvFF ⟨g', s.procs.set p { pr with pc := pc', pub := pub' }⟩ L := by
  refine ⟨hmx, ?_, ?_, inv.nodup, ?_, ?_, ?_, ?_⟩
  · intro i pi hi
    rcases getElem?_set_cases hi with ⟨rfl, rfl, _⟩ | ⟨_, hi'⟩
    · exact hpc'
    · exact inv.pcs i pi hi'
  · left
    refine ⟨hrepo, ?_⟩
    intro i pi rm hi hr
    rcases getElem?_set_cases hi with ⟨rfl, rfl, _⟩ | ⟨hip, hi'⟩
    · exact hrm' rm hr
    · exact hothers i pi rm hip hi' hr
  · intro b sz hb
    rw [hfin]; exact inv.recorded b sz hb
  · intro b d hd
    rw [hfin] at hd
    obtain ⟨m, hm, hor⟩ := inv.pkgs b d hd
    refine ⟨m, hm, ?_⟩
    rcases hor with h | ⟨i, po, hi, hwi, hb⟩
    · exact Or.inl h
    · right
      have : i ≠ p := by
        intro e; subst e
        rw [hpr] at hi; cases hi
        rw [hw] at hwi; cases hwi
      exact ⟨i, po, set_get_other this hi, hwi, hb⟩
  · intro i pi hi hwi
    rcases getElem?_set_cases hi with ⟨rfl, rfl, _⟩ | ⟨_, hi'⟩
    · simp only at hwi; rw [hw'] at hwi; cases hwi
    · rw [hfin]; exact inv.window i pi hi' hwi
  · intro i j pi pj hi hj hwi hwj hb
    rcases getElem?_set_cases hi with ⟨rfl, rfl, _⟩ | ⟨_, hi'⟩
    · simp only at hwi; rw [hw'] at hwi; cases hwi
    · rcases getElem?_set_cases hj with ⟨rfl, rfl, _⟩ | ⟨_, hj'⟩
      · simp only at hwj; rw [hw'] at hwj; cases hwj
      · exact inv.uniq i j pi pj hi' hj' hwi hwj hb

/-- the collecting rename: the package leaves its final path and the in-memory repo.json together -/
theorem invFF_move (s : St) (L : List (Bid × Nat)) (p : Nat) (pr : Proc) (g' : Store) (pc' : Pc) (pub' : Bool) (cb : Bid)
    (inv : InvFF s L) (hpr : s.procs[p]? = some pr) (hex : pr.pc.holdsEX = true)
    (hcb : cb ∈ keys L)
    (hfin : g'.final = upd s.g.final cb none)
    (hrepo : (g'.repo = .valid (erasePkg L cb) ∧ pc'.rmeta = none) ∨
             (g'.repo = .torn ∧ pc'.rmeta = some (erasePkg L cb) ∧ pc'.dirty = true))
    (hw' : pc'.inWindow = false)
    (hpc' : PcFF pc' ∧ GcWf pc' ∧ TmpOk pr.prog pc')
    (hmx : Mutex ⟨g', s.procs.set p { pr with pc := pc', pub := pub' }⟩) :
    InvFF ⟨g', s.procs.set p { pr with pc := pc', pub := pub' }⟩ (erasePkg L cb) := by
  have hw : pr.pc.inWindow = false := by
    cases hq : pr.pc <;> first | rfl | (rw [hq] at hex; cases hex)
  have hnoOther : ∀ (i : Nat) (pi : Proc) (rm : List (Bid × Nat)), i ≠ p → s.procs[i]? = some pi →
      pi.pc.rmeta = some rm → False := by
    intro i pi rm hip hi hr
    exact hip (inv.mutex p i pr pi hpr hi hex (Or.inl (Pc.holdsEX_of_rmeta hr))).symm
  have hself := set_get_self (a := { pr with pc := pc', pub := pub' }) hpr
  refine ⟨hmx, ?_, ?_, nodup_erasePkg L cb inv.nodup, ?_, ?_, ?_, ?_⟩
  · intro i pi hi
    rcases getElem?_set_cases hi with ⟨rfl, rfl, _⟩ | ⟨_, hi'⟩
    · exact hpc'
    · exact inv.pcs i pi hi'
  · rcases hrepo with ⟨hv, hn⟩ | ⟨ht, hr, hd⟩
    · left
      refine ⟨by rw [hv]; rfl, ?_⟩
      intro i pi rm hi hr
      rcases getElem?_set_cases hi with ⟨rfl, rfl, _⟩ | ⟨hip, hi'⟩
      · simp only at hr; rw [hn] at hr; cases hr
      · exact absurd hr (fun h => hnoOther i pi rm hip hi' h)
    · right
      exact ⟨ht, p, _, hself, hr, hd⟩
  · intro b sz hb
    obtain ⟨hne, hm⟩ := (mem_erasePkg L cb inv.nodup b sz).mp hb
    obtain ⟨d, m, hd, hmm, hs⟩ := inv.recorded b sz hm
    exact ⟨d, m, by rw [hfin]; simp [upd, hne]; exact hd, hmm, hs⟩
  · intro b d hd
    have hne : b ≠ cb := by
      intro e; subst e; rw [hfin] at hd; simp [upd] at hd
    rw [hfin] at hd
    simp [upd, hne] at hd
    obtain ⟨m, hm, hor⟩ := inv.pkgs b d hd
    refine ⟨m, hm, ?_⟩
    rcases hor with h | ⟨i, po, hi, hwi, hb⟩
    · exact Or.inl ((mem_erasePkg L cb inv.nodup b m.size).mpr ⟨hne, h⟩)
    · right
      have : i ≠ p := by
        intro e; subst e
        rw [hpr] at hi; cases hi
        rw [hw] at hwi; cases hwi
      exact ⟨i, po, set_get_other this hi, hwi, hb⟩
  · intro i pi hi hwi
    rcases getElem?_set_cases hi with ⟨rfl, rfl, _⟩ | ⟨_, hi'⟩
    · simp only at hwi; rw [hw'] at hwi; cases hwi
    · obtain ⟨h1, d, m, hd, hm, hs⟩ := inv.window i pi hi' hwi
      have hne : opBid pi.prog ≠ cb := by intro e; rw [e] at h1; exact h1 hcb
      refine ⟨?_, d, m, by rw [hfin]; simp [upd, hne]; exact hd, hm, hs⟩
      intro hk
      exact h1 ((mem_keys_erasePkg L cb _ inv.nodup).mp hk).2
  · intro i j pi pj hi hj hwi hwj hb
    rcases getElem?_set_cases hi with ⟨rfl, rfl, _⟩ | ⟨_, hi'⟩
    · simp only at hwi; rw [hw'] at hwi; cases hwi
    · rcases getElem?_set_cases hj with ⟨rfl, rfl, _⟩ | ⟨_, hj'⟩
      · simp only at hwj; rw [hw'] at hwj; cases hwj
      · exact inv.uniq i j pi pj hi' hj' hwi hwj hb

theorem stepPc_iRename_none (H : Nat → Nat) (cfg : Cfg) (prog : Prog) (exO shO : Bool) (g : Store) (tmp : PkgDir)
    (hf : g.final (opBid prog) = none) :
    stepPc H cfg prog exO shO g (.iRename tmp) =
      ({ g with final := upd g.final (opBid prog) (some tmp),
                nInst := upd g.nInst (opBid prog) (g.nInst (opBid prog) + 1) }, .iAddOpen) := by
  unfold stepPc; simp [hf]

theorem stepPc_iAddLock_ok (H : Nat → Nat) (prog : Prog) (g : Store) (l : List (Bid × Nat))
    (hr : readRepo fx g.repo = some l) :
    stepPc H fx prog false false g .iAddLock =
      ({ g with repo := .valid (setPkg l (opBid prog) (opSize prog)) },
       .iAddClose none (sumSizes (setPkg l (opBid prog) (opSize prog))) false) := by
  unfold stepPc; simp [hr]

theorem stepPc_gLock_ok (H : Nat → Nat) (cfg : Cfg) (prog : Prog) (g : Store) (l : List (Bid × Nat))
    (hr : readRepo cfg g.repo = some l) :
    stepPc H cfg prog false false g .gLock = gcNext prog g l l [] 0 := by
  unfold stepPc; simp [hr]

theorem stepPc_scan_fst (H : Nat → Nat) (cfg : Cfg) (prog : Prog) (exO shO : Bool) (g : Store) (pc : Pc)
    (h : (∃ rm todo c t, pc = .gScanOpen rm todo c t) ∨ (∃ rm k sz rest c t, pc = .gScanLock rm k sz rest c t)) :
    (stepPc H cfg prog exO shO g pc).1 = g := by
  rcases h with ⟨rm, todo, c, t, rfl⟩ | ⟨rm, k, sz, rest, c, t, rfl⟩
  · unfold stepPc; simp only
    repeat' split
    all_goals first | rfl | simp
  · unfold stepPc; simp only
    repeat' split
    all_goals first | rfl | simp

theorem stepPc_gMove_leave (H : Nat → Nat) (prog : Prog) (exO shO : Bool) (g : Store)
    (rm : List (Bid × Nat)) (plan : List Cand) (t : Nat) (d te : Bool)
    (hf : ∀ c rest, plan = c :: rest → g.final c.bid = none) :
    (stepPc H fx prog exO shO g (.gMove rm plan t d te)).1.final = g.final ∧
    (stepPc H fx prog exO shO g (.gMove rm plan t d te)).1.repo = (if d then .valid rm else g.repo) ∧
    ∃ r, (stepPc H fx prog exO shO g (.gMove rm plan t d te)).2 = .gClose none r := by
  unfold stepPc; simp only
  cases plan with
  | nil => cases d <;> simp
  | cons c rest => simp only [hf c rest rfl]; cases d <;> simp

theorem stepPc_gMove_move (H : Nat → Nat) (prog : Prog) (exO shO : Bool) (g : Store)
    (rm : List (Bid × Nat)) (c : Cand) (rest : List Cand) (t : Nat) (d te : Bool) (dd : PkgDir)
    (hf : g.final c.bid = some dd) :
    (stepPc H fx prog exO shO g (.gMove rm (c :: rest) t d te)).1.final = upd g.final c.bid none ∧
    (((stepPc H fx prog exO shO g (.gMove rm (c :: rest) t d te)).1.repo = .valid (erasePkg rm c.bid) ∧
        ∃ r, (stepPc H fx prog exO shO g (.gMove rm (c :: rest) t d te)).2 = .gClose none r) ∨
     ((stepPc H fx prog exO shO g (.gMove rm (c :: rest) t d te)).1.repo = .torn ∧
        (stepPc H fx prog exO shO g (.gMove rm (c :: rest) t d te)).2 = .gMove (erasePkg rm c.bid) rest t true te)) := by
  unfold stepPc; simp only [hf]
  cases rest with
  | nil => simp
  | cons c1 r2 => simp

/-- program counters at which repo.json has been seen to exist -/
def Pc.needsRepo : Pc → Bool
  | .iAddLock | .gOpen | .gLock => true
  | _ => false

def RepoNA (s : St) : Prop :=
  ∀ (i : Nat) (pi : Proc), s.procs[i]? = some pi → pi.pc.needsRepo = true → s.g.repo ≠ .absent

/-- repo.json never disappears -/
theorem stepPc_repo_na (H : Nat → Nat) (cfg : Cfg) (prog : Prog) (exO shO : Bool) (g : Store) (pc : Pc)
    (h : g.repo ≠ .absent) : (stepPc H cfg prog exO shO g pc).1.repo ≠ .absent := by
  rcases stepPc_repo H cfg prog exO shO g pc with e | ⟨_, _, _, l, _, e⟩ | ⟨_, e⟩ | hq | ⟨_, e, _⟩ | ⟨l, t, f, hq⟩ |
      ⟨l, r, hq⟩ | ⟨rm, plan, t, d, te, hq⟩
  · rw [e]; exact h
  · rw [e]; split <;> simp
  · exact absurd e h
  · subst hq; unfold stepPc; simp only; repeat' split
    all_goals first | exact h | simp
  · exact absurd e h
  · subst hq; unfold stepPc; simp only; repeat' split
    all_goals first | (simp only [afterShare_fst, gcStart_fst]; simp) | simp
  · subst hq; unfold stepPc; simp
  · subst hq; unfold stepPc; simp only; repeat' split
    all_goals first | exact h | simp

@[simp] theorem needsRepo_afterShare {cfg : Cfg} (prog : Prog) (g : Store) (r : Res) : (afterShare cfg prog g r).2.needsRepo = false := by
  rcases afterShare_pc (cfg := cfg) prog g r with ⟨_, h⟩ | ⟨_, h⟩ | ⟨_, h⟩ | h <;> rw [h] <;> rfl

@[simp] theorem needsRepo_finishGc {cfg : Cfg} (prog : Prog) (g : Store) (r : Res) : (finishGc cfg prog g r).2.needsRepo = false := by
  rcases finishGc_pc (cfg := cfg) prog g r with ⟨_, h⟩ | ⟨_, h⟩ | ⟨_, h⟩ | h <;> rw [h] <;> rfl

theorem needsRepo_gcStart (prog : Prog) (g : Store) (h : (gcStart fx prog g).2.needsRepo = true) : g.repo ≠ .absent := by
  unfold gcStart at h
  split at h
  · simp at h
  · split at h
    · simp at h
    · rename_i hm
      intro e
      apply hm
      simp [repoMissing, e]

@[simp] theorem needsRepo_gcPlan (prog : Prog) (g : Store) (rm : List (Bid × Nat)) (c : List Cand) (t : Nat) :
    (gcPlan prog g rm c t).2.needsRepo = false := by
  unfold gcPlan; simp only; split <;> rfl

@[simp] theorem needsRepo_gcNext (prog : Prog) (g : Store) (rm todo : List (Bid × Nat)) (c : List Cand) (t : Nat) :
    (gcNext prog g rm todo c t).2.needsRepo = false := by
  unfold gcNext; split
  · simp
  · rfl

theorem stepPc_needsRepo_old (H : Nat → Nat) (prog : Prog) (exO shO : Bool) (g : Store) (pc : Pc)
    (hpc : pc.needsRepo = true → g.repo ≠ .absent) (hpend : ∀ l t f, pc ≠ .iAddClose (some l) t f)
    (h : (stepPc H fx prog exO shO g pc).2.needsRepo = true) : g.repo ≠ .absent := by
  cases pc
  case iAddLock => exact hpc rfl
  case gOpen => exact hpc rfl
  case gLock => exact hpc rfl
  case iAddOpen =>
    unfold stepPc at h; simp only at h
    cases hr : g.repo with
    | absent => rw [hr] at h; simp [Pc.needsRepo] at h
    | torn => simp
    | valid l => simp
  case start =>
    unfold stepPc at h; simp only at h
    split at h
    · simp [Pc.needsRepo] at h
    · split at h
      · simp at h
      · split at h <;> simp [Pc.needsRepo] at h
    · exact needsRepo_gcStart prog g h
    · simp [Pc.needsRepo] at h
  case iAddClose pend t f =>
    unfold stepPc at h; simp only at h
    cases pend with
    | some l => exact absurd rfl (hpend l t f)
    | none =>
      simp only at h
      split at h
      · simp [Pc.needsRepo] at h
      · split at h
        · split at h
          · exact needsRepo_gcStart prog g h
          · simp at h
        · simp at h
  all_goals (exfalso; revert h; unfold stepPc; simp only)
  all_goals (repeat' split)
  all_goals first
    | (intro h; simp only [needsRepo_afterShare, needsRepo_finishGc, needsRepo_gcPlan, needsRepo_gcNext] at h; cases h)
    | (intro h; cases h)
    | simp [Pc.needsRepo]

theorem stepPc_needsRepo (H : Nat → Nat) (prog : Prog) (exO shO : Bool) (g : Store) (pc : Pc)
    (hpc : pc.needsRepo = true → g.repo ≠ .absent)
    (h : (stepPc H fx prog exO shO g pc).2.needsRepo = true) : (stepPc H fx prog exO shO g pc).1.repo ≠ .absent := by
  by_cases hp : ∃ l t f, pc = .iAddClose (some l) t f
  · obtain ⟨l, t, f, rfl⟩ := hp
    unfold stepPc; simp only
    repeat' split
    all_goals simp
  · exact stepPc_repo_na H fx prog exO shO g pc
      (stepPc_needsRepo_old H prog exO shO g pc hpc (fun l t f e => hp ⟨l, t, f, e⟩) h)

theorem repoNA_step (H : Nat → Nat) (s : St) (p : Pid) (h : RepoNA s) : RepoNA (step H fx s p) := by
  rcases step_cases H fx s p with ⟨_, e⟩ | ⟨pr, hpr, e⟩
  · rw [e]; exact h
  · rw [e]
    intro i pi hi hn
    simp only at hi ⊢
    rcases getElem?_set_cases hi with ⟨rfl, rfl, _⟩ | ⟨_, hi'⟩
    · exact stepPc_needsRepo H pr.prog _ _ s.g pr.pc (h i pr hpr) hn
    · exact stepPc_repo_na H fx pr.prog _ _ s.g pr.pc (h i pi hi' hn)

theorem invFF_step (H : Nat → Nat) (s : St) (L : List (Bid × Nat)) (p : Pid) (inv : InvFF s L) (hna : RepoNA s) :
    ∃ L', InvFF (step H fx s p) L' := by
  have hmx := mutex_step H fx s p inv.mutex
  rcases step_cases H fx s p with ⟨_, e⟩ | ⟨pr, hpr, e⟩
  · rw [e]; exact ⟨L, inv⟩
  · rw [e] at hmx ⊢
    clear e
    obtain ⟨hpff, hgwf, htmp⟩ := inv.pcs p pr hpr
    have hinfo : ∀ b d, s.g.final b = some d → ∃ m, d.info = some (.valid m) :=
      fun b d hd => let ⟨m, hm, _⟩ := inv.pkgs b d hd; ⟨m, hm⟩
    have hnoEX : othersAny Pc.holdsEX s.procs p = false →
        ∀ (i : Nat) (pi : Proc), s.procs[i]? = some pi → i ≠ p → pi.pc.holdsEX = false :=
      fun h i pi hi hip => othersAny_false.mp h i pi hi hip
    have hlog_of : othersAny Pc.holdsEX s.procs p = false → pr.pc.holdsEX = false → logicalOf s.g.repo = L := by
      intro h hp
      rcases inv.repoOk with ⟨hv, _⟩ | ⟨_, i, pi, hi, hrmi, _⟩
      · exact hv
      · exfalso
        have hex := Pc.holdsEX_of_rmeta hrmi
        have : i ≠ p := by
          intro e'; subst e'; rw [hpr] at hi; cases hi; rw [hp] at hex; cases hex
        rw [hnoEX h i pi hi this] at hex; cases hex
    have hread_of : othersAny Pc.holdsEX s.procs p = false → (pr.pc = .iAddLock ∨ pr.pc = .gLock) →
        readRepo fx s.g.repo = some L := by
      intro h1 h3
      have hn : s.g.repo ≠ .absent := hna p pr hpr (by rcases h3 with h | h <;> rw [h] <;> rfl)
      rw [readRepo_fx hn, hlog_of h1 (by rcases h3 with h | h <;> rw [h] <;> rfl)]
    have hlock : othersAny Pc.holdsEX s.procs p = false → othersAny Pc.holdsSH s.procs p = false →
        (pr.pc = .iAddLock ∨ pr.pc = .gLock) → ∃ l, readRepo fx s.g.repo = some l :=
      fun h1 _ h3 => ⟨L, hread_of h1 h3⟩
    have hrmL : ∀ rm, pr.pc.rmeta = some rm → rm = L := by
      intro rm hr
      rcases inv.repoOk with ⟨_, hall⟩ | ⟨_, i, pi, hi, hrmi, _⟩
      · exact (hall p pr rm hpr hr).1
      · have : p = i := inv.mutex p i pr pi hpr hi (Pc.holdsEX_of_rmeta hr) (Or.inl (Pc.holdsEX_of_rmeta hrmi))
        subst this; rw [hpr] at hi; cases hi; rw [hr] at hrmi; cases hrmi; rfl
    have hscan : ∀ rm k sz rest cands total, pr.pc = .gScanLock rm k sz rest cands total → s.g.final k ≠ none := by
      intro rm k sz rest cands total hq
      rw [hq] at hgwf
      have : rm = L := hrmL rm (by rw [hq]; rfl)
      subst this
      obtain ⟨d, _, hd, _⟩ := inv.recorded k sz hgwf.2.2.1
      rw [hd]; simp
    have hmv : ∀ rm c rest t d te, pr.pc = .gMove rm (c :: rest) t d te → s.g.final c.bid ≠ none := by
      intro rm c rest t d te hq
      rw [hq] at hgwf
      have : rm = L := hrmL rm (by rw [hq]; rfl)
      subst this
      obtain ⟨sz, hm⟩ := exists_of_mem_keys (hgwf.2.2 c (by simp))
      obtain ⟨dd, _, hd, _⟩ := inv.recorded c.bid sz hm
      rw [hd]; simp
    have hnodup : ∀ l, readRepo fx s.g.repo = some l → (keys l).Nodup := by
      intro l hl
      rcases inv.repoOk with ⟨hv, _⟩ | ⟨ht, _⟩
      · cases hr : s.g.repo with
        | absent => rw [hr] at hl; cases hl
        | torn => rw [hr] at hl; simp [readRepo] at hl; subst hl; simp [keys]
        | valid l' =>
          rw [hr] at hl hv; simp [readRepo] at hl; subst hl
          simp [logicalOf] at hv; subst hv; exact inv.nodup
      · rw [ht] at hl; simp [readRepo] at hl; subst hl; simp [keys]
    have hothersEX : pr.pc.holdsEX = true → ∀ (i : Nat) (pi : Proc) (rm : List (Bid × Nat)), i ≠ p →
        s.procs[i]? = some pi → pi.pc.rmeta = some rm → rm = L ∧ pi.pc.dirty = false := by
      intro hex i pi rm hip hi hr
      exact absurd (inv.mutex p i pr pi hpr hi hex (Or.inl (Pc.holdsEX_of_rmeta hr))).symm hip
    have hpcs' := And.intro
      (stepPc_pcFF H pr.prog _ _ s.g pr.pc hpff (fun hq => hna p pr hpr (by rw [hq]; rfl)) hlock hinfo hscan hmv)
      (And.intro (stepPc_gcWf H fx pr.prog (othersAny Pc.holdsEX s.procs p) (othersAny Pc.holdsSH s.procs p) s.g pr.pc hgwf hnodup)
        (stepPc_tmpOk H fx pr.prog (othersAny Pc.holdsEX s.procs p) (othersAny Pc.holdsSH s.procs p) s.g pr.pc))
    generalize hexO : othersAny Pc.holdsEX s.procs p = exO at *
    generalize hshO : othersAny Pc.holdsSH s.procs p = shO at *
    generalize hstep : stepPc H fx pr.prog exO shO s.g pr.pc = res at *
    -- 1. the publishing rename
    by_cases h1 : (∃ tmp, pr.pc = .iRename tmp) ∧ s.g.final (opBid pr.prog) = none
    · obtain ⟨⟨tmp, hq⟩, hnone⟩ := h1
      rw [hq, stepPc_iRename_none H fx pr.prog exO shO s.g tmp hnone] at hstep
      subst hstep
      exact ⟨L, invFF_publish s L p pr tmp _ _ inv hpr hq hnone rfl rfl hmx⟩
    -- 2. __addPackage gets the lock
    by_cases h2 : pr.pc = .iAddLock ∧ exO = false ∧ shO = false
    · obtain ⟨hq, rfl, rfl⟩ := h2
      have hv := hread_of rfl (Or.inl hq)
      rw [hq, stepPc_iAddLock_ok H pr.prog s.g L hv] at hstep
      subst hstep
      exact ⟨_, invFF_add s L p pr _ _ _ inv hpr hq (hnoEX rfl) rfl (hna p pr hpr (by rw [hq]; rfl))
        (fun l hl => by rw [hv] at hl; cases hl; rfl) ⟨⟨rfl, rfl⟩, trivial, trivial⟩ rfl rfl hmx⟩
    -- 3. gc gets the lock
    by_cases h3 : pr.pc = .gLock ∧ exO = false ∧ shO = false
    · obtain ⟨hq, rfl, rfl⟩ := h3
      have hv := hread_of rfl (Or.inr hq)
      have hlg := hlog_of rfl (by rw [hq]; rfl)
      rw [hq, stepPc_gLock_ok H fx pr.prog s.g L hv] at hstep
      subst hstep
      have hall : ∀ (i : Nat) (pi : Proc) (rm : List (Bid × Nat)), i ≠ p → s.procs[i]? = some pi →
          pi.pc.rmeta = some rm → rm = L ∧ pi.pc.dirty = false := by
        intro i pi rm hip hi hr
        have := Pc.holdsEX_of_rmeta hr
        rw [hnoEX rfl i pi hi hip] at this; cases this
      refine ⟨L, invFF_gc_quiet s L p pr _ _ _ inv hpr (by simp) (by simp; exact hlg) hall
        (fun rm hr => rmeta_gcNext _ _ _ _ _ _ rm hr) (by rw [hq]; rfl) (by simp) hpcs' hmx⟩
    -- 4. scanning
    by_cases h4 : (∃ rm todo c t, pr.pc = .gScanOpen rm todo c t) ∨ (∃ rm k sz rest c t, pr.pc = .gScanLock rm k sz rest c t)
    · have hfst : res.1 = s.g := by rw [← hstep]; exact stepPc_scan_fst H fx pr.prog exO shO s.g pr.pc h4
      have hex : pr.pc.holdsEX = true := by
        rcases h4 with ⟨_, _, _, _, hq⟩ | ⟨_, _, _, _, _, _, hq⟩ <;> rw [hq] <;> rfl
      have hnd : pr.pc.dirty = false := by
        rcases h4 with ⟨_, _, _, _, hq⟩ | ⟨_, _, _, _, _, _, hq⟩ <;> rw [hq] <;> rfl
      have hnm : ∀ rm plan t d te, pr.pc ≠ .gMove rm plan t d te := by
        intro rm plan t d te hh
        rcases h4 with ⟨_, _, _, _, hq⟩ | ⟨_, _, _, _, _, _, hq⟩ <;> rw [hq] at hh <;> cases hh
      obtain ⟨rm, hrm⟩ : ∃ rm, pr.pc.rmeta = some rm := by
        rcases h4 with ⟨rm, _, _, _, hq⟩ | ⟨rm, _, _, _, _, _, hq⟩ <;> exact ⟨rm, by rw [hq]; rfl⟩
      have hv : logicalOf s.g.repo = L := by
        rcases inv.repoOk with ⟨hv, _⟩ | ⟨_, i, pi, hi, hrmi, hdi⟩
        · exact hv
        · exfalso
          have : p = i := inv.mutex p i pr pi hpr hi hex (Or.inl (Pc.holdsEX_of_rmeta hrmi))
          subst this; rw [hpr] at hi; cases hi; rw [hnd] at hdi; cases hdi
      have hw : pr.pc.inWindow = false := by
        rcases h4 with ⟨_, _, _, _, hq⟩ | ⟨_, _, _, _, _, _, hq⟩ <;> rw [hq] <;> rfl
      have hw' : res.2.inWindow = false := by
        cases hh : res.2.inWindow with
        | false => rfl
        | true =>
          exfalso
          rw [← hstep] at hh
          obtain ⟨⟨tmp, hq⟩, _⟩ := stepPc_inWindow_enter H fx pr.prog exO shO s.g pr.pc hh hw
          rw [hq] at hex; cases hex
      refine ⟨L, invFF_gc_quiet s L p pr _ _ _ inv hpr (by rw [hfst]) (by rw [hfst]; exact hv) (hothersEX hex)
        ?_ hw hw' hpcs' hmx⟩
      intro rm' hr'
      rw [← hstep] at hr' ⊢
      have := stepPc_scan_rmeta H fx pr.prog exO shO s.g pr.pc rm hrm hnm rm' hr'
      exact ⟨by rw [this.1]; exact hrmL rm hrm, this.2⟩
    -- 5. moving
    by_cases h5 : ∃ rm plan t d te, pr.pc = .gMove rm plan t d te
    · obtain ⟨rm, plan, t, d, te, hq⟩ := h5
      have hex : pr.pc.holdsEX = true := by rw [hq]; rfl
      have hrm : rm = L := hrmL rm (by rw [hq]; rfl)
      subst hrm
      rw [hq] at hgwf
      by_cases hmvc : ∃ c rest dd, plan = c :: rest ∧ s.g.final c.bid = some dd
      · obtain ⟨c, rest, dd, rfl, hf⟩ := hmvc
        obtain ⟨hfin, hor⟩ := stepPc_gMove_move H pr.prog exO shO s.g rm c rest t d te dd hf
        rw [hq] at hstep
        rw [hstep] at hfin hor
        have hcb : c.bid ∈ keys rm := hgwf.2.2 c (by simp)
        refine ⟨_, invFF_move s rm p pr _ _ _ c.bid inv hpr hex hcb hfin ?_ ?_ hpcs' hmx⟩
        · rcases hor with ⟨hr, r, hp'⟩ | ⟨hr, hp'⟩
          · left; exact ⟨hr, by rw [hp']; rfl⟩
          · right; exact ⟨hr, by rw [hp']; rfl, by rw [hp']; rfl⟩
        · rcases hor with ⟨_, r, hp'⟩ | ⟨_, hp'⟩ <;> rw [hp'] <;> rfl
      · have hf : ∀ c rest, plan = c :: rest → s.g.final c.bid = none := by
          intro c rest hpl
          cases hh : s.g.final c.bid with
          | none => rfl
          | some dd => exact absurd ⟨c, rest, dd, hpl, hh⟩ hmvc
        obtain ⟨hfin, hrepo, r, hp'⟩ := stepPc_gMove_leave H pr.prog exO shO s.g rm plan t d te hf
        rw [hq] at hstep
        rw [hstep] at hfin hrepo hp'
        have hv : logicalOf res.1.repo = rm := by
          rw [hrepo]
          cases d with
          | true => rfl
          | false =>
            simp only [Bool.false_eq_true, if_false]
            rcases inv.repoOk with ⟨hv, _⟩ | ⟨_, i, pi, hi, hrmi, hdi⟩
            · exact hv
            · exfalso
              have : p = i := inv.mutex p i pr pi hpr hi hex (Or.inl (Pc.holdsEX_of_rmeta hrmi))
              subst this; rw [hpr] at hi; cases hi; rw [hq] at hdi; cases hdi
        refine ⟨rm, invFF_gc_quiet s rm p pr _ _ _ inv hpr hfin hv (hothersEX hex) ?_ (by rw [hq]; rfl)
          (by rw [hp']; rfl) hpcs' hmx⟩
        intro rm' hr'
        rw [hp'] at hr'; cases hr'
    -- 6. everything else
    · have hnEX : pr.pc.holdsEX = false := by
        cases hq : pr.pc <;> first
          | rfl
          | (exfalso; exact h4 (Or.inl ⟨_, _, _, _, hq⟩))
          | (exfalso; exact h4 (Or.inr ⟨_, _, _, _, _, _, hq⟩))
          | (exfalso; exact h5 ⟨_, _, _, _, _, hq⟩)
      have hblk : pr.pc = .gLock → (exO || shO) = true := by
        intro hq
        cases hex : exO <;> cases hsh : shO <;> simp
        exact h3 ⟨hq, hex, hsh⟩
      have hnEX' : res.2.holdsEX = false := by
        rw [← hstep]; exact stepPc_notEX H fx pr.prog exO shO s.g pr.pc hnEX hblk
      have hrepo : res.1.repo = s.g.repo ∨ (s.g.repo = .absent ∧ res.1.repo = .torn) := by
        rw [← hstep]
        rcases stepPc_repo H fx pr.prog exO shO s.g pr.pc with h | ⟨hq, hx, hy, _⟩ | ⟨hq, _⟩ | hq | ⟨_, ha, ht⟩ |
            ⟨l, t, f, hq⟩ | ⟨l, r, hq⟩ | ⟨rm, plan, t, d, te, hq⟩
        · exact Or.inl h
        · exact absurd ⟨hq, hx, hy⟩ h2
        · rw [hq] at hpff; exact absurd hpff (by simp [PcFF])
        · rw [hq] at hpff; exact absurd hpff (by simp [PcFF])
        · exact Or.inr ⟨ha, ht⟩
        · rw [hq] at hpff; have := hpff.1; cases this
        · rw [hq] at hpff; have := hpff.1; cases this
        · exact absurd ⟨rm, plan, t, d, te, hq⟩ h5
      have hfin : FinalQuiet s.g res.1 := by
        rw [← hstep]
        refine stepPc_finalQuiet H pr.prog exO shO s.g pr.pc hpff ?_ ?_
        · intro tmp hq hn; exact h1 ⟨⟨tmp, hq⟩, hn⟩
        · intro rm plan t d te hq; exact h5 ⟨rm, plan, t, d, te, hq⟩
      have hwin : res.2.inWindow = pr.pc.inWindow := by
        cases hw : pr.pc.inWindow with
        | true =>
          rcases stepPc_inWindow_stay H fx pr.prog exO shO s.g pr.pc hw with h | ⟨hq | hq, hx, hy⟩
          · rw [← hstep]; exact h
          · exact absurd ⟨hq, hx, hy⟩ h2
          · rw [hq] at hpff; exact absurd hpff (by simp [PcFF])
        | false =>
          cases hh : res.2.inWindow with
          | false => rfl
          | true =>
            exfalso
            rw [← hstep] at hh
            exact h1 (stepPc_inWindow_enter H fx pr.prog exO shO s.g pr.pc hh hw)
      exact ⟨L, invFF_silent s L p pr _ _ _ inv hpr hmx hrepo hfin (Pc.rmeta_of_notEX hnEX)
        (Pc.rmeta_of_notEX hnEX') hwin hpcs'⟩

end Share
