import BobModel.Proofs.C06Order6
/-
Ordering invariants of the scheduler model, part 7: the dataflow invariant.  Given **once** (`OnceInv`), the
exclusivity of workspaces and the state form of **deps_first** (`DepsAtEnd`: when a script is about to end, the
scripts of all valid dependencies of its step have ended successfully) every successfully ended script has left
`value` = the result of the sequential dataflow in its workspace, and it stays there.
-/
namespace Sched
open JobSem

/-- what a script reads is cooked before it: `bidDeps` (valid arguments and tools) are valid dependencies -/
def ReadsDeps (P : Project) : Prop := ∀ s d, d ∈ (P.info s).bidDeps → d ∈ (P.info s).deps ∧ (P.info d).valid = true

/-- state form of deps_first: a task suspended in the script of `s` has all valid dependencies of `s` finished -/
def DepsAtEnd (P : Project) (st : St) : Prop :=
  ∀ t s r rest, (st.task t).ops = .runWait s r :: rest → depsDone P st s

def ValInv (P : Project) (value : Nat → Nat) (st : St) : Prop :=
  ∀ t s, Ev.fin t s true ∈ st.trace → st.diskAt (P.info s).path = value s

theorem finishedOk_witness {P : Project} {tr : List Ev} {p : Nat} (h : finishedOk P tr p = true) :
    ∃ t x, Ev.fin t x true ∈ tr ∧ (P.info x).path = p := by
  unfold finishedOk at h
  rw [List.any_eq_true] at h
  obtain ⟨e, he, hp⟩ := h
  cases e with
  | fin t x ok =>
    cases ok <;> simp at hp
    exact ⟨t, x, he, hp⟩
  | _ => simp at hp

theorem finishedOk_of_mem {P : Project} {tr : List Ev} {t x : Nat} (h : Ev.fin t x true ∈ tr) :
    finishedOk P tr (P.info x).path = true := by
  unfold finishedOk
  rw [List.any_eq_true]
  exact ⟨_, h, by simp⟩

theorem status_of_finished (P : Project) (p : Nat) : ∀ (tr : List Ev) (s0 : WsStatus), legalFrom P p s0 tr = true →
    (s0 = .ok ∨ finishedOk P tr p = true) → statusOf P p s0 tr = .ok
  | [], s0, _, h => by
    rcases h with h | h
    · simpa [statusOf] using h
    · simp [finishedOk] at h
  | e :: r, s0, hl, h => by
    cases e
    case start t x =>
      simp only [legalFrom, statusOf] at hl ⊢
      split at hl
      · rename_i hp
        simp only [hp, ↓reduceIte]
        simp only [Bool.and_eq_true, Bool.or_eq_true, beq_iff_eq] at hl
        refine status_of_finished P p r _ hl.2 (Or.inr ?_)
        rcases h with h | h
        · subst h; rcases hl.1 with e | e <;> cases e
        · simpa [finishedOk] using h
      · rename_i hp
        simp only [hp, Bool.false_eq_true, ↓reduceIte]
        refine status_of_finished P p r _ hl ?_
        rcases h with h | h
        · exact Or.inl h
        · exact Or.inr (by simpa [finishedOk] using h)
    case fin t x ok =>
      simp only [legalFrom, statusOf] at hl ⊢
      split at hl
      · rename_i hp
        simp only [hp, ↓reduceIte]
        simp only [Bool.and_eq_true, beq_iff_eq] at hl
        refine status_of_finished P p r _ hl.2 ?_
        rcases h with h | h
        · subst h; cases hl.1
        · cases ok
          · right; simpa [finishedOk] using h
          · left; rfl
      · rename_i hp
        simp only [hp, Bool.false_eq_true, ↓reduceIte]
        refine status_of_finished P p r _ hl ?_
        rcases h with h | h
        · exact Or.inl h
        · right
          simp only [finishedOk, List.any_cons, Bool.or_eq_true] at h
          rcases h with h | h
          · cases ok <;> simp [hp] at h
          · exact h
    all_goals
      simp only [legalFrom, statusOf] at hl ⊢
      refine status_of_finished P p r _ hl ?_
      rcases h with h | h
      · exact Or.inl h
      · exact Or.inr (by simpa [finishedOk] using h)

theorem Inert.disk {P : Project} {st st' : St} {t : Nat} {op : Op} {rest : List Op} (h : Inert P st t op rest st') :
    st'.disk = st.disk := by
  cases h with
  | body g new body e _ _ hd _ => simpa using hd
  | raise g e _ _ hd => simpa using hd

/-- only the end of a script writes to a workspace -/
theorem stepTask_disk {P : Project} {cfg : Cfg} {st st' : St} {t : Nat} {op : Op} {rest : List Op}
    (hpv : PathVid P) (hv : WrValid P st.wasRun) (hwf : ∀ x ∈ st.tasks, x.wf = true)
    (hops : (st.task t).ops = op :: rest) (hne : ∀ s r, op ≠ .runWait s r)
    (h : stepTask P cfg st t = some st') : st'.disk = st.disk := by
  by_cases hsp : op.special = true
  · unfold Sched.stepTask at h
    simp only at h
    rw [hops] at h
    simp only at h
    cases op <;> simp [Op.special] at hsp <;> simp only at h
    case lock s co dl => split at h <;> cases h <;> rfl
    case lockWait s co dl => split at h <;> cases h; rfl
    case underLock s co => split at h <;> cases h <;> rfl
    case run s => cases h; rfl
    case runWait s r => exact absurd rfl (hne s r)
    case setRun s sk => cases h; rfl
  · exact (stepTask_inert hpv hv hwf hops (by simpa using hsp) h).disk

theorem diskAt_insert_self (st : St) (p v : Nat) : ({ st with disk := insert p v st.disk } : St).diskAt p = v := by
  simp [St.diskAt, lookup_insert_self]

theorem diskAt_insert_ne (st : St) (p q v : Nat) (h : q ≠ p) :
    ({ st with disk := insert p v st.disk } : St).diskAt q = st.diskAt q := by
  simp [St.diskAt, lookup_insert_ne _ _ _ _ h]

theorem ValInv.step {P : Project} {cfg : Cfg} {st st' : St} {c : Choice} {value : Nat → Nat}
    (hpv : PathVid P) (hval : ∀ s, value s = P.run s ((P.info s).bidDeps.map value))
    (hpath : ∀ s s', (P.info s).path = (P.info s').path → value s = value s') (hrd : ReadsDeps P)
    (ho : OnceInv P st) (hwf : ∀ x ∈ st.tasks, x.wf = true) (hd : DepsAtEnd P st) (hi : ValInv P value st)
    (h : step P cfg st c = some st') : ValInv P value st' := by
  have same : st'.trace = st.trace → st'.disk = st.disk → ValInv P value st' := by
    intro h1 h2 t s hm
    rw [h1] at hm
    have := hi t s hm
    simpa [St.diskAt, h2] using this
  cases c with
  | task t =>
    have hs : stepTask P cfg st t = some st' := h
    cases hops : (st.task t).ops with
    | nil => simp [Sched.stepTask, hops] at hs
    | cons op rest =>
      by_cases hrw : ∃ s r, op = .runWait s r
      · obtain ⟨s, r, e⟩ := hrw
        subst e
        have hdeps := hd t s r rest hops
        have hrun := ho.rwRunning t s r rest hops
        -- the inputs are the values of the dependencies
        have hin : inputs P st s = (P.info s).bidDeps.map value := by
          unfold inputs
          apply List.map_congr_left
          intro d hdm
          obtain ⟨h1, h2⟩ := hrd s d hdm
          obtain ⟨t', x, hm, hp⟩ := finishedOk_witness (hdeps d h1 h2)
          rw [← hp, hi t' x hm]
          exact hpath x d hp
        unfold Sched.stepTask at hs
        simp only at hs
        rw [hops] at hs
        simp only at hs
        split at hs
        · cases hs
        · cases hs
          intro t' s' hm
          simp only [setTask_trace, emit_trace, List.mem_append, List.mem_singleton] at hm
          have hd' : ∀ q, (({ st with disk := insert (P.info s).path (P.run s (inputs P st s)) st.disk } : St).emit
              (Ev.fin t s true) |>.setTask t { kind := (st.task t).kind, ops := rest, err := (st.task t).err }).diskAt q =
              ({ st with disk := insert (P.info s).path (P.run s (inputs P st s)) st.disk } : St).diskAt q := fun q => rfl
          rw [hd']
          by_cases hp : (P.info s').path = (P.info s).path
          · rw [hp, diskAt_insert_self, hin, ← hval]
            exact hpath s s' hp.symm
          · rw [diskAt_insert_ne _ _ _ _ hp]
            rcases hm with hm | hm
            · exact hi t' s' hm
            · cases hm; exact absurd rfl hp
        · cases hs
          intro t' s' hm
          simp only [setTask_trace, emit_trace, List.mem_append, List.mem_singleton] at hm
          have hm' : Ev.fin t' s' true ∈ st.trace := by
            rcases hm with hm | hm
            · exact hm
            · cases hm
          have hd' : ∀ q, (({ st with disk := insert (P.info s).path (P.junk s) st.disk } : St).emit
              (Ev.fin t s false) |>.setTask t (raise (st.task t) Err.build rest)).diskAt q =
              ({ st with disk := insert (P.info s).path (P.junk s) st.disk } : St).diskAt q := fun q => rfl
          rw [hd']
          by_cases hp : (P.info s').path = (P.info s).path
          · exfalso
            have h1 := status_of_finished P (P.info s).path st.trace .idle (ho.legal _)
              (Or.inr (by rw [← hp]; exact finishedOk_of_mem hm'))
            rw [hrun] at h1
            cases h1
          · rw [diskAt_insert_ne _ _ _ _ hp]
            exact hi t' s' hm'
      · have hne : ∀ s r, op ≠ .runWait s r := fun s r e => hrw ⟨s, r, e⟩
        have hdisk := stepTask_disk hpv ho.wv hwf hops hne hs
        obtain ⟨evs, he, hn⟩ := stepTask_trace hs
        intro t' s' hm
        have hm' : Ev.fin t' s' true ∈ st.trace := by
          rw [he] at hm
          rcases List.mem_append.mp hm with hm | hm
          · exact hm
          · exfalso
            cases hn with
            | quiet _ hq => have := hq _ hm; simp [Ev.quiet, Ev.isFin] at this
            | start s r ho' => simp at hm
            | fin s ok r ho' => rw [hops] at ho'; cases ho'; exact hne _ _ rfl
            | setRun s sk r ho' => simp at hm
        have := hi t' s' hm'
        simpa [St.diskAt, hdisk] using this
  | finish t ok =>
    simp only [Sched.step, finishScript] at h
    split at h <;> cases h
    exact same rfl rfl
  | callback =>
    simp only [Sched.step] at h
    split at h
    · split at h <;> cases h
      exact same rfl rfl
    · cases h
  | envTake =>
    simp only [Sched.step] at h
    split at h
    · rename_i s hs
      cases he : s.envTake with
      | none => simp [he] at h
      | some s' =>
        simp only [he, Option.map_some, Option.some.injEq] at h
        subst h
        exact same rfl rfl
    · cases h
  | envReturn =>
    simp only [Sched.step] at h
    split at h
    · rename_i s hs
      cases he : s.envReturn with
      | none => simp [he] at h
      | some s' =>
        simp only [he, Option.map_some, Option.some.injEq] at h
        subst h
        exact same rfl rfl
    · cases h

/-- **schedule independence**, given the state form of deps_first along the schedule -/
theorem ValInv.reach {n : Nat} {P : Project} {cfg : Cfg} {r0 : Runners} {st : St} {value : Nat → Nat}
    (hpv : PathVid P) (hval : ∀ s, value s = P.run s ((P.info s).bidDeps.map value))
    (hpath : ∀ s s', (P.info s).path = (P.info s').path → value s = value s') (hrd : ReadsDeps P)
    (hr : GoodRunners n r0) (hd : ∀ st', Reach P cfg r0 st' → DepsAtEnd P st')
    (h : Reach P cfg r0 st) : ValInv P value st := by
  induction h with
  | init => intro t s hm; simp [Sched.init] at hm
  | step c hprev hs ih =>
    exact ValInv.step hpv hval hpath hrd (OnceInv.reach hpv hr hprev) (TokInv.reach hr hprev).wf (hd _ hprev) ih hs

end Sched
