import BobModel.Model.TarExtract
/-
Helper lemmas for Props/C08.lean, part 1: association lists, the file system updates and the
path walk (`walk`): what the lenient walk (`os.path.realpath`) depends on, how the strict walk
(kernel) relates to it, and how the last component splits off.
-/
namespace TarExtract

/-! ### association lists -/

section Assoc
variable {α β : Type} [DecidableEq α]

theorem aget_filter (m : List (α × β)) (f : α → Bool) (x : α) :
    aget (m.filter (fun kv => f kv.1)) x = if f x then aget m x else none := by
  induction m with
  | nil => simp [aget]
  | cons kv r ih =>
    obtain ⟨k, v⟩ := kv
    by_cases hk : f k = true
    · simp only [List.filter_cons, hk, if_true, aget]
      by_cases hkx : k = x
      · subst hkx; simp [hk]
      · simp only [hkx, if_false]; exact ih
    · have hk' : f k = false := by simpa using hk
      simp only [List.filter_cons, hk', aget]
      by_cases hkx : k = x
      · subst hkx; simp [hk', ih]
      · simp only [hkx, if_false]; simpa using ih

theorem aget_adel (m : List (α × β)) (x y : α) :
    aget (adel m x) y = if y = x then none else aget m y := by
  unfold adel
  have := aget_filter m (fun k => decide (k ≠ x)) y
  rw [this]
  by_cases h : y = x <;> simp [h]

theorem aget_aset (m : List (α × β)) (x y : α) (v : β) :
    aget (aset m x v) y = if y = x then some v else aget m y := by
  unfold aset
  simp only [aget]
  by_cases h : x = y
  · subst h; simp
  · have h' : ¬ y = x := fun e => h e.symm
    simp only [h, h', if_false]
    rw [aget_adel]; simp [h']

end Assoc

/-! ### file system updates -/

@[simp] theorem look_setName (fs : FS) (p q : Path) (e : Entry) :
    (fs.setName p e).look q = if q = p then some e else fs.look q := by
  simp [FS.setName, FS.look, aget_aset]

@[simp] theorem look_delName (fs : FS) (p q : Path) :
    (fs.delName p).look q = if q = p then none else fs.look q := by
  simp [FS.delName, FS.look, aget_adel]

@[simp] theorem look_setInode (fs : FS) (i : Nat) (o : Inode) (q : Path) :
    (fs.setInode i o).look q = fs.look q := rfl

@[simp] theorem look_alloc (fs : FS) (o : Inode) (q : Path) : (fs.alloc o).look q = fs.look q := rfl

@[simp] theorem inode_setName (fs : FS) (p : Path) (e : Entry) (i : Nat) :
    (fs.setName p e).inode i = fs.inode i := rfl

@[simp] theorem inode_delName (fs : FS) (p : Path) (i : Nat) : (fs.delName p).inode i = fs.inode i := rfl

@[simp] theorem inode_setInode (fs : FS) (i j : Nat) (o : Inode) :
    (fs.setInode i o).inode j = if j = i then some o else fs.inode j := by
  simp [FS.setInode, FS.inode, aget_aset]

@[simp] theorem inode_alloc (fs : FS) (o : Inode) (j : Nat) :
    (fs.alloc o).inode j = if j = fs.next then some o else fs.inode j := by
  simp [FS.alloc, FS.inode, aget_aset]

@[simp] theorem next_setName (fs : FS) (p : Path) (e : Entry) : (fs.setName p e).next = fs.next := rfl
@[simp] theorem next_delName (fs : FS) (p : Path) : (fs.delName p).next = fs.next := rfl
@[simp] theorem next_setInode (fs : FS) (i : Nat) (o : Inode) : (fs.setInode i o).next = fs.next := rfl
@[simp] theorem next_alloc (fs : FS) (o : Inode) : (fs.alloc o).next = fs.next + 1 := rfl

/-! ### what the walk reads -/

/-- two file systems have the same symbolic links at the same places -/
def SameSym (a b : FS) : Prop := ∀ p, symTarget a p = symTarget b p

theorem SameSym.refl (a : FS) : SameSym a a := fun _ => rfl
theorem SameSym.trans {a b c : FS} (h1 : SameSym a b) (h2 : SameSym b c) : SameSym a c :=
  fun p => (h1 p).trans (h2 p)
theorem SameSym.symm {a b : FS} (h : SameSym a b) : SameSym b a := fun p => (h p).symm

/-- `os.path.realpath` (the lenient walk) depends on the file system only through the
symbolic links -/
theorem walk_lenient_sameSym {a b : FS} (h : SameSym a b) (follow : Bool) :
    ∀ (n : Nat) (cur : Path) (rest : List Name),
      walk a false follow n cur rest = walk b false follow n cur rest := by
  intro n
  induction n with
  | zero => intro cur rest; cases rest <;> simp [walk]
  | succ n ih =>
    intro cur rest
    cases rest with
    | nil => simp [walk]
    | cons c rest =>
      simp only [walk]
      rw [h (cur ++ [c])]
      split
      · exact ih _ _
      · split
        · exact ih _ _
        · split
          · split
            · rfl
            · exact ih _ _
          · simp only [if_true]; exact ih _ _

/-- whatever the kernel resolves, realpath resolves to the same location -/
theorem walk_strict_lenient (fs : FS) (follow : Bool) :
    ∀ (n : Nat) (cur : Path) (rest : List Name) (r : Path),
      walk fs true follow n cur rest = .ok r → walk fs false follow n cur rest = .ok r := by
  intro n
  induction n with
  | zero => intro cur rest r; cases rest <;> simp [walk]
  | succ n ih =>
    intro cur rest r
    cases rest with
    | nil => simp [walk]
    | cons c rest =>
      simp only [walk]
      split
      · exact ih _ _ _
      · split
        · exact ih _ _ _
        · split
          · split
            · exact id
            · exact ih _ _ _
          · simp only [Bool.true_eq_false, if_false, if_true]
            split
            · exact ih _ _ _
            · split
              · rename_i hr; subst hr; intro h; simpa [walk] using h
              · intro h; cases h
            · split
              · rename_i hr; subst hr; intro h; simpa [walk] using h
              · intro h; cases h

/-- a resolution that does not end in a symbolic link is the same with and without following -/
theorem walk_nofollow_follow (fs : FS) (strict : Bool) :
    ∀ (n : Nat) (cur : Path) (rest : List Name) (r : Path),
      walk fs strict false n cur rest = .ok r → symTarget fs r = none →
      walk fs strict true n cur rest = .ok r := by
  intro n
  induction n with
  | zero =>
    intro cur rest r
    cases rest with
    | nil => simp only [walk]; intro h _; exact h
    | cons c rest => simp [walk]
  | succ n ih =>
    intro cur rest r
    cases rest with
    | nil => simp only [walk]; intro h _; exact h
    | cons c rest =>
      simp only [walk]
      split
      · exact ih _ _ _
      · split
        · exact ih _ _ _
        · split
          · rename_i t ht
            split
            · intro h hs
              have : cur ++ [c] = r := by simpa using h
              subst this
              rw [ht] at hs; cases hs
            · rename_i hne
              intro h hs
              have hne' : ¬ (rest = [] ∧ true = false) := by simp
              simp only [hne', if_false]
              exact ih _ _ _ h hs
          · intro h hs
            split
            · rename_i hst; rw [if_pos hst] at h; exact ih _ _ _ h hs
            · rename_i hst; rw [if_neg hst] at h
              revert h
              split
              · intro h; exact ih _ _ _ h hs
              · exact id
              · exact id

end TarExtract
