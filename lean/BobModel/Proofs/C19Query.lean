import BobModel.Proofs.C19Queue
/-
C19 helper lemmas: `evaluate` / `query` in terms of the queue invariant.
-/
namespace Retention

/-- the selected artifacts of a row list with their sort keys, in evaluation order -/
def items (e : Expr) (rows : List (Bid × Val)) : List (Bid × Option Str) :=
  (rows.filter fun r => selects e r.2).map fun r => (r.1, keyOf e r.2)

theorem items_cons (e : Expr) (r : Bid × Val) (rest : List (Bid × Val)) :
    items e (r :: rest) = items e [r] ++ items e rest := by
  simp only [items, List.filter_cons]
  split <;> simp

theorem evaluate_inv {e : Expr} {lim : Nat} (hl : e.limit = some lim) {P : List (Bid × Option Str)} {st st' : EState}
    {b : Bid} {d : Val} (hb : ∀ x ∈ P, x.1 ≠ b) (h : Inv e.asc lim P st) (hev : evaluate e st b d = .ok st') :
    Inv e.asc lim (P ++ items e [(b, d)]) st' := by
  have hbr : st.retained.contains b = false := by
    cases hc : st.retained.contains b with
    | false => rfl
    | true =>
      exfalso
      have hm : b ∈ st.retained := List.contains_iff_mem.mp hc
      obtain ⟨k', hk'⟩ := (h.ret b).mp hm
      exact hb _ (h.sub _ hk') rfl
  unfold evaluate at hev
  simp only [hbr, Bool.false_eq_true, if_false] at hev
  cases hp : evalBool e.pred d with
  | error x => simp [hp] at hev
  | ok v =>
    cases v with
    | false =>
      simp only [hp] at hev
      have : st' = st := by injection hev with h'; exact h'.symm
      subst this
      simp [items, selects, hp, h]
    | true =>
      simp only [hp, hl] at hev
      cases hk : evalRef e.sortBy d with
      | error x => simp [hk] at hev
      | ok k =>
        simp only [hk] at hev
        have : st' = trim lim ⟨b :: st.retained, insertQ e.asc st.queue (b, k)⟩ := by
          injection hev with h'; exact h'.symm
        subst this
        have hi : items e [(b, d)] = [(b, k)] := by simp [items, selects, hp, keyOf, hk]
        rw [hi]
        exact inv_push hb h

theorem runExpr_inv {e : Expr} {lim : Nat} (hl : e.limit = some lim) :
    ∀ (rows : List (Bid × Val)) (P : List (Bid × Option Str)) (st st' : EState),
      Inv e.asc lim P st → (∀ x ∈ P, ∀ r ∈ rows, x.1 ≠ r.1) → (rows.map (·.1)).Nodup →
      runExpr e st rows = .ok st' → Inv e.asc lim (P ++ items e rows) st' := by
  intro rows
  induction rows with
  | nil =>
    intro P st st' h _ _ hr
    simp only [runExpr] at hr
    injection hr with hr
    subst hr
    simpa [items] using h
  | cons r rest ih =>
    intro P st st' h hP hnd hr
    obtain ⟨b, d⟩ := r
    simp only [runExpr] at hr
    cases hev : evaluate e st b d with
    | error x => simp [hev] at hr
    | ok st1 =>
      simp only [hev] at hr
      simp only [List.map_cons, List.nodup_cons, List.mem_map] at hnd
      have h1 := evaluate_inv hl (fun x hx => hP x hx (b, d) (by simp)) h hev
      rw [items_cons, ← List.append_assoc]
      apply ih _ _ _ h1 _ hnd.2 hr
      intro x hx r' hr'
      rcases List.mem_append.mp hx with hx | hx
      · exact hP x hx r' (by simp [hr'])
      · simp only [items, List.mem_map, List.mem_filter] at hx
        obtain ⟨y, ⟨hy, _⟩, rfl⟩ := hx
        simp at hy
        subst hy
        intro heq
        exact hnd.1 ⟨r', hr', heq.symm⟩

theorem runExpr_nolimit {e : Expr} (hl : e.limit = none) :
    ∀ (rows : List (Bid × Val)) (st st' : EState), runExpr e st rows = .ok st' →
      ∀ b, b ∈ st'.retained ↔ b ∈ st.retained ∨ ∃ r ∈ rows, r.1 = b ∧ selects e r.2 = true := by
  intro rows
  induction rows with
  | nil =>
    intro st st' hr b
    simp only [runExpr] at hr
    injection hr with hr
    subst hr
    simp
  | cons r rest ih =>
    intro st st' hr b'
    obtain ⟨b, d⟩ := r
    simp only [runExpr] at hr
    cases hev : evaluate e st b d with
    | error x => simp [hev] at hr
    | ok st1 =>
      simp only [hev] at hr
      rw [ih st1 st' hr b']
      unfold evaluate at hev
      by_cases hc : st.retained.contains b = true
      · simp only [hc, if_true] at hev
        injection hev with hev
        subst hev
        have hm : b ∈ st.retained := List.contains_iff_mem.mp hc
        constructor
        · rintro (h | ⟨r, hr', h1, h2⟩)
          · exact Or.inl h
          · exact Or.inr ⟨r, by simp [hr'], h1, h2⟩
        · rintro (h | ⟨r, hr', h1, h2⟩)
          · exact Or.inl h
          · rcases List.mem_cons.mp hr' with rfl | hr'
            · left; simpa [← h1] using hm
            · exact Or.inr ⟨r, hr', h1, h2⟩
      · simp only [hc, Bool.false_eq_true, if_false] at hev
        cases hp : evalBool e.pred d with
        | error x => simp [hp] at hev
        | ok v =>
          cases v with
          | false =>
            simp only [hp] at hev
            injection hev with hev
            subst hev
            constructor
            · rintro (h | ⟨r, hr', h1, h2⟩)
              · exact Or.inl h
              · exact Or.inr ⟨r, by simp [hr'], h1, h2⟩
            · rintro (h | ⟨r, hr', h1, h2⟩)
              · exact Or.inl h
              · rcases List.mem_cons.mp hr' with rfl | hr'
                · simp [selects, hp] at h2
                · exact Or.inr ⟨r, hr', h1, h2⟩
          | true =>
            simp only [hp, hl] at hev
            injection hev with hev
            subst hev
            simp only [List.mem_cons]
            constructor
            · rintro ((rfl | h) | ⟨r, hr', h1, h2⟩)
              · exact Or.inr ⟨(b', d), by simp, rfl, by simp [selects, hp]⟩
              · exact Or.inl h
              · exact Or.inr ⟨r, Or.inr hr', h1, h2⟩
            · rintro (h | ⟨r, hr', h1, h2⟩)
              · exact Or.inl (Or.inr h)
              · rcases hr' with rfl | hr'
                · exact Or.inl (Or.inl h1.symm)
                · exact Or.inr ⟨r, hr', h1, h2⟩

/-- pointwise relation between the expression states before and after a row list -/
def Related (rows : List (Bid × Val)) : List (Expr × EState) → List (Expr × EState) → Prop
  | [], [] => True
  | (e, st) :: r, (e', st') :: r' => e' = e ∧ runExpr e st rows = .ok st' ∧ Related rows r r'
  | _, _ => False

theorem related_refl : ∀ (sts : List (Expr × EState)), Related [] sts sts
  | [] => trivial
  | (e, st) :: r => ⟨rfl, rfl, related_refl r⟩

theorem runExpr_append (e : Expr) : ∀ (r1 r2 : List (Bid × Val)) (st s1 s2 : EState),
    runExpr e st r1 = .ok s1 → runExpr e s1 r2 = .ok s2 → runExpr e st (r1 ++ r2) = .ok s2 := by
  intro r1
  induction r1 with
  | nil =>
    intro r2 st s1 s2 h1 h2
    simp only [runExpr] at h1
    injection h1 with h1
    subst h1
    simpa using h2
  | cons r rest ih =>
    intro r2 st s1 s2 h1 h2
    obtain ⟨b, d⟩ := r
    simp only [runExpr, List.cons_append] at h1 ⊢
    cases hev : evaluate e st b d with
    | error x => simp [hev] at h1
    | ok st1 =>
      simp only [hev] at h1 ⊢
      exact ih r2 st1 s1 s2 h1 h2

theorem related_trans {r1 r2 : List (Bid × Val)} : ∀ (a b c : List (Expr × EState)),
    Related r1 a b → Related r2 b c → Related (r1 ++ r2) a c
  | [], [], [], _, _ => trivial
  | (e, st) :: ra, (e1, s1) :: rb, (e2, s2) :: rc, h1, h2 => by
    obtain ⟨he1, hr1, ht1⟩ := h1
    obtain ⟨he2, hr2, ht2⟩ := h2
    subst he1
    subst he2
    exact ⟨rfl, runExpr_append _ _ _ _ _ _ hr1 hr2, related_trans ra rb rc ht1 ht2⟩
  | [], [], _ :: _, _, h2 => by simp [Related] at h2
  | [], _ :: _, _, h1, _ => by simp [Related] at h1
  | _ :: _, [], _, h1, _ => by simp [Related] at h1
  | _ :: _, _ :: _, [], _, h2 => by simp [Related] at h2

theorem evalAll_related (b : Bid) (d : Val) : ∀ (sts sts' : List (Expr × EState)),
    evalAll sts b d = .ok sts' → Related [(b, d)] sts sts' := by
  intro sts
  induction sts with
  | nil =>
    intro sts' h
    simp only [evalAll] at h
    injection h with h
    subst h
    trivial
  | cons p rest ih =>
    intro sts' h
    obtain ⟨e, st⟩ := p
    simp only [evalAll] at h
    cases hev : evaluate e st b d with
    | error x => simp [hev] at h
    | ok st1 =>
      simp only [hev] at h
      cases hr : evalAll rest b d with
      | error x => simp [hr] at h
      | ok rest' =>
        simp only [hr] at h
        injection h with h
        subst h
        exact ⟨rfl, by simp [runExpr, hev], ih rest' hr⟩

theorem queryLoop_related : ∀ (rows : List (Bid × Val)) (sts sts' : List (Expr × EState)),
    queryLoop sts rows = .ok sts' → Related rows sts sts' := by
  intro rows
  induction rows with
  | nil =>
    intro sts sts' h
    simp only [queryLoop] at h
    injection h with h
    subst h
    exact related_refl _
  | cons r rest ih =>
    intro sts sts' h
    obtain ⟨b, d⟩ := r
    simp only [queryLoop] at h
    cases hev : evalAll sts b d with
    | error x => simp [hev] at h
    | ok sts1 =>
      simp only [hev] at h
      have := related_trans _ _ _ (evalAll_related b d sts sts1 hev) (ih sts1 sts' h)
      simpa using this

theorem related_mem (rows : List (Bid × Val)) : ∀ (es : List Expr) (sts' : List (Expr × EState)),
    Related rows (es.map fun e => (e, EState.empty)) sts' →
    ∀ b, b ∈ sts'.flatMap (fun p => p.2.retained) ↔
      ∃ e ∈ es, ∃ st, runExpr e EState.empty rows = .ok st ∧ b ∈ st.retained
  | [], [], _, b => by simp
  | [], _ :: _, h, _ => by simp [Related] at h
  | _ :: _, [], h, _ => by simp [Related] at h
  | e :: es, (e', st') :: rest, h, b => by
    simp only [List.map_cons, Related] at h
    obtain ⟨_, hr, ht⟩ := h
    have ih := related_mem rows es rest ht b
    simp only [List.flatMap_cons, List.mem_append, ih, List.mem_cons]
    constructor
    · rintro (h | ⟨e1, he1, st1, hr1, hb1⟩)
      · exact ⟨e, Or.inl rfl, st', hr, h⟩
      · exact ⟨e1, Or.inr he1, st1, hr1, hb1⟩
    · rintro ⟨e1, (rfl | he1), st1, hr1, hb1⟩
      · left
        rw [hr] at hr1
        injection hr1 with hr1
        rw [hr1]; exact hb1
      · exact Or.inr ⟨e1, he1, st1, hr1, hb1⟩

theorem query_mem {es : List Expr} {rows : List (Bid × Val)} {l : List Bid} (h : query es rows = .ok l) :
    ∀ b, b ∈ l ↔ ∃ e ∈ es, ∃ st, runExpr e EState.empty rows = .ok st ∧ b ∈ st.retained := by
  unfold query at h
  cases hq : queryLoop (es.map fun e => (e, EState.empty)) rows with
  | error x => simp [hq] at h
  | ok sts =>
    simp only [hq] at h
    injection h with h
    subst h
    exact related_mem rows es sts (queryLoop_related rows _ sts hq)

theorem mem_insertUniq {b x : Bid} {l : List Bid} : x ∈ insertUniq b l ↔ x = b ∨ x ∈ l := by
  induction l with
  | nil => simp [insertUniq]
  | cons y rest ih =>
    simp only [insertUniq]
    split
    · rename_i h; subst h; simp
    · split
      · simp
      · simp only [List.mem_cons, ih]
        constructor
        · rintro (h | h | h) <;> simp [h]
        · rintro (h | h | h) <;> simp [h]

theorem mem_findOut {x : Bid} {l : List Bid} : x ∈ findOut l ↔ x ∈ l := by
  induction l with
  | nil => simp [findOut]
  | cons y rest ih =>
    simp only [findOut, List.foldr_cons] at ih ⊢
    rw [mem_insertUniq, ih]
    simp

/-- strictly increasing list of build ids (`sorted(set)`) -/
def StrictSorted (l : List Bid) : Prop := l.Pairwise (fun a b => strLe a b = true ∧ a ≠ b)

theorem strictSorted_insertUniq {b : Bid} {l : List Bid} (h : StrictSorted l) : StrictSorted (insertUniq b l) := by
  induction l with
  | nil => simp [insertUniq, StrictSorted]
  | cons y rest ih =>
    simp only [StrictSorted, List.pairwise_cons] at h
    simp only [insertUniq]
    split
    · simpa [StrictSorted, List.pairwise_cons] using h
    · rename_i hne
      split
      · rename_i hle
        simp only [StrictSorted, List.pairwise_cons]
        refine ⟨?_, h.1, h.2⟩
        intro a ha
        rcases List.mem_cons.mp ha with rfl | ha
        · exact ⟨hle, hne⟩
        · have := h.1 a ha
          refine ⟨strLe_trans hle this.1, ?_⟩
          intro hba
          subst hba
          exact this.2 (strLe_antisymm this.1 hle)
      · rename_i hle
        have hyb : strLe y b = true := by
          rcases strLe_total y b with h' | h'
          · exact h'
          · exact absurd h' hle
        simp only [StrictSorted, List.pairwise_cons]
        refine ⟨?_, ih h.2⟩
        intro a ha
        rcases mem_insertUniq.mp ha with rfl | ha
        · exact ⟨hyb, fun h' => hne h'.symm⟩
        · exact h.1 a ha

theorem strictSorted_findOut (l : List Bid) : StrictSorted (findOut l) := by
  induction l with
  | nil => simp [findOut, StrictSorted]
  | cons y rest ih =>
    simp only [findOut, List.foldr_cons] at ih ⊢
    exact strictSorted_insertUniq ih

end Retention
