import BobModel.Proofs.C07Loc
/-
C07 helper lemmas, part 2: the invariant of a whole invocation (`cookPkg` / `cookList` / `cook`) by
structural induction over the package tree.
-/
namespace Download

/-- a workspace path identifies one package of the project (Bob's directory numbering, C16) -/
def NoAlias (N : List Pkg) : Prop := ∀ u ∈ N, ∀ v ∈ N, u.path = v.path → u = v

/-- the Variant-Id determines the recipe part of a package (C02) -/
def VidOK (ρ : Vid → RSig) (N : List Pkg) : Prop := ∀ u ∈ N, ρ u.info.vid = u.info.rsig

def Inv (E : Env) (ρ : Vid → RSig) (s : St) : Prop := ∀ p, InvLoc E ρ (s.loc p)

def MemWF (N : List Pkg) (m : Mem) : Prop :=
  ∀ q v, m.wasRun q = some v → ∃ u ∈ N, u.path = q ∧ u.info.vid = v

/-- what is marked as run holds the result of a local build of the project state the builder believes in -/
def MemOK (E : Env) (N : List Pkg) (r : Run) : Prop :=
  ∀ u ∈ N, r.mem.wasRun u.path = some u.info.vid → r.st.disk u.path = some (value E (eff r.mem.fixed u))

def CacheOK (E : Env) (N : List Pkg) (m : Mem) : Prop :=
  ∀ u ∈ N, ∀ b, m.bids u.path = some b → b = tb E (eff m.fixed u)

structure G (E : Env) (ρ : Vid → RSig) (N : List Pkg) (r : Run) : Prop where
  inv : Inv E ρ r.st
  arch : ArchOK E r.arch
  wf : MemWF N r.mem
  ok : MemOK E N r
  cache : CacheOK E N r.mem

/-- what a (partial) cook does to the rest of the world: `p` = the workspace that is being cooked -/
structure StepAt (p : Option Path) (r r' : Run) : Prop where
  fixed : r'.mem.fixed = r.mem.fixed
  mono : ∀ q v, r.mem.wasRun q = some v → r'.mem.wasRun q = some v
  frame : ∀ q, some q ≠ p → r'.mem.wasRun q = none → r'.st.loc q = r.st.loc q

theorem StepAt.refl (p : Option Path) (r : Run) : StepAt p r r := ⟨rfl, fun _ _ h => h, fun _ _ _ => rfl⟩

theorem StepAt.trans {p : Option Path} {a b c : Run} (h1 : StepAt p a b) (h2 : StepAt p b c) : StepAt p a c := by
  refine ⟨by rw [h2.fixed, h1.fixed], fun q v h => h2.mono q v (h1.mono q v h), ?_⟩
  intro q hq hc
  have hb : b.mem.wasRun q = none := by
    cases hbq : b.mem.wasRun q with
    | none => rfl
    | some v => rw [h2.mono q v hbq] at hc; cases hc
  rw [h2.frame q hq hc, h1.frame q hq hb]

theorem StepAt.weaken {p : Option Path} {a b : Run} (h : StepAt none a b) : StepAt p a b :=
  ⟨h.fixed, h.mono, fun q _ hc => h.frame q (by simp) hc⟩

theorem StepAt.close {p : Path} {a b : Run} (h : StepAt (some p) a b) (hp : b.mem.wasRun p ≠ none) : StepAt none a b := by
  refine ⟨h.fixed, h.mono, ?_⟩
  intro q _ hc
  apply h.frame q _ hc
  intro e
  simp only [Option.some.injEq] at e
  rw [e] at hc
  exact hp hc

/-! ### `Run.exec` -/

theorem exec_loc_same (E : Env) (r : Run) (ops : List Op) (p : Path) (h : ∀ op ∈ ops, op.path = p) :
    (r.exec E ops).st.loc p = ops.foldl (locOp E) (r.st.loc p) :=
  loc_applyOps_same E p ops (r.st, r.arch) h

theorem exec_loc_other (E : Env) (r : Run) (ops : List Op) (p q : Path) (hq : p ≠ q) (h : ∀ op ∈ ops, op.path = p) :
    (r.exec E ops).st.loc q = r.st.loc q :=
  loc_applyOps_other E p q hq ops (r.st, r.arch) h

theorem exec_arch (E : Env) (r : Run) (ops : List Op) (h : ∀ op ∈ ops, op.isUpload = false) :
    (r.exec E ops).arch = r.arch :=
  arch_applyOps E ops (r.st, r.arch) h

section
variable (E : Env) (ρ : Vid → RSig) (N : List Pkg)

/-- a block of micro-operations on a workspace that is not marked as run -/
theorem G_exec {r : Run} (hG : G E ρ N r) (p : Path) (hw : r.mem.wasRun p = none) (ops : List Op)
    (hops : ∀ op ∈ ops, op.path = p ∧ op.isUpload = false)
    (hI : InvLoc E ρ (ops.foldl (locOp E) (r.st.loc p))) :
    G E ρ N (r.exec E ops) ∧ StepAt (some p) r (r.exec E ops) := by
  have hpath : ∀ op ∈ ops, op.path = p := fun op h => (hops op h).1
  have hup : ∀ op ∈ ops, op.isUpload = false := fun op h => (hops op h).2
  refine ⟨⟨?_, ?_, hG.wf, ?_, hG.cache⟩, ⟨rfl, fun _ _ h => h, ?_⟩⟩
  · intro q
    by_cases hq : q = p
    · subst hq; rw [exec_loc_same E r ops q hpath]; exact hI
    · rw [exec_loc_other E r ops p q (fun e => hq e.symm) hpath]; exact hG.inv q
  · rw [exec_arch E r ops hup]; exact hG.arch
  · intro u hu hrun
    have hne : p ≠ u.path := by
      intro e
      have hrun' : r.mem.wasRun u.path = some u.info.vid := hrun
      rw [← e, hw] at hrun'; cases hrun'
    have := congrArg Loc.disk (exec_loc_other E r ops p u.path hne hpath)
    have h2 := hG.ok u hu hrun
    exact this.trans h2
  · intro q hq _
    have : p ≠ q := by
      intro e; apply hq; rw [e]
    exact exec_loc_other E r ops p q this hpath

/-- changes of the in-memory bookkeeping that keep `wasRun`, `fixed` and the build-id cache -/
theorem G_mem {r r' : Run} (hG : G E ρ N r) (hst : r'.st = r.st) (ha : r'.arch = r.arch)
    (hw : r'.mem.wasRun = r.mem.wasRun) (hf : r'.mem.fixed = r.mem.fixed) (hc : CacheOK E N r'.mem) :
    G E ρ N r' ∧ StepAt none r r' := by
  refine ⟨⟨by rw [hst]; exact hG.inv, by rw [ha]; exact hG.arch, ?_, ?_, hc⟩, ⟨hf, ?_, ?_⟩⟩
  · intro q v h; rw [hw] at h; exact hG.wf q v h
  · intro u hu h
    rw [hw] at h
    rw [hst, hf]
    exact hG.ok u hu h
  · intro q v h; rw [hw]; exact h
  · intro q _ _; rw [hst]

theorem self_mem_nodes (t : Pkg) : t ∈ nodes t := by
  cases t with
  | mk i ds => simp [nodes]

theorem mem_nodesL {d : Pkg} {ds : List Pkg} (h : d ∈ ds) : ∀ u ∈ nodes d, u ∈ nodesL ds := by
  induction ds with
  | nil => cases h
  | cons x xs ih =>
    intro u hu
    simp only [nodesL, List.mem_append]
    rcases List.mem_cons.mp h with rfl | h'
    · exact Or.inl hu
    · exact Or.inr (ih h' u hu)

theorem eff_info_path (F : Path → Bool) (t : Pkg) : (eff F t).path = t.path := by
  cases t with
  | mk i ds => simp [eff, Pkg.path, Pkg.info]

/-! ### `_getBuildId` computes the Build-Id of the believed project state -/

def GBP (t : Pkg) : Prop :=
  ∀ m, (∀ u ∈ nodes t, u ∈ N) → CacheOK E N m →
    (getBuildId E t m).1 = tb E (eff m.fixed t) ∧ (getBuildId E t m).2.fixed = m.fixed ∧
    (getBuildId E t m).2.wasRun = m.wasRun ∧ (getBuildId E t m).2.tried = m.tried ∧ CacheOK E N (getBuildId E t m).2

def GBL (ds : List Pkg) : Prop :=
  ∀ m, (∀ u ∈ nodesL ds, u ∈ N) → CacheOK E N m →
    (getBuildIds E ds m).1 = tbs E (effs m.fixed ds) ∧ (getBuildIds E ds m).2.fixed = m.fixed ∧
    (getBuildIds E ds m).2.wasRun = m.wasRun ∧ (getBuildIds E ds m).2.tried = m.tried ∧ CacheOK E N (getBuildIds E ds m).2

theorem gbp_mk (hNA : NoAlias N) (i : PInfo) (ds : List Pkg) (ih : GBL E N ds) : GBP E N (.mk i ds) := by
  intro m hsub hc
  have htN : Pkg.mk i ds ∈ N := hsub _ (self_mem_nodes _)
  unfold getBuildId
  cases hb : m.bids i.path with
  | some b =>
    simp only
    refine ⟨hc _ htN b hb, ?_, ?_, ?_, hc⟩ <;> first | rfl | trivial
  | none =>
    simp only
    obtain ⟨h1, h2, h3, h4, h5⟩ := ih m (fun u hu => hsub u (by simp [nodes, hu])) hc
    cases hg : getBuildIds E ds m with
    | mk bs m1 =>
      rw [hg] at h1 h2 h3 h4 h5
      simp only at h1 h2 h3 h4 h5 ⊢
      have hb0 : E.B i.rsig (srcNow m1 i) bs = tb E (eff m.fixed (.mk i ds)) := by
        simp only [eff, tb, srcNow, h1, h2]
      refine ⟨hb0, h2, h3, h4, ?_⟩
      intro u hu b' hb'
      simp only at hb'
      by_cases hp : u.path = i.path
      · have : u = .mk i ds := hNA u hu _ htN hp
        rw [hp, upd_same] at hb'
        simp only [Option.some.injEq] at hb'
        rw [← hb', hb0, this, h2]
      · rw [upd_other _ _ _ _ (fun e => hp e.symm)] at hb'
        have := h5 u hu b' hb'
        simpa [h2] using this

theorem gbl_nil : GBL E N [] := by
  intro m _ hc
  exact ⟨rfl, rfl, rfl, rfl, hc⟩

theorem gbl_cons (d : Pkg) (ds : List Pkg) (hd : GBP E N d) (hds : GBL E N ds) : GBL E N (d :: ds) := by
  intro m hsub hc
  unfold getBuildIds
  obtain ⟨a1, a2, a3, a4, a5⟩ := hd m (fun u hu => hsub u (by simp [nodesL, hu])) hc
  cases hg : getBuildId E d m with
  | mk b m1 =>
    rw [hg] at a1 a2 a3 a4 a5
    simp only at a1 a2 a3 a4 a5 ⊢
    obtain ⟨b1, b2, b3, b4, b5⟩ := hds m1 (fun u hu => hsub u (by simp [nodesL, hu])) a5
    cases hg2 : getBuildIds E ds m1 with
    | mk bs m2 =>
      rw [hg2] at b1 b2 b3 b4 b5
      simp only at b1 b2 b3 b4 b5 ⊢
      refine ⟨?_, by rw [b2, a2], by rw [b3, a3], by rw [b4, a4], b5⟩
      simp only [effs, tbs, a1, b1, a2]

theorem gbp_all (hNA : NoAlias N) (t : Pkg) : GBP E N t :=
  Pkg.rec (motive_1 := fun t => GBP E N t) (motive_2 := fun ds => GBL E N ds)
    (fun i ds ih => gbp_mk E N hNA i ds ih) (gbl_nil E N) (fun d ds hd hds => gbl_cons E N d ds hd hds) t

/-! ### contents of cooked dependencies -/

theorem contents_eq (F : Path → Bool) (s : St) (ds : List Pkg)
    (h : ∀ d ∈ ds, s.disk d.path = some (value E (eff F d))) : contentsOf s ds = values E (effs F ds) := by
  induction ds with
  | nil => rfl
  | cons d ds ih =>
    simp only [contentsOf, List.map_cons, effs, values]
    rw [h d (by simp)]
    simp only [Option.getD_some, List.cons.injEq, true_and]
    exact ih (fun x hx => h x (by simp [hx]))

/-! ### `_wasAlreadyRun`, `_setAlreadyRun` -/

theorem war_spec (hNA : NoAlias N) {r : Run} (hG : G E ρ N r) (i : PInfo) (ds : List Pkg) (htN : Pkg.mk i ds ∈ N) :
    (wasAlreadyRun i r = (true, r) ∧ r.mem.wasRun i.path = some i.vid) ∨
    (wasAlreadyRun i r = (false, r) ∧ r.mem.wasRun i.path = none) := by
  unfold wasAlreadyRun
  cases hw : r.mem.wasRun i.path with
  | none => exact Or.inr ⟨rfl, rfl⟩
  | some v =>
    obtain ⟨u, hu, hp, hv⟩ := hG.wf _ _ hw
    have : u = .mk i ds := hNA u hu _ htN hp
    have hvv : v = i.vid := by rw [← hv, this]; rfl
    simp only [hvv, ne_eq, not_true_eq_false, if_false]
    refine Or.inl ⟨?_, ?_⟩ <;> first | rfl | trivial

theorem sar_spec (hNA : NoAlias N) {r : Run} (hG : G E ρ N r) (i : PInfo) (ds : List Pkg) (htN : Pkg.mk i ds ∈ N)
    (hw : r.mem.wasRun i.path = none)
    (hd : r.st.disk i.path = some (value E (eff r.mem.fixed (.mk i ds)))) :
    G E ρ N (setAlreadyRun i r) ∧ StepAt none r (setAlreadyRun i r) ∧
    (setAlreadyRun i r).mem.wasRun i.path = some i.vid := by
  refine ⟨⟨hG.inv, hG.arch, ?_, ?_, hG.cache⟩, ⟨rfl, ?_, fun _ _ _ => rfl⟩, by simp [setAlreadyRun, upd_same]⟩
  · intro q v h
    simp only [setAlreadyRun] at h
    by_cases hq : q = i.path
    · rw [hq, upd_same] at h
      simp only [Option.some.injEq] at h
      exact ⟨_, htN, hq.symm ▸ rfl, h⟩
    · rw [upd_other _ _ _ _ (fun e => hq e.symm)] at h
      exact hG.wf q v h
  · intro u hu h
    simp only [setAlreadyRun] at h ⊢
    by_cases hq : u.path = i.path
    · have : u = .mk i ds := hNA u hu _ htN hq
      rw [this]; exact hd
    · rw [upd_other _ _ _ _ (fun e => hq e.symm)] at h
      exact hG.ok u hu h
  · intro q v h
    simp only [setAlreadyRun]
    by_cases hq : q = i.path
    · rw [hq, hw] at h; cases h
    · rw [upd_other _ _ _ _ (fun e => hq e.symm)]; exact h

/-! ### upload -/

theorem upload_st (s : St) (a : Archive) (p : Path) (b : BuildId) : (applyOp E (s, a) (.upload p b)).1 = s := by
  simp only [applyOp]
  split <;> rfl

theorem upload_archOK (s : St) (a : Archive) (p : Path) (b : BuildId) (c : Content) (ha : ArchOK E a)
    (haud : s.audit p = some (E.H c)) (hd : s.disk p = some c) (t0 : Pkg) (ht : tb E t0 = b) (hc : c = value E t0) :
    ArchOK E (applyOp E (s, a) (.upload p b)).2 := by
  simp only [applyOp]
  split
  · rename_i au h1 h2
    intro b' x hx
    change upd a b _ b' = some x at hx
    by_cases hb : b' = b
    · rw [hb, upd_same] at hx
      simp only [Option.some.injEq] at hx
      left
      refine ⟨t0, by rw [hb]; exact ht, ?_⟩
      rw [← hx]
      rw [haud] at h1
      simp only [Option.some.injEq] at h1
      rw [hd, ← h1, hc]
      rfl
    · rw [upd_other _ _ _ _ (fun e => hb e.symm)] at hx
      exact ha b' x hx
  · exact ha

theorem exec_upload_st (r : Run) (p : Path) (b : BuildId) : (r.exec E [.upload p b]).st = r.st := by
  show (applyOp E (r.st, r.arch) (.upload p b)).1 = r.st
  exact upload_st E _ _ _ _

theorem exec_upload_arch (r : Run) (p : Path) (b : BuildId) :
    (r.exec E [.upload p b]).arch = (applyOp E (r.st, r.arch) (.upload p b)).2 := rfl

/-! ### the download phase -/

theorem dlPhase_spec (hB : BidSound E) {r : Run} (hG : G E ρ N r) (cfg : Cfg) (depth : Nat) (i : PInfo) (ds : List Pkg)
    (b : BuildId) (hw : r.mem.wasRun i.path = none) (hP : Prep i (r.st.loc i.path))
    (hb : b = tb E (eff r.mem.fixed (.mk i ds))) :
    (Inv E ρ (dlPhase E cfg depth i b r).2.st ∧ ArchOK E (dlPhase E cfg depth i b r).2.arch) ∧
    ((dlPhase E cfg depth i b r).1 ≠ .error →
      G E ρ N (dlPhase E cfg depth i b r).2 ∧ StepAt (some i.path) r (dlPhase E cfg depth i b r).2 ∧
      (dlPhase E cfg depth i b r).2.mem.wasRun i.path = none ∧ Prep i ((dlPhase E cfg depth i b r).2.st.loc i.path)) ∧
    ((dlPhase E cfg depth i b r).1 = .downloaded →
      (dlPhase E cfg depth i b r).2.st.disk i.path = some (value E (eff r.mem.fixed (.mk i ds)))) := by
  unfold dlPhase
  split
  · exact ⟨⟨hG.inv, hG.arch⟩, fun _ => ⟨hG, StepAt.refl _ _, hw, hP⟩, fun h => by cases h⟩
  · simp only
    have hx : ∀ y, r.arch b = some y → Honest E b y ∨ Corrupt E y := fun y hy => hG.arch b y hy
    obtain ⟨hI, hP', hdl⟩ := dl_block E ρ cfg depth i b (r.st.loc i.path) (r.arch b) hx (hG.inv i.path) hP
    have hops := dlOps_path E cfg depth i b (r.st.loc i.path) (r.arch b)
    obtain ⟨hG1, hS1⟩ := G_exec E ρ N hG i.path hw _ hops hI
    have hloc := exec_loc_same E r (dlOps E cfg depth i b (r.st.loc i.path) (r.arch b)).1 i.path (fun op h => (hops op h).1)
    have hG2 := G_mem E ρ N (r' := setTried i (r.exec E (dlOps E cfg depth i b (r.st.loc i.path) (r.arch b)).1)) hG1
      rfl rfl rfl rfl hG1.cache
    cases ho : (dlOps E cfg depth i b (r.st.loc i.path) (r.arch b)).2 with
    | error =>
      simp only
      exact ⟨⟨hG1.inv, hG1.arch⟩, fun h => absurd rfl h, fun h => by cases h⟩
    | no =>
      simp only
      refine ⟨⟨hG2.1.inv, hG2.1.arch⟩, fun _ => ⟨hG2.1, hS1.trans hG2.2.weaken, hw, ?_⟩, fun h => by cases h⟩
      show Prep i ((r.exec E _).st.loc i.path)
      rw [hloc]; exact hP'
    | downloaded =>
      simp only
      refine ⟨⟨hG2.1.inv, hG2.1.arch⟩, fun _ => ⟨hG2.1, hS1.trans hG2.2.weaken, hw, ?_⟩, fun _ => ?_⟩
      · show Prep i ((r.exec E _).st.loc i.path)
        rw [hloc]; exact hP'
      · obtain ⟨t0, ht0, hd0⟩ := hdl ho
        have hv : value E t0 = value E (eff r.mem.fixed (.mk i ds)) := hB _ _ (by rw [ht0, hb])
        have : ((r.exec E (dlOps E cfg depth i b (r.st.loc i.path) (r.arch b)).1).st.loc i.path).disk = some (value E t0) := by
          rw [hloc]; exact hd0
        rw [← hv]
        exact this

/-! ### the end of the package branch -/

theorem finish_spec (hH : Function.Injective E.H) (hNA : NoAlias N) (hV : VidOK ρ N) {r : Run} (hG : G E ρ N r)
    (cfg : Cfg) (depth : Nat) (i : PInfo) (ds : List Pkg) (htN : Pkg.mk i ds ∈ N) (b : BuildId)
    (hb : b = tb E (eff r.mem.fixed (.mk i ds))) (hsrc : srcNow r.mem i = i.src)
    (hdeps : ∀ d ∈ ds, r.mem.wasRun d.path = some d.info.vid) (hdN : ∀ d ∈ ds, d ∈ N)
    (hP : r.mem.wasRun i.path = none → Prep i (r.st.loc i.path)) :
    ∃ r', finishPkg E cfg depth i ds b r = .ok r' ∧ G E ρ N r' ∧ StepAt none r r' ∧
      r'.mem.wasRun i.path = some i.vid := by
  unfold finishPkg
  rcases war_spec E ρ N hNA hG i ds htN with ⟨hw, hrun⟩ | ⟨hw, hrun⟩
  · simp only [hw, if_true]
    exact ⟨r, rfl, hG, StepAt.refl _ _, hrun⟩
  · simp only [hw, Bool.false_eq_true, if_false]
    have hcont : contentsOf r.st ds = values E (effs r.mem.fixed ds) :=
      contents_eq E r.mem.fixed r.st ds (fun d hd => hG.ok d (hdN d hd) (hdeps d hd))
    have hρ : ρ i.vid = i.rsig := hV _ htN
    obtain ⟨hI, hdisk, haud⟩ := pkg_block E ρ hH cfg i b (contentsOf r.st ds) r.log.length (r.st.loc i.path)
      (hG.inv i.path) (hP hrun) hρ
    have hops := pkgOps_path E cfg i b (contentsOf r.st ds) r.log.length (r.st.loc i.path)
    obtain ⟨hG1, hS1⟩ := G_exec E ρ N hG i.path hrun _ hops hI
    have hloc := exec_loc_same E r (pkgOps E cfg i b (contentsOf r.st ds) r.log.length (r.st.loc i.path)).1 i.path
      (fun op h => (hops op h).1)
    have hval : value E (eff r.mem.fixed (.mk i ds)) = E.semP i.rsig (E.semB i.rsig i.src (contentsOf r.st ds)) := by
      simp only [eff, value, hcont]
      have : (if r.mem.fixed i.path = true then i.src else i.pred.getD i.src) = i.src := hsrc
      rw [this]
    have hd1 : (r.exec E (pkgOps E cfg i b (contentsOf r.st ds) r.log.length (r.st.loc i.path)).1).st.disk i.path
        = some (value E (eff r.mem.fixed (.mk i ds))) := by
      have := congrArg Loc.disk hloc
      rw [hval, ← hdisk]
      exact this
    obtain ⟨hG2, hS2, hw2⟩ := sar_spec E ρ N hNA hG1 i ds htN hrun hd1
    have hS : StepAt none r (setAlreadyRun i (r.exec E (pkgOps E cfg i b (contentsOf r.st ds) r.log.length (r.st.loc i.path)).1)) :=
      (hS1.trans hS2.weaken).close (by rw [hw2]; simp)
    split
    · rename_i hc
      simp only [Bool.and_eq_true, decide_eq_true_eq] at hc
      refine ⟨_, rfl, ?_, ?_, hw2⟩
      · -- the uploaded artifact is honest
        refine ⟨?_, ?_, hG2.wf, ?_, hG2.cache⟩
        · rw [exec_upload_st]; exact hG2.inv
        · have haud1 : (r.exec E (pkgOps E cfg i b (contentsOf r.st ds) r.log.length (r.st.loc i.path)).1).st.audit i.path
              = some (E.H (value E (eff r.mem.fixed (.mk i ds)))) := by
            have := congrArg Loc.audit hloc
            rw [hval, ← haud hc.1.1]
            exact this
          rw [exec_upload_arch]
          exact upload_archOK E _ _ i.path b _ hG2.arch haud1 hd1 _ hb.symm rfl
        · intro u hu h
          rw [exec_upload_st]
          exact hG2.ok u hu h
      · refine hS.trans ⟨rfl, fun _ _ h => h, ?_⟩
        intro q _ _
        rw [exec_upload_st]
    · exact ⟨_, rfl, hG2, hS, hw2⟩

/-! ### the induction -/

def Post (r : Run) (t : Pkg) : Res → Prop
  | .ok r' => G E ρ N r' ∧ StepAt none r r' ∧ r'.mem.wasRun t.path = some t.info.vid
  | .abort r' => Inv E ρ r'.st ∧ ArchOK E r'.arch
  | .restart r' => G E ρ N r'

def PostL (r : Run) (ds : List Pkg) : Res → Prop
  | .ok r' => G E ρ N r' ∧ StepAt none r r' ∧ ∀ d ∈ ds, r'.mem.wasRun d.path = some d.info.vid
  | .abort r' => Inv E ρ r'.st ∧ ArchOK E r'.arch
  | .restart r' => G E ρ N r'

def KPkg (cfg : Cfg) (t : Pkg) : Prop :=
  ∀ depth r, (∀ u ∈ nodes t, u ∈ N) → G E ρ N r → Post E ρ N r t (cookPkg E cfg depth t r)

def KList (cfg : Cfg) (ds : List Pkg) : Prop :=
  ∀ depth r, (∀ u ∈ nodesL ds, u ∈ N) → G E ρ N r → PostL E ρ N r ds (cookList E cfg depth ds r)

theorem klist_nil (cfg : Cfg) : KList E ρ N cfg [] := by
  intro depth r _ hG
  simp only [cookList, PostL]
  exact ⟨hG, StepAt.refl _ _, fun d hd => by cases hd⟩

theorem klist_cons (cfg : Cfg) (d : Pkg) (ds : List Pkg) (hd : KPkg E ρ N cfg d) (hds : KList E ρ N cfg ds) :
    KList E ρ N cfg (d :: ds) := by
  intro depth r hsub hG
  have h1 := hd depth r (fun u hu => hsub u (by simp [nodesL, hu])) hG
  simp only [cookList]
  cases hc : cookPkg E cfg depth d r with
  | abort r1 => rw [hc] at h1; exact h1
  | restart r1 => rw [hc] at h1; exact h1
  | ok r1 =>
    rw [hc] at h1
    obtain ⟨hG1, hS1, hw1⟩ := h1
    have h2 := hds depth r1 (fun u hu => hsub u (by simp [nodesL, hu])) hG1
    simp only
    cases hc2 : cookList E cfg depth ds r1 with
    | abort r2 => rw [hc2] at h2; exact h2
    | restart r2 => rw [hc2] at h2; exact h2
    | ok r2 =>
      rw [hc2] at h2
      obtain ⟨hG2, hS2, hw2⟩ := h2
      refine ⟨hG2, hS1.trans hS2, ?_⟩
      intro x hx
      rcases List.mem_cons.mp hx with rfl | hx'
      · exact hS2.mono _ _ hw1
      · exact hw2 x hx'

theorem checkSrc_spec {r : Run} (hG : G E ρ N r) (i : PInfo) :
    (∀ r5, checkSrc i r = some r5 → G E ρ N r5) ∧ (checkSrc i r = none → srcNow r.mem i = i.src) := by
  unfold checkSrc
  by_cases h : srcNow r.mem i = i.src
  · simp [h]
  · simp only [ne_eq, h, not_false_eq_true, decide_true, if_true, Option.some.injEq, forall_eq']
    refine ⟨⟨hG.inv, hG.arch, ?_, ?_, ?_⟩, fun e => by cases e⟩
    · intro q v hv; simp [handleChangedBuildId, clearDownloadTried] at hv
    · intro u _ hv; simp [handleChangedBuildId, clearDownloadTried] at hv
    · intro u _ b hb; simp [handleChangedBuildId, clearDownloadTried] at hb

theorem kpkg_mk (hB : BidSound E) (hH : Function.Injective E.H) (hNA : NoAlias N) (hV : VidOK ρ N) (cfg : Cfg)
    (i : PInfo) (ds : List Pkg) (ih : KList E ρ N cfg ds) : KPkg E ρ N cfg (.mk i ds) := by
  intro depth r hsub hG
  have htN : Pkg.mk i ds ∈ N := hsub _ (self_mem_nodes _)
  have hdsN : ∀ u ∈ nodesL ds, u ∈ N := fun u hu => hsub u (by simp [nodes, hu])
  have hdN : ∀ d ∈ ds, d ∈ N := fun d hd => hdsN d (mem_nodesL hd d (self_mem_nodes d))
  unfold cookPkg
  rcases war_spec E ρ N hNA hG i ds htN with ⟨hw, hrun⟩ | ⟨hw, hrun⟩
  · simp only [hw, if_true, Post]
    exact ⟨hG, StepAt.refl _ _, hrun⟩
  · simp only [hw, Bool.false_eq_true, if_false]
    -- `_preparePackageStep`
    obtain ⟨hI1, hP1⟩ := prep_block E ρ i (r.st.loc i.path) (hG.inv i.path)
    have hops1 : ∀ op ∈ prepOps i (r.st.loc i.path), op.path = i.path ∧ op.isUpload = false := prepOps_path i _
    obtain ⟨hG1, hS1⟩ := G_exec E ρ N hG i.path hrun _ hops1 hI1
    have hloc1 := exec_loc_same E r (prepOps i (r.st.loc i.path)) i.path (fun op h => (hops1 op h).1)
    generalize hr1 : r.exec E (prepOps i (r.st.loc i.path)) = r1 at hG1 hS1 hloc1 ⊢
    have hw1 : r1.mem.wasRun i.path = none := by rw [← hr1]; exact hrun
    -- `_getBuildId`
    obtain ⟨g1, g2, g3, g4, g5⟩ := gbp_all E N hNA (.mk i ds) r1.mem hsub hG1.cache
    generalize hbm : getBuildId E (.mk i ds) r1.mem = bm at g1 g2 g3 g4 g5 ⊢
    obtain ⟨hG2, hS2⟩ := G_mem E ρ N (r' := { r1 with mem := bm.2 }) hG1 rfl rfl g3 g2 g5
    have hw2 : ({ r1 with mem := bm.2 } : Run).mem.wasRun i.path = none := by
      show bm.2.wasRun i.path = none
      rw [g3]; exact hw1
    have hP2 : Prep i (({ r1 with mem := bm.2 } : Run).st.loc i.path) := by
      show Prep i (r1.st.loc i.path)
      rw [hloc1]; exact hP1
    have hb2 : bm.1 = tb E (eff ({ r1 with mem := bm.2 } : Run).mem.fixed (.mk i ds)) := by
      show bm.1 = tb E (eff bm.2.fixed (.mk i ds))
      rw [g2]; exact g1
    -- download phase
    obtain ⟨⟨d1, d2⟩, d3, d4⟩ := dlPhase_spec E ρ N hB hG2 cfg depth i ds bm.1 hw2 hP2 hb2
    generalize hd : dlPhase E cfg depth i bm.1 { r1 with mem := bm.2 } = d at d1 d2 d3 d4 ⊢
    obtain ⟨o, r3⟩ := d
    simp only at d1 d2 d3 d4 ⊢
    cases o with
    | error => simp only [Post]; exact ⟨d1, d2⟩
    | downloaded =>
      simp only [Post]
      obtain ⟨hG3, hS3, hw3, _⟩ := d3 (by simp)
      have hfix : r3.mem.fixed = ({ r1 with mem := bm.2 } : Run).mem.fixed := hS3.fixed
      obtain ⟨hG4, hS4, hw4⟩ := sar_spec E ρ N hNA hG3 i ds htN hw3 (by rw [hfix]; exact d4 rfl)
      refine ⟨hG4, ?_, hw4⟩
      exact (((hS1.trans hS2.weaken).trans hS3).trans hS4.weaken).close (by rw [hw4]; simp)
    | no =>
      obtain ⟨hG3, hS3, hw3, hP3⟩ := d3 (by simp)
      simp only
      obtain ⟨c1, c2⟩ := checkSrc_spec E ρ N hG3 i
      cases hcs : checkSrc i r3 with
      | some r5 => simp only [Post]; exact c1 r5 hcs
      | none =>
        simp only
        have h5 := ih (depth + 2) r3 hdsN hG3
        cases hcl : cookList E cfg (depth + 2) ds r3 with
        | abort r5 => rw [hcl] at h5; simp only [Post]; exact h5
        | restart r5 => rw [hcl] at h5; simp only [Post]; exact h5
        | ok r5 =>
          rw [hcl] at h5
          obtain ⟨hG5, hS5, hw5⟩ := h5
          simp only
          have hfix5 : r5.mem.fixed = r3.mem.fixed := hS5.fixed
          have hfix3 : r3.mem.fixed = bm.2.fixed := hS3.fixed
          have hb5 : bm.1 = tb E (eff r5.mem.fixed (.mk i ds)) := by
            rw [hfix5, hfix3]; exact hb2
          have hsrc5 : srcNow r5.mem i = i.src := by
            have := c2 hcs
            simp only [srcNow] at this ⊢
            rw [hfix5]; exact this
          have hP5 : r5.mem.wasRun i.path = none → Prep i (r5.st.loc i.path) := by
            intro h
            rw [hS5.frame i.path (by simp) h]; exact hP3
          obtain ⟨r', hr', hG', hS', hw'⟩ := finish_spec E ρ N hH hNA hV hG5 cfg depth i ds htN bm.1 hb5 hsrc5 hw5 hdN hP5
          rw [hr']
          simp only [Post]
          refine ⟨hG', ?_, hw'⟩
          have hS03 : StepAt (some i.path) r r3 := (hS1.trans hS2.weaken).trans hS3
          exact ((hS03.trans hS5.weaken).trans hS'.weaken).close (by
            show r'.mem.wasRun i.path ≠ none
            rw [hw']; simp)

/-- **every cook keeps the invariant**: workspaces marked as run hold the result of a local build of the project
state the builder believes in, the archive stays honest, also when the cook ends in a `BuildError` or restarts -/
theorem kpkg_all (hB : BidSound E) (hH : Function.Injective E.H) (hNA : NoAlias N) (hV : VidOK ρ N) (cfg : Cfg) (t : Pkg) :
    KPkg E ρ N cfg t :=
  Pkg.rec (motive_1 := fun t => KPkg E ρ N cfg t) (motive_2 := fun ds => KList E ρ N cfg ds)
    (fun i ds ih => kpkg_mk E ρ N hB hH hNA hV cfg i ds ih) (klist_nil E ρ N cfg)
    (fun d ds hd hds => klist_cons E ρ N cfg d ds hd hds) t

/-! ### the restart loop and a whole invocation -/

theorem rounds_spec (hB : BidSound E) (hH : Function.Injective E.H) (hNA : NoAlias N) (hV : VidOK ρ N) (cfg : Cfg)
    (t : Pkg) (hsub : ∀ u ∈ nodes t, u ∈ N) : ∀ (n : Nat) (r : Run), G E ρ N r →
    Post E ρ N r t (cookRounds E cfg t n r) ∨
    (∃ r', cookRounds E cfg t n r = .ok r' ∧ G E ρ N r' ∧ r'.mem.wasRun t.path = some t.info.vid) ∨
    (∃ r', cookRounds E cfg t n r = .abort r' ∧ Inv E ρ r'.st ∧ ArchOK E r'.arch) ∨
    (∃ r', cookRounds E cfg t n r = .restart r' ∧ G E ρ N r') := by
  intro n
  induction n with
  | zero =>
    intro r hG
    exact Or.inr (Or.inr (Or.inr ⟨r, rfl, hG⟩))
  | succ n ih =>
    intro r hG
    have h := kpkg_all E ρ N hB hH hNA hV cfg t 0 r hsub hG
    simp only [cookRounds]
    cases hc : cookPkg E cfg 0 t r with
    | ok r1 =>
      rw [hc] at h
      exact Or.inr (Or.inl ⟨r1, rfl, h.1, h.2.2⟩)
    | abort r1 =>
      rw [hc] at h
      exact Or.inr (Or.inr (Or.inl ⟨r1, rfl, h⟩))
    | restart r1 =>
      rw [hc] at h
      simp only
      rcases ih r1 h with h' | h' | h' | h'
      · cases hc2 : cookRounds E cfg t n r1 with
        | ok r2 => rw [hc2] at h'; exact Or.inr (Or.inl ⟨r2, rfl, h'.1, h'.2.2⟩)
        | abort r2 => rw [hc2] at h'; exact Or.inr (Or.inr (Or.inl ⟨r2, rfl, h'⟩))
        | restart r2 => rw [hc2] at h'; exact Or.inr (Or.inr (Or.inr ⟨r2, rfl, h'⟩))
      · exact Or.inr (Or.inl h')
      · exact Or.inr (Or.inr (Or.inl h'))
      · exact Or.inr (Or.inr (Or.inr h'))

theorem G_init (s : St) (a : Archive) (hI : Inv E ρ s) (hA : ArchOK E a) :
    G E ρ N { st := s, arch := a, mem := Mem.init, log := [] } :=
  ⟨hI, hA, fun q v h => by simp [Mem.init] at h, fun u _ h => by simp [Mem.init] at h,
   fun u _ b h => by simp [Mem.init] at h⟩

/-- **soundness of one invocation** for every configuration: the workspace state stays trustworthy and the archive
honest whatever the outcome; a successful cook leaves in the target's workspace the result of a local build of the
project state the final Build-Ids describe -/
theorem cook_spec (hB : BidSound E) (hH : Function.Injective E.H) (cfg : Cfg) (t : Pkg) (hNA : NoAlias (nodes t))
    (hV : VidOK ρ (nodes t)) (s : St) (a : Archive) (hI : Inv E ρ s) (hA : ArchOK E a) :
    Inv E ρ (cook E cfg t s a).run.st ∧ ArchOK E (cook E cfg t s a).run.arch ∧
    ∀ r', cook E cfg t s a = .ok r' → r'.st.disk t.path = some (value E (eff r'.mem.fixed t)) := by
  have h := rounds_spec E ρ (nodes t) hB hH hNA hV cfg t (fun u hu => hu) (size t + 1) _ (G_init E ρ (nodes t) s a hI hA)
  unfold cook
  rcases h with h | ⟨r', hc, hG, hw⟩ | ⟨r', hc, h1, h2⟩ | ⟨r', hc, hG⟩
  · cases hc : cookRounds E cfg t (size t + 1) { st := s, arch := a, mem := Mem.init, log := [] } with
    | ok r' =>
      rw [hc] at h
      refine ⟨h.1.inv, h.1.arch, ?_⟩
      intro r'' e
      cases e
      exact h.1.ok t (self_mem_nodes t) h.2.2
    | abort r' => rw [hc] at h; exact ⟨h.1, h.2, fun _ e => by cases e⟩
    | restart r' => rw [hc] at h; exact ⟨h.inv, h.arch, fun _ e => by cases e⟩
  · rw [hc]
    refine ⟨hG.inv, hG.arch, ?_⟩
    intro r'' e
    cases e
    exact hG.ok t (self_mem_nodes t) hw
  · rw [hc]; exact ⟨h1, h2, fun _ e => by cases e⟩
  · rw [hc]; exact ⟨hG.inv, hG.arch, fun _ e => by cases e⟩

/-- no prediction is wrong (any more): the believed project state is the real one -/
def PredOK (F : Path → Bool) (t : Pkg) : Prop :=
  ∀ u ∈ nodes t, F u.path = true ∨ u.info.pred = none ∨ u.info.pred = some u.info.src

theorem eff_id (F : Path → Bool) (t : Pkg) : PredOK F t → eff F t = t :=
  Pkg.rec (motive_1 := fun t => PredOK F t → eff F t = t)
    (motive_2 := fun ds => (∀ d ∈ ds, PredOK F d) → effs F ds = ds)
    (fun i ds ih h => by
      have hi := h (.mk i ds) (self_mem_nodes _)
      have hsrc : (if F i.path = true then i.src else i.pred.getD i.src) = i.src := by
        simp only [Pkg.path, Pkg.info] at hi
        rcases hi with h1 | h1 | h1
        · simp [h1]
        · simp [h1]
        · simp [h1]
      simp only [eff, hsrc]
      rw [ih (fun d hd u hu => h u (by simp [nodes, mem_nodesL hd u hu]))])
    (fun _ => rfl)
    (fun d ds ihd ihds h => by
      simp only [effs]
      rw [ihd (h d (by simp)), ihds (fun x hx => h x (by simp [hx]))])
    t

end

end Download
