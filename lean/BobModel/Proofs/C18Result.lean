import BobModel.Proofs.C18Traverse
/-
Helper lemmas for C18: the result walk (`__findResultNodes`) reports real paths inside `valid`;
`valid` only holds nodes on real paths from the root to a result.
-/
namespace PathSpec

/-! ### the result walk -/

theorem mem_insertByName {e x : Edge} {l : List Edge} : x ∈ insertByName e l ↔ x = e ∨ x ∈ l := by
  induction l with
  | nil => simp [insertByName]
  | cons d ds ih =>
    simp only [insertByName]
    split
    · simp
    · simp only [List.mem_cons, ih]
      constructor
      · rintro (h | h | h)
        · exact Or.inr (Or.inl h)
        · exact Or.inl h
        · exact Or.inr (Or.inr h)
      · rintro (h | h | h)
        · exact Or.inr (Or.inl h)
        · exact Or.inl h
        · exact Or.inr (Or.inr h)

theorem mem_sortByName {x : Edge} {l : List Edge} : x ∈ sortByName l ↔ x ∈ l := by
  induction l with
  | nil => simp [sortByName]
  | cons d ds ih =>
    have : sortByName (d :: ds) = insertByName d (sortByName ds) := rfl
    rw [this, mem_insertByName, ih]
    simp

theorem pathWithin_mono {g : Graph} {v1 v2 : List Node} (h : ∀ x ∈ v1, x ∈ v2) :
    ∀ (s : List Str) (a b : Node), PathWithin g v1 a s b → PathWithin g v2 a s b
  | [], a, b, hp => hp
  | nm :: rest, a, b, hp => by
    simp only [PathWithin] at hp ⊢
    obtain ⟨e, he, hn, hv, hr⟩ := hp
    exact ⟨e, he, hn, h _ hv, pathWithin_mono h rest _ _ hr⟩

theorem pathWithin_snoc {g : Graph} {valid : List Node} :
    ∀ (s : List Str) (a b : Node) (e : Edge), PathWithin g valid a s b → e ∈ g.children b → e.node ∈ valid →
      PathWithin g valid a (s ++ [e.name]) e.node
  | [], a, b, e, hp, he, hv => by
    simp only [PathWithin] at hp
    subst hp
    simp only [List.nil_append, PathWithin]
    exact ⟨e, he, rfl, hv, rfl⟩
  | nm :: rest, a, b, e, hp, he, hv => by
    simp only [PathWithin, List.cons_append] at hp ⊢
    obtain ⟨e', he', hn, hv', hr⟩ := hp
    exact ⟨e', he', hn, hv', pathWithin_snoc rest _ _ e hr he hv⟩

/-- what one call of the walk adds to the output -/
def WalkOk (g : Graph) (valid0 result0 : List Node) (root : Node) (st st' : RState) : Prop :=
  (∀ x ∈ st'.valid, x ∈ st.valid) ∧ (∀ x ∈ st'.result, x ∈ st.result) ∧
  ∃ extra, st'.out = st.out ++ extra ∧
    ∀ p ∈ extra, p.2 ∈ result0 ∧ PathWithin g valid0 root p.1 p.2

theorem walkOk_refl (g : Graph) (valid0 result0 : List Node) (root : Node) (st : RState) :
    WalkOk g valid0 result0 root st st :=
  ⟨fun _ h => h, fun _ h => h, [], by simp, by simp⟩

theorem walkOk_trans {g : Graph} {valid0 result0 : List Node} {root : Node} {a b c : RState}
    (h1 : WalkOk g valid0 result0 root a b) (h2 : WalkOk g valid0 result0 root b c) :
    WalkOk g valid0 result0 root a c := by
  obtain ⟨v1, r1, e1, ho1, hp1⟩ := h1
  obtain ⟨v2, r2, e2, ho2, hp2⟩ := h2
  refine ⟨fun x h => v1 x (v2 x h), fun x h => r1 x (r2 x h), e1 ++ e2, by rw [ho2, ho1, List.append_assoc], ?_⟩
  intro p hp
  rcases List.mem_append.mp hp with h | h
  · exact hp1 p h
  · exact hp2 p h

/-- invariant of the walk: `stack` is a real path inside `valid0` from `root` to `node`, the current
sets are subsets of the initial ones -/
theorem findResultNodes_ok (g : Graph) (qa : Bool) (valid0 result0 : List Node) (root : Node) :
    ∀ (fuel : Nat) (node : Node) (stack : List Str) (st : RState),
      PathWithin g valid0 root stack node →
      (∀ x ∈ st.valid, x ∈ valid0) → (∀ x ∈ st.result, x ∈ result0) →
      WalkOk g valid0 result0 root st (findResultNodes g qa fuel node stack st) := by
  intro fuel
  induction fuel with
  | zero => intro node stack st _ _ _; exact walkOk_refl _ _ _ _ _
  | succ fuel ih =>
    intro node stack st hpath hv hr
    simp only [findResultNodes]
    -- the state after looking at the node itself
    generalize hvalid : (if qa = true then st.valid else st.valid.filter (fun x => x != node)) = valid1
    generalize hres : (if (st.result.contains node && !qa) = true then st.result.filter (fun x => x != node)
      else st.result) = result1
    generalize hout : (if st.result.contains node = true then st.out ++ [(stack, node)] else st.out) = out1
    have hv1 : ∀ x ∈ valid1, x ∈ st.valid := by
      intro x hx; rw [← hvalid] at hx
      split at hx
      · exact hx
      · exact (List.mem_filter.mp hx).1
    have hr1 : ∀ x ∈ result1, x ∈ st.result := by
      intro x hx; rw [← hres] at hx
      split at hx
      · exact (List.mem_filter.mp hx).1
      · exact hx
    have hfirst : WalkOk g valid0 result0 root st { out := out1, result := result1, valid := valid1 } := by
      refine ⟨hv1, hr1, ?_⟩
      rw [← hout]
      split
      · rename_i hc
        refine ⟨[(stack, node)], rfl, ?_⟩
        intro p hp
        simp only [List.mem_singleton] at hp
        subst hp
        exact ⟨hr _ (by simpa using hc), hpath⟩
      · exact ⟨[], by simp, by simp⟩
    -- the loop over the children
    have hkids : ∀ c ∈ sortByName ((g.children node).filter (fun c => valid1.contains c.node)),
        c ∈ g.children node ∧ c.node ∈ valid0 := by
      intro c hc
      have := mem_sortByName.mp hc
      simp only [List.mem_filter, List.contains_eq_mem, decide_eq_true_eq] at this
      exact ⟨this.1, hv _ (hv1 _ this.2)⟩
    apply walkOk_trans hfirst
    generalize sortByName ((g.children node).filter (fun c => valid1.contains c.node)) = kids at hkids
    have hloop : ∀ (kids : List Edge) (s : RState),
        (∀ c ∈ kids, c ∈ g.children node ∧ c.node ∈ valid0) →
        (∀ x ∈ s.valid, x ∈ valid0) → (∀ x ∈ s.result, x ∈ result0) →
        WalkOk g valid0 result0 root s
          (kids.foldl (fun st c => findResultNodes g qa fuel c.node (stack ++ [c.name]) st) s) := by
      intro kids
      induction kids with
      | nil => intro s _ _ _; exact walkOk_refl _ _ _ _ _
      | cons c cs ihk =>
        intro s hk hsv hsr
        simp only [List.foldl_cons]
        have hc := hk c (List.mem_cons.mpr (Or.inl rfl))
        have h1 := ih c.node (stack ++ [c.name]) s (pathWithin_snoc stack root node c hpath hc.1 hc.2) hsv hsr
        apply walkOk_trans h1
        apply ihk _ (fun c' hc' => hk c' (List.mem_cons_of_mem _ hc'))
        · intro x hx; exact hsv x (h1.1 x hx)
        · intro x hx; exact hsr x (h1.2.1 x hx)
    exact hloop kids _ hkids (fun x hx => hv x (hv1 x hx)) (fun x hx => hr x (hr1 x hx))

/-! ### `valid` lies on real paths -/

/-- every node the loop of `__findReachableSubset` keeps can reach one of the start nodes -/
theorem reachLoop_reach {g : Graph} (hwf : g.WF) (valid : List Node) (P : Node → Prop)
    (hP : ∀ a b, edge g true a b → P b → P a) :
    ∀ (fuel : Nat) (todo ret : List Node), (∀ y ∈ todo, P y) → (∀ y ∈ ret, P y) →
      ∀ y ∈ reachLoop g valid fuel todo ret, P y := by
  intro fuel
  induction fuel with
  | zero => intro todo ret _ hret; simpa [reachLoop] using hret
  | succ fuel ih =>
    intro todo ret htodo hret
    cases todo with
    | nil => simpa [reachLoop] using hret
    | cons n todo =>
      simp only [reachLoop]
      split
      · exact ih todo ret (fun y hy => htodo y (List.mem_cons_of_mem _ hy)) hret
      · have hn : P n := htodo n (List.mem_cons.mpr (Or.inl rfl))
        apply ih
        · intro y hy
          rcases List.mem_append.mp hy with h | h
          · exact hP y n ((mem_preds hwf).mp h).2 hn
          · exact htodo y (List.mem_cons_of_mem _ h)
        · intro y hy
          rcases List.mem_cons.mp hy with rfl | h
          · exact hn
          · exact hret y h

theorem findReachableSubset_reach {g : Graph} (hwf : g.WF) (valid nodes : List Node) :
    ∀ y ∈ findReachableSubset g valid nodes, ∃ t ∈ nodes, Reach g y t := by
  unfold findReachableSubset
  apply reachLoop_reach hwf valid (fun y => ∃ t ∈ nodes, Reach g y t)
    (fun a b he ⟨t, ht, hr⟩ => ⟨t, ht, reach_trans (reach_of_edge he) hr⟩)
  · intro y hy; exact ⟨y, hy, reach_refl g y⟩
  · simp

/-- invariant of the forward loop: `valid` and the context nodes are reachable from the root,
and at the end every valid node reaches a result node -/
theorem forwardLoop_valid {g : Graph} (hwf : g.WF) (mode : Mode) (r : Node) :
    ∀ (steps : Steps) (old valid : List Node) (wc : Bool) (nodes v : List Node),
      (∀ a ∈ old, a < g.size) → (∀ a ∈ old, Reach g r a) → (∀ x ∈ valid, Reach g r x) →
      (∀ x ∈ valid, ∃ t ∈ old, Reach g x t) →
      forwardLoop g mode steps old valid wc = .ok (nodes, v) →
      ∀ x ∈ v, Reach g r x ∧ ∃ t ∈ nodes, Reach g x t
  | .nil, old, valid, wc, nodes, v, _, _, hvalid, hdown, h => by
    simp only [forwardLoop, Except.ok.injEq, Prod.mk.injEq] at h
    obtain ⟨rfl, rfl⟩ := h
    intro x hx
    exact ⟨hvalid x hx, hdown x hx⟩
  | .cons ax test op rest, old, valid, wc, nodes, v, hold, hroot, hvalid, hdown, h => by
    rw [forwardLoop_cons] at h
    split at h
    · cases h
    · split at h
      · cases h
      · have hns : ∀ x ∈ (stepForward g ax test op old).1, Reach g r x := by
          intro x hx
          obtain ⟨a, ha, hax, _⟩ := (mem_stepForward hwf hold).mp hx
          exact reach_trans (hroot a ha) (reach_of_axisRel hax)
        apply forwardLoop_valid hwf mode r rest _ _ _ nodes v (stepForward_lt hwf hold) hns _ _ h
        · intro x hx
          simp only [nextValid, mem_inter, mem_union] at hx
          rcases hx.1 with h1 | h1
          · cases hs : (stepForward g ax test op old).2.1 with
            | none =>
              rw [hs] at h1
              simp only [preValid] at h1
              rcases mem_union.mp h1 with h2 | h2
              · exact hvalid x h2
              · exact hns x h2
            | some qi =>
              rw [hs] at h1
              simp only [preValid] at h1
              rcases mem_union.mp h1 with h2 | h2
              · exact hvalid x h2
              · obtain ⟨o, ho, hr⟩ := findIntermediateNodes_reach g _ _ _ x h2
                exact reach_trans (hroot o ho) hr
          · exact hns x h1
        · intro x hx
          simp only [nextValid, mem_inter] at hx
          exact findReachableSubset_reach hwf _ _ x hx.2

end PathSpec
