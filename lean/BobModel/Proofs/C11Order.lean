import BobModel.Proofs.C11Cache
/-
C11 helper lemmas, part 4: the byte order, sortedness of the canonical tree, and the order in
which the index names are visited.
-/
namespace DirHash

/-! ### `bytesLt` is a strict total order -/

theorem bytesLt_irrefl : ∀ a : Bytes, bytesLt a a = false
  | [] => rfl
  | x :: xs => by simp [bytesLt, bytesLt_irrefl xs]

theorem bytesLt_trans : ∀ a b c : Bytes, bytesLt a b = true → bytesLt b c = true → bytesLt a c = true
  | [], [], _, h1, _ => by simp [bytesLt] at h1
  | [], _ :: _, [], _, h2 => by simp [bytesLt] at h2
  | [], _ :: _, _ :: _, _, _ => by simp [bytesLt]
  | _ :: _, [], _, h1, _ => by simp [bytesLt] at h1
  | _ :: _, _ :: _, [], _, h2 => by simp [bytesLt] at h2
  | x :: xs, y :: ys, z :: zs, h1, h2 => by
    simp only [bytesLt] at h1 h2 ⊢
    by_cases hxy : x.toNat < y.toNat
    · by_cases hyz : y.toNat < z.toNat
      · have : x.toNat < z.toNat := by omega
        simp [this]
      · simp only [hyz, ↓reduceIte] at h2
        by_cases hzy : z.toNat < y.toNat
        · simp [hzy] at h2
        · have : x.toNat < z.toNat := by omega
          simp [this]
    · simp only [hxy, ↓reduceIte] at h1
      by_cases hyx : y.toNat < x.toNat
      · simp [hyx] at h1
      · simp only [hyx, ↓reduceIte] at h1
        by_cases hyz : y.toNat < z.toNat
        · have : x.toNat < z.toNat := by omega
          simp [this]
        · simp only [hyz, ↓reduceIte] at h2
          by_cases hzy : z.toNat < y.toNat
          · simp [hzy] at h2
          · simp only [hzy, ↓reduceIte] at h2
            have e1 : ¬ x.toNat < z.toNat := by omega
            have e2 : ¬ z.toNat < x.toNat := by omega
            simp only [e1, e2, ↓reduceIte]
            exact bytesLt_trans xs ys zs h1 h2

theorem bytesLt_total : ∀ a b : Bytes, bytesLt a b = false → bytesLt b a = false → a = b
  | [], [], _, _ => rfl
  | [], _ :: _, h1, _ => by simp [bytesLt] at h1
  | _ :: _, [], _, h2 => by simp [bytesLt] at h2
  | x :: xs, y :: ys, h1, h2 => by
    simp only [bytesLt] at h1 h2
    by_cases hxy : x.toNat < y.toNat
    · simp [hxy] at h1
    · by_cases hyx : y.toNat < x.toNat
      · simp [hyx] at h2
      · simp only [hxy, hyx, ↓reduceIte] at h1 h2
        have : x = y := UInt8.toNat_inj.mp (by omega)
        rw [this, bytesLt_total xs ys h1 h2]

theorem bytesLt_append_left (p a b : Bytes) : bytesLt (p ++ a) (p ++ b) = bytesLt a b := by
  induction p with
  | nil => rfl
  | cons x xs ih => simp [bytesLt, ih]

/-- `a < b` and `a` is not a prefix of `b`: the order is decided inside `a`, whatever follows -/
theorem bytesLt_append_of_not_prefix : ∀ (a b x y : Bytes), bytesLt a b = true → ¬ a <+: b →
    bytesLt (a ++ x) (b ++ y) = true
  | [], b, _, _, _, hp => by exact absurd (List.nil_prefix) hp
  | _ :: _, [], _, _, h, _ => by simp [bytesLt] at h
  | c :: cs, d :: ds, x, y, h, hp => by
    simp only [bytesLt] at h
    simp only [List.cons_append, bytesLt]
    by_cases h1 : c.toNat < d.toNat
    · simp [h1]
    · by_cases h2 : d.toNat < c.toNat
      · simp [h1, h2] at h
      · simp only [h1, h2, ↓reduceIte] at h ⊢
        have e : c = d := UInt8.toNat_inj.mp (by omega)
        apply bytesLt_append_of_not_prefix cs ds x y h
        intro hpre
        apply hp
        rw [e]
        exact (List.cons_prefix_cons).mpr ⟨rfl, hpre⟩

theorem bytesLt_append_right : ∀ (a b y : Bytes), bytesLt a b = true → bytesLt a (b ++ y) = true
  | [], [], _, h => by simp [bytesLt] at h
  | [], _ :: _, _, _ => by simp [bytesLt]
  | _ :: _, [], _, h => by simp [bytesLt] at h
  | c :: cs, d :: ds, y, h => by
    simp only [bytesLt] at h
    simp only [List.cons_append, bytesLt]
    by_cases h1 : c.toNat < d.toNat
    · simp [h1]
    · by_cases h2 : d.toNat < c.toNat
      · simp [h1, h2] at h
      · simp only [h1, h2, ↓reduceIte] at h ⊢
        exact bytesLt_append_right cs ds y h

/-! ### names, sort keys, strict sortedness of the canonical tree -/

def SlashFree (n : Bytes) : Prop := ∀ c ∈ n, c ≠ 47

def key (e : Bytes × Tree) : Bytes := sortName e.1 e.2

mutual
/-- what a real file system guarantees in every directory: names are non-empty, contain no `/`
and are pairwise different -/
def Tree.Names : Tree → Prop
  | .dir _ es => es.Names
  | .file _ _ => True
  | .link _ _ => True
  | .dev _ _ _ => True
  | .fifo _ => True
  | .other _ _ => True
def Forest.Names : Forest → Prop
  | .nil => True
  | .cons n t rest => n ≠ [] ∧ SlashFree n ∧ (∀ e ∈ rest.toList, e.1 ≠ n) ∧ t.Names ∧ rest.Names
end

mutual
/-- strictly ascending sort keys in every directory (and good names) -/
def Tree.Strict : Tree → Prop
  | .dir _ es => es.Strict
  | .file _ _ => True
  | .link _ _ => True
  | .dev _ _ _ => True
  | .fifo _ => True
  | .other _ _ => True
def Forest.Strict : Forest → Prop
  | .nil => True
  | .cons n t rest => n ≠ [] ∧ SlashFree n ∧ (∀ e ∈ rest.toList, bytesLt (sortName n t) (key e) = true) ∧
      t.Strict ∧ rest.Strict
end

theorem Forest.names_slashFree : ∀ f : Forest, f.Names → ∀ e ∈ f.toList, SlashFree e.1
  | .nil, _, e, he => by simp [Forest.toList] at he
  | .cons n t rest, w, e, he => by
    simp only [Forest.Names] at w
    simp only [Forest.toList, List.mem_cons] at he
    rcases he with rfl | he
    · exact w.2.1
    · exact Forest.names_slashFree rest w.2.2.2.2 e he

theorem Forest.strict_slashFree : ∀ f : Forest, f.Strict → ∀ e ∈ f.toList, SlashFree e.1
  | .nil, _, e, he => by simp [Forest.toList] at he
  | .cons n t rest, w, e, he => by
    simp only [Forest.Strict] at w
    simp only [Forest.toList, List.mem_cons] at he
    rcases he with rfl | he
    · exact w.2.1
    · exact Forest.strict_slashFree rest w.2.2.2.2 e he

theorem Tree.canon_isDir (t : Tree) : t.canon.isDir = t.isDir := by
  cases t <;> simp [Tree.canon, Tree.isDir]

theorem sortName_canon (n : Bytes) (t : Tree) : sortName n t.canon = sortName n t := by
  simp [sortName, Tree.canon_isDir]

/-- equal sort keys of slash free names: equal names -/
theorem key_eq_name_eq (n m : Bytes) (t u : Tree) (hn : SlashFree n) (hm : SlashFree m)
    (h : sortName n t = sortName m u) : n = m := by
  unfold sortName at h
  simp only [Consts.C11.pathSep] at h
  split at h <;> split at h
  · exact List.append_cancel_right h
  · exfalso; exact hm 47 (by rw [← h]; simp) rfl
  · exfalso; exact hn 47 (by rw [h]; simp) rfl
  · exact h

theorem Forest.mem_insert (n : Bytes) (t : Tree) : ∀ (f : Forest) (e : Bytes × Tree),
    e ∈ (Forest.insert n t f).toList ↔ e = (n, t) ∨ e ∈ f.toList
  | .nil, e => by simp [Forest.insert, Forest.toList]
  | .cons m u rest, e => by
    unfold Forest.insert
    split
    · simp only [Forest.toList, List.mem_cons, Forest.mem_insert n t rest e]
      constructor
      · rintro (h | h | h)
        · exact Or.inr (Or.inl h)
        · exact Or.inl h
        · exact Or.inr (Or.inr h)
      · rintro (h | h | h)
        · exact Or.inr (Or.inl h)
        · exact Or.inl h
        · exact Or.inr (Or.inr h)
    · simp [Forest.toList]

theorem Forest.insert_strict (n : Bytes) (t : Tree) (hn : n ≠ []) (hs : SlashFree n) (ht : t.Strict) :
    ∀ f : Forest, f.Strict → (∀ e ∈ f.toList, key e ≠ sortName n t) → (Forest.insert n t f).Strict
  | .nil, _, _ => by simp [Forest.insert, Forest.Strict, Forest.toList, hn, hs, ht]
  | .cons m u rest, w, hk => by
    simp only [Forest.Strict] at w
    obtain ⟨w1, w2, w3, w4, w5⟩ := w
    unfold Forest.insert
    split
    · rename_i hlt
      simp only [Forest.Strict]
      refine ⟨w1, w2, ?_, w4, Forest.insert_strict n t hn hs ht rest w5 (fun e he => hk e (by simp [Forest.toList, he]))⟩
      intro e he
      rcases (Forest.mem_insert n t rest e).mp he with rfl | he
      · exact hlt
      · exact w3 e he
    · rename_i hnlt
      have hne : sortName m u ≠ sortName n t := hk (m, u) (by simp [Forest.toList])
      have hlt : bytesLt (sortName n t) (sortName m u) = true := by
        cases h : bytesLt (sortName n t) (sortName m u) with
        | true => rfl
        | false =>
          exfalso
          exact hne (bytesLt_total _ _ (by simpa using hnlt) h)
      simp only [Forest.Strict]
      refine ⟨hn, hs, ?_, ht, w1, w2, w3, w4, w5⟩
      intro e he
      simp only [Forest.toList, List.mem_cons] at he
      rcases he with rfl | he
      · exact hlt
      · exact bytesLt_trans _ _ _ hlt (w3 e he)

/-- entries of the canonical listing come from the listing (same name, canonical subtree) -/
theorem Forest.mem_canon : ∀ (f : Forest) (e : Bytes × Tree), e ∈ f.canon.toList →
    ∃ t, (e.1, t) ∈ f.toList ∧ e.2 = t.canon
  | .nil, e, he => by simp [Forest.canon, Forest.toList] at he
  | .cons n t rest, e, he => by
    unfold Forest.canon at he
    split at he
    · obtain ⟨t', h1, h2⟩ := Forest.mem_canon rest e he
      exact ⟨t', by simp [Forest.toList, h1], h2⟩
    · rcases (Forest.mem_insert n t.canon rest.canon e).mp he with rfl | he
      · exact ⟨t, by simp [Forest.toList], rfl⟩
      · obtain ⟨t', h1, h2⟩ := Forest.mem_canon rest e he
        exact ⟨t', by simp [Forest.toList, h1], h2⟩

mutual
theorem Tree.canon_strict : ∀ t : Tree, t.Names → t.canon.Strict
  | .dir p es, w => by
    simp only [Tree.Names] at w
    simp only [Tree.canon, Tree.Strict]
    exact Forest.canon_strict es w
  | .file _ _, _ => by simp [Tree.canon, Tree.Strict]
  | .link _ _, _ => by simp [Tree.canon, Tree.Strict]
  | .dev _ _ _, _ => by simp [Tree.canon, Tree.Strict]
  | .fifo _, _ => by simp [Tree.canon, Tree.Strict]
  | .other _ _, _ => by simp [Tree.canon, Tree.Strict]
theorem Forest.canon_strict : ∀ f : Forest, f.Names → f.canon.Strict
  | .nil, _ => by simp [Forest.canon, Forest.Strict]
  | .cons n t rest, w => by
    simp only [Forest.Names] at w
    obtain ⟨w1, w2, w3, w4, w5⟩ := w
    unfold Forest.canon
    split
    · exact Forest.canon_strict rest w5
    · apply Forest.insert_strict n t.canon w1 w2 (Tree.canon_strict t w4) _ (Forest.canon_strict rest w5)
      intro e he hkey
      obtain ⟨t', h1, h2⟩ := Forest.mem_canon rest e he
      have hsf := Forest.names_slashFree rest w5 (e.1, t') h1
      rw [sortName_canon] at hkey
      have := key_eq_name_eq e.1 n e.2 t hsf w2 hkey
      exact w3 (e.1, t') h1 this
end

/-! ### the index names are visited in strictly ascending order -/

/-- what `joinPath d` puts in front of a name -/
def pre (d : Bytes) : Bytes := if d = [] then [] else d ++ [47]

def GoodDir (d : Bytes) : Prop := d.getLast? ≠ some 47

theorem joinPath_good (d n : Bytes) (hd : GoodDir d) (hn : n ≠ []) (hs : SlashFree n) :
    joinPath d n = pre d ++ n ∧ GoodDir (joinPath d n) ∧ joinPath d n ≠ [] := by
  have h1 : n.head? ≠ some 47 := by
    cases n with
    | nil => exact absurd rfl hn
    | cons c cs =>
      simp only [List.head?_cons, ne_eq, Option.some.injEq]
      exact hs c (by simp)
  have hj : joinPath d n = pre d ++ n := by
    unfold joinPath pre
    rw [if_neg h1]
    by_cases hde : d = []
    · simp [hde]
    · have : ¬ (d = [] ∨ d.getLast? = some 47) := by
        rintro (h | h)
        · exact hde h
        · exact hd h
      rw [if_neg this, if_neg hde]
      simp
  refine ⟨hj, ?_, ?_⟩
  · rw [hj]
    unfold GoodDir
    rw [List.getLast?_append]
    cases hl : n.getLast? with
    | none => simp at hl; exact absurd hl hn
    | some x =>
      have : (some x).or (pre d).getLast? = some x := rfl
      rw [this]
      intro h
      exact hs x (List.mem_of_getLast? hl) (Option.some.inj h)
  · rw [hj]
    intro h
    simp only [List.append_eq_nil_iff] at h
    exact hn h.2

theorem pre_nonempty (p : Bytes) (h : p ≠ []) : pre p = p ++ [47] := by
  unfold pre; rw [if_neg h]

mutual
theorem Tree.leaves_form : ∀ (t : Tree) (p : Bytes), t.Strict → GoodDir p → p ≠ [] → ∀ x ∈ t.leaves p,
    (t.isDir = false ∧ x.1 = p) ∨ (t.isDir = true ∧ ∃ r, x.1 = p ++ 47 :: r)
  | .file _ _, p, _, _, _, x, hx => by
    simp only [Tree.leaves, List.mem_singleton] at hx; subst hx; left; simp [Tree.isDir]
  | .link _ _, p, _, _, _, x, hx => by
    simp only [Tree.leaves, List.mem_singleton] at hx; subst hx; left; simp [Tree.isDir]
  | .dir _ es, p, w, hg, hp, x, hx => by
    simp only [Tree.Strict] at w
    simp only [Tree.leaves] at hx
    obtain ⟨e, _, r, hr⟩ := Forest.leaves_form es p w hg x hx
    right
    refine ⟨rfl, key e ++ r, ?_⟩
    rw [hr, pre_nonempty p hp]; simp
  | .dev _ _ _, _, _, _, _, x, hx => by simp [Tree.leaves] at hx
  | .fifo _, _, _, _, _, x, hx => by simp [Tree.leaves] at hx
  | .other _ _, _, _, _, _, x, hx => by simp [Tree.leaves] at hx
theorem Forest.leaves_form : ∀ (f : Forest) (d : Bytes), f.Strict → GoodDir d → ∀ x ∈ f.leaves d,
    ∃ e ∈ f.toList, ∃ r, x.1 = pre d ++ key e ++ r
  | .nil, _, _, _, x, hx => by simp [Forest.leaves] at hx
  | .cons n t rest, d, w, hg, x, hx => by
    simp only [Forest.Strict] at w
    obtain ⟨w1, w2, w3, w4, w5⟩ := w
    obtain ⟨j1, j2, j3⟩ := joinPath_good d n hg w1 w2
    simp only [Forest.leaves, List.mem_append] at hx
    rcases hx with hx | hx
    · refine ⟨(n, t), by simp [Forest.toList], ?_⟩
      rcases Tree.leaves_form t (joinPath d n) w4 j2 j3 x hx with ⟨hd, hx⟩ | ⟨hd, r, hx⟩
      · exact ⟨[], by simp [key, sortName, hd, hx, j1]⟩
      · exact ⟨r, by simp [key, sortName, hd, hx, j1, Consts.C11.pathSep]⟩
    · obtain ⟨e, he, r, hr⟩ := Forest.leaves_form rest d w5 hg x hx
      exact ⟨e, by simp [Forest.toList, he], r, hr⟩
end

/-- a directory key `n/` that is smaller than the key of a slash-free name is not a prefix of it -/
theorem dirKey_not_prefix (n m : Bytes) (u : Tree) (hm : SlashFree m)
    (hlt : bytesLt (n ++ [47]) (sortName m u) = true) : ¬ (n ++ [47]) <+: sortName m u := by
  rintro ⟨s, hs⟩
  unfold sortName at hs hlt
  simp only [Consts.C11.pathSep] at hs hlt
  split at hs
  · rcases List.eq_nil_or_concat s with rfl | ⟨s', c, rfl⟩
    · simp only [List.append_nil] at hs
      rw [if_pos (by assumption), ← hs, bytesLt_irrefl] at hlt
      cases hlt
    · rw [List.concat_eq_append, ← List.append_assoc] at hs
      have := (List.append_inj' hs rfl).1
      exact hm 47 (by rw [← this]; simp) rfl
  · exact hm 47 (by rw [← hs]; simp) rfl

mutual
theorem Tree.leaves_sorted : ∀ (t : Tree) (p : Bytes), t.Strict → GoodDir p → p ≠ [] →
    (t.leaves p).Pairwise (fun a b => bytesLt a.1 b.1 = true)
  | .file _ _, _, _, _, _ => by simp [Tree.leaves]
  | .link _ _, _, _, _, _ => by simp [Tree.leaves]
  | .dir _ es, p, w, hg, _ => by
    simp only [Tree.Strict] at w
    simp only [Tree.leaves]
    exact Forest.leaves_sorted es p w hg
  | .dev _ _ _, _, _, _, _ => by simp [Tree.leaves]
  | .fifo _, _, _, _, _ => by simp [Tree.leaves]
  | .other _ _, _, _, _, _ => by simp [Tree.leaves]
theorem Forest.leaves_sorted : ∀ (f : Forest) (d : Bytes), f.Strict → GoodDir d →
    (f.leaves d).Pairwise (fun a b => bytesLt a.1 b.1 = true)
  | .nil, _, _, _ => by simp [Forest.leaves]
  | .cons n t rest, d, w, hg => by
    have w' := w
    simp only [Forest.Strict] at w
    obtain ⟨w1, w2, w3, w4, w5⟩ := w
    obtain ⟨j1, j2, j3⟩ := joinPath_good d n hg w1 w2
    simp only [Forest.leaves]
    rw [List.pairwise_append]
    refine ⟨Tree.leaves_sorted t _ w4 j2 j3, Forest.leaves_sorted rest d w5 hg, ?_⟩
    intro a ha b hb
    obtain ⟨e, he, r, hr⟩ := Forest.leaves_form rest d w5 hg b hb
    have hlt := w3 e he
    have hsf := Forest.strict_slashFree rest w5 e he
    rw [hr, List.append_assoc]
    rcases Tree.leaves_form t (joinPath d n) w4 j2 j3 a ha with ⟨hd, hx⟩ | ⟨hd, ra, hx⟩
    · rw [hx, j1, bytesLt_append_left]
      have : sortName n t = n := by simp [sortName, hd]
      rw [this] at hlt
      exact bytesLt_append_right n (key e) r hlt
    · have hk : sortName n t = n ++ [47] := by simp [sortName, hd, Consts.C11.pathSep]
      rw [hk] at hlt
      have hnp := dirKey_not_prefix n e.1 e.2 hsf hlt
      rw [hx, j1]
      have : pre d ++ n ++ 47 :: ra = pre d ++ ((n ++ [47]) ++ ra) := by simp
      rw [this, bytesLt_append_left]
      exact bytesLt_append_of_not_prefix (n ++ [47]) (key e) ra r hlt hnp
end

/-- **the merge walk's premise**: with the `name + "/"` sort key for directories the index names
(relative paths) of the hashed files are visited in strictly ascending byte order -/
theorem visited_sorted (es : Forest) (w : es.Names) :
    (visited es).Pairwise (fun a b => bytesLt a.1 b.1 = true) :=
  Forest.leaves_sorted es.canon [] (Forest.canon_strict es w) (by simp [GoodDir])

/-! ### distinct index names make every state coherent -/

theorem find_of_pairwise {β : Type} (l : List (Bytes × β)) (hl : l.Pairwise (fun a b => a.1 ≠ b.1))
    (p : Bytes) (t : β) (h : (p, t) ∈ l) : l.find? (fun x => x.1 == p) = some (p, t) := by
  induction l with
  | nil => simp at h
  | cons x xs ih =>
    rw [List.pairwise_cons] at hl
    simp only [List.mem_cons] at h
    rcases h with rfl | h
    · simp
    · have : x.1 ≠ p := hl.1 (p, t) h
      rw [List.find?_cons_of_neg (by simpa using this)]
      exact ih hl.2 h

/-- the digest of a hashed file as a function of its index name (the stat data are not even needed) -/
def digestAt (H : Bytes → Bytes) (es : Forest) (p : Bytes) (_ : Stat) : Bytes :=
  match (visited es).find? (fun x => x.1 == p) with
  | some x => x.2.digest H
  | none => []

theorem coherent_of_names (H : Bytes → Bytes) (statOf : Bytes → Stat) (es : Forest) (w : es.Names) :
    Coherent H (digestAt H es) ⟨es, statOf⟩ := by
  intro p t hp
  have hs := visited_sorted es w
  have hne : (visited es).Pairwise (fun a b => a.1 ≠ b.1) := by
    apply List.Pairwise.imp _ hs
    intro a b hab heq
    rw [heq, bytesLt_irrefl] at hab
    cases hab
  simp only [digestAt]
  rw [find_of_pairwise _ hne p t hp]

end DirHash
