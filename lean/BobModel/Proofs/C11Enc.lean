import BobModel.Model.FileIndex
/-
C11 helper lemmas, part 1: the byte encodings.  `struct` formats evaluated on the constants
extracted from the source, injectivity of the little-endian fields, and the reason why the
un-delimited concatenation `mode ‖ digest ‖ name` of `__hashDir` can be decoded uniquely.
-/
namespace DirHash

theorem parse_modeFmt : parseFmt Consts.C11.dirModeFmt = [.int 4 false] := by decide
theorem parse_devFmt : parseFmt Consts.C11.devFmt = [.int 4 false] := by decide

theorem packMode_eq (m : Nat) (h : m < 4294967296) : packMode m = Bytes.le 4 m := by
  unfold packMode pack
  rw [parse_modeFmt]
  simp only [packFields, packInt, List.append_nil]
  congr 1
  omega

theorem packRdev_eq (m : Nat) (h : m < 4294967296) : packRdev m = Bytes.le 4 m := by
  unfold packRdev pack
  rw [parse_devFmt]
  simp only [packFields, packInt, List.append_nil]
  congr 1
  omega

theorem le_length (k n : Nat) : (Bytes.le k n).length = k := by
  induction k generalizing n with
  | zero => simp [Bytes.le]
  | succ k ih => simp [Bytes.le, ih]

theorem ofNat_inj_of_lt {a b : Nat} (ha : a < 256) (hb : b < 256) (h : UInt8.ofNat a = UInt8.ofNat b) : a = b := by
  have := congrArg UInt8.toNat h
  simp only [UInt8.toNat_ofNat'] at this
  omega

theorem le_inj (k n m : Nat) (hn : n < 256 ^ k) (hm : m < 256 ^ k) (h : Bytes.le k n = Bytes.le k m) : n = m := by
  induction k generalizing n m with
  | zero => simp at hn hm; omega
  | succ k ih =>
    simp only [Bytes.le, List.cons.injEq] at h
    have h1 := ofNat_inj_of_lt (Nat.mod_lt _ (by omega)) (Nat.mod_lt _ (by omega)) h.1
    have hn' : n / 256 < 256 ^ k := by
      apply Nat.div_lt_of_lt_mul; rw [Nat.pow_succ] at hn; omega
    have hm' : m / 256 < 256 ^ k := by
      apply Nat.div_lt_of_lt_mul; rw [Nat.pow_succ] at hm; omega
    have h2 := ih _ _ hn' hm' h.2
    omega

theorem packMode_length (m : Nat) (h : m < 4294967296) : (packMode m).length = 4 := by
  rw [packMode_eq m h, le_length]

theorem packMode_inj (a b : Nat) (ha : a < 4294967296) (hb : b < 4294967296) (h : packMode a = packMode b) : a = b := by
  rw [packMode_eq a ha, packMode_eq b hb] at h
  exact le_inj 4 a b (by omega) (by omega) h

theorem packRdev_inj (a b : Nat) (ha : a < 4294967296) (hb : b < 4294967296) (h : packRdev a = packRdev b) : a = b := by
  rw [packRdev_eq a ha, packRdev_eq b hb] at h
  exact le_inj 4 a b (by omega) (by omega) h

/-- no NUL byte -/
def NulFree (n : Bytes) : Prop := ∀ c ∈ n, c ≠ 0

/-- empty, or the start of a packed mode in `[256, 2^16)`: two arbitrary bytes of which the second is
not zero, then two zero bytes -/
def HeadOK (x : Bytes) : Prop := x = [] ∨ ∃ a b r, x = a :: b :: 0 :: 0 :: r ∧ b ≠ 0

theorem packMode_head (m : Nat) (h1 : 256 ≤ m) (h2 : m < 65536) :
    ∃ a b, packMode m = [a, b, 0, 0] ∧ b ≠ 0 := by
  rw [packMode_eq m (by omega)]
  refine ⟨UInt8.ofNat (m % 256), UInt8.ofNat (m / 256 % 256), ?_, ?_⟩
  · simp only [Bytes.le]
    have e1 : m / 256 / 256 % 256 = 0 := by omega
    have e2 : m / 256 / 256 / 256 % 256 = 0 := by omega
    rw [e1, e2]; rfl
  · intro hb
    have := congrArg UInt8.toNat hb
    simp only [UInt8.toNat_ofNat'] at this
    have : (0 : UInt8).toNat = 0 := rfl
    omega

/-- **where a name ends**: a NUL-free name followed by nothing or by a packed mode can be split off
in only one way. -/
theorem name_boundary (n1 n2 x1 x2 : Bytes) (hn1 : NulFree n1) (hn2 : NulFree n2)
    (hx1 : HeadOK x1) (hx2 : HeadOK x2) (h : n1 ++ x1 = n2 ++ x2) : n1 = n2 ∧ x1 = x2 := by
  induction n1 generalizing n2 with
  | nil =>
    cases n2 with
    | nil => exact ⟨rfl, by simpa using h⟩
    | cons c n2' =>
      exfalso
      simp only [List.nil_append] at h
      rcases hx1 with rfl | ⟨a, b, r, rfl, hb⟩
      · simp at h
      · simp only [List.cons_append, List.cons.injEq] at h
        obtain ⟨-, h⟩ := h
        have hn2' : NulFree n2' := fun d hd => hn2 d (by simp [hd])
        cases n2' with
        | nil =>
          rcases hx2 with rfl | ⟨a', b', r', rfl, hb'⟩
          · simp at h
          · simp only [List.nil_append, List.cons.injEq] at h
            exact hb' h.2.1.symm
        | cons c2 n2'' =>
          simp only [List.cons_append, List.cons.injEq] at h
          obtain ⟨-, h⟩ := h
          cases n2'' with
          | nil =>
            rcases hx2 with rfl | ⟨a', b', r', rfl, hb'⟩
            · simp at h
            · simp only [List.nil_append, List.cons.injEq] at h
              exact hb' h.2.1.symm
          | cons c3 n2''' =>
            simp only [List.cons_append, List.cons.injEq] at h
            exact hn2' c3 (by simp) h.1.symm
  | cons c n1' ih =>
    have hn1' : NulFree n1' := fun d hd => hn1 d (by simp [hd])
    cases n2 with
    | nil =>
      exfalso
      simp only [List.nil_append] at h
      rcases hx2 with rfl | ⟨a, b, r, rfl, hb⟩
      · simp at h
      · simp only [List.cons_append, List.cons.injEq] at h
        obtain ⟨-, h⟩ := h
        cases n1' with
        | nil =>
          rcases hx1 with rfl | ⟨a', b', r', rfl, hb'⟩
          · simp at h
          · simp only [List.nil_append, List.cons.injEq] at h
            exact hb' h.2.1
        | cons c2 n1'' =>
          simp only [List.cons_append, List.cons.injEq] at h
          obtain ⟨-, h⟩ := h
          cases n1'' with
          | nil =>
            rcases hx1 with rfl | ⟨a', b', r', rfl, hb'⟩
            · simp at h
            · simp only [List.nil_append, List.cons.injEq] at h
              exact hb' h.2.1
          | cons c3 n1''' =>
            simp only [List.cons_append, List.cons.injEq] at h
            exact hn1' c3 (by simp) h.1
    | cons d n2' =>
      simp only [List.cons_append, List.cons.injEq] at h
      have hn2' : NulFree n2' := fun e he => hn2 e (by simp [he])
      obtain ⟨r1, r2⟩ := ih n2' hn1' hn2' h.2
      exact ⟨by rw [h.1, r1], r2⟩

/-! ### one directory level: list of `(mode, digest, sortName)` triples -/

def encEntry (e : Nat × Bytes × Bytes) : Bytes := packMode e.1 ++ e.2.1 ++ e.2.2

/-- digest length as a function of the file type bits: SHA-1 for regular files, directories and
symlinks, 4 bytes `st_rdev` for devices, nothing for FIFOs and everything else -/
def digestLen (mode : Nat) : Nat :=
  let f := mode / 4096 % 16
  if f = 8 ∨ f = 10 ∨ f = 4 then 20 else if f = 2 ∨ f = 6 then 4 else 0

def GoodEntry (e : Nat × Bytes × Bytes) : Prop :=
  256 ≤ e.1 ∧ e.1 < 65536 ∧ e.2.1.length = digestLen e.1 ∧ NulFree e.2.2

theorem flatMap_head (l : List (Nat × Bytes × Bytes)) (hl : ∀ e ∈ l, GoodEntry e) :
    HeadOK (l.flatMap encEntry) := by
  cases l with
  | nil => left; rfl
  | cons e rest =>
    right
    obtain ⟨h1, h2, -, -⟩ := hl e (by simp)
    obtain ⟨a, b, hab, hb⟩ := packMode_head e.1 h1 h2
    refine ⟨a, b, e.2.1 ++ e.2.2 ++ rest.flatMap encEntry, ?_, hb⟩
    simp [List.flatMap_cons, encEntry, hab]

/-- **unique decodability** of the blob of one directory -/
theorem entries_decodable (l1 l2 : List (Nat × Bytes × Bytes))
    (h1 : ∀ e ∈ l1, GoodEntry e) (h2 : ∀ e ∈ l2, GoodEntry e)
    (h : l1.flatMap encEntry = l2.flatMap encEntry) : l1 = l2 := by
  induction l1 generalizing l2 with
  | nil =>
    cases l2 with
    | nil => rfl
    | cons e rest =>
      exfalso
      obtain ⟨g1, g2, -, -⟩ := h2 e (by simp)
      have := congrArg List.length h
      simp [List.flatMap_cons, encEntry, packMode_length e.1 (by omega)] at this <;> omega
  | cons e1 r1 ih =>
    cases l2 with
    | nil =>
      exfalso
      obtain ⟨g1, g2, -, -⟩ := h1 e1 (by simp)
      have := congrArg List.length h
      simp [List.flatMap_cons, encEntry, packMode_length e1.1 (by omega)] at this <;> omega
    | cons e2 r2 =>
      obtain ⟨a1, a2, a3, a4⟩ := h1 e1 (by simp)
      obtain ⟨b1, b2, b3, b4⟩ := h2 e2 (by simp)
      have hr1 : ∀ e ∈ r1, GoodEntry e := fun e he => h1 e (by simp [he])
      have hr2 : ∀ e ∈ r2, GoodEntry e := fun e he => h2 e (by simp [he])
      simp only [List.flatMap_cons, encEntry, List.append_assoc] at h
      obtain ⟨hm, h⟩ := List.append_inj h (by rw [packMode_length _ (by omega), packMode_length _ (by omega)])
      have hmode := packMode_inj _ _ (by omega) (by omega) hm
      obtain ⟨hd, h⟩ := List.append_inj h (by rw [a3, b3, hmode])
      obtain ⟨hs, hrest⟩ := name_boundary _ _ _ _ a4 b4 (flatMap_head r1 hr1) (flatMap_head r2 hr2) h
      have hr := ih r2 hr1 hr2 hrest
      have he : e1 = e2 := Prod.ext hmode (Prod.ext hd hs)
      rw [hr, he]

end DirHash
