import BobModel.Proofs.C10
/-
Helper lemmas for the I/O-error part of Props/C10.lean: the crash-stable invariant `Inv` of
`Proofs/C10.lean` is preserved along every prefix of every *faulty* run (`runInvF`), provided the
start-up commit is not prevented from removing a rejected uncommitted file (`InitFault.StartOK`).
-/
namespace StateFS

section
variable {σ μ : Type}

/-- closes goals that are conjunctions (possibly under vacuous premises) of facts already in the context -/
macro "close_inv" : tactic =>
  `(tactic| (repeat' (first | (refine And.intro ?_ ?_) | (intro _))) <;> assumption)

/-! ## lists of operations -/

theorem applyEvs_mapop (fs : FS) (l : List Op) : applyEvs fs (l.map (Ev.op (σ := σ))) = applyOps fs l := by
  induction l generalizing fs with
  | nil => rfl
  | cons o l ih => simpa [applyEvs, applyOps, applyEv] using ih (applyOp fs o)

theorem Ghost.run_mapop (G : Ghost σ) (l : List Op) : G.run (l.map (Ev.op (σ := σ))) = G := by
  induction l with
  | nil => rfl
  | cons o l ih => simpa [Ghost.run, Ghost.step] using ih

theorem applyOps_append (fs : FS) (a b : List Op) : applyOps fs (a ++ b) = applyOps (applyOps fs a) b := by
  simp [applyOps, List.foldl_append]

theorem AllPre_ops_append {P : FS → Ghost σ → Prop} {fs : FS} {G : Ghost σ} {a b : List Op}
    (ha : AllPre P fs G (a.map .op)) (hb : AllPre P (applyOps fs a) G (b.map .op)) :
    AllPre P fs G ((a ++ b).map .op) := by
  rw [List.map_append]
  refine AllPre_append ha ?_
  rw [applyEvs_mapop, Ghost.run_mapop]
  exact hb

/-- operations that touch neither the committed nor the uncommitted file keep the invariant at every step -/
theorem harmless_ops (c : Cfg σ μ) (fs : FS) (G : Ghost σ) (l : List Op) (hall : ∀ o ∈ l, o.harmless = true)
    (h : Inv c fs G) :
    AllPre (Inv c) fs G (l.map .op) ∧ (applyOps fs l) .pickle = fs .pickle ∧ (applyOps fs l) .new = fs .new := by
  induction l generalizing fs with
  | nil => exact ⟨h, rfl, rfl⟩
  | cons o l ih =>
    have ho := harmless_pickle fs o (hall o List.mem_cons_self)
    have h' : Inv c (applyOp fs o) G := by
      unfold Inv at h ⊢
      rw [ho.1, ho.2]; exact h
    obtain ⟨h1, h2, h3⟩ := ih (applyOp fs o) (fun o' ho' => hall o' (List.mem_cons_of_mem _ ho')) h'
    refine ⟨⟨h, h1⟩, ?_, ?_⟩
    · simpa [applyOps, ho.1] using h2
    · simpa [applyOps, ho.2] using h3

theorem Inv_congr (c : Cfg σ μ) {fs fs' : FS} {G : Ghost σ} (hp : fs' .pickle = fs .pickle) (hn : fs' .new = fs .new)
    (h : Inv c fs G) : Inv c fs' G := by
  unfold Inv at h ⊢
  rw [hp, hn]; exact h

theorem J_congr (c : Cfg σ μ) {fs fs' : FS} {G : Ghost σ} (hp : fs' .pickle = fs .pickle) (hn : fs' .new = fs .new)
    (h : J c fs G) : J c fs' G := by
  unfold J at h ⊢
  rw [hp, hn]; exact h

/-! ## `__save` with faults -/

theorem saveF_fault_harmless (c : Cfg σ μ) (s : σ) (sf : SaveFault) :
    ∃ l : List Op, (saveF c s (some sf)).1 = l.map .op ∧ ∀ o ∈ l, o.harmless = true := by
  cases sf with
  | «open» => exact ⟨[.failed .open .dirty], rfl, by simp [Op.harmless]⟩
  | write k =>
    exact ⟨[.openTrunc .dirty, .append .dirty ((encS c s).take k), .failed .write .dirty], rfl, by simp [Op.harmless]⟩
  | rename =>
    exact ⟨[.openTrunc .dirty, .append .dirty (encS c s), .failed .rename .dirty], rfl, by simp [Op.harmless]⟩

theorem saveF_pre (c : Cfg σ μ) (fs : FS) (G : Ghost σ) (s : σ) (sf : Option SaveFault) (h : J c fs G) :
    AllPre (Inv c) fs G (saveF c s sf).1 ∧ J c (applyEvs fs (saveF c s sf).1) (G.run (saveF c s sf).1) := by
  cases sf with
  | none => exact save_pre c fs G s h
  | some f =>
    obtain ⟨l, hl, hh⟩ := saveF_fault_harmless c s f
    rw [hl, applyEvs_mapop, Ghost.run_mapop]
    obtain ⟨h1, h2, h3⟩ := harmless_ops c fs G l hh (JPN.inv h)
    exact ⟨h1, J_congr c h2 h3 h⟩

/-! ## `__commit` with faults -/

theorem commitF_lock (fs : FS) (v : Bool) (cf : CF) : (applyOps fs (commitF fs v cf)) .lock = fs .lock := by
  obtain ⟨pos, uf⟩ := cf
  cases hn : fs .new with
  | none => cases pos with
    | none => simp [commitF, hn, applyOps, applyOp]
    | some p => cases p <;> simp [commitF, hn, applyOps, applyOp]
  | some f =>
    cases pos with
    | none => cases v <;> cases uf <;> cases hv : verify f.data <;>
        simp [commitF, discardOps, hn, hv, applyOps, applyOp, FS.set]
    | some p => cases p <;> cases v <;> cases uf <;> cases hv : verify f.data <;>
        simp [commitF, discardOps, hn, hv, applyOps, applyOp, FS.set]

/-- the start-up commit (`verify = True`) under arbitrary faults keeps the invariant at every step; when
`os.path.exists` and the discarding unlink do not fail, no uncommitted file is left -/
theorem commitF_true_pre (c : Cfg σ μ) (fs : FS) (G : Ghost σ) (cf : CF) (h : Inv c fs G) :
    AllPre (Inv c) fs G ((commitF fs true cf).map .op) ∧
    (cf.pos ≠ some CFault.stat → cf.unlinkFails = false →
      ∃ x, PickleOK c ((applyOps fs (commitF fs true cf)) .pickle) x ∧ Adm G x ∧
        (applyOps fs (commitF fs true cf)) .new = none) := by
  have hi : InvPN c (fs .pickle) (fs .new) G := h
  obtain ⟨x, hp, ha, hn⟩ := h
  obtain ⟨pos, uf⟩ := cf
  rcases hn with hn | ⟨f, hn, hv⟩
  · -- nothing to commit
    rw [hn] at hi
    have hx0 : ∃ x, PickleOK c (fs .pickle) x ∧ Adm G x := ⟨x, hp, ha⟩
    cases pos with
    | none =>
      simp [commitF, hn, AllPre, applyEv, applyOp, applyOps, Ghost.step, Inv]
      close_inv
    | some p =>
      cases p <;> simp [commitF, hn, AllPre, applyEv, applyOp, applyOps, Ghost.step, Inv] <;> close_inv
  · obtain ⟨d, sy⟩ := f
    rw [hn] at hi
    have hi2 : InvPN c (fs .pickle) (some ⟨d, true⟩) G := ⟨x, hp, ha, Or.inr ⟨_, rfl, hv⟩⟩
    have hi3 : InvPN c (fs .pickle) none G := ⟨x, hp, ha, Or.inl rfl⟩
    have hx3 : ∃ x, PickleOK c (fs .pickle) x ∧ Adm G x := ⟨x, hp, ha⟩
    cases hvf : verify d with
    | false =>
      cases pos with
      | none =>
        cases uf <;> simp [commitF, discardOps, hn, hvf, AllPre, applyEv, applyOp, applyOps, Ghost.step, Inv, FS.set] <;> close_inv
      | some p =>
        cases p <;> cases uf <;>
          simp [commitF, discardOps, hn, hvf, AllPre, applyEv, applyOp, applyOps, Ghost.step, Inv, FS.set] <;> close_inv
    | true =>
      rcases hv with hv | ⟨s, hs, hd⟩
      · simp [hvf] at hv
      · simp only at hd
        subst hd
        have hxs : Adm G (some s) := Or.inr ⟨s, hs, rfl⟩
        have hp' : PickleOK c (some ⟨encS c s, true⟩) (some s) := Or.inr ⟨s, rfl, rfl⟩
        have hi4 : InvPN c (some ⟨encS c s, true⟩) none G := ⟨some s, hp', hxs, Or.inl rfl⟩
        have hx4 : ∃ x, PickleOK c (some ⟨encS c s, true⟩) x ∧ Adm G x := ⟨some s, hp', hxs⟩
        cases pos with
        | none =>
          cases uf <;> simp [commitF, discardOps, hn, hvf, AllPre, applyEv, applyOp, applyOps, Ghost.step, Inv, FS.set] <;> close_inv
        | some p =>
          cases p <;> cases uf <;>
            simp [commitF, discardOps, hn, hvf, AllPre, applyEv, applyOp, applyOps, Ghost.step, Inv, FS.set] <;> close_inv

/-- the commit of `finalize` (`verify = False`) from the between-calls invariant, under arbitrary faults -/
theorem commitF_false_pre (c : Cfg σ μ) (fs : FS) (G : Ghost σ) (cf : CF) (h : J c fs G) :
    AllPre (Inv c) fs G ((commitF fs false cf).map .op) ∧
    (((fs .new).isNone || cf.pos.isNone) = true →
      InvPN c ((applyOps fs (commitF fs false cf)) .pickle) ((applyOps fs (commitF fs false cf)) .new)
        (G.step .endInv)) := by
  have hi : InvPN c (fs .pickle) (fs .new) G := JPN.inv h
  obtain ⟨x, hp, ha, hn⟩ := h
  obtain ⟨pos, uf⟩ := cf
  rcases hn with ⟨hn, hl⟩ | ⟨s, b, hn, hl, hs⟩
  · rw [hn] at hi
    have hend : InvPN c (fs .pickle) none (G.step .endInv) := ⟨x, hp, Or.inl hl.symm, Or.inl rfl⟩
    cases pos with
    | none =>
      simp [commitF, hn, AllPre, applyEv, applyOp, applyOps, Inv]
      close_inv
    | some p =>
      cases p <;> simp [commitF, hn, AllPre, applyEv, applyOp, applyOps, Inv] <;> close_inv
  · rw [hn] at hi
    have hi2 : InvPN c (fs .pickle) (some ⟨encS c s, true⟩) G := ⟨x, hp, ha, Or.inr ⟨_, rfl, Or.inr ⟨s, hs, rfl⟩⟩⟩
    have hi3 : InvPN c (fs .pickle) none G := ⟨x, hp, ha, Or.inl rfl⟩
    have hp' : PickleOK c (some ⟨encS c s, true⟩) (some s) := Or.inr ⟨s, rfl, rfl⟩
    have hi4 : InvPN c (some ⟨encS c s, true⟩) none G := ⟨some s, hp', Or.inr ⟨s, hs, rfl⟩, Or.inl rfl⟩
    have hend : InvPN c (some ⟨encS c s, true⟩) none (G.step .endInv) := ⟨some s, hp', Or.inl hl.symm, Or.inl rfl⟩
    cases pos with
    | none =>
      cases uf <;> simp [commitF, discardOps, hn, AllPre, applyEv, applyOp, applyOps, Inv, FS.set] <;>
        close_inv
    | some p =>
      cases p <;> cases uf <;>
        simp [commitF, discardOps, hn, AllPre, applyEv, applyOp, applyOps, Inv, FS.set] <;> close_inv

/-! ## the between-calls invariant with the `__uncommittedTrusted` flag -/

/-- untrusted instance (no save of its own yet): the committed file is what it loaded, the uncommitted file is a
left-over that is detectably broken or a snapshot saved since the last error-free finalize -/
def JU (c : Cfg σ μ) (fs : FS) (G : Ghost σ) : Prop :=
  ∃ x, PickleOK c (fs .pickle) x ∧ Adm G x ∧ G.last = x ∧ NewOK c (fs .new) G

def JT (c : Cfg σ μ) (fs : FS) (G : Ghost σ) (t : Bool) : Prop := if t then J c fs G else JU c fs G

theorem JU.inv {c : Cfg σ μ} {fs : FS} {G : Ghost σ} (h : JU c fs G) : Inv c fs G := by
  obtain ⟨x, hp, ha, _, hn⟩ := h
  exact ⟨x, hp, ha, hn⟩

theorem JT.inv {c : Cfg σ μ} {fs : FS} {G : Ghost σ} {t : Bool} (h : JT c fs G t) : Inv c fs G := by
  cases t
  · exact JU.inv h
  · exact JPN.inv h

theorem JT_congr (c : Cfg σ μ) {fs fs' : FS} {G : Ghost σ} {t : Bool} (hp : fs' .pickle = fs .pickle)
    (hn : fs' .new = fs .new) (h : JT c fs G t) : JT c fs' G t := by
  cases t
  · unfold JT JU at h ⊢
    simp only [Bool.false_eq_true, if_false] at h ⊢
    rw [hp, hn]; exact h
  · exact J_congr c hp hn h

/-- a performed save from any state satisfying the invariant establishes `J` -/
theorem save_pre_inv (c : Cfg σ μ) (fs : FS) (G : Ghost σ) (s : σ) (h : Inv c fs G) :
    AllPre (Inv c) fs G (saveEvs c s) ∧ J c (applyEvs fs (saveEvs c s)) (G.run (saveEvs c s)) := by
  have hi : InvPN c (fs .pickle) (fs .new) G := h
  obtain ⟨x, hp, ha, _⟩ := h
  simp only [saveEvs, AllPre, applyEv, applyOp, applyEvs, Ghost.run, List.foldl, Ghost.step, Inv, J]
  simp [FS.set]
  have hj : JPN c (fs .pickle) (some ⟨encS c s, false⟩) (G.step (.saved s)) :=
    ⟨x, hp, Adm_saved s ha, Or.inr ⟨s, false, rfl, rfl, List.mem_cons_self⟩⟩
  exact ⟨⟨hi, InvPN_saved s hi, JPN.inv hj⟩, hj⟩

theorem JT_save (c : Cfg σ μ) (fs : FS) (G : Ghost σ) (t : Bool) (s : σ) (sf : Option SaveFault) (h : JT c fs G t) :
    AllPre (Inv c) fs G (saveF c s sf).1 ∧
      JT c (applyEvs fs (saveF c s sf).1) (G.run (saveF c s sf).1) (t || sf.isNone) := by
  cases sf with
  | none =>
    obtain ⟨h1, h2⟩ := save_pre_inv c fs G s (JT.inv h)
    refine ⟨h1, ?_⟩
    simp only [Option.isNone_none, Bool.or_true]
    exact h2
  | some f =>
    obtain ⟨l, hl, hh⟩ := saveF_fault_harmless c s f
    rw [hl, applyEvs_mapop, Ghost.run_mapop]
    obtain ⟨h1, h2, h3⟩ := harmless_ops c fs G l hh (JT.inv h)
    refine ⟨h1, ?_⟩
    simp only [Option.isNone_some, Bool.or_false]
    exact JT_congr c h2 h3 h

theorem JT_nochange (c : Cfg σ μ) (fs : FS) (G : Ghost σ) (t : Bool) (h : JT c fs G t) :
    AllPre (Inv c) fs G ([] : List (Ev σ)) ∧
      JT c (applyEvs fs ([] : List (Ev σ))) (G.run ([] : List (Ev σ))) (t || false) := by
  simp only [Bool.or_false]
  exact ⟨JT.inv h, h⟩

theorem callF_preT (c : Cfg σ μ) (fs : FS) (G : Ghost σ) (mem : Mem σ) (t : Bool) (sf : Option SaveFault)
    (cl : Call μ) (h : JT c fs G t) :
    AllPre (Inv c) fs G (callStepF c mem sf cl).2.1 ∧
      JT c (applyEvs fs (callStepF c mem sf cl).2.1) (G.run (callStepF c mem sf cl).2.1)
        (t || savedBy c mem sf cl) := by
  cases cl with
  | «mut» m =>
    cases h2 : (c.step mem.cur m).2 with
    | false => simpa [callStepF, savedBy, h2] using JT_nochange c fs G t h
    | true =>
      by_cases ha : mem.async = 0
      · simpa [callStepF, savedBy, h2, ha] using JT_save c fs G t (c.step mem.cur m).1 sf h
      · simpa [callStepF, savedBy, h2, ha] using JT_nochange c fs G t h
  | setAsync => simpa [callStepF, savedBy] using JT_nochange c fs G t h
  | setSync =>
    by_cases hneg : mem.async - 1 < 0
    · have hne : ¬ (mem.async - 1 = 0) := by omega
      simpa [callStepF, savedBy, hneg, hne] using JT_nochange c fs G t h
    · by_cases h0 : mem.async - 1 = 0
      · cases hd : mem.dirty with
        | true => simpa [callStepF, savedBy, hneg, h0, hd] using JT_save c fs G t mem.cur sf h
        | false => simpa [callStepF, savedBy, hneg, h0, hd] using JT_nochange c fs G t h
      · simpa [callStepF, savedBy, hneg, h0] using JT_nochange c fs G t h

theorem callsF_preT (c : Cfg σ μ) (fs : FS) (G : Ghost σ) (mem : Mem σ) (t : Bool)
    (cls : List (Call μ × Option SaveFault)) (h : JT c fs G t) :
    AllPre (Inv c) fs G (runCallsF c mem t cls).2.1 ∧
      JT c (applyEvs fs (runCallsF c mem t cls).2.1) (G.run (runCallsF c mem t cls).2.1)
        (runCallsF c mem t cls).2.2 := by
  induction cls generalizing fs G mem t with
  | nil => exact ⟨JT.inv h, h⟩
  | cons cl rest ih =>
    simp only [runCallsF]
    obtain ⟨h1, h2⟩ := callF_preT c fs G mem t cl.2 cl.1 h
    obtain ⟨h3, h4⟩ := ih _ _ (callStepF c mem cl.2 cl.1).1 _ h2
    refine ⟨AllPre_append h1 h3, ?_⟩
    rw [applyEvs_append, Ghost.run_append]
    exact h4

/-! ## `finalize` and `__init__` with faults -/

def unlockOps (locked : Bool) (ff : FinFault) : List Op :=
  if locked then [if ff.unlock then .failed .unlink .lock else .unlink .lock] else []

theorem unlockOps_harmless (locked : Bool) (ff : FinFault) : ∀ o ∈ unlockOps locked ff, o.harmless = true := by
  intro o ho
  cases locked <;> cases hu : ff.unlock <;> simp [unlockOps, hu] at ho <;> subst ho <;> simp [Op.harmless]

theorem finOpsF_eq (fs : FS) (locked vfy : Bool) (ff : FinFault) :
    finOpsF fs locked vfy ff = commitF fs vfy ff.commit ++ unlockOps locked ff := rfl

theorem commitF_none_harmless (fs : FS) (v : Bool) (cf : CF) (hn : fs .new = none) :
    ∀ o ∈ commitF fs v cf, o.harmless = true := by
  intro o ho
  obtain ⟨pos, uf⟩ := cf
  cases pos with
  | none => simp [commitF, hn] at ho; subst ho; rfl
  | some p => cases p <;> simp [commitF, hn] at ho <;> subst ho <;> rfl

/-- `finalize`, given what its commit does -/
theorem finCore_pre (c : Cfg σ μ) (fs : FS) (G : Ghost σ) (mem : Mem σ) (locked vfy endOk : Bool) (ff : FinFault)
    (h1 : AllPre (Inv c) fs G ((commitF fs vfy ff.commit).map .op))
    (h2 : endOk = true → InvPN c ((applyOps fs (commitF fs vfy ff.commit)) .pickle)
      ((applyOps fs (commitF fs vfy ff.commit)) .new) (G.step .endInv)) :
    AllPre (Inv c) fs G (finalizeCore fs mem locked vfy endOk ff) := by
  unfold finalizeCore
  have hpost : Inv c (applyOps fs (commitF fs vfy ff.commit)) G := by
    have := AllPre_end h1; rwa [applyEvs_mapop, Ghost.run_mapop] at this
  split
  · have h3 := harmless_ops c _ G (unlockOps locked ff) (unlockOps_harmless locked ff) hpost
    have h4 : AllPre (Inv c) fs G ((finOpsF fs locked vfy ff).map .op) := by
      rw [finOpsF_eq]; exact AllPre_ops_append h1 h3.1
    refine AllPre_append h4 ?_
    rw [applyEvs_mapop, Ghost.run_mapop, finOpsF_eq, applyOps_append]
    split
    · rename_i hcond
      have h5 := h2 hcond
      refine ⟨Inv_congr c h3.2.1 h3.2.2 hpost, ?_⟩
      show InvPN c _ _ _
      simp only [applyEv]
      rw [h3.2.1, h3.2.2]; exact h5
    · exact Inv_congr c h3.2.1 h3.2.2 hpost
  · exact AllPre_head h1

/-- `finalize` of the fixed code (`vu = true`): a trusted instance commits its own save unverified, an untrusted
one verifies whatever is left over -/
theorem finF_preT (c : Cfg σ μ) (fs : FS) (G : Ghost σ) (mem : Mem σ) (locked t : Bool) (ff : FinFault)
    (h : JT c fs G t) : AllPre (Inv c) fs G (finalizeF true fs mem locked t ff) := by
  unfold finalizeF
  cases t with
  | true =>
    obtain ⟨h1, h2⟩ := commitF_false_pre c fs G ff.commit h
    exact finCore_pre c fs G mem locked _ _ ff h1 (by simpa [finVerify] using h2)
  | false =>
    have hu : JU c fs G := h
    obtain ⟨h1, _⟩ := commitF_true_pre c fs G ff.commit (JU.inv hu)
    refine finCore_pre c fs G mem locked _ _ ff h1 ?_
    intro hc
    simp only [Bool.false_and, Bool.or_false, Option.isNone_iff_eq_none] at hc
    have hh := harmless_ops c fs G _ (commitF_none_harmless fs (finVerify true false) ff.commit hc) (JU.inv hu)
    rw [hh.2.1, hh.2.2, hc]
    obtain ⟨x, hp, _, hl, _⟩ := hu
    exact ⟨x, hp, Or.inl hl.symm, Or.inl rfl⟩

theorem lockOp_harmless (b : Bool) :
    ∀ o ∈ [(if b then Op.failed .lockOpen .lock else Op.createExcl .lock)], o.harmless = true := by
  intro o ho
  cases b <;> simp at ho <;> subst ho <;> simp [Op.harmless]

theorem loadOps_harmless (fs : FS) : ∀ o ∈ loadOps fs, o.harmless = true := by
  intro o ho
  unfold loadOps at ho
  cases h : fs .pickle <;> simp [h] at ho
  · subst ho; rfl
  · rcases ho with ho | ho <;> subst ho <;> rfl

theorem applyOps_loadOps (fs : FS) : applyOps fs (loadOps fs) = fs := by
  unfold loadOps
  cases fs .pickle <;> simp [applyOps, applyOp]

/-- the error-path `finalize()` of the fixed `__init__` (untrusted: verifies) keeps the invariant -/
theorem finOpsF_true_pre (c : Cfg σ μ) (fs : FS) (G : Ghost σ) (locked : Bool) (ff : FinFault) (h : Inv c fs G) :
    AllPre (Inv c) fs G ((finOpsF fs locked true ff).map .op) := by
  obtain ⟨h1, _⟩ := commitF_true_pre c fs G ff.commit h
  have hpost : Inv c (applyOps fs (commitF fs true ff.commit)) G := by
    have := AllPre_end h1; rwa [applyEvs_mapop, Ghost.run_mapop] at this
  rw [finOpsF_eq]
  exact AllPre_ops_append h1 (harmless_ops c _ G _ (unlockOps_harmless locked ff) hpost).1

/-- `__init__` of the fixed code with arbitrary faults (no `StartOK`) -/
theorem initF_preU (c : Cfg σ μ) (hc : c.Lawful) (fs : FS) (G : Ghost σ) (ift : InitFault) (h : Inv c fs G) :
    AllPre (Inv c) fs G (initF c true fs ift).evs ∧
    (∀ x, (initF c true fs ift).res = .ok x →
      JT c (applyEvs fs (initF c true fs ift).evs) (G.run (initF c true fs ift).evs) false ∧ Adm G x) := by
  unfold initF
  split
  · have hh : ∀ o ∈ [Op.createExcl .lock], o.harmless = true := by simp [Op.harmless]
    refine ⟨(harmless_ops c fs G _ hh h).1, ?_⟩
    intro x hx; cases hx
  · simp only
    generalize hlo : (if ift.lock = true then Op.failed FailKind.lockOpen Name.lock else Op.createExcl Name.lock) = lockOp
    have hlh : ∀ o ∈ [lockOp], o.harmless = true := by rw [← hlo]; exact lockOp_harmless ift.lock
    obtain ⟨a1, a2, a3⟩ := harmless_ops c fs G [lockOp] hlh h
    have h1 : Inv c (applyOp fs lockOp) G := Inv_congr c a2 a3 h
    have hfs1 : applyOps fs [lockOp] = applyOp fs lockOp := rfl
    generalize applyOp fs lockOp = fs1 at h1 hfs1 ⊢
    obtain ⟨b1, _⟩ := commitF_true_pre c fs1 G ift.commit h1
    have h2 : Inv c (applyOps fs1 (commitF fs1 true ift.commit)) G := by
      have := AllPre_end b1; rwa [applyEvs_mapop, Ghost.run_mapop] at this
    generalize commitF fs1 true ift.commit = cops at b1 h2 ⊢
    generalize hfs2 : applyOps fs1 cops = fs2 at h2 ⊢
    obtain ⟨x, hp, hax, hnn⟩ := h2
    have h2 : Inv c fs2 G := ⟨x, hp, hax, hnn⟩
    have hld : loadDisk c fs2 = .ok x := loadDisk_ok c hc fs2 x hp
    have hhead : ∀ (rest : List Op), AllPre (Inv c) fs2 G (rest.map .op) →
        AllPre (Inv c) fs G (([lockOp] ++ (cops ++ rest)).map .op) := by
      intro rest hr
      refine AllPre_ops_append a1 ?_
      rw [hfs1]
      refine AllPre_ops_append b1 ?_
      rw [hfs2]; exact hr
    have hend : ∀ (rest : List Op), applyOps fs ([lockOp] ++ (cops ++ rest)) = applyOps fs2 rest := by
      intro rest
      rw [applyOps_append, hfs1, applyOps_append, hfs2]
    split
    · refine ⟨?_, fun y hy => by cases hy⟩
      have hso : ∀ o ∈ [Op.stat .pickle, Op.failed .open .pickle], o.harmless = true := by
        intro o ho; simp at ho; rcases ho with ho | ho <;> subst ho <;> rfl
      obtain ⟨c1, _, _⟩ := harmless_ops c fs2 G _ hso h2
      have e : applyOps fs2 [Op.stat .pickle, Op.failed .open .pickle] = fs2 := rfl
      have hfin := finOpsF_true_pre c fs2 G (!ift.lock) ift.fin h2
      have := hhead _ (AllPre_ops_append (b := finOpsF fs2 (!ift.lock) true ift.fin) c1 (by rw [e]; exact hfin))
      simpa [List.append_assoc, finVerify] using this
    · rw [hld]
      simp only
      have hA : AllPre (Inv c) fs G (([lockOp] ++ (cops ++ loadOps fs2)).map .op) :=
        hhead _ (harmless_ops c fs2 G _ (loadOps_harmless fs2) h2).1
      have hfsA : applyEvs fs (([lockOp] ++ (cops ++ loadOps fs2)).map (Ev.op (σ := σ))) = fs2 := by
        rw [applyEvs_mapop, hend, applyOps_loadOps]
      have hGA : G.run (([lockOp] ++ (cops ++ loadOps fs2)).map (Ev.op (σ := σ))) = G := Ghost.run_mapop _ _
      have hev : (Ev.op lockOp :: List.map Ev.op (cops ++ loadOps fs2) ++ [Ev.loaded x] : List (Ev σ)) =
          ([lockOp] ++ (cops ++ loadOps fs2)).map .op ++ [Ev.loaded x] := rfl
      rw [hev]
      refine ⟨AllPre_append hA ?_, ?_⟩
      · rw [hfsA, hGA]
        exact ⟨h2, h2⟩
      · intro y hy
        cases hy
        rw [applyEvs_append, Ghost.run_append, hfsA, hGA]
        exact ⟨⟨x, hp, hax, rfl, hnn⟩, hax⟩

/-! ## whole invocations, sessions (fixed code) -/

theorem runInvF_pre (c : Cfg σ μ) (hc : c.Lawful) (fs : FS) (G : Ghost σ) (iv : InvF μ)
    (h : Inv c fs G) : AllPre (Inv c) fs G (runInvF c true fs iv) := by
  obtain ⟨h1, h2⟩ := initF_preU c hc fs G iv.init h
  unfold runInvF
  cases hr : (initF c true fs iv.init).res with
  | error e => simpa [hr] using h1
  | ok x =>
    simp only [hr]
    obtain ⟨hj, _⟩ := h2 x hr
    obtain ⟨h3, h4⟩ := callsF_preT c _ _ (memOf c x) false iv.calls hj
    have h5 := finF_preT c _ _ (runCallsF c (memOf c x) false iv.calls).1 (initF c true fs iv.init).locked _ iv.fin h4
    refine AllPre_append (AllPre_append h1 h3) ?_
    rw [applyEvs_append, Ghost.run_append]
    exact h5

theorem runSessionsF_inv (c : Cfg σ μ) (hc : c.Lawful) (ss : List (SessionF μ)) (fs : FS) (G : Ghost σ)
    (hd : ∀ s ∈ ss, s.Det) (h : Inv c fs G) :
    Inv c (runSessionsF c true fs G ss).1 (runSessionsF c true fs G ss).2 := by
  induction ss generalizing fs G with
  | nil => exact h
  | cons s rest ih =>
    simp only [runSessionsF]
    apply ih _ _ (fun t ht => hd t (List.mem_cons_of_mem _ ht))
    cases s with
    | complete iv => exact AllPre_end (runInvF_pre c hc fs G iv h)
    | crashed iv cut g =>
      have hg : Detectable g := hd _ List.mem_cons_self
      exact Inv_recover c _ _ g hg (AllPre_take (runInvF_pre c hc fs G iv h) cut)

theorem runSessionsF_lock (c : Cfg σ μ) (vu : Bool) (l : List (SessionF μ)) (iv : InvF μ) (cut : Nat) (g : Garble)
    (fs : FS) (G : Ghost σ) : (runSessionsF c vu fs G (l ++ [.crashed iv cut g])).1 .lock = none := by
  induction l generalizing fs G with
  | nil => simp [runSessionsF, runSessionF, recover_lock]
  | cons s l ih => simpa [runSessionsF] using ih _ _

/-! ## a successful save and finalize after anything -/

theorem initRun_clean (c : Cfg σ μ) (hc : c.Lawful) (fs : FS) (s : σ) (b : Bool)
    (hl : fs .lock = none) (hn : fs .new = none) (hp : fs .pickle = some ⟨encS c s, b⟩) :
    (initRun c fs).res = .ok (some s) := by
  have hld : loadDisk c (fs.set .lock (some ⟨[], false⟩)) = .ok (some s) := by
    simp [loadDisk, FS.set, hp, loadBytes_enc c hc]
  simp [initRun, hl, hn, applyOp, applyOps, commitOps, FS.set, hld]

theorem save_fin_durable (c : Cfg σ μ) (hc : c.Lawful) (fs : FS) (s : σ) (locked : Bool) (g : Garble) :
    let fs1 := applyEvs fs (saveEvs c s)
    let fs2 := applyOps fs1 (finOpsF fs1 locked false FinFault.none)
    fs2 .pickle = some ⟨encS c s, true⟩ ∧ fs2 .new = none ∧ (locked = true → fs2 .lock = none) ∧
      (initRun c (recover fs2 g)).res = .ok (some s) := by
  intro fs1 fs2
  have hp : fs2 .pickle = some ⟨encS c s, true⟩ := by
    cases locked <;>
      simp [fs2, fs1, saveEvs, applyEvs, applyEv, applyOp, applyOps, finOpsF, commitF, FinFault.none, CF.none, FS.set]
  have hn : fs2 .new = none := by
    cases locked <;>
      simp [fs2, fs1, saveEvs, applyEvs, applyEv, applyOp, applyOps, finOpsF, commitF, FinFault.none, CF.none, FS.set]
  refine ⟨hp, hn, ?_, ?_⟩
  · intro hl
    subst hl
    simp [fs2, fs1, saveEvs, applyEvs, applyEv, applyOp, applyOps, finOpsF, commitF, FinFault.none, CF.none, FS.set]
  · apply initRun_clean c hc _ s true (recover_lock _ g)
    · simp [recover, crash, FS.set, hn]
    · simp [recover, crash, FS.set, hp]

end
end StateFS
