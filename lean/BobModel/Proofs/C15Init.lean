import BobModel.Proofs.C15Gc
import BobModel.Proofs.C15FF
/-
C15: initial states (any consistent store, any list of programs, all processes not yet started) satisfy the
invariants; reachability lemmas used by Props/C15.lean.
-/
namespace C15
open Share

/-- a consistent quiescent store: no half written file, every visible package complete with valid pkg.json,
the counters of the ghost bookkeeping agree -/
structure GoodStore (H : Nat → Nat) (g : Store) : Prop where
  repo : g.repo ≠ .torn
  pkgs : ∀ b d, g.final b = some d → Complete H d
  counts : CountInv g

def initSt (g : Store) (progs : List Prog) : St := ⟨g, mkProcs progs⟩

theorem getElem?_mkProcs {progs : List Prog} {i : Nat} {pi : Proc} (h : (mkProcs progs)[i]? = some pi) :
    pi.pc = .start ∧ pi.pub = false := by
  unfold mkProcs at h
  rw [List.getElem?_map] at h
  cases hp : progs[i]? with
  | none => rw [hp] at h; cases h
  | some pr => rw [hp] at h; simp at h; subst h; exact ⟨rfl, rfl⟩

theorem init_mutex (g : Store) (progs : List Prog) : Mutex (initSt g progs) := by
  intro i j pi pj hi _ hex _
  have := (getElem?_mkProcs hi).1
  rw [this] at hex; cases hex

theorem init_invVC (H : Nat → Nat) (g : Store) (progs : List Prog) (hg : GoodStore H g) : InvVC H (initSt g progs) :=
  ⟨hg.pkgs, fun i pi hi => by rw [(getElem?_mkProcs hi).1]; trivial, init_mutex g progs⟩


theorem init_pubInv (g : Store) (progs : List Prog) : PubInv (initSt g progs) := by
  intro i pi hi
  obtain ⟨h1, h2⟩ := getElem?_mkProcs hi
  rw [h1]; exact h2

theorem pubCount_mkProcs (progs : List Prog) (b : Bid) : pubCount (mkProcs progs) b = 0 := by
  unfold pubCount
  rw [List.countP_eq_zero]
  intro q hq
  obtain ⟨i, hi, rfl⟩ := List.getElem_of_mem hq
  have := (getElem?_mkProcs (List.getElem?_eq_getElem hi)).2
  simp [this]

theorem reach_pubInv (H : Nat → Nat) (cfg : Cfg) (g : Store) (progs : List Prog) (sched : List Pid) :
    PubInv (run H cfg (initSt g progs) sched) :=
  run_inv H cfg (fun s p => pubInv_step H cfg s p) _ (init_pubInv g progs) sched


/-- a consistent store: repo.json (missing and empty both mean "no package") records exactly the installed
packages with the sizes of their pkg.json -/
structure GoodStoreFF (g : Store) (L : List (Bid × Nat)) : Prop where
  repo : logicalOf g.repo = L
  nodup : (keys L).Nodup
  recorded : ∀ b sz, (b, sz) ∈ L → ∃ d m, g.final b = some d ∧ d.info = some (.valid m) ∧ m.size = sz
  pkgs : ∀ b d, g.final b = some d → ∃ m, d.info = some (.valid m) ∧ (b, m.size) ∈ L

theorem init_invFF (g : Store) (L : List (Bid × Nat)) (progs : List Prog) (hg : GoodStoreFF g L) :
    InvFF (initSt g progs) L := by
  refine ⟨init_mutex g progs, ?_, ?_, hg.nodup, hg.recorded, ?_, ?_, ?_⟩
  · intro i pi hi; rw [(getElem?_mkProcs hi).1]; exact ⟨trivial, trivial, trivial⟩
  · left
    refine ⟨hg.repo, ?_⟩
    intro i pi rm hi hr
    rw [(getElem?_mkProcs hi).1] at hr; cases hr
  · intro b d hd
    obtain ⟨m, hm, h⟩ := hg.pkgs b d hd
    exact ⟨m, hm, Or.inl h⟩
  · intro i pi hi hw
    rw [(getElem?_mkProcs hi).1] at hw; cases hw
  · intro i j pi pj hi _ hw
    rw [(getElem?_mkProcs hi).1] at hw; cases hw

theorem init_repoNA (g : Store) (progs : List Prog) : RepoNA (initSt g progs) := by
  intro i pi hi hn
  rw [(getElem?_mkProcs hi).1] at hn; cases hn

theorem reach_invFF (H : Nat → Nat) (g : Store) (L : List (Bid × Nat)) (progs : List Prog) (hg : GoodStoreFF g L)
    (sched : List Pid) : ∃ L', InvFF (run H Cfg.fixed (initSt g progs) sched) L' :=
  (run_inv (P := fun s => (∃ L', InvFF s L') ∧ RepoNA s) H Cfg.fixed
    (fun s p ⟨⟨L', h⟩, hn⟩ => ⟨invFF_step H s L' p h hn, repoNA_step H s p hn⟩) _
    ⟨⟨L, init_invFF g L progs hg⟩, init_repoNA g progs⟩ sched).1

theorem goodStore_empty (H : Nat → Nat) : GoodStore H emptyStore :=
  ⟨by simp [emptyStore], by intro b d h; simp [emptyStore] at h, by intro b; simp [emptyStore, present]⟩


/-- a store with one installed, recorded package -/
def g1 : Store :=
  { storeExists := true, repo := .valid [(1, 5)],
    final := upd (fun _ => none) 1 (some ⟨true, some 1, some (.valid ⟨1, 5, [100]⟩), 0⟩),
    links := fun _ => none, clock := 1, nInst := fun _ => 0, nGc := fun _ => 0 }

theorem goodStoreFF_g1 : GoodStoreFF g1 [(1, 5)] := by
  refine ⟨rfl, by decide, ?_, ?_⟩
  · intro b sz h
    simp only [List.mem_singleton, Prod.mk.injEq] at h
    obtain ⟨rfl, rfl⟩ := h
    exact ⟨⟨true, some 1, some (.valid ⟨1, 5, [100]⟩), 0⟩, ⟨1, 5, [100]⟩, rfl, rfl, rfl⟩
  · intro b d h
    by_cases e : b = 1
    · subst e
      have : d = ⟨true, some 1, some (.valid ⟨1, 5, [100]⟩), 0⟩ := by simpa [g1, upd] using h.symm
      subst this
      exact ⟨⟨1, 5, [100]⟩, rfl, by simp⟩
    · simp [g1, upd, e] at h


/-- the empty store (no directory, no repo.json) is consistent -/
theorem goodStoreFF_empty : GoodStoreFF emptyStore [] := by
  refine ⟨rfl, by simp [keys], ?_, ?_⟩
  · intro b sz h; cases h
  · intro b d h; simp [emptyStore] at h

end C15
