import BobModel.Proofs.C14Term
/-
Helper lemmas for C14, part 5: `Audit.setRecipesAudit` and the debug validation on load.
-/
namespace Audit
open Consts.C14

/-! ### dict facts -/

theorem dictGet_dictSet_self {α : Type} (d : List (Str × α)) (k : Str) (v : α) : dictGet (dictSet d k v) k = some v := by
  induction d with
  | nil => simp [dictSet, dictGet]
  | cons p d ih =>
    obtain ⟨k', v'⟩ := p
    by_cases h : k' = k
    · simp [dictSet, dictGet, h]
    · simp [dictSet, dictGet, h, ih]

theorem dictGet_dictSet_ne {α : Type} (d : List (Str × α)) {k k' : Str} (v : α) (hne : k' ≠ k) :
    dictGet (dictSet d k v) k' = dictGet d k' := by
  induction d with
  | nil => simp [dictSet, dictGet, Ne.symm hne]
  | cons p d ih =>
    obtain ⟨k'', v''⟩ := p
    by_cases h : k'' = k
    · subst h
      simp [dictSet, dictGet, Ne.symm hne]
    · by_cases h' : k'' = k'
      · subst h'
        simp [dictSet, dictGet, h]
      · simp [dictSet, dictGet, h, h', ih]

theorem dictGet_dictDel_self {α : Type} (d : List (Str × α)) (k : Str) : dictGet (dictDel d k) k = none := by
  induction d with
  | nil => rfl
  | cons p d ih =>
    obtain ⟨k', v'⟩ := p
    unfold dictDel at ih ⊢
    rw [List.filter_cons]
    by_cases h : k' = k
    · rw [if_neg (by simpa using h)]
      exact ih
    · rw [if_pos (by simpa using h)]
      simp only [dictGet]
      rw [if_neg h]
      exact ih

theorem dictGet_dictDel_ne {α : Type} (d : List (Str × α)) {k k' : Str} (hne : k' ≠ k) :
    dictGet (dictDel d k) k' = dictGet d k' := by
  induction d with
  | nil => rfl
  | cons p d ih =>
    obtain ⟨k'', v''⟩ := p
    unfold dictDel at ih ⊢
    rw [List.filter_cons]
    by_cases h : k'' = k
    · rw [if_neg (by simpa using h), ih]
      simp only [dictGet]
      rw [if_neg (by rw [h]; exact Ne.symm hne)]
    · rw [if_pos (by simpa using h)]
      simp only [dictGet]
      rw [ih]

namespace Artifact

theorem setRecipes_get (a : Artifact) (r : Option Data) : dictGet (a.setRecipes r).other "recipes".toList = r := by
  cases r with
  | none => exact dictGet_dictDel_self _ _
  | some d => exact dictGet_dictSet_self _ _ _

theorem setLayers_get (a : Artifact) (l : List (Str × Data)) :
    dictGet (a.setLayers l).other "layers".toList = if l.isEmpty then none else some (.map l) := by
  unfold setLayers invalidate
  by_cases h : l.isEmpty = true
  · simp only [h, if_true]; exact dictGet_dictDel_self _ _
  · simp only [h]; exact dictGet_dictSet_self _ _ _

theorem setLayers_get_ne (a : Artifact) (l : List (Str × Data)) {k : Str} (hk : k ≠ "layers".toList) :
    dictGet (a.setLayers l).other k = dictGet a.other k := by
  unfold setLayers invalidate
  by_cases h : l.isEmpty = true
  · simp only [h, if_true]; exact dictGet_dictDel_ne _ hk
  · simp only [h]; exact dictGet_dictSet_ne _ _ hk

theorem setRecipes_get_ne (a : Artifact) (r : Option Data) {k : Str} (hk : k ≠ "recipes".toList) :
    dictGet (a.setRecipes r).other k = dictGet a.other k := by
  cases r with
  | none => exact dictGet_dictDel_ne _ hk
  | some d => exact dictGet_dictSet_ne _ _ hk

end Artifact

namespace Audit

/-- the layers `setRecipesAudit` stores: every entry but the one with the empty name, `None` kept as `None` -/
def layersOf (ra : List (Str × Option Data)) : List (Str × Data) :=
  (ra.filter fun p => p.1 ≠ []).map fun p => (p.1, p.2.getD .null)

theorem setRecipesAudit_references (a : Audit) (ra : List (Str × Option Data)) :
    (setRecipesAudit a ra).references = a.references := rfl

theorem setRecipesAudit_getReferences (a : Audit) (ra : List (Str × Option Data)) :
    (setRecipesAudit a ra).artifact.getReferences = a.artifact.getReferences := rfl

theorem setRecipesAudit_cachedId (a : Audit) (ra : List (Str × Option Data)) :
    (setRecipesAudit a ra).artifact.cachedId = none := rfl

theorem setRecipesAudit_recipes (a : Audit) (ra : List (Str × Option Data)) :
    dictGet (setRecipesAudit a ra).artifact.other "recipes".toList = (dictGet ra []).bind id := by
  unfold setRecipesAudit
  simp only
  rw [Artifact.setLayers_get_ne _ _ (by decide), Artifact.setRecipes_get]

theorem setRecipesAudit_layers (a : Audit) (ra : List (Str × Option Data)) :
    dictGet (setRecipesAudit a ra).artifact.other "layers".toList =
      if (layersOf ra).isEmpty then none else some (.map (layersOf ra)) := by
  unfold setRecipesAudit
  simp only
  exact Artifact.setLayers_get _ _

/-- every other entry of the record is untouched -/
theorem setRecipesAudit_other (a : Audit) (ra : List (Str × Option Data)) {k : Str}
    (h1 : k ≠ "recipes".toList) (h2 : k ≠ "layers".toList) :
    dictGet (setRecipesAudit a ra).artifact.other k = dictGet a.artifact.other k := by
  unfold setRecipesAudit
  simp only
  rw [Artifact.setLayers_get_ne _ _ h2, Artifact.setRecipes_get_ne _ _ h1]

theorem closedAll_setRecipesAudit {a : Audit} (ra : List (Str × Option Data)) (h : ClosedAll a) :
    ClosedAll (setRecipesAudit a ra) := h

/-- the validator run by a debug load sees a fresh object: it has nothing to check -/
theorem validate_create (fields : List (Str × Data)) : validate (create fields) = .ok := by
  simp [validate, create, Artifact.getReferences, setUnion, validateLoop]

theorem loadDebug_create (H : Bytes → Id) (fields : List (Str × Data)) (tree : Audit) :
    loadDebug H (create fields) tree = .ok (load H tree) := by
  simp [loadDebug, validate_create]

end Audit

end Audit
