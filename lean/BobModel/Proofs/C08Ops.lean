import BobModel.Proofs.C08Step
/-
Helper lemmas for Props/C08.lean, part 4: every operation of the per-member extraction
(`makedirs`, `kWrite`, `kMkdir`, `kSymlink`, `kLink`, `kMknod`, `chmodFollow`) is a confined
step, provided `os.path.realpath` of the member (follow operations) resp. of its parent
directory (no-follow operations) lies inside the destination.
-/
namespace TarExtract

theorem prefix_missing_inside {dest L rest : Path} {fs : FS}
    (hd : ∀ k, k ≤ dest.length → IsDir fs (dest.take k)) (hin : Inside dest (L ++ rest))
    (hmiss : fs.look L = none) : Inside dest L := by
  rcases List.prefix_or_prefix_of_prefix hin (List.prefix_append L rest) with h | h
  · exact h
  · exfalso
    have hl : L = dest.take L.length := by
      rw [List.prefix_iff_eq_take] at h; exact h
    have hk : L.length ≤ dest.length := h.length_le
    obtain ⟨m, hm⟩ := hd L.length hk
    rw [← hl, hmiss] at hm; cases hm

/-- a location the kernel would create is a new entry in an existing directory -/
theorem walk_strict_missing_parent (fs : FS) (hwf : WF fs) (hroot : IsDir fs []) (follow : Bool) :
    ∀ (n : Nat) (cur : Path) (p : List Name) (L : Path), IsDir fs cur →
      walk fs true follow n cur p = .ok L → fs.look L = none →
      ∃ D c, L = D ++ [c] ∧ IsDir fs D := by
  intro n
  induction n with
  | zero =>
    intro cur p L hcur h hm
    cases p with
    | nil =>
      simp [walk] at h; subst h
      obtain ⟨m, hm'⟩ := hcur; rw [hm] at hm'; cases hm'
    | cons x p => simp [walk] at h
  | succ n ih =>
    intro cur p L hcur h hm
    cases p with
    | nil =>
      simp [walk] at h; subst h
      obtain ⟨m, hm'⟩ := hcur; rw [hm] at hm'; cases hm'
    | cons x p =>
      simp only [walk] at h
      by_cases hx1 : x = dot
      · simp only [hx1, if_true] at h; exact ih _ _ _ hcur h hm
      · by_cases hx2 : x = dotdot
        · simp only [hx1, hx2, if_true, if_false] at h
          exact ih _ _ _ (isDir_dropLast hwf hcur) h hm
        · simp only [hx1, hx2, if_false] at h
          cases hs : symTarget fs (cur ++ [x]) with
          | some t =>
            simp only [hs] at h
            by_cases hcond : p = [] ∧ follow = false
            · rw [if_pos hcond] at h
              have : cur ++ [x] = L := by simpa using h
              subst this
              rw [symTarget_of_look_none hm] at hs; cases hs
            · rw [if_neg hcond] at h
              refine ih _ _ _ ?_ h hm
              split
              · exact hroot
              · exact hcur
          | none =>
            simp only [hs, Bool.true_eq_false, if_false] at h
            cases hl : fs.look (cur ++ [x]) with
            | none =>
              simp only [hl] at h
              by_cases hp : p = []
              · simp only [hp, if_true] at h
                have : cur ++ [x] = L := by simpa using h
                exact ⟨cur, x, this.symm, hcur⟩
              · simp [hp] at h
            | some e =>
              cases e with
              | dir m => simp only [hl] at h; exact ih _ _ _ ⟨m, hl⟩ h hm
              | ref i =>
                simp only [hl] at h
                by_cases hp : p = []
                · simp only [hp, if_true] at h
                  have : cur ++ [x] = L := by simpa using h
                  subst this; rw [hm] at hl; cases hl
                · simp [hp] at h

/-- an inside location that is not the root splits into a parent directory and a name -/
theorem split_inside {dest : Path} (hdne : dest ≠ []) {fs : FS} (hwf : WF fs) {R : Path} (hin : Inside dest R)
    {e : Entry} (hl : fs.look R = some e) : ∃ D c, R = D ++ [c] ∧ IsDir fs D := by
  rcases List.eq_nil_or_concat R with hR | ⟨D, c, hR⟩
  · subst hR
    have : dest = [] := List.prefix_nil.mp hin
    exact absurd this hdne
  · rw [List.concat_eq_append] at hR
    subst hR
    exact ⟨D, c, rfl, hwf D c e hl⟩

section Ops
variable {dest : Path} {cfg : Cfg}

/-- the conclusion of every operation lemma -/
def Good (dest : Path) (a b : FS) : Prop := MStep dest a b ∧ Inv dest b ∧ SameSym a b

theorem Good.refl {a : FS} (h : Inv dest a) : Good dest a a := ⟨MStep.refl _ _, h, SameSym.refl _⟩

theorem Good.trans {a b c : FS} (h1 : Good dest a b) (h2 : Good dest b c) : Good dest a c :=
  ⟨h1.1.trans h2.1, h2.2.1, h1.2.2.trans h2.2.2⟩

/-- `open(full, "wb")` + write -/
theorem kWrite_good (hdne : dest ≠ []) {a : FS} (hinv : Inv dest a) {full : List Name} {R : Path}
    (hR : walk a false true cfg.fuel [] full = .ok R) (hRin : Inside dest R) (data : Str) :
    Good dest a (kWrite a cfg full data).1 := by
  unfold kWrite kres
  cases hk : walk a true true cfg.fuel [] full with
  | error e => exact Good.refl hinv
  | ok loc =>
    have hloc : loc = R := by
      have := walk_strict_lenient a true _ _ _ _ hk
      rw [hR] at this; exact (Except.ok.inj this).symm
    subst hloc
    simp only []
    cases hl : a.look loc with
    | none =>
      obtain ⟨D, c, hDc, hD⟩ := walk_strict_missing_parent a hinv.wf hinv.root true _ _ _ _ hinv.root hk hl
      subst hDc
      exact step_create hinv _ hRin hD hl (by intro t m h; cases h)
    | some e =>
      cases e with
      | dir m => exact Good.refl hinv
      | ref i =>
        simp only []
        cases hi : a.inode i with
        | none => exact Good.refl hinv
        | some ino =>
          obtain ⟨ob, md⟩ := ino
          cases ob with
          | file d =>
            exact step_setInode hinv ⟨.file d, md⟩ ⟨.file data, md⟩ hRin hl hi (by intro t; simp)
          | symlink t => exact Good.refl hinv
          | fifo => exact Good.refl hinv
          | chr => exact Good.refl hinv

/-- `chown` / `chmod` / `utime` through the name -/
theorem chmodFollow_good (hdne : dest ≠ []) {a : FS} (hinv : Inv dest a) {full : List Name} {R : Path}
    (hR : walk a false true cfg.fuel [] full = .ok R) (hRin : Inside dest R) (mode : Nat) :
    Good dest a (chmodFollow a cfg full mode) := by
  unfold chmodFollow kres
  cases hk : walk a true true cfg.fuel [] full with
  | error e => exact Good.refl hinv
  | ok loc =>
    have hloc : loc = R := by
      have := walk_strict_lenient a true _ _ _ _ hk
      rw [hR] at this; exact (Except.ok.inj this).symm
    subst hloc
    simp only []
    cases hl : a.look loc with
    | none => exact Good.refl hinv
    | some e =>
      cases e with
      | dir m =>
        obtain ⟨D, c, hDc, hD⟩ := split_inside hdne hinv.wf hRin hl
        subst hDc
        exact step_setDir hinv mode hRin hD (Or.inr ⟨m, hl⟩)
      | ref i =>
        simp only []
        cases hi : a.inode i with
        | none => exact Good.refl hinv
        | some ino =>
          exact step_setInode hinv ino { ino with mode := mode } hRin hl hi (by intro t; cases ino; simp)

/-- the location of a no-follow operation on `up/c` lies in the directory `realpath(up)` -/
theorem nofollow_location {a : FS} (hinv : Inv dest a) {up : List Name} {c : Name} (hc : c ≠ dot ∧ c ≠ dotdot)
    {P : Path} (hP : walk a false true cfg.fuel [] up = .ok P) (hPin : Inside dest P) {L : Path}
    (hL : walk a true false cfg.fuel [] (up ++ [c]) = .ok L) :
    L = P ++ [c] ∧ IsDir a P ∧ Inside dest L := by
  obtain ⟨D, hD, hLD, hDdir⟩ := walk_split_last a hinv.wf hinv.root c hc _ _ _ _ hinv.root hL
  have : D = P := by
    have := walk_strict_lenient a true _ _ _ _ hD
    rw [hP] at this; exact (Except.ok.inj this).symm
  subst this
  exact ⟨hLD, hDdir, hLD ▸ inside_append hPin _⟩

/-- `os.mkdir(up/c)` -/
theorem kMkdir_good {a : FS} (hinv : Inv dest a) {up : List Name} {c : Name} (hc : c ≠ dot ∧ c ≠ dotdot)
    {P : Path} (hP : walk a false true cfg.fuel [] up = .ok P) (hPin : Inside dest P) (mode : Nat) :
    Good dest a (kMkdir a cfg (up ++ [c]) mode).1 := by
  unfold kMkdir kres
  cases hk : walk a true false cfg.fuel [] (up ++ [c]) with
  | error e => exact Good.refl hinv
  | ok L =>
    obtain ⟨hL, hD, hin⟩ := nofollow_location hinv hc hP hPin hk
    subst hL
    simp only []
    cases hl : a.look (P ++ [c]) with
    | some e => exact Good.refl hinv
    | none => exact step_setDir hinv mode hin hD (Or.inl hl)

/-- `os.mkfifo(up/c)` / `os.mknod(up/c)` -/
theorem kMknod_good {a : FS} (hinv : Inv dest a) {up : List Name} {c : Name} (hc : c ≠ dot ∧ c ≠ dotdot)
    {P : Path} (hP : walk a false true cfg.fuel [] up = .ok P) (hPin : Inside dest P) (o : Obj)
    (ho : ∀ t, o ≠ .symlink t) :
    Good dest a (kMknod a cfg (up ++ [c]) o).1 := by
  unfold kMknod kres
  cases hk : walk a true false cfg.fuel [] (up ++ [c]) with
  | error e => exact Good.refl hinv
  | ok L =>
    obtain ⟨hL, hD, hin⟩ := nofollow_location hinv hc hP hPin hk
    subst hL
    simp only []
    cases hl : a.look (P ++ [c]) with
    | some e => exact Good.refl hinv
    | none => exact step_create hinv _ hin hD hl (by intro t m h; cases h; exact ho t rfl)

/-- `unlink` + `symlink` at `up/c` (not `SameSym`) -/
theorem kSymlink_good {a : FS} (hinv : Inv dest a) {up : List Name} {c : Name} (hc : c ≠ dot ∧ c ≠ dotdot)
    {P : Path} (hP : walk a false true cfg.fuel [] up = .ok P) (hPin : Inside dest P) (target : Str) :
    MStep dest a (kSymlink a cfg (up ++ [c]) target).1 ∧ Inv dest (kSymlink a cfg (up ++ [c]) target).1 := by
  unfold kSymlink kres
  by_cases ht : target = []
  · simp only [ht, if_true]; exact ⟨MStep.refl _ _, hinv⟩
  · simp only [ht, if_false]
    cases hk : walk a true false cfg.fuel [] (up ++ [c]) with
    | error e => exact ⟨MStep.refl _ _, hinv⟩
    | ok L =>
      obtain ⟨hL, hD, hin⟩ := nofollow_location hinv hc hP hPin hk
      subst hL
      simp only []
      have key : ¬ IsDir a (P ++ [c]) →
          MStep dest a (match kres (a.delName (P ++ [c])) cfg false (up ++ [c]) with
            | .ok loc' =>
              if loc' = P ++ [c] then
                (((a.delName (P ++ [c])).alloc ⟨.symlink target, 0o777⟩).setName (P ++ [c]) (.ref a.next), KRes.ok)
              else (a.delName (P ++ [c]), KRes.unsup)
            | .error _ => (a.delName (P ++ [c]), KRes.unsup)).1 ∧
          Inv dest (match kres (a.delName (P ++ [c])) cfg false (up ++ [c]) with
            | .ok loc' =>
              if loc' = P ++ [c] then
                (((a.delName (P ++ [c])).alloc ⟨.symlink target, 0o777⟩).setName (P ++ [c]) (.ref a.next), KRes.ok)
              else (a.delName (P ++ [c]), KRes.unsup)
            | .error _ => (a.delName (P ++ [c]), KRes.unsup)).1 := by
        intro hnd
        cases kres (a.delName (P ++ [c])) cfg false (up ++ [c]) with
        | error e => exact step_unlink hinv hin hnd
        | ok loc' =>
          simp only []
          split
          · exact step_symlink hinv _ hin hD hnd
          · exact step_unlink hinv hin hnd
      cases hl : a.look (P ++ [c]) with
      | none => exact key (by intro ⟨m, hm⟩; rw [hl] at hm; cases hm)
      | some e =>
        cases e with
        | dir m => exact ⟨MStep.refl _ _, hinv⟩
        | ref i => exact key (by intro ⟨m, hm⟩; rw [hl] at hm; cases hm)

/-- `os.link(src, up/c)` where `src` is known to be an inside non-link -/
theorem kLink_good {a : FS} (hinv : Inv dest a) {up : List Name} {c : Name} (hc : c ≠ dot ∧ c ≠ dotdot)
    {P : Path} (hP : walk a false true cfg.fuel [] up = .ok P) (hPin : Inside dest P)
    {src : List Name} {s' rsrc : Path} (hS : walk a false false cfg.fuel [] src = .ok s')
    (hSn : symTarget a s' = none) (hSR : walk a false true cfg.fuel [] src = .ok rsrc) (hSin : Inside dest rsrc) :
    Good dest a (kLink a cfg src (up ++ [c])).1 := by
  unfold kLink kres
  cases hks : walk a true false cfg.fuel [] src with
  | error e => exact Good.refl hinv
  | ok s =>
    cases hk : walk a true false cfg.fuel [] (up ++ [c]) with
    | error e => exact Good.refl hinv
    | ok L =>
      obtain ⟨hL, hD, hin⟩ := nofollow_location hinv hc hP hPin hk
      subst hL
      have hs' : s = s' := by
        have := walk_strict_lenient a false _ _ _ _ hks
        rw [hS] at this; exact (Except.ok.inj this).symm
      subst hs'
      have hsin : Inside dest s := by
        have h1 := walk_nofollow_follow a true _ _ _ _ hks hSn
        have h2 := walk_strict_lenient a true _ _ _ _ h1
        rw [hSR] at h2
        exact (Except.ok.inj h2) ▸ hSin
      simp only []
      cases hls : a.look s with
      | none => exact Good.refl hinv
      | some e =>
        cases e with
        | dir m => exact Good.refl hinv
        | ref i =>
          cases hl : a.look (P ++ [c]) with
          | some e => exact Good.refl hinv
          | none => exact step_link hinv hin hD hl hsin hls hSn

/-- `os.mkdir(q/c)` inside `makedirs`: the location is missing, and realpath of a longer path
`q/c/rest…` is known to be inside -/
theorem kMkdir_missing_good {a : FS} (hinv : Inv dest a) {q rest : List Name} {c : Name} (hc : Plain c)
    (hrest : ∀ x ∈ rest, Plain x) {P : Path}
    (hP : walk a false true cfg.fuel [] (q ++ [c] ++ rest) = .ok P) (hPin : Inside dest P) (mode : Nat) :
    Good dest a (kMkdir a cfg (q ++ [c]) mode).1 := by
  unfold kMkdir kres
  cases hk : walk a true false cfg.fuel [] (q ++ [c]) with
  | error e => exact Good.refl hinv
  | ok L =>
    simp only []
    cases hl : a.look L with
    | some e => exact Good.refl hinv
    | none =>
      obtain ⟨D, hD, hLD, hDdir⟩ := walk_split_last a hinv.wf hinv.root c ⟨hc.2.1, hc.2.2⟩ _ _ _ _ hinv.root hk
      have h1 := walk_nofollow_follow a true _ _ _ _ hk (symTarget_of_look_none hl)
      have h2 := walk_strict_lenient a true _ _ _ _ h1
      have hPL := walk_lenient_append_missing a hinv.wf rest hrest _ _ _ _ _ h2 hl hP
      have hin : Inside dest L := prefix_missing_inside hinv.dirs (hPL ▸ hPin) hl
      subst hLD
      exact step_setDir hinv mode hin hDdir (Or.inl hl)

/-- the destination and its ancestors resolve to themselves -/
theorem walk_dest_prefix {a : FS} (hinv : Inv dest a) (hdp : ∀ c ∈ dest, c ≠ dot ∧ c ≠ dotdot)
    (hfuel : dest.length ≤ cfg.fuel) (strict follow : Bool) (k : Nat) :
    walk a strict follow cfg.fuel [] (dest.take k) = .ok (dest.take k) := by
  have h := walk_chain a strict follow (dest.take k) [] cfg.fuel []
    (fun c hc => hdp c (List.mem_of_mem_take hc))
    (fun j _ hj => by
      have hj' : j ≤ dest.length := Nat.le_trans hj (by simp [List.length_take]; omega)
      have : (dest.take k).take j = dest.take j := by
        rw [List.take_take]; congr 1; simp [List.length_take] at hj; omega
      simpa [this] using hinv.dirs j hj')
    (by simp [List.length_take]; omega)
  simpa [walk] using h

theorem kexists_dest_prefix {a : FS} (hinv : Inv dest a) (hdp : ∀ c ∈ dest, c ≠ dot ∧ c ≠ dotdot)
    (hfuel : dest.length ≤ cfg.fuel) (k : Nat) : kexists a cfg (dest.take k) = true := by
  unfold kexists kres
  rw [walk_dest_prefix hinv hdp hfuel true true k]
  obtain ⟨m, hm⟩ := hinv.dirs (min k dest.length) (Nat.min_le_right _ _)
  have : dest.take (min k dest.length) = dest.take k := by
    rcases Nat.le_total k dest.length with h | h
    · simp [Nat.min_eq_left h]
    · simp [Nat.min_eq_right h, List.take_of_length_le h]
  rw [this] at hm
  simp [hm]

/-- `os.makedirs(dest/cs)` creates only inside directories -/
theorem makedirs_good (hdne : dest ≠ []) (hdp : ∀ c ∈ dest, c ≠ dot ∧ c ≠ dotdot) (hfuel : dest.length ≤ cfg.fuel)
    {ups : List Name} (hups : ∀ c ∈ ups, Plain c) {P : Path} (hPin : Inside dest P) :
    ∀ (k : Nat) (cs rest : List Name) (a : FS), ups = cs ++ rest → Inv dest a →
      walk a false true cfg.fuel [] (dest ++ ups) = .ok P →
      Good dest a (makedirs a cfg k (dest ++ cs)).1 := by
  intro k
  induction k with
  | zero => intro cs rest a _ hinv _; exact Good.refl hinv
  | succ k ih =>
    intro cs rest a hsplit hinv hP
    rcases List.eq_nil_or_concat cs with hcs | ⟨cs', c, hcs⟩
    · -- the destination itself: exists, nothing happens
      subst hcs
      simp only [List.append_nil]
      obtain ⟨dl, hdl⟩ : ∃ x, dest.getLast? = some x := by
        cases h : dest.getLast? with
        | none => exact absurd (List.getLast?_eq_none_iff.mp h) hdne
        | some x => exact ⟨x, rfl⟩
      have hhead : kexists a cfg dest.dropLast = true := by
        have := kexists_dest_prefix (cfg := cfg) hinv hdp hfuel (dest.length - 1)
        rwa [← List.dropLast_eq_take] at this
      have hdl' : dl ≠ dot := (hdp dl (List.mem_of_getLast? hdl)).1
      have hmk : (kMkdir a cfg dest 0o755).1 = a := by
        unfold kMkdir kres
        have := walk_dest_prefix (cfg := cfg) hinv hdp hfuel true false dest.length
        simp only [List.take_length] at this
        rw [this]
        obtain ⟨m, hm⟩ := hinv.destDir
        simp [hm]
      have : (makedirs a cfg (k + 1) dest).1 = a := by
        simp only [makedirs, hdl, hhead, Bool.true_eq_false, and_false, if_false, hdl', hmk]
      rw [this]; exact Good.refl hinv
    · rw [List.concat_eq_append] at hcs
      subst hcs
      have hc : Plain c := hups c (by rw [hsplit]; simp)
      have hrest : ∀ x ∈ rest, Plain x := fun x hx => hups x (by rw [hsplit]; simp [hx])
      have hlast : (dest ++ (cs' ++ [c])).getLast? = some c := by
        rw [← List.append_assoc]; simp
      have hdrop : (dest ++ (cs' ++ [c])).dropLast = dest ++ cs' := by
        rw [← List.append_assoc]; simp
      simp only [makedirs, hlast, hdrop]
      -- the recursive call (or none)
      have hrec : Good dest a (if dest ++ cs' ≠ [] ∧ kexists a cfg (dest ++ cs') = false
          then makedirs a cfg k (dest ++ cs') else (a, KRes.ok)).1 := by
        split
        · exact ih cs' (c :: rest) a (by rw [hsplit]; simp) hinv hP
        · exact Good.refl hinv
      generalize (if dest ++ cs' ≠ [] ∧ kexists a cfg (dest ++ cs') = false
          then makedirs a cfg k (dest ++ cs') else (a, KRes.ok)) = r1 at hrec ⊢
      obtain ⟨a1, res⟩ := r1
      simp only [] at hrec ⊢
      have hP1 : walk a1 false true cfg.fuel [] (dest ++ cs' ++ [c] ++ rest) = .ok P := by
        rw [← walk_lenient_sameSym hrec.2.2 true]
        have : dest ++ cs' ++ [c] ++ rest = dest ++ ups := by rw [hsplit]; simp
        rw [this]; exact hP
      have hmk := kMkdir_missing_good (cfg := cfg) hrec.2.1 hc hrest hP1 hPin 0o755
      have hcd : c ≠ dot := hc.2.1
      cases res <;> simp only [hcd, if_false] <;> first
        | exact hrec
        | (rw [← List.append_assoc]; exact hrec.trans hmk)

end Ops
end TarExtract
