import BobModel.Proofs.C17Sem
/-
C17: `parse (render t) = eval t` — the mutual structural induction over fragment trees.
-/
namespace C17
open StringParser SubstSpec

/-- what a delimiter context must satisfy so that every fragment can be written inside it -/
structure GoodDelims (E : List Char) : Prop where
  sq : E.contains '\'' = false
  dollar : E.contains '$' = false
  bs : E.contains '\\' = false
  noName : ∀ c ∈ E, Consts.C17.nameChars.contains c = false

theorem good_top : GoodDelims ctxTop := ⟨by decide, by decide, by decide, by decide⟩
theorem good_dq : GoodDelims ctxDq := ⟨by decide, by decide, by decide, by decide⟩
theorem good_name : GoodDelims ctxName := ⟨by decide, by decide, by decide, by decide⟩
theorem good_branch : GoodDelims ctxBranch := ⟨by decide, by decide, by decide, by decide⟩
theorem good_word : GoodDelims ctxWord := ⟨by decide, by decide, by decide, by decide⟩

/-- the text after a fragment list: end of input (if allowed) or a closing delimiter -/
def Term (E : List Char) (o : Bool) (tail : Str) : Prop :=
  (tail = [] ∧ o = true) ∨ (∃ c t, tail = c :: t ∧ E.contains c = true)

def closeRest (k : Bool) (tail : Str) : Str :=
  match tail with
  | [] => []
  | c :: t => if k then c :: t else t

/-- `X` does not extend a bare variable name written directly in front of it -/
def okNext (X : Str) : Prop :=
  match X with
  | [] => True
  | c :: _ => Consts.C17.nameChars.contains c = false

theorem term_cons (E : List Char) (o : Bool) (c : Char) (t : Str) (h : E.contains c = true) :
    Term E o (c :: t) := Or.inr ⟨c, t, rfl, h⟩

theorem GS_term (cfg : Cfg) (E : List Char) (o k sb : Bool) (tail : Str) (h : Term E o tail) :
    GS cfg E o k sb tail (.ok ([], closeRest k tail)) := by
  rcases h with ⟨rfl, rfl⟩ | ⟨c, t, rfl, hc⟩
  · exact GS_eos cfg E k sb
  · exact GS_close cfg E o k sb c t hc

theorem getRestOfName_app (nm X : Str) (hnm : nm.all Consts.C17.nameChars.contains = true)
    (hX : okNext X) : getRestOfName (nm ++ X) = (nm, X) := by
  induction nm with
  | nil =>
    cases X with
    | nil => rfl
    | cons c t =>
      simp only [okNext] at hX
      simp only [List.nil_append, getRestOfName, hX, Bool.false_eq_true, if_false]
  | cons c nm ih =>
    simp only [List.all_cons, Bool.and_eq_true] at hnm
    simp only [List.cons_append, getRestOfName, hnm.1, if_true, ih hnm.2]

theorem special_not_name : Consts.C17.nameChars.contains '\\' = false ∧
    Consts.C17.nameChars.contains '\'' = false ∧ Consts.C17.nameChars.contains '"' = false ∧
    Consts.C17.nameChars.contains '$' = false := by decide

theorem okNext_render (E : List Char) (hG : GoodDelims E) (o : Bool) (fs : List Frag) (tail : Str)
    (hs : startOk fs = true) (ht : Term E o tail) : okNext (renderL E fs ++ tail) := by
  cases fs with
  | nil =>
    rcases ht with ⟨rfl, _⟩ | ⟨c, t, rfl, hc⟩
    · simp [renderL, okNext]
    · simp only [renderL, List.nil_append, okNext]
      exact hG.noName c (by simpa using hc)
  | cons f fs =>
    cases f with
    | lit c =>
      simp only [startOk, Bool.not_eq_true'] at hs
      simp only [renderL, Frag.render, renderLit]
      split
      · exact special_not_name.1
      · exact hs
    | esc c => exact special_not_name.1
    | sq s => exact special_not_name.2.1
    | dq g => exact special_not_name.2.2.1
    | bare n => exact special_not_name.2.2.2
    | var n => exact special_not_name.2.2.2
    | dflt n c d => exact special_not_name.2.2.2
    | altv n c d => exact special_not_name.2.2.2
    | call f a => exact special_not_name.2.2.2

/-! ### the three induction predicates -/

def PFrag (cfg : Cfg) (f : Frag) : Prop :=
  ∀ E, GoodDelims E → f.wf E = true → ∀ (o k sb : Bool) (X : Str) (RX : Res),
    (isBare f = true → okNext X) → GS cfg E o k sb X RX →
    GS cfg E o k sb (f.render E ++ X) (bindE (f.eval cfg sb) fun v => cat v RX)

def PList (cfg : Cfg) (fs : List Frag) : Prop :=
  ∀ E, GoodDelims E → wfL E fs = true → ∀ (o k sb : Bool) (tail : Str), Term E o tail →
    GS cfg E o k sb (renderL E fs ++ tail) (bindE (evalL cfg sb fs) fun v => .ok (v, closeRest k tail))

def PArgs (cfg : Cfg) (as : List (List Frag)) : Prop :=
  wfArgs as = true → ∀ (sb : Bool) (acc : List Str) (X wtxt : Str) (Rw : Except PErr Str),
    (∀ T, Term ctxWord false T →
      GS cfg ctxWord false true sb (wtxt ++ T) (bindE Rw fun v => .ok (v, T))) →
    GC cfg sb (wtxt ++ (renderArgs as ++ ')' :: X)) acc
      (bindE Rw fun v => bindE (evalArgs cfg sb as) fun vs => finish cfg sb (vs.reverse ++ v :: acc) X)

/-! ### small facts used by the literal cases -/

theorem isDelim_esc (E : List Char) (hG : GoodDelims E) : isDelim E Consts.C17.escapeChar = false := by
  unfold isDelim
  rw [base_esc, esc_is_backslash, hG.bs]; rfl

theorem plain_lit (E : List Char) (c : Char) (h : (metaChars.contains c || E.contains c) = false) :
    isDelim E c = false ∧ c ≠ Consts.C17.escapeChar := by
  rw [Bool.or_eq_false_iff] at h
  constructor
  · unfold isDelim
    rw [h.2, Bool.or_false]
    cases hb : Consts.C17.baseDelims.contains c with
    | false => rfl
    | true =>
      have := base_sub_meta c (by simpa using hb)
      rw [this] at h; exact absurd h.1 (by decide)
  · intro heq
    rw [esc_is_backslash] at heq
    subst heq
    exact absurd h.1 (by decide)

theorem closeRest_true (T : Str) : closeRest true T = T := by cases T <;> rfl

/-! ### the induction -/

mutual

theorem pFrag (cfg : Cfg) : (f : Frag) → PFrag cfg f
  | .lit c => by
    intro E hG _ o k sb X RX _ hRX
    simp only [Frag.render, Frag.eval, renderLit, bindE_ok]
    cases hm : (metaChars.contains c || E.contains c) with
    | true =>
      simp only [if_true, List.cons_append, List.nil_append]
      have := GS_esc cfg E o k sb c X (isDelim_esc E hG) RX hRX
      rw [esc_is_backslash] at this
      exact this
    | false =>
      simp only [Bool.false_eq_true, if_false, List.cons_append, List.nil_append]
      have hp := plain_lit E c hm
      exact GS_lit cfg E o k sb c X hp.1 hp.2 RX hRX
  | .esc c => by
    intro E hG _ o k sb X RX _ hRX
    simp only [Frag.render, Frag.eval, List.cons_append, List.nil_append, bindE_ok]
    have := GS_esc cfg E o k sb c X (isDelim_esc E hG) RX hRX
    rw [esc_is_backslash] at this
    exact this
  | .sq s => by
    intro E hG hwf o k sb X RX _ hRX
    simp only [Frag.wf, Bool.not_eq_true'] at hwf
    simp only [Frag.render, Frag.eval, bindE_ok]
    have := GS_sq cfg E o k sb s X hG.sq hwf RX hRX
    simpa using this
  | .dq fs => by
    intro E hG hwf o k sb X RX _ hRX
    simp only [Frag.wf, Bool.and_eq_true, Bool.not_eq_true'] at hwf
    have ih := pList cfg fs ctxDq good_dq hwf.2 false false sb ('"' :: X) (term_cons _ _ _ _ (by decide))
    simp only [closeRest, Bool.false_eq_true, if_false] at ih
    have e : (Frag.dq fs).render E ++ X = '"' :: (renderL ctxDq fs ++ '"' :: X) := by
      simp [Frag.render]
    rw [e]
    simp only [Frag.eval]
    cases hev : evalL cfg sb fs with
    | error err =>
      rw [hev] at ih
      exact GS_dq_err cfg E o k sb _ err hwf.1 ih
    | ok v =>
      rw [hev] at ih
      exact GS_dq_ok cfg E o k sb _ v X hwf.1 RX ih hRX
  | .bare name => by
    intro E hG hwf o k sb X RX hX hRX
    cases name with
    | nil => simp [Frag.wf, isName] at hwf
    | cons d nm =>
      simp only [Frag.wf, isName, Bool.and_eq_true] at hwf
      have hr := getRestOfName_app nm X hwf.2 (hX rfl)
      have := GS_bare cfg E o k sb d (nm ++ X) nm X hG.dollar hwf.1 hr RX hRX
      simpa [Frag.render, Frag.eval] using this
  | .var name => by
    intro E hG hwf o k sb X RX _ hRX
    simp only [Frag.wf] at hwf
    have ih := pList cfg name ctxName good_name hwf false true sb ('}' :: X) (term_cons _ _ _ _ (by decide))
    simp only [closeRest, if_true] at ih
    have e : (Frag.var name).render E ++ X = '$' :: '{' :: (renderL ctxName name ++ '}' :: X) := by
      simp [Frag.render]
    rw [e]
    simp only [Frag.eval]
    cases hev : evalL cfg sb name with
    | error err =>
      rw [hev] at ih
      exact GS_var_err cfg E o k sb _ err hG.dollar (GV_err cfg sb _ err ih)
    | ok n =>
      rw [hev] at ih
      have hv := GV_plain cfg sb _ n X ih
      dsimp only
      cases hvv : varValue cfg sb n with
      | error err =>
        rw [hvv] at hv
        exact GS_var_err cfg E o k sb _ err hG.dollar hv
      | ok v =>
        rw [hvv] at hv
        exact GS_var_ok cfg E o k sb _ v X hG.dollar RX hv hRX
  | .dflt name colon d => by
    intro E hG hwf o k sb X RX _ hRX
    simp only [Frag.wf, Bool.and_eq_true] at hwf
    have ht : Term ctxName false (colonStr colon ++ '-' :: (renderL ctxBranch d ++ '}' :: X)) := by
      cases colon
      · exact term_cons _ _ _ _ (by decide)
      · exact term_cons _ _ _ _ (by decide)
    have ih := pList cfg name ctxName good_name hwf.1 false true sb _ ht
    rw [closeRest_true] at ih
    have e : (Frag.dflt name colon d).render E ++ X =
        '$' :: '{' :: (renderL ctxName name ++ (colonStr colon ++ '-' :: (renderL ctxBranch d ++ '}' :: X))) := by
      simp [Frag.render]
    rw [e]
    simp only [Frag.eval]
    cases hev : evalL cfg sb name with
    | error err =>
      rw [hev] at ih
      exact GS_var_err cfg E o k sb _ err hG.dollar (GV_err cfg sb _ err ih)
    | ok n =>
      rw [hev] at ih
      have ihd := pList cfg d ctxBranch good_branch hwf.2 false false (sb && isUnset cfg colon n)
        ('}' :: X) (term_cons _ _ _ _ (by decide))
      simp only [closeRest, Bool.false_eq_true, if_false] at ihd
      have hv := GV_dflt cfg sb colon _ n _ _ ih ihd
      dsimp only
      cases hed : evalL cfg (sb && isUnset cfg colon n) d with
      | error err =>
        rw [hed] at hv
        exact GS_var_err cfg E o k sb _ err hG.dollar hv
      | ok dv =>
        rw [hed] at hv
        exact GS_var_ok cfg E o k sb _ _ X hG.dollar RX hv hRX
  | .altv name colon a => by
    intro E hG hwf o k sb X RX _ hRX
    simp only [Frag.wf, Bool.and_eq_true] at hwf
    have ht : Term ctxName false (colonStr colon ++ '+' :: (renderL ctxBranch a ++ '}' :: X)) := by
      cases colon
      · exact term_cons _ _ _ _ (by decide)
      · exact term_cons _ _ _ _ (by decide)
    have ih := pList cfg name ctxName good_name hwf.1 false true sb _ ht
    rw [closeRest_true] at ih
    have e : (Frag.altv name colon a).render E ++ X =
        '$' :: '{' :: (renderL ctxName name ++ (colonStr colon ++ '+' :: (renderL ctxBranch a ++ '}' :: X))) := by
      simp [Frag.render]
    rw [e]
    simp only [Frag.eval]
    cases hev : evalL cfg sb name with
    | error err =>
      rw [hev] at ih
      exact GS_var_err cfg E o k sb _ err hG.dollar (GV_err cfg sb _ err ih)
    | ok n =>
      rw [hev] at ih
      have iha := pList cfg a ctxBranch good_branch hwf.2 false false (sb && !isUnset cfg colon n)
        ('}' :: X) (term_cons _ _ _ _ (by decide))
      simp only [closeRest, Bool.false_eq_true, if_false] at iha
      have hv := GV_altv cfg sb colon _ n _ _ ih iha
      dsimp only
      cases hea : evalL cfg (sb && !isUnset cfg colon n) a with
      | error err =>
        rw [hea] at hv
        exact GS_var_err cfg E o k sb _ err hG.dollar hv
      | ok av =>
        rw [hea] at hv
        exact GS_var_ok cfg E o k sb _ _ X hG.dollar RX hv hRX
  | .call f args => by
    intro E hG hwf o k sb X RX _ hRX
    simp only [Frag.wf, Bool.and_eq_true] at hwf
    have hw : ∀ T, Term ctxWord false T → GS cfg ctxWord false true sb (renderL ctxWord f ++ T)
        (bindE (evalL cfg sb f) fun v => .ok (v, T)) := by
      intro T hT
      have := pList cfg f ctxWord good_word hwf.1 false true sb T hT
      rw [closeRest_true] at this
      exact this
    have hc := pArgs cfg args hwf.2 sb [] X (renderL ctxWord f) (evalL cfg sb f) hw
    have e : (Frag.call f args).render E ++ X =
        '$' :: '(' :: (renderL ctxWord f ++ (renderArgs args ++ ')' :: X)) := by
      simp [Frag.render]
    rw [e]
    simp only [Frag.eval]
    cases hef : evalL cfg sb f with
    | error err =>
      rw [hef] at hc
      exact GS_cmd_err cfg E o k sb _ err hG.dollar hc
    | ok fn =>
      rw [hef] at hc
      dsimp only [bindE_ok] at hc ⊢
      cases hea : evalArgs cfg sb args with
      | error err =>
        rw [hea] at hc
        exact GS_cmd_err cfg E o k sb _ err hG.dollar hc
      | ok vs =>
        rw [hea] at hc
        dsimp only [bindE_ok] at hc ⊢
        cases sb with
        | false =>
          have := GS_cmd_ok cfg E o k false _ [] X hG.dollar RX hc hRX
          simpa using this
        | true =>
          simp only [finish, Bool.not_true, Bool.false_eq_true, if_false, List.reverse_append,
            List.reverse_cons, List.reverse_nil, List.nil_append, List.reverse_reverse,
            List.singleton_append, if_true] at hc ⊢
          cases hcf : callFun cfg fn vs with
          | error err =>
            rw [hcf] at hc
            exact GS_cmd_err cfg E o k true _ err hG.dollar hc
          | ok v =>
            rw [hcf] at hc
            exact GS_cmd_ok cfg E o k true _ v X hG.dollar RX hc hRX

theorem pList (cfg : Cfg) : (fs : List Frag) → PList cfg fs
  | [] => by
    intro E _ _ o k sb tail ht
    simp only [renderL, evalL, List.nil_append, bindE_ok]
    exact GS_term cfg E o k sb tail ht
  | f :: fs => by
    intro E hG hwf o k sb tail ht
    simp only [wfL, Bool.and_eq_true, Bool.or_eq_true, Bool.not_eq_true'] at hwf
    have ihs := pList cfg fs E hG hwf.2 o k sb tail ht
    have hX : isBare f = true → okNext (renderL E fs ++ tail) := by
      intro hb
      rcases hwf.1.2 with h | h
      · rw [hb] at h; cases h
      · exact okNext_render E hG o fs tail h ht
    have ihf := pFrag cfg f E hG hwf.1.1 o k sb _ _ hX ihs
    have e : renderL E (f :: fs) ++ tail = f.render E ++ (renderL E fs ++ tail) := by
      simp [renderL]
    rw [e, evalL]
    cases hf : f.eval cfg sb with
    | error err => rw [hf] at ihf; exact ihf
    | ok v =>
      rw [hf] at ihf
      dsimp only [bindE_ok] at ihf ⊢
      cases hfs : evalL cfg sb fs with
      | error err => rw [hfs] at ihf; exact ihf
      | ok r => rw [hfs] at ihf; exact ihf

theorem pArgs (cfg : Cfg) : (as : List (List Frag)) → PArgs cfg as
  | [] => by
    intro _ sb acc X wtxt Rw hw
    have h := hw (')' :: X) (term_cons _ _ _ _ (by decide))
    simp only [renderArgs, SubstSpec.evalArgs, List.nil_append]
    cases Rw with
    | error err => exact GC_err cfg sb _ acc err h
    | ok v => exact GC_last cfg sb _ v X acc h
  | a :: as => by
    intro hwf sb acc X wtxt Rw hw
    simp only [wfArgs, Bool.and_eq_true] at hwf
    have h := hw (',' :: (renderL ctxWord a ++ (renderArgs as ++ ')' :: X))) (term_cons _ _ _ _ (by decide))
    have e : wtxt ++ (renderArgs (a :: as) ++ ')' :: X) =
        wtxt ++ ',' :: (renderL ctxWord a ++ (renderArgs as ++ ')' :: X)) := by
      simp [renderArgs]
    rw [e]
    cases Rw with
    | error err => exact GC_err cfg sb _ acc err h
    | ok v =>
      dsimp only [bindE_ok] at h ⊢
      have hwa : ∀ T, Term ctxWord false T → GS cfg ctxWord false true sb (renderL ctxWord a ++ T)
          (bindE (evalL cfg sb a) fun v => .ok (v, T)) := by
        intro T hT
        have := pList cfg a ctxWord good_word hwf.1 false true sb T hT
        rw [closeRest_true] at this
        exact this
      have ih := pArgs cfg as hwf.2 sb (v :: acc) X (renderL ctxWord a) (evalL cfg sb a) hwa
      have := GC_more cfg sb _ v _ acc _ h ih
      rw [SubstSpec.evalArgs]
      cases hea : evalL cfg sb a with
      | error err => rw [hea] at this; exact this
      | ok va =>
        rw [hea] at this
        dsimp only [bindE_ok] at this ⊢
        cases heas : evalArgs cfg sb as with
        | error err => rw [heas] at this; exact this
        | ok vs =>
          rw [heas] at this
          simpa using this

end

/-- **main lemma**: the parser on the rendering of a well-formed tree returns the documented value -/
theorem parse_render (cfg : Cfg) (fs : List Frag) (hwf : wfL ctxTop fs = true) :
    parse cfg (renderL ctxTop fs) = evalL cfg true fs := by
  have h := pList cfg fs ctxTop good_top hwf true false true [] (Or.inl ⟨rfl, rfl⟩)
  rw [List.append_nil] at h
  have := parse_of_eventually cfg _ _ h
  rw [this]
  cases evalL cfg true fs <;> rfl

/-! ### with substitution switched off nothing can fail (laziness of the untaken branch) -/

mutual
theorem evalF_off (cfg : Cfg) : (f : Frag) → ∃ v, f.eval cfg false = .ok v
  | .lit c => ⟨_, rfl⟩
  | .esc c => ⟨_, rfl⟩
  | .sq s => ⟨_, rfl⟩
  | .dq fs => by
    obtain ⟨v, hv⟩ := evalL_off cfg fs
    exact ⟨v, by simp only [Frag.eval, hv]⟩
  | .bare name => by
    simp only [Frag.eval, varValue, Bool.false_and, Bool.false_eq_true, if_false]
    cases lookup cfg.env name with
    | none => exact ⟨_, rfl⟩
    | some v => exact ⟨_, rfl⟩
  | .var name => by
    obtain ⟨n, hn⟩ := evalL_off cfg name
    simp only [Frag.eval, hn, varValue, Bool.false_and, Bool.false_eq_true, if_false]
    cases lookup cfg.env n with
    | none => exact ⟨_, rfl⟩
    | some v => exact ⟨_, rfl⟩
  | .dflt name colon d => by
    obtain ⟨n, hn⟩ := evalL_off cfg name
    obtain ⟨dv, hd⟩ := evalL_off cfg d
    exact ⟨_, by simp only [Frag.eval, hn, Bool.false_and, hd]; rfl⟩
  | .altv name colon a => by
    obtain ⟨n, hn⟩ := evalL_off cfg name
    obtain ⟨av, ha⟩ := evalL_off cfg a
    exact ⟨_, by simp only [Frag.eval, hn, Bool.false_and, ha]; rfl⟩
  | .call f args => by
    obtain ⟨fn, hf⟩ := evalL_off cfg f
    obtain ⟨vs, hvs⟩ := evalArgs_off cfg args
    exact ⟨_, by simp only [Frag.eval, hf, hvs, Bool.false_eq_true, if_false]; rfl⟩

theorem evalL_off (cfg : Cfg) : (fs : List Frag) → ∃ v, evalL cfg false fs = .ok v
  | [] => ⟨_, rfl⟩
  | f :: fs => by
    obtain ⟨v, hv⟩ := evalF_off cfg f
    obtain ⟨r, hr⟩ := evalL_off cfg fs
    exact ⟨_, by simp only [evalL, hv, hr]; rfl⟩

theorem evalArgs_off (cfg : Cfg) : (as : List (List Frag)) → ∃ vs, SubstSpec.evalArgs cfg false as = .ok vs
  | [] => ⟨_, rfl⟩
  | a :: as => by
    obtain ⟨v, hv⟩ := evalL_off cfg a
    obtain ⟨r, hr⟩ := evalArgs_off cfg as
    exact ⟨_, by simp only [SubstSpec.evalArgs, hv, hr]; rfl⟩
end

/-! ### protected text -/

theorem GS_escAll (cfg : Cfg) (s : Str) : GS cfg [] true false true (escAll s) (.ok (s, [])) := by
  induction s with
  | nil => exact GS_eos cfg [] false true
  | cons c s ih =>
    have := GS_esc cfg [] true false true c (escAll s) (isDelim_esc [] good_top) _ ih
    rw [esc_is_backslash] at this
    simpa [escAll] using this

theorem escMeta_cons (c : Char) (s : Str) :
    escMeta (c :: s) = (if metaChars.contains c then ['\\', c] else [c]) ++ escMeta s := by
  simp [escMeta]

theorem GS_escMeta (cfg : Cfg) (sb : Bool) (s X : Str) :
    GS cfg ctxDq false false sb (escMeta s ++ '"' :: X) (.ok (s, X)) := by
  induction s with
  | nil => exact GS_close cfg ctxDq false false sb '"' X (by decide)
  | cons c s ih =>
    cases hm : metaChars.contains c with
    | true =>
      have := GS_esc cfg ctxDq false false sb c (escMeta s ++ '"' :: X) (isDelim_esc _ good_dq) _ ih
      rw [esc_is_backslash] at this
      rw [escMeta_cons, hm]
      exact this
    | false =>
      have hp := plain_lit ctxDq c (by
        rw [hm, Bool.false_or]
        cases hq : ctxDq.contains c with
        | false => rfl
        | true =>
          have : c = '"' := by simpa [ctxDq] using hq
          subst this
          exact absurd hm (by decide))
      have := GS_lit cfg ctxDq false false sb c (escMeta s ++ '"' :: X) hp.1 hp.2 _ ih
      rw [escMeta_cons, hm]
      exact this

/-! ### data for the non-vacuity examples in Props/C17.lean -/

def lits (s : Str) : List Frag := s.map .lit

/-- `"${A:-$(if-then-else,${B},'x,y',\))}"` : a call inside a default inside double quotes, with a
braced variable, a quoted comma and an escaped parenthesis as arguments -/
def exTree : List Frag :=
  [.dq [.dflt (lits ['A']) true
    [.call (lits ['i', 'f', '-', 't', 'h', 'e', 'n', '-', 'e', 'l', 's', 'e'])
      [[.var (lits ['B'])], [.sq ['x', ',', 'y']], [.lit ')']]]]]

/-- `${A:-$U$(nofun,x)}` : the default refers to an unset variable and an unknown function -/
def exLazy : List Frag :=
  [.dflt (lits ['A']) true [.bare ['U'], .call (lits ['n', 'o', 'f', 'u', 'n']) [[.lit 'x']]]]

def exCfg (env : List (Str × Str)) : Cfg :=
  { env := env, nounset := true, sandbox := false, tools := [] }

end C17
