import BobModel.Proofs.C19Spec
/-
C19 helper lemmas: the work-list closure of `doArchiveClean` terminates within its fuel and
computes exactly the build ids reachable from the directly retained ones.
-/
namespace Retention

theorem mem_refsOf {refs : List (Bid × Bid)} {a b : Bid} : b ∈ refsOf refs a ↔ (a, b) ∈ refs := by
  simp only [refsOf, List.mem_map, List.mem_filter, beq_iff_eq]
  constructor
  · rintro ⟨p, ⟨hp, h1⟩, h2⟩
    obtain ⟨x, y⟩ := p
    simp at h1 h2
    subst h1; subst h2
    exact hp
  · intro h
    exact ⟨(a, b), ⟨h, rfl⟩, rfl⟩

/-- references whose owner is not retained yet: each of them can still be pushed once -/
def pending (refs : List (Bid × Bid)) (ret : List Bid) : List (Bid × Bid) :=
  refs.filter fun p => !ret.contains p.1

theorem pending_cons {refs : List (Bid × Bid)} {ret : List Bid} {t : Bid} (ht : ret.contains t = false) :
    (pending refs (t :: ret)).length + (refsOf refs t).length = (pending refs ret).length := by
  induction refs with
  | nil => simp [pending, refsOf]
  | cons p rest ih =>
    obtain ⟨x, y⟩ := p
    simp only [pending, refsOf] at ih ⊢
    by_cases hp : x = t
    · subst hp
      have h1 : (x :: ret).contains x = true := by simp
      simp only [List.filter_cons, h1, ht, beq_self_eq_true, Bool.not_true, Bool.not_false, Bool.false_eq_true,
        if_false, if_true, List.map_cons, List.length_cons]
      omega
    · have h3 : (x == t) = false := by simpa using hp
      have h1 : (t :: ret).contains x = ret.contains x := by
        rw [List.contains_cons, h3, Bool.false_or]
      simp only [List.filter_cons, h1, h3, Bool.false_eq_true, if_false]
      cases hr : ret.contains x with
      | true => simpa using ih
      | false =>
        simp only [Bool.not_false, if_true, List.length_cons]
        omega

/-- what the loop maintains -/
structure CInv (refs : List (Bid × Bid)) (D ret todo : List Bid) : Prop where
  soundRet : ∀ x ∈ ret, Reach refs D x
  soundTodo : ∀ x ∈ todo, Reach refs D x
  base : ∀ x ∈ D, x ∈ ret
  closed : ∀ a ∈ ret, ∀ b, (a, b) ∈ refs → b ∈ ret ∨ b ∈ todo

theorem closureAux_spec (refs : List (Bid × Bid)) (D : List Bid) :
    ∀ (n : Nat) (ret todo : List Bid), todo.length + (pending refs ret).length ≤ n → CInv refs D ret todo →
      CInv refs D (closureAux refs n ret todo) [] := by
  intro n
  induction n with
  | zero =>
    intro ret todo hf h
    have : todo = [] := by
      cases todo with
      | nil => rfl
      | cons _ _ => simp at hf
    subst this
    simpa [closureAux] using h
  | succ n ih =>
    intro ret todo hf h
    cases todo with
    | nil => simpa [closureAux] using h
    | cons t todo =>
      simp only [closureAux]
      by_cases hc : ret.contains t = true
      · simp only [hc, if_true]
        apply ih
        · simp only [List.length_cons] at hf; omega
        · have hm : t ∈ ret := List.contains_iff_mem.mp hc
          refine ⟨h.soundRet, fun x hx => h.soundTodo x (by simp [hx]), h.base, ?_⟩
          intro a ha b hab
          rcases h.closed a ha b hab with h' | h'
          · exact Or.inl h'
          · rcases List.mem_cons.mp h' with rfl | h'
            · exact Or.inl hm
            · exact Or.inr h'
      · have hc' : ret.contains t = false := by simpa using hc
        simp only [hc', Bool.false_eq_true, if_false]
        apply ih
        · have := pending_cons (refs := refs) hc'
          simp only [List.length_cons, List.length_append] at hf ⊢
          omega
        · have ht : Reach refs D t := h.soundTodo t (by simp)
          refine ⟨?_, ?_, fun x hx => by simp [h.base x hx], ?_⟩
          · intro x hx
            rcases List.mem_cons.mp hx with rfl | hx
            · exact ht
            · exact h.soundRet x hx
          · intro x hx
            rcases List.mem_append.mp hx with hx | hx
            · exact Reach.step ht (mem_refsOf.mp hx)
            · exact h.soundTodo x (by simp [hx])
          · intro a ha b hab
            rcases List.mem_cons.mp ha with rfl | ha
            · exact Or.inr (List.mem_append.mpr (Or.inl (mem_refsOf.mpr hab)))
            · rcases h.closed a ha b hab with h' | h'
              · exact Or.inl (by simp [h'])
              · rcases List.mem_cons.mp h' with rfl | h'
                · exact Or.inl (by simp)
                · exact Or.inr (List.mem_append.mpr (Or.inr h'))

theorem closure_cinv (refs : List (Bid × Bid)) (D : List Bid) : CInv refs D (closure refs D) [] := by
  unfold closure
  apply closureAux_spec
  · have := List.length_filter_le (fun p : Bid × Bid => !D.contains p.1) refs
    simp only [pending]
    omega
  · refine ⟨fun x hx => Reach.base hx, ?_, fun x hx => hx, ?_⟩
    · intro x hx
      obtain ⟨a, ha, hxa⟩ := List.mem_flatMap.mp hx
      exact Reach.step (Reach.base ha) (mem_refsOf.mp hxa)
    · intro a ha b hab
      exact Or.inr (List.mem_flatMap.mpr ⟨a, ha, mem_refsOf.mpr hab⟩)

theorem mem_closure {refs : List (Bid × Bid)} {D : List Bid} {x : Bid} : x ∈ closure refs D ↔ Reach refs D x := by
  have h := closure_cinv refs D
  constructor
  · exact h.soundRet x
  · intro hr
    induction hr with
    | base hb => exact h.base _ hb
    | step _ hab ih =>
      rcases h.closed _ ih _ hab with h' | h'
      · exact h'
      · simp at h'

theorem reach_congr {r1 r2 : List (Bid × Bid)} (h : ∀ p, p ∈ r1 ↔ p ∈ r2) {D1 D2 : List Bid} (hD : ∀ b, b ∈ D1 ↔ b ∈ D2)
    {x : Bid} : Reach r1 D1 x ↔ Reach r2 D2 x := by
  constructor
  · intro hr
    induction hr with
    | base hb => exact Reach.base ((hD _).mp hb)
    | step _ hab ih => exact Reach.step ih ((h _).mp hab)
  · intro hr
    induction hr with
    | base hb => exact Reach.base ((hD _).mpr hb)
    | step _ hab ih => exact Reach.step ih ((h _).mpr hab)

end Retention
