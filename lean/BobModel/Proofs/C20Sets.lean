import BobModel.Model.Jenkins
/-
C20 helper lemmas: list-as-set operations of the Jenkins model, reachability.
-/
namespace Jenkins

theorem mem_insert1 {a : List Nat} {x y : Nat} : y ∈ insert1 a x ↔ y ∈ a ∨ y = x := by
  unfold insert1
  split
  · rename_i h
    have hx : x ∈ a := by simpa using h
    constructor
    · intro hy; exact Or.inl hy
    · rintro (hy | rfl)
      · exact hy
      · exact hx
  · simp

theorem mem_union {a b : List Nat} {y : Nat} : y ∈ union a b ↔ y ∈ a ∨ y ∈ b := by
  unfold union
  induction b generalizing a with
  | nil => simp
  | cons x xs ih =>
    simp only [List.foldl_cons, ih, mem_insert1, List.mem_cons]
    constructor
    · rintro ((h | h) | h)
      · exact Or.inl h
      · exact Or.inr (Or.inl h)
      · exact Or.inr (Or.inr h)
    · rintro (h | h | h)
      · exact Or.inl (Or.inl h)
      · exact Or.inl (Or.inr h)
      · exact Or.inr h

theorem subset_iff {a b : List Nat} : subset a b = true ↔ ∀ x ∈ a, x ∈ b := by
  unfold subset
  simp [List.all_eq_true]

theorem nodup_insert1 {a : List Nat} {x : Nat} (h : a.Nodup) : (insert1 a x).Nodup := by
  unfold insert1
  split
  · exact h
  · rename_i hx
    have hx' : x ∉ a := by simpa using hx
    rw [List.nodup_append]
    refine ⟨h, by simp, ?_⟩
    intro y hy z hz
    simp at hz
    subst hz
    intro e; subst e; exact hx' hy

theorem nodup_union {a b : List Nat} (h : a.Nodup) : (union a b).Nodup := by
  unfold union
  induction b generalizing a with
  | nil => simpa using h
  | cons x xs ih => exact ih (nodup_insert1 h)

@[simp] theorem upd_same {α : Type} (f : Nat → α) (k : Nat) (v : α) : upd f k v k = v := by simp [upd]

theorem upd_other {α : Type} (f : Nat → α) {k x : Nat} (v : α) (h : x ≠ k) : upd f k v x = f x := by simp [upd, h]

/-- reflexive transitive closure -/
inductive Reach {α : Type} (E : α → α → Prop) : α → α → Prop
  | refl (a : α) : Reach E a a
  | tail {a b c : α} : Reach E a b → E b c → Reach E a c

namespace Reach
variable {α : Type} {E E' : α → α → Prop}

theorem single {a b : α} (h : E a b) : Reach E a b := tail (refl a) h

theorem trans {a b c : α} (h1 : Reach E a b) (h2 : Reach E b c) : Reach E a c := by
  induction h2 with
  | refl => exact h1
  | tail _ e ih => exact tail ih e

theorem head {a b c : α} (e : E a b) (h : Reach E b c) : Reach E a c := trans (single e) h

theorem mono (hE : ∀ a b, E a b → E' a b) {a b : α} (h : Reach E a b) : Reach E' a b := by
  induction h with
  | refl => exact refl _
  | tail _ e ih => exact tail ih (hE _ _ e)

/-- a set that contains the target and is closed under going one edge backwards contains every source -/
theorem back_closed {G : α → Prop} {a b : α} (h : Reach E a b) (hb : G b)
    (hc : ∀ u d, E u d → G d → G u) : G a := by
  induction h with
  | refl => exact hb
  | tail _ e ih => exact ih (hc _ _ e hb)

/-- a set that contains the source and is closed under edges contains every target -/
theorem fwd_closed {G : α → Prop} {a b : α} (h : Reach E a b) (ha : G a)
    (hc : ∀ u d, E u d → G u → G d) : G b := by
  induction h with
  | refl => exact ha
  | tail _ e ih => exact hc _ _ e ih

end Reach

end Jenkins
