import BobModel.Model.Scripts
/-
Helper lemmas for C02 about `joinScripts` / `mergeScripts`.
-/
namespace Scripts

theorem present_append (a b : List (Option Str)) : present (a ++ b) = present a ++ present b := by
  induction a with
  | nil => rfl
  | cons x xs ih =>
    match x with
    | none => simpa [present] using ih
    | some [] => simpa [present] using ih
    | some (c :: cs) => simp [present, ih]

theorem present_ne_nil {l : List (Option Str)} {s : Str} (h : s ∈ present l) : s ≠ [] := by
  induction l with
  | nil => simp [present] at h
  | cons x xs ih =>
    match x with
    | none => exact ih (by simpa [present] using h)
    | some [] => exact ih (by simpa [present] using h)
    | some (c :: cs) =>
      simp only [present, List.mem_cons] at h
      rcases h with rfl | h
      · simp
      · exact ih h

theorem join_cons_cons (g s : Str) (t : Str) (r : List Str) :
    join g (s :: t :: r) = s ++ g ++ join g (t :: r) := rfl

theorem join_append_ne (g : Str) (l1 l2 : List Str) (h1 : l1 ≠ []) (h2 : l2 ≠ []) :
    join g (l1 ++ l2) = join g l1 ++ g ++ join g l2 := by
  induction l1 with
  | nil => exact absurd rfl h1
  | cons s r ih =>
    cases r with
    | nil =>
      cases l2 with
      | nil => exact absurd rfl h2
      | cons x m => simp [join]
    | cons t r' =>
      have := ih (by simp)
      simp only [List.cons_append] at this ⊢
      rw [join_cons_cons, this, join_cons_cons]
      simp [List.append_assoc]

theorem join_ne_nil (g : Str) (l : List Str) (h : l ≠ []) (hs : ∀ s ∈ l, s ≠ []) : join g l ≠ [] := by
  cases l with
  | nil => exact absurd rfl h
  | cons s r =>
    have hs0 := hs s (by simp)
    cases r with
    | nil => simpa [join] using hs0
    | cons t r' =>
      rw [join_cons_cons]
      intro e
      simp at e
      exact hs0 e.1

/-- `joinScripts` as a function of the present fragments -/
def joinP (g : Str) (l : List Str) : Option Str :=
  match l with
  | [] => none
  | s :: r => some (join g (s :: r))

theorem joinScripts_eq (l : List (Option Str)) (g : Str) : joinScripts l g = joinP g (present l) := by
  unfold joinScripts joinP
  cases present l <;> rfl

theorem present_singleton_joinP (g : Str) (l : List Str) (hs : ∀ s ∈ l, s ≠ []) :
    present [joinP g l] = if l = [] then [] else [join g l] := by
  cases l with
  | nil => simp [joinP, present]
  | cons s r =>
    have hne := join_ne_nil g (s :: r) (by simp) hs
    simp only [joinP]
    cases hj : join g (s :: r) with
    | nil => exact absurd hj hne
    | cons c cs => simp [present]

theorem join_mid (g : Str) (pre l m : List Str) (hl : l ≠ []) :
    join g (pre ++ (join g l :: m)) = join g (pre ++ l ++ m) := by
  have base : join g (join g l :: m) = join g (l ++ m) := by
    cases m with
    | nil => simp [join]
    | cons t r => rw [join_cons_cons, join_append_ne g l (t :: r) hl (by simp)]
  cases pre with
  | nil => simpa using base
  | cons p ps =>
    have e : p :: ps ++ l ++ m = (p :: ps) ++ (l ++ m) := by simp
    rw [join_append_ne g (p :: ps) _ (by simp) (by simp), base, e,
      join_append_ne g (p :: ps) (l ++ m) (by simp) (by simp [hl])]

/-- a joined group in the middle of a list can be replaced by its members -/
theorem joinScripts_mid (A B M : List (Option Str)) (g : Str) :
    joinScripts (A ++ joinScripts B g :: M) g = joinScripts (A ++ B ++ M) g := by
  rw [joinScripts_eq, joinScripts_eq (A ++ B ++ M), joinScripts_eq B, present_append, present_append,
    present_append]
  have hB : ∀ s ∈ present B, s ≠ [] := fun s h => present_ne_nil h
  have e : present (joinP g (present B) :: M) = present [joinP g (present B)] ++ present M :=
    present_append [_] M
  rw [e, present_singleton_joinP g _ hB]
  by_cases b : present B = []
  · simp [b]
  · simp only [b, if_false, List.singleton_append]
    have hj := join_mid g (present A) (present B) (present M) b
    have n1 : present A ++ join g (present B) :: present M ≠ [] := by simp
    have n2 : present A ++ present B ++ present M ≠ [] := by simp [b]
    cases h1 : present A ++ join g (present B) :: present M with
    | nil => exact absurd h1 n1
    | cons x xs =>
      cases h2 : present A ++ present B ++ present M with
      | nil => exact absurd h2 n2
      | cons y ys =>
        rw [h1, h2] at hj
        simp [joinP, hj]

/-- joining two joined groups is joining the concatenation -/
theorem joinScripts_two (A B : List (Option Str)) (g : Str) :
    joinScripts [joinScripts A g, joinScripts B g] g = joinScripts (A ++ B) g := by
  have h1 := joinScripts_mid [] A [joinScripts B g] g
  have h2 := joinScripts_mid A B [] g
  simp only [List.nil_append, List.append_nil] at h1 h2
  rw [h1, h2]

theorem joinScripts_three (A B C : List (Option Str)) (g : Str) :
    joinScripts [joinScripts A g, joinScripts B g, joinScripts C g] g = joinScripts (A ++ B ++ C) g := by
  have h1 := joinScripts_mid [] A [joinScripts B g, joinScripts C g] g
  have h2 := joinScripts_mid A B [joinScripts C g] g
  have h3 := joinScripts_mid (A ++ B) C [] g
  simp only [List.nil_append, List.append_nil] at h1 h2 h3
  rw [h1, h2, h3]

theorem present_reverse (l : List (Option Str)) : present l.reverse = (present l).reverse := by
  induction l with
  | nil => rfl
  | cons x xs ih =>
    rw [List.reverse_cons, present_append, ih]
    match x with
    | none => simp [present]
    | some [] => simp [present]
    | some (c :: cs) => simp [present]

/-- digests of the present fragments: the present fragments' digests (texts are never empty when present,
digests are never empty) -/
theorem present_map_digest (dg : Str → Str) (hne : ∀ t, dg t ≠ []) (l : List (Option Str))
    (hl : ∀ x ∈ l, x ≠ some []) : present (l.map (Option.map dg)) = (present l).map dg := by
  induction l with
  | nil => rfl
  | cons x xs ih =>
    have ih' := ih (fun y hy => hl y (by simp [hy]))
    match x, hl x (by simp) with
    | none, _ => simpa [present] using ih'
    | some [], h => exact absurd rfl h
    | some (c :: cs), _ =>
      simp only [List.map_cons, Option.map_some, present]
      cases hd : dg (c :: cs) with
      | nil => exact absurd hd (hne _)
      | cons d ds => simp [present, ih']

/-- a line without line break that is not empty -/
def Atomic (t : Str) : Prop := t ≠ [] ∧ '\n' ∉ t

theorem line_split {a b x y : Str} (ha : '\n' ∉ a) (hb : '\n' ∉ b)
    (h : a ++ '\n' :: x = b ++ '\n' :: y) : a = b ∧ x = y := by
  induction a generalizing b with
  | nil =>
    cases b with
    | nil => simpa using h
    | cons c cs =>
      simp only [List.nil_append, List.cons_append, List.cons.injEq] at h
      exact absurd (by simp [← h.1]) hb
  | cons c cs ih =>
    cases b with
    | nil =>
      simp only [List.nil_append, List.cons_append, List.cons.injEq] at h
      exact absurd (by simp [h.1]) ha
    | cons d ds =>
      simp only [List.cons_append, List.cons.injEq] at h
      have ⟨e1, e2⟩ := ih (fun hh => ha (by simp [hh])) (fun hh => hb (by simp [hh])) h.2
      exact ⟨by rw [h.1, e1], e2⟩

theorem join_nl_no_split {a : Str} {l : List Str} (ha : '\n' ∉ a) (h : a = join nl l)
    (hl : ∀ t ∈ l, Atomic t) : l = [a] ∨ (l = [] ∧ a = []) := by
  cases l with
  | nil => right; exact ⟨rfl, by simpa [join] using h⟩
  | cons s r =>
    cases r with
    | nil => left; simp [join] at h; rw [h]
    | cons t r' =>
      rw [join_cons_cons] at h
      exact absurd (by rw [h]; simp [nl]) ha

/-- `"\n".join` is injective on lists of atomic lines -/
theorem join_nl_inj {l l' : List Str} (hl : ∀ t ∈ l, Atomic t) (hl' : ∀ t ∈ l', Atomic t)
    (h : join nl l = join nl l') : l = l' := by
  induction l generalizing l' with
  | nil =>
    cases l' with
    | nil => rfl
    | cons s r =>
      have := join_ne_nil nl (s :: r) (by simp) (fun t ht => (hl' t ht).1)
      exact absurd h.symm this
  | cons s r ih =>
    cases l' with
    | nil =>
      have := join_ne_nil nl (s :: r) (by simp) (fun t ht => (hl t ht).1)
      exact absurd h this
    | cons s' r' =>
      have hs := hl s (by simp)
      have hs' := hl' s' (by simp)
      cases r with
      | nil =>
        cases r' with
        | nil => simp [join] at h; rw [h]
        | cons t' q' =>
          rw [join_cons_cons] at h
          simp only [join] at h
          exact absurd (by rw [h]; simp [nl]) hs.2
      | cons t q =>
        cases r' with
        | nil =>
          rw [join_cons_cons] at h
          simp only [join] at h
          exact absurd (by rw [← h]; simp [nl]) hs'.2
        | cons t' q' =>
          rw [join_cons_cons, join_cons_cons] at h
          simp only [nl, List.append_assoc, List.singleton_append] at h
          have ⟨e1, e2⟩ := line_split hs.2 hs'.2 h
          have := ih (fun x hx => hl x (by simp [hx])) (fun x hx => hl' x (by simp [hx])) e2
          rw [e1, this]

end Scripts

namespace Scripts

/-- `"\n".join` is injective on non-empty lists of lines (lines may be empty but contain no line break) -/
theorem join_nl_inj_ne {l l' : List Str} (hl : ∀ t ∈ l, '\n' ∉ t) (hl' : ∀ t ∈ l', '\n' ∉ t)
    (hn : l ≠ []) (hn' : l' ≠ []) (h : join nl l = join nl l') : l = l' := by
  induction l generalizing l' with
  | nil => exact absurd rfl hn
  | cons s r ih =>
    cases l' with
    | nil => exact absurd rfl hn'
    | cons s' r' =>
      have hs := hl s (by simp)
      have hs' := hl' s' (by simp)
      cases r with
      | nil =>
        cases r' with
        | nil => simp [join] at h; rw [h]
        | cons t' q' =>
          rw [join_cons_cons] at h
          simp only [join] at h
          exact absurd (by rw [h]; simp [nl]) hs
      | cons t q =>
        cases r' with
        | nil =>
          rw [join_cons_cons] at h
          simp only [join] at h
          exact absurd (by rw [← h]; simp [nl]) hs'
        | cons t' q' =>
          rw [join_cons_cons, join_cons_cons] at h
          simp only [nl, List.append_assoc, List.singleton_append] at h
          have ⟨e1, e2⟩ := line_split hs hs' h
          have := ih (fun x hx => hl x (by simp [hx])) (fun x hx => hl' x (by simp [hx])) (by simp) (by simp) e2
          rw [e1, this]

/-- a prefix of elements satisfying `p` followed by a rest that does not start with such an element is
determined by the concatenation -/
theorem span_unique {α : Type} (p : α → Prop) {A A' R R' : List α}
    (hA : ∀ x ∈ A, p x) (hA' : ∀ x ∈ A', p x)
    (hR : ∀ x, R.head? = some x → ¬ p x) (hR' : ∀ x, R'.head? = some x → ¬ p x)
    (h : A ++ R = A' ++ R') : A = A' ∧ R = R' := by
  induction A generalizing A' with
  | nil =>
    cases A' with
    | nil => exact ⟨rfl, by simpa using h⟩
    | cons a' t' =>
      simp only [List.nil_append, List.cons_append] at h
      exact absurd (hA' a' (by simp)) (hR a' (by rw [h]; rfl))
  | cons a t ih =>
    cases A' with
    | nil =>
      simp only [List.nil_append, List.cons_append] at h
      exact absurd (hA a (by simp)) (hR' a (by rw [← h]; rfl))
    | cons a' t' =>
      simp only [List.cons_append, List.cons.injEq] at h
      have ⟨e1, e2⟩ := ih (fun x hx => hA x (by simp [hx])) (fun x hx => hA' x (by simp [hx])) h.2
      exact ⟨by rw [h.1, e1], e2⟩

end Scripts
