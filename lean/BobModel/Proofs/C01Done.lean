import BobModel.Proofs.C01Cook
/-
The data-flow theorem: a successful `cook` from any `Truthful` state leaves, in the workspace of
every reachable step, exactly the content of a from-scratch build (`value`).
-/
namespace Builder

variable {E : Env} {dev : Bool} {Γ : Path → List (Dir × Digest)}

/-! ## reachable steps, hypotheses -/

mutual
/-- the steps that `cook` visits: the step and, recursively, its dependencies (input-only
steps `pre` are reached through the dependencies) -/
def reach : Step → List Step
  | .mk i pre ds => .mk i pre ds :: reachL ds
def reachL : List Step → List Step
  | [] => []
  | d :: ds => reach d ++ reachL ds
end

theorem self_mem_reach (t : Step) : t ∈ reach t := by
  cases t with
  | mk i pre ds => simp [reach]

theorem mem_reachL_of_mem {d : Step} {ds : List Step} (h : d ∈ ds) : d ∈ reachL ds := by
  induction ds with
  | nil => cases h
  | cons x xs ih =>
    simp only [reachL, List.mem_append]
    rcases List.mem_cons.mp h with h | h
    · left; rw [h]; exact self_mem_reach _
    · right; exact ih h

/-- "deterministic scripts assumed", made precise -/
structure SemHyp (E : Env) (dev : Bool) (T : Step) : Prop where
  /-- scripts do not depend on (admissible) stale workspace content -/
  obl : ∀ sig w old cs, Adm dev sig.kind old → E.sem sig w old cs = E.sem sig w emptyC cs
  /-- only checkouts read the external world -/
  world : ∀ sig w w' old cs, sig.kind ≠ .checkout → E.sem sig w old cs = E.sem sig w' old cs
  /-- checkouts declared deterministic are -/
  det : ∀ u ∈ subtrees T, u.kind = .checkout → u.info.det = true →
    ∀ w w' old cs, E.sem u.info.sig w old cs = E.sem u.info.sig w' old cs

/-- well-formedness of a project for the data-flow theorem -/
structure TreeWF (Γ : Path → List (Dir × Digest)) (T : Step) : Prop where
  wf : AllWF Γ T
  /-- a workspace path identifies the step (C16) -/
  pathInj : ∀ u ∈ subtrees T, ∀ v ∈ subtrees T, u.path = v.path → u = v
  /-- only package steps have input-only steps, and those are built by the dependencies -/
  pre : ∀ u ∈ subtrees T, (u.kind ≠ .package → u.pre = []) ∧ ∀ x ∈ u.pre, x ∈ reachL u.deps

def Done (E : Env) (u : Step) (st : St) : Prop :=
  st.disk u.path = some (value E u) ∧ st.results u.path = some (.hash (E.H (value E u)))

/-- the stored state marks the step as up to date with respect to the current state of its inputs
(the conditions under which the cook functions skip) -/
def Settled (E : Env) (t : Step) (st : St) : Prop :=
  match t.info.sig.kind with
  | .build => st.dirStates t.info.path = some (.build (ivid st t.info t.deps) (t.info.execPath :: t.deps.map fun d => d.info.execPath)) ∧
      st.inputs t.info.path = some (inputHashes st t.info t.deps)
  | .package => st.dirStates t.info.path = some (.pkg (.mk t.info.sig (vids t.deps))) ∧
      st.inputs t.info.path = some (inputHashes st t.info (t.pre ++ t.deps))
  | .checkout => (∃ bo, st.dirStates t.info.path = some (.co t.info.scms (some (.mk t.info.sig (vids t.deps))) bo)) ∧
      st.inputs t.info.path = some (resultsOf st t.deps) ∧
      st.results t.info.path = some (hashOf E st t.info.path) ∧
      -- an indeterministic checkout is re-run by every invocation: everything it stores is current
      (t.info.det = false →
        st.dirStates t.info.path = some (.co t.info.scms (some (.mk t.info.sig (vids t.deps)))
          (some { loc := t.info.boLoc, upd := t.info.boUpd, ins := resultsOf st t.deps })) ∧
        st.variantIds t.info.path = some (ivid st t.info t.deps))

/-- `Settled` only looks at the step's own path and the paths of its inputs -/
theorem settled_frame {p : Path} {st st' : St} (ha : AgreeOff p st st') (t : Step) (hp : t.path ≠ p)
    (hin : ∀ d ∈ t.pre ++ t.deps, d.path ≠ p) (h : Settled E t st) : Settled E t st' := by
  cases t with
  | mk i pre ds =>
    have hp' : i.path ≠ p := hp
    obtain ⟨e1, e2, e3, e4, e5⟩ := ha i.path hp'
    have hds : ∀ d ∈ ds, d.path ≠ p := fun d hd => hin d (by simp [Step.pre, Step.deps, hd])
    have hall : ∀ d ∈ pre ++ ds, d.path ≠ p := fun d hd => hin d (by simpa [Step.pre, Step.deps] using hd)
    cases hk : i.sig.kind with
    | build =>
      simp only [Settled, Step.info, Step.pre, Step.deps, hk] at h ⊢
      rw [e2, e3, ivid_agree ha i ds hds, inputHashes_agree ha i ds hds]
      exact h
    | package =>
      simp only [Settled, Step.info, Step.pre, Step.deps, hk] at h ⊢
      rw [e2, e3, inputHashes_agree ha i (pre ++ ds) hall]
      exact h
    | checkout =>
      simp only [Settled, Step.info, Step.pre, Step.deps, hk] at h ⊢
      rw [e1, e2, e3, e5, resultsOf_agree ha ds hds, ivid_agree ha i ds hds]
      simp only [hashOf, e4]
      exact h

theorem values_eq_map (ds : List Step) : values E ds = ds.map (value E) := by
  induction ds with
  | nil => simp [values]
  | cons d ds ih => simp [values, ih]

theorem contentsOf_done {st : St} {ds : List Step} (h : ∀ d ∈ ds, Done E d st) : contentsOf st ds = values E ds := by
  rw [values_eq_map]
  unfold contentsOf
  apply List.map_congr_left
  intro d hd
  rw [(h d hd).1]; rfl

theorem resultsOf_done {st : St} {ds : List Step} (h : ∀ d ∈ ds, Done E d st) :
    resultsOf st ds = hashes E (values E ds) := by
  rw [values_eq_map]
  unfold resultsOf hashes
  rw [List.map_map]
  apply List.map_congr_left
  intro d hd
  rw [(h d hd).2]; rfl

theorem strip_hashes (cs : List Content) : strip (hashes E cs) = hashes E cs := by
  unfold strip hashes
  apply List.filter_eq_self.mpr
  intro x hx
  obtain ⟨c, _, hc⟩ := List.mem_map.mp hx
  rw [← hc]; simp [isFp]

theorem strip_inputHashes_done {st : St} {i : Info} {ds : List Step} (h : ∀ d ∈ ds, Done E d st) :
    strip (inputHashes st i ds) = hashes E (values E ds) := by
  rw [strip_inputHashes, resultsOf_done h, strip_hashes]

/-- what a completed script run produced equals the from-scratch value -/
theorem value_of_produced {T : Step} (hs : SemHyp E dev T) (i : Info) (pre ds : List Step) (c : Content)
    (hp : Produced E dev i.sig (values E pre ++ values E ds) c)
    (hw : i.sig.kind ≠ .checkout ∨ (∀ w w' old cs, E.sem i.sig w old cs = E.sem i.sig w' old cs)) :
    c = value E (.mk i pre ds) := by
  obtain ⟨w, old, hadm, hsem⟩ := hp
  simp only [value]
  have h1 := hs.obl i.sig w old (values E pre ++ values E ds) hadm
  have h2 : E.sem i.sig w emptyC (values E pre ++ values E ds) = E.sem i.sig i.world emptyC (values E pre ++ values E ds) := by
    rcases hw with hw | hw
    · exact hs.world _ _ _ _ _ hw
    · exact hw _ _ _ _
  rw [← h2, ← h1, hsem]; rfl

theorem value_of_ran {T : Step} (hs : SemHyp E dev T) (i : Info) (hk : i.sig.kind = .checkout) (ds : List Step)
    (c old : Content) (hsem : E.sem i.sig i.world old (values E ds) = .ok c) : c = value E (.mk i [] ds) := by
  simp only [value, values, List.nil_append]
  have h1 := hs.obl i.sig i.world old (values E ds) (Or.inr (Or.inl hk))
  rw [← h1, hsem]; rfl

/-! ## invariant of a successful run -/

def Ran (r : Run) (p : Path) : Prop := (r.mem.wasRun p).isSome = true

structure DInv (E : Env) (dev : Bool) (Γ : Path → List (Dir × Digest)) (T : Step) (r : Run) : Prop where
  truthful : Truthful E dev Γ r.st
  mem : ∀ u ∈ subtrees T, ∀ x, r.mem.wasRun u.path = some x →
    x.1 = vid u ∧ r.mem.wasSkipped u.path = false ∧ Done E u r.st ∧ Settled E u r.st
  /-- a step is marked only after everything below it -/
  closed : ∀ u ∈ subtrees T, Ran r u.path → ∀ v ∈ reach u, Ran r v.path

/-- result of cooking (at least) the steps `S`, touching only the paths `P` -/
structure DPost (E : Env) (dev : Bool) (Γ : Path → List (Dir × Digest)) (T : Step) (r : Run) (P : List Path)
    (S : List Step) (r' : Run) : Prop where
  inv : DInv E dev Γ T r'
  mono : ∀ p, Ran r p → Ran r' p
  ran : ∀ u ∈ S, Ran r' u.path
  only : ∀ p, Ran r' p → Ran r p ∨ p ∈ P
  touch : Touch P r.st r'.st

theorem DPost.trans {T : Step} {r r1 r2 : Run} {P : List Path} {S1 S2 : List Step} (h1 : DPost E dev Γ T r P S1 r1)
    (h2 : DPost E dev Γ T r1 P S2 r2) : DPost E dev Γ T r P (S1 ++ S2) r2 := by
  refine ⟨h2.inv, fun p hp => h2.mono p (h1.mono p hp), ?_, ?_, h1.touch.trans h2.touch⟩
  · intro u hu
    rcases List.mem_append.mp hu with h | h
    · exact h2.mono _ (h1.ran u h)
    · exact h2.ran u h
  · intro p hp
    rcases h2.only p hp with h | h
    · exact h1.only p h
    · exact Or.inr h

theorem done_of_ran {T : Step} {r : Run} (hi : DInv E dev Γ T r) {u : Step} (hu : u ∈ subtrees T)
    (hr : Ran r u.path) : Done E u r.st := by
  unfold Ran at hr
  cases hx : r.mem.wasRun u.path with
  | none => rw [hx] at hr; cases hr
  | some x => exact (hi.mem u hu x hx).2.2.1

theorem settled_of_ran {T : Step} {r : Run} (hi : DInv E dev Γ T r) {u : Step} (hu : u ∈ subtrees T)
    (hr : Ran r u.path) : Settled E u r.st := by
  unfold Ran at hr
  cases hx : r.mem.wasRun u.path with
  | none => rw [hx] at hr; cases hr
  | some x => exact (hi.mem u hu x hx).2.2.2

/-- the inputs of a step belong to what `cook` visits below it -/
theorem inputs_mem_reach {T : Step} (hwf : TreeWF Γ T) {u : Step} (hu : u ∈ subtrees T) :
    ∀ d ∈ u.pre ++ u.deps, d ∈ reach u := by
  intro d hd
  cases u with
  | mk i pre ds =>
    simp only [reach, List.mem_cons]
    right
    rcases List.mem_append.mp hd with h | h
    · have := (hwf.pre _ hu).2 d h
      simpa [Step.deps] using this
    · exact mem_reachL_of_mem (by simpa [Step.deps] using h)

/-- a state change confined to a path that has not been cooked yet keeps the invariant -/
theorem dinv_frame {T : Step} (hwf : TreeWF Γ T) {r r' : Run} (hi : DInv E dev Γ T r) (hm : r'.mem = r.mem)
    (ht : Truthful E dev Γ r'.st) {p : Path} (ha : AgreeOff p r.st r'.st) (hn : r.mem.wasRun p = none) :
    DInv E dev Γ T r' := by
  refine ⟨ht, ?_, ?_⟩
  · intro u hu x hx
    rw [hm] at hx
    obtain ⟨a, b, c, d⟩ := hi.mem u hu x hx
    have hran : Ran r u.path := by unfold Ran; rw [hx]; rfl
    have notp : ∀ q, Ran r q → q ≠ p := by
      intro q hq he; unfold Ran at hq; rw [he, hn] at hq; cases hq
    have hne : u.path ≠ p := notp _ hran
    obtain ⟨e1, _, _, e4, _⟩ := ha u.path hne
    refine ⟨a, by rw [hm]; exact b, ?_, ?_⟩
    · unfold Done
      rw [e1, e4]; exact c
    · apply settled_frame ha u hne _ d
      intro v hv
      exact notp _ (hi.closed u hu hran v (inputs_mem_reach hwf hu v hv))
  · intro u hu hr v hv
    unfold Ran at *
    rw [hm] at *
    exact hi.closed u hu hr v hv

/-- `_wasAlreadyRun` under the invariant: no cached entry is invalid, nothing is skipped -/
theorem wp_wasAlreadyRun_inv {T : Step} (t : Step) (ht : t ∈ subtrees T) (Q : Bool → Run → Prop) (A : Run → Prop)
    (r : Run) (hi : DInv E dev Γ T r)
    (h1 : Ran r t.path → Q true r) (h2 : r.mem.wasRun t.path = none → Q false r) :
    wp (wasAlreadyRun t false) Q A r := by
  unfold wasAlreadyRun
  simp only [wp_bind, wp_getMem]
  cases hw : r.mem.wasRun t.path with
  | none => simp only [wp_pure]; exact h2 hw
  | some x =>
    obtain ⟨v, c⟩ := x
    obtain ⟨a, b, _, _⟩ := hi.mem t ht (v, c) hw
    simp only [] at a
    simp only [a, ne_eq, not_true_eq_false, if_false, b, Bool.not_false, Bool.and_false, Bool.false_eq_true, wp_pure]
    apply h1
    unfold Ran; rw [hw]; rfl

/-- `_setAlreadyRun` of a step that is `Done` -/
theorem wp_setAlreadyRun_inv {T : Step} (hwf : TreeWF Γ T) (t : Step) (ht : t ∈ subtrees T) (c : Bool)
    (Q : Unit → Run → Prop) (A : Run → Prop) (r : Run) (hi : DInv E dev Γ T r) (hd : Done E t r.st)
    (hs : Settled E t r.st)
    (hbelow : ∀ v ∈ reachL t.deps, Ran r v.path)
    (h : ∀ r', r'.st = r.st → DInv E dev Γ T r' → (∀ p, Ran r p → Ran r' p) → Ran r' t.path →
      (∀ p, p ≠ t.path → Ran r' p → Ran r p) → Q () r') :
    wp (setAlreadyRun t c false) Q A r := by
  unfold setAlreadyRun
  simp only [wp_bind, wp_getMem, wp_setMem]
  have hmono : ∀ p, Ran r p → Ran { r with mem := ({ wasRun := upd r.mem.wasRun t.path (some (vid t, c)), wasSkipped := upd r.mem.wasSkipped t.path false } : Mem) } p := by
    intro p hp
    unfold Ran at *
    by_cases hq : p = t.path
    · subst hq; simp
    · simp only [upd_other _ _ _ _ hq]; exact hp
  apply h
  · rfl
  · refine ⟨hi.truthful, ?_, ?_⟩
    · intro u hu x hx
      by_cases hp : u.path = t.path
      · have hut : u = t := hwf.pathInj u hu t ht hp
        subst hut
        simp only [upd_same, Option.some.injEq] at hx
        subst hx
        exact ⟨rfl, by simp, hd, hs⟩
      · simp only [upd_other _ _ _ _ hp] at hx
        obtain ⟨a, b, c'⟩ := hi.mem u hu x hx
        exact ⟨a, by simp only [upd_other _ _ _ _ hp]; exact b, c'⟩
    · intro u hu hr v hv
      by_cases hp : u.path = t.path
      · have hut : u = t := hwf.pathInj u hu t ht hp
        subst hut
        cases u with
        | mk i pre ds =>
          simp only [reach, List.mem_cons] at hv
          rcases hv with hv | hv
          · rw [hv]; exact hr
          · exact hmono _ (hbelow v (by simpa [Step.deps] using hv))
      · have hr' : Ran r u.path := by
          unfold Ran at hr ⊢
          simpa only [upd_other _ _ _ _ hp] using hr
        exact hmono _ (hi.closed u hu hr' v hv)
  · intro p hp
    unfold Ran at *
    by_cases hq : p = t.path
    · subst hq; simp
    · simp only [upd_other _ _ _ _ hq]; exact hp
  · unfold Ran; simp
  · intro p hq hp
    unfold Ran at *
    simpa only [upd_other _ _ _ _ hq] using hp

/-! ## the cook functions establish `Done` -/

theorem values_append (a b : List Step) : values E (a ++ b) = values E a ++ values E b := by
  simp [values_eq_map]

theorem cooked_done {T : Step} (hs : SemHyp E dev T) (i : Info) (pre ds : List Step) (inH : Inputs) (st' : St)
    (hstrip : strip inH = hashes E (values E pre ++ values E ds))
    (hck : Cooked E dev i.sig i.path inH st')
    (hw : i.sig.kind ≠ .checkout ∨ (∀ w w' old cs, E.sem i.sig w old cs = E.sem i.sig w' old cs)) :
    Done E (.mk i pre ds) st' := by
  obtain ⟨c, h1, h2, h3⟩ := hck _ hstrip
  have := value_of_produced hs i pre ds c h3 hw
  subst this
  exact ⟨h1, h2⟩

structure DHyp (E : Env) (dev : Bool) (Γ : Path → List (Dir × Digest)) (cfg : Cfg) (T : Step) : Prop where
  hy : Hyp E dev cfg
  sem : SemHyp E dev T
  wf : TreeWF Γ T
  noDeps : cfg.noDeps = false

theorem stepWF_of_mem {T : Step} (hwf : TreeWF Γ T) {u : Step} (hu : u ∈ subtrees T) : StepWF Γ u := hwf.wf u hu

theorem acyc_of_wf {i : Info} {pre ds : List Step} (wt : StepWF Γ (.mk i pre ds)) : ∀ d ∈ ds, d.path ≠ i.path := by
  intro d hd heq
  have h1 : i.path ∉ pathsL ds := by simpa [Step.path, Step.info, Step.deps] using wt.acyc
  exact h1 (heq ▸ path_mem_pathsL hd)

theorem cookBuild_done {cfg : Cfg} {T : Step} (H : DHyp E dev Γ cfg T) (i : Info) (pre ds : List Step)
    (ht : Step.mk i pre ds ∈ subtrees T) (hk : i.sig.kind = .build) (r : Run) (hi : DInv E dev Γ T r)
    (hdeps : ∀ d ∈ ds, Done E d r.st) (hn : r.mem.wasRun i.path = none) :
    wp (cookBuild E cfg i ds)
      (fun _ r' => DInv E dev Γ T r' ∧ r'.mem = r.mem ∧ AgreeOff i.path r.st r'.st ∧ Done E (.mk i pre ds) r'.st ∧
        Settled E (.mk i pre ds) r'.st)
      (fun _ => True) r := by
  have wt := stepWF_of_mem H.wf ht
  have hpre : pre = [] := by
    have := (H.wf.pre _ ht).1 (by simp [Step.kind, Step.info, hk])
    simpa [Step.pre] using this
  subst hpre
  refine wp_mono _ _ _ _ _ _ ?_ (fun _ _ => trivial)
    (cookBuild_truthful H.hy.fixB H.hy.inj cfg H.hy.devMode i ds hk (acyc_of_wf wt) r hi.truthful)
  intro _ r' ⟨h1, h2, h3, h4, h5, h6⟩
  refine ⟨dinv_frame H.wf hi h2 h1 h3 hn, h2, h3, ?_, ?_⟩
  · apply cooked_done H.sem i [] ds _ _ _ h4 (Or.inl (by rw [hk]; simp))
    rw [strip_inputHashes_done hdeps]; simp [values]
  · simp only [Settled, Step.info, Step.pre, Step.deps, hk]
    rw [ivid_agree h3 i ds (acyc_of_wf wt), inputHashes_agree h3 i ds (acyc_of_wf wt)]
    exact ⟨h6, h5⟩

theorem cookPackage_done {cfg : Cfg} {T : Step} (H : DHyp E dev Γ cfg T) (i : Info) (pre ds : List Step)
    (hk : i.sig.kind = .package) (hacyc : ∀ d ∈ pre ++ ds, d.path ≠ i.path) (r : Run) (hi : DInv E dev Γ T r)
    (hdeps : ∀ d ∈ pre ++ ds, Done E d r.st) (hn : r.mem.wasRun i.path = none)
    (hshape : r.st.disk i.path = none → r.st.dirStates i.path = some (DirState.pkg (.mk i.sig (vids ds))))
    (hshape' : r.st.disk i.path = none ∨ r.st.dirStates i.path = some (DirState.pkg (.mk i.sig (vids ds)))) :
    wp (cookPackage E cfg i pre ds)
      (fun _ r' => DInv E dev Γ T r' ∧ r'.mem = r.mem ∧ AgreeOff i.path r.st r'.st ∧ Done E (.mk i pre ds) r'.st ∧
        Settled E (.mk i pre ds) r'.st)
      (fun _ => True) r := by
  refine wp_mono _ _ _ _ _ _ ?_ (fun _ _ => trivial)
    (cookPackage_truthful H.hy.inj cfg i pre ds r hi.truthful hshape hshape')
  intro _ r' ⟨h1, h2, h3, h4, h5, h6⟩
  refine ⟨dinv_frame H.wf hi h2 h1 h3 hn, h2, h3, ?_, ?_⟩
  · apply cooked_done H.sem i pre ds _ _ _ h4 (Or.inl (by rw [hk]; simp))
    rw [strip_inputHashes_done hdeps, values_append]
  · simp only [Settled, Step.info, Step.pre, Step.deps, hk]
    rw [inputHashes_agree h3 i (pre ++ ds) hacyc]
    exact ⟨h6, h5⟩

theorem cookCheckout_done {cfg : Cfg} {T : Step} (H : DHyp E dev Γ cfg T) (i : Info) (pre ds : List Step)
    (ht : Step.mk i pre ds ∈ subtrees T) (hk : i.sig.kind = .checkout) (r : Run) (hi : DInv E dev Γ T r)
    (hdeps : ∀ d ∈ ds, Done E d r.st) (hn : r.mem.wasRun i.path = none) :
    wp (cookCheckout E cfg i ds)
      (fun _ r' => DInv E dev Γ T r' ∧ r'.mem = r.mem ∧ AgreeOff i.path r.st r'.st ∧ Done E (.mk i pre ds) r'.st ∧
        Settled E (.mk i pre ds) r'.st)
      (fun _ => True) r := by
  have wt := stepWF_of_mem H.wf ht
  have hpre : pre = [] := by
    have := (H.wf.pre _ ht).1 (by simp [Step.kind, Step.info, hk])
    simpa [Step.pre] using this
  subst hpre
  refine wp_mono _ _ _ _ _ _ ?_ (fun _ _ => trivial)
    (cookCheckout_truthful H.hy.inj cfg i ds (wt.co (by simp [Step.kind, Step.info, hk])) hk (acyc_of_wf wt) r hi.truthful)
  intro _ r' ⟨h1, h2, h3, h4, h5, h6, h7⟩
  have hset : Settled E (.mk i [] ds) r'.st := by
    simp only [Settled, Step.info, Step.pre, Step.deps, hk]
    rw [resultsOf_agree h3 ds (acyc_of_wf wt)]
    exact ⟨h6.1, h6.2.1, h6.2.2, h7⟩
  refine ⟨dinv_frame H.wf hi h2 h1 h3 hn, h2, h3, ?_, hset⟩
  have hstrip : strip (resultsOf r.st ds) = hashes E (values E ds) := by
    rw [resultsOf_done hdeps, strip_hashes]
  cases hdet : i.det with
  | true =>
    apply cooked_done H.sem i [] ds _ _ _ h4
      (Or.inr (H.sem.det _ ht (by simp [Step.kind, Step.info, hk]) (by simpa [Step.info] using hdet)))
    simpa [values] using hstrip
  | false =>
    obtain ⟨c, old, hd, hsem⟩ := h5 hdet _ hstrip
    obtain ⟨c', hd', hr', _⟩ := h4 _ hstrip
    rw [hd] at hd'; cases hd'
    have := value_of_ran H.sem i hk ds c old hsem
    subst this
    exact ⟨hd, hr'⟩

/-! ## the induction over the step tree -/

/-- `m` cooks (at least) the steps `S`, touching only the paths `P` and keeping the invariant, when
it terminates normally -/
def Cooks (E : Env) (dev : Bool) (Γ : Path → List (Dir × Digest)) (T : Step) (P : List Path) (S : List Step)
    (m : M Unit) : Prop :=
  ∀ r, DInv E dev Γ T r → wp m (fun _ r' => DPost E dev Γ T r P S r') (fun _ => True) r

theorem dpost_refl {T : Step} {r : Run} (hi : DInv E dev Γ T r) (P : List Path) : DPost E dev Γ T r P [] r :=
  ⟨hi, fun _ h => h, fun u hu => (by cases hu), fun _ h => Or.inl h, Touch.refl _ _⟩

theorem cooks_pure {T : Step} (P : List Path) : Cooks E dev Γ T P [] (pure ()) := by
  intro r hi
  simp only [wp_pure]
  exact dpost_refl hi P

theorem cooks_seq {T : Step} {P : List Path} {S1 S2 : List Step} {m1 m2 : M Unit} (h1 : Cooks E dev Γ T P S1 m1)
    (h2 : Cooks E dev Γ T P S2 m2) : Cooks E dev Γ T P (S1 ++ S2) (do m1; m2) := by
  intro r hi
  simp only [wp_bind]
  refine wp_mono _ _ _ _ _ _ ?_ (fun _ hx => hx) (h1 r hi)
  intro _ r1 hp1
  refine wp_mono _ _ _ _ _ _ ?_ (fun _ hx => hx) (h2 r1 hp1.inv)
  intro _ r2 hp2
  exact hp1.trans hp2

theorem dpost_weaken {T : Step} {r r' : Run} {P P' : List Path} {S S' : List Step} (hs : ∀ u ∈ S', u ∈ S)
    (hp : ∀ q, q ∈ P → q ∈ P') (h : DPost E dev Γ T r P S r') : DPost E dev Γ T r P' S' r' :=
  ⟨h.inv, h.mono, fun u hu => h.ran u (hs u hu), fun p hr => (h.only p hr).imp id (hp p), h.touch.mono hp⟩

theorem cooks_weaken {T : Step} {P P' : List Path} {S S' : List Step} {m : M Unit} (hs : ∀ u ∈ S', u ∈ S)
    (hp : ∀ q, q ∈ P → q ∈ P') (h : Cooks E dev Γ T P S m) : Cooks E dev Γ T P' S' m := by
  intro r hi
  refine wp_mono _ _ _ _ _ _ ?_ (fun _ hx => hx) (h r hi)
  intro _ r' hq
  exact dpost_weaken hs hp hq

def CStep (E : Env) (dev : Bool) (Γ : Path → List (Dir × Digest)) (cfg : Cfg) (T : Step) (t : Step) : Prop :=
  (∀ u ∈ subtrees t, u ∈ subtrees T) →
    Cooks E dev Γ T (paths t) (reach t) (cookStep E cfg false t) ∧
    Cooks E dev Γ T (paths t) [] (bidDeps E cfg t.deps)

def CList (E : Env) (dev : Bool) (Γ : Path → List (Dir × Digest)) (cfg : Cfg) (T : Step) (ds : List Step) : Prop :=
  (∀ u ∈ subtreesL ds, u ∈ subtrees T) →
    (∀ parent, Cooks E dev Γ T (pathsL ds) (reachL ds) (cookList E cfg false parent ds)) ∧
    Cooks E dev Γ T (pathsL ds) [] (bidDeps E cfg ds)

theorem clist_nil (cfg : Cfg) (T : Step) : CList E dev Γ cfg T [] := by
  intro _
  constructor
  · intro parent; simp only [cookList, reachL]; exact cooks_pure _
  · simp only [bidDeps]; exact cooks_pure _

theorem clist_cons {cfg : Cfg} {T : Step} (H : DHyp E dev Γ cfg T) (d : Step) (ds : List Step)
    (hd : CStep E dev Γ cfg T d) (hds : CList E dev Γ cfg T ds) : CList E dev Γ cfg T (d :: ds) := by
  intro hsub
  obtain ⟨hd1, hd2⟩ := hd (fun u hu => hsub u (by simp [subtreesL, hu]))
  obtain ⟨hl1, hl2⟩ := hds (fun u hu => hsub u (by simp [subtreesL, hu]))
  have sub1 : ∀ q, q ∈ paths d → q ∈ pathsL (d :: ds) := by intro q hq; rw [pathsL_cons]; simp [hq]
  have sub2 : ∀ q, q ∈ pathsL ds → q ∈ pathsL (d :: ds) := by intro q hq; rw [pathsL_cons]; simp [hq]
  constructor
  · intro parent
    simp only [cookList, H.noDeps, Bool.false_and, Bool.false_eq_true, if_false, reachL]
    exact cooks_seq (cooks_weaken (fun _ h => h) sub1 hd1) (cooks_weaken (fun _ h => h) sub2 (hl1 parent))
  · cases d with
    | mk i pre dd =>
      simp only [bidDeps]
      split
      · exact cooks_weaken (by intro u hu; cases hu) (fun _ h => h)
          (cooks_seq (cooks_weaken (fun _ h => h) sub1 hd1) (cooks_weaken (fun _ h => h) sub2 hl2))
      · exact cooks_weaken (by intro u hu; cases hu) (fun _ h => h)
          (cooks_seq (cooks_weaken (fun _ h => h) sub1 hd2) (cooks_weaken (fun _ h => h) sub2 hl2))

theorem ran_of_mem_eq {r r' : Run} (hm : r'.mem = r.mem) {p : Path} : Ran r' p ↔ Ran r p := by
  unfold Ran; rw [hm]

theorem reach_sub_subtrees (t : Step) : (∀ u ∈ reach t, u ∈ subtrees t) ∧ True := by
  refine ⟨?_, trivial⟩
  exact Step.rec (motive_1 := fun t => ∀ u ∈ reach t, u ∈ subtrees t)
    (motive_2 := fun ds => ∀ u ∈ reachL ds, u ∈ subtreesL ds)
    (fun i pre ds _ hds u hu => by
      simp only [reach, List.mem_cons] at hu
      simp only [subtrees, List.mem_cons, List.mem_append]
      rcases hu with hu | hu
      · exact Or.inl hu
      · exact Or.inr (Or.inr (hds u hu)))
    (fun u hu => by simp [reachL] at hu)
    (fun d ds hd hds u hu => by
      simp only [reachL, List.mem_append] at hu
      simp only [subtreesL, List.mem_append]
      rcases hu with hu | hu
      · exact Or.inl (hd u hu)
      · exact Or.inr (hds u hu))
    t

theorem reachL_sub_subtreesL (ds : List Step) : ∀ u ∈ reachL ds, u ∈ subtreesL ds := by
  induction ds with
  | nil => intro u hu; simp [reachL] at hu
  | cons d ds ih =>
    intro u hu
    simp only [reachL, List.mem_append] at hu
    simp only [subtreesL, List.mem_append]
    rcases hu with hu | hu
    · exact Or.inl ((reach_sub_subtrees d).1 u hu)
    · exact Or.inr (ih u hu)

/-- one state change at path `p` (bookkeeping untouched) as a `DPost` -/
theorem dpost_step {T : Step} {r r1 : Run} {P : List Path} {p : Path} (hi1 : DInv E dev Γ T r1) (hm : r1.mem = r.mem)
    (ha : AgreeOff p r.st r1.st) (hp : p ∈ P) : DPost E dev Γ T r P [] r1 :=
  ⟨hi1, fun _ h => (ran_of_mem_eq hm).mpr h, fun u hu => (by cases hu), fun _ h => Or.inl ((ran_of_mem_eq hm).mp h),
    touch_of_agree hp ha⟩

theorem cstep_mk {cfg : Cfg} {T : Step} (H : DHyp E dev Γ cfg T) (i : Info) (pre ds : List Step)
    (hds : CList E dev Γ cfg T ds) : CStep E dev Γ cfg T (.mk i pre ds) := by
  intro hsub
  have ht : Step.mk i pre ds ∈ subtrees T := hsub _ (self_mem_subtrees _)
  have hsubds : ∀ u ∈ subtreesL ds, u ∈ subtrees T := fun u hu => hsub u (by simp [subtrees, hu])
  have hdsT : ∀ d ∈ ds, d ∈ subtrees T := fun d hd => hsubds d (mem_subtreesL hd)
  have wt := stepWF_of_mem H.wf ht
  have hself : i.path ∈ paths (.mk i pre ds) := by rw [paths_mk]; simp
  have subds : ∀ q, q ∈ pathsL ds → q ∈ paths (.mk i pre ds) := by intro q hq; rw [paths_mk]; simp [hq]
  have hnot : i.path ∉ pathsL ds := by simpa [Step.path, Step.info, Step.deps] using wt.acyc
  obtain ⟨hl1, hl2⟩ := hds hsubds
  refine ⟨?_, cooks_weaken (fun _ h => h) subds hl2⟩
  intro r hi
  simp only [cookStep, wp_bind]
  apply wp_wasAlreadyRun_inv _ ht _ _ _ hi
  · -- already cooked in this invocation: so is everything below
    intro hran
    simp only [if_true, wp_pure]
    exact ⟨hi, fun _ h => h, fun u hu => hi.closed _ ht hran u hu, fun _ h => Or.inl h, Touch.refl _ _⟩
  · intro hn0
    have hn : r.mem.wasRun i.path = none := hn0
    simp only [Bool.false_eq_true, if_false]
    -- the final marking, shared by the three kinds
    have finish : ∀ (c : Bool) (r1 r2 : Run), DPost E dev Γ T r (paths (.mk i pre ds)) (reachL ds) r1 →
        DInv E dev Γ T r2 → r2.mem = r1.mem → AgreeOff i.path r1.st r2.st → Done E (.mk i pre ds) r2.st →
        Settled E (.mk i pre ds) r2.st →
        wp (setAlreadyRun (.mk i pre ds) c false)
          (fun _ r' => DPost E dev Γ T r (paths (.mk i pre ds)) (reach (.mk i pre ds)) r') (fun _ => True) r2 := by
      intro c r1 r2 hp1 hi2 hm2 ha2 hd2 hs2
      apply wp_setAlreadyRun_inv H.wf _ ht c _ _ _ hi2 hd2 hs2
      · intro v hv
        exact (ran_of_mem_eq hm2).mpr (hp1.ran v (by simpa [Step.deps] using hv))
      · intro r3 hst3 hi3 hmono3 hran3 honly3
        refine ⟨hi3, ?_, ?_, ?_, ?_⟩
        · intro p hp; exact hmono3 p ((ran_of_mem_eq hm2).mpr (hp1.mono p hp))
        · intro u hu
          simp only [reach, List.mem_cons] at hu
          rcases hu with hu | hu
          · rw [hu]; exact hran3
          · exact hmono3 _ ((ran_of_mem_eq hm2).mpr (hp1.ran u hu))
        · intro p hp
          by_cases hq : p = i.path
          · right; rw [hq]; exact hself
          · exact hp1.only p ((ran_of_mem_eq hm2).mp (honly3 p hq hp))
        · rw [hst3]; exact hp1.touch.trans (touch_of_agree hself ha2)
    have hdeps : ∀ (r1 : Run) (P : List Path), DPost E dev Γ T r P (reachL ds) r1 → ∀ d ∈ ds, Done E d r1.st :=
      fun r1 P hp1 d hd => done_of_ran hp1.inv (hdsT d hd) (hp1.ran d (mem_reachL_of_mem hd))
    have hnone : ∀ (r1 : Run), DPost E dev Γ T r (pathsL ds) (reachL ds) r1 → r1.mem.wasRun i.path = none := by
      intro r1 hp1
      cases hw : r1.mem.wasRun i.path with
      | none => rfl
      | some x =>
        exfalso
        have hr1 : Ran r1 i.path := by unfold Ran; rw [hw]; rfl
        rcases hp1.only _ hr1 with h | h
        · unfold Ran at h; rw [hn] at h; cases h
        · exact hnot h
    cases hk : i.sig.kind with
    | checkout =>
      simp only [wp_bind]
      refine wp_mono _ _ _ _ _ _ ?_ (fun _ hx => hx) (hl1 i.pkg r hi)
      intro _ r1 hp1
      have hn1 := hnone r1 hp1
      apply wp_wasAlreadyRun_inv _ ht _ _ _ hp1.inv
      · intro hran; unfold Ran at hran; simp only [Step.path, Step.info] at hran; rw [hn1] at hran; cases hran
      · intro _
        simp only [Bool.false_eq_true, if_false, wp_bind]
        refine wp_mono _ _ _ _ _ _ ?_ (fun _ hx => hx)
          (cookCheckout_done H i pre ds ht hk r1 hp1.inv (hdeps r1 _ hp1) hn1)
        intro _ r2 ⟨hi2, hm2, ha2, hd2, hs2⟩
        exact finish true r1 r2 (dpost_weaken (fun _ h => h) subds hp1) hi2 hm2 ha2 hd2 hs2
    | build =>
      simp only [wp_bind]
      refine wp_mono _ _ _ _ _ _ ?_ (fun _ hx => hx) (hl1 i.pkg r hi)
      intro _ r1 hp1
      have hn1 := hnone r1 hp1
      apply wp_wasAlreadyRun_inv _ ht _ _ _ hp1.inv
      · intro hran; unfold Ran at hran; simp only [Step.path, Step.info] at hran; rw [hn1] at hran; cases hran
      · intro _
        simp only [Bool.false_eq_true, if_false, Bool.not_false, if_true, wp_bind]
        refine wp_mono _ _ _ _ _ _ ?_ (fun _ hx => hx) (hl2 r1 hp1.inv)
        intro _ r2 hp2
        have hp12 : DPost E dev Γ T r (pathsL ds) (reachL ds) r2 := by
          have := hp1.trans hp2
          simpa using this
        have hn2 := hnone r2 hp12
        refine wp_mono _ _ _ _ _ _ ?_ (fun _ hx => hx)
          (cookBuild_done H i pre ds ht hk r2 hp12.inv (hdeps r2 _ hp12) hn2)
        intro _ r3 ⟨hi3, hm3, ha3, hd3, hs3⟩
        exact finish false r2 r3 (dpost_weaken (fun _ h => h) subds hp12) hi3 hm3 ha3 hd3 hs3
    | package =>
      simp only [Bool.not_false, if_true, wp_bind]
      refine wp_mono _ _ _ _ _ _ ?_ (fun _ _ => trivial)
        (preparePackage_truthful (E := E) (dev := dev) (Γ := Γ) H.hy.fixP i ds r hi.truthful)
      intro _ r1 hq1
      have hi1 : DInv E dev Γ T r1 := dinv_frame H.wf hi hq1.mem hq1.truthful hq1.agree hn
      have hp01 : DPost E dev Γ T r (paths (.mk i pre ds)) [] r1 := dpost_step hi1 hq1.mem hq1.agree hself
      refine wp_mono _ _ _ _ _ _ ?_ (fun _ hx => hx) (hl2 r1 hi1)
      intro _ r2 hp2
      refine wp_mono _ _ _ _ _ _ ?_ (fun _ hx => hx) (hl1 i.pkg r2 hp2.inv)
      intro _ r3 hp3
      have hp13 : DPost E dev Γ T r1 (pathsL ds) (reachL ds) r3 := by
        have := hp2.trans hp3
        simpa using this
      have hp03 : DPost E dev Γ T r (paths (.mk i pre ds)) (reachL ds) r3 := by
        have := hp01.trans (dpost_weaken (fun _ h => h) subds hp13)
        simpa using this
      have hn3 : r3.mem.wasRun i.path = none := by
        cases hw : r3.mem.wasRun i.path with
        | none => rfl
        | some x =>
          exfalso
          have hr3 : Ran r3 i.path := by unfold Ran; rw [hw]; rfl
          rcases hp13.only _ hr3 with h | h
          · have := (ran_of_mem_eq hq1.mem).mp h
            unfold Ran at this; rw [hn] at this; cases this
          · exact hnot h
      obtain ⟨_, _, e3, e4, _⟩ := hp13.touch i.path hnot
      apply wp_wasAlreadyRun_inv _ ht _ _ _ hp3.inv
      · intro hran; unfold Ran at hran; simp only [Step.path, Step.info] at hran; rw [hn3] at hran; cases hran
      · intro _
        simp only [Bool.false_eq_true, if_false, wp_bind]
        have hpreDone : ∀ d ∈ pre ++ ds, Done E d r3.st := by
          intro d hd
          rcases List.mem_append.mp hd with hd | hd
          · have hx : d ∈ reachL ds := by
              have := (H.wf.pre _ ht).2 d (by simpa [Step.pre] using hd)
              simpa [Step.deps] using this
            exact done_of_ran hp3.inv (hsubds d (reachL_sub_subtreesL ds d hx)) (hp3.ran d hx)
          · exact hdeps r3 _ hp03 d hd
        have hpreAcyc : ∀ d ∈ pre ++ ds, d.path ≠ i.path := by
          intro d hd heq
          rcases List.mem_append.mp hd with hd | hd
          · have hx : d ∈ reachL ds := by
              have := (H.wf.pre _ ht).2 d (by simpa [Step.pre] using hd)
              simpa [Step.deps] using this
            exact hnot (heq ▸ List.mem_map.mpr ⟨d, reachL_sub_subtreesL ds d hx, rfl⟩)
          · exact hnot (heq ▸ path_mem_pathsL hd)
        refine wp_mono _ _ _ _ _ _ ?_ (fun _ hx => hx)
          (cookPackage_done H i pre ds hk hpreAcyc r3 hp3.inv hpreDone hn3
            (by intro hq; have := hq1.dir (by rw [← e4]; exact hq); rw [← e3] at this; exact this)
            (by
              rcases hq1.shape with hq | hq
              · left; rw [e4]; exact hq
              · right; rw [e3]; exact hq))
        intro _ r4 ⟨hi4, hm4, ha4, hd4, hs4⟩
        exact finish false r3 r4 hp03 hi4 hm4 ha4 hd4 hs4

/-- the data-flow induction over the whole step tree -/
theorem cstep_all {cfg : Cfg} {T : Step} (H : DHyp E dev Γ cfg T) (t : Step) : CStep E dev Γ cfg T t :=
  Step.rec (motive_1 := fun t => CStep E dev Γ cfg T t) (motive_2 := fun ds => CList E dev Γ cfg T ds)
    (fun i pre ds _ hds => cstep_mk H i pre ds hds)
    (clist_nil cfg T)
    (fun d ds hd hds => clist_cons H d ds hd hds)
    t

end Builder
