import BobModel.Proofs.C06Order12
/-
Ordering invariants of the scheduler model, part 13: every step preserves `Full.DepsInv` in all modes (parallel and
sequential scheduler); **deps_first** at full strength.  (Copies of parts 9-11 over the generalised check, with the
cases of the sequential spawn loop `spawnSeq` / `waitOnly` / `results` added.)
-/
namespace Sched
open JobSem
namespace Full

theorem chk_cook_lock {P : Project} {g : St} (C : Nat → Prop) (s : Nat) (co c : Bool) (hc : willRun P s co → c = false) :
    chk P g C [.cook (P.info s).deps c, .lock s co false] := by
  refine ⟨fun s' h => by simp [needs] at h, ⟨fun s' h => ?_, trivial⟩⟩
  simp only [needs] at h
  obtain ⟨_, e, hw⟩ := h
  subst e
  right
  show c = false ∧ covered P g s' (P.info s').deps []
  exact ⟨hc hw, fun d hd _ => Or.inr (Or.inl hd)⟩

theorem cookBodyOps_chk {P : Project} {g : St} (C : Nat → Prop) (s : Nat) (co : Bool) : chk P g C (cookBodyOps P s co) := by
  unfold cookBodyOps
  cases hk : (P.info s).kind
  · exact chk_cook_lock C s co false (fun _ => rfl)
  · refine chk_cook_lock C s co co (fun hw => ?_)
    rcases hw with h | h
    · rw [hk] at h; cases h
    · exact h
  · have hc : willRun P s co → co = false := by
      intro hw
      rcases hw with h | h
      · rw [hk] at h; cases h
      · exact h
    cases co
    · exact chk_cons_noneed (by simp [needs]) (chk_cons_noneed (by simp [needs]) (chk_cook_lock C s false false hc))
    · exact chk_cook_lock C s true true hc

theorem chk_run {P : Project} {g : St} (s : Nat) (h : depsDone P g s) :
    chk P g (depsDone P g) [.run s, .setRun s false] := by
  refine ⟨fun s' hs => ?_, chk_cons_noneed (by simp [needs]) trivial⟩
  simp only [needs] at hs
  subst hs; exact h

/-- `lock` / `lockWait` got the lock -/
theorem DepsInv.afterLockStep {P : Project} {st g : St} {t : Nat} {op : Op} {rest : List Op} {s : Nat} {co dl : Bool}
    (hi : DepsInv P st) (hops : (st.task t).ops = op :: rest)
    (hop : op = .lock s co dl ∨ op = .lockWait s co dl)
    (hg : g.tasks = st.tasks) (hc : g.cookT = st.cookT) (hwr : g.wasRun = st.wasRun) (htr : g.trace = st.trace) :
    DepsInv P (g.setTask t (afterLock P (st.task t) s co dl rest)) := by
  have hord := hi.ord t
  rw [hops] at hord
  obtain ⟨q1, q2, q3⟩ := hi.quiet hwr ⟨[], by simp [htr], by simp⟩
  have hdd : ∀ s', depsDone P st s' → depsDone P g s' := fun s' h => depsDone_mono q2 s' h
  have hneed : dl = false → willRun P s co → depsDone P st s := by
    intro h1 h2
    rcases hop with e | e <;> subst e <;> exact hord.1 s ⟨h1, rfl, h2⟩
  have hT : Track P g := hi.track.grow (new := []) (by simp [hg]) (by rw [hc]; exact fun e he => he)
  have := hi.bodyStep hops (GrowT.same hg) q1 q2 q3 hT
    [if dl then Op.download s else Op.underLock s co, .unlock (P.info s).path] (st.task t).err id ?_ ?_ ?_ ?_ ?_ ?_ (d1 := by cases dl <;> dnone)
    (d2 := by intro k hk; rcases hop with e | e <;> subst e <;> simp [coversD] at hk)
  · exact this
  · cases dl
    · refine ⟨fun s' hs => ?_, chk_cons_noneed (by simp [needs]) trivial⟩
      simp only [Bool.false_eq_true, ↓reduceIte, needs] at hs
      obtain ⟨e, hw⟩ := hs
      subst e
      exact hdd _ (hneed rfl hw)
    · exact chk_cons_noneed (by simp [needs]) (chk_cons_noneed (by simp [needs]) trivial)
  · intro s' hcv
    rcases hop with e | e <;> subst e <;> simp [covers] at hcv
  · intro s' hs
    cases dl <;> simp at hs
  · intro s' hs
    rcases hs with hs | ⟨r, hs⟩ <;> rcases hop with e | e <;> subst e <;> cases hs
  · intro s' hlv _ _
    right
    have : (s = s' ∧ co = false) ∧ dl = false := by
      rcases hop with e | e <;> subst e <;> simpa [liveFor] using hlv
    obtain ⟨⟨e1, e2⟩, e3⟩ := this
    subst e1; subst e2; subst e3
    exact ⟨.underLock s false, by simp, by simp [liveFor]⟩
  · intro o ho
    cases dl <;> simp at ho <;> rcases ho with e | e <;> subst e <;> trivial


/-- quiet form of `bodyStep` -/
theorem DepsInv.bodyStepQ {P : Project} {st : St} {new : List Task} {t : Nat} {op : Op} {rest : List Op}
    (hi : DepsInv P st) (hops : (st.task t).ops = op :: rest) (g : St) (hg : GrowT st g new)
    (hwr : g.wasRun = st.wasRun) (htr : ∃ evs, g.trace = st.trace ++ evs ∧ ∀ e ∈ evs, e.isStart = false)
    (hT : Track P g) (body : List Op) (e : Option Err) (he : (st.task t).err.isSome = true → e.isSome = true)
    (b1 : chk P g (depsDone P g) body)
    (b2 : ∀ s, covers P st op s → depsDone P g s ∨ ∃ o ∈ body, covers P g o s)
    (b3 : ∀ s, Op.setRun s false ∈ body → finishedOk P g.trace (P.info s).path = true ∨ Op.run s ∈ body)
    (b4 : ∀ s, (op = .run s ∨ ∃ r, op = .runWait s r) →
      finishedOk P g.trace (P.info s).path = true ∨ Op.run s ∈ body ∨ ∃ r, Op.runWait s r ∈ body)
    (b5 : ∀ s, liveFor s op = true → (st.task t).kind = .cook s false → (P.info s).valid = true →
      finishedOk P g.trace (P.info s).path = true ∨ ∃ o ∈ body, liveFor s o = true)
    (b6 : ∀ o ∈ body, SVop P o)
    (d1 : chkD g (doneAt g) body := by dnone)
    (d2 : ∀ k, coversD st op k → doneAt g k ∨ ∃ o ∈ body, coversD g o k := by dnoc) :
    DepsInv P (g.setTask t { kind := (st.task t).kind, ops := body ++ rest, err := e }) := by
  obtain ⟨q1, q2, q3⟩ := hi.quiet hwr htr
  exact hi.bodyStep hops hg q1 q2 q3 hT body e he b1 b2 b3 b4 b5 b6 d1 d2

/-- the generic step: the operation promises nothing, is not a live operation of a cook task, and the body
consists of operations without obligations -/
theorem DepsInv.gen {P : Project} {st : St} {new : List Task} {t : Nat} {op : Op} {rest : List Op}
    (hi : DepsInv P st) (hops : (st.task t).ops = op :: rest) (g : St) (hg : GrowT st g new) (hT : Track P g)
    (hwr : g.wasRun = st.wasRun) (htr : ∃ evs, g.trace = st.trace ++ evs ∧ ∀ e ∈ evs, e.isStart = false)
    (body : List Op) (e : Option Err) (he : (st.task t).err.isSome = true → e.isSome = true)
    (hc : ∀ s, ¬ covers P st op s ∧ ¬ coversD st op s) (hlv : ∀ s, liveFor s op = false) (hr1 : ∀ s, op ≠ .run s)
    (hr2 : ∀ s r, op ≠ .runWait s r)
    (hb : ∀ o ∈ body, (∀ s, ¬ needs P o s ∧ ¬ needsD o s) ∧ (∀ s, o ≠ .setRun s false) ∧ SVop P o) :
    DepsInv P (g.setTask t { kind := (st.task t).kind, ops := body ++ rest, err := e }) := by
  refine hi.bodyStepQ hops g hg hwr htr hT body e he (chk_noneed _ _ (fun o ho s => ((hb o ho).1 s).1)) ?_ ?_ ?_ ?_
    (fun o ho => (hb o ho).2.2) (d1 := gchk_noneed _ _ (fun o ho s => ((hb o ho).1 s).2))
    (d2 := fun k hk => absurd hk (hc k).2)
  · intro s h; exact absurd h (hc s).1
  · intro s h; exact absurd rfl ((hb _ h).2.1 s)
  · intro s hh
    rcases hh with hh | ⟨r, hh⟩
    · exact absurd hh (hr1 s)
    · exact absurd hh (hr2 s r)
  · intro s h; rw [hlv s] at h; cases h


theorem DepsInv.stepTask {P : Project} {cfg : Cfg} {st st' : St} {t : Nat}
    (hpv : PathVid P) (ho : OnceInv P st) (hl : LockInv P st)
    (hwf : ∀ x ∈ st.tasks, x.wf = true) (hi : DepsInv P st)
    (h : stepTask P cfg st t = some st') : DepsInv P st' := by
  cases hops : (st.task t).ops with
  | nil => simp [Sched.stepTask, hops] at h
  | cons op rest =>
    have ht := task_lt hops
    have hord := hi.ord t
    rw [hops] at hord
    have hsvop := hi.sv t op (by rw [hops]; simp)
    have hordD := hi.ordD t
    rw [hops] at hordD
    have trk : ∀ g : St, g.tasks = st.tasks → g.cookT = st.cookT → Track P g :=
      fun g h1 h2 => hi.track.grow (new := []) (by simp [h1]) (by rw [h2]; exact fun e he => he)
    have q0 : ∃ evs, st.trace = st.trace ++ evs ∧ ∀ e ∈ evs, e.isStart = false := ⟨[], by simp, by simp⟩
    have q1 : ∀ e : Ev, e.isStart = false →
        ∃ evs, st.trace ++ [e] = st.trace ++ evs ∧ ∀ e' ∈ evs, e'.isStart = false :=
      fun e he => ⟨[e], rfl, by simpa using he⟩
    have q2 : ∀ e1 e2 : Ev, e1.isStart = false → e2.isStart = false →
        ∃ evs, st.trace ++ [e1] ++ [e2] = st.trace ++ evs ∧ ∀ e' ∈ evs, e'.isStart = false :=
      fun e1 e2 h1 h2 => ⟨[e1, e2], by simp, by simp [h1, h2]⟩
    unfold Sched.stepTask at h
    simp only at h
    rw [hops] at h
    simp only at h
    cases op <;> simp only at h
    case fence k =>
      split at h
      · split at h <;> cases h
        · exact hi.raiseStep _ hops (g := st) rfl rfl rfl q0
        · exact hi.gen hops st (GrowT.same rfl) hi.track rfl q0 [] _ id (by simp [covers, coversD]) (by simp [liveFor])
            (by simp) (by simp) (by simp)
      · cases h
    case start =>
      have hb1 : ∀ o ∈ prog cfg (st.task t).kind ++ [Op.release], ∀ s, ¬ needs P o s := by
        generalize (st.task t).kind = k
        cases k <;> simp [prog, needs]
      have hb6 : ∀ o ∈ prog cfg (st.task t).kind ++ [Op.release], (∀ s', o ≠ .setRun s' false) ∧ SVop P o := by
        generalize (st.task t).kind = k
        cases k <;> simp [prog, SVop]
      have hbD : ∀ o ∈ prog cfg (st.task t).kind ++ [Op.release], ∀ k, ¬ needsD o k := by
        generalize (st.task t).kind = k
        cases k <;> simp [prog, needsD]
      split at h <;> cases h
      · rename_i r _
        refine hi.bodyStepQ hops ((({ st with runners := r } : St).emit (.acq t)).emit (.got t)) (GrowT.same rfl) rfl
          (q2 _ _ rfl rfl) (trk _ rfl rfl) (prog cfg (st.task t).kind ++ [Op.release]) _ id
          (chk_noneed _ _ hb1) (by simp [covers, coversD]) ?_ (by simp) ?_ (fun o ho => (hb6 o ho).2)
          (d1 := gchk_noneed _ _ hbD)
        · intro s hs; exact absurd rfl ((hb6 _ hs).1 s)
        · intro s _ hk _
          exact Or.inr ⟨.cookBody s false, by simp [hk, prog], by simp [liveFor]⟩
      · rename_i r _
        exact hi.bodyStepQ hops (({ st with runners := r } : St).emit (.acq t)) (GrowT.same rfl) rfl (q1 _ rfl)
          (trk _ rfl rfl) [.startWait] _ id (chk_noneed _ _ (by simp [needs])) (by simp [covers, coversD]) (by simp) (by simp)
          (fun s _ _ _ => Or.inr ⟨.startWait, by simp, rfl⟩) (by simp [SVop])
    case startWait =>
      have hb1 : ∀ o ∈ prog cfg (st.task t).kind ++ [Op.release], ∀ s, ¬ needs P o s := by
        generalize (st.task t).kind = k
        cases k <;> simp [prog, needs]
      have hb6 : ∀ o ∈ prog cfg (st.task t).kind ++ [Op.release], (∀ s', o ≠ .setRun s' false) ∧ SVop P o := by
        generalize (st.task t).kind = k
        cases k <;> simp [prog, SVop]
      have hbD : ∀ o ∈ prog cfg (st.task t).kind ++ [Op.release], ∀ k, ¬ needsD o k := by
        generalize (st.task t).kind = k
        cases k <;> simp [prog, needsD]
      split at h <;> cases h
      refine hi.bodyStepQ hops (({ st with runners := st.runners.resume t } : St).emit (.got t)) (GrowT.same rfl) rfl
        (q1 _ rfl) (trk _ rfl rfl) (prog cfg (st.task t).kind ++ [Op.release]) _ id
        (chk_noneed _ _ hb1) (by simp [covers, coversD]) ?_ (by simp) ?_ (fun o ho => (hb6 o ho).2)
          (d1 := gchk_noneed _ _ hbD)
      · intro s hs; exact absurd rfl ((hb6 _ hs).1 s)
      · intro s _ hk _
        exact Or.inr ⟨.cookBody s false, by simp [hk, prog], by simp [liveFor]⟩
    case release =>
      split at h <;> cases h
      · rename_i r _
        exact hi.gen hops (({ st with runners := r } : St).emit (.rel t true)) (GrowT.same rfl) (trk _ rfl rfl) rfl
          (q1 _ rfl) [] _ id (by simp [covers, coversD]) (by simp [liveFor]) (by simp) (by simp) (by simp)
      · exact hi.raiseStep _ hops (g := st.emit (.rel t false)) rfl rfl rfl (q1 _ rfl)
    case checkRunning =>
      split at h <;> cases h
      · exact hi.gen hops (st.emit (.pass t)) (GrowT.same rfl) (trk _ rfl rfl) rfl
          (q1 _ rfl) [] _ id (by simp [covers, coversD]) (by simp [liveFor]) (by simp) (by simp) (by simp)
      · exact hi.raiseStep _ hops (g := st) rfl rfl rfl q0
    case cook steps co =>
      obtain ⟨fw, f2, f3⟩ := filterTodo_spec hpv ho.wv co steps
      have hcovF : ∀ s, covers P st (.cook steps co) s → ∀ d ∈ (P.info s).deps, (P.info d).valid = true →
          finishedOk P st.trace (P.info d).path = true ∨ d ∈ (filterTodo P co steps st.wasRun).1 := by
        intro s hc d hd hv
        simp only [covers] at hc
        obtain ⟨hco, hcv⟩ := hc
        rcases hcv d hd hv with h' | h' | ⟨k, hk, _⟩
        · exact Or.inl h'
        · rcases f2 d h' hv with h'' | h''
          · left; subst hco; exact hi.ranFin _ (WasOk_false_RanAt h'')
          · exact Or.inr h''
        · cases hk
      split at h <;> cases h
      · rename_i hemp
        refine hi.bodyStepQ hops ({ st with wasRun := (filterTodo P co steps st.wasRun).2 } : St) (GrowT.same rfl) fw q0
          (trk _ rfl rfl) [] _ id trivial ?_ (by simp) (by simp) (by simp [liveFor]) (by simp)
        intro s hc
        left
        intro d hd hv
        rcases hcovF s hc d hd hv with h' | h'
        · exact h'
        · rw [List.isEmpty_iff.mp hemp] at h'; cases h'
      · refine hi.bodyStepQ hops ({ st with wasRun := (filterTodo P co steps st.wasRun).2 } : St) (GrowT.same rfl) fw q0
          (trk _ rfl rfl) [.spawn .cook (filterTodo P co steps st.wasRun).1 co] _ id (chk_noneed _ _ (by simp [needs])) ?_
          (by simp) (by simp) (by simp [liveFor]) ?_
        · intro s hc
          right
          refine ⟨_, List.mem_singleton.mpr rfl, ?_⟩
          have hco : co = false := by simp only [covers] at hc; exact hc.1
          show Trk.cook = Trk.cook ∧ co = false ∧ covered P _ s _ []
          refine ⟨rfl, hco, ?_⟩
          intro d hd hv
          rcases hcovF s hc d hd hv with h' | h'
          · exact Or.inl h'
          · exact Or.inr (Or.inl h')
        · intro o ho
          simp only [List.mem_singleton] at ho
          subst ho
          exact fun d hd => (f3 d hd).2
    case spawn trk steps co =>
      split at h
      · cases h
        obtain ⟨new, hg⟩ := createTasks_grow P trk co steps st
        obtain ⟨evs, hev, hq⟩ := createTasks_trace P trk co steps st
        have htr : ∃ evs, (createTasks P trk co steps st).1.trace = st.trace ++ evs ∧ ∀ e ∈ evs, e.isStart = false :=
          ⟨evs, hev, quiet_isStart hq⟩
        cases trk with
        | cook =>
          obtain ⟨hT, hks⟩ := createTasks_cook co steps st hi.track hsvop
          refine hi.bodyStepQ hops _ hg.toT hg.wasRun htr hT [.yieldRel (createTasks P .cook co steps st).2 true] _ id
            (chk_noneed _ _ (by simp [needs])) ?_ (by simp) (by simp) (by simp [liveFor]) (by simp [SVop])
          intro s hc
          simp only [covers] at hc
          obtain ⟨_, hco, hcv⟩ := hc
          subst hco
          right
          refine ⟨_, List.mem_singleton.mpr rfl, ?_⟩
          show true = true ∧ covered P _ s [] _
          refine ⟨rfl, ?_⟩
          intro d hd hv
          rcases hcv d hd hv with h' | h' | ⟨k, hk, _⟩
          · left; rw [hev]; exact finishedOk_append _ _ _ h'
          · right; right
            obtain ⟨k, hk, d', h1, h2, h3⟩ := hks d h'
            exact ⟨k, hk, d', h1, h2, h3⟩
          · cases hk
        | bid =>
          exact hi.gen hops _ hg.toT (hi.track.grow hg.tasks (by rw [createTasks_bid_cookT]; exact fun e he => he))
            hg.wasRun htr [_] _ id (by simp [covers, coversD]) (by simp [liveFor]) (by simp) (by simp) (by simp [needs, needsD, SVop])
      · cases h
        cases trk with
        | cook =>
          refine hi.bodyStepQ hops st (GrowT.same rfl) rfl q0 hi.track [.spawnSeq .cook steps co []] _ id
            (chk_noneed _ _ (by simp [needs])) ?_ (by simp) (by simp) (by simp [liveFor]) ?_
          · intro s hc
            simp only [covers] at hc
            right
            refine ⟨_, List.mem_singleton.mpr rfl, ?_⟩
            show Trk.cook = Trk.cook ∧ co = false ∧ covered P st s steps []
            exact ⟨rfl, hc.2.1, hc.2.2⟩
          · intro o ho
            simp only [List.mem_singleton] at ho
            subst ho
            exact hsvop
        | bid =>
          exact hi.gen hops st (GrowT.same rfl) hi.track rfl q0 [_] _ id (by simp [covers, coversD]) (by simp [liveFor])
            (by simp) (by simp) (by simp [needs, needsD, SVop])
    case spawnSeq trk todo co made =>
      split at h
      · cases h
        refine hi.bodyStepQ hops st (GrowT.same rfl) rfl q0 hi.track [.results made] _ id
          (chk_noneed _ _ (by simp [needs])) ?_ (by simp) (by simp) (by simp [liveFor]) (by simp [SVop])
        intro s hc
        simp only [covers] at hc
        obtain ⟨htrk, hco, hcv⟩ := hc
        subst htrk; subst hco
        right
        refine ⟨_, List.mem_singleton.mpr rfl, ?_⟩
        show coveredDone P st s made
        intro d hd hv
        rcases hcv d hd hv with h' | h' | ⟨k, hk, hck⟩
        · exact Or.inl h'
        · cases h'
        · exact Or.inr ⟨k, hk, hck, (hordD.1 k ⟨rfl, rfl, hk⟩).1⟩
      · rename_i s todo'
        cases h
        obtain ⟨new, hg⟩ := createTask_grow P st trk s co
        obtain ⟨evs, hev, hq⟩ := createTask_trace P st trk s co
        have htr : ∃ evs, (createTask P st trk s co).1.trace = st.trace ++ evs ∧ ∀ e ∈ evs, e.isStart = false :=
          ⟨evs, hev, quiet_isStart hq⟩
        cases trk with
        | cook =>
          obtain ⟨hT, d1', k1, k2, k3⟩ := createTask_cook hi.track s co (hsvop s (by simp))
          have hlen : st.tasks.length ≤ (createTask P st .cook s co).1.tasks.length := by
            rw [hg.tasks, List.length_append]; omega
          refine hi.bodyStepQ hops _ hg.toT hg.wasRun htr hT
            [.yieldRel [(createTask P st .cook s co).2] false,
             .spawnSeq .cook todo' co (made ++ [(createTask P st .cook s co).2])] _ id
            (chk_noneed _ _ (by simp [needs])) ?_ (by simp) (by simp) (by simp [liveFor]) ?_ (d1 := ?_)
          · intro s' hc
            simp only [covers] at hc
            obtain ⟨_, hco, hcv⟩ := hc
            subst hco
            right
            refine ⟨.spawnSeq .cook todo' false (made ++ [(createTask P st .cook s false).2]), by simp, ?_⟩
            show Trk.cook = Trk.cook ∧ false = false ∧ covered P _ s' todo' _
            refine ⟨rfl, rfl, ?_⟩
            intro d hd hv
            rcases hcv d hd hv with h' | h' | ⟨k, hk, hck⟩
            · left; rw [hev]; exact finishedOk_append _ _ _ h'
            · rcases List.mem_cons.mp h' with e | e
              · subst e
                exact Or.inr (Or.inr ⟨_, by simp, d1', k1, k2, k3⟩)
              · exact Or.inr (Or.inl e)
            · exact Or.inr (Or.inr ⟨k, by simp [hk], cooks_grow hg.tasks hck⟩)
          · intro o ho
            simp only [List.mem_cons, List.not_mem_nil, or_false] at ho
            rcases ho with e | e <;> subst e
            · trivial
            · exact fun d hd => hsvop d (by simp [hd])
          · refine ⟨fun k' hn => by simp [needsD] at hn, ⟨fun k' hn => ?_, trivial⟩⟩
            simp only [needsD] at hn
            obtain ⟨_, hco, hm⟩ := hn
            rcases List.mem_append.mp hm with hm | hm
            · left
              obtain ⟨c1, c2⟩ := hordD.1 k' ⟨rfl, hco, hm⟩
              exact ⟨by rw [task_append_left hg.tasks c2]; exact c1, by omega⟩
            · right
              simp only [List.mem_singleton] at hm
              subst hm
              show false = false ∧ _ ∈ [_] ∧ _ < _
              exact ⟨rfl, by simp, kind_lt k1⟩
        | bid =>
          exact hi.gen hops _ hg.toT (hi.track.grow hg.tasks (by rw [createTask_bid_cookT]; exact fun e he => he))
            hg.wasRun htr [_, _] _ id (by simp [covers, coversD]) (by simp [liveFor]) (by simp) (by simp)
            (by simp [needs, needsD, SVop])
    case yieldRel ks rs =>
      split at h <;> cases h
      · rename_i r _
        refine hi.bodyStepQ hops (({ st with runners := r } : St).emit (.rel t true)) (GrowT.same rfl) rfl (q1 _ rfl)
          (trk _ rfl rfl) [if rs then Op.gather ks else Op.waitOnly ks, .reacq, .checkRunning] _ id
          (chk_noneed _ _ (by cases rs <;> simp [needs])) ?_ (by cases rs <;> simp) (by simp) (by simp [liveFor])
          (by cases rs <;> simp [SVop]) (d1 := by cases rs <;> dnone) (d2 := ?_)
        rotate_left
        · intro k hk
          simp only [coversD] at hk
          obtain ⟨hrs, hm, hl'⟩ := hk
          subst hrs
          right
          exact ⟨.waitOnly ks, by simp, ⟨hm, hl'⟩⟩
        intro s hc
        simp only [covers] at hc
        obtain ⟨hrs, hcv⟩ := hc
        subst hrs
        right
        refine ⟨.gather ks, by simp, ?_⟩
        show covered P _ s [] ks
        exact covered_mono ⟨[.rel t true], rfl⟩ (fun k d hh => cooks_grow (new := []) (by simp) hh) hcv
      · exact hi.raiseStep _ hops (g := st.emit (.rel t false)) rfl rfl rfl (q1 _ rfl)
    case gather ks =>
      split at h
      · rename_i hall
        split at h <;> cases h
        · exact hi.raiseStep _ hops (g := st) rfl rfl rfl q0
        · rename_i hnf
          refine hi.bodyStepQ hops st (GrowT.same rfl) rfl q0 hi.track [] _ id trivial ?_ (by simp) (by simp)
            (by simp [liveFor]) (by simp)
          intro s hc
          left
          intro d hd hv
          simp only [covers] at hc
          rcases hc d hd hv with h' | h' | ⟨k, hk, d', h1, h2, h3⟩
          · exact h'
          · cases h'
          · have hdone : (st.task k).ops = [] := by
              have := (List.all_eq_true.mp hall) k hk
              simpa [Task.done] using this
            have hnf' : ¬ (st.task k).failed = true := fun hf =>
              hnf (by simp only [St.anyFailed, List.any_eq_true]; exact ⟨k, hk, hf⟩)
            rcases hi.live k d' h1 h2 with h4 | h4 | ⟨o, ho', _⟩
            · exact absurd (by simp [Task.failed, hdone, h4]) hnf'
            · rw [← h3]; exact h4
            · rw [hdone] at ho'; cases ho'
      · cases h
    case waitOnly ks =>
      split at h <;> cases h
      rename_i hall
      refine hi.bodyStepQ hops st (GrowT.same rfl) rfl q0 hi.track [] _ id trivial (by simp [covers, coversD]) (by simp)
        (by simp) (by simp [liveFor]) (by simp) (d2 := ?_)
      intro k hk
      simp only [coversD] at hk
      left
      exact ⟨by have := (List.all_eq_true.mp hall) k hk.1; simpa [Task.done] using this, hk.2⟩
    case results ks =>
      split at h <;> cases h
      · exact hi.raiseStep _ hops (g := st) rfl rfl rfl q0
      · rename_i hnf
        refine hi.bodyStepQ hops st (GrowT.same rfl) rfl q0 hi.track [] _ id trivial ?_ (by simp) (by simp)
          (by simp [liveFor]) (by simp)
        intro s hc
        left
        intro d hd hv
        simp only [covers] at hc
        rcases hc d hd hv with h' | ⟨k, hk, ⟨d', h1, h2, h3⟩, hdone⟩
        · exact h'
        · have hnf' : ¬ (st.task k).failed = true := fun hf =>
            hnf (by simp only [St.anyFailed, List.any_eq_true]; exact ⟨k, hk, hf⟩)
          rcases hi.live k d' h1 h2 with h4 | h4 | ⟨o, ho', _⟩
          · exact absurd (by simp [Task.failed, hdone, h4]) hnf'
          · rw [← h3]; exact h4
          · rw [hdone] at ho'; cases ho'
    case reacq =>
      split at h <;> cases h
      · rename_i r _
        exact hi.gen hops ((({ st with runners := r } : St).emit (.acq t)).emit (.got t)) (GrowT.same rfl) (trk _ rfl rfl) rfl
          (q2 _ _ rfl rfl) [] _ id (by simp [covers, coversD]) (by simp [liveFor]) (by simp) (by simp) (by simp)
      · rename_i r _
        exact hi.gen hops (({ st with runners := r } : St).emit (.acq t)) (GrowT.same rfl) (trk _ rfl rfl) rfl
          (q1 _ rfl) [.reacqWait] _ id (by simp [covers, coversD]) (by simp [liveFor]) (by simp) (by simp) (by simp [needs, needsD, SVop])
    case reacqWait =>
      split at h <;> cases h
      exact hi.gen hops (({ st with runners := st.runners.resume t } : St).emit (.got t)) (GrowT.same rfl) (trk _ rfl rfl) rfl
        (q1 _ rfl) [] _ id (by simp [covers, coversD]) (by simp [liveFor]) (by simp) (by simp) (by simp)
    case cookBody s co =>
      obtain ⟨hw, hran⟩ := wasAlreadyRun_spec hpv ho.wv s co
      split at h
      · cases h; exact hi.raiseStep _ hops (g := st) rfl rfl rfl q0
      · split at h
        · rename_i hinv
          cases h
          refine hi.bodyStepQ hops (st.emit (.pass t)) (GrowT.same rfl) rfl (q1 _ rfl) (trk _ rfl rfl) [] _ id trivial
            (by simp [covers, coversD]) (by simp) (by simp) ?_ (by simp)
          intro s' hlv _ hv
          have : s = s' := by simp [liveFor] at hlv; exact hlv.1
          subst this
          simp [hv] at hinv
        · split at h <;> cases h
          · rename_i hr
            refine hi.bodyStepQ hops (({ st with wasRun := (wasAlreadyRun P st.wasRun s co).2 } : St).emit (.pass t))
              (GrowT.same rfl) hw (q1 _ rfl) (trk _ rfl rfl) [] _ id trivial (by simp [covers, coversD]) (by simp) (by simp) ?_
              (by simp)
            intro s' hlv _ _
            have : s = s' ∧ co = false := by simpa [liveFor] using hlv
            obtain ⟨e1, e2⟩ := this
            subst e1; subst e2
            left
            simp only [emit_trace]
            exact finishedOk_append _ _ _ (hi.ranFin _ (WasOk_false_RanAt (hran.mp hr)))
          · refine hi.bodyStepQ hops (({ st with wasRun := (wasAlreadyRun P st.wasRun s co).2 } : St).emit (.pass t))
              (GrowT.same rfl) hw (q1 _ rfl) (trk _ rfl rfl) (cookBodyOps P s co) _ id (cookBodyOps_chk _ s co)
              (by simp [covers, coversD]) ?_ (by simp) ?_ (fun o ho' => ((cookBodyOps_props P s co).1 o ho').2)
              (d1 := gchk_noneed _ _ (by unfold cookBodyOps; cases (P.info s).kind <;> cases co <;> simp [needsD]))
            · intro s' hs; exact absurd rfl (((cookBodyOps_props P s co).1 _ hs).1 s')
            · intro s' hlv _ _
              have : s = s' ∧ co = false := by simpa [liveFor] using hlv
              obtain ⟨e1, e2⟩ := this
              subst e1; subst e2
              exact Or.inr ⟨_, (cookBodyOps_props P s false).2 rfl, by simp [liveFor]⟩
    case lock s co dl =>
      split at h <;> cases h
      · exact hi.afterLockStep hops (Or.inl rfl) rfl rfl rfl rfl
      · rename_i l _
        refine hi.bodyStepQ hops ({ st with locks := insert (P.info s).path l st.locks } : St) (GrowT.same rfl) rfl q0
          (trk _ rfl rfl) [.lockWait s co dl] _ id ?_ (by simp [covers, coversD]) (by simp) (by simp) ?_ (by simp [SVop])
        · refine ⟨fun s' hs => ?_, trivial⟩
          exact hord.1 s' hs
        · intro s' hlv _ _
          exact Or.inr ⟨_, List.mem_singleton.mpr rfl, by simpa [liveFor] using hlv⟩
    case lockWait s co dl =>
      split at h <;> cases h
      exact hi.afterLockStep hops (Or.inr rfl) rfl rfl rfl rfl
    case underLock s co =>
      obtain ⟨hw, hran⟩ := wasAlreadyRun_spec hpv ho.wv s co
      split at h <;> cases h
      · rename_i hr
        refine hi.bodyStepQ hops ({ st with wasRun := (wasAlreadyRun P st.wasRun s co).2 } : St) (GrowT.same rfl) hw q0
          (trk _ rfl rfl) [] _ id trivial (by simp [covers, coversD]) (by simp) (by simp) ?_ (by simp)
        intro s' hlv _ _
        have : s = s' ∧ co = false := by simpa [liveFor] using hlv
        obtain ⟨e1, e2⟩ := this
        subst e1; subst e2
        exact Or.inl (hi.ranFin _ (WasOk_false_RanAt (hran.mp hr)))
      · have hdone : willRun P s co → depsDone P st s := fun hw' => hord.1 s ⟨rfl, hw'⟩
        refine hi.bodyStepQ hops ({ st with wasRun := (wasAlreadyRun P st.wasRun s co).2 } : St) (GrowT.same rfl) hw q0
          (trk _ rfl rfl) _ _ id ?_ (by simp [covers, coversD]) ?_ (by simp) ?_ ?_
          (d1 := by cases (P.info s).kind <;> cases co <;> dnone)
        · cases hk : (P.info s).kind <;> cases co <;> simp only [Bool.false_eq_true, ↓reduceIte]
          · exact chk_run s (hdone (Or.inl hk))
          · exact chk_run s (hdone (Or.inl hk))
          · exact chk_cons_noneed (by simp [needs]) (chk_run s (hdone (Or.inr rfl)))
          · exact chk_cons_noneed (by simp [needs]) trivial
          · exact chk_run s (hdone (Or.inr rfl))
          · exact chk_cons_noneed (by simp [needs]) trivial
        · intro s'
          cases (P.info s).kind <;> cases co <;> simp <;> intro e <;> exact Or.inr e
        · intro s' hlv _ _
          have : s = s' ∧ co = false := by simpa [liveFor] using hlv
          obtain ⟨e1, e2⟩ := this
          subst e1; subst e2
          right
          refine ⟨.run s, ?_, by simp [liveFor]⟩
          cases (P.info s).kind <;> simp
        · intro o
          cases (P.info s).kind <;> cases co <;> simp only [List.mem_cons, List.not_mem_nil, or_false,
            Bool.false_eq_true, ↓reduceIte] <;> intro ho' <;>
            (try rcases ho' with e | e | e) <;> (try rcases ho' with e | e) <;> (try subst e) <;> (try subst ho') <;> trivial
    case download s =>
      cases h
      refine hi.gen hops _ (GrowT.same ?_) (trk _ ?_ ?_) ?_ ⟨[], ?_, by simp⟩ [] _ id (by simp [covers, coversD]) (by simp [liveFor])
        (by simp) (by simp) (by simp) <;> split <;> simp
    case unlock p =>
      split at h <;> cases h
      · rename_i l _
        exact hi.gen hops ({ st with locks := insert p l st.locks } : St) (GrowT.same rfl) (trk _ rfl rfl) rfl q0 [] _ id
          (by simp [covers, coversD]) (by simp [liveFor]) (by simp) (by simp) (by simp)
      · exact hi.raiseStep _ hops (g := st) rfl rfl rfl q0
    case bidSingle s =>
      split at h
      · split at h <;> cases h
        · exact hi.gen hops st (GrowT.same rfl) hi.track rfl q0 [] _ id (by simp [covers, coversD]) (by simp [liveFor])
            (by simp) (by simp) (by simp)
        · exact hi.gen hops st (GrowT.same rfl) hi.track rfl q0 [_, _] _ id (by simp [covers, coversD]) (by simp [liveFor])
            (by simp) (by simp) (by simp [needs, needsD, SVop])
      · split at h <;> cases h
        · exact hi.gen hops st (GrowT.same rfl) hi.track rfl q0 [] _ id (by simp [covers, coversD]) (by simp [liveFor])
            (by simp) (by simp) (by simp)
        · exact hi.gen hops st (GrowT.same rfl) hi.track rfl q0 [_, _] _ id (by simp [covers, coversD]) (by simp [liveFor])
            (by simp) (by simp) (by simp [needs, needsD, SVop])
    case cacheSrc s =>
      cases h
      exact hi.gen hops ({ st with srcBid := ((P.info s).path, (P.info s).vid) :: st.srcBid } : St) (GrowT.same rfl)
        (trk _ rfl rfl) rfl q0 [] _ id (by simp [covers, coversD]) (by simp [liveFor]) (by simp) (by simp) (by simp)
    case cacheDist s =>
      cases h
      exact hi.gen hops ({ st with distBid := (P.info s).path :: st.distBid } : St) (GrowT.same rfl)
        (trk _ rfl rfl) rfl q0 [] _ id (by simp [covers, coversD]) (by simp [liveFor]) (by simp) (by simp) (by simp)
    case run s =>
      cases h
      have hdone : depsDone P st s := hord.1 s rfl
      refine hi.bodyStep hops (g := st.emit (.start t s)) (GrowT.same rfl) ?_ ⟨[.start t s], rfl⟩
        (first_start t s hi.first hdone) (trk _ rfl rfl) [.runWait s none] _ id ?_ (by simp [covers, coversD]) (by simp) ?_ ?_
        (by simp [SVop])
      · intro p hp
        exact finishedOk_append _ _ _ (hi.ranFin p hp)
      · refine ⟨fun s' hs => ?_, trivial⟩
        simp only [needs] at hs
        subst hs
        exact depsDone_mono ⟨[.start t s'], rfl⟩ _ hdone
      · intro s' hh
        rcases hh with hh | ⟨r, hh⟩
        · cases hh; exact Or.inr (Or.inr ⟨none, by simp⟩)
        · cases hh
      · intro s' hlv _ _
        exact Or.inr ⟨_, List.mem_singleton.mpr rfl, by simpa [liveFor] using hlv⟩
    case runWait s res =>
      split at h
      · cases h
      · cases h
        refine hi.bodyStepQ hops
          (({ st with disk := insert (P.info s).path (P.run s (inputs P st s)) st.disk } : St).emit (.fin t s true))
          (GrowT.same rfl) rfl (q1 _ rfl) (trk _ rfl rfl) [] _ id trivial (by simp [covers, coversD]) (by simp) ?_ ?_ (by simp)
        · intro s' hh
          rcases hh with hh | ⟨r, hh⟩
          · cases hh
          · cases hh; exact Or.inl (finishedOk_fin _ _ _)
        · intro s' hlv _ _
          have : s = s' := by simpa [liveFor] using hlv
          subst this
          exact Or.inl (finishedOk_fin _ _ _)
      · cases h
        exact hi.raiseStep _ hops
          (g := ({ st with disk := insert (P.info s).path (P.junk s) st.disk } : St).emit (.fin t s false)) rfl rfl rfl
          (q1 _ rfl)
    case setRun s sk =>
      cases h
      have hshape := ho.shape t
      rw [hops] at hshape
      obtain ⟨r', hr'⟩ : ∃ r', rest = .unlock (P.info s).path :: r' := by
        cases rest with
        | nil => simp [secShape] at hshape
        | cons a r' =>
          simp only [secShape, List.head?_cons, Bool.and_eq_true, beq_iff_eq, Option.some.injEq] at hshape
          exact ⟨r', by rw [hshape.1]⟩
      subst hr'
      refine hi.bodyStep hops
        (g := ({ st with wasRun := insert (P.info s).path ((P.info s).vid, sk) st.wasRun } : St).emit (.setRun t s sk))
        (GrowT.same rfl) ?_ ⟨[.setRun t s sk], rfl⟩ ?_ (trk _ rfl rfl) [] _ id trivial (by simp [covers, coversD]) (by simp)
        (by simp) (by simp [liveFor]) (by simp)
      · intro p hp
        simp only [emit_wasRun, emit_trace] at hp ⊢
        apply finishedOk_append
        by_cases hpp : p = (P.info s).path
        · subst hpp
          obtain ⟨v, hv⟩ := hp
          rw [lookup_insert_self] at hv
          have hsk : sk = false := by cases hv; rfl
          subst hsk
          rcases hi.setFin t s (by rw [hops]; simp) with h1 | h1 | ⟨r, h1⟩
          · exact h1
          · exfalso
            rw [hops] at h1
            simp only [List.mem_cons] at h1
            rcases h1 with e | e | e
            · cases e
            · cases e
            · exact hl.single hops e rfl
          · exfalso
            rw [hops] at h1
            simp only [List.mem_cons] at h1
            rcases h1 with e | e | e
            · cases e
            · cases e
            · exact hl.single hops e rfl
        · exact hi.ranFin p ((RanAt_insert_ne _ hpp).mp hp)
      · simp only [emit_trace]
        rw [depsFirstFrom_append, hi.first, depsFirstFrom_quiet _ _ (by simp [Ev.isStart])]; rfl
    case spawnTop targets =>
      split at h
      · cases h
        obtain ⟨new, hg⟩ := createTops_grow targets st
        obtain ⟨evs, hev, hq⟩ := createTops_trace targets st
        exact hi.gen hops _ hg.toT (hi.track.grow hg.tasks (by rw [createTops_cookT]; exact fun e he => he))
          hg.wasRun ⟨evs, hev, quiet_isStart hq⟩ [_] _ id (by simp [covers, coversD]) (by simp [liveFor]) (by simp) (by simp)
          (by simp [needs, needsD, SVop])
      · cases h
        exact hi.gen hops st (GrowT.same rfl) hi.track rfl q0 [_] _ id (by simp [covers, coversD]) (by simp [liveFor])
          (by simp) (by simp) (by simp [needs, needsD, SVop])
    case spawnTopSeq todo made =>
      split at h
      · cases h
        exact hi.gen hops st (GrowT.same rfl) hi.track rfl q0 [_] _ id (by simp [covers, coversD]) (by simp [liveFor])
          (by simp) (by simp) (by simp [needs, needsD, SVop])
      · rename_i s todo'
        cases h
        obtain ⟨new, hg⟩ := createTop_grow st s
        obtain ⟨evs, hev, hq⟩ := createTop_trace st s
        exact hi.gen hops _ hg.toT (hi.track.grow hg.tasks (fun e he => he))
          hg.wasRun ⟨evs, hev, quiet_isStart hq⟩ [_, _] _ id (by simp [covers, coversD]) (by simp [liveFor]) (by simp) (by simp)
          (by simp [needs, needsD, SVop])
    case wrapEnd =>
      have hr0 : rest = [] := by
        obtain ⟨w1, _⟩ := Task.wf_iff.mp (hwf _ (task_mem ht))
        rw [hops] at w1
        cases hx : holdsTok (Op.wrapEnd :: rest) <;> simp [hx, Sched.wf] at w1
        exact w1
      subst hr0
      have key : ∀ (g : St) (e : Option Err), g.tasks = st.tasks → (∀ x ∈ g.cookT, x ∈ st.cookT) → g.wasRun = st.wasRun →
          (∃ evs, g.trace = st.trace ++ evs ∧ ∀ e ∈ evs, e.isStart = false) →
          ((st.task t).err.isSome = true → e.isSome = true) →
          DepsInv P (g.setTask t { kind := (st.task t).kind, ops := [], err := e }) := by
        intro g e h1 h2 h3 h4 h5
        exact hi.gen hops g (GrowT.same h1) (hi.track.grow (new := []) (by simp [h1]) h2) h3 h4 [] e h5
          (by simp [covers, coversD]) (by simp [liveFor]) (by simp) (by simp) (by simp)
      split at h
      · rename_i herr
        cases h
        refine key _ _ ?_ ?_ ?_ ⟨[.done t true], ?_, by simp [Ev.isStart]⟩ id
        · simp only [emit_tasks]; split <;> rfl
        · intro x hx
          simp only [emit_cookT] at hx
          split at hx
          · exact mem_kremove hx
          · exact hx
          · exact hx
        · simp only [emit_wasRun]; split <;> rfl
        · simp only [emit_trace]; congr 1; split <;> rfl
      · cases h
        exact key _ _ rfl (fun x hx => hx) rfl ⟨[.failRec t, .done t false], by simp, by simp [Ev.isStart]⟩ (fun _ => rfl)
      · cases h
        exact key _ _ rfl (fun x hx => hx) rfl ⟨[.done t false], by simp, by simp [Ev.isStart]⟩ (fun _ => rfl)
      · rename_i herr
        cases h
        exact key _ _ rfl (fun x hx => hx) rfl ⟨[.done t false], by simp, by simp [Ev.isStart]⟩ (fun _ => by simp [herr])


theorem DepsInv.of_eq {P : Project} {st st' : St} (hi : DepsInv P st) (h1 : st'.tasks = st.tasks)
    (h2 : st'.wasRun = st.wasRun) (h3 : st'.trace = st.trace) (h4 : st'.cookT = st.cookT) : DepsInv P st' := by
  have ht : ∀ i, st'.task i = st.task i := fun i => by simp [St.task, h1]
  have hcooks : ∀ k d, cooks P st k d → cooks P st' k d := by
    intro k d ⟨d', a, b, c⟩
    exact ⟨d', by rw [ht]; exact a, b, c⟩
  refine ⟨?_, ?_, ?_, ?_, ?_, ?_, ?_, ?_⟩
  rotate_left 7
  · intro i
    rw [ht]
    refine gchk_mono (fun o k hc => coversD_mono (by rw [h1]; exact Nat.le_refl _) hc) _ _ _ ?_ (hi.ordD i)
    intro k ⟨c1, c2⟩
    exact ⟨by rw [ht]; exact c1, by rw [h1]; exact c2⟩
  · rw [h2, h3]; exact hi.ranFin
  · intro i; rw [ht, h3]; exact hi.setFin i
  · intro i; rw [ht, h3]; exact hi.live i
  · intro key k hm
    rw [h4] at hm
    obtain ⟨d, a, b, c⟩ := hi.track key k hm
    exact ⟨d, by rw [ht]; exact a, b, c⟩
  · intro i; rw [ht]; exact hi.sv i
  · intro i
    rw [ht]
    refine chk_mono (fun o s h => covers_mono ⟨[], by simp [h3]⟩ hcooks (fun k _ hk => by rw [ht]; exact hk) o s h) _ _ _ ?_ (hi.ord i)
    intro s hs
    exact depsDone_mono ⟨[], by simp [h3]⟩ s hs
  · rw [h3]; exact hi.first

theorem DepsInv.step {P : Project} {cfg : Cfg} {st st' : St} {c : Choice}
    (hpv : PathVid P) (ho : OnceInv P st) (hl : LockInv P st)
    (hwf : ∀ x ∈ st.tasks, x.wf = true) (hi : DepsInv P st)
    (h : step P cfg st c = some st') : DepsInv P st' := by
  cases c with
  | task t => exact hi.stepTask hpv ho hl hwf h
  | finish t ok =>
    simp only [Sched.step, finishScript] at h
    split at h
    · rename_i s rest hops
      cases h
      have hord := hi.ord t
      rw [hops] at hord
      refine hi.bodyStepQ hops st (GrowT.same rfl) rfl ⟨[], by simp, by simp⟩ hi.track [.runWait s (some ok)] _ id
        ?_ (by simp [covers, coversD]) (by simp) ?_ ?_ (by simp [SVop])
      · exact ⟨fun s' hs => hord.1 s' hs, trivial⟩
      · intro s' hh
        rcases hh with hh | ⟨r, hh⟩
        · cases hh
        · cases hh; exact Or.inr (Or.inr ⟨some ok, by simp⟩)
      · intro s' hlv _ _
        exact Or.inr ⟨_, List.mem_singleton.mpr rfl, by simpa [liveFor] using hlv⟩
    · cases h
  | callback =>
    simp only [Sched.step] at h
    split at h
    · split at h <;> cases h
      exact hi.of_eq rfl rfl rfl rfl
    · cases h
  | envTake =>
    simp only [Sched.step] at h
    split at h
    · rename_i s hs
      cases he : s.envTake with
      | none => simp [he] at h
      | some s' =>
        simp only [he, Option.map_some, Option.some.injEq] at h
        subst h
        exact hi.of_eq rfl rfl rfl rfl
    · cases h
  | envReturn =>
    simp only [Sched.step] at h
    split at h
    · rename_i s hs
      cases he : s.envReturn with
      | none => simp [he] at h
      | some s' =>
        simp only [he, Option.map_some, Option.some.injEq] at h
        subst h
        exact hi.of_eq rfl rfl rfl rfl
    · cases h

theorem DepsInv.init (P : Project) (cfg : Cfg) (r0 : Runners) : DepsInv P (init cfg r0) := by
  have hops : ∀ i, ∀ o ∈ ((Sched.init cfg r0).task i).ops, o = .spawnTop cfg.targets ∨ o = .wrapEnd := by
    intro i o ho
    cases i with
    | zero => simpa [St.task, Sched.init] using ho
    | succ k => simp [St.task, Sched.init, default_task_ops] at ho
  have hkind : ∀ i, ((Sched.init cfg r0).task i).kind = .dispatcher := by
    intro i
    cases i with
    | zero => simp [St.task, Sched.init]
    | succ k => simp [St.task, Sched.init]; rfl
  refine ⟨?_, ?_, ?_, ?_, ?_, ?_, rfl, ?_⟩
  rotate_left 6
  · intro i
    refine gchk_noneed _ _ ?_
    intro o ho s hn
    rcases hops i o ho with e | e <;> subst e <;> simp [needsD] at hn
  · intro p ⟨v, hv⟩
    simp [Sched.init, lookup] at hv
  · intro i s hs
    rcases hops i _ hs with e | e <;> cases e
  · intro i s hk
    rw [hkind] at hk; cases hk
  · intro key k hm
    simp [Sched.init] at hm
  · intro i o ho
    rcases hops i o ho with e | e <;> subst e <;> trivial
  · intro i
    refine chk_noneed _ _ ?_
    intro o ho s hn
    rcases hops i o ho with e | e <;> subst e <;> simp [needs] at hn

theorem DepsInv.reach {n : Nat} {P : Project} {cfg : Cfg} {r0 : Runners} {st : St} (hpv : PathVid P)
    (hr : GoodRunners n r0) (h : Reach P cfg r0 st) : DepsInv P st := by
  induction h with
  | init => exact DepsInv.init P cfg r0
  | step c hprev hs ih =>
    exact ih.step hpv (OnceInv.reach hpv hr hprev) (LockInv.reach hr hprev) (TokInv.reach hr hprev).wf hs

/-- **deps_first**, all modes -/
theorem deps_first_all {n : Nat} {P : Project} {cfg : Cfg} {r0 : Runners} {st : St} (hpv : PathVid P)
    (hr : GoodRunners n r0) (h : Reach P cfg r0 st) : depsFirst P st = true :=
  (DepsInv.reach hpv hr h).first

theorem depsAtEnd_all {n : Nat} {P : Project} {cfg : Cfg} {r0 : Runners} {st : St} (hpv : PathVid P)
    (hr : GoodRunners n r0) (h : Reach P cfg r0 st) : DepsAtEnd P st := by
  intro t s r rest hops
  have hord := (DepsInv.reach hpv hr h).ord t
  rw [hops] at hord
  exact hord.1 s rfl


end Full
end Sched
