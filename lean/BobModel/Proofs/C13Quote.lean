import BobModel.Model.ShellEnv
/-
Helper lemmas for C13: the bash word evaluator on the output of `shlexQuote`.
-/
namespace ShellEnv

/-- what the evaluator needs to know about every character `shlex.quote` leaves unquoted; re-checked by
`decide` against the safe set extracted from the running `shlex` -/
theorem safe_table :
    ∀ c ∈ Consts.C13.safeChars,
      (c ≠ nulChar ∧ c ≠ '\'' ∧ c ≠ '"' ∧ c ≠ '\\' ∧ c ≠ '$') ∧
      (wordStop c = false ∧ subStop c = false ∧ plainChar c = true) := by
  decide

theorem safeChar_facts {c : Char} (h : safeChar c = true) :
    (c ≠ nulChar ∧ c ≠ '\'' ∧ c ≠ '"' ∧ c ≠ '\\' ∧ c ≠ '$') ∧
    (wordStop c = false ∧ subStop c = false ∧ plainChar c = true) := by
  apply safe_table
  simpa [safeChar] using h

/-- a stop predicate that never fires on a safe character (true of `wordStop` and `subStop`) -/
def SafeStop (stop : Char → Bool) : Prop := ∀ c, safeChar c = true → stop c = false

theorem safeStop_word : SafeStop wordStop := fun _ h => (safeChar_facts h).2.1
theorem safeStop_sub : SafeStop subStop := fun _ h => (safeChar_facts h).2.2.1

theorem lexWord_safe (E : Env) (stop : Char → Bool) (hstop : SafeStop stop) :
    ∀ (s acc rest : Str), s.all safeChar = true →
      lexWord E stop .unq acc (s ++ rest) = lexWord E stop .unq (acc ++ s) rest := by
  intro s
  induction s with
  | nil => intro acc rest _; simp
  | cons c s ih =>
    intro acc rest h
    simp only [List.all_cons, Bool.and_eq_true] at h
    obtain ⟨⟨h0, h1, h2, h3, h4⟩, _, _, h7⟩ := safeChar_facts h.1
    have h5 := hstop c h.1
    simp only [List.cons_append, lexWord, h0, h1, h2, h3, h4, h5, h7, if_false, if_true, Bool.false_eq_true]
    rw [ih _ _ h.2]
    simp

theorem lexWord_quoteBody (E : Env) (stop : Char → Bool) :
    ∀ (s acc rest : Str), (∀ c ∈ s, c ≠ nulChar) →
      lexWord E stop .sq acc (quoteBody s ++ '\'' :: rest) = lexWord E stop .unq (acc ++ s) rest := by
  intro s
  induction s with
  | nil =>
    intro acc rest _
    simp [quoteBody, lexWord, nulChar]
  | cons c s ih =>
    intro acc rest h
    have hc : c ≠ nulChar := h c (by simp)
    have hs : ∀ d ∈ s, d ≠ nulChar := fun d hd => h d (by simp [hd])
    by_cases hq : c = '\''
    · subst hq
      have e : quoteBody ('\'' :: s) = '\'' :: '"' :: '\'' :: '"' :: '\'' :: quoteBody s := by
        simp [quoteBody]
      rw [e]
      simp only [List.cons_append, lexWord]
      simp only [show ¬ ('\'' = nulChar) by decide, show ¬ ('"' = nulChar) by decide,
        show ¬ ('"' = '\'') by decide, show ¬ ('\'' = '"') by decide, show ¬ ('\'' = '\\') by decide,
        show ('\'' = '$' || '\'' = '`') = false by decide,
        if_false, if_true, Bool.false_eq_true]
      rw [ih (acc ++ ['\'']) rest hs]
      simp
    · have e : quoteBody (c :: s) = c :: quoteBody s := by simp [quoteBody, hq]
      rw [e]
      simp only [List.cons_append, lexWord, hc, hq, if_false]
      rw [ih _ _ hs]
      simp

/-- the continuation form of the round trip: a quoted string in front of ANY rest contributes exactly
its original characters to the word being read -/
theorem lexWord_quote (E : Env) (stop : Char → Bool) (hstop : SafeStop stop)
    (s acc rest : Str) (hn : ∀ c ∈ s, c ≠ nulChar) :
    lexWord E stop .unq acc (shlexQuote s ++ rest) = lexWord E stop .unq (acc ++ s) rest := by
  unfold shlexQuote
  split
  · rename_i h
    have : s = [] := by simpa using h
    subst this
    simp [lexWord, nulChar]
  · split
    · rename_i h
      exact lexWord_safe E stop hstop s acc rest h
    · simp only [List.cons_append, List.append_assoc]
      simp only [lexWord, show ¬ ('\'' = nulChar) by decide, if_false, if_true]
      exact lexWord_quoteBody E stop s acc rest hn

end ShellEnv
