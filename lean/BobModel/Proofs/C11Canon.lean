import BobModel.Proofs.C11Order
/-
C11 helper lemmas, part 5: what equality of canonical trees means — an order-free, recursive
characterisation.
-/
namespace DirHash

theorem Forest.mem_canon_iff : ∀ (f : Forest) (e : Bytes × Tree),
    e ∈ f.canon.toList ↔ ∃ t, (e.1, t) ∈ f.toList ∧ ignored e.1 t = false ∧ t.canon = e.2
  | .nil, e => by simp [Forest.canon, Forest.toList]
  | .cons n t rest, e => by
    unfold Forest.canon
    split
    · rename_i hig
      rw [Forest.mem_canon_iff rest e]
      constructor
      · rintro ⟨t', h1, h2, h3⟩
        exact ⟨t', by simp [Forest.toList, h1], h2, h3⟩
      · rintro ⟨t', h1, h2, h3⟩
        simp only [Forest.toList, List.mem_cons, Prod.mk.injEq] at h1
        rcases h1 with ⟨rfl, rfl⟩ | h1
        · rw [hig] at h2; cases h2
        · exact ⟨t', h1, h2, h3⟩
    · rename_i hig
      rw [Forest.mem_insert, Forest.mem_canon_iff rest e]
      constructor
      · rintro (rfl | ⟨t', h1, h2, h3⟩)
        · exact ⟨t, by simp [Forest.toList], by simpa using hig, rfl⟩
        · exact ⟨t', by simp [Forest.toList, h1], h2, h3⟩
      · rintro ⟨t', h1, h2, h3⟩
        simp only [Forest.toList, List.mem_cons, Prod.mk.injEq] at h1
        rcases h1 with ⟨h1, rfl⟩ | h1
        · left; exact Prod.ext h1 h3.symm
        · right; exact ⟨t', h1, h2, h3⟩

/-- strictly sorted listings with the same entries are equal -/
theorem Forest.strict_ext : ∀ (f1 f2 : Forest), f1.Strict → f2.Strict →
    (∀ e, e ∈ f1.toList ↔ e ∈ f2.toList) → f1 = f2
  | .nil, .nil, _, _, _ => rfl
  | .nil, .cons m u r2, _, _, h => by
    have := (h (m, u)).mpr (by simp [Forest.toList]); simp [Forest.toList] at this
  | .cons n t r1, .nil, _, _, h => by
    have := (h (n, t)).mp (by simp [Forest.toList]); simp [Forest.toList] at this
  | .cons n t r1, .cons m u r2, w1, w2, h => by
    simp only [Forest.Strict] at w1 w2
    obtain ⟨_, _, a3, _, a5⟩ := w1
    obtain ⟨_, _, b3, _, b5⟩ := w2
    have hhead : (n, t) = (m, u) := by
      have h1 := (h (n, t)).mp (by simp [Forest.toList])
      have h2 := (h (m, u)).mpr (by simp [Forest.toList])
      simp only [Forest.toList, List.mem_cons] at h1 h2
      rcases h1 with h1 | h1
      · exact h1
      · rcases h2 with h2 | h2
        · exact h2.symm
        · exfalso
          have l1 := b3 (n, t) h1
          have l2 := a3 (m, u) h2
          have := bytesLt_trans _ _ _ l1 l2
          simp only [key] at this
          rw [bytesLt_irrefl] at this
          cases this
    cases hhead
    have hrest : r1 = r2 := by
      apply Forest.strict_ext r1 r2 a5 b5
      intro e
      constructor
      · intro he
        have := (h e).mp (by simp [Forest.toList, he])
        simp only [Forest.toList, List.mem_cons] at this
        rcases this with rfl | this
        · exfalso
          have := a3 _ he
          simp only [key] at this
          rw [bytesLt_irrefl] at this
          cases this
        · exact this
      · intro he
        have := (h e).mpr (by simp [Forest.toList, he])
        simp only [Forest.toList, List.mem_cons] at this
        rcases this with rfl | this
        · exfalso
          have := b3 _ he
          simp only [key] at this
          rw [bytesLt_irrefl] at this
          cases this
        · exact this
    rw [hrest]

end DirHash
