import BobModel.Proofs.C18Forward
/-
Helper lemmas for C18: depth of acyclic graphs (fuel of the recursive walks) and the memoised
depth first search of `__findIntermediateNodes`: it marks exactly the nodes that are reachable
from `old` and from which a `new` node is reachable.
-/
namespace PathSpec

/-! ### depth of an acyclic graph -/

/-- consecutive nodes after `a` along dependency edges -/
def Chain (g : Graph) : Node → List Node → Prop
  | _, [] => True
  | a, b :: l => edge g true a b ∧ Chain g b l

theorem chain_reach {g : Graph} : ∀ (l : List Node) (a : Node), Chain g a l → ∀ x ∈ l, Relation.TransGen (edge g true) a x
  | [], _, _, x, hx => by cases hx
  | b :: l, a, h, x, hx => by
    simp only [Chain] at h
    rcases List.mem_cons.mp hx with rfl | hx'
    · exact .single h.1
    · exact transGen_head h.1 (chain_reach l b h.2 x hx')

theorem chain_nodup {g : Graph} (hac : g.Acyclic) : ∀ (l : List Node) (a : Node), Chain g a l → l.Nodup
  | [], _, _ => List.nodup_nil
  | b :: l, a, h => by
    simp only [Chain] at h
    refine List.nodup_cons.mpr ⟨?_, chain_nodup hac l b h.2⟩
    intro hb
    exact hac b (chain_reach l b h.2 b hb)

theorem chain_lt {g : Graph} (hwf : g.WF) : ∀ (l : List Node) (a : Node), Chain g a l → ∀ x ∈ l, x < g.size := by
  intro l a h x hx
  exact transGen_edge_lt hwf (chain_reach l a h x hx)

/-- pigeonhole: a duplicate free list of numbers below `n` has at most `n` elements -/
theorem nodup_length_le : ∀ (n : Nat) (l : List Nat), l.Nodup → (∀ x ∈ l, x < n) → l.length ≤ n := by
  intro n
  induction n with
  | zero =>
    intro l _ h
    cases l with
    | nil => simp
    | cons x xs => exact absurd (h x (List.mem_cons.mpr (Or.inl rfl))) (by omega)
  | succ n ih =>
    intro l hnd h
    have hsub : (l.filter (fun x => x != n)).Nodup := hnd.sublist List.filter_sublist
    have hlt : ∀ x ∈ l.filter (fun x => x != n), x < n := by
      intro x hx
      have := List.mem_filter.mp hx
      have h1 := h x this.1
      have h2 : x ≠ n := by simpa using this.2
      omega
    have h1 := ih _ hsub hlt
    -- at most one element is filtered out
    have h2 : l.length ≤ (l.filter (fun x => x != n)).length + 1 := by
      clear h1 hsub hlt h ih
      induction l with
      | nil => simp
      | cons y ys ihy =>
        have hnd' := List.nodup_cons.mp hnd
        by_cases hy : y = n
        · subst hy
          have : ys.filter (fun x => x != y) = ys := by
            apply List.filter_eq_self.mpr
            intro x hx
            have : x ≠ y := by intro h; subst h; exact hnd'.1 hx
            simpa using this
          simp [List.filter_cons, this]
        · have := ihy hnd'.2
          simp only [List.filter_cons, bne_iff_ne, ne_eq, hy, not_false_eq_true, if_true, List.length_cons]
          omega
    omega

theorem chain_length_le {g : Graph} (hwf : g.WF) (hac : g.Acyclic) (l : List Node) (a : Node)
    (h : Chain g a l) : l.length ≤ g.size :=
  nodup_length_le g.size l (chain_nodup hac l a h) (chain_lt hwf l a h)


/-- all chains of dependency edges below `node` are shorter than `fuel` -/
def Shallow (g : Graph) (node : Node) (fuel : Nat) : Prop :=
  ∀ l, Chain g node l → l.length < fuel

theorem shallow_child {g : Graph} {node : Node} {fuel : Nat} (h : Shallow g node (fuel + 1))
    {e : Edge} (he : e ∈ g.children node) : Shallow g e.node fuel := by
  intro l hl
  have := h (e.node :: l) ⟨⟨e, he, rfl, Or.inl rfl⟩, hl⟩
  simp at this
  omega


/-! ### reachability -/

theorem reach_refl (g : Graph) (a : Node) : Reach g a a := Or.inl rfl

theorem reach_trans {g : Graph} {a b c : Node} (h1 : Reach g a b) (h2 : Reach g b c) : Reach g a c := by
  rcases h1 with rfl | h1
  · exact h2
  · rcases h2 with rfl | h2
    · exact Or.inr h1
    · exact Or.inr (transGen_trans h1 h2)

theorem edge_true_of_edge {g : Graph} {qi : Bool} {a b : Node} (h : edge g qi a b) : edge g true a b := by
  obtain ⟨e, he, hn, _⟩ := h
  exact ⟨e, he, hn, Or.inl rfl⟩

theorem reach_of_edge {g : Graph} {qi : Bool} {a b : Node} (h : edge g qi a b) : Reach g a b :=
  Or.inr (.single (edge_true_of_edge h))

theorem reach_of_axisRel {g : Graph} {ax : Axis} {a b : Node} (h : axisRel g ax a b) : Reach g a b := by
  cases ax <;> simp only [axisRel] at h
  · exact Or.inl h
  · exact reach_of_edge h
  · exact Or.inr h
  · exact h
  · exact reach_of_edge h
  · exact Or.inr (transGen_mono (fun _ _ h => edge_true_of_edge h) h)
  · rcases h with h | h
    · exact Or.inl h
    · exact Or.inr (transGen_mono (fun _ _ h => edge_true_of_edge h) h)


/-! ### the memoised search of `__findIntermediateNodes` -/

theorem shallow_succ {g : Graph} {node c : Node} {fuel : Nat} (h : Shallow g node (fuel + 1))
    (he : edge g true node c) : Shallow g c fuel := by
  intro l hl
  have := h (c :: l) ⟨he, hl⟩
  simp at this
  omega

theorem shallow_of_acyclic {g : Graph} (hwf : g.WF) (hac : g.Acyclic) (a : Node) : Shallow g a (g.size + 1) := by
  intro l hl
  have := chain_length_le hwf hac l a hl
  omega

theorem transGen_head_iff {α : Type} {r : α → α → Prop} {a t : α} :
    Relation.TransGen r a t ↔ ∃ c, r a c ∧ (c = t ∨ Relation.TransGen r c t) := by
  constructor
  · intro h
    induction h with
    | single h => exact ⟨_, h, Or.inl rfl⟩
    | tail _ h2 ih =>
      obtain ⟨c, hc, hct⟩ := ih
      refine ⟨c, hc, Or.inr ?_⟩
      rcases hct with rfl | hct
      · exact .single h2
      · exact .tail hct h2
  · rintro ⟨c, hc, rfl | hct⟩
    · exact .single hc
    · exact transGen_head hc hct

/-- a `new` node is reachable from `n` by at least one edge -/
def Productive (g : Graph) (new : List Node) (qi : Bool) (n : Node) : Prop :=
  ∃ t ∈ new, Relation.TransGen (edge g qi) n t

/-- `b` is `a` or reachable from `a` by edges admitted by `qi` -/
def ReachQ (g : Graph) (qi : Bool) (a b : Node) : Prop := a = b ∨ Relation.TransGen (edge g qi) a b

theorem reachQ_step {g : Graph} {qi : Bool} {a b c : Node} (h : ReachQ g qi a b) (he : edge g qi b c) :
    ReachQ g qi a c := by
  rcases h with rfl | h
  · exact Or.inr (.single he)
  · exact Or.inr (.tail h he)

theorem reach_of_reachQ {g : Graph} {qi : Bool} {a b : Node} (h : ReachQ g qi a b) : Reach g a b := by
  rcases h with rfl | h
  · exact Or.inl rfl
  · exact Or.inr (transGen_mono (fun _ _ h => edge_true_of_edge h) h)

theorem productive_iff {g : Graph} {new : List Node} {qi : Bool} {n : Node} :
    Productive g new qi n ↔ ∃ c ∈ succs g qi n, (Productive g new qi c ∨ c ∈ new) := by
  constructor
  · rintro ⟨t, ht, h⟩
    obtain ⟨c, hc, hct⟩ := transGen_head_iff.mp h
    refine ⟨c, mem_succs.mpr hc, ?_⟩
    rcases hct with rfl | hct
    · exact Or.inr ht
    · exact Or.inl ⟨t, ht, hct⟩
  · rintro ⟨c, hc, ⟨t, ht, h⟩ | hcn⟩
    · exact ⟨t, ht, transGen_head (mem_succs.mp hc) h⟩
    · exact ⟨c, hcn, .single (mem_succs.mp hc)⟩

theorem memoGet_some {m : List (Node × Bool)} {k : Node} {b : Bool} (h : memoGet m k = some b) : (k, b) ∈ m := by
  unfold memoGet at h
  cases hf : m.find? (fun e => e.1 == k) with
  | none => simp [hf] at h
  | some e =>
    simp only [hf, Option.map_some, Option.some.injEq] at h
    have hmem := List.mem_of_find?_eq_some hf
    have hk : e.1 = k := by simpa using List.find?_some hf
    have : e = (k, b) := by cases e; simp_all
    rw [← this]; exact hmem

/-- the nodes of `intermediate` are reachable from the start nodes (for any fuel) -/
theorem traverse_inter (g : Graph) (new : List Node) (qi : Bool) (P : Node → Prop)
    (hP : ∀ a b, P a → edge g qi a b → P b) :
    ∀ (fuel : Nat) (node : Node) (st : TState), P node → (∀ y ∈ st.inter, P y) →
      ∀ y ∈ (traverse g new qi fuel node st).2.inter, P y := by
  intro fuel
  induction fuel with
  | zero => intro node st _ hst; simpa [traverse] using hst
  | succ fuel ih =>
    intro node st hnode hst
    simp only [traverse]
    split
    · exact hst
    · have hloop : ∀ (cs : List Node) (acc : Bool × TState), (∀ c ∈ cs, P c) → (∀ y ∈ acc.2.inter, P y) →
          ∀ y ∈ (cs.foldl (fun (acc : Bool × TState) c =>
              ((acc.1 || ((traverse g new qi fuel c acc.2).1 || new.contains c)), (traverse g new qi fuel c acc.2).2)) acc).2.inter, P y := by
        intro cs
        induction cs with
        | nil => intro acc _ h; simpa using h
        | cons c cs ihc =>
          intro acc hcs h
          simp only [List.foldl_cons]
          apply ihc _ (fun c' hc' => hcs c' (List.mem_cons_of_mem _ hc'))
          exact ih c acc.2 (hcs c (List.mem_cons.mpr (Or.inl rfl))) h
      have := hloop (succs g qi node) (false, st) (fun c hc => hP node c hnode (mem_succs.mp hc)) hst
      intro y hy
      simp only at hy
      split at hy
      · rcases List.mem_cons.mp hy with rfl | hy'
        · exact hnode
        · exact this y hy'
      · exact this y hy

theorem findIntermediateNodes_reach (g : Graph) (old new : List Node) (qi : Bool) :
    ∀ y ∈ findIntermediateNodes g old new qi, ∃ o ∈ old, Reach g o y := by
  intro y hy
  unfold findIntermediateNodes at hy
  split at hy
  · cases hy
  · have hloop : ∀ (os : List Node) (s : TState),
        (∀ o ∈ os, o ∈ old) → (∀ y ∈ s.inter, ∃ o ∈ old, Reach g o y) →
        ∀ y ∈ (os.foldl (fun st n => (traverse g new qi (g.size + 1) n st).2) s).inter, ∃ o ∈ old, Reach g o y := by
      intro os
      induction os with
      | nil => intro s _ hs; simpa using hs
      | cons o os iho =>
        intro s hos hs
        simp only [List.foldl_cons]
        apply iho _ (fun o' ho' => hos o' (List.mem_cons_of_mem _ ho'))
        exact traverse_inter g new qi (fun y => ∃ o ∈ old, Reach g o y)
          (fun a b ⟨o, ho, hr⟩ he => ⟨o, ho, reach_trans hr (reach_of_edge he)⟩)
          _ o s ⟨o, hos o (List.mem_cons.mpr (Or.inl rfl)), reach_refl g o⟩ hs
    exact hloop old { reaching := [], inter := [] } (fun _ h => h) (by simp) y hy

/-- invariant of the memo table -/
structure TInv (g : Graph) (old new : List Node) (qi : Bool) (st : TState) : Prop where
  correct : ∀ e ∈ st.reaching, (e.2 = true ↔ Productive g new qi e.1)
  fromOld : ∀ e ∈ st.reaching, ∃ o ∈ old, ReachQ g qi o e.1
  closed : ∀ e ∈ st.reaching, ∀ c ∈ succs g qi e.1, ∃ b, (c, b) ∈ st.reaching
  inter_iff : ∀ n, n ∈ st.inter ↔ (n, true) ∈ st.reaching

/-- the step function of the loop in `traverse` -/
def tstep (g : Graph) (new : List Node) (qi : Bool) (fuel : Nat) (acc : Bool × TState) (c : Node) : Bool × TState :=
  ((acc.1 || ((traverse g new qi fuel c acc.2).1 || new.contains c)), (traverse g new qi fuel c acc.2).2)

theorem traverse_spec (g : Graph) (old new : List Node) (qi : Bool) :
    ∀ (fuel : Nat) (node : Node) (st : TState), Shallow g node fuel → (∃ o ∈ old, ReachQ g qi o node) →
      TInv g old new qi st →
      TInv g old new qi (traverse g new qi fuel node st).2 ∧
      (∀ e ∈ st.reaching, e ∈ (traverse g new qi fuel node st).2.reaching) ∧
      (∃ b, (node, b) ∈ (traverse g new qi fuel node st).2.reaching) ∧
      ((traverse g new qi fuel node st).1 = true ↔ Productive g new qi node) := by
  intro fuel
  induction fuel with
  | zero =>
    intro node st hsh
    have := hsh [] trivial
    simp at this
  | succ fuel ih =>
    intro node st hsh hnode hinv
    simp only [traverse]
    cases hm : memoGet st.reaching node with
    | some r =>
      have hmem := memoGet_some hm
      exact ⟨hinv, fun _ h => h, ⟨r, hmem⟩, hinv.correct _ hmem⟩
    | none =>
      simp only
      -- the loop over the successors
      have hloop : ∀ (cs : List Node) (acc : Bool × TState), (∀ c ∈ cs, c ∈ succs g qi node) →
          TInv g old new qi acc.2 →
          TInv g old new qi (cs.foldl (tstep g new qi fuel) acc).2 ∧
          (∀ e ∈ acc.2.reaching, e ∈ (cs.foldl (tstep g new qi fuel) acc).2.reaching) ∧
          (∀ c ∈ cs, ∃ b, (c, b) ∈ (cs.foldl (tstep g new qi fuel) acc).2.reaching) ∧
          ((cs.foldl (tstep g new qi fuel) acc).1 = true ↔
            acc.1 = true ∨ ∃ c ∈ cs, (Productive g new qi c ∨ c ∈ new)) := by
        intro cs
        induction cs with
        | nil => intro acc _ hi; exact ⟨hi, fun _ h => h, by simp, by simp⟩
        | cons c cs ihc =>
          intro acc hcs hi
          simp only [List.foldl_cons]
          have hc := hcs c (List.mem_cons.mpr (Or.inl rfl))
          have hedge := mem_succs.mp hc
          obtain ⟨o, ho, hro⟩ := hnode
          obtain ⟨h1, h2, h3, h4⟩ := ih c acc.2 (shallow_succ hsh (edge_true_of_edge hedge))
            ⟨o, ho, reachQ_step hro hedge⟩ hi
          obtain ⟨k1, k2, k3, k4⟩ := ihc (tstep g new qi fuel acc c)
            (fun c' hc' => hcs c' (List.mem_cons_of_mem _ hc')) h1
          refine ⟨k1, fun e he => k2 e (h2 e he), ?_, ?_⟩
          · intro c' hc'
            rcases List.mem_cons.mp hc' with rfl | hc''
            · obtain ⟨b, hb⟩ := h3
              exact ⟨b, k2 _ hb⟩
            · exact k3 c' hc''
          · rw [k4]
            simp only [tstep, Bool.or_eq_true, h4, List.contains_eq_mem, decide_eq_true_eq, List.mem_cons,
              exists_eq_or_imp]
            constructor
            · rintro ((h | h) | h)
              · exact Or.inl h
              · exact Or.inr (Or.inl h)
              · exact Or.inr (Or.inr h)
            · rintro (h | h | h)
              · exact Or.inl (Or.inl h)
              · exact Or.inl (Or.inr h)
              · exact Or.inr h
      have hfold : (succs g qi node).foldl
          (fun (acc : Bool × TState) c =>
            ((acc.1 || ((traverse g new qi fuel c acc.2).1 || new.contains c)), (traverse g new qi fuel c acc.2).2))
          (false, st) = (succs g qi node).foldl (tstep g new qi fuel) (false, st) := rfl
      rw [hfold]
      obtain ⟨l1, l2, l3, l4⟩ := hloop (succs g qi node) (false, st) (fun _ h => h) hinv
      generalize (succs g qi node).foldl (tstep g new qi fuel) (false, st) = res at l1 l2 l3 l4
      have hres : res.1 = true ↔ Productive g new qi node := by
        rw [l4, productive_iff]; simp
      refine ⟨⟨?_, ?_, ?_, ?_⟩, ?_, ⟨res.1, List.mem_cons.mpr (Or.inl rfl)⟩, hres⟩
      · intro e he
        rcases List.mem_cons.mp he with rfl | he'
        · exact hres
        · exact l1.correct e he'
      · intro e he
        rcases List.mem_cons.mp he with rfl | he'
        · exact hnode
        · exact l1.fromOld e he'
      · intro e he c hc
        rcases List.mem_cons.mp he with rfl | he'
        · obtain ⟨b, hb⟩ := l3 c hc
          exact ⟨b, List.mem_cons_of_mem _ hb⟩
        · obtain ⟨b, hb⟩ := l1.closed e he' c hc
          exact ⟨b, List.mem_cons_of_mem _ hb⟩
      · intro n
        by_cases hr : res.1 = true
        · simp only [hr, if_true, List.mem_cons, Prod.mk.injEq, and_true, l1.inter_iff n]
        · have hr' : res.1 = false := by simpa using hr
          simp only [hr', Bool.false_eq_true, if_false, List.mem_cons, Prod.mk.injEq, l1.inter_iff n]
          simp
      · intro e he
        exact List.mem_cons_of_mem _ (l2 e he)

/-- **`__findIntermediateNodes`** (when `old` is no superset of `new`): exactly the nodes reachable from
`old` from which a `new` node is reachable -/
theorem findIntermediateNodes_spec {g : Graph} (hwf : g.WF) (hac : g.Acyclic) (old new : List Node) (qi : Bool)
    (hsup : superset old new = false) (y : Node) :
    y ∈ findIntermediateNodes g old new qi ↔ (∃ o ∈ old, ReachQ g qi o y) ∧ Productive g new qi y := by
  unfold findIntermediateNodes
  simp only [hsup, Bool.false_eq_true, if_false]
  have hloop : ∀ (os : List Node) (s : TState), (∀ o ∈ os, o ∈ old) → TInv g old new qi s →
      TInv g old new qi (os.foldl (fun st n => (traverse g new qi (g.size + 1) n st).2) s) ∧
      (∀ e ∈ s.reaching, e ∈ (os.foldl (fun st n => (traverse g new qi (g.size + 1) n st).2) s).reaching) ∧
      (∀ o ∈ os, ∃ b, (o, b) ∈ (os.foldl (fun st n => (traverse g new qi (g.size + 1) n st).2) s).reaching) := by
    intro os
    induction os with
    | nil => intro s _ hi; exact ⟨hi, fun _ h => h, by simp⟩
    | cons o os iho =>
      intro s hos hi
      simp only [List.foldl_cons]
      obtain ⟨h1, h2, h3, _⟩ := traverse_spec g old new qi (g.size + 1) o s (shallow_of_acyclic hwf hac o)
        ⟨o, hos o (List.mem_cons.mpr (Or.inl rfl)), Or.inl rfl⟩ hi
      obtain ⟨k1, k2, k3⟩ := iho _ (fun o' ho' => hos o' (List.mem_cons_of_mem _ ho')) h1
      refine ⟨k1, fun e he => k2 e (h2 e he), ?_⟩
      intro o' ho'
      rcases List.mem_cons.mp ho' with rfl | ho''
      · obtain ⟨b, hb⟩ := h3
        exact ⟨b, k2 _ hb⟩
      · exact k3 o' ho''
  obtain ⟨hinv, _, hdom⟩ := hloop old { reaching := [], inter := [] } (fun _ h => h)
    ⟨by simp, by simp, by simp, by simp⟩
  generalize old.foldl (fun st n => (traverse g new qi (g.size + 1) n st).2) { reaching := [], inter := [] } = fin
    at hinv hdom
  constructor
  · intro hy
    have hmem := (hinv.inter_iff y).mp hy
    exact ⟨hinv.fromOld _ hmem, (hinv.correct _ hmem).mp rfl⟩
  · rintro ⟨⟨o, ho, hr⟩, hprod⟩
    -- every node reachable from `old` is in the table
    have hin : ∃ b, (y, b) ∈ fin.reaching := by
      clear hprod
      rcases hr with rfl | hr
      · exact hdom _ ho
      · induction hr with
        | single he =>
          obtain ⟨b, hb⟩ := hdom _ ho
          exact hinv.closed _ hb _ (mem_succs.mpr he)
        | tail _ he ih =>
          obtain ⟨b, hb⟩ := ih
          exact hinv.closed _ hb _ (mem_succs.mpr he)
    obtain ⟨b, hb⟩ := hin
    have hbt : b = true := (hinv.correct _ hb).mpr hprod
    subst hbt
    exact (hinv.inter_iff y).mpr hb

end PathSpec
