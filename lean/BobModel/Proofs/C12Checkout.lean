import BobModel.Model.Checkout
/-
Helper lemmas for C12 about the builder level model: which micro-ops a run emits
(`Ext`), how the set of directories follows from them (`replay`), and that work items
located in SCM directories survive (`Keeps`).
-/
namespace Checkout

variable {σ κ ι : Type}

/-! ### basic file system lemmas -/

def locs (fs : List (Loc × κ)) : List Loc := fs.map (·.1)

theorem contentAt_some_mem {fs : List (Loc × κ)} {l : Loc} {k : κ} (h : contentAt fs l = some k) :
    (l, k) ∈ fs := by
  unfold contentAt at h
  cases hf : fs.find? (fun e => e.1 == l) with
  | none => simp [hf] at h
  | some e =>
    simp only [hf, Option.map_some, Option.some.injEq] at h
    have hm := List.mem_of_find?_eq_some hf
    have hp := List.find?_some hf
    simp only [beq_iff_eq] at hp
    obtain ⟨l', k'⟩ := e
    simp only at hp h
    subst hp; subst h
    exact hm

theorem mem_setContent {fs : List (Loc × κ)} {l l' : Loc} {k0 k' : κ} (h : (l, k0) ∈ fs) :
    (l, k0) ∈ setContent fs l' k' ∨ (l = l' ∧ contentAt fs l' = some k0) := by
  induction fs with
  | nil => cases h
  | cons e rest ih =>
    unfold setContent
    by_cases he : (e.1 == l') = true
    · simp only [he, if_true]
      rcases List.mem_cons.mp h with h1 | h1
      · right
        have : e.1 = l' := by simpa using he
        subst h1
        simp only at this
        refine ⟨this, ?_⟩
        simp [contentAt, List.find?, this]
      · left; exact List.mem_cons_of_mem _ h1
    · simp only [he]
      rcases List.mem_cons.mp h with h1 | h1
      · left; subst h1; exact List.mem_cons_self
      · rcases ih h1 with h2 | ⟨h2, h3⟩
        · left; exact List.mem_cons_of_mem _ h2
        · right
          refine ⟨h2, ?_⟩
          have he' : (e.1 == l') = false := by simpa using he
          simpa [contentAt, List.find?, he'] using h3

theorem setContent_mem (fs : List (Loc × κ)) (l : Loc) (k : κ) : (l, k) ∈ setContent fs l k := by
  induction fs with
  | nil => simp [setContent]
  | cons e rest ih =>
    unfold setContent
    by_cases he : (e.1 == l) = true
    · simp [he]
    · simp only [he]
      exact List.mem_cons_of_mem _ ih

theorem mem_setContent_inv {fs : List (Loc × κ)} {l l' : Loc} {k k' : κ}
    (h : (l, k) ∈ setContent fs l' k') : (l, k) ∈ fs ∨ l = l' := by
  induction fs with
  | nil => simp [setContent] at h; exact Or.inr h.1
  | cons e rest ih =>
    unfold setContent at h
    split at h
    · rcases List.mem_cons.mp h with h1 | h1
      · right; cases h1; rfl
      · left; exact List.mem_cons_of_mem _ h1
    · rcases List.mem_cons.mp h with h1 | h1
      · left; rw [h1]; exact List.mem_cons_self
      · rcases ih h1 with h2 | h2
        · left; exact List.mem_cons_of_mem _ h2
        · right; exact h2

theorem locs_setContent (fs : List (Loc × κ)) (l : Loc) (k : κ) :
    locs (setContent fs l k) = if (locs fs).contains l then locs fs else locs fs ++ [l] := by
  induction fs with
  | nil => simp [setContent, locs]
  | cons e rest ih =>
    unfold setContent
    by_cases he : (e.1 == l) = true
    · have : e.1 = l := by simpa using he
      simp [he, locs, this]
    · have he' : ¬ e.1 = l := by simpa using he
      have he'' : ¬ l = e.1 := fun h => he' h.symm
      simp only [he, locs, List.map_cons] at ih ⊢
      simp only [Bool.false_eq_true, if_false, List.map_cons, List.contains_cons]
      unfold locs at ih
      rw [ih]
      have : (l == e.1) = false := by simpa using he''
      simp only [this, Bool.false_or]
      split <;> simp

theorem contentAt_some_contains {fs : List (Loc × κ)} {l : Loc} {k : κ} (h : contentAt fs l = some k) :
    (locs fs).contains l = true := by
  have := contentAt_some_mem h
  simp only [locs, List.contains_iff_mem, List.mem_map]
  exact ⟨(l, k), this, rfl⟩

theorem contentAt_none_contains {fs : List (Loc × κ)} {l : Loc} (h : contentAt fs l = none) :
    (locs fs).contains l = false := by
  unfold contentAt at h
  simp only [Option.map_eq_none_iff, List.find?_eq_none, beq_iff_eq] at h
  rw [Bool.eq_false_iff]
  intro hc
  simp only [locs, List.contains_iff_mem, List.mem_map] at hc
  obtain ⟨e, he, hl⟩ := hc
  exact h e he hl

/-! ### the micro-op log determines the directories -/

def applyLoc (l : List Loc) : Op σ → List Loc
  | .moveToAttic p n => l.map (moveLoc p n)
  | .emptyDir p => l.filter (fun x => !(x.under (.ws p) && x != .ws p))
  | .rmAttic n sub => l.filter (fun x => !x.under (.attic n sub))
  | .rmWorkspace => l.filter (fun x => match x with | .ws _ => false | _ => true)
  | .invoke p _ _ => if l.contains (.ws p) then l else l ++ [.ws p]
  | _ => l

/-- replay a log (newest first) on a set of directories -/
def replay (added : List (Op σ)) (l : List Loc) : List Loc :=
  added.foldr (fun op acc => applyLoc acc op) l

theorem replay_append (a b : List (Op σ)) (l : List Loc) : replay (a ++ b) l = replay a (replay b l) := by
  simp [replay, List.foldr_append]

theorem locs_applyOp (fs : List (Loc × κ)) (op : Op σ) (h : ∀ p f ok, op ≠ .invoke p f ok) :
    locs (applyOp fs op) = applyLoc (locs fs) op := by
  cases op with
  | moveToAttic p n => simp [applyOp, applyLoc, locs, List.map_map, Function.comp_def]
  | emptyDir p => simp [applyOp, applyLoc, locs, List.filter_map, Function.comp_def]
  | rmAttic n sub => simp [applyOp, applyLoc, locs, List.filter_map, Function.comp_def]
  | rmWorkspace => simp [applyOp, applyLoc, locs, List.filter_map, Function.comp_def]; rfl
  | invoke p f ok => exact absurd rfl (h p f ok)
  | scmSwitch p ok => simp [applyOp, applyLoc]
  | regAttic n sub s => simp [applyOp, applyLoc]
  | setDirState d => simp [applyOp, applyLoc]

/-- which ops a step may emit; `lo`/`hi` bound the attic numbers used -/
def Allowed (sem : ScmSem σ κ) (new : List (NewEntry σ)) (lo hi : Nat) : Op σ → Prop
  | .rmAttic _ _ => False
  | .rmWorkspace => False
  | .emptyDir p => ∃ n, n ∈ new ∧ sem.prunes n.spec = true ∧ normComps n.dir = p
  | .moveToAttic _ n => lo ≤ n ∧ n < hi
  | _ => True

theorem Allowed.mono {sem : ScmSem σ κ} {new : List (NewEntry σ)} {lo hi lo' hi' : Nat} {op : Op σ}
    (h : Allowed sem new lo hi op) (h1 : lo' ≤ lo) (h2 : hi ≤ hi') : Allowed sem new lo' hi' op := by
  cases op <;> simp only [Allowed] at h ⊢ <;> first | exact h | omega

/-- every attic directory that exists has a number below the next fresh one -/
def AtticBelow (st : St σ κ) : Prop :=
  ∀ n p k, (Loc.attic n p, k) ∈ st.fs → n < st.nextAttic

/-- `st'` extends `st`: the log grew by allowed ops only, the directories follow the log, attic
numbers grow and stay fresh -/
def Ext (sem : ScmSem σ κ) (new : List (NewEntry σ)) (st st' : St σ κ) : Prop :=
  st.nextAttic ≤ st'.nextAttic ∧ (AtticBelow st → AtticBelow st') ∧
  ∃ added, st'.ops = added ++ st.ops ∧ locs st'.fs = replay added (locs st.fs) ∧
    ∀ op, op ∈ added → Allowed sem new st.nextAttic st'.nextAttic op

theorem Ext.refl (sem : ScmSem σ κ) (new : List (NewEntry σ)) (st : St σ κ) : Ext sem new st st :=
  ⟨Nat.le_refl _, id, [], by simp, by simp [replay], by simp⟩

theorem Ext.trans {sem : ScmSem σ κ} {new : List (NewEntry σ)} {a b c : St σ κ}
    (h1 : Ext sem new a b) (h2 : Ext sem new b c) : Ext sem new a c := by
  obtain ⟨hn1, hb1, ad1, ho1, hl1, hp1⟩ := h1
  obtain ⟨hn2, hb2, ad2, ho2, hl2, hp2⟩ := h2
  refine ⟨Nat.le_trans hn1 hn2, fun h => hb2 (hb1 h), ad2 ++ ad1, by rw [ho2, ho1, List.append_assoc], ?_, ?_⟩
  · rw [hl2, hl1, replay_append]
  · intro op hop
    rcases List.mem_append.mp hop with h | h
    · exact (hp2 op h).mono hn1 (Nat.le_refl _)
    · exact (hp1 op h).mono (Nat.le_refl _) hn2

/-- a state change that touches neither log, directories nor attic counter -/
theorem ext_of_same {sem : ScmSem σ κ} {new : List (NewEntry σ)} {a b : St σ κ}
    (h1 : b.ops = a.ops) (h2 : b.fs = a.fs) (h3 : b.nextAttic = a.nextAttic) : Ext sem new a b :=
  ⟨by omega, by
    intro hb n p k hm
    rw [h2] at hm; rw [h3]; exact hb n p k hm, [], by simp [h1], by simp [replay, h2], by simp⟩

theorem applyOp_sub (fs : List (Loc × κ)) (op : Op σ) (h : ∀ p n, op ≠ .moveToAttic p n)
    (e : Loc × κ) (he : e ∈ applyOp fs op) : e ∈ fs := by
  cases op with
  | moveToAttic p n => exact absurd rfl (h p n)
  | emptyDir p => exact (List.mem_filter.mp he).1
  | rmAttic n sub => exact (List.mem_filter.mp he).1
  | rmWorkspace => exact (List.mem_filter.mp he).1
  | scmSwitch p ok => exact he
  | regAttic n sub s => exact he
  | setDirState d => exact he
  | invoke p f ok => exact he

theorem ext_emit {sem : ScmSem σ κ} {new : List (NewEntry σ)} (op : Op σ) (st : St σ κ)
    (h : ∀ p f ok, op ≠ .invoke p f ok) (ha : Allowed sem new st.nextAttic st.nextAttic op) :
    Ext sem new st (emit op st) :=
  ⟨Nat.le_refl _, by
    intro hb n p k hm
    by_cases hmv : ∃ q m, op = .moveToAttic q m
    · obtain ⟨q, m, rfl⟩ := hmv
      simp [Allowed] at ha; omega
    · exact hb n p k (applyOp_sub st.fs op (fun q m he => hmv ⟨q, m, he⟩) _ hm), [op], rfl, by simp [replay, Checkout.emit, locs_applyOp _ _ h], by
    intro o ho; simp only [List.mem_singleton] at ho; subst ho; exact ha⟩

theorem ext_persist {sem : ScmSem σ κ} {new : List (NewEntry σ)} (st : St σ κ) :
    Ext sem new st (persist st) :=
  ext_emit _ st (by intros; simp) (by simp [Allowed])

theorem ext_dropOld {sem : ScmSem σ κ} {new : List (NewEntry σ)} (d : String) (st : St σ κ) :
    Ext sem new st (dropOld d st) :=
  (ext_of_same (b := { st with old := eraseDir st.old d }) rfl rfl rfl).trans (ext_persist _)

theorem ext_moveAway {sem : ScmSem σ κ} {new : List (NewEntry σ)} (e : OldEntry σ) (p : Comps) (st : St σ κ) :
    Ext sem new st (moveAway e p st) := by
  unfold moveAway
  refine ⟨by simp [Checkout.emit], ?_, [.regAttic st.nextAttic [] e.spec, .moveToAttic p st.nextAttic], ?_, ?_, ?_⟩
  · intro hb n q k hm
    simp only [Checkout.emit, applyOp, List.mem_map] at hm
    obtain ⟨⟨l0, k0⟩, hm0, he⟩ := hm
    simp only [Prod.mk.injEq] at he
    cases l0 with
    | attic m r =>
      simp only [moveLoc, Loc.attic.injEq] at he
      have := hb m r k0 hm0
      simp only [Checkout.emit]; omega
    | ws r =>
      simp only [moveLoc] at he
      split at he
      · simp only [Loc.attic.injEq] at he; simp only [Checkout.emit]; omega
      · cases he.1
  · simp [Checkout.emit]
  · simp [Checkout.emit, replay, applyLoc, applyOp, locs, List.map_map, Function.comp_def]
  · intro op hop
    simp only [List.mem_cons, List.mem_nil_iff, or_false] at hop
    rcases hop with h | h <;> subst h <;> simp [Allowed, Checkout.emit]

theorem ext_trySwitch {sem : ScmSem σ κ} {new : List (NewEntry σ)} (e : OldEntry σ) (p : Comps) (st : St σ κ) :
    Ext sem new st (trySwitch sem new e p st).1 := by
  unfold trySwitch
  cases findNew new e.dir with
  | none => exact Ext.refl _ _ _
  | some n =>
    simp only
    cases e.spec with
    | none => exact Ext.refl _ _ _
    | some os =>
      simp only
      split
      · cases hk : contentAt st.fs (.ws p) with
        | some k =>
          refine ⟨Nat.le_refl _, ?_, [.scmSwitch p _], rfl, ?_, ?_⟩
          · intro hb n q k1 hm
            simp only [emitSet] at hm
            rcases mem_setContent_inv hm with h1 | h1
            · exact hb n q k1 h1
            · cases h1
          · simp only [emitSet, replay, List.foldr_cons, List.foldr_nil, applyLoc]
            rw [locs_setContent, contentAt_some_contains hk]; simp
          · intro o ho; simp only [List.mem_singleton] at ho; subst ho; simp [Allowed]
        | none => exact ext_emit _ st (by intros; simp) (by simp [Allowed])
      · exact Ext.refl _ _ _

theorem ext_setOld_persist {sem : ScmSem σ κ} {new : List (NewEntry σ)} (st : St σ κ) (n : NewEntry σ) :
    Ext sem new st (persist { st with old := setOld st.old n }) :=
  (ext_of_same (b := { st with old := setOld st.old n }) rfl rfl rfl).trans (ext_persist _)

theorem ext_invalidate {sem : ScmSem σ κ} {new : List (NewEntry σ)} (e : OldEntry σ) (st : St σ κ) :
    Ext sem new st (invalidate e st) := by
  unfold invalidate
  split
  · have h1 : Ext sem new st
        { st with old := st.old.map (fun o => if o.dir == e.dir then { o with digest := none } else o) } :=
      ext_of_same rfl rfl rfl
    exact h1.trans (ext_persist _)
  · exact Ext.refl _ _ _

theorem fs_invalidate (e : OldEntry σ) (st : St σ κ) :
    (invalidate e st).fs = st.fs ∧ (invalidate e st).wsMissing = st.wsMissing ∧
    (invalidate e st).nextAttic = st.nextAttic ∧ (invalidate e st).plain = st.plain := by
  unfold invalidate
  split <;> exact ⟨rfl, rfl, rfl, rfl⟩

theorem ext_changedStep {sem : ScmSem σ κ} {new : List (NewEntry σ)} (ae : Bool) (st st' : St σ κ)
    (tr tr' : List (Comps × Nat)) (e : OldEntry σ)
    (h : changedStep sem ae new st tr e = .ok (st', tr')) : Ext sem new st st' := by
  unfold changedStep at h
  simp only at h
  split at h
  · split at h
    · simp only [Except.ok.injEq, Prod.mk.injEq] at h
      rw [← h.1]
      exact (ext_trySwitch e (normComps e.dir) st).trans (ext_setOld_persist _ _)
    · simp only [Except.ok.injEq, Prod.mk.injEq] at h
      rw [← h.1]; exact ext_trySwitch e _ st
  · split at h
    · split at h
      · cases h
      · simp only [Except.ok.injEq, Prod.mk.injEq] at h
        rw [← h.1]
        exact (ext_trySwitch e _ st).trans ((ext_moveAway e _ _).trans (ext_dropOld _ _))
    · simp only [Except.ok.injEq, Prod.mk.injEq] at h
      rw [← h.1]
      exact (ext_trySwitch e _ st).trans (ext_dropOld _ _)

theorem ext_loopStep {sem : ScmSem σ κ} {new : List (NewEntry σ)} (ae : Bool) (st st' : St σ κ)
    (tr tr' : List (Comps × Nat)) (e : OldEntry σ)
    (h : loopStep sem ae new st tr e = .ok (st', tr')) : Ext sem new st st' := by
  unfold loopStep at h
  simp only at h
  split at h
  · simp only [Except.ok.injEq, Prod.mk.injEq] at h
    obtain ⟨h, _⟩ := h
    subst h
    split
    · exact ((ext_of_same rfl rfl rfl).trans (ext_emit _ _ (by intros; simp) (by simp [Allowed]))).trans
        (ext_dropOld _ _)
    · exact ext_dropOld _ _
  · split at h
    · simp only [Except.ok.injEq, Prod.mk.injEq] at h
      rw [← h.1]; exact Ext.refl _ _ _
    · exact (ext_invalidate e st).trans (ext_changedStep ae _ st' tr tr' e h)

theorem ext_loopAll {sem : ScmSem σ κ} {new : List (NewEntry σ)} (ae : Bool) :
    ∀ (es : List (OldEntry σ)) (st : St σ κ) (tr : List (Comps × Nat)),
      Ext sem new st (loopAll sem ae new es st tr).1 := by
  intro es
  induction es with
  | nil => intro st tr; exact Ext.refl _ _ _
  | cons e rest ih =>
    intro st tr
    unfold Checkout.loopAll
    cases h : loopStep sem ae new st tr e with
    | error x => exact (ext_invalidate e st).trans (ext_trySwitch e _ _)
    | ok v =>
      obtain ⟨st', tr'⟩ := v
      exact (ext_loopStep ae st st' tr tr' e h).trans (ih st' tr')

theorem ext_runScm {sem : ScmSem σ κ} {new : List (NewEntry σ)} (n : NewEntry σ) (hn : n ∈ new) (st : St σ κ) :
    Ext sem new st (runScm sem n st).1 := by
  unfold Checkout.runScm
  simp only
  have hinv : ∀ s : St σ κ, Ext sem new s
      (emitSet (.invoke (normComps n.dir) (contentAt s.fs (.ws (normComps n.dir))).isNone
        (sem.invoke n.spec (contentAt s.fs (.ws (normComps n.dir)))).2) (normComps n.dir)
        (sem.invoke n.spec (contentAt s.fs (.ws (normComps n.dir)))).1 s) := by
    intro s
    refine ⟨Nat.le_refl _, ?_, [.invoke _ _ _], rfl, ?_, ?_⟩
    · intro hb m q k1 hm
      simp only [emitSet] at hm
      rcases mem_setContent_inv hm with h1 | h1
      · exact hb m q k1 h1
      · cases h1
    · simp only [emitSet, replay, List.foldr_cons, List.foldr_nil, applyLoc]
      exact locs_setContent _ _ _
    · intro o ho; simp only [List.mem_singleton] at ho; subst ho; simp [Allowed]
  split
  · exact ((ext_of_same rfl rfl rfl).trans
      (ext_emit (.emptyDir (normComps n.dir)) _ (by intros; simp) (by
        simp only [Allowed]; exact ⟨n, hn, by assumption, rfl⟩))).trans (hinv _)
  · exact (ext_of_same (b := { st with wsMissing := false }) rfl rfl rfl).trans (hinv _)

theorem ext_runScms {sem : ScmSem σ κ} {new : List (NewEntry σ)} :
    ∀ (ns : List (NewEntry σ)), (∀ n, n ∈ ns → n ∈ new) → ∀ (st : St σ κ), Ext sem new st (runScms sem ns st).1 := by
  intro ns
  induction ns with
  | nil => intro _ st; exact Ext.refl _ _ _
  | cons n rest ih =>
    intro hsub st
    unfold Checkout.runScms
    have h1 := ext_runScm (sem := sem) (new := new) n (hsub n List.mem_cons_self) st
    cases h : Checkout.runScm sem n st with
    | mk st' ok =>
      rw [h] at h1
      cases ok with
      | true => exact h1.trans (ih (fun m hm => hsub m (List.mem_cons_of_mem _ hm)) st')
      | false => exact h1

theorem markComplete_fields (r : St σ κ × Option Err) :
    (markComplete r).1.fs = r.1.fs ∧ (markComplete r).1.ops = r.1.ops ∧ (markComplete r).1.nextAttic = r.1.nextAttic ∧
    (markComplete r).1.old = r.1.old ∧ (markComplete r).1.wsMissing = r.1.wsMissing ∧ (markComplete r).2 = r.2 := by
  unfold markComplete
  cases r.2 <;> simp

theorem ext_finish {sem : ScmSem σ κ} {new : List (NewEntry σ)} (st1 : St σ κ) :
    Ext sem new st1
      (markComplete (runScms sem new (emit (.setDirState (new.map (·.dir)))
        { st1 with old := new.map asOld, complete := false }))).1 :=
  (((ext_of_same (b := { st1 with old := new.map asOld, complete := false }) rfl rfl rfl).trans
    (ext_emit (.setDirState (new.map (·.dir))) _ (by intros; simp) (by simp [Allowed]))).trans
    (ext_runScms new (fun _ h => h) _)).trans
    (ext_of_same (markComplete_fields _).2.1 (markComplete_fields _).1 (markComplete_fields _).2.2.1)

theorem ext_cook (sem : ScmSem σ κ) (fl : Flags) (indet : Bool) (new : List (NewEntry σ)) (st0 : St σ κ) :
    Ext sem new st0 (cook sem fl indet new st0).1 := by
  unfold Checkout.cook
  simp only
  generalize hst0 : (if st0.wsMissing = true then { st0 with wsMissing := false, old := [], plain := [], complete := false } else st0) = sta
  have ha : Ext sem new st0 sta := by
    subst hst0; split
    · exact ext_of_same rfl rfl rfl
    · exact Ext.refl _ _ _
  generalize hstb : (if fl.cleanCheckout = true then cleanInvalidate sem new sta else sta) = stb
  have hb : Ext sem new sta stb := by
    subst hstb; split
    · exact ext_of_same rfl rfl rfl
    · exact Ext.refl _ _ _
  split
  · exact ha.trans hb
  · have hl := ext_loopAll (sem := sem) (new := new) fl.atticEnabled (sortedOld stb.old) stb []
    cases h : Checkout.loopAll sem fl.atticEnabled new (sortedOld stb.old) stb [] with
    | mk st1 err =>
      have hl' : Ext sem new stb st1 := by simpa [h] using hl
      cases err with
      | some x => exact (ha.trans hb).trans hl'
      | none =>
        simp only
        split
        · exact (ha.trans hb).trans hl'
        · exact ((ha.trans hb).trans hl').trans (ext_finish st1)

/-! ### user work survives -/

/-- the work item `i` is found in some SCM directory -/
def Present (work : κ → ι → Prop) (fs : List (Loc × κ)) (i : ι) : Prop :=
  ∃ l k, (l, k) ∈ fs ∧ work k i

/-- what the builder needs from the SCMs: runs keep the work items of a content -/
structure SemKeeps (sem : ScmSem σ κ) (work : κ → ι → Prop) : Prop where
  switch_keeps : ∀ o n k i, work k i → work (sem.switch o n k).1 i
  invoke_keeps : ∀ s k i, work k i → work (sem.invoke s (some k)).1 i

/-- `i` is present, and if its directory is in the workspace it was there with `i` in `fs0` too -/
def PresentAt (work : κ → ι → Prop) (fs0 fs : List (Loc × κ)) (i : ι) : Prop :=
  ∃ l k, (l, k) ∈ fs ∧ work k i ∧ ∀ p, l = .ws p → ∃ k0, (Loc.ws p, k0) ∈ fs0 ∧ work k0 i

/-- the only way a checkout run loses `i`: it lay strictly below the directory of an import SCM
with `prune` (the recipe parser rejects git SCMs with a Jenkins plugin there) -/
def PrunedBelow (sem : ScmSem σ κ) (work : κ → ι → Prop) (new : List (NewEntry σ)) (fs0 : List (Loc × κ)) (i : ι) : Prop :=
  ∃ n, n ∈ new ∧ sem.prunes n.spec = true ∧
    ∃ p k0, (Loc.ws p, k0) ∈ fs0 ∧ work k0 i ∧ isPrefix (normComps n.dir) p = true ∧ p ≠ normComps n.dir

def J (sem : ScmSem σ κ) (work : κ → ι → Prop) (new : List (NewEntry σ)) (fs0 : List (Loc × κ)) (i : ι)
    (fs : List (Loc × κ)) : Prop :=
  PresentAt work fs0 fs i ∨ PrunedBelow sem work new fs0 i

variable {sem : ScmSem σ κ} {work : κ → ι → Prop} {new : List (NewEntry σ)} {fs0 : List (Loc × κ)} {i : ι}

theorem J_setContent (fs : List (Loc × κ)) (p : Comps) (k' : κ)
    (hk : ∀ k, contentAt fs (.ws p) = some k → work k i → work k' i)
    (h : J sem work new fs0 i fs) : J sem work new fs0 i (setContent fs (.ws p) k') := by
  rcases h with ⟨l, k, hm, hw, ho⟩ | h
  · left
    rcases mem_setContent (l' := .ws p) (k' := k') hm with h1 | ⟨h1, h2⟩
    · exact ⟨l, k, h1, hw, ho⟩
    · exact ⟨.ws p, k', setContent_mem _ _ _, hk k h2 hw, fun q hq => ho q (h1.trans hq)⟩
  · exact Or.inr h

theorem J_move (fs : List (Loc × κ)) (p : Comps) (n : Nat) (h : J sem work new fs0 i fs) :
    J sem work new fs0 i (fs.map (fun e => (moveLoc p n e.1, e.2))) := by
  rcases h with ⟨l, k, hm, hw, ho⟩ | h
  · left
    refine ⟨moveLoc p n l, k, List.mem_map.mpr ⟨(l, k), hm, rfl⟩, hw, ?_⟩
    intro q hq
    cases l with
    | attic m r => simp [moveLoc] at hq
    | ws r =>
      by_cases hpr : isPrefix p r = true
      · simp [moveLoc, hpr] at hq
      · simp only [moveLoc, hpr] at hq
        exact ho q hq
  · exact Or.inr h

theorem J_emptyDir (fs : List (Loc × κ)) (n : NewEntry σ) (hn : n ∈ new) (hp : sem.prunes n.spec = true)
    (h : J sem work new fs0 i fs) :
    J sem work new fs0 i (fs.filter (fun e => !(e.1.under (.ws (normComps n.dir)) && e.1 != .ws (normComps n.dir)))) := by
  rcases h with ⟨l, k, hm, hw, ho⟩ | h
  · by_cases hf : (l.under (.ws (normComps n.dir)) && l != .ws (normComps n.dir)) = true
    · right
      simp only [Bool.and_eq_true, bne_iff_ne, ne_eq] at hf
      cases l with
      | attic m r => simp [Loc.under] at hf
      | ws r =>
        obtain ⟨k0, hk0, hw0⟩ := ho r rfl
        refine ⟨n, hn, hp, r, k0, hk0, hw0, by simpa [Loc.under] using hf.1, ?_⟩
        intro he; exact hf.2 (by rw [he])
    · left
      exact ⟨l, k, List.mem_filter.mpr ⟨hm, by rw [Bool.not_eq_true']; exact Bool.eq_false_iff.mpr hf⟩, hw, ho⟩
  · exact Or.inr h

theorem fs_emit_plain (op : Op σ) (st : St σ κ)
    (h : (∀ p n, op ≠ .moveToAttic p n) ∧ (∀ p, op ≠ .emptyDir p) ∧ (∀ n s, op ≠ .rmAttic n s) ∧ op ≠ .rmWorkspace) :
    (emit op st).fs = st.fs := by
  cases op with
  | moveToAttic p n => exact absurd rfl (h.1 p n)
  | emptyDir p => exact absurd rfl (h.2.1 p)
  | rmAttic n s => exact absurd rfl (h.2.2.1 n s)
  | rmWorkspace => exact absurd rfl h.2.2.2
  | scmSwitch p ok => rfl
  | regAttic n sub s => rfl
  | setDirState d => rfl
  | invoke p f ok => rfl

theorem fs_persist (st : St σ κ) : (persist st).fs = st.fs := rfl
theorem fs_dropOld (d : String) (st : St σ κ) : (dropOld d st).fs = st.fs := rfl

theorem J_trySwitch (hs : SemKeeps sem work) (e : OldEntry σ) (p : Comps) (st : St σ κ)
    (h : J sem work new fs0 i st.fs) : J sem work new fs0 i (trySwitch sem new e p st).1.fs := by
  unfold trySwitch
  cases findNew new e.dir with
  | none => exact h
  | some n =>
    simp only
    cases e.spec with
    | none => exact h
    | some os =>
      simp only
      split
      · cases hk : contentAt st.fs (.ws p) with
        | some k =>
          simp only [emitSet]
          refine J_setContent st.fs p _ ?_ h
          intro k1 hk1 hw
          rw [hk] at hk1; cases hk1
          exact hs.switch_keeps os n.spec k i hw
        | none => exact h
      · exact h

theorem J_moveAway (e : OldEntry σ) (p : Comps) (st : St σ κ)
    (h : J sem work new fs0 i st.fs) : J sem work new fs0 i (moveAway e p st).fs := by
  unfold moveAway
  simp only [emit, applyOp]
  exact J_move st.fs p st.nextAttic h

theorem J_changedStep (hs : SemKeeps sem work) (ae : Bool) (st st' : St σ κ)
    (tr tr' : List (Comps × Nat)) (e : OldEntry σ)
    (hl : changedStep sem ae new st tr e = .ok (st', tr'))
    (h : J sem work new fs0 i st.fs) : J sem work new fs0 i st'.fs := by
  unfold changedStep at hl
  simp only at hl
  have hsw := J_trySwitch hs e (normComps e.dir) st h
  split at hl
  · split at hl
    · simp only [Except.ok.injEq, Prod.mk.injEq] at hl
      rw [← hl.1]; exact hsw
    · simp only [Except.ok.injEq, Prod.mk.injEq] at hl
      rw [← hl.1]; exact hsw
  · split at hl
    · split at hl
      · cases hl
      · simp only [Except.ok.injEq, Prod.mk.injEq] at hl
        rw [← hl.1, fs_dropOld]
        exact J_moveAway e _ _ hsw
    · simp only [Except.ok.injEq, Prod.mk.injEq] at hl
      rw [← hl.1, fs_dropOld]; exact hsw

theorem J_loopStep (hs : SemKeeps sem work) (ae : Bool) (st st' : St σ κ)
    (tr tr' : List (Comps × Nat)) (e : OldEntry σ)
    (hl : loopStep sem ae new st tr e = .ok (st', tr'))
    (h : J sem work new fs0 i st.fs) : J sem work new fs0 i st'.fs := by
  unfold loopStep at hl
  simp only at hl
  split at hl
  · simp only [Except.ok.injEq, Prod.mk.injEq] at hl
    rw [← hl.1, fs_dropOld]
    split
    · exact h
    · exact h
  · split at hl
    · simp only [Except.ok.injEq, Prod.mk.injEq] at hl
      rw [← hl.1]; exact h
    · exact J_changedStep hs ae _ st' tr tr' e hl (by rw [(fs_invalidate e st).1]; exact h)

theorem J_loopAll (hs : SemKeeps sem work) (ae : Bool) :
    ∀ (es : List (OldEntry σ)) (st : St σ κ) (tr : List (Comps × Nat)),
      J sem work new fs0 i st.fs → J sem work new fs0 i (loopAll sem ae new es st tr).1.fs := by
  intro es
  induction es with
  | nil => intro st tr h; exact h
  | cons e rest ih =>
    intro st tr h
    unfold Checkout.loopAll
    cases hl : loopStep sem ae new st tr e with
    | error x => exact J_trySwitch hs e _ _ (by rw [(fs_invalidate e st).1]; exact h)
    | ok v =>
      obtain ⟨st', tr'⟩ := v
      exact ih st' tr' (J_loopStep hs ae st st' tr tr' e hl h)

theorem J_runScm (hs : SemKeeps sem work) (n : NewEntry σ) (hn : n ∈ new) (st : St σ κ)
    (h : J sem work new fs0 i st.fs) : J sem work new fs0 i (runScm sem n st).1.fs := by
  unfold Checkout.runScm
  simp only
  have hinv : ∀ s : St σ κ, J sem work new fs0 i s.fs → J sem work new fs0 i
      (emitSet (.invoke (normComps n.dir) (contentAt s.fs (.ws (normComps n.dir))).isNone
        (sem.invoke n.spec (contentAt s.fs (.ws (normComps n.dir)))).2) (normComps n.dir)
        (sem.invoke n.spec (contentAt s.fs (.ws (normComps n.dir)))).1 s).fs := by
    intro s hj
    simp only [emitSet]
    refine J_setContent s.fs _ _ ?_ hj
    intro k hk hw
    rw [hk]
    exact hs.invoke_keeps n.spec k i hw
  split
  · rename_i hp
    apply hinv
    simp only [emit, applyOp]
    exact J_emptyDir st.fs n hn hp h
  · apply hinv; exact h

theorem J_runScms (hs : SemKeeps sem work) :
    ∀ (ns : List (NewEntry σ)), (∀ n, n ∈ ns → n ∈ new) → ∀ (st : St σ κ),
      J sem work new fs0 i st.fs → J sem work new fs0 i (runScms sem ns st).1.fs := by
  intro ns
  induction ns with
  | nil => intro _ st h; exact h
  | cons n rest ih =>
    intro hsub st h
    unfold Checkout.runScms
    have h1 := J_runScm hs n (hsub n List.mem_cons_self) st h
    cases hr : Checkout.runScm sem n st with
    | mk st' ok =>
      rw [hr] at h1
      cases ok with
      | true => exact ih (fun m hm => hsub m (List.mem_cons_of_mem _ hm)) st' h1
      | false => exact h1

theorem J_cook (hs : SemKeeps sem work) (fl : Flags) (indet : Bool) (st0 : St σ κ)
    (h : J sem work new fs0 i st0.fs) : J sem work new fs0 i (cook sem fl indet new st0).1.fs := by
  unfold Checkout.cook
  simp only
  generalize hst0 : (if st0.wsMissing = true then { st0 with wsMissing := false, old := [], plain := [], complete := false } else st0) = sta
  have ha : J sem work new fs0 i sta.fs := by
    subst hst0; split <;> exact h
  generalize hstb : (if fl.cleanCheckout = true then cleanInvalidate sem new sta else sta) = stb
  have hb : J sem work new fs0 i stb.fs := by
    subst hstb; split
    · exact ha
    · exact ha
  split
  · exact hb
  · have hl := J_loopAll hs fl.atticEnabled (sortedOld stb.old) stb [] hb
    cases hh : Checkout.loopAll sem fl.atticEnabled new (sortedOld stb.old) stb [] with
    | mk st1 err =>
      rw [hh] at hl
      cases err with
      | some x => exact hl
      | none =>
        simp only
        split
        · exact hl
        · rw [(markComplete_fields _).1]
          exact J_runScms hs new (fun _ h => h) _ hl

theorem J_init (st0 : St σ κ) (h : Present work st0.fs i) : J sem work new st0.fs i st0.fs := by
  obtain ⟨l, k, hm, hw⟩ := h
  left
  refine ⟨l, k, hm, hw, ?_⟩
  intro p hp; subst hp; exact ⟨k, hm, hw⟩

theorem Present_of_J (fs : List (Loc × κ)) (h : J sem work new fs0 i fs) :
    Present work fs i ∨ PrunedBelow sem work new fs0 i := by
  rcases h with ⟨l, k, hm, hw, _⟩ | h
  · exact Or.inl ⟨l, k, hm, hw⟩
  · exact Or.inr h

end Checkout
