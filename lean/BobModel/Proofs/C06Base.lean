import BobModel.Model.SchedInv
import BobModel.Proofs.C06Sem
/-
Frame lemmas for the scheduler model: projections of the state updates, sums over the task list,
what task creation does, well-formedness of continuations under the rewrite steps of `stepTask`.
-/
namespace Sched
open JobSem

/-! ### projections -/

section proj
variable (st : St) (e : Ev) (t : Nat) (x : Task)
@[simp] theorem emit_tasks : (st.emit e).tasks = st.tasks := rfl
@[simp] theorem emit_runners : (st.emit e).runners = st.runners := rfl
@[simp] theorem emit_running : (st.emit e).running = st.running := rfl
@[simp] theorem emit_errors : (st.emit e).errors = st.errors := rfl
@[simp] theorem emit_wasRun : (st.emit e).wasRun = st.wasRun := rfl
@[simp] theorem emit_dlTried : (st.emit e).dlTried = st.dlTried := rfl
@[simp] theorem emit_locks : (st.emit e).locks = st.locks := rfl
@[simp] theorem emit_cookT : (st.emit e).cookT = st.cookT := rfl
@[simp] theorem emit_bidT : (st.emit e).bidT = st.bidT := rfl
@[simp] theorem emit_srcBid : (st.emit e).srcBid = st.srcBid := rfl
@[simp] theorem emit_distBid : (st.emit e).distBid = st.distBid := rfl
@[simp] theorem emit_disk : (st.emit e).disk = st.disk := rfl
@[simp] theorem emit_trace : (st.emit e).trace = st.trace ++ [e] := rfl
@[simp] theorem setTask_tasks : (st.setTask t x).tasks = st.tasks.set t x := rfl
@[simp] theorem setTask_runners : (st.setTask t x).runners = st.runners := rfl
@[simp] theorem setTask_running : (st.setTask t x).running = st.running := rfl
@[simp] theorem setTask_errors : (st.setTask t x).errors = st.errors := rfl
@[simp] theorem setTask_wasRun : (st.setTask t x).wasRun = st.wasRun := rfl
@[simp] theorem setTask_dlTried : (st.setTask t x).dlTried = st.dlTried := rfl
@[simp] theorem setTask_locks : (st.setTask t x).locks = st.locks := rfl
@[simp] theorem setTask_cookT : (st.setTask t x).cookT = st.cookT := rfl
@[simp] theorem setTask_bidT : (st.setTask t x).bidT = st.bidT := rfl
@[simp] theorem setTask_srcBid : (st.setTask t x).srcBid = st.srcBid := rfl
@[simp] theorem setTask_distBid : (st.setTask t x).distBid = st.distBid := rfl
@[simp] theorem setTask_disk : (st.setTask t x).disk = st.disk := rfl
@[simp] theorem setTask_trace : (st.setTask t x).trace = st.trace := rfl
end proj

theorem task_lt {st : St} {t : Nat} {op : Op} {rest : List Op} (h : (st.task t).ops = op :: rest) :
    t < st.tasks.length := by
  by_cases ht : t < st.tasks.length
  · exact ht
  · have : st.task t = default := by
      simp [St.task, List.getD, List.getElem?_eq_none (Nat.le_of_not_lt ht)]
    rw [this] at h
    cases h

theorem task_eq_getElem {st : St} {t : Nat} (ht : t < st.tasks.length) : st.task t = st.tasks[t] := by
  simp [St.task, List.getD, List.getElem?_eq_getElem ht]

theorem task_mem {st : St} {t : Nat} (ht : t < st.tasks.length) : st.task t ∈ st.tasks := by
  rw [task_eq_getElem ht]; exact List.getElem_mem ht

/-! ### sums over the task list -/

theorem sum_map_set (f : Task → Nat) (l : List Task) (t : Nat) (x : Task) (ht : t < l.length) :
    ((l.set t x).map f).sum + f l[t] = (l.map f).sum + f x := by
  induction l generalizing t with
  | nil => simp at ht
  | cons a l ih =>
    cases t with
    | zero => simp; omega
    | succ k =>
      have := ih k (by simpa using ht)
      simp only [List.set_cons_succ, List.map_cons, List.sum_cons, List.getElem_cons_succ]
      omega

theorem tsum_update (f : Task → Nat) (st g : St) (t : Nat) (x' : Task) (new : List Task)
    (ht : t < st.tasks.length) (hg : g.tasks = st.tasks ++ new) :
    tsum f (g.setTask t x') + f (st.task t) = tsum f st + f x' + (new.map f).sum := by
  unfold tsum
  simp only [setTask_tasks, hg]
  rw [List.set_append_left _ _ ht, List.map_append, List.sum_append, task_eq_getElem ht]
  have := sum_map_set f st.tasks t x' ht
  omega

theorem mem_le_sum {a : Nat} {l : List Nat} (h : a ∈ l) : a ≤ l.sum := by
  induction l with
  | nil => cases h
  | cons b l ih =>
    rcases List.mem_cons.mp h with e | e
    · subst e; simp
    · have := ih e; simp; omega

theorem tsum_ge (f : Task → Nat) (st : St) (t : Nat) (ht : t < st.tasks.length) : f (st.task t) ≤ tsum f st := by
  unfold tsum
  rw [task_eq_getElem ht]
  exact mem_le_sum (List.mem_map_of_mem (List.getElem_mem ht))

/-! ### continuations -/

/-- token operations -/
def Op.isTok : Op → Bool
  | .start | .startWait | .release | .yieldRel _ _ | .reacq | .reacqWait => true
  | _ => false

/-- an operation that neither touches the job slot nor ends the task -/
def Op.plain (o : Op) : Bool := !o.isTok && o != .wrapEnd

theorem wf_holds {h : Bool} {ops : List Op} (hw : wf h ops = true) : holdsTok ops = h := by
  induction ops generalizing h with
  | nil => cases h <;> simp_all [wf, holdsTok]
  | cons o r ih =>
    cases o <;> simp only [wf, holdsTok, Bool.and_eq_true, Bool.not_eq_true', Bool.or_eq_true] at hw ⊢ <;>
      first
      | (cases h <;> simp_all; done)
      | exact ih hw.2
      | (obtain ⟨h1, h2⟩ := hw; cases r <;> simp_all [holdsTok])

theorem wf_plain_cons {h : Bool} {o : Op} {r : List Op} (hp : o.plain = true) :
    wf h (o :: r) = ((!o.needsTok || h) && wf h r) := by
  cases o <;> simp_all [Op.plain, Op.isTok, wf]

theorem holdsTok_plain_cons {o : Op} {r : List Op} (hp : o.plain = true) : holdsTok (o :: r) = holdsTok r := by
  cases o <;> simp_all [Op.plain, Op.isTok, holdsTok]

/-- replacing a plain head operation by plain operations keeps the brackets balanced -/
theorem wf_expand {h : Bool} {op : Op} {rest body : List Op} (hw : wf h (op :: rest) = true)
    (hop : op.plain = true) (hb : ∀ o ∈ body, o.plain = true ∧ (o.needsTok = true → op.needsTok = true)) :
    wf h (body ++ rest) = true := by
  rw [wf_plain_cons hop] at hw
  simp only [Bool.and_eq_true, Bool.or_eq_true, Bool.not_eq_true'] at hw
  induction body with
  | nil => exact hw.2
  | cons o b ih =>
    have ho := hb o (by simp)
    rw [List.cons_append, wf_plain_cons ho.1]
    simp only [Bool.and_eq_true, Bool.or_eq_true, Bool.not_eq_true']
    refine ⟨?_, ih (fun o' ho' => hb o' (by simp [ho']))⟩
    cases hn : o.needsTok with
    | false => exact Or.inl rfl
    | true =>
      have := ho.2 hn
      rcases hw.1 with h1 | h1
      · rw [this] at h1; cases h1
      · exact Or.inr h1

theorem wf_tail {h : Bool} {op : Op} {rest : List Op} (hw : wf h (op :: rest) = true) (hop : op.plain = true) :
    wf h rest = true := wf_expand (body := []) hw hop (by simp)

theorem isFin_not_needsTok {o : Op} (h : o.isFin = true) : o.needsTok = false := by
  cases o <;> simp_all [Op.isFin, Op.needsTok]

/-- when an exception propagates only the clean-up operations remain: still balanced -/
theorem wf_filter {h : Bool} {ops : List Op} (hw : wf h ops = true) : wf h (ops.filter Op.isFin) = true := by
  induction ops generalizing h with
  | nil => simpa using hw
  | cons o r ih =>
    cases o <;> simp only [wf, Bool.and_eq_true, Bool.not_eq_true', Bool.or_eq_true, Op.needsTok] at hw <;>
      simp only [List.filter_cons, Op.isFin, Bool.false_eq_true, ↓reduceIte, wf, Bool.and_eq_true,
        Bool.not_eq_true', Bool.or_eq_true, Op.needsTok] <;>
      first
      | exact ih hw.2
      | exact ⟨hw.1, ih hw.2⟩
      | (obtain ⟨h1, h2⟩ := hw; cases r <;> simp_all)
      | (simp_all; done)

theorem noWait_filter {ops : List Op} (h : noWait ops = true) : noWait (ops.filter Op.isFin) = true := by
  simp only [noWait, List.all_eq_true] at *
  intro o ho
  exact h o (List.mem_filter.mp ho).1

theorem noWait_tail_of {ops : List Op} (h : noWait ops = true) : noWait ops.tail = true := by
  simp only [noWait, List.all_eq_true] at *
  intro o ho
  exact h o (List.mem_of_mem_tail ho)

theorem noWait_append {a b : List Op} : noWait (a ++ b) = (noWait a && noWait b) := by
  simp [noWait, List.all_append]

/-- the tail of a well-formed continuation without its head -/
theorem Task.wf_iff {x : Task} : x.wf = true ↔ (Sched.wf (holdsTok x.ops) x.ops = true ∧ noWait x.ops.tail = true) := by
  simp [Task.wf]

/-! ### new tasks -/

/-- a task as `__createCookTask` / `__createGenericTask` makes it -/
def Initial (y : Task) : Prop := y.err = none ∧ (y.ops = [.start, .wrapEnd] ∨ ∃ a, y.ops = [.fence a, .start, .wrapEnd])

theorem Initial.wf {y : Task} (h : Initial y) : y.wf = true ∧ y.holds = 0 ∧ y.waitingTok = 0 := by
  rcases h.2 with e | ⟨a, e⟩ <;> simp [Task.wf, Task.holds, Task.waitingTok, e, Sched.wf, holdsTok, noWait, Op.needsTok, Op.isTokWait, Op.isWait]

/-- effect of `createTask` -/
structure Grow (st g : St) (new : List Task) : Prop where
  tasks : g.tasks = st.tasks ++ new
  init : ∀ y ∈ new, Initial y
  runners : g.runners = st.runners
  running : g.running = st.running
  errors : g.errors = st.errors
  wasRun : g.wasRun = st.wasRun
  locks : g.locks = st.locks
  disk : g.disk = st.disk
  dlTried : g.dlTried = st.dlTried

theorem Grow.refl (st : St) : Grow st st [] := ⟨by simp, by simp, rfl, rfl, rfl, rfl, rfl, rfl, rfl⟩

theorem Grow.trans {a b c : St} {n1 n2 : List Task} (h1 : Grow a b n1) (h2 : Grow b c n2) : Grow a c (n1 ++ n2) :=
  ⟨by rw [h2.tasks, h1.tasks, List.append_assoc],
   by intro y hy; rcases List.mem_append.mp hy with h | h; exact h1.init y h; exact h2.init y h,
   by rw [h2.runners, h1.runners], by rw [h2.running, h1.running], by rw [h2.errors, h1.errors],
   by rw [h2.wasRun, h1.wasRun], by rw [h2.locks, h1.locks], by rw [h2.disk, h1.disk], by rw [h2.dlTried, h1.dlTried]⟩

def newTaskOf (P : Project) (st : St) (trk : Trk) (s : Nat) (co : Bool) : Task :=
  { kind := mkKind trk s co,
    ops := (match klookup ((P.info s).path, (P.info s).sandbox, !co) (st.tracker trk) with
            | some a => [Op.fence a] | none => []) ++ [Op.start, Op.wrapEnd],
    err := none }

theorem createTask_grow (P : Project) (st : St) (trk : Trk) (s : Nat) (co : Bool) :
    ∃ new, Grow st (createTask P st trk s co).1 new := by
  unfold createTask
  simp only
  split
  · exact ⟨[], Grow.refl st⟩
  · refine ⟨[newTaskOf P st trk s co], ⟨?_, ?_, ?_, ?_, ?_, ?_, ?_, ?_, ?_⟩⟩
    · cases trk <;> rfl
    · intro y hy
      simp only [List.mem_singleton] at hy
      subst hy
      refine ⟨rfl, ?_⟩
      unfold newTaskOf
      split <;> simp
    all_goals (cases trk <;> rfl)

theorem createTasks_grow (P : Project) (trk : Trk) (co : Bool) (steps : List Nat) (st : St) :
    ∃ new, Grow st (createTasks P trk co steps st).1 new := by
  induction steps generalizing st with
  | nil => exact ⟨[], Grow.refl st⟩
  | cons s r ih =>
    obtain ⟨n1, h1⟩ := createTask_grow P st trk s co
    obtain ⟨n2, h2⟩ := ih (createTask P st trk s co).1
    exact ⟨n1 ++ n2, by simpa [createTasks] using h1.trans h2⟩

theorem createTop_grow (st : St) (s : Nat) : ∃ new, Grow st (createTop st s).1 new := by
  refine ⟨[_], ⟨rfl, ?_, rfl, rfl, rfl, rfl, rfl, rfl, rfl⟩⟩
  intro y hy
  simp only [List.mem_singleton] at hy
  subst hy
  exact ⟨rfl, Or.inl rfl⟩

theorem createTops_grow (targets : List Nat) (st : St) : ∃ new, Grow st (createTops targets st).1 new := by
  induction targets generalizing st with
  | nil => exact ⟨[], Grow.refl st⟩
  | cons s r ih =>
    obtain ⟨n1, h1⟩ := createTop_grow st s
    obtain ⟨n2, h2⟩ := ih (createTop st s).1
    exact ⟨n1 ++ n2, by simpa [createTops] using h1.trans h2⟩

end Sched
