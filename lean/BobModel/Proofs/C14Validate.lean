import BobModel.Proofs.C14Closure
/-
Helper lemmas for C14, part 3: the two worklist loops (`__validate`, `getReferencedBuildIds`).
-/
namespace Audit
open Consts.C14

/-! ### specifications -/

/-- ids reachable from the artifact's own references through records that resolve -/
inductive Reach (a : Audit) : Id → Prop
  | base {i : Id} : i ∈ a.artifact.getReferences → Reach a i
  | step {j i : Id} {c : Artifact} : Reach a j → lookupRef a.references j = some c → i ∈ c.getReferences → Reach a i

/-- every reachable reference resolves -/
def Closed (a : Audit) : Prop := ∀ i, Reach a i → i ∈ refKeys a.references

/-- a record at which `getReferencedBuildIds` continues: it has a step label other than the stop label -/
def NonStop (c : Artifact) : Prop := ∃ s, c.step = some s ∧ s ≠ stopLabel.toList

/-- reference paths that pass only through resolvable non-stop records (the end point is arbitrary) -/
inductive Path (refs : List (Id × Artifact)) : Id → Id → Prop
  | refl (i : Id) : Path refs i i
  | step {i j k : Id} {c : Artifact} : Path refs i j → lookupRef refs j = some c → NonStop c → k ∈ c.getReferences → Path refs i k

/-- `b` is the build-id of a first stop-label record on a reference path from `S` -/
def Hit (refs : List (Id × Artifact)) (S : List Id) (b : Id) : Prop :=
  ∃ s ∈ S, ∃ j c, Path refs s j ∧ lookupRef refs j = some c ∧ c.step = some stopLabel.toList ∧ c.buildId = some b

/-- a frontier record at which the implementation raises KeyError -/
def Broken (refs : List (Id × Artifact)) (S : List Id) : Prop :=
  ∃ s ∈ S, ∃ j, Path refs s j ∧
    (lookupRef refs j = none ∨ ∃ c, lookupRef refs j = some c ∧
      (c.step = none ∨ (c.step = some stopLabel.toList ∧ c.buildId = none)))

/-! ### list facts -/

/-- membership tests as named Boolean predicates (no lambdas, so that terms stay syntactically stable) -/
def inB (l : List Id) (x : Id) : Bool := l.contains x
def notInB (l : List Id) (x : Id) : Bool := !l.contains x
def eqB (c : Id) (x : Id) : Bool := decide (x = c)

@[simp] theorem inB_iff {l : List Id} {x : Id} : inB l x = true ↔ x ∈ l := by simp [inB]
@[simp] theorem inB_false_iff {l : List Id} {x : Id} : inB l x = false ↔ x ∉ l := by simp [inB]
@[simp] theorem notInB_iff {l : List Id} {x : Id} : notInB l x = true ↔ x ∉ l := by simp [notInB]
@[simp] theorem notInB_false_iff {l : List Id} {x : Id} : notInB l x = false ↔ x ∈ l := by simp [notInB]

theorem filter_setAdd_false {p : Id → Bool} {s : List Id} {x : Id} (h : p x = false) :
    (setAdd s x).filter p = s.filter p := by
  unfold setAdd
  split
  · rfl
  · simp [List.filter_append, h]

theorem filter_setUnion_false {p : Id → Bool} {t : List Id} : ∀ {s : List Id}, (∀ x ∈ t, p x = false) →
    (setUnion s t).filter p = s.filter p := by
  induction t with
  | nil => intro s _; rfl
  | cons x t ih =>
    intro s h
    simp only [setUnion]
    rw [ih (fun y hy => h y (List.mem_cons_of_mem _ hy)), filter_setAdd_false (h x (by simp))]

theorem filter_len_le {l : List Id} {p q : Id → Bool} (hpq : ∀ x, q x = true → p x = true) :
    (l.filter q).length ≤ (l.filter p).length := by
  induction l with
  | nil => simp
  | cons x l ih =>
    rw [List.filter_cons, List.filter_cons]
    cases hq : q x <;> cases hp : p x
    · simpa using ih
    · simp only [Bool.false_eq_true, if_false, if_true, List.length_cons]; omega
    · have := hpq x hq; rw [hp] at this; cases this
    · simp only [if_true, List.length_cons]; omega

theorem filter_len_lt {l : List Id} {p q : Id → Bool} (hpq : ∀ x, q x = true → p x = true) {c : Id}
    (hc : c ∈ l) (hp : p c = true) (hq : q c = false) : (l.filter q).length + 1 ≤ (l.filter p).length := by
  induction l with
  | nil => simp at hc
  | cons x l ih =>
    rw [List.filter_cons, List.filter_cons]
    rcases List.mem_cons.1 hc with h | h
    · subst h
      have := filter_len_le (l := l) hpq
      simp only [hp, hq, Bool.false_eq_true, if_false, if_true, List.length_cons]
      omega
    · have := ih h
      cases hq' : q x <;> cases hp' : p x
      · simpa using this
      · simp only [Bool.false_eq_true, if_false, if_true, List.length_cons]; omega
      · have := hpq x hq'; rw [hp'] at this; cases this
      · simp only [if_true, List.length_cons]; omega

theorem filter_or_len (l : List Id) (p q r : Id → Bool) (h : ∀ x, r x = (p x || q x)) :
    (l.filter r).length ≤ (l.filter p).length + (l.filter q).length := by
  induction l with
  | nil => simp
  | cons x l ih =>
    rw [List.filter_cons, List.filter_cons, List.filter_cons, h x]
    cases p x <;> cases q x <;>
      simp only [Bool.or_false, Bool.or_true, Bool.false_eq_true, if_false, if_true, List.length_cons] <;> omega

theorem filter_eq_len_le_one {l : List Id} (h : l.Nodup) (c : Id) : (l.filter (eqB c)).length ≤ 1 := by
  induction l with
  | nil => simp
  | cons x l ih =>
    have ⟨hx, hl⟩ := List.nodup_cons.1 h
    rw [List.filter_cons]
    by_cases hxc : x = c
    · subst hxc
      have : l.filter (eqB x) = [] := by
        rw [List.filter_eq_nil_iff]
        intro y hy
        simp only [eqB, decide_eq_true_eq]
        intro h
        subst h
        exact hx hy
      simp [eqB, this]
    · simp only [eqB, hxc, decide_false, Bool.false_eq_true, if_false]
      exact ih hl

namespace Audit

/-! ### `__validate` -/

/-- the termination measure of the loop -/
def vMeasure (refs : List (Id × Artifact)) (done wl : List Id) : Nat :=
  2 * ((refKeys refs).filter (notInB done)).length + (wl.filter (inB done)).length

theorem vMeasure_step {refs : List (Id × Artifact)} {cur : Id} {rest done : List Id} {c : Artifact}
    (hl : lookupRef refs cur = some c) (hn : (cur :: rest).Nodup) :
    vMeasure refs (setAdd done cur) (setUnion rest (c.getReferences.filter fun d => !done.contains d)) + 1
      ≤ vMeasure refs done (cur :: rest) := by
  have hkey : cur ∈ refKeys refs := lookupRef_isSome_iff.1 (by simp [hl])
  generalize hnewdef : (c.getReferences.filter fun d => !done.contains d) = new
  have hnew : ∀ x ∈ new, inB done x = false := by
    intro x hx
    rw [← hnewdef] at hx
    have := (List.mem_filter.1 hx).2
    simpa using this
  have hD3 : (setUnion rest new).filter (inB done) = rest.filter (inB done) := filter_setUnion_false hnew
  by_cases hd : cur ∈ done
  · have hsa : setAdd done cur = done := by simp [setAdd, hd]
    have h4 : ((cur :: rest).filter (inB done)).length = (rest.filter (inB done)).length + 1 := by
      rw [List.filter_cons, if_pos (inB_iff.2 hd)]; rfl
    unfold vMeasure
    rw [hsa, hD3, h4]
    omega
  · have hsa : setAdd done cur = done ++ [cur] := by simp [setAdd, hd]
    have hnd : (setUnion rest new).Nodup := nodup_setUnion (List.nodup_cons.1 hn).2
    have hK := filter_len_lt (l := refKeys refs) (p := notInB done) (q := notInB (done ++ [cur]))
      (by intro x hx; simp at hx ⊢; exact hx.1) hkey (by simpa using hd) (by simp)
    have hD1 := filter_or_len (setUnion rest new) (inB done) (eqB cur) (inB (done ++ [cur])) (by
      intro x
      by_cases h1 : x ∈ done <;> by_cases h2 : x = cur <;> simp [inB, eqB, h1, h2])
    have hD2 := filter_eq_len_le_one hnd cur
    have h4 : ((cur :: rest).filter (inB done)).length = (rest.filter (inB done)).length := by
      rw [List.filter_cons, if_neg (by simpa using hd)]
    unfold vMeasure
    rw [hsa, h4]
    rw [hD3] at hD1
    omega

theorem validateLoop_fuel {refs : List (Id × Artifact)} : ∀ (fuel : Nat) (wl done : List Id), wl.Nodup →
    vMeasure refs done wl < fuel → validateLoop refs fuel wl done ≠ .outOfFuel := by
  intro fuel
  induction fuel with
  | zero => intro wl done _ h; omega
  | succ fuel ih =>
    intro wl done hn hm
    cases wl with
    | nil => simp [validateLoop]
    | cons cur rest =>
      simp only [validateLoop]
      cases hl : lookupRef refs cur with
      | none => simp
      | some c =>
        simp only []
        apply ih
        · exact nodup_setUnion (List.nodup_cons.1 hn).2
        · have := vMeasure_step (done := done) hl hn
          omega

theorem validate_ne_outOfFuel (a : Audit) : validate a ≠ .outOfFuel := by
  unfold validate
  apply validateLoop_fuel
  · exact Artifact.nodup_getReferences _
  · have h1 : ((refKeys a.references).filter (notInB [])).length ≤ a.references.length := by
      have := List.length_filter_le (notInB []) (refKeys a.references)
      simpa [refKeys] using this
    have h2 : (a.artifact.getReferences.filter (inB [])) = [] := by
      rw [List.filter_eq_nil_iff]; intro x _; simp
    unfold vMeasure
    rw [h2]
    simp only [List.length_nil]
    omega

/-- invariant of the loop: everything in `done` resolves and its references are in `done` or queued -/
def VInv (refs : List (Id × Artifact)) (wl done : List Id) : Prop :=
  ∀ d ∈ done, ∃ c, lookupRef refs d = some c ∧ ∀ r ∈ c.getReferences, r ∈ done ∨ r ∈ wl

theorem validateLoop_ok {refs : List (Id × Artifact)} : ∀ (fuel : Nat) (wl done : List Id), VInv refs wl done →
    validateLoop refs fuel wl done = .ok →
    ∃ S : List Id, (∀ x ∈ wl, x ∈ S) ∧ (∀ x ∈ done, x ∈ S) ∧
      ∀ d ∈ S, ∃ c, lookupRef refs d = some c ∧ ∀ r ∈ c.getReferences, r ∈ S := by
  intro fuel
  induction fuel with
  | zero =>
    intro wl done hinv h
    cases wl with
    | nil =>
      refine ⟨done, by simp, fun x hx => hx, ?_⟩
      intro d hd
      obtain ⟨c, hc, hr⟩ := hinv d hd
      exact ⟨c, hc, fun r hr' => (hr r hr').elim id (by simp)⟩
    | cons cur rest => simp [validateLoop] at h
  | succ fuel ih =>
    intro wl done hinv h
    cases wl with
    | nil =>
      refine ⟨done, by simp, fun x hx => hx, ?_⟩
      intro d hd
      obtain ⟨c, hc, hr⟩ := hinv d hd
      exact ⟨c, hc, fun r hr' => (hr r hr').elim id (by simp)⟩
    | cons cur rest =>
      simp only [validateLoop] at h
      cases hl : lookupRef refs cur with
      | none => simp [hl] at h
      | some c =>
        simp only [hl] at h
        have hinv' : VInv refs (setUnion rest (c.getReferences.filter fun d => !done.contains d)) (setAdd done cur) := by
          intro d hd
          rcases mem_setAdd.1 hd with hd | hd
          · obtain ⟨c', hc', hr⟩ := hinv d hd
            refine ⟨c', hc', fun r hr' => ?_⟩
            rcases hr r hr' with h1 | h1
            · exact Or.inl (mem_setAdd.2 (Or.inl h1))
            · rcases List.mem_cons.1 h1 with h2 | h2
              · exact Or.inl (mem_setAdd.2 (Or.inr h2))
              · exact Or.inr (mem_setUnion.2 (Or.inl h2))
          · subst hd
            refine ⟨c, hl, fun r hr' => ?_⟩
            by_cases hrd : r ∈ done
            · exact Or.inl (mem_setAdd.2 (Or.inl hrd))
            · exact Or.inr (mem_setUnion.2 (Or.inr (List.mem_filter.2 ⟨hr', by simpa using hrd⟩)))
        obtain ⟨S, h1, h2, h3⟩ := ih _ _ hinv' h
        refine ⟨S, ?_, ?_, h3⟩
        · intro x hx
          rcases List.mem_cons.1 hx with hx | hx
          · exact h2 x (mem_setAdd.2 (Or.inr hx))
          · exact h1 x (mem_setUnion.2 (Or.inl hx))
        · intro x hx
          exact h2 x (mem_setAdd.2 (Or.inl hx))

theorem validateLoop_missing {a : Audit} : ∀ (fuel : Nat) (wl done : List Id) (i : Id), (∀ x ∈ wl, Reach a x) →
    validateLoop a.references fuel wl done = .missing i → Reach a i ∧ lookupRef a.references i = none := by
  intro fuel
  induction fuel with
  | zero =>
    intro wl done i _ h
    cases wl <;> simp [validateLoop] at h
  | succ fuel ih =>
    intro wl done i hr h
    cases wl with
    | nil => simp [validateLoop] at h
    | cons cur rest =>
      simp only [validateLoop] at h
      cases hl : lookupRef a.references cur with
      | none =>
        simp only [hl, VResult.missing.injEq] at h
        subst h
        exact ⟨hr _ (by simp), hl⟩
      | some c =>
        simp only [hl] at h
        apply ih _ _ i _ h
        intro x hx
        rcases mem_setUnion.1 hx with hx | hx
        · exact hr x (List.mem_cons_of_mem _ hx)
        · exact Reach.step (hr cur (by simp)) hl (List.mem_filter.1 hx).1

theorem validate_ok_closed {a : Audit} (h : validate a = .ok) : Closed a := by
  unfold validate at h
  obtain ⟨S, h1, _, h3⟩ := validateLoop_ok _ _ _ (by intro d hd; simp at hd) h
  have hS : ∀ i, Reach a i → i ∈ S := by
    intro i hi
    induction hi with
    | base hb => exact h1 _ hb
    | step _ hl hm ih =>
      obtain ⟨c', hc', hr⟩ := h3 _ ih
      rw [hl] at hc'
      cases hc'
      exact hr _ hm
  intro i hi
  obtain ⟨c, hc, _⟩ := h3 i (hS i hi)
  exact lookupRef_isSome_iff.1 (by simp [hc])

theorem closed_validate_ok {a : Audit} (h : Closed a) : validate a = .ok := by
  cases hv : validate a with
  | ok => rfl
  | outOfFuel => exact absurd hv (validate_ne_outOfFuel a)
  | missing i =>
    unfold validate at hv
    obtain ⟨hr, hn⟩ := validateLoop_missing _ _ _ i (fun x hx => Reach.base hx) hv
    exact absurd (h i hr) (lookupRef_eq_none_iff.1 hn)

/-- the strong closure that the add operations maintain implies the reachability closure -/
theorem closedAll_closed {a : Audit} (h : ClosedAll a) : Closed a := by
  intro i hi
  induction hi with
  | base hb => exact h.1 _ hb
  | step _ hl hm _ => exact h.2 _ (lookupRef_mem hl) _ hm

/-! ### `getReferencedBuildIds` -/

theorem path_trans {refs : List (Id × Artifact)} {i j k : Id} (h1 : Path refs i j) (h2 : Path refs j k) : Path refs i k := by
  induction h2 with
  | refl => exact h1
  | step _ hl hn hm ih => exact Path.step ih hl hn hm

theorem path_head {refs : List (Id × Artifact)} {i k : Id} (h : Path refs i k) :
    k = i ∨ ∃ c, lookupRef refs i = some c ∧ NonStop c ∧ ∃ r ∈ c.getReferences, Path refs r k := by
  induction h with
  | refl => exact Or.inl rfl
  | step hp hl hn hm ih =>
    rcases ih with ih | ⟨c', hc', hn', r, hr, hp'⟩
    · subst ih
      exact Or.inr ⟨_, hl, hn, _, hm, Path.refl _⟩
    · exact Or.inr ⟨c', hc', hn', r, hr, Path.step hp' hl hn hm⟩

theorem hit_nil {refs : List (Id × Artifact)} {b : Id} : ¬ Hit refs [] b := by
  rintro ⟨s, hs, _⟩
  simp at hs

theorem hit_cons {refs : List (Id × Artifact)} {cur : Id} {rest : List Id} {b : Id} :
    Hit refs (cur :: rest) b ↔ Hit refs [cur] b ∨ Hit refs rest b := by
  constructor
  · rintro ⟨s, hs, h⟩
    rcases List.mem_cons.1 hs with hs | hs
    · subst hs; exact Or.inl ⟨_, by simp, h⟩
    · exact Or.inr ⟨s, hs, h⟩
  · rintro (⟨s, hs, h⟩ | ⟨s, hs, h⟩)
    · simp at hs; subst hs; exact ⟨_, by simp, h⟩
    · exact ⟨s, List.mem_cons_of_mem _ hs, h⟩

theorem hit_setUnion {refs : List (Id × Artifact)} {s t : List Id} {b : Id} :
    Hit refs (setUnion s t) b ↔ Hit refs s b ∨ Hit refs t b := by
  constructor
  · rintro ⟨x, hx, h⟩
    rcases mem_setUnion.1 hx with hx | hx
    · exact Or.inl ⟨x, hx, h⟩
    · exact Or.inr ⟨x, hx, h⟩
  · rintro (⟨x, hx, h⟩ | ⟨x, hx, h⟩)
    · exact ⟨x, mem_setUnion.2 (Or.inl hx), h⟩
    · exact ⟨x, mem_setUnion.2 (Or.inr hx), h⟩

theorem hit_stop {refs : List (Id × Artifact)} {cur : Id} {c : Artifact} {b : Id}
    (hl : lookupRef refs cur = some c) (hs : c.step = some stopLabel.toList) :
    Hit refs [cur] b ↔ c.buildId = some b := by
  constructor
  · rintro ⟨s, hs', j, c', hp, hl', _, hb⟩
    simp at hs'
    subst hs'
    rcases path_head hp with h | ⟨c'', hc'', ⟨st, hst, hne⟩, _⟩
    · subst h
      rw [hl] at hl'
      cases hl'
      exact hb
    · rw [hl] at hc''
      cases hc''
      rw [hs] at hst
      cases hst
      exact absurd rfl hne
  · intro hb
    exact ⟨cur, by simp, cur, c, Path.refl _, hl, hs, hb⟩

theorem hit_nonstop {refs : List (Id × Artifact)} {cur : Id} {c : Artifact} {b : Id}
    (hl : lookupRef refs cur = some c) (hn : NonStop c) :
    Hit refs [cur] b ↔ Hit refs c.getReferences b := by
  constructor
  · rintro ⟨s, hs', j, c', hp, hl', hst, hb⟩
    simp at hs'
    subst hs'
    rcases path_head hp with h | ⟨c'', hc'', _, r, hr, hp'⟩
    · subst h
      rw [hl] at hl'
      cases hl'
      obtain ⟨st, hst', hne⟩ := hn
      rw [hst] at hst'
      cases hst'
      exact absurd rfl hne
    · exact ⟨r, by rw [hl] at hc''; cases hc''; exact hr, j, c', hp', hl', hst, hb⟩
  · rintro ⟨r, hr, j, c', hp, hl', hst, hb⟩
    exact ⟨cur, by simp, j, c', path_trans (Path.step (Path.refl _) hl hn hr) hp, hl', hst, hb⟩

theorem rbiLoop_ok {refs : List (Id × Artifact)} : ∀ (fuel : Nat) (wl acc res : List Id),
    rbiLoop refs fuel wl acc = .ok res → ∀ b, b ∈ res ↔ b ∈ acc ∨ Hit refs wl b := by
  intro fuel
  induction fuel with
  | zero =>
    intro wl acc res h b
    cases wl with
    | nil =>
      simp only [rbiLoop, RResult.ok.injEq] at h
      subst h
      simp [hit_nil]
    | cons _ _ => simp [rbiLoop] at h
  | succ fuel ih =>
    intro wl acc res h b
    cases wl with
    | nil =>
      simp only [rbiLoop, RResult.ok.injEq] at h
      subst h
      simp [hit_nil]
    | cons cur rest =>
      simp only [rbiLoop] at h
      cases hl : lookupRef refs cur with
      | none => simp [hl] at h
      | some c =>
        simp only [hl] at h
        cases hs : c.step with
        | none => simp [hs] at h
        | some s =>
          simp only [hs] at h
          by_cases hst : s = stopLabel.toList
          · simp only [hst, if_true] at h
            cases hb : c.buildId with
            | none => simp [hb] at h
            | some bb =>
              simp only [hb] at h
              rw [ih _ _ _ h b, mem_setAdd, hit_cons, hit_stop hl (by rw [hs, hst]), hb]
              constructor
              · rintro ((h1 | h1) | h1)
                · exact Or.inl h1
                · exact Or.inr (Or.inl (by rw [h1]))
                · exact Or.inr (Or.inr h1)
              · rintro (h1 | h1 | h1)
                · exact Or.inl (Or.inl h1)
                · exact Or.inl (Or.inr (by cases h1; rfl))
                · exact Or.inr h1
          · simp only [hst, if_false] at h
            rw [ih _ _ _ h b, hit_setUnion, hit_cons, hit_nonstop hl ⟨s, hs, hst⟩]
            constructor
            · rintro (h1 | h1 | h1)
              · exact Or.inl h1
              · exact Or.inr (Or.inr h1)
              · exact Or.inr (Or.inl h1)
            · rintro (h1 | h1 | h1)
              · exact Or.inl h1
              · exact Or.inr (Or.inr h1)
              · exact Or.inr (Or.inl h1)

theorem broken_mono {refs : List (Id × Artifact)} {S T : List Id} (h : ∀ x ∈ S, x ∈ T) (hb : Broken refs S) : Broken refs T := by
  obtain ⟨s, hs, r⟩ := hb
  exact ⟨s, h s hs, r⟩

theorem rbiLoop_keyError {refs : List (Id × Artifact)} : ∀ (fuel : Nat) (wl acc : List Id),
    rbiLoop refs fuel wl acc = .keyError → Broken refs wl := by
  intro fuel
  induction fuel with
  | zero => intro wl acc h; cases wl <;> simp [rbiLoop] at h
  | succ fuel ih =>
    intro wl acc h
    cases wl with
    | nil => simp [rbiLoop] at h
    | cons cur rest =>
      simp only [rbiLoop] at h
      cases hl : lookupRef refs cur with
      | none => exact ⟨cur, by simp, cur, Path.refl _, Or.inl hl⟩
      | some c =>
        simp only [hl] at h
        cases hs : c.step with
        | none => exact ⟨cur, by simp, cur, Path.refl _, Or.inr ⟨c, hl, Or.inl hs⟩⟩
        | some s =>
          simp only [hs] at h
          by_cases hst : s = stopLabel.toList
          · simp only [hst, if_true] at h
            cases hb : c.buildId with
            | none => exact ⟨cur, by simp, cur, Path.refl _, Or.inr ⟨c, hl, Or.inr ⟨by rw [hs, hst], hb⟩⟩⟩
            | some bb =>
              simp only [hb] at h
              exact broken_mono (fun x hx => List.mem_cons_of_mem _ hx) (ih _ _ h)
          · simp only [hst, if_false] at h
            obtain ⟨x, hx, j, hp, hbr⟩ := ih _ _ h
            rcases mem_setUnion.1 hx with hx | hx
            · exact ⟨x, List.mem_cons_of_mem _ hx, j, hp, hbr⟩
            · exact ⟨cur, by simp, j, path_trans (Path.step (Path.refl _) hl ⟨s, hs, hst⟩ hx) hp, hbr⟩

theorem mem_insertId {x y : Id} {l : List Id} : y ∈ insertId x l ↔ y = x ∨ y ∈ l := by
  induction l with
  | nil => simp [insertId]
  | cons z l ih =>
    simp only [insertId]
    split
    · simp only [List.mem_cons, ih]
      constructor
      · rintro (h | h | h)
        · exact Or.inr (Or.inl h)
        · exact Or.inl h
        · exact Or.inr (Or.inr h)
      · rintro (h | h | h)
        · exact Or.inr (Or.inl h)
        · exact Or.inl h
        · exact Or.inr (Or.inr h)
    · simp

theorem mem_sortIds {y : Id} {l : List Id} : y ∈ sortIds l ↔ y ∈ l := by
  induction l with
  | nil => simp [sortIds]
  | cons x l ih =>
    simp only [sortIds, List.foldr_cons] at ih ⊢
    rw [mem_insertId, ih]
    simp

end Audit

end Audit
