import BobModel.Proofs.C20Names
/-
C20: putting the phases together -- the state after `sanitize` satisfies the invariant on every DAG.
-/
namespace Jenkins

/-- the inputs the theorems quantify over: any finite DAG of package steps (given by a rank function),
ids below `n`, valid dependencies among the dependencies -/
structure WF (g : Graph) (n : Nat) (roots : List Nat) : Prop where
  dag : ∃ rank : Nat → Nat, (∀ v, ∀ d ∈ g.deps v, rank d < rank v) ∧ ∀ v, rank v ≤ n
  depsLt : ∀ v, ∀ d ∈ g.deps v, d < n
  rootsLt : ∀ r ∈ roots, r < n
  vdeps : ∀ v, ∀ d ∈ g.vdeps v, d ∈ g.deps v

theorem foldl_v2j (step : St → Nat → St) (h : ∀ s i, (step s i).v2j = s.v2j) :
    ∀ (P : List Nat) (s : St), (P.foldl step s).v2j = s.v2j := by
  intro P
  induction P with
  | nil => intro s; rfl
  | cons i P ih => intro s; simp only [List.foldl_cons]; rw [ih, h]

theorem addChilds_v2j (X : List Nat) : ∀ (fuel : Nat) (P : List Nat) (s : St), (addChilds fuel P X s).v2j = s.v2j := by
  intro fuel
  induction fuel with
  | zero => intro P s; rfl
  | succ f ih =>
    intro P s
    simp only [addChilds]
    apply foldl_v2j
    intro s i
    skip
    split
    · rfl
    · split
      · rfl
      · rw [ih]; rfl

theorem mergeInto_known {n i j : Nat} {s : St} {k : Nat} (h : s.v2j k ≠ none) : (mergeInto n i j s).v2j k ≠ none := by
  unfold mergeInto
  simp only
  split
  · simp
  · rw [addChilds_v2j]; exact h

theorem inner_known {n i : Nat} : ∀ (rem todo : List Nat) (s : St) (k : Nat), s.v2j k ≠ none →
    (inner n i rem todo s).1.v2j k ≠ none := by
  intro rem
  induction rem with
  | nil => intro todo s k h; exact h
  | cons j rem ih =>
    intro todo s k h
    simp only [inner]
    split
    · exact ih _ s k h
    · exact ih _ _ k (mergeInto_known h)

theorem mergeLoop_known {n : Nat} : ∀ (fuel : Nat) (todo jobs : List Nat) (s : St) (k : Nat), s.v2j k ≠ none →
    (mergeLoop n fuel todo jobs s).1.v2j k ≠ none := by
  intro fuel
  induction fuel with
  | zero => intro todo jobs s k h; exact h
  | succ f ih =>
    intro todo jobs s k h
    cases todo with
    | nil => exact h
    | cons i rest => simp only [mergeLoop]; exact ih _ _ _ k (inner_known _ _ _ k h)

theorem mergeAll_known {n : Nat} (L : List Str) : ∀ (s : St) (k : Nat), s.v2j k ≠ none →
    (L.foldl (mergeName n) s).v2j k ≠ none := by
  induction L with
  | nil => intro s k h; exact h
  | cons nm L ih =>
    intro s k h
    simp only [List.foldl_cons]
    apply ih
    show (mergeLoop n _ _ [] s).1.v2j k ≠ none
    exact mergeLoop_known _ _ _ _ k h

theorem dfsInv_init (g : Graph) (n : Nat) : DfsInv g n St.init :=
  { id := fun v k h => by simp [St.init] at h
    lt := fun v h => by simp [St.init] at h
    pkgs := fun v h => by simp [St.init] at h
    parentsSound := fun v h => by simp [St.init] at h
    childsSound := fun v h => by simp [St.init] at h
    names := ⟨by simp [St.init, keysOf], by simp [St.init, allJobs], fun k => by simp [St.init, allJobs]⟩ }

theorem addRoots_spec {g : Graph} {iso : Str → Bool} {rank : Nat → Nat} {n : Nat}
    (hr : ∀ v, ∀ d ∈ g.deps v, rank d < rank v) (hwf : ∀ v, ∀ d ∈ g.deps v, d < n) (hrk : ∀ v, rank v ≤ n) :
    ∀ (roots : List Nat) (s : St), (∀ r ∈ roots, r < n) → DfsInv g n s → AllDone g rank s (n + 1) →
      DfsInv g n (addRoots g iso (n + 1) roots s) ∧ AllDone g rank (addRoots g iso (n + 1) roots s) (n + 1) ∧
      Stab s (addRoots g iso (n + 1) roots s) ∧ ∀ r ∈ roots, (addRoots g iso (n + 1) roots s).v2j r = some r := by
  intro roots
  induction roots with
  | nil => intro s _ h ha; exact ⟨h, ha, Stab.refl s, fun r hr => by cases hr⟩
  | cons r roots ih =>
    intro s hlt h ha
    simp only [addRoots, List.foldl_cons]
    have hrl : rank r < n + 1 := Nat.lt_succ_of_le (hrk r)
    obtain ⟨p1, p2, _, _, p5, p6⟩ := addStep_spec (iso := iso) hr hwf (n + 1) r [] s (n + 1) hrl hrl (hlt r (by simp)) h ha
      (fun p hp => by cases hp)
    obtain ⟨q1, q2, q3, q4⟩ := ih _ (fun x hx => hlt x (List.mem_cons_of_mem _ hx)) p1 (ha.step p5 p6)
    refine ⟨q1, q2, p5.trans q3, fun x hx => ?_⟩
    rcases List.mem_cons.mp hx with rfl | hx
    · exact (q3 x p2.1).1
    · exact q4 x hx

/-- after spanning the graph, all nodes done: the invariant of the merge phase holds (singleton jobs) -/
theorem dfs_inv {g : Graph} {rank : Nat → Nat} {n B : Nat} {s : St} (hr : ∀ v, ∀ d ∈ g.deps v, rank d < rank v)
    (h : DfsInv g n s) (ha : AllDone g rank s B) (hB : ∀ v, rank v < B) : Inv g n s := by
  have live : ∀ v k, s.v2j v = some k → s.v2j v = some v := fun v k hv => by rw [hv, h.id v k hv]
  have done : ∀ v, s.v2j v = some v → Done g s v := fun v hv => ha v hv (hB v)
  have known : ∀ v, s.v2j v ≠ none → s.v2j v = some v := fun v hv => by
    obtain ⟨k, hk⟩ := Option.ne_none_iff_exists'.mp hv; exact live v k hk
  have same : ∀ a b, SameJobV s.v2j a b → a = b := by
    rintro a b ⟨k, ha', hb'⟩; rw [← h.id a k ha', ← h.id b k hb']
  have closed : ∀ v, s.v2j v ≠ none → ∀ d ∈ g.deps v, s.v2j d ≠ none := by
    intro v hv d hd
    have := ((done v (known v hv)).2.2 d hd).1
    rw [this]; simp
  have q2d : ∀ a b, QReachV g s.v2j a b → DReach g a b := by
    intro a b r
    induction r with
    | refl => exact Reach.refl _
    | tail _ e ih =>
      rcases e with e | ⟨_, e⟩
      · rw [← same _ _ e]; exact ih
      · exact Reach.tail ih e
  have d2q : ∀ a b, s.v2j a ≠ none → DReach g a b → QReachV g s.v2j a b := by
    intro a b ha' r
    induction r with
    | refl => exact Reach.refl _
    | @tail b c _ e ih => exact Reach.tail ih (Or.inr ⟨known_of_reach closed ih ha', e⟩)
  exact {
    lt := fun v k hv => h.lt v (live v k hv)
    rep := fun v k hv => by have := h.id v k hv; subst this; exact hv
    closed := closed
    pkgs := fun k hk w => by
      rw [h.pkgs k hk]; simp only [List.mem_singleton]
      constructor
      · intro e; subst e; exact hk
      · intro hw; exact (h.id w k hw).symm
    parents := fun k hk p => by
      constructor
      · intro hp
        obtain ⟨a, b⟩ := h.parentsSound k hk p hp
        exact ⟨by rw [a]; simp, k, hk, b⟩
      · rintro ⟨hp, w, hw, hd⟩
        have : w = k := (h.id w k hw).symm
        subst this
        exact ((done p (known p hp)).2.2 w hd).2
    childs := fun k hk w => by
      constructor
      · intro hw; exact d2q k w (by rw [hk]; simp) (h.childsSound k hk w hw)
      · intro r; exact (done k hk).2.1 w (q2d k w r)
    acyclic := fun v w r1 r2 hv => by
      have d1 := q2d v w r1
      have d2 := q2d w v r2
      rcases d1.rank hr with e | e
      · subst e; exact ⟨w, known w hv, known w hv⟩
      · rcases d2.rank hr with e' | e'
        · subst e'; exact ⟨v, known v hv, known v hv⟩
        · omega }

/-- the state after `sanitize`'s merge loops, for every DAG, root list and isolate predicate -/
theorem sanitize_final {g : Graph} {n : Nat} {roots : List Nat} (iso : Str → Bool) (wf : WF g n roots) :
    Inv g n (sanitizeSt g n iso roots) ∧ NamesOk (sanitizeSt g n iso roots).names (sanitizeSt g n iso roots) ∧
      ∀ r ∈ roots, (sanitizeSt g n iso roots).v2j r ≠ none := by
  obtain ⟨rank, hr, hrk⟩ := wf.dag
  obtain ⟨a1, a2, _, a4⟩ := addRoots_spec (iso := iso) hr wf.depsLt hrk roots St.init wf.rootsLt (dfsInv_init g n)
    (fun u hu => by simp [St.init] at hu)
  have hinv := dfs_inv hr a1 a2 (fun v => Nat.lt_succ_of_le (hrk v))
  unfold sanitizeSt mergeAll
  obtain ⟨b1, b2⟩ := mergeAll_spec (g := g) (n := n) (isort strLe ((addRoots g iso (n + 1) roots St.init).names.map (·.1)))
    _ hinv a1.names
  refine ⟨b1, b2, fun r hr' => ?_⟩
  apply mergeAll_known
  rw [a4 r hr']; simp

end Jenkins
