import BobModel.Proofs.C18Walk
/-
Helper lemmas for C18 (completeness): `__findReachableSubset` computes the nodes of `valid` that
reach a context node inside `valid` (its fuel suffices), and trimming `valid` with it keeps every
remaining node connected to the root.
-/
namespace PathSpec

theorem unseen_lt' {size : Nat} {ret ret' : List Node} {x : Node}
    (hsub : ∀ y ∈ ret, y ∈ ret') (hx : x ∈ ret') (hlt : x < size) (hnot : x ∉ ret) :
    unseen size ret' < unseen size ret := by
  unfold unseen
  have h1 : ((List.range size).filter (fun i => !ret'.contains i)).length
      ≤ (((List.range size).filter (fun i => !ret.contains i)).filter (fun i => i != x)).length := by
    rw [List.filter_filter]
    apply filter_length_le_of_imp
    intro i
    simp only [Bool.not_eq_true', List.contains_eq_mem, decide_eq_false_iff_not,
      Bool.and_eq_true, bne_iff_ne, ne_eq]
    intro h1
    refine ⟨?_, fun h => h1 (hsub i h)⟩
    intro hix; subst hix; exact h1 hx
  have hxmem : x ∈ (List.range size).filter (fun i => !ret.contains i) := by
    simp [List.mem_filter, hlt, hnot]
  have h2 : (((List.range size).filter (fun i => !ret.contains i)).filter (fun i => i != x)).length
      < ((List.range size).filter (fun i => !ret.contains i)).length := by
    apply List.length_filter_lt_length_iff_exists.mpr
    exact ⟨x, hxmem, by simp⟩
  omega

theorem preds_length_le (g : Graph) (qi : Bool) (x : Node) : (preds g qi x).length ≤ g.size := by
  unfold preds allNodes
  calc _ ≤ (List.range g.size).length := List.length_filter_le _ _
    _ = g.size := List.length_range

/-- the loop of `__findReachableSubset`: the fuel suffices, the result contains the valid start
nodes and is closed under valid parents -/
theorem reachLoop_complete {g : Graph} (valid : List Node) (hvalid : ∀ x ∈ valid, x < g.size) :
    ∀ (fuel : Nat) (todo ret : List Node), todo.length + g.size * unseen g.size ret < fuel →
      (∀ x ∈ ret, x ∈ reachLoop g valid fuel todo ret) ∧
      (∀ n ∈ todo, n ∈ valid → n ∈ reachLoop g valid fuel todo ret) ∧
      ((∀ x ∈ ret, x ∈ valid) → ∀ x ∈ reachLoop g valid fuel todo ret, x ∈ valid) ∧
      ((∀ x ∈ ret, ∀ p ∈ preds g true x, p ∈ valid → p ∈ ret ∨ p ∈ todo) →
        ∀ x ∈ reachLoop g valid fuel todo ret, ∀ p ∈ preds g true x, p ∈ valid →
          p ∈ reachLoop g valid fuel todo ret) := by
  intro fuel
  induction fuel with
  | zero => intro todo ret h; omega
  | succ fuel ih =>
    intro todo ret hfuel
    cases todo with
    | nil =>
      simp only [reachLoop]
      refine ⟨fun _ h => h, by simp, fun h => h, ?_⟩
      intro hcl x hx p hp hpv
      rcases hcl x hx p hp hpv with h | h
      · exact h
      · cases h
    | cons n todo =>
      simp only [reachLoop]
      split
      · rename_i hskip
        have hskip' : n ∈ valid → n ∈ ret := by
          intro hv
          simp only [Bool.or_eq_true, Bool.not_eq_true', List.contains_eq_mem, decide_eq_false_iff_not,
            decide_eq_true_eq] at hskip
          rcases hskip with h | h
          · exact absurd hv h
          · exact h
        obtain ⟨h1, h2, h3, h4⟩ := ih todo ret (by simp only [List.length_cons] at hfuel; omega)
        refine ⟨h1, ?_, h3, ?_⟩
        · intro m hm hmv
          rcases List.mem_cons.mp hm with rfl | hm'
          · exact h1 _ (hskip' hmv)
          · exact h2 m hm' hmv
        · intro hcl
          apply h4
          intro x hx p hp hpv
          rcases hcl x hx p hp hpv with h | h
          · exact Or.inl h
          · rcases List.mem_cons.mp h with rfl | h'
            · exact Or.inl (hskip' hpv)
            · exact Or.inr h'
      · rename_i hskip
        have hn : n ∈ valid ∧ n ∉ ret := by
          simp only [Bool.or_eq_true, Bool.not_eq_true', List.contains_eq_mem, decide_eq_false_iff_not,
            decide_eq_true_eq, not_or, Classical.not_not] at hskip
          exact hskip
        have hun : unseen g.size (n :: ret) < unseen g.size ret :=
          unseen_lt' (fun y hy => List.mem_cons_of_mem _ hy) (List.mem_cons.mpr (Or.inl rfl)) (hvalid n hn.1) hn.2
        have hpl := preds_length_le g true n
        have hmul : g.size * (unseen g.size (n :: ret) + 1) ≤ g.size * unseen g.size ret :=
          Nat.mul_le_mul_left _ hun
        have hmul2 : g.size * (unseen g.size (n :: ret) + 1) = g.size * unseen g.size (n :: ret) + g.size :=
          Nat.mul_succ _ _
        obtain ⟨h1, h2, h3, h4⟩ := ih (preds g true n ++ todo) (n :: ret)
          (by simp only [List.length_cons, List.length_append] at hfuel ⊢; omega)
        refine ⟨fun x hx => h1 x (List.mem_cons_of_mem _ hx), ?_, ?_, ?_⟩
        · intro m hm hmv
          rcases List.mem_cons.mp hm with rfl | hm'
          · exact h1 _ (List.mem_cons.mpr (Or.inl rfl))
          · exact h2 m (List.mem_append_right _ hm') hmv
        · intro hrv
          apply h3
          intro x hx
          rcases List.mem_cons.mp hx with rfl | hx'
          · exact hn.1
          · exact hrv x hx'
        · intro hcl
          apply h4
          intro x hx p hp hpv
          rcases List.mem_cons.mp hx with rfl | hx'
          · exact Or.inr (List.mem_append_left _ hp)
          · rcases hcl x hx' p hp hpv with h | h
            · exact Or.inl (List.mem_cons_of_mem _ h)
            · rcases List.mem_cons.mp h with rfl | h'
              · exact Or.inl (List.mem_cons.mpr (Or.inl rfl))
              · exact Or.inr (List.mem_append_right _ h')

theorem unseen_nil (size : Nat) : unseen size [] = size := by
  unfold unseen
  rw [List.filter_eq_self.mpr (by simp)]
  simp

theorem findReachableSubset_spec {g : Graph} (hwf : g.WF) (valid nodes : List Node)
    (hvalid : ∀ x ∈ valid, x < g.size) :
    (∀ n ∈ nodes, n ∈ valid → n ∈ findReachableSubset g valid nodes) ∧
    (∀ x ∈ findReachableSubset g valid nodes, x ∈ valid) ∧
    (∀ x ∈ findReachableSubset g valid nodes, ∀ p, p ∈ valid → edge g true p x →
      p ∈ findReachableSubset g valid nodes) := by
  unfold findReachableSubset
  obtain ⟨_, h2, h3, h4⟩ := reachLoop_complete valid hvalid (nodes.length + g.size * g.size + g.size + 1) nodes []
    (by rw [unseen_nil]; omega)
  refine ⟨h2, h3 (by simp), ?_⟩
  intro x hx p hpv he
  exact h4 (by simp) x hx p ((mem_preds hwf).mpr ⟨hvalid p hpv, he⟩) hpv

/-! ### trimming keeps `valid` connected to the root -/

theorem pathWithin_append {g : Graph} {valid : List Node} :
    ∀ (s1 : List Str) (a b c : Node) (s2 : List Str), PathWithin g valid a s1 b → PathWithin g valid b s2 c →
      PathWithin g valid a (s1 ++ s2) c
  | [], a, b, c, s2, h1, h2 => by simp only [PathWithin] at h1; subst h1; simpa using h2
  | nm :: rest, a, b, c, s2, h1, h2 => by
    simp only [PathWithin, List.cons_append] at h1 ⊢
    obtain ⟨e, he, hn, hv, hr⟩ := h1
    exact ⟨e, he, hn, hv, pathWithin_append rest _ b c s2 hr h2⟩

/-- the start of a path inside `v2` that ends in `rs` is in `rs` (closed under `v2`-parents) -/
theorem pathWithin_start_mem {g : Graph} {v2 rs : List Node}
    (hcl : ∀ x ∈ rs, ∀ p, p ∈ v2 → edge g true p x → p ∈ rs) :
    ∀ (s : List Str) (c b : Node), PathWithin g v2 c s b → b ∈ rs → c ∈ v2 → c ∈ rs
  | [], c, b, h, hb, _ => by simp only [PathWithin] at h; subst h; exact hb
  | nm :: rest, c, b, h, hb, hc => by
    simp only [PathWithin] at h
    obtain ⟨e, he, _, hv, hr⟩ := h
    have := pathWithin_start_mem hcl rest e.node b hr hb hv
    exact hcl e.node this c hc ⟨e, he, rfl, Or.inl rfl⟩

theorem pathWithin_trim {g : Graph} {v2 rs : List Node}
    (hcl : ∀ x ∈ rs, ∀ p, p ∈ v2 → edge g true p x → p ∈ rs) :
    ∀ (s : List Str) (a b : Node), PathWithin g v2 a s b → b ∈ rs → PathWithin g (inter v2 rs) a s b
  | [], a, b, h, _ => h
  | nm :: rest, a, b, h, hb => by
    simp only [PathWithin] at h ⊢
    obtain ⟨e, he, hn, hv, hr⟩ := h
    refine ⟨e, he, hn, mem_inter.mpr ⟨hv, pathWithin_start_mem hcl rest e.node b hr hb hv⟩, ?_⟩
    exact pathWithin_trim hcl rest e.node b hr hb

/-- every node of `valid` has a real path from `r` inside `valid` -/
def RootConn (g : Graph) (r : Node) (valid : List Node) : Prop :=
  ∀ v ∈ valid, ∃ s, PathWithin g valid r s v

theorem rootConn_trim {g : Graph} (hwf : g.WF) (r : Node) (v2 nodes : List Node)
    (hv2 : ∀ x ∈ v2, x < g.size) (hconn : RootConn g r v2) :
    RootConn g r (inter v2 (findReachableSubset g v2 nodes)) := by
  obtain ⟨_, _, hcl⟩ := findReachableSubset_spec hwf v2 nodes hv2
  intro v hv
  obtain ⟨hv1, hv3⟩ := mem_inter.mp hv
  obtain ⟨s, hs⟩ := hconn v hv1
  exact ⟨s, pathWithin_trim hcl s r v hs hv3⟩

end PathSpec
