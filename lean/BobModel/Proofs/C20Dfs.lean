import BobModel.Proofs.C20Loop
/-
C20: the first phase of `sanitize` (`addStep` from the roots) establishes the invariant of the
merge phase on every DAG: one job per package step, `childs` = reachable package steps,
`parents` = direct dependents.
-/
namespace Jenkins

/-- reachability along dependencies -/
abbrev DReach (g : Graph) : Nat → Nat → Prop := Reach (fun a b => b ∈ g.deps a)

theorem DReach.head_cases {g : Graph} {v w : Nat} (h : DReach g v w) : w = v ∨ ∃ d ∈ g.deps v, DReach g d w := by
  induction h with
  | refl => exact Or.inl rfl
  | @tail b c _ e ih =>
    rcases ih with rfl | ⟨d, hd, r⟩
    · exact Or.inr ⟨c, e, Reach.refl _⟩
    · exact Or.inr ⟨d, hd, Reach.tail r e⟩

theorem DReach.rank {g : Graph} {rank : Nat → Nat} (hr : ∀ v, ∀ d ∈ g.deps v, rank d < rank v) {v w : Nat}
    (h : DReach g v w) : w = v ∨ rank w < rank v := by
  induction h with
  | refl => exact Or.inl rfl
  | @tail b c _ e ih =>
    have := hr b c e
    rcases ih with rfl | ih
    · exact Or.inr this
    · exact Or.inr (Nat.lt_trans this ih)

/-- what holds of every known node while the graph is being spanned (also of nodes in progress) -/
structure DfsInv (g : Graph) (n : Nat) (s : St) : Prop where
  id : ∀ v k, s.v2j v = some k → k = v
  lt : ∀ v, s.v2j v = some v → v < n
  pkgs : ∀ v, s.v2j v = some v → (s.job v).pkgs = [v]
  parentsSound : ∀ v, s.v2j v = some v → ∀ p ∈ (s.job v).parents, s.v2j p = some p ∧ v ∈ g.deps p
  childsSound : ∀ v, s.v2j v = some v → ∀ w ∈ (s.job v).childs, DReach g v w
  names : NamesOk s.names s

/-- a node whose dependencies have all been processed -/
def Done (g : Graph) (s : St) (v : Nat) : Prop :=
  s.v2j v = some v ∧ (∀ w, DReach g v w → w ∈ (s.job v).childs) ∧
    (∀ d ∈ g.deps v, s.v2j d = some d ∧ v ∈ (s.job d).parents)

/-- later states only add: nodes stay known, `childs` and `parents` grow -/
def Stab (s s' : St) : Prop :=
  ∀ u, s.v2j u = some u → s'.v2j u = some u ∧ (∀ w ∈ (s.job u).childs, w ∈ (s'.job u).childs) ∧
    (∀ p ∈ (s.job u).parents, p ∈ (s'.job u).parents)

def NewDone (g : Graph) (s s' : St) : Prop :=
  ∀ u, s'.v2j u = some u → s.v2j u = some u ∨ Done g s' u

theorem Stab.refl (s : St) : Stab s s := fun _ h => ⟨h, fun _ h => h, fun _ h => h⟩

theorem Stab.trans {s1 s2 s3 : St} (a : Stab s1 s2) (b : Stab s2 s3) : Stab s1 s3 := by
  intro u hu
  obtain ⟨a1, a2, a3⟩ := a u hu
  obtain ⟨b1, b2, b3⟩ := b u a1
  exact ⟨b1, fun w hw => b2 w (a2 w hw), fun p hp => b3 p (a3 p hp)⟩

theorem Done.stab {g : Graph} {s s' : St} {v : Nat} (h : Done g s v) (st : Stab s s') : Done g s' v := by
  obtain ⟨h1, h2, h3⟩ := h
  obtain ⟨a1, a2, _⟩ := st v h1
  refine ⟨a1, fun w hw => a2 w (h2 w hw), fun d hd => ?_⟩
  obtain ⟨d1, d2⟩ := h3 d hd
  obtain ⟨b1, _, b3⟩ := st d d1
  exact ⟨b1, b3 v d2⟩

theorem NewDone.trans {g : Graph} {s1 s2 s3 : St} (a : NewDone g s1 s2) (b : NewDone g s2 s3) (st : Stab s2 s3) :
    NewDone g s1 s3 := by
  intro u hu
  rcases b u hu with h | h
  · rcases a u h with h | h
    · exact Or.inl h
    · exact Or.inr (h.stab st)
  · exact Or.inr h

def AllDone (g : Graph) (rank : Nat → Nat) (s : St) (B : Nat) : Prop :=
  ∀ u, s.v2j u = some u → rank u < B → Done g s u

theorem AllDone.step {g : Graph} {rank : Nat → Nat} {s s' : St} {B : Nat} (h : AllDone g rank s B)
    (st : Stab s s') (nw : NewDone g s s') : AllDone g rank s' B := by
  intro u hu hb
  rcases nw u hu with h1 | h1
  · exact (h u h1 hb).stab st
  · exact h1

/-- setting `childs` of a known node to a larger sound set -/
theorem setChilds_facts {g : Graph} {n : Nat} {s : St} {v : Nat} {c : List Nat} (h : DfsInv g n s)
    (hv : s.v2j v = some v) (hsound : ∀ w ∈ c, DReach g v w) (hgrow : ∀ w ∈ (s.job v).childs, w ∈ c) :
    DfsInv g n (setChilds s v c) ∧ Stab s (setChilds s v c) ∧ NewDone g s (setChilds s v c) ∧
      (setChilds s v c).v2j = s.v2j ∧ ((setChilds s v c).job v).childs = c ∧
      ((setChilds s v c).job v).parents = (s.job v).parents ∧ ((setChilds s v c).job v).pkgs = (s.job v).pkgs ∧
      (∀ u, u ≠ v → (setChilds s v c).job u = s.job u) := by
  have jv : (setChilds s v c).job v = { s.job v with childs := c } := by simp [setChilds]
  have jo : ∀ u, u ≠ v → (setChilds s v c).job u = s.job u := fun u hu => by simp [setChilds, upd, hu]
  have hpar : ∀ u, ((setChilds s v c).job u).parents = (s.job u).parents := fun u => by
    by_cases hu : u = v
    · subst hu; rw [jv]
    · rw [jo u hu]
  have hpk : ∀ u, ((setChilds s v c).job u).pkgs = (s.job u).pkgs := fun u => by
    by_cases hu : u = v
    · subst hu; rw [jv]
    · rw [jo u hu]
  have hst : Stab s (setChilds s v c) := by
    intro u hu
    refine ⟨hu, fun w hw => ?_, fun p hp => by rw [hpar]; exact hp⟩
    by_cases huv : u = v
    · subst huv; rw [jv]; exact hgrow w hw
    · rw [jo u huv]; exact hw
  refine ⟨?_, hst, ?_, rfl, by rw [jv], hpar v, hpk v, jo⟩
  · exact {
      id := h.id, lt := h.lt
      pkgs := fun u hu => by rw [hpk]; exact h.pkgs u hu
      parentsSound := fun u hu p hp => by rw [hpar] at hp; exact h.parentsSound u hu p hp
      childsSound := fun u hu w hw => by
        by_cases huv : u = v
        · subst huv; rw [jv] at hw; exact hsound w hw
        · rw [jo u huv] at hw; exact h.childsSound u hu w hw
      names := ⟨h.names.keys, h.names.nodup, h.names.live⟩ }
  · intro u hu; exact Or.inl hu

def setParents (s : St) (j : Nat) (p : List Nat) : St :=
  { s with job := upd s.job j { s.job j with parents := p } }

/-- extending `parents` of a known node by sound parents -/
theorem setParents_facts {g : Graph} {n : Nat} {s : St} {v : Nat} {c : List Nat} (h : DfsInv g n s)
    (hv : s.v2j v = some v) (hsound : ∀ p ∈ c, s.v2j p = some p ∧ v ∈ g.deps p) (hgrow : ∀ p ∈ (s.job v).parents, p ∈ c) :
    DfsInv g n (setParents s v c) ∧ Stab s (setParents s v c) ∧
      ((setParents s v c).job v).childs = (s.job v).childs ∧
      ((setParents s v c).job v).parents = c := by
  have jv : (setParents s v c).job v = { s.job v with parents := c } := by simp [setParents]
  have jo : ∀ u, u ≠ v → (setParents s v c).job u = s.job u := fun u hu => by simp [setParents, upd, hu]
  have hch : ∀ u, ((setParents s v c).job u).childs = (s.job u).childs := fun u => by
    by_cases hu : u = v
    · subst hu; rw [jv]
    · rw [jo u hu]
  have hpk : ∀ u, ((setParents s v c).job u).pkgs = (s.job u).pkgs := fun u => by
    by_cases hu : u = v
    · subst hu; rw [jv]
    · rw [jo u hu]
  refine ⟨?_, ?_, hch v, by rw [jv]⟩
  · exact {
      id := h.id, lt := h.lt
      pkgs := fun u hu => by rw [hpk]; exact h.pkgs u hu
      parentsSound := fun u hu p hp => by
        by_cases huv : u = v
        · subst huv; rw [jv] at hp; exact hsound p hp
        · rw [jo u huv] at hp; exact h.parentsSound u hu p hp
      childsSound := fun u hu w hw => by rw [hch] at hw; exact h.childsSound u hu w hw
      names := ⟨h.names.keys, h.names.nodup, h.names.live⟩ }
  · intro u hu
    refine ⟨hu, fun w hw => by rw [hch]; exact hw, fun p hp => ?_⟩
    by_cases huv : u = v
    · subst huv; rw [jv]; exact hgrow p hp
    · rw [jo u huv]; exact hp

section dfs
variable {g : Graph} {iso : Str → Bool} {rank : Nat → Nat} {n : Nat}

/-- specification of one `addStep` call -/
def StepPost (g : Graph) (n : Nat) (v : Nat) (pp : List Nat) (s : St) (r : St × List Nat) : Prop :=
  DfsInv g n r.1 ∧ Done g r.1 v ∧ (∀ w, w ∈ r.2 ↔ DReach g v w) ∧ (∀ p ∈ pp, p ∈ (r.1.job v).parents) ∧
    Stab s r.1 ∧ NewDone g s r.1

/-- the loop over the dependencies of `v`, given the specification of the recursive calls -/
theorem addDeps_spec (step : Nat → List Nat → St → St × List Nat) (v : Nat) (B : Nat)
    (hstep : ∀ d s, d ∈ g.deps v → DfsInv g n s → AllDone g rank s B → s.v2j v = some v →
      StepPost g n d (s.job v).pkgs s (step d (s.job v).pkgs s)) :
    ∀ (ds : List Nat) (s : St), (∀ d ∈ ds, d ∈ g.deps v) → DfsInv g n s → AllDone g rank s B → s.v2j v = some v →
      DfsInv g n (addDeps step v ds s) ∧ AllDone g rank (addDeps step v ds s) B ∧
      Stab s (addDeps step v ds s) ∧ NewDone g s (addDeps step v ds s) ∧
      (∀ d ∈ ds, (addDeps step v ds s).v2j d = some d ∧ v ∈ ((addDeps step v ds s).job d).parents ∧
        ∀ w, DReach g d w → w ∈ ((addDeps step v ds s).job v).childs) := by
  intro ds
  induction ds with
  | nil =>
    intro s _ h ha _
    simp only [addDeps]
    exact ⟨h, ha, Stab.refl s, fun u hu => Or.inl hu, fun d hd => by cases hd⟩
  | cons d ds ih =>
    intro s hds h ha hv
    simp only [addDeps]
    have hd : d ∈ g.deps v := hds d (by simp)
    have hpost := hstep d s hd h ha hv
    have hpk : (s.job v).pkgs = [v] := h.pkgs v hv
    generalize step d (s.job v).pkgs s = r at hpost ⊢
    obtain ⟨p1, p2, p3, p4, p5, p6⟩ := hpost
    have hv1 : r.1.v2j v = some v := (p5 v hv).1
    generalize hc : union (r.1.job v).childs r.2 = c
    have hsound : ∀ w ∈ c, DReach g v w := by
      intro w hw; rw [← hc] at hw
      rcases mem_union.mp hw with hw | hw
      · exact p1.childsSound v hv1 w hw
      · exact Reach.head hd ((p3 w).mp hw)
    obtain ⟨q1, q2, q3, q4, q5, q6, _, q8⟩ := setChilds_facts (c := c) p1 hv1 hsound
      (fun w hw => by rw [← hc]; exact mem_union.mpr (Or.inl hw))
    have ha1 : AllDone g rank r.1 B := ha.step p5 p6
    have ha2 := ha1.step q2 q3
    have hv2 : (setChilds r.1 v c).v2j v = some v := by rw [q4]; exact hv1
    obtain ⟨r1, r2, r3, r4, r5⟩ := ih _ (fun x hx => hds x (List.mem_cons_of_mem _ hx)) q1 ha2 hv2
    have st02 : Stab s (setChilds r.1 v c) := p5.trans q2
    refine ⟨r1, r2, st02.trans r3, ?_, ?_⟩
    · exact (NewDone.trans (NewDone.trans p6 q3 q2) r4 r3)
    · intro x hx
      rcases List.mem_cons.mp hx with rfl | hx
      · -- the dependency processed in this step
        have hx1 : r.1.v2j x = some x := p2.1
        have hpv : v ∈ (r.1.job x).parents := by
          apply p4; rw [hpk]; simp
        obtain ⟨a1, _, a3⟩ := q2 x hx1
        obtain ⟨b1, _, b3⟩ := r3 x a1
        refine ⟨b1, b3 v (a3 v hpv), fun w hw => ?_⟩
        have : w ∈ ((setChilds r.1 v c).job v).childs := by
          rw [q5, ← hc]; exact mem_union.mpr (Or.inr ((p3 w).mpr hw))
        exact (r3 v hv2).2.1 w this
      · exact r5 x hx

/-- `addStep` on a DAG: by induction on the fuel, which bounds the rank of the node -/
theorem addStep_spec (hr : ∀ v, ∀ d ∈ g.deps v, rank d < rank v) (hwf : ∀ v, ∀ d ∈ g.deps v, d < n) :
    ∀ (fuel : Nat) (v : Nat) (pp : List Nat) (s : St) (B : Nat), rank v < fuel → rank v < B → v < n →
      DfsInv g n s → AllDone g rank s B → (∀ p ∈ pp, s.v2j p = some p ∧ v ∈ g.deps p) →
      StepPost g n v pp s (addStep g iso fuel v pp s) := by
  intro fuel
  induction fuel with
  | zero => intro v pp s B hf; omega
  | succ f ih =>
    intro v pp s B hf hB hvn h ha hpp
    simp only [addStep]
    cases hv : s.v2j v with
    | some j =>
      have hjv : j = v := h.id v j hv
      subst hjv
      have hdone : Done g s j := ha j hv hB
      show StepPost g n j pp s (setParents s j (union (s.job j).parents pp), union (s.job j).pkgs (s.job j).childs)
      obtain ⟨a1, a2, a3, a4⟩ := setParents_facts (c := union (s.job j).parents pp) h hv
        (fun p hp => by
          rcases mem_union.mp hp with hp | hp
          · exact h.parentsSound j hv p hp
          · exact hpp p hp)
        (fun p hp => mem_union.mpr (Or.inl hp))
      refine ⟨a1, hdone.stab a2, ?_, ?_, a2, fun u hu => Or.inl hu⟩
      · intro w
        show w ∈ union (s.job j).pkgs (s.job j).childs ↔ _
        rw [mem_union, h.pkgs j hv]
        constructor
        · rintro (hw | hw)
          · simp at hw; subst hw; exact Reach.refl _
          · exact h.childsSound j hv w hw
        · intro hw; exact Or.inr (hdone.2.1 w hw)
      · intro p hp
        show p ∈ ((setParents s j (union (s.job j).parents pp)).job j).parents
        rw [a4]; exact mem_union.mpr (Or.inr hp)
    | none =>
      simp only []
      -- the new node
      let nm := if iso (g.pkgName v) then g.pkgName v else g.recipe v
      let s1 : St := { v2j := upd s.v2j v (some v), job := upd s.job v ⟨[v], pp, []⟩, names := extendName s.names nm [v] }
      have hv1 : s1.v2j v = some v := by simp [s1]
      have v1o : ∀ u, u ≠ v → s1.v2j u = s.v2j u := fun u hu => by simp [s1, upd, hu]
      have j1v : s1.job v = ⟨[v], pp, []⟩ := by simp [s1]
      have j1o : ∀ u, u ≠ v → s1.job u = s.job u := fun u hu => by simp [s1, upd, hu]
      have hknown : ∀ u, s.v2j u = some u → u ≠ v := fun u hu e => by rw [e, hv] at hu; cases hu
      have hlive1 : ∀ u, s1.v2j u = some u ↔ (s.v2j u = some u ∨ u = v) := by
        intro u
        by_cases huv : u = v
        · subst huv; simp [hv1]
        · rw [v1o u huv]; simp [huv]
      have h1 : DfsInv g n s1 := {
        id := fun u k hu => by
          by_cases huv : u = v
          · subst huv; rw [hv1] at hu; cases hu; rfl
          · rw [v1o u huv] at hu; exact h.id u k hu
        lt := fun u hu => by
          rcases (hlive1 u).mp hu with hu | hu
          · exact h.lt u hu
          · subst hu; exact hvn
        pkgs := fun u hu => by
          rcases (hlive1 u).mp hu with hu | hu
          · rw [j1o u (hknown u hu)]; exact h.pkgs u hu
          · subst hu; rw [j1v]
        parentsSound := fun u hu p hp => by
          rcases (hlive1 u).mp hu with hu' | hu'
          · rw [j1o u (hknown u hu')] at hp
            obtain ⟨a, b⟩ := h.parentsSound u hu' p hp
            exact ⟨(hlive1 p).mpr (Or.inl a), b⟩
          · subst hu'; rw [j1v] at hp
            obtain ⟨a, b⟩ := hpp p hp
            exact ⟨(hlive1 p).mpr (Or.inl a), b⟩
        childsSound := fun u hu w hw => by
          rcases (hlive1 u).mp hu with hu' | hu'
          · rw [j1o u (hknown u hu')] at hw; exact h.childsSound u hu' w hw
          · subst hu'; rw [j1v] at hw; cases hw
        names := by
          refine ⟨nodup_keys_extendName h.names.keys, ?_, ?_⟩
          · refine nodup_allJobs_extendName h.names.nodup (by simp) ?_
            intro k hk hk2
            simp at hk; subst hk
            have := (h.names.live k).mp hk2
            rw [hv] at this; cases this
          · intro k
            show k ∈ allJobs (extendName s.names nm [v]) ↔ _
            rw [mem_allJobs_extendName, hlive1 k, h.names.live k]; simp }
      have st01 : Stab s s1 := by
        intro u hu
        have := hknown u hu
        refine ⟨(hlive1 u).mpr (Or.inl hu), fun w hw => by rw [j1o u this]; exact hw, fun p hp => by rw [j1o u this]; exact hp⟩
      have ha1 : AllDone g rank s1 (rank v) := by
        intro u hu hb
        rcases (hlive1 u).mp hu with hu' | hu'
        · exact (ha u hu' (Nat.lt_trans hb hB)).stab st01
        · subst hu'; omega
      -- the recursive calls
      have hstep : ∀ d s', d ∈ g.deps v → DfsInv g n s' → AllDone g rank s' (rank v) → s'.v2j v = some v →
          StepPost g n d (s'.job v).pkgs s' (addStep g iso f d (s'.job v).pkgs s') := by
        intro d s' hd h' ha' hv'
        have hrd := hr v d hd
        refine ih d (s'.job v).pkgs s' (rank v) (by omega) hrd (hwf v d hd) h' ha' ?_
        intro p hp
        rw [h'.pkgs v hv'] at hp; simp at hp; subst hp
        exact ⟨hv', hd⟩
      have hloop := addDeps_spec (g := g) (n := n) (rank := rank) (addStep g iso f) v (rank v) hstep
        (g.deps v) s1 (fun d hd => hd) h1 ha1 hv1
      show StepPost g n v pp s
        (setChilds (addDeps (addStep g iso f) v (g.deps v) s1) v
            (union ((addDeps (addStep g iso f) v (g.deps v) s1).job v).childs
              (union ((addDeps (addStep g iso f) v (g.deps v) s1).job v).pkgs ((addDeps (addStep g iso f) v (g.deps v) s1).job v).childs)),
          union ((setChilds (addDeps (addStep g iso f) v (g.deps v) s1) v
            (union ((addDeps (addStep g iso f) v (g.deps v) s1).job v).childs
              (union ((addDeps (addStep g iso f) v (g.deps v) s1).job v).pkgs ((addDeps (addStep g iso f) v (g.deps v) s1).job v).childs))).job v).pkgs
            ((setChilds (addDeps (addStep g iso f) v (g.deps v) s1) v
            (union ((addDeps (addStep g iso f) v (g.deps v) s1).job v).childs
              (union ((addDeps (addStep g iso f) v (g.deps v) s1).job v).pkgs ((addDeps (addStep g iso f) v (g.deps v) s1).job v).childs))).job v).childs)
      generalize addDeps (addStep g iso f) v (g.deps v) s1 = s2 at hloop ⊢
      obtain ⟨q1, q2, q3, q4, q5⟩ := hloop
      -- after the loop: add the job's own packages (pass-through of the build step)
      have hv2 : s2.v2j v = some v := (q3 v hv1).1
      have hpk2 : (s2.job v).pkgs = [v] := q1.pkgs v hv2
      generalize hc : union (s2.job v).childs (union (s2.job v).pkgs (s2.job v).childs) = c
      have hcm : ∀ w, w ∈ c ↔ (w ∈ (s2.job v).childs ∨ w = v) := by
        intro w; rw [← hc, mem_union, mem_union, hpk2]; simp
        constructor
        · rintro (h' | h' | h')
          · exact Or.inl h'
          · exact Or.inr h'
          · exact Or.inl h'
        · rintro (h' | h')
          · exact Or.inl h'
          · exact Or.inr (Or.inl h')
      have hsound : ∀ w ∈ c, DReach g v w := by
        intro w hw
        rcases (hcm w).mp hw with hw | hw
        · exact q1.childsSound v hv2 w hw
        · subst hw; exact Reach.refl _
      obtain ⟨t1, t2, t3, t4, t5, t6, t7, t8⟩ := setChilds_facts (c := c) q1 hv2 hsound
        (fun w hw => (hcm w).mpr (Or.inl hw))
      have hv3 : (setChilds s2 v c).v2j v = some v := by rw [t4]; exact hv2
      have hdone3 : Done g (setChilds s2 v c) v := by
        refine ⟨hv3, fun w hw => ?_, fun d hd => ?_⟩
        · rw [t5]
          rcases hw.head_cases with rfl | ⟨d, hd, r⟩
          · exact (hcm w).mpr (Or.inr rfl)
          · exact (hcm w).mpr (Or.inl ((q5 d hd).2.2 w r))
        · obtain ⟨a, b, _⟩ := q5 d hd
          obtain ⟨c1, _, c3⟩ := t2 d a
          exact ⟨c1, c3 v b⟩
      have st13 : Stab s1 (setChilds s2 v c) := q3.trans t2
      refine ⟨t1, hdone3, ?_, ?_, st01.trans st13, ?_⟩
      · intro w
        show w ∈ union ((setChilds s2 v c).job v).pkgs ((setChilds s2 v c).job v).childs ↔ _
        rw [mem_union, t7, hpk2, t5]
        constructor
        · rintro (hw | hw)
          · simp at hw; subst hw; exact Reach.refl _
          · exact hsound w hw
        · intro hw; exact Or.inr (by rw [← t5]; exact hdone3.2.1 w hw)
      · intro p hp
        have : p ∈ (s1.job v).parents := by rw [j1v]; exact hp
        exact (st13 v hv1).2.2 p this
      · intro u hu
        by_cases huv : u = v
        · subst huv; exact Or.inr hdone3
        · rcases (NewDone.trans q4 t3 t2) u hu with h' | h'
          · rw [v1o u huv] at h'; exact Or.inl h'
          · exact Or.inr h'

end dfs

end Jenkins
