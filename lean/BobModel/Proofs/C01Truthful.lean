import BobModel.Proofs.C01Base
/-
`Truthful` is preserved by every micro-operation prefix of the three cook functions
(invalidate-before-run ordering): used by C01 (`cook_preserves_truthful`) and C05
(`truthful_at_every_cut`).
-/
namespace Builder

variable {E : Env} {dev : Bool} {Γ : Path → List (Dir × Digest)}

/-! ## recorded input hashes determine the input contents -/

theorem strip_append_fp (l : Inputs) (b : Bool) (q : Path) :
    strip (l ++ (if b then [some (RH.fp q)] else [])) = strip l := by
  cases b <;> simp [strip, isFp]

theorem strip_inputHashes (st : St) (i : Info) (ds : List Step) :
    strip (inputHashes st i ds) = strip (resultsOf st ds) := by
  unfold inputHashes
  exact strip_append_fp _ _ _

/-- if the result hashes of the inputs, read in a truthful state, are the hashes of `cs`, then
`cs` are the contents of the input workspaces -/
theorem contents_of_hashes (hinj : Function.Injective E.H) {st : St} (h : Truthful E dev Γ st)
    (ds : List Step) (cs : List Content) (heq : strip (resultsOf st ds) = hashes E cs) :
    cs = contentsOf st ds := by
  induction ds generalizing cs with
  | nil =>
    simp [resultsOf, strip, hashes] at heq
    simp [contentsOf, heq]
  | cons d ds ih =>
    have hl := h d.path
    simp only [resultsOf, List.map_cons] at heq
    cases hr : st.results d.path with
    | none =>
      rw [hr] at heq
      cases cs with
      | nil => simp [strip, isFp, hashes] at heq
      | cons c cs' => simp [strip, isFp, hashes] at heq
    | some rh =>
      cases rh with
      | forged t =>
        rw [hr] at heq
        cases cs with
        | nil => simp [strip, isFp, hashes] at heq
        | cons c cs' => simp [strip, isFp, hashes] at heq
      | fp q => exact absurd hr (hl.nofp q)
      | hash hh =>
        rw [hr] at heq
        obtain ⟨c0, hd, hc0⟩ := hl.res hh hr
        cases cs with
        | nil => simp [strip, isFp, hashes] at heq
        | cons c cs' =>
          simp only [strip, isFp, hashes, List.filter_cons, Bool.not_false, if_true, List.map_cons,
            List.cons.injEq, Option.some.injEq, RH.hash.injEq] at heq
          obtain ⟨h1, h2⟩ := heq
          have hc : c = c0 := hinj (by rw [← h1, hc0])
          have := ih cs' h2
          simp [contentsOf, hd, hc, this]

/-! ## states in which path `p` claims nothing -/

/-- no stored claim about the content of `p` is active -/
def NoClaim (st : St) (p : Path) : Prop :=
  st.inputs p = none ∨ st.dirStates p = none ∨ ∃ scms bo, st.dirStates p = some (.co scms none bo)

theorem loc_noclaim {st : St} {p : Path} (hc : NoClaim st p)
    (hnd : st.disk p = none → st.results p = none ∧ st.inputs p = none)
    (hres : ∀ h, st.results p = some (.hash h) → ∃ c, st.disk p = some c ∧ h = E.H c)
    (hfp : ∀ q, st.results p ≠ some (.fp q))
    (hscm : ∀ scms v bo, st.dirStates p = some (.co scms v bo) → ∀ x ∈ scms, x ∈ Γ p) :
    Loc E dev Γ st p := by
  constructor
  · exact hnd
  · exact hres
  · exact hfp
  · intro iv paths hs hd hi
    rcases hc with h | h | ⟨s, b, h⟩
    · rw [hi] at h; cases h
    · rw [hd] at h; cases h
    · rw [hd] at h; cases h
  · intro v hs hd hi
    rcases hc with h | h | ⟨s, b, h⟩
    · rw [hi] at h; cases h
    · rw [hd] at h; cases h
    · rw [hd] at h; cases h
  · intro scms v bo hs cs hd hi
    rcases hc with h | h | ⟨s, b, h⟩
    · rw [hi] at h; cases h
    · rw [hd] at h; cases h
    · rw [hd] at h; cases h
  · exact hscm

/-- a result that is not a hash claims nothing -/
theorem res_vacuous_of_not_hash {st : St} {p : Path} (h : ¬ isHash (st.results p)) :
    ∀ hh, st.results p = some (.hash hh) → ∃ c, st.disk p = some c ∧ hh = E.H c := by
  intro hh heq
  rw [heq] at h
  exact absurd trivial h

/-! ## `_constructDir` -/

structure CDPost (E : Env) (dev : Bool) (Γ : Path → List (Dir × Digest)) (p : Path) (st : St) (mem : Mem)
    (created : Bool) (r' : Run) : Prop where
  truthful : Truthful E dev Γ r'.st
  mem : r'.mem = mem
  disk : ∃ c, r'.st.disk p = some c
  agree : AgreeOff p st r'.st
  results : r'.st.results = st.results
  inputs : r'.st.inputs = st.inputs
  dirStates : r'.st.dirStates = st.dirStates
  variantIds : r'.st.variantIds = st.variantIds
  clock : r'.st.clock = st.clock
  ifCreated : created = true → st.disk p = none ∧ r'.st.disk p = some emptyC
  ifExisted : created = false → r'.st = st

theorem constructDir_spec (p : Path) (r : Run) (h : Truthful E dev Γ r.st) :
    wp (constructDir p) (fun created r' => CDPost E dev Γ p r.st r.mem created r')
      (fun r' => Truthful E dev Γ r'.st) r := by
  unfold constructDir
  simp only [wp_bind, wp_getSt]
  by_cases hd : r.st.disk p = none
  · rw [if_pos (by simp [hd])]
    simp only [wp_bind, wp_pure]
    apply wp_prim_intro
    · exact h
    · intro k l
      have hl := h p
      obtain ⟨hr, hi⟩ := hl.nodisk hd
      have ht : Truthful E dev Γ (r.st.setDisk p emptyC) := by
        apply truthful_of_agree h (agree_setDisk _ _ _)
        apply loc_no_inputs
        · simpa [St.setDisk] using hi
        · simp [St.setDisk]
        · intro hh hq; simp [St.setDisk, hr] at hq
        · intro q; simp [St.setDisk, hr]
        · intro scms v bo hq; exact hl.scm scms v bo (by simpa [St.setDisk] using hq)
      exact { truthful := ht, mem := rfl, disk := ⟨emptyC, by simp [St.setDisk]⟩, agree := agree_setDisk _ _ _,
              results := rfl, inputs := rfl, dirStates := rfl, variantIds := rfl, clock := rfl,
              ifCreated := fun _ => ⟨hd, by simp [St.setDisk]⟩, ifExisted := fun hc => (by cases hc) }
  · rw [if_neg (by simp [hd])]
    simp only [wp_pure]
    obtain ⟨c, hc⟩ := Option.ne_none_iff_exists'.mp hd
    exact { truthful := h, mem := rfl, disk := ⟨c, hc⟩, agree := AgreeOff.refl _ _, results := rfl, inputs := rfl,
            dirStates := rfl, variantIds := rfl, clock := rfl, ifCreated := fun hc => (by cases hc), ifExisted := fun _ => rfl }

/-! ## `_runShell` -/

theorem upd_upd {β : Type} (f : Path → β) (p : Path) (a b : β) : upd (upd f p a) p b = upd f p b := by
  funext q
  simp only [upd]
  split <;> rfl

theorem setDisk_setDisk (st : St) (p : Path) (a b : Content) : (st.setDisk p a).setDisk p b = st.setDisk p b := by
  simp [St.setDisk, upd_upd]

theorem noclaim_setDisk {st : St} {p : Path} (c : Content) (h : NoClaim st p) : NoClaim (st.setDisk p c) p := by
  simpa [NoClaim, St.setDisk] using h

/-- while nothing is claimed about `p` and its result is not a hash, its content may change arbitrarily -/
theorem truthful_setDisk {st : St} {p : Path} (c : Content) (h : Truthful E dev Γ st) (hc : NoClaim st p)
    (hnh : ¬ isHash (st.results p)) : Truthful E dev Γ (st.setDisk p c) := by
  apply truthful_of_agree h (agree_setDisk _ _ _)
  have hl := h p
  apply loc_noclaim (noclaim_setDisk c hc)
  · simp [St.setDisk]
  · apply res_vacuous_of_not_hash; simpa [St.setDisk] using hnh
  · intro q; simpa [St.setDisk] using hl.nofp q
  · intro scms v bo hq; exact hl.scm scms v bo (by simpa [St.setDisk] using hq)

structure RSPost (E : Env) (i : Info) (old : Content) (ins : List Content) (st : St) (mem : Mem) (r' : Run) : Prop where
  sem : ∃ c, E.sem i.sig i.world old ins = .ok c ∧ r'.st = st.setDisk i.path c
  mem : r'.mem = mem

theorem runScript_spec (i : Info) (clean : Bool) (ins : List Content) (r : Run) (h : Truthful E dev Γ r.st)
    (hc : NoClaim r.st i.path) (hnh : ¬ isHash (r.st.results i.path)) :
    wp (runScript E i clean ins)
      (fun _ r' => RSPost E i (if clean then emptyC else (r.st.disk i.path).getD emptyC) ins r.st r.mem r')
      (fun r' => Truthful E dev Γ r'.st) r := by
  unfold runScript
  simp only [wp_bind, wp_getSt]
  apply wp_prim_intro
  · exact h
  · intro k l
    have hj : Truthful E dev Γ (r.st.setDisk i.path E.junk) := truthful_setDisk _ h hc hnh
    cases hs : E.sem i.sig i.world (if clean = true then emptyC else (r.st.disk i.path).getD emptyC) ins with
    | ok c =>
      simp only []
      apply wp_prim_intro
      · exact hj
      · intro k' l'
        exact { sem := ⟨c, hs, setDisk_setDisk _ _ _ _⟩, mem := rfl }
    | fail c =>
      simp only [wp_bind]
      apply wp_prim_intro
      · exact hj
      · intro k' l'
        simp only [wp_abort]
        show Truthful E dev Γ ((r.st.setDisk i.path E.junk).setDisk i.path c)
        rw [setDisk_setDisk]
        exact truthful_setDisk _ h hc hnh

/-! ## the common tail `runRecord` of build and package steps -/

/-- the step at `p` is up to date: for every input list whose hashes are the recorded result hashes
`inH`, the workspace holds what the step's script produces from it and the stored result is its hash -/
def Cooked (E : Env) (dev : Bool) (sig : Sig) (p : Path) (inH : Inputs) (st' : St) : Prop :=
  ∀ cs, strip inH = hashes E cs →
    ∃ c, st'.disk p = some c ∧ st'.results p = some (.hash (E.H c)) ∧ Produced E dev sig cs c

/-- own digest data recorded in a build / package directory state -/
def DSig : DirState → Option Sig
  | .build iv _ => some iv.sig
  | .pkg v => some v.sig
  | .co _ _ _ => none

theorem truthful_delInputs {st : St} (p : Path) (h : Truthful E dev Γ st) : Truthful E dev Γ (st.delInputs p) := by
  apply truthful_of_agree h (agree_delInputs _ _)
  have hl := h p
  apply loc_no_inputs
  · simp [St.delInputs]
  · intro hd; exact (hl.nodisk (by simpa [St.delInputs] using hd)).1
  · intro hh hq; exact hl.res hh (by simpa [St.delInputs] using hq)
  · intro q; simpa [St.delInputs] using hl.nofp q
  · intro scms v bo hq; exact hl.scm scms v bo (by simpa [St.delInputs] using hq)

theorem truthful_forge {st : St} (p : Path) (h : Truthful E dev Γ st) (hc : NoClaim st p)
    (hd : ∃ c, st.disk p = some c) : Truthful E dev Γ (st.forge p) := by
  apply truthful_of_agree h (agree_forge _ _)
  have hl := h p
  obtain ⟨c, hd⟩ := hd
  apply loc_noclaim
  · simpa [NoClaim, St.forge] using hc
  · intro hq; simp [St.forge, hd] at hq
  · intro hh hq; simp [St.forge] at hq
  · intro q; simp [St.forge]
  · intro scms v bo hq; exact hl.scm scms v bo (by simpa [St.forge] using hq)

theorem truthful_setVid {st : St} (p : Path) (v : Vid) (h : Truthful E dev Γ st) : Truthful E dev Γ (st.setVid p v) := by
  intro q
  exact loc_congr (st := st) (st' := st.setVid p v) rfl rfl rfl rfl (h q)

/-- storing the hash of the current content is always sound while nothing else is claimed -/
theorem truthful_setResult_hash {st : St} (p : Path) (c : Content) (h : Truthful E dev Γ st) (hc : NoClaim st p)
    (hd : st.disk p = some c) : Truthful E dev Γ (st.setResult p (.hash (E.H c))) := by
  apply truthful_of_agree h (agree_setResult _ _ _)
  have hl := h p
  apply loc_noclaim
  · simpa [NoClaim, St.setResult] using hc
  · intro hq; simp [St.setResult, hd] at hq
  · intro hh hq
    simp [St.setResult] at hq
    exact ⟨c, by simpa [St.setResult] using hd, hq.symm⟩
  · intro q; simp [St.setResult]
  · intro scms v bo hq; exact hl.scm scms v bo (by simpa [St.setResult] using hq)

theorem runRecord_truthful (hinj : Function.Injective E.H) (i : Info) (clean : Bool) (ins : List Step)
    (inH : Inputs) (iv : St → Vid) (r : Run) (h : Truthful E dev Γ r.st)
    (hstrip : strip inH = strip (resultsOf r.st ins))
    (hdisk : ∃ c, r.st.disk i.path = some c)
    (D : DirState) (hD : r.st.dirStates i.path = some D) (hsig : DSig D = some i.sig)
    (hadm : Adm dev i.sig.kind (if clean then emptyC else (r.st.disk i.path).getD emptyC)) :
    wp (runRecord E i clean r.st ins inH iv)
      (fun _ r' => Truthful E dev Γ r'.st ∧ r'.mem = r.mem ∧ AgreeOff i.path r.st r'.st ∧
        Cooked E dev i.sig i.path inH r'.st ∧ r'.st.inputs i.path = some inH ∧ r'.st.dirStates i.path = some D)
      (fun r' => Truthful E dev Γ r'.st) r := by
  unfold runRecord
  simp only [wp_bind, wp_getSt]
  obtain ⟨c0, hc0⟩ := hdisk
  -- delInputs
  apply wp_prim_intro
  · exact h
  · intro k1 l1
    have h1 : Truthful E dev Γ (r.st.delInputs i.path) := truthful_delInputs _ h
    have nc1 : NoClaim (r.st.delInputs i.path) i.path := Or.inl (by simp [St.delInputs])
    -- forge
    apply wp_prim_intro
    · exact h1
    · intro k2 l2
      have h2 : Truthful E dev Γ ((r.st.delInputs i.path).forge i.path) :=
        truthful_forge _ h1 nc1 ⟨c0, by simpa [St.delInputs] using hc0⟩
      have nc2 : NoClaim ((r.st.delInputs i.path).forge i.path) i.path := Or.inl (by simp [St.delInputs, St.forge])
      have nh2 : ¬ isHash (((r.st.delInputs i.path).forge i.path).results i.path) := by simp [St.forge, isHash]
      -- the script
      have hrs := runScript_spec (E := E) (dev := dev) (Γ := Γ) i clean (contentsOf r.st ins)
        { st := (r.st.delInputs i.path).forge i.path, mem := r.mem, fuel := k2, log := l2 } h2 nc2 nh2
      refine wp_mono _ _ _ _ _ _ ?_ (fun _ hx => hx) hrs
      intro _ r3 hp
      obtain ⟨⟨c, hsem, hst⟩, hmem⟩ := hp
      simp only [] at hst hmem
      have hold : (if clean = true then emptyC else (((r.st.delInputs i.path).forge i.path).disk i.path).getD emptyC)
          = (if clean = true then emptyC else (r.st.disk i.path).getD emptyC) := by
        simp [St.delInputs, St.forge]
      rw [hold] at hsem
      -- state after the script
      have h3 : Truthful E dev Γ r3.st := by
        rw [hst]; exact truthful_setDisk _ h2 nc2 nh2
      have nc3 : NoClaim r3.st i.path := by rw [hst]; exact noclaim_setDisk _ nc2
      have hd3 : r3.st.disk i.path = some c := by rw [hst]; simp [St.setDisk]
      simp only [hashOf, hd3, Option.getD_some]
      -- setResult
      apply wp_prim_intro
      · exact h3
      · intro k4 l4
        have h4 : Truthful E dev Γ (r3.st.setResult i.path (.hash (E.H c))) :=
          truthful_setResult_hash _ _ h3 nc3 hd3
        -- setVid
        apply wp_prim_intro
        · exact h4
        · intro k5 l5
          have h5 := truthful_setVid (E := E) (dev := dev) (Γ := Γ) i.path (iv r3.st) h4
          -- setInputs: now the claim is made
          apply wp_prim_intro
          · exact h5
          · intro k6 l6
            have hagree : AgreeOff i.path r.st ((((r3.st.setResult i.path (.hash (E.H c))).setVid i.path (iv r3.st))).setInputs i.path inH) := by
              rw [hst]
              exact (((((agree_delInputs _ _).trans (agree_forge _ _)).trans (agree_setDisk _ _ _)).trans
                (agree_setResult _ _ _)).trans (agree_setVid _ _ _)).trans (agree_setInputs _ _ _)
            have hclaim : ∀ cs, strip inH = hashes E cs →
                ∃ c', (((r3.st.setResult i.path (.hash (E.H c))).setVid i.path (iv r3.st)).setInputs i.path inH).disk i.path = some c'
                  ∧ Produced E dev i.sig cs c' := by
              intro cs hcs
              have hcs' : cs = contentsOf r.st ins := contents_of_hashes hinj h ins cs (by rw [← hstrip]; exact hcs)
              refine ⟨c, by simpa [St.setResult, St.setVid, St.setInputs] using hd3, ?_⟩
              exact ⟨i.world, _, hadm, by rw [hcs']; exact hsem⟩
            have hcooked : Cooked E dev i.sig i.path inH
                (((r3.st.setResult i.path (.hash (E.H c))).setVid i.path (iv r3.st)).setInputs i.path inH) := by
              intro cs hcs
              obtain ⟨c', h1, h2⟩ := hclaim cs hcs
              have hcc : c' = c := by
                have : (((r3.st.setResult i.path (.hash (E.H c))).setVid i.path (iv r3.st)).setInputs i.path inH).disk i.path = some c := by
                  simpa [St.setResult, St.setVid, St.setInputs] using hd3
                rw [this] at h1; exact (Option.some.inj h1).symm
              subst hcc
              exact ⟨c', h1, by simp [St.setResult, St.setVid, St.setInputs], h2⟩
            have hDf : (((r3.st.setResult i.path (.hash (E.H c))).setVid i.path (iv r3.st)).setInputs i.path inH).dirStates i.path = some D := by
              rw [hst]; simpa [St.setResult, St.setVid, St.setInputs, St.setDisk, St.forge, St.delInputs] using hD
            refine ⟨?_, hmem, hagree, hcooked, by simp [St.setInputs], hDf⟩
            apply truthful_of_agree h hagree
            have hl := h i.path
            constructor
            · intro hq; simp [St.setResult, St.setVid, St.setInputs, hd3] at hq
            · intro hh hq
              simp [St.setResult, St.setVid, St.setInputs] at hq
              exact ⟨c, by simpa [St.setResult, St.setVid, St.setInputs] using hd3, hq.symm⟩
            · intro q; simp [St.setResult, St.setVid, St.setInputs]
            · intro iv' paths hs hd hi
              rw [hDf] at hd
              cases hd
              simp only [DSig, Option.some.injEq] at hsig
              have hi' : hs = inH := by simpa [St.setInputs] using hi.symm
              subst hi'
              refine ⟨by simp [St.setResult, St.setVid, St.setInputs, isHash], ?_⟩
              rw [hsig]; exact hclaim
            · intro v hs hd hi
              rw [hDf] at hd
              cases hd
              simp only [DSig, Option.some.injEq] at hsig
              have hi' : hs = inH := by simpa [St.setInputs] using hi.symm
              subst hi'
              refine ⟨by simp [St.setResult, St.setVid, St.setInputs, isHash], ?_⟩
              rw [hsig]; exact hclaim
            · intro scms v bo hs cs hd
              rw [hDf] at hd
              cases hd
              simp [DSig] at hsig
            · intro scms v bo hd
              rw [hDf] at hd
              cases hd
              simp [DSig] at hsig

/-! ## `_cookBuildStep` -/

theorem truthful_reset {st : St} (p : Path) (d : Option DirState) (h : Truthful E dev Γ st)
    (hscm : ∀ scms v bo, d = some (.co scms v bo) → ∀ x ∈ scms, x ∈ Γ p) :
    Truthful E dev Γ (st.reset p d) := by
  apply truthful_of_agree h (agree_reset _ _ _)
  apply loc_no_inputs
  · simp [St.reset]
  · intro _; simp [St.reset]
  · intro hh hq; simp [St.reset] at hq
  · intro q; simp [St.reset]
  · intro scms v bo hq; exact hscm scms v bo (by simpa [St.reset] using hq)

/-- re-hashing a workspace (develop mode "the user might have compiled the package manually") -/
theorem truthful_rehash {st : St} (p : Path) (c : Content) (h : Truthful E dev Γ st) (hd : st.disk p = some c)
    (hnoco : ∀ scms v bo, st.dirStates p ≠ some (.co scms (some v) bo)) :
    Truthful E dev Γ (st.setResult p (.hash (E.H c))) := by
  apply truthful_of_agree h (agree_setResult _ _ _)
  have hl := h p
  constructor
  · intro hq; simp [St.setResult, hd] at hq
  · intro hh hq
    simp [St.setResult] at hq
    exact ⟨c, by simpa [St.setResult] using hd, hq.symm⟩
  · intro q; simp [St.setResult]
  · intro iv paths hs hdd hi
    refine ⟨by simp [St.setResult, isHash], ?_⟩
    exact (hl.bld iv paths hs (by simpa [St.setResult] using hdd) (by simpa [St.setResult] using hi)).2
  · intro v hs hdd hi
    refine ⟨by simp [St.setResult, isHash], ?_⟩
    exact (hl.pkg v hs (by simpa [St.setResult] using hdd) (by simpa [St.setResult] using hi)).2
  · intro scms v bo hs cs hdd
    exact absurd (by simpa [St.setResult] using hdd) (hnoco scms v bo)
  · intro scms v bo hq; exact hl.scm scms v bo (by simpa [St.setResult] using hq)

theorem resultsOf_agree {p : Path} {st st' : St} (ha : AgreeOff p st st') (ds : List Step)
    (hacyc : ∀ d ∈ ds, d.path ≠ p) : resultsOf st' ds = resultsOf st ds := by
  unfold resultsOf
  apply List.map_congr_left
  intro d hd
  exact (ha d.path (hacyc d hd)).1

theorem inputHashes_agree {p : Path} {st st' : St} (ha : AgreeOff p st st') (i : Info) (ds : List Step)
    (hacyc : ∀ d ∈ ds, d.path ≠ p) : inputHashes st' i ds = inputHashes st i ds := by
  unfold inputHashes
  rw [resultsOf_agree ha ds hacyc]

theorem ivid_agree {p : Path} {st st' : St} (ha : AgreeOff p st st') (i : Info) (ds : List Step)
    (hacyc : ∀ d ∈ ds, d.path ≠ p) : ivid st' i ds = ivid st i ds := by
  unfold ivid
  congr 1
  apply List.map_congr_left
  intro d hd
  rw [(ha d.path (hacyc d hd)).2.2.2.2]

theorem ivid_sig (st : St) (i : Info) (ds : List Step) : (ivid st i ds).sig = i.sig := by
  simp [ivid, Vid.sig]

theorem cookBuild_truthful (hfix : Consts.C01.buildPruneInvalidatesFirst = true)
    (hinj : Function.Injective E.H) (cfg : Cfg) (hdev : cfg.cleanBuild = false → dev = true)
    (i : Info) (ds : List Step) (hk : i.sig.kind = .build) (hacyc : ∀ d ∈ ds, d.path ≠ i.path)
    (r : Run) (h : Truthful E dev Γ r.st) :
    wp (cookBuild E cfg i ds)
      (fun _ r' => Truthful E dev Γ r'.st ∧ r'.mem = r.mem ∧ AgreeOff i.path r.st r'.st ∧
        Cooked E dev i.sig i.path (inputHashes r.st i ds) r'.st ∧
        r'.st.inputs i.path = some (inputHashes r.st i ds) ∧
        r'.st.dirStates i.path = some (DirState.build (ivid r.st i ds) (i.execPath :: ds.map fun d => d.info.execPath)))
      (fun r' => Truthful E dev Γ r'.st) r := by
  unfold cookBuild
  simp only [wp_bind, wp_getSt]
  refine wp_mono _ _ _ _ _ _ ?_ (fun _ hx => hx) (constructDir_spec (E := E) (dev := dev) (Γ := Γ) i.path r h)
  intro created r1 hp
  obtain ⟨c1, hc1⟩ := hp.disk
  -- the tail after the directory is in shape: state `r2` with the digest stored
  have tail : ∀ r2 : Run, Truthful E dev Γ r2.st → r2.mem = r.mem → AgreeOff i.path r.st r2.st →
      (∃ c, r2.st.disk i.path = some c) →
      r2.st.dirStates i.path = some (DirState.build (ivid r.st i ds) (i.execPath :: ds.map fun d => d.info.execPath)) →
      wp (do
          let st ← getSt
          let inH := inputHashes st i ds
          if (!cfg.force && decide (st.inputs i.path = some inH)) = true then
            whenM (!cfg.cleanBuild) (prim (.setResult i.path (hashOf E st i.path)) (fun s => s.setResult i.path (hashOf E st i.path)))
          else runRecord E i cfg.cleanBuild st ds inH (fun _ => ivid r.st i ds))
        (fun _ r' => Truthful E dev Γ r'.st ∧ r'.mem = r.mem ∧ AgreeOff i.path r.st r'.st ∧
          Cooked E dev i.sig i.path (inputHashes r.st i ds) r'.st ∧
          r'.st.inputs i.path = some (inputHashes r.st i ds) ∧
          r'.st.dirStates i.path = some (DirState.build (ivid r.st i ds) (i.execPath :: ds.map fun d => d.info.execPath)))
        (fun r' => Truthful E dev Γ r'.st) r2 := by
    intro r2 h2 hm2 ha2 hd2 hD2
    simp only [wp_bind, wp_getSt]
    obtain ⟨c2, hc2⟩ := hd2
    have hin2 : inputHashes r2.st i ds = inputHashes r.st i ds := inputHashes_agree ha2 i ds hacyc
    split
    · -- skipped
      rename_i hskip
      have hinp : r2.st.inputs i.path = some (inputHashes r2.st i ds) := by
        have := hskip
        simp only [Bool.and_eq_true, decide_eq_true_eq] at this
        exact this.2
      obtain ⟨hish, hcl⟩ := (h2 i.path).bld _ _ _ hD2 hinp
      have hres2 : r2.st.results i.path = some (.hash (E.H c2)) := by
        cases hr : r2.st.results i.path with
        | none => rw [hr] at hish; exact absurd hish (by simp [isHash])
        | some rh =>
          cases rh with
          | hash hh =>
            obtain ⟨c', hd', hh'⟩ := (h2 i.path).res hh hr
            rw [hc2] at hd'; cases hd'; rw [hh']
          | forged t => rw [hr] at hish; exact absurd hish (by simp [isHash])
          | fp q => rw [hr] at hish; exact absurd hish (by simp [isHash])
      cases hcb : cfg.cleanBuild with
      | true =>
        simp only [Bool.not_true, wp_whenM_false]
        refine ⟨h2, hm2, ha2, ?_, by rw [← hin2]; exact hinp, hD2⟩
        intro cs hcs
        rw [← hin2] at hcs
        obtain ⟨c, hdc, hpc⟩ := hcl cs hcs
        rw [hc2] at hdc; cases hdc
        exact ⟨c2, hc2, hres2, by simpa [ivid_sig] using hpc⟩
      | false =>
        simp only [Bool.not_false, wp_whenM_true]
        apply wp_prim_intro
        · exact h2
        · intro k l
          simp only [hashOf, hc2, Option.getD_some]
          refine ⟨?_, hm2, ha2.trans (agree_setResult _ _ _), ?_, by rw [← hin2]; simpa [St.setResult] using hinp,
            by simpa [St.setResult] using hD2⟩
          · apply truthful_rehash _ _ h2 hc2
            intro scms v bo hq; rw [hD2] at hq; cases hq
          · intro cs hcs
            rw [← hin2] at hcs
            obtain ⟨c, hdc, hpc⟩ := hcl cs hcs
            rw [hc2] at hdc; cases hdc
            exact ⟨c2, by simpa [St.setResult] using hc2, by simp [St.setResult], by simpa [ivid_sig] using hpc⟩
    · -- executed
      have := runRecord_truthful (E := E) (dev := dev) (Γ := Γ) hinj i cfg.cleanBuild ds (inputHashes r2.st i ds)
        (fun _ => ivid r.st i ds) r2 h2 (strip_inputHashes _ _ _) ⟨c2, hc2⟩ _ hD2 (by simp [DSig, ivid_sig]) (by
          cases hcb : cfg.cleanBuild with
          | true => exact Or.inl (by simp)
          | false => exact Or.inr (Or.inr ⟨hk, hdev hcb⟩))
      refine wp_mono _ _ _ _ _ _ ?_ (fun _ hx => hx) this
      intro _ r3 ⟨h3, hm3, ha3, hck3, hi3, hd3⟩
      exact ⟨h3, hm3.trans hm2, ha2.trans ha3, by rw [← hin2]; exact hck3, by rw [← hin2]; exact hi3, hd3⟩
  simp only [hp.dirStates]
  split
  · -- created or digest changed: prune and reset
    rename_i hcond
    cases hcr : created with
    | true =>
      simp only [Bool.not_true, Bool.false_eq_true, if_false, wp_bind, wp_pure]
      apply wp_prim_intro
      · exact hp.truthful
      · intro k l
        apply tail
        · exact truthful_reset _ _ hp.truthful (by intro scms v bo hq; cases hq)
        · exact hp.mem
        · exact hp.agree.trans (agree_reset _ _ _)
        · exact ⟨c1, by simpa [St.reset] using hc1⟩
        · simp [St.reset]
    | false =>
      simp only [Bool.not_false, if_true, wp_bind, wp_pure, hfix, wp_whenM_true]
      -- invalidate first ...
      apply wp_prim_intro
      · exact hp.truthful
      · intro k1 l1
        have h1 : Truthful E dev Γ (r1.st.reset i.path none) := truthful_reset _ _ hp.truthful (by intro scms v bo hq; cases hq)
        -- ... then empty the workspace
        apply wp_prim_intro
        · exact h1
        · intro k2 l2
          have h2 : Truthful E dev Γ ((r1.st.reset i.path none).setDisk i.path emptyC) :=
            truthful_setDisk _ h1 (Or.inl (by simp [St.reset])) (by simp [St.reset, isHash])
          apply wp_prim_intro
          · exact h2
          · intro k3 l3
            apply tail
            · exact truthful_reset _ _ h2 (by intro scms v bo hq; cases hq)
            · exact hp.mem
            · exact ((hp.agree.trans (agree_reset _ _ _)).trans (agree_setDisk _ _ _)).trans (agree_reset _ _ _)
            · exact ⟨emptyC, by simp [St.reset, St.setDisk]⟩
            · simp [St.reset]
  · -- directory exists with the right digest
    rename_i hcond
    simp only [wp_pure]
    apply tail r1 hp.truthful hp.mem hp.agree ⟨c1, hc1⟩
    have : ¬ (created = true ∨ ¬ r.st.dirStates i.path = some (DirState.build (ivid r.st i ds) (i.execPath :: ds.map fun d => d.info.execPath))) := by
      simpa using hcond
    have h' := not_or.mp this
    rw [hp.dirStates]
    exact Classical.not_not.mp h'.2

/-! ## `_preparePackageStep`, `_cookPackageStep` -/

structure PPPost (E : Env) (dev : Bool) (Γ : Path → List (Dir × Digest)) (p : Path) (d : DirState) (st : St)
    (mem : Mem) (r' : Run) : Prop where
  truthful : Truthful E dev Γ r'.st
  mem : r'.mem = mem
  agree : AgreeOff p st r'.st
  /-- afterwards either nothing is on disk, or the stored directory state is the step's variant id -/
  shape : r'.st.disk p = none ∨ r'.st.dirStates p = some d
  dir : r'.st.disk p = none → r'.st.dirStates p = some d

theorem preparePackage_truthful (hfix : Consts.C01.packagePruneInvalidatesFirst = true)
    (i : Info) (ds : List Step) (r : Run) (h : Truthful E dev Γ r.st) :
    wp (preparePackage i ds)
      (fun _ r' => PPPost E dev Γ i.path (DirState.pkg (.mk i.sig (vids ds))) r.st r.mem r')
      (fun r' => Truthful E dev Γ r'.st) r := by
  unfold preparePackage
  simp only [wp_bind, wp_getSt]
  cases hd : r.st.disk i.path with
  | none =>
    simp only [Option.isSome_none, Bool.false_and, Bool.false_eq_true, if_false, wp_pure, Bool.not_false, wp_whenM_true]
    apply wp_prim_intro
    · exact h
    · intro k l
      exact { truthful := truthful_reset _ _ h (by intro scms v bo hq; cases hq), mem := rfl,
              agree := agree_reset _ _ _, shape := Or.inr (by simp [St.reset]), dir := fun _ => by simp [St.reset] }
  | some c =>
    simp only [Option.isSome_some, Bool.true_and]
    split
    · simp only [wp_bind, wp_pure, hfix, wp_whenM_true, Bool.not_false]
      apply wp_prim_intro
      · exact h
      · intro k1 l1
        have h1 : Truthful E dev Γ (r.st.reset i.path none) := truthful_reset _ _ h (by intro scms v bo hq; cases hq)
        apply wp_prim_intro
        · exact h1
        · intro k2 l2
          have h2 : Truthful E dev Γ ((r.st.reset i.path none).setDisk i.path emptyC) :=
            truthful_setDisk _ h1 (Or.inl (by simp [St.reset])) (by simp [St.reset, isHash])
          apply wp_prim_intro
          · exact h2
          · intro k3 l3
            exact { truthful := truthful_reset _ _ h2 (by intro scms v bo hq; cases hq), mem := rfl,
                    agree := ((agree_reset _ _ _).trans (agree_setDisk _ _ _)).trans (agree_reset _ _ _),
                    shape := Or.inr (by simp [St.reset]), dir := fun _ => by simp [St.reset] }
    · rename_i hcond
      simp only [wp_pure, Bool.not_true, wp_whenM_false]
      have hq : r.st.dirStates i.path = some (DirState.pkg (.mk i.sig (vids ds))) := by simpa using hcond
      exact { truthful := h, mem := rfl, agree := AgreeOff.refl _ _, shape := Or.inr hq, dir := fun _ => hq }

theorem cookPackage_truthful (hinj : Function.Injective E.H) (cfg : Cfg) (i : Info) (pre ds : List Step) (r : Run)
    (h : Truthful E dev Γ r.st)
    (hshape : r.st.disk i.path = none → r.st.dirStates i.path = some (DirState.pkg (.mk i.sig (vids ds))))
    (hshape' : r.st.disk i.path = none ∨ r.st.dirStates i.path = some (DirState.pkg (.mk i.sig (vids ds)))) :
    wp (cookPackage E cfg i pre ds)
      (fun _ r' => Truthful E dev Γ r'.st ∧ r'.mem = r.mem ∧ AgreeOff i.path r.st r'.st ∧
        Cooked E dev i.sig i.path (inputHashes r.st i (pre ++ ds)) r'.st ∧
        r'.st.inputs i.path = some (inputHashes r.st i (pre ++ ds)) ∧
        r'.st.dirStates i.path = some (DirState.pkg (.mk i.sig (vids ds))))
      (fun r' => Truthful E dev Γ r'.st) r := by
  unfold cookPackage
  simp only [wp_bind, wp_getSt]
  refine wp_mono _ _ _ _ _ _ ?_ (fun _ hx => hx) (constructDir_spec (E := E) (dev := dev) (Γ := Γ) i.path r h)
  intro created r1 hp
  obtain ⟨c1, hc1⟩ := hp.disk
  have hD : r1.st.dirStates i.path = some (DirState.pkg (.mk i.sig (vids ds))) := by
    rw [hp.dirStates]
    rcases hshape' with hn | hq
    · exact hshape hn
    · exact hq
  have hin1 : inputHashes r1.st i (pre ++ ds) = inputHashes r.st i (pre ++ ds) := by
    unfold inputHashes resultsOf; rw [hp.results]
  split
  · rename_i hskip
    simp only [wp_pure]
    have hinp : r1.st.inputs i.path = some (inputHashes r1.st i (pre ++ ds)) := by
      have := hskip
      simp only [Bool.and_eq_true, decide_eq_true_eq] at this
      exact this.2
    obtain ⟨hish, hcl⟩ := (hp.truthful i.path).pkg _ _ hD hinp
    have hres1 : r1.st.results i.path = some (.hash (E.H c1)) := by
      cases hr : r1.st.results i.path with
      | none => rw [hr] at hish; exact absurd hish (by simp [isHash])
      | some rh =>
        cases rh with
        | hash hh =>
          obtain ⟨c', hd', hh'⟩ := (hp.truthful i.path).res hh hr
          rw [hc1] at hd'; cases hd'; rw [hh']
        | forged t => rw [hr] at hish; exact absurd hish (by simp [isHash])
        | fp q => rw [hr] at hish; exact absurd hish (by simp [isHash])
    refine ⟨hp.truthful, hp.mem, hp.agree, ?_, by rw [← hin1]; exact hinp, hD⟩
    intro cs hcs
    rw [← hin1] at hcs
    obtain ⟨c, hdc, hpc⟩ := hcl cs hcs
    rw [hc1] at hdc; cases hdc
    exact ⟨c1, hc1, hres1, by simpa [Vid.sig] using hpc⟩
  · have := runRecord_truthful (E := E) (dev := dev) (Γ := Γ) hinj i true (pre ++ ds) (inputHashes r1.st i (pre ++ ds))
      (fun st2 => ivid st2 i ds) r1 hp.truthful (strip_inputHashes _ _ _) ⟨c1, hc1⟩ _ hD (by simp [DSig, Vid.sig])
      (Or.inl (by simp))
    refine wp_mono _ _ _ _ _ _ ?_ (fun _ hx => hx) this
    intro _ r3 ⟨h3, hm3, ha3, hck3, hi3, hd3⟩
    exact ⟨h3, hm3.trans hp.mem, hp.agree.trans ha3, by rw [← hin1]; exact hck3, by rw [← hin1]; exact hi3, hd3⟩

/-! ## `_cookCheckoutStep` -/

/-- the SCM layout of a path assigns one digest per directory -/
def FunScm (l : List (Dir × Digest)) : Prop := ∀ d g g', (d, g) ∈ l → (d, g') ∈ l → g = g'

theorem lookupScm_of_mem {l : List (Dir × Digest)} (hf : FunScm l) {d : Dir} {g : Digest} (hm : (d, g) ∈ l) :
    lookupScm l d = some g := by
  induction l with
  | nil => cases hm
  | cons x rest ih =>
    obtain ⟨d', g'⟩ := x
    simp only [lookupScm]
    by_cases hd : d' = d
    · subst hd
      simp only [if_true]
      have := hf d' g' g (by simp) hm
      rw [this]
    · simp only [hd, if_false]
      apply ih
      · intro a b c h1 h2; exact hf a b c (by simp [h1]) (by simp [h2])
      · rcases List.mem_cons.mp hm with h | h
        · cases h; exact absurd rfl hd
        · exact h

/-- when every recorded SCM directory still has its digest, nothing is moved to the attic -/
theorem atticLoop_noop (cfg : Cfg) (p : Path) (new : List (Dir × Digest)) (hf : FunScm new) (ov : Option Vid)
    (ob : Option BoState) (old keep : List (Dir × Digest)) (hsub : ∀ x ∈ old, x ∈ new) :
    atticLoop E cfg p new ov ob old keep = pure keep := by
  induction old generalizing keep with
  | nil => simp [atticLoop]
  | cons x rest ih =>
    obtain ⟨d, g⟩ := x
    have hl : lookupScm new d = some g := lookupScm_of_mem hf (hsub (d, g) (by simp))
    simp only [atticLoop, hl, ne_eq, not_true_eq_false, if_false]
    exact ih keep (fun y hy => hsub y (by simp [hy]))

/-- WF conditions of a checkout step the invariant needs -/
structure CoWF (Γ : Path → List (Dir × Digest)) (i : Info) (ds : List Step) : Prop where
  scms : i.scms = Γ i.path
  funscm : FunScm (Γ i.path)
  /-- a checkout without script (SCMs only) has no dependencies -/
  noscript : i.hasScript = false → ds = []

theorem contentsOf_setDir (st : St) (p : Path) (d : DirState) (ds : List Step) :
    contentsOf (st.setDir p d) ds = contentsOf st ds := by
  simp [contentsOf, St.setDir]

/-- storing the hash of a checkout workspace whose (unguarded) claim holds -/
theorem truthful_co_setResult {st : St} (p : Path) (c : Content) (h : Truthful E dev Γ st)
    (hd : st.disk p = some c)
    (hco : ∃ scms v bo, st.dirStates p = some (.co scms v bo))
    (hclaim : ∀ scms v bo hs cs, st.dirStates p = some (.co scms (some v) bo) → st.inputs p = some hs →
      strip hs = hashes E cs → cs.length = v.deps.length → ∃ c', st.disk p = some c' ∧ Produced E dev v.sig cs c') :
    Truthful E dev Γ (st.setResult p (.hash (E.H c))) := by
  apply truthful_of_agree h (agree_setResult _ _ _)
  have hl := h p
  obtain ⟨s0, v0, b0, hq0⟩ := hco
  constructor
  · intro hq; simp [St.setResult, hd] at hq
  · intro hh hq
    simp [St.setResult] at hq
    exact ⟨c, by simpa [St.setResult] using hd, hq.symm⟩
  · intro q; simp [St.setResult]
  · intro iv paths hs hdd; simp [St.setResult, hq0] at hdd
  · intro v hs hdd; simp [St.setResult, hq0] at hdd
  · intro scms v bo hs cs hdd hi hs' hlen _
    obtain ⟨c', h1, h2⟩ := hclaim scms v bo hs cs (by simpa [St.setResult] using hdd) (by simpa [St.setResult] using hi) hs' hlen
    exact ⟨c', by simpa [St.setResult] using h1, h2⟩
  · intro scms v bo hq; exact hl.scm scms v bo (by simpa [St.setResult] using hq)

structure CRPost (E : Env) (dev : Bool) (Γ : Path → List (Dir × Digest)) (i : Info) (ds : List Step) (inH : Inputs)
    (st : St) (mem : Mem) (oh : Option RH) (r' : Run) : Prop where
  truthful : Truthful E dev Γ r'.st
  mem : r'.mem = mem
  agree : AgreeOff i.path st r'.st
  disk : ∃ c, r'.st.disk i.path = some c
  dir : ∃ bo, r'.st.dirStates i.path = some (.co i.scms (some (Vid.mk i.sig (vids ds))) bo)
  inputs : r'.st.inputs i.path = some inH
  ohNotHash : ¬ isHash oh
  claim : ∀ cs, strip inH = hashes E cs → ∃ c, r'.st.disk i.path = some c ∧ Produced E dev i.sig cs c
  /-- the script ran in this invocation, i.e. with the current external world -/
  claimW : ∀ cs, strip inH = hashes E cs → ∃ c old, r'.st.disk i.path = some c ∧ E.sem i.sig i.world old cs = .ok c
  dirFull : r'.st.dirStates i.path =
    some (.co i.scms (some (Vid.mk i.sig (vids ds))) (some { loc := i.boLoc, upd := i.boUpd, ins := inH }))
  vid : r'.st.variantIds i.path = some (ivid r'.st i ds)

theorem vids_length (ds : List Step) : (vids ds).length = ds.length := by
  induction ds with
  | nil => simp [vids]
  | cons d ds ih => simp [vids, ih]

theorem checkoutRun_truthful (hinj : Function.Injective E.H) (cfg : Cfg) (i : Info) (ds : List Step)
    (hwf : CoWF Γ i ds) (hk : i.sig.kind = .checkout) (hacyc : ∀ d ∈ ds, d.path ≠ i.path) (old : OldCo)
    (oldHash : Option RH)
    (r : Run) (h : Truthful E dev Γ r.st) (hold : ∀ x ∈ old.1, x ∈ Γ i.path)
    (hdisk : ∃ c, r.st.disk i.path = some c) (hoh : oldHash = r.st.results i.path) :
    wp (checkoutRun E cfg i ds old oldHash (resultsOf r.st ds))
      (fun oh r' => CRPost E dev Γ i ds (resultsOf r.st ds) r.st r.mem oh r')
      (fun r' => Truthful E dev Γ r'.st) r := by
  unfold checkoutRun
  obtain ⟨c0, hc0⟩ := hdisk
  have hl := h i.path
  simp only [wp_bind, wp_pure, wp_getSt]
  rw [atticLoop_noop cfg i.path i.scms (by rw [hwf.scms]; exact hwf.funscm) old.2.1 old.2.2 old.1 old.1
    (by rw [hwf.scms]; exact hold)]
  simp only [wp_pure]
  split
  · simp only [wp_bind, wp_abort]; exact h
  · -- setDir without the variant-id key
    simp only [wp_bind, wp_getSt, wp_pure]
    apply wp_prim_intro
    · exact h
    · intro k1 l1
      let d1 : DirState := .co i.scms none (some { loc := i.boLoc, upd := i.boUpd, ins := resultsOf r.st ds })
      have nc1 : NoClaim (r.st.setDir i.path d1) i.path := Or.inr (Or.inr ⟨i.scms, some { loc := i.boLoc, upd := i.boUpd, ins := resultsOf r.st ds }, by simp [St.setDir, d1]⟩)
      have h1 : Truthful E dev Γ (r.st.setDir i.path d1) := by
        apply truthful_of_agree h (agree_setDir _ _ _)
        apply loc_noclaim nc1
        · intro hq; simp [St.setDir, hc0] at hq
        · intro hh hq; exact hl.res hh (by simpa [St.setDir] using hq)
        · intro q; simpa [St.setDir] using hl.nofp q
        · intro scms v bo hq
          simp only [St.setDir, upd_same, Option.some.injEq, d1] at hq
          cases hq
          intro x hx; rw [← hwf.scms]; exact hx
      have hd1 : (r.st.setDir i.path d1).disk i.path = some c0 := by simpa [St.setDir] using hc0
      -- the part after the (possible) forge, from a state `s4` that still claims nothing
      have rest : ∀ (oh : Option RH) (r4 : Run), Truthful E dev Γ r4.st → NoClaim r4.st i.path →
          ¬ isHash (r4.st.results i.path) → r4.mem = r.mem → AgreeOff i.path r.st r4.st →
          r4.st.disk i.path = some c0 → ¬ isHash oh →
          wp (do
              runScript E i false (contentsOf (r.st.setDir i.path d1) ds)
              prim (.setDir i.path (.co i.scms (some (Vid.mk i.sig (vids ds))) (some { loc := i.boLoc, upd := i.boUpd, ins := resultsOf r.st ds })))
                (fun s => s.setDir i.path (.co i.scms (some (Vid.mk i.sig (vids ds))) (some { loc := i.boLoc, upd := i.boUpd, ins := resultsOf r.st ds })))
              prim (.setInputs i.path (resultsOf r.st ds)) (fun s => s.setInputs i.path (resultsOf r.st ds))
              let st3 ← getSt
              prim (.setVid i.path (ivid st3 i ds)) (fun s => s.setVid i.path (ivid st3 i ds))
              pure oh)
            (fun oh r' => CRPost E dev Γ i ds (resultsOf r.st ds) r.st r.mem oh r')
            (fun r' => Truthful E dev Γ r'.st) r4 := by
        intro oh r4 h4 nc4 nh4 hm4 ha4 hd4 hoh4
        simp only [wp_bind, wp_getSt, wp_pure]
        have hrs := runScript_spec (E := E) (dev := dev) (Γ := Γ) i false (contentsOf (r.st.setDir i.path d1) ds) r4 h4 nc4 nh4
        refine wp_mono _ _ _ _ _ _ ?_ (fun _ hx => hx) hrs
        intro _ r5 hp5
        obtain ⟨⟨c, hsem, hst5⟩, hm5⟩ := hp5
        simp only [Bool.false_eq_true, if_false, hd4, Option.getD_some] at hsem
        rw [contentsOf_setDir] at hsem
        have h5 : Truthful E dev Γ r5.st := by rw [hst5]; exact truthful_setDisk _ h4 nc4 nh4
        have hd5 : r5.st.disk i.path = some c := by rw [hst5]; simp [St.setDisk]
        have hr5 : r5.st.results i.path = r4.st.results i.path := by rw [hst5]; simp [St.setDisk]
        have hl5 := h5 i.path
        -- what the script produced, for every input list that matches
        have produced : ∀ cs, cs = contentsOf r.st ds → Produced E dev i.sig cs c := by
          intro cs hcs
          exact ⟨i.world, c0, Or.inr (Or.inl hk), by rw [hcs]; exact hsem⟩
        let d6 : DirState := .co i.scms (some (Vid.mk i.sig (vids ds))) (some { loc := i.boLoc, upd := i.boUpd, ins := resultsOf r.st ds })
        -- Loc for any state with the new directory state, unchanged result, content `c`
        have locNew : ∀ s : St, s.dirStates i.path = some d6 → s.disk i.path = some c →
            s.results i.path = r4.st.results i.path → Loc E dev Γ s i.path := by
          intro s hsd hsc hsr
          constructor
          · intro hq; rw [hsc] at hq; cases hq
          · intro hh hq; rw [hsr] at hq; rw [hq] at nh4; exact absurd trivial nh4
          · intro q; rw [hsr, ← hr5]; exact hl5.nofp q
          · intro iv paths hs hq; rw [hsd] at hq; simp [d6] at hq
          · intro v hs hq; rw [hsd] at hq; simp [d6] at hq
          · intro scms v bo hs cs hq hi hcs hlen hg
            rw [hsd] at hq
            simp only [d6, Option.some.injEq, DirState.co.injEq] at hq
            obtain ⟨_, hv, _⟩ := hq
            subst hv
            refine ⟨c, hsc, ?_⟩
            rcases hg with hg | hg
            · rw [hsr] at hg; exact absurd hg nh4
            · -- no inputs at all: the step has no dependencies
              subst hg
              have hds : ds = [] := by
                have : (vids ds).length = 0 := by simpa [Vid.deps] using hlen.symm
                rw [vids_length] at this
                exact List.length_eq_zero_iff.mp this
              apply produced
              simp [hds, contentsOf]
          · intro scms v bo hq
            rw [hsd] at hq
            simp only [d6, Option.some.injEq, DirState.co.injEq] at hq
            obtain ⟨hs, _, _⟩ := hq
            subst hs
            intro x hx; rw [← hwf.scms]; exact hx
        -- setDir with the variant-id key
        apply wp_prim_intro
        · exact h5
        · intro k6 l6
          have ha6 : AgreeOff i.path r.st (r5.st.setDir i.path d6) := by
            rw [hst5]; exact (ha4.trans (agree_setDisk _ _ _)).trans (agree_setDir _ _ _)
          have h6 : Truthful E dev Γ (r5.st.setDir i.path d6) := by
            apply truthful_of_agree h ha6
            exact locNew _ (by simp [St.setDir]) (by simpa [St.setDir] using hd5) (by simpa [St.setDir] using hr5)
          -- setInputs
          apply wp_prim_intro
          · exact h6
          · intro k7 l7
            have ha7 : AgreeOff i.path r.st ((r5.st.setDir i.path d6).setInputs i.path (resultsOf r.st ds)) :=
              ha6.trans (agree_setInputs _ _ _)
            have h7 : Truthful E dev Γ ((r5.st.setDir i.path d6).setInputs i.path (resultsOf r.st ds)) := by
              apply truthful_of_agree h ha7
              exact locNew _ (by simp [St.setDir, St.setInputs]) (by simpa [St.setDir, St.setInputs] using hd5)
                (by simpa [St.setDir, St.setInputs] using hr5)
            -- setVid
            apply wp_prim_intro
            · exact h7
            · intro k8 l8
              exact { truthful := truthful_setVid _ _ h7, mem := hm5.trans hm4, agree := ha7.trans (agree_setVid _ _ _),
                      disk := ⟨c, by simpa [St.setDir, St.setInputs, St.setVid] using hd5⟩,
                      dir := ⟨some { loc := i.boLoc, upd := i.boUpd, ins := resultsOf r.st ds }, by simp [St.setDir, St.setInputs, St.setVid, d6]⟩,
                      inputs := by simp [St.setInputs, St.setVid],
                      ohNotHash := hoh4,
                      claim := by
                        intro cs hcs
                        refine ⟨c, by simpa [St.setDir, St.setInputs, St.setVid] using hd5, ?_⟩
                        exact produced cs (contents_of_hashes hinj h ds cs hcs)
                      claimW := by
                        intro cs hcs
                        refine ⟨c, c0, by simpa [St.setDir, St.setInputs, St.setVid] using hd5, ?_⟩
                        rw [contents_of_hashes hinj h ds cs hcs]; exact hsem
                      dirFull := by simp [St.setDir, St.setInputs, St.setVid, d6]
                      vid := by
                        rw [ivid_agree (agree_setVid _ _ _) i ds hacyc]
                        simp [St.setVid] }
      -- forge or not
      cases hres : r.st.results i.path with
      | none =>
        have hrn : ∀ d, (r.st.setDir i.path d).results i.path = none := fun d => by simp [St.setDir, hres]
        simp only [hrn, Option.isSome_none, Bool.false_eq_true, if_false, wp_pure]
        have := rest oldHash { st := r.st.setDir i.path d1, mem := r.mem, fuel := k1, log := l1 } h1 nc1
          (by simp [St.setDir, hres, isHash]) rfl (agree_setDir _ _ _) hd1 (by rw [hoh, hres]; simp [isHash])
        simp only [wp_bind, wp_getSt, wp_pure] at this
        exact this
      | some rh =>
        have hrn : ∀ d, (r.st.setDir i.path d).results i.path = some rh := fun d => by simp [St.setDir, hres]
        simp only [hrn, Option.isSome_some, if_true, wp_bind, wp_pure]
        apply wp_prim_intro
        · exact h1
        · intro k2 l2
          have := rest (some (RH.forged (r.st.setDir i.path d1).clock))
            { st := (r.st.setDir i.path d1).forge i.path, mem := r.mem, fuel := k2, log := l2 }
            (truthful_forge _ h1 nc1 ⟨c0, hd1⟩) (by simpa [NoClaim, St.forge] using nc1) (by simp [St.forge, isHash]) rfl
            ((agree_setDir _ _ _).trans (agree_forge _ _)) (by simpa [St.forge] using hd1) (by simp [isHash])
          simp only [wp_bind, wp_getSt, wp_pure] at this
          exact this

theorem coParts_scm {st : St} {p : Path} (hl : Loc E dev Γ st p) : ∀ x ∈ (coParts (st.dirStates p)).1, x ∈ Γ p := by
  cases hd : st.dirStates p with
  | none => simp [coParts]
  | some d =>
    cases d with
    | co s v b => simpa [coParts] using hl.scm s v b hd
    | build iv ps => simp [coParts]
    | pkg v => simp [coParts]

theorem coParts_vid {d : Option DirState} {s : List (Dir × Digest)} {v : Vid}
    (h1 : (coParts d).1 = s) (h2 : (coParts d).2.1 = some v) : ∃ bo, d = some (.co s (some v) bo) := by
  cases d with
  | none => simp [coParts] at h2
  | some d =>
    cases d with
    | co s' v' b =>
      simp only [coParts] at h1 h2
      subst h1; subst h2
      exact ⟨b, rfl⟩
    | build iv ps => simp [coParts] at h2
    | pkg v => simp [coParts] at h2

theorem hashes_nil_iff (cs : List Content) : ([] : Inputs) = hashes E cs → cs = [] := by
  intro h
  cases cs with
  | nil => rfl
  | cons c cs => simp [hashes] at h

theorem strip_resultsOf {st : St} (h : Truthful E dev Γ st) (ds : List Step) :
    strip (resultsOf st ds) = resultsOf st ds := by
  unfold strip resultsOf
  apply List.filter_eq_self.mpr
  intro x hx
  obtain ⟨d, _, hd⟩ := List.mem_map.mp hx
  cases hr : st.results d.path with
  | none => rw [← hd, hr]; simp [isFp]
  | some rh =>
    cases rh with
    | hash hh => rw [← hd, hr]; simp [isFp]
    | forged t => rw [← hd, hr]; simp [isFp]
    | fp q => exact absurd hr ((h d.path).nofp q)

theorem hashes_length (cs : List Content) : (hashes E cs).length = cs.length := by simp [hashes]

/-- what is recorded for a checkout step that is up to date -/
def CoRecorded (E : Env) (i : Info) (ds : List Step) (inH : Inputs) (st' : St) : Prop :=
  (∃ bo, st'.dirStates i.path = some (.co i.scms (some (Vid.mk i.sig (vids ds))) bo)) ∧
  st'.inputs i.path = some inH ∧ st'.results i.path = some (hashOf E st' i.path)

/-- an indeterministic checkout was re-run: the complete directory state and the incremental
variant id were written in this invocation -/
def NondetRecorded (i : Info) (ds : List Step) (inH : Inputs) (st' : St) : Prop :=
  i.det = false →
    st'.dirStates i.path = some (.co i.scms (some (Vid.mk i.sig (vids ds))) (some { loc := i.boLoc, upd := i.boUpd, ins := inH })) ∧
    st'.variantIds i.path = some (ivid st' i ds)

/-- an indeterministic checkout has just been run with the current external world -/
def RanNow (E : Env) (i : Info) (inH : Inputs) (st' : St) : Prop :=
  i.det = false → ∀ cs, strip inH = hashes E cs →
    ∃ c old, st'.disk i.path = some c ∧ E.sem i.sig i.world old cs = .ok c

theorem cookCheckout_truthful (hinj : Function.Injective E.H) (cfg : Cfg) (i : Info) (ds : List Step)
    (hwf : CoWF Γ i ds) (hk : i.sig.kind = .checkout) (hacyc : ∀ d ∈ ds, d.path ≠ i.path)
    (r : Run) (h : Truthful E dev Γ r.st) :
    wp (cookCheckout E cfg i ds)
      (fun _ r' => Truthful E dev Γ r'.st ∧ r'.mem = r.mem ∧ AgreeOff i.path r.st r'.st ∧
        Cooked E dev i.sig i.path (resultsOf r.st ds) r'.st ∧ RanNow E i (resultsOf r.st ds) r'.st ∧
        CoRecorded E i ds (resultsOf r.st ds) r'.st ∧ NondetRecorded i ds (resultsOf r.st ds) r'.st)
      (fun r' => Truthful E dev Γ r'.st) r := by
  unfold cookCheckout
  simp only [wp_bind, wp_getSt]
  refine wp_mono _ _ _ _ _ _ ?_ (fun _ hx => hx) (constructDir_spec (E := E) (dev := dev) (Γ := Γ) i.path r h)
  intro created r1 hp
  obtain ⟨c1, hc1⟩ := hp.disk
  -- after a run of the checkout: always store the new hash
  have finish : ∀ (oh : Option RH) (r3 : Run) (st0 : St) (mem0 : Mem),
      CRPost E dev Γ i ds (resultsOf st0 ds) st0 mem0 oh r3 → mem0 = r.mem → AgreeOff i.path r.st st0 →
      wp (whenM (decide (some (hashOf E r3.st i.path) ≠ oh) || cfg.force)
            (prim (.setResult i.path (hashOf E r3.st i.path)) (fun s => s.setResult i.path (hashOf E r3.st i.path))))
        (fun _ r' => Truthful E dev Γ r'.st ∧ r'.mem = r.mem ∧ AgreeOff i.path r.st r'.st ∧
          Cooked E dev i.sig i.path (resultsOf r.st ds) r'.st ∧ RanNow E i (resultsOf r.st ds) r'.st ∧
          CoRecorded E i ds (resultsOf r.st ds) r'.st ∧ NondetRecorded i ds (resultsOf r.st ds) r'.st)
        (fun r' => Truthful E dev Γ r'.st) r3 := by
    intro oh r3 st0 mem0 hp3 hm0 ha0
    have hin0 : resultsOf st0 ds = resultsOf r.st ds := resultsOf_agree ha0 ds hacyc
    obtain ⟨c3, hc3⟩ := hp3.disk
    obtain ⟨bo3, hd3⟩ := hp3.dir
    have hne : (decide (some (hashOf E r3.st i.path) ≠ oh) || cfg.force) = true := by
      have : some (hashOf E r3.st i.path) ≠ oh := by
        intro heq
        apply hp3.ohNotHash
        rw [← heq]; simp [hashOf, isHash]
      simp [this]
    rw [hne, wp_whenM_true]
    apply wp_prim_intro
    · exact hp3.truthful
    · intro k l
      simp only [hashOf, hc3, Option.getD_some]
      refine ⟨?_, hp3.mem.trans hm0, (ha0.trans hp3.agree).trans (agree_setResult _ _ _), ?_, ?_, ?_, ?_⟩
      rotate_left 3
      · exact ⟨⟨bo3, by simpa [St.setResult] using hd3⟩, by rw [← hin0]; simpa [St.setResult] using hp3.inputs,
          by simp [St.setResult, hashOf, hc3]⟩
      · intro _
        refine ⟨by rw [← hin0]; simpa [St.setResult] using hp3.dirFull, ?_⟩
        rw [ivid_agree (agree_setResult _ _ _) i ds hacyc]
        simpa [St.setResult] using hp3.vid
      rotate_left 2
      · intro _ cs hcs
        rw [← hin0] at hcs
        obtain ⟨c, old, hdc, hsc⟩ := hp3.claimW cs hcs
        exact ⟨c, old, by simpa [St.setResult] using hdc, hsc⟩
      · apply truthful_co_setResult _ _ hp3.truthful hc3 ⟨_, _, _, hd3⟩
        intro scms v bo hs cs hq hi hcs _
        rw [hd3] at hq
        simp only [Option.some.injEq, DirState.co.injEq] at hq
        obtain ⟨_, hv, _⟩ := hq
        subst hv
        rw [hp3.inputs] at hi
        cases hi
        simpa [Vid.sig] using hp3.claim cs hcs
      · intro cs hcs
        rw [← hin0] at hcs
        obtain ⟨c, hdc, hpc⟩ := hp3.claim cs hcs
        rw [hc3] at hdc; cases hdc
        exact ⟨c3, by simpa [St.setResult] using hc3, by simp [St.setResult], hpc⟩
  cases hcr : created with
  | true =>
    simp only [if_true, wp_whenM_true]
    apply wp_prim_intro
    · exact hp.truthful
    · intro k l
      have h2 : Truthful E dev Γ (r1.st.reset i.path (some (.co [] none none))) :=
        truthful_reset _ _ hp.truthful (by intro scms v bo hq; cases hq; intro x hx; cases hx)
      have hreason : ∀ st inH, checkoutReason E cfg i ds true ([], none, none) st inH = true := by
        intro st inH; simp [checkoutReason]
      simp only [hreason, if_true]
      have := checkoutRun_truthful (E := E) (dev := dev) (Γ := Γ) hinj cfg i ds hwf hk hacyc ([], none, none)
        ((r1.st.reset i.path (some (.co [] none none))).results i.path)
        { st := r1.st.reset i.path (some (.co [] none none)), mem := r1.mem, fuel := k, log := l } h2
        (by intro x hx; cases hx) ⟨c1, by simpa [St.reset] using hc1⟩ rfl
      refine wp_mono _ _ _ _ _ _ ?_ (fun _ hx => hx) this
      intro oh r3 hp3
      exact finish oh r3 _ _ hp3 hp.mem (hp.agree.trans (agree_reset _ _ _))
  | false =>
    simp only [Bool.false_eq_true, if_false, wp_whenM_false]
    have hst : r1.st = r.st := hp.ifExisted hcr
    split
    · -- some reason to run the checkout
      have := checkoutRun_truthful (E := E) (dev := dev) (Γ := Γ) hinj cfg i ds hwf hk hacyc (coParts (r1.st.dirStates i.path))
        (r1.st.results i.path) r1 hp.truthful (coParts_scm (hp.truthful i.path)) ⟨c1, hc1⟩ rfl
      refine wp_mono _ _ _ _ _ _ ?_ (fun _ hx => hx) this
      intro oh r3 hp3
      exact finish oh r3 _ _ hp3 hp.mem hp.agree
    · -- skipped
      rename_i hreason
      simp only [wp_pure]
      have hr : checkoutReason E cfg i ds false (coParts (r1.st.dirStates i.path)) r1.st (resultsOf r1.st ds) = false := by
        simpa using hreason
      simp only [checkoutReason, Bool.false_or, Bool.or_eq_false_iff, Bool.not_eq_false', Bool.and_eq_true,
        decide_eq_true_eq, decide_eq_false_iff_not, Bool.and_eq_false_imp, ne_eq, Classical.not_not] at hr
      obtain ⟨⟨⟨⟨hforce, hdet⟩, hs1, hs2⟩, hin⟩, hscr⟩ := hr
      obtain ⟨bo, hdir⟩ := coParts_vid hs1 hs2
      have hl1 := hp.truthful i.path
      have hin1 : resultsOf r1.st ds = resultsOf r.st ds := by rw [hst]
      -- what the stored state claims about the workspace, for the current inputs
      have hprod : ∀ cs, strip (resultsOf r1.st ds) = hashes E cs → Produced E dev i.sig cs c1 := by
        intro cs hcs
        have hlen : cs.length = (Vid.mk i.sig (vids ds)).deps.length := by
          have := congrArg List.length hcs
          rw [strip_resultsOf hp.truthful, hashes_length] at this
          simp [Vid.deps, vids_length, resultsOf] at this ⊢
          exact this.symm
        have := hl1.co _ _ _ _ cs hdir hin hcs hlen (by
          by_cases hscript : i.hasScript = true
          · left
            have := hscr hscript
            rw [this]; simp [hashOf, isHash]
          · right
            have hds : ds = [] := hwf.noscript (by simpa using hscript)
            subst hds
            apply hashes_nil_iff (E := E)
            simpa [resultsOf, strip] using hcs)
        obtain ⟨c, hdc, hpc⟩ := this
        rw [hc1] at hdc; cases hdc
        simpa [Vid.sig] using hpc
      rw [wp_whenM]
      constructor
      · intro _
        apply wp_prim_intro
        · exact hp.truthful
        · intro k l
          simp only [hashOf, hc1, Option.getD_some]
          refine ⟨?_, hp.mem, hp.agree.trans (agree_setResult _ _ _), ?_, ?_, ?_, ?_⟩
          rotate_left 3
          · exact ⟨⟨bo, by simpa [St.setResult] using hdir⟩, by rw [← hin1]; simpa [St.setResult] using hin,
              by simp [St.setResult, hashOf, hc1]⟩
          · intro hnd; rw [hnd] at hdet; simp at hdet
          rotate_left 2
          · intro hnd; rw [hnd] at hdet; simp at hdet
          · apply truthful_co_setResult _ _ hp.truthful hc1 ⟨_, _, _, hdir⟩
            intro scms v bo' hs cs hq hi hcs hlen
            rw [hin] at hi
            cases hi
            rw [hdir] at hq
            simp only [Option.some.injEq, DirState.co.injEq] at hq
            obtain ⟨_, hv, _⟩ := hq
            subst hv
            exact ⟨c1, hc1, by simpa [Vid.sig] using hprod cs hcs⟩
          · intro cs hcs
            rw [← hin1] at hcs
            exact ⟨c1, by simpa [St.setResult] using hc1, by simp [St.setResult], hprod cs hcs⟩
      · intro hcond
        have hres : r1.st.results i.path = some (.hash (E.H c1)) := by
          have : decide (some (hashOf E r1.st i.path) ≠ r1.st.results i.path) = false := by
            cases hd' : decide (some (hashOf E r1.st i.path) ≠ r1.st.results i.path) with
            | false => rfl
            | true => rw [hd'] at hcond; simp at hcond
          have := of_decide_eq_false this
          simp only [ne_eq, Classical.not_not] at this
          rw [← this]; simp [hashOf, hc1]
        refine ⟨hp.truthful, hp.mem, hp.agree, ?_, ?_, ?_, ?_⟩
        · intro cs hcs
          rw [← hin1] at hcs
          exact ⟨c1, hc1, hres, hprod cs hcs⟩
        · intro hnd; rw [hnd] at hdet; simp at hdet
        · exact ⟨⟨bo, hdir⟩, by rw [← hin1]; exact hin, by rw [hres]; simp [hashOf, hc1]⟩
        · intro hnd; rw [hnd] at hdet; simp at hdet

end Builder
