import BobModel.Proofs.C02Inj
/-
C07 helper lemmas, part 3: the recipe part of a *Build-Id* (`getDigestCoro(…, platform=tag, relaxTools=True)`) is
an injective encoding of the platform tag, the script, the strongly used tools, the strong variables and the
argument ids - once it is known which tools are used weakly (their names are hashed without a delimiter).
-/
namespace Digest

/-- the name of a weakly used tool (all that `relaxTools` hashes of it) -/
def weakKey (t : Tool) : Option Str := if t.weak then some t.name else none

/-- what the Build-Id hashes of a strongly used tool -/
def strongSem (t : Tool) : Option SemTool :=
  if t.weak then none else some ⟨sliceRecipes t.prov, t.path, t.libs⟩

/-- the same tools (in name order) are used weakly on both sides -/
def ToolsFramed (d₁ d₂ : StepDesc) : Prop :=
  (sortBy toolLe d₁.tools).map weakKey = (sortBy toolLe d₂.tools).map weakKey

def ToolOk (t : Tool) : Prop :=
  lenOk t.path ∧ t.libs.length < 2 ^ 32 ∧ (∀ l ∈ t.libs, lenOk l) ∧ t.prov.length ≥ 20

theorem encTool_strong (t : Tool) (h : t.weak = false) :
    encTool true t = encSemTool ⟨sliceRecipes t.prov, t.path, t.libs⟩ := by
  simp [encTool, encSemTool, h]

theorem encTool_weak (t : Tool) (h : t.weak = true) : encTool true t = utf8 t.name := by
  simp [encTool, h]

theorem tools_relaxed_inj : ∀ (l l' : List Tool) (r r' : Bytes), l.map weakKey = l'.map weakKey →
    (∀ t ∈ l, ToolOk t) → (∀ t ∈ l', ToolOk t) →
    l.flatMap (encTool true) ++ r = l'.flatMap (encTool true) ++ r' →
    l.map strongSem = l'.map strongSem ∧ r = r' := by
  intro l
  induction l with
  | nil =>
    intro l' r r' hk _ _ h
    cases l' with
    | nil => exact ⟨rfl, by simpa using h⟩
    | cons a t => simp at hk
  | cons a t ih =>
    intro l' r r' hk ok ok' h
    cases l' with
    | nil => simp at hk
    | cons a' t' =>
      simp only [List.map_cons, List.cons.injEq] at hk
      obtain ⟨hka, hkt⟩ := hk
      simp only [List.flatMap_cons, List.append_assoc] at h
      cases hw : a.weak with
      | true =>
        cases hw' : a'.weak with
        | true =>
          simp only [weakKey, hw, hw', if_true, Option.some.injEq] at hka
          rw [encTool_weak a hw, encTool_weak a' hw', hka] at h
          have h2 := List.append_cancel_left h
          have ⟨e, er⟩ := ih t' r r' hkt (fun x hx => ok x (by simp [hx])) (fun x hx => ok' x (by simp [hx])) h2
          refine ⟨?_, er⟩
          simp only [List.map_cons, strongSem, hw, hw', if_true, e]
        | false => simp [weakKey, hw, hw'] at hka
      | false =>
        cases hw' : a'.weak with
        | true => simp [weakKey, hw, hw'] at hka
        | false =>
          rw [encTool_strong a hw, encTool_strong a' hw'] at h
          have oa := ok a (by simp)
          have oa' := ok' a' (by simp)
          have ⟨es, h2⟩ := encSemTool_pf _ _ _ _
            (⟨oa.1, oa.2.1, oa.2.2.1, sliceRecipes_length oa.2.2.2⟩ : SemToolOk ⟨sliceRecipes a.prov, a.path, a.libs⟩)
            (⟨oa'.1, oa'.2.1, oa'.2.2.1, sliceRecipes_length oa'.2.2.2⟩ : SemToolOk ⟨sliceRecipes a'.prov, a'.path, a'.libs⟩) h
          have ⟨e, er⟩ := ih t' r r' hkt (fun x hx => ok x (by simp [hx])) (fun x hx => ok' x (by simp [hx])) h2
          refine ⟨?_, er⟩
          simp only [List.map_cons, strongSem, hw, hw', Bool.false_eq_true, if_false, es, e]

/-- a NUL free tag in front of a NUL byte can be split off -/
theorem nul_prefix : ∀ (p p' r r' : Bytes), (0 : UInt8) ∉ p → (0 : UInt8) ∉ p' →
    p ++ (0 : UInt8) :: r = p' ++ (0 : UInt8) :: r' → p = p' ∧ r = r' := by
  intro p
  induction p with
  | nil =>
    intro p' r r' _ h' h
    cases p' with
    | nil => simpa using h
    | cons b t =>
      simp only [List.nil_append, List.cons_append, List.cons.injEq] at h
      exact absurd (by rw [← h.1]; simp) h'
  | cons a t ih =>
    intro p' r r' h0 h' h
    cases p' with
    | nil =>
      simp only [List.nil_append, List.cons_append, List.cons.injEq] at h
      exact absurd (by rw [h.1]; simp) h0
    | cons b t' =>
      simp only [List.cons_append, List.cons.injEq] at h
      have ⟨e, er⟩ := ih t' r r' (fun m => h0 (by simp [m])) (fun m => h' (by simp [m])) h.2
      exact ⟨by rw [h.1, e], er⟩

theorem pad_eq : pad = (0 : UInt8) :: List.replicate 19 0 := by decide

/-- the meaning of the recipe part of a Build-Id -/
structure BidSem where
  script : Str
  /-- tools in name order: `none` for a weakly used tool -/
  tools : List (Option SemTool)
  env : List (Str × Str)
  args : List Bytes
  deriving DecidableEq, Repr

def bidSem (d : StepDesc) : BidSem :=
  { script := d.script.getD [],
    tools := (sortBy toolLe d.tools).map strongSem,
    env := sortBy kvLe d.env,
    args := d.args.map sliceRecipes }

theorem flatMap_slices (l : List Bytes) : l.flatMap sliceRecipes = (l.map sliceRecipes).flatMap id := by
  induction l with
  | nil => rfl
  | cons a t ih => simp [List.flatMap_cons, ih]

/-- **the recipe part of the Build-Id is injective** on (platform tag, script, strong tools, strong
variables, argument ids) -/
theorem encRecipeG_relaxed_inj (p₁ p₂ : Bytes) (d₁ d₂ : StepDesc) (w₁ : WF d₁) (w₂ : WF d₂)
    (hp₁ : (0 : UInt8) ∉ p₁) (hp₂ : (0 : UInt8) ∉ p₂) (hf : ToolsFramed d₁ d₂)
    (h : encRecipeG p₁ true d₁ = encRecipeG p₂ true d₂) : p₁ = p₂ ∧ bidSem d₁ = bidSem d₂ := by
  simp only [encRecipeG, List.append_assoc, pad_eq, List.cons_append, encScript_eq] at h
  have ⟨ep, h1⟩ := nul_prefix _ _ _ _ hp₁ hp₂ h
  have h2 := List.append_cancel_left h1
  have ⟨e1, h3⟩ := encStr_pf w₁.script w₂.script h2
  have ⟨n1, h4⟩ := le4_split w₁.ntools w₂.ntools h3
  have ok₁ : ∀ t ∈ sortBy toolLe d₁.tools, ToolOk t := fun t ht => w₁.tools t ((mem_sortBy _ _ _).mp ht)
  have ok₂ : ∀ t ∈ sortBy toolLe d₂.tools, ToolOk t := fun t ht => w₂.tools t ((mem_sortBy _ _ _).mp ht)
  have ⟨e2, h5⟩ := tools_relaxed_inj _ _ _ _ hf ok₁ ok₂ h4
  have ⟨n2, h6⟩ := le4_split w₁.nenv w₂.nenv h5
  have ⟨e3, h7⟩ := flatMap_pf encKV (fun kv => lenOk kv.1 ∧ lenOk kv.2)
    (fun a a' r r' p p' hh => encKV_pf p p' hh) (by rw [sortBy_length, sortBy_length]; exact n2)
    (fun kv hk => w₁.env kv ((mem_sortBy _ _ _).mp hk)) (fun kv hk => w₂.env kv ((mem_sortBy _ _ _).mp hk)) h6
  have ⟨n3, h8⟩ := le4_split w₁.nargs w₂.nargs h7
  rw [flatMap_slices, flatMap_slices] at h8
  have h9 : (d₁.args.map sliceRecipes).flatMap id ++ [] = (d₂.args.map sliceRecipes).flatMap id ++ [] := by
    rw [List.append_nil, List.append_nil]; exact h8
  have ⟨e4, _⟩ := flatMap_pf id (fun a => a.length = 20) slice_pf (by simp [n3])
    (fun a ha => by
      obtain ⟨a0, ha0, rfl⟩ := List.mem_map.mp ha
      exact sliceRecipes_length (w₁.args a0 ha0))
    (fun a ha => by
      obtain ⟨a0, ha0, rfl⟩ := List.mem_map.mp ha
      exact sliceRecipes_length (w₂.args a0 ha0)) h9
  refine ⟨ep, ?_⟩
  simp only [bidSem, e1, e2, e3, e4]

/-- the Build-Id as a function of the meaning only (no hypothesis on `H`) -/
theorem encRecipeG_of_sem (p : Bytes) (d₁ d₂ : StepDesc) (hk : ToolsFramed d₁ d₂) (hs : bidSem d₁ = bidSem d₂)
    (hn : d₁.tools.length = d₂.tools.length) (he : d₁.env.length = d₂.env.length)
    (ha : d₁.args.length = d₂.args.length) : encRecipeG p true d₁ = encRecipeG p true d₂ := by
  have e1 := congrArg BidSem.script hs
  have e2 := congrArg BidSem.tools hs
  have e3 := congrArg BidSem.env hs
  have e4 := congrArg BidSem.args hs
  simp only [bidSem] at e1 e2 e3 e4
  have ht : ∀ (l l' : List Tool), l.map weakKey = l'.map weakKey → l.map strongSem = l'.map strongSem →
      l.flatMap (encTool true) = l'.flatMap (encTool true) := by
    intro l
    induction l with
    | nil =>
      intro l' h _
      cases l' with
      | nil => rfl
      | cons a t => simp at h
    | cons a t ih =>
      intro l' h h'
      cases l' with
      | nil => simp at h
      | cons a' t' =>
        simp only [List.map_cons, List.cons.injEq] at h h'
        simp only [List.flatMap_cons]
        rw [ih t' h.2 h'.2]
        congr 1
        cases hw : a.weak with
        | true =>
          cases hw' : a'.weak with
          | true =>
            have := h.1
            simp only [weakKey, hw, hw', if_true, Option.some.injEq] at this
            rw [encTool_weak a hw, encTool_weak a' hw', this]
          | false => have := h.1; simp [weakKey, hw, hw'] at this
        | false =>
          cases hw' : a'.weak with
          | true => have := h.1; simp [weakKey, hw, hw'] at this
          | false =>
            have := h'.1
            simp only [strongSem, hw, hw', Bool.false_eq_true, if_false, Option.some.injEq] at this
            rw [encTool_strong a hw, encTool_strong a' hw', this]
  simp only [encRecipeG, encScript_eq, e1, hn, he, ha, e3, ht _ _ hk e2, flatMap_slices, e4]

end Digest
