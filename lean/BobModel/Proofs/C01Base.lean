import BobModel.Model.Builder
/-
Helper definitions and lemmas for the builder model (C01, C05):
* a weakest-precondition calculus for the run monad `M` with an *abort assertion* `A`:
  `wp m Q A r` says: running `m` from `r` either finishes in a run satisfying `Q`, or is cut
  (fuel used up / script failure / BuildError) in a run satisfying `A`;
* the per-path invariant `Loc` and `Truthful`.
-/
namespace Builder

/-! ## weakest preconditions -/

def wp {α : Type} (m : M α) (Q : α → Run → Prop) (A : Run → Prop) (r : Run) : Prop :=
  match m r with
  | .ok a r' => Q a r'
  | .abort r' => A r'

@[simp] theorem wp_pure {α : Type} (a : α) (Q : α → Run → Prop) (A : Run → Prop) (r : Run) :
    wp (pure a : M α) Q A r ↔ Q a r := by
  simp [wp, pure]

@[simp] theorem wp_bind {α β : Type} (m : M α) (f : α → M β) (Q : β → Run → Prop) (A : Run → Prop) (r : Run) :
    wp (m >>= f) Q A r ↔ wp m (fun a r' => wp (f a) Q A r') A r := by
  simp only [wp, bind]
  cases m r <;> simp

@[simp] theorem wp_getSt (Q : St → Run → Prop) (A : Run → Prop) (r : Run) :
    wp getSt Q A r ↔ Q r.st r := by simp [wp, getSt]

@[simp] theorem wp_getMem (Q : Mem → Run → Prop) (A : Run → Prop) (r : Run) :
    wp getMem Q A r ↔ Q r.mem r := by simp [wp, getMem]

@[simp] theorem wp_setMem (m : Mem) (Q : Unit → Run → Prop) (A : Run → Prop) (r : Run) :
    wp (setMem m) Q A r ↔ Q () { r with mem := m } := by simp [wp, setMem]

@[simp] theorem wp_abort {α : Type} (Q : α → Run → Prop) (A : Run → Prop) (r : Run) :
    wp (abort : M α) Q A r ↔ A r := by simp [wp, abort]

theorem wp_prim (op : Op) (f : St → St) (Q : Unit → Run → Prop) (A : Run → Prop) (r : Run) :
    wp (prim op f) Q A r ↔
      (r.fuel = 0 → A r) ∧ (∀ k, r.fuel = k + 1 → Q () { r with st := f r.st, fuel := k, log := r.log ++ [op] }) := by
  unfold wp prim
  cases h : r.fuel with
  | zero => simp
  | succ k => simp

/-- sufficient rule for a micro-operation when the assertions do not look at fuel and log -/
theorem wp_prim_intro (op : Op) (f : St → St) (Q : Unit → Run → Prop) (A : Run → Prop) (r : Run)
    (ha : A r) (hq : ∀ k l, Q () { r with st := f r.st, fuel := k, log := l }) :
    wp (prim op f) Q A r := by
  rw [wp_prim]
  exact ⟨fun _ => ha, fun k _ => hq k _⟩

theorem wp_mono {α : Type} (m : M α) (Q Q' : α → Run → Prop) (A A' : Run → Prop) (r : Run)
    (hq : ∀ a r', Q a r' → Q' a r') (ha : ∀ r', A r' → A' r') (h : wp m Q A r) : wp m Q' A' r := by
  unfold wp at *
  cases hm : m r with
  | ok a r' => rw [hm] at h; exact hq _ _ h
  | abort r' => rw [hm] at h; exact ha _ h

theorem wp_and {α : Type} (m : M α) (Q Q' : α → Run → Prop) (A A' : Run → Prop) (r : Run)
    (h : wp m Q A r) (h' : wp m Q' A' r) : wp m (fun a r' => Q a r' ∧ Q' a r') (fun r' => A r' ∧ A' r') r := by
  unfold wp at *
  cases hm : m r with
  | ok a r' => rw [hm] at h h'; exact ⟨h, h'⟩
  | abort r' => rw [hm] at h h'; exact ⟨h, h'⟩

@[simp] theorem wp_whenM_true (m : M Unit) (Q : Unit → Run → Prop) (A : Run → Prop) (r : Run) :
    wp (whenM true m) Q A r ↔ wp m Q A r := by simp [whenM]

@[simp] theorem wp_whenM_false (m : M Unit) (Q : Unit → Run → Prop) (A : Run → Prop) (r : Run) :
    wp (whenM false m) Q A r ↔ Q () r := by simp [whenM]

theorem wp_whenM (b : Bool) (m : M Unit) (Q : Unit → Run → Prop) (A : Run → Prop) (r : Run) :
    wp (whenM b m) Q A r ↔ (b = true → wp m Q A r) ∧ (b = false → Q () r) := by
  cases b <;> simp

theorem wp_ite {α : Type} (c : Prop) [Decidable c] (m1 m2 : M α) (Q : α → Run → Prop) (A : Run → Prop) (r : Run) :
    wp (if c then m1 else m2) Q A r ↔ (c → wp m1 Q A r) ∧ (¬ c → wp m2 Q A r) := by
  split <;> simp_all

/-! ## state update lemmas -/

@[simp] theorem upd_same {β : Type} (f : Path → β) (p : Path) (v : β) : upd f p v p = v := by simp [upd]

theorem upd_other {β : Type} (f : Path → β) (p q : Path) (v : β) (h : q ≠ p) : upd f p v q = f q := by
  simp [upd, h]

/-- `st'` differs from `st` at most in the components of path `p` (and clock / attic list) -/
def AgreeOff (p : Path) (st st' : St) : Prop :=
  ∀ q, q ≠ p → st'.results q = st.results q ∧ st'.inputs q = st.inputs q ∧ st'.dirStates q = st.dirStates q
    ∧ st'.disk q = st.disk q ∧ st'.variantIds q = st.variantIds q

theorem AgreeOff.refl (p : Path) (st : St) : AgreeOff p st st := fun _ _ => ⟨rfl, rfl, rfl, rfl, rfl⟩

theorem AgreeOff.trans {p : Path} {a b c : St} (h1 : AgreeOff p a b) (h2 : AgreeOff p b c) : AgreeOff p a c := by
  intro q hq
  obtain ⟨a1, a2, a3, a4, a5⟩ := h1 q hq
  obtain ⟨b1, b2, b3, b4, b5⟩ := h2 q hq
  exact ⟨b1.trans a1, b2.trans a2, b3.trans a3, b4.trans a4, b5.trans a5⟩

theorem agree_setResult (st : St) (p : Path) (r : RH) : AgreeOff p st (st.setResult p r) := by
  intro q hq; simp [St.setResult, upd, hq]
theorem agree_forge (st : St) (p : Path) : AgreeOff p st (st.forge p) := by
  intro q hq; simp [St.forge, upd, hq]
theorem agree_setInputs (st : St) (p : Path) (i : Inputs) : AgreeOff p st (st.setInputs p i) := by
  intro q hq; simp [St.setInputs, upd, hq]
theorem agree_delInputs (st : St) (p : Path) : AgreeOff p st (st.delInputs p) := by
  intro q hq; simp [St.delInputs, upd, hq]
theorem agree_setDir (st : St) (p : Path) (d : DirState) : AgreeOff p st (st.setDir p d) := by
  intro q hq; simp [St.setDir, upd, hq]
theorem agree_setVid (st : St) (p : Path) (v : Vid) : AgreeOff p st (st.setVid p v) := by
  intro q hq; simp [St.setVid, upd, hq]
theorem agree_setDisk (st : St) (p : Path) (c : Content) : AgreeOff p st (st.setDisk p c) := by
  intro q hq; simp [St.setDisk, upd, hq]
theorem agree_reset (st : St) (p : Path) (d : Option DirState) : AgreeOff p st (st.reset p d) := by
  intro q hq; simp [St.reset, upd, hq]

/-! ## the invariant -/

def hashes (E : Env) (cs : List Content) : Inputs := cs.map fun c => some (.hash (E.H c))

def isFp : Option RH → Bool
  | some (.fp _) => true
  | _ => false

/-- input list without the relocation fingerprint -/
def strip (i : Inputs) : Inputs := i.filter fun x => !isFp x

/-- old workspace contents a script may have started from: package steps always start from an
empty workspace, build steps do unless incremental (develop mode) builds are in use (`dev`),
checkouts are never cleaned -/
def Adm (dev : Bool) (k : Kind) (old : Content) : Prop :=
  old = emptyC ∨ k = .checkout ∨ (k = .build ∧ dev = true)

/-- `c` is what the script with digest data `sig` produced from inputs `cs` -/
def Produced (E : Env) (dev : Bool) (sig : Sig) (cs : List Content) (c : Content) : Prop :=
  ∃ w old, Adm dev sig.kind old ∧ E.sem sig w old cs = .ok c

def isHash : Option RH → Prop
  | some (.hash _) => True
  | _ => False

/-- "Bob's state never claims more than the disk holds", for one workspace path.  It only looks at
the components of this path. -/
structure Loc (E : Env) (dev : Bool) (Γ : Path → List (Dir × Digest)) (st : St) (p : Path) : Prop where
  /-- nothing on disk, nothing claimed -/
  nodisk : st.disk p = none → st.results p = none ∧ st.inputs p = none
  /-- a stored result hash is the hash of the workspace -/
  res : ∀ h, st.results p = some (.hash h) → ∃ c, st.disk p = some c ∧ h = E.H c
  nofp : ∀ q, st.results p ≠ some (.fp q)
  /-- build step: stored inputs + stored digest describe how the workspace was produced -/
  bld : ∀ iv paths hs, st.dirStates p = some (.build iv paths) → st.inputs p = some hs →
    isHash (st.results p) ∧ ∀ cs, strip hs = hashes E cs → ∃ c, st.disk p = some c ∧ Produced E dev iv.sig cs c
  pkg : ∀ v hs, st.dirStates p = some (.pkg v) → st.inputs p = some hs →
    isHash (st.results p) ∧ ∀ cs, strip hs = hashes E cs → ∃ c, st.disk p = some c ∧ Produced E dev v.sig cs c
  /-- checkout: only with the variant-id key in the directory state; a forged / missing result
  disables the claim unless the step has no inputs at all -/
  co : ∀ scms v bo hs cs, st.dirStates p = some (.co scms (some v) bo) → st.inputs p = some hs →
    strip hs = hashes E cs → cs.length = v.deps.length → (isHash (st.results p) ∨ cs = []) →
    ∃ c, st.disk p = some c ∧ Produced E dev v.sig cs c
  /-- recorded SCM directories belong to the (history-wide) SCM layout of the path -/
  scm : ∀ scms v bo, st.dirStates p = some (.co scms v bo) → ∀ x ∈ scms, x ∈ Γ p

def Truthful (E : Env) (dev : Bool) (Γ : Path → List (Dir × Digest)) (st : St) : Prop :=
  ∀ p, Loc E dev Γ st p

theorem loc_congr {E : Env} {dev : Bool} {Γ : Path → List (Dir × Digest)} {st st' : St} {p : Path}
    (h1 : st'.results p = st.results p) (h2 : st'.inputs p = st.inputs p)
    (h3 : st'.dirStates p = st.dirStates p) (h4 : st'.disk p = st.disk p)
    (h : Loc E dev Γ st p) : Loc E dev Γ st' p := by
  constructor
  · rw [h1, h2, h4]; exact h.nodisk
  · rw [h1, h4]; exact h.res
  · rw [h1]; exact h.nofp
  · rw [h1, h2, h3, h4]; exact h.bld
  · rw [h1, h2, h3, h4]; exact h.pkg
  · rw [h1, h2, h3, h4]; exact h.co
  · rw [h3]; exact h.scm

/-- a change confined to path `p` keeps the invariant if it holds for `p` afterwards -/
theorem truthful_of_agree {E : Env} {dev : Bool} {Γ : Path → List (Dir × Digest)} {st st' : St} {p : Path}
    (h : Truthful E dev Γ st) (ha : AgreeOff p st st') (hp : Loc E dev Γ st' p) : Truthful E dev Γ st' := by
  intro q
  by_cases hq : q = p
  · subst hq; exact hp
  · obtain ⟨a1, a2, a3, a4, _⟩ := ha q hq
    exact loc_congr a1 a2 a3 a4 (h q)

theorem truthful_init (E : Env) (dev : Bool) (Γ : Path → List (Dir × Digest)) : Truthful E dev Γ St.init := by
  intro p
  constructor <;> simp [St.init, isHash]

/-- with no stored inputs only the result hash claims something -/
theorem loc_no_inputs {E : Env} {dev : Bool} {Γ : Path → List (Dir × Digest)} {st : St} {p : Path}
    (hi : st.inputs p = none)
    (hnd : st.disk p = none → st.results p = none)
    (hres : ∀ h, st.results p = some (.hash h) → ∃ c, st.disk p = some c ∧ h = E.H c)
    (hfp : ∀ q, st.results p ≠ some (.fp q))
    (hscm : ∀ scms v bo, st.dirStates p = some (.co scms v bo) → ∀ x ∈ scms, x ∈ Γ p) :
    Loc E dev Γ st p := by
  constructor
  · intro h; exact ⟨hnd h, hi⟩
  · exact hres
  · exact hfp
  · intro iv paths hs _ h; rw [hi] at h; cases h
  · intro v hs _ h; rw [hi] at h; cases h
  · intro scms v bo hs cs _ h; rw [hi] at h; cases h
  · exact hscm

/-- the invariant does not mention the junk content -/
theorem loc_junk {E : Env} {dev : Bool} {Γ : Path → List (Dir × Digest)} {st : St} {p : Path} (j : Content) :
    Loc { E with junk := j } dev Γ st p ↔ Loc E dev Γ st p := by
  constructor
  · intro h
    exact ⟨h.nodisk, h.res, h.nofp, h.bld, h.pkg, h.co, h.scm⟩
  · intro h
    exact ⟨h.nodisk, h.res, h.nofp, h.bld, h.pkg, h.co, h.scm⟩

theorem truthful_junk {E : Env} {dev : Bool} {Γ : Path → List (Dir × Digest)} {st : St} (j : Content) :
    Truthful { E with junk := j } dev Γ st ↔ Truthful E dev Γ st := by
  constructor
  · intro h p; exact (loc_junk j).mp (h p)
  · intro h p; exact (loc_junk j).mpr (h p)

end Builder
