import BobModel.Proofs.C07Cook
/-
C07 helper lemmas, part 5: what was uploaded is downloaded without building - for every download depth, by
induction over the package tree.
-/
namespace Download

/-- the workspace was never used or only for downloads -/
def DLOnly (l : Loc) : Prop := (l.inp = none ∧ l.res = none) ∨ ∃ b, l.inp = some (.downloaded b)

/-- **an uploaded artifact is downloaded** (one call of `_downloadPackage`) -/
theorem dl_succeeds (E : Env) (cfg : Cfg) (depth : Nat) (i : PInfo) (b : BuildId) (l : Loc) (c : Content)
    (ht : tryDownload cfg.dl depth i = true) (hc : cfg.canDownload = true) (hl : DLOnly l) :
    (dlOps E cfg depth i b l (some (.good c (some (E.H c))))).2 = .downloaded := by
  unfold dlOps
  simp only [ht, Bool.not_true, Bool.false_eq_true, if_false]
  split
  · simp [fetch, hc, dlFetchOps]
  · rename_i hcond
    simp only [Bool.or_eq_true, not_or, Bool.not_eq_true, Option.isNone_iff_eq_none] at hcond
    rcases hl with ⟨_, h2⟩ | ⟨b0, h2⟩
    · exact absurd h2 hcond.2
    · simp [h2, dissect]

def Op.isRun : Op → Bool
  | .runPackage _ _ => true
  | _ => false

theorem prepOps_norun (i : PInfo) (l : Loc) : ∀ op ∈ prepOps i l, op.isRun = false := by
  intro op h
  unfold prepOps at h
  simp only at h
  split at h
  · simp at h; rcases h with rfl | rfl | rfl <;> rfl
  · split at h
    · simp at h; subst h; rfl
    · simp at h

theorem dlOps_norun (E : Env) (cfg : Cfg) (depth : Nat) (i : PInfo) (b : BuildId) (l : Loc) (x : Option Artifact) :
    ∀ op ∈ (dlOps E cfg depth i b l x).1, op.isRun = false := by
  intro op h
  unfold dlOps at h
  simp only at h
  have hmk : ∀ o ∈ (if l.disk.isNone = true then [Op.mkDir i.path] else []), o.isRun = false := by
    intro o ho; split at ho
    · simp at ho; subst ho; rfl
    · simp at ho
  have hpr : ∀ o ∈ (if dlPrune cfg b (dissect l.inp) = true then
      [Op.reset i.path none, Op.emptyDir i.path, Op.rmAudit i.path, Op.reset i.path (some i.vid)] else []),
      o.isRun = false := by
    intro o ho; split at ho
    · simp at ho; rcases ho with rfl | rfl | rfl | rfl <;> rfl
    · simp at ho
  split at h
  · simp at h
  · split at h
    · simp only [List.mem_append] at h
      rcases h with (h | h) | h
      · exact hmk op h
      · exact hpr op h
      · unfold dlFetchOps at h
        cases hf : fetch cfg x with
        | notFound => rw [hf] at h; simp at h; subst h; rfl
        | failed => rw [hf] at h; simp at h; subst h; rfl
        | extracted c au =>
          rw [hf] at h
          cases au with
          | none => simp at h; subst h; rfl
          | some hh =>
            simp only at h
            split at h
            · simp at h; rcases h with rfl | rfl | rfl <;> rfl
            · simp at h; rcases h with rfl | rfl | rfl | rfl | rfl | rfl | rfl <;> rfl
    · split at h <;> (simp only [List.mem_append] at h; rcases h with h | h; exact hmk op h; exact hpr op h)

theorem prep_dlonly (E : Env) (i : PInfo) (l : Loc) (h : DLOnly l) : DLOnly ((prepOps i l).foldl (locOp E) l) := by
  unfold prepOps
  simp only
  split
  · left; simp [locOp]
  · split
    · left; simp [locOp]
    · exact h

mutual
/-- the packages above the download depth: those `_downloadPackage` may not even try to fetch -/
def shallowP (dl : DlCfg) (depth : Nat) : Pkg → List Path
  | .mk i ds => if tryDownload dl depth i then [] else i.path :: shallowL dl (depth + 2) ds
def shallowL (dl : DlCfg) (depth : Nat) : List Pkg → List Path
  | [] => []
  | d :: ds => shallowP dl depth d ++ shallowL dl depth ds
end

/-- every package of the project has an extractable, self-consistent artifact under its Build-Id -/
def Full (E : Env) (a : Archive) (N : List Pkg) : Prop := ∀ u ∈ N, ∃ c, a (tb E u) = some (.good c (some (E.H c)))

/-- a package is not its own (transitive) dependency -/
def Acyc (N : List Pkg) : Prop := ∀ i ds, Pkg.mk i ds ∈ N → ∀ u ∈ nodesL ds, u.path ≠ i.path

/-- every package that is not cooked yet and not being cooked (`A`) has not been tried and has a download-only
workspace -/
def Acc (N : List Pkg) (A : List Path) (r : Run) : Prop :=
  ∀ u ∈ N, r.mem.wasRun u.path = none → u.path ∉ A → r.mem.tried u.path = false ∧ DLOnly (r.st.loc u.path)

def NewRuns (r r' : Run) (S : List Path) : Prop :=
  ∀ p c, Op.runPackage p c ∈ r'.log → Op.runPackage p c ∈ r.log ∨ p ∈ S

theorem NewRuns.refl (r : Run) (S : List Path) : NewRuns r r S := fun _ _ h => Or.inl h

theorem NewRuns.trans {a b c : Run} {S T : List Path} (h1 : NewRuns a b S) (h2 : NewRuns b c T) : NewRuns a c (S ++ T) := by
  intro p x h
  rcases h2 p x h with h | h
  · rcases h1 p x h with h | h
    · exact Or.inl h
    · exact Or.inr (List.mem_append.mpr (Or.inl h))
  · exact Or.inr (List.mem_append.mpr (Or.inr h))

theorem newRuns_exec (E : Env) (r : Run) (ops : List Op) (S : List Path) (h : ∀ op ∈ ops, op.isRun = false ∨ op.path ∈ S) :
    NewRuns r (r.exec E ops) S := by
  intro p c hm
  have : Op.runPackage p c ∈ r.log ++ ops := hm
  rcases List.mem_append.mp this with h1 | h1
  · exact Or.inl h1
  · rcases h _ h1 with h2 | h2
    · simp [Op.isRun] at h2
    · exact Or.inr h2

section
variable (E : Env) (ρ : Vid → RSig) (N : List Pkg)

theorem klist_all (hB : BidSound E) (hH : Function.Injective E.H) (hNA : NoAlias N) (hV : VidOK ρ N) (cfg : Cfg)
    (ds : List Pkg) : KList E ρ N cfg ds := by
  induction ds with
  | nil => exact klist_nil E ρ N cfg
  | cons d ds ih => exact klist_cons E ρ N cfg d ds (kpkg_all E ρ N hB hH hNA hV cfg d) ih

def NB (cfg : Cfg) (t : Pkg) : Prop :=
  ∀ depth r A, (∀ u ∈ nodes t, u ∈ N) → G E ρ N r → Acc N A r → (∀ u ∈ nodes t, u.path ∉ A) → Full E r.arch N →
    ∃ r', cookPkg E cfg depth t r = .ok r' ∧ Acc N A r' ∧ r'.arch = r.arch ∧ NewRuns r r' (shallowP cfg.dl depth t)

def NBL (cfg : Cfg) (ds : List Pkg) : Prop :=
  ∀ depth r A, (∀ u ∈ nodesL ds, u ∈ N) → G E ρ N r → Acc N A r → (∀ u ∈ nodesL ds, u.path ∉ A) → Full E r.arch N →
    ∃ r', cookList E cfg depth ds r = .ok r' ∧ Acc N A r' ∧ r'.arch = r.arch ∧ NewRuns r r' (shallowL cfg.dl depth ds)

theorem nbl_nil (cfg : Cfg) : NBL E ρ N cfg [] := by
  intro depth r A _ _ hA _ _
  exact ⟨r, rfl, hA, rfl, NewRuns.refl _ _⟩

theorem nbl_cons (hB : BidSound E) (hH : Function.Injective E.H) (hNA : NoAlias N) (hV : VidOK ρ N) (cfg : Cfg)
    (d : Pkg) (ds : List Pkg) (hd : NB E ρ N cfg d) (hds : NBL E ρ N cfg ds) : NBL E ρ N cfg (d :: ds) := by
  intro depth r A hsub hG hA hnA hF
  obtain ⟨r1, e1, a1, ar1, n1⟩ := hd depth r A (fun u hu => hsub u (by simp [nodesL, hu])) hG hA
    (fun u hu => hnA u (by simp [nodesL, hu])) hF
  have hk := kpkg_all E ρ N hB hH hNA hV cfg d depth r (fun u hu => hsub u (by simp [nodesL, hu])) hG
  rw [e1] at hk
  obtain ⟨r2, e2, a2, ar2, n2⟩ := hds depth r1 A (fun u hu => hsub u (by simp [nodesL, hu])) hk.1 a1
    (fun u hu => hnA u (by simp [nodesL, hu])) (by rw [ar1]; exact hF)
  refine ⟨r2, ?_, a2, by rw [ar2, ar1], ?_⟩
  · simp only [cookList, e1, e2]
  · simp only [shallowL]
    exact n1.trans n2

theorem nb_mk (hB : BidSound E) (hH : Function.Injective E.H) (hNA : NoAlias N) (hV : VidOK ρ N) (hAc : Acyc N)
    (hnp : ∀ u ∈ N, u.info.pred = none) (cfg : Cfg) (hc : cfg.canDownload = true)
    (i : PInfo) (ds : List Pkg) (ih : NBL E ρ N cfg ds) : NB E ρ N cfg (.mk i ds) := by
  intro depth r A hsub hG hA hnA hF
  have htN : Pkg.mk i ds ∈ N := hsub _ (self_mem_nodes _)
  have hdsN : ∀ u ∈ nodesL ds, u ∈ N := fun u hu => hsub u (by simp [nodes, hu])
  have hdN : ∀ d ∈ ds, d ∈ N := fun d hd => hdsN d (mem_nodesL hd d (self_mem_nodes d))
  have hpA : i.path ∉ A := hnA _ (self_mem_nodes _)
  have hk := kpkg_all E ρ N hB hH hNA hV cfg (.mk i ds) depth r hsub hG
  unfold cookPkg at hk ⊢
  rcases war_spec E ρ N hNA hG i ds htN with ⟨hw, hrun⟩ | ⟨hw, hrun⟩
  · simp only [hw, if_true]
    exact ⟨r, rfl, hA, rfl, NewRuns.refl _ _⟩
  · simp only [hw, Bool.false_eq_true, if_false] at hk ⊢
    obtain ⟨htr0, hdl0⟩ := hA _ htN hrun hpA
    -- `_preparePackageStep`
    obtain ⟨hI1, hP1⟩ := prep_block E ρ i (r.st.loc i.path) (hG.inv i.path)
    have hops1 : ∀ op ∈ prepOps i (r.st.loc i.path), op.path = i.path ∧ op.isUpload = false := prepOps_path i _
    obtain ⟨hG1, hS1⟩ := G_exec E ρ N hG i.path hrun _ hops1 hI1
    have hloc1 := exec_loc_same E r (prepOps i (r.st.loc i.path)) i.path (fun op h => (hops1 op h).1)
    have hoth1 : ∀ q, i.path ≠ q → (r.exec E (prepOps i (r.st.loc i.path))).st.loc q = r.st.loc q :=
      fun q hq => exec_loc_other E r _ i.path q hq (fun op h => (hops1 op h).1)
    have har1 : (r.exec E (prepOps i (r.st.loc i.path))).arch = r.arch := exec_arch E r _ (fun op h => (hops1 op h).2)
    have hn1 : NewRuns r (r.exec E (prepOps i (r.st.loc i.path))) [] :=
      newRuns_exec E r _ [] (fun op h => Or.inl (prepOps_norun i _ op h))
    generalize hr1 : r.exec E (prepOps i (r.st.loc i.path)) = r1 at hG1 hS1 hloc1 hoth1 har1 hn1 hk ⊢
    have hm1 : r1.mem = r.mem := by rw [← hr1]; rfl
    have hdl1 : DLOnly (r1.st.loc i.path) := by rw [hloc1]; exact prep_dlonly E i _ hdl0
    -- `_getBuildId`
    obtain ⟨g1, g2, g3, g4, g5⟩ := gbp_all E N hNA (.mk i ds) r1.mem hsub hG1.cache
    have heff : eff r1.mem.fixed (.mk i ds) = .mk i ds :=
      eff_id _ _ (fun u hu => Or.inr (Or.inl (hnp u (hsub u hu))))
    rw [heff] at g1
    generalize hbm : getBuildId E (.mk i ds) r1.mem = bm at g1 g2 g3 g4 g5 hk ⊢
    obtain ⟨hG2, hS2⟩ := G_mem E ρ N (r' := { r1 with mem := bm.2 }) hG1 rfl rfl g3 g2 g5
    have htr2 : bm.2.tried i.path = false := by rw [g4, hm1]; exact htr0
    obtain ⟨cA, hcA⟩ := hF _ htN
    have harch2 : r1.arch bm.1 = some (.good cA (some (E.H cA))) := by rw [har1, g1]; exact hcA
    have hops2 := dlOps_path E cfg depth i bm.1 (r1.st.loc i.path) (r1.arch bm.1)
    have hoth2 : ∀ q, i.path ≠ q → (Run.exec E { r1 with mem := bm.2 } (dlOps E cfg depth i bm.1 (r1.st.loc i.path) (r1.arch bm.1)).1).st.loc q = r.st.loc q := by
      intro q hq
      rw [exec_loc_other E _ _ i.path q hq (fun op h => (hops2 op h).1)]
      exact hoth1 q hq
    have har2 : (Run.exec E { r1 with mem := bm.2 } (dlOps E cfg depth i bm.1 (r1.st.loc i.path) (r1.arch bm.1)).1).arch = r.arch := by
      rw [exec_arch E _ _ (fun op h => (hops2 op h).2)]
      exact har1
    have hn2 : NewRuns r1 (Run.exec E { r1 with mem := bm.2 } (dlOps E cfg depth i bm.1 (r1.st.loc i.path) (r1.arch bm.1)).1) [] :=
      newRuns_exec E { r1 with mem := bm.2 } _ [] (fun op h => Or.inl (dlOps_norun E cfg depth i bm.1 _ _ op h))
    -- frame for the packages that are neither cooked nor being cooked
    have accStep : ∀ (r' : Run) (A' : List Path), (∀ q, q ≠ i.path → r'.mem.wasRun q = r.mem.wasRun q) →
        (∀ q, q ≠ i.path → r'.mem.tried q = r.mem.tried q) → (∀ q, i.path ≠ q → r'.st.loc q = r.st.loc q) →
        (∀ q, q ∈ A → q ∈ A') → (r'.mem.wasRun i.path ≠ none ∨ i.path ∈ A') → Acc N A' r' := by
      intro r' A' hw' ht' hl' hsubA hp' u hu hwu hnu
      have hne : u.path ≠ i.path := by
        intro e
        rcases hp' with h | h
        · rw [e] at hwu; exact h hwu
        · rw [e] at hnu; exact hnu h
      have := hA u hu (by rw [← hw' _ hne]; exact hwu) (fun h => hnu (hsubA _ h))
      rw [ht' _ hne, hl' _ (fun e => hne e.symm)]
      exact this
    by_cases htry : tryDownload cfg.dl depth i = true
    · -- at or below the download depth: downloaded, nothing else happens
      have hd := dl_succeeds E cfg depth i bm.1 (r1.st.loc i.path) cA htry hc hdl1
      simp only [dlPhase, htr2, Bool.false_eq_true, if_false, harch2, hd] at hk ⊢
      refine ⟨_, rfl, ?_, ?_, ?_⟩
      · apply accStep _ A
        · intro q hq
          simp only [setAlreadyRun, setTried, Run.exec]
          rw [upd_other _ _ _ _ (fun e => hq e.symm), g3, hm1]
        · intro q hq
          simp only [setAlreadyRun, setTried, Run.exec]
          rw [upd_other _ _ _ _ (fun e => hq e.symm), g4, hm1]
        · intro q hq
          have := hoth2 q hq
          rw [harch2] at this
          exact this
        · exact fun _ h => h
        · left
          simp [setAlreadyRun, upd_same]
      · have := har2
        rw [harch2] at this
        exact this
      · have h12 := hn1.trans hn2
        rw [harch2] at h12
        intro p c hm
        rcases h12 p c hm with h | h
        · exact Or.inl h
        · simp at h
    · -- above the download depth: the dependencies are cooked, the package is built
      have hno : dlOps E cfg depth i bm.1 (r1.st.loc i.path) (r1.arch bm.1) = ([], .no) := by
        unfold dlOps
        simp [htry]
      simp only [dlPhase, htr2, Bool.false_eq_true, if_false, hno] at hk ⊢
      have hsrc : checkSrc i (setTried i (Run.exec E { r1 with mem := bm.2 } [])) = none := by
        unfold checkSrc
        have hp : i.pred = none := hnp _ htN
        have : srcNow (setTried i (Run.exec E { r1 with mem := bm.2 } [])).mem i = i.src := by
          simp [srcNow, hp]
        simp [this]
      simp only [hsrc] at hk ⊢
      generalize hr4 : setTried i (Run.exec E { r1 with mem := bm.2 } []) = r4 at hk ⊢
      have hst4 : r4.st = r1.st := by rw [← hr4]; rfl
      have har4 : r4.arch = r.arch := by rw [← hr4]; exact har1
      have hlog4 : r4.log = r1.log ++ [] := by rw [← hr4]; rfl
      have hw4 : r4.mem.wasRun = r.mem.wasRun := by rw [← hr4]; show bm.2.wasRun = _; rw [g3, hm1]
      have ht4 : ∀ q, q ≠ i.path → r4.mem.tried q = r.mem.tried q := by
        intro q hq
        rw [← hr4]
        show upd bm.2.tried i.path true q = _
        rw [upd_other _ _ _ _ (fun e => hq e.symm), g4, hm1]
      have hfix4 : r4.mem.fixed = r1.mem.fixed := by rw [← hr4]; exact g2
      have hG4 : G E ρ N r4 := by
        have := G_mem E ρ N (r' := r4) hG2 (by rw [hst4]) (by rw [← hr4]; rfl) (by rw [← hr4]; rfl) (by rw [← hr4]; rfl)
          (by rw [← hr4]; exact hG2.cache)
        exact this.1
      have hA4 : Acc N (i.path :: A) r4 := by
        apply accStep r4 (i.path :: A)
        · intro q _; rw [hw4]
        · exact ht4
        · intro q hq; rw [hst4]; exact hoth1 q hq
        · exact fun q h => List.mem_cons_of_mem _ h
        · exact Or.inr (by simp)
      have hnA4 : ∀ u ∈ nodesL ds, u.path ∉ i.path :: A := by
        intro u hu hm
        rcases List.mem_cons.mp hm with h | h
        · exact hAc i ds htN u hu h
        · exact hnA u (by simp [nodes, hu]) h
      obtain ⟨r5, e5, a5, ar5, n5⟩ := ih (depth + 2) r4 (i.path :: A) hdsN hG4 hA4 hnA4 (by rw [har4]; exact hF)
      have hkl := klist_all E ρ N hB hH hNA hV cfg ds (depth + 2) r4 hdsN hG4
      rw [e5] at hkl hk
      simp only [e5] at hk ⊢
      obtain ⟨hG5, hS5, hw5⟩ := hkl
      -- the end of the package branch
      unfold finishPkg at hk ⊢
      rcases war_spec E ρ N hNA hG5 i ds htN with ⟨hw', hrun5⟩ | ⟨hw', hrun5⟩
      · simp only [hw', if_true]
        refine ⟨r5, rfl, ?_, by rw [ar5, har4], ?_⟩
        · intro u hu hwu hnu
          have hne : u.path ≠ i.path := by
            intro e; rw [e, hrun5] at hwu; cases hwu
          exact a5 u hu hwu (fun h => by
            rcases List.mem_cons.mp h with h | h
            · exact hne h
            · exact hnu h)
        · have h14 : NewRuns r r4 [] := by
            intro p c hm
            rw [hlog4, List.append_nil] at hm
            exact hn1 p c hm
          have := h14.trans n5
          intro p c hm
          rcases this p c hm with h | h
          · exact Or.inl h
          · right
            simp only [shallowP, htry, Bool.false_eq_true, if_false]
            simp only [List.nil_append] at h
            exact List.mem_cons_of_mem _ h
      · simp only [hw', Bool.false_eq_true, if_false]
        have hops6 := pkgOps_path E cfg i bm.1 (contentsOf r5.st ds) r5.log.length (r5.st.loc i.path)
        have hfin : ∀ rr : Run, rr.st = (Run.exec E r5 (pkgOps E cfg i bm.1 (contentsOf r5.st ds) r5.log.length (r5.st.loc i.path)).1).st →
            rr.mem.wasRun = upd r5.mem.wasRun i.path (some i.vid) → rr.mem.tried = r5.mem.tried → Acc N A rr := by
          intro rr hst hwr htr u hu hwu hnu
          have hne : u.path ≠ i.path := by
            intro e
            rw [hwr, e, upd_same] at hwu; cases hwu
          rw [hwr, upd_other _ _ _ _ (fun e => hne e.symm)] at hwu
          have := a5 u hu hwu (fun h => by
            rcases List.mem_cons.mp h with h | h
            · exact hne h
            · exact hnu h)
          rw [htr]
          have hl : rr.st.loc u.path = r5.st.loc u.path := by
            rw [hst]
            exact exec_loc_other E r5 _ i.path u.path (fun e => hne e.symm) (fun op h => (hops6 op h).1)
          rw [hl]
          exact this
        have hn6 : NewRuns r (Run.exec E r5 (pkgOps E cfg i bm.1 (contentsOf r5.st ds) r5.log.length (r5.st.loc i.path)).1)
            (shallowP cfg.dl depth (.mk i ds)) := by
          have h14 : NewRuns r r4 [] := by
            intro p c hm
            rw [hlog4, List.append_nil] at hm
            exact hn1 p c hm
          have h15 := h14.trans n5
          have h56 : NewRuns r5 (Run.exec E r5 (pkgOps E cfg i bm.1 (contentsOf r5.st ds) r5.log.length (r5.st.loc i.path)).1) [i.path] :=
            newRuns_exec E r5 _ [i.path] (fun op h => Or.inr (by rw [(hops6 op h).1]; simp))
          have := h15.trans h56
          intro p c hm
          rcases this p c hm with h | h
          · exact Or.inl h
          · right
            simp only [shallowP, htry, Bool.false_eq_true, if_false]
            simp only [List.nil_append, List.mem_append, List.mem_singleton] at h
            rcases h with h | h
            · exact List.mem_cons_of_mem _ h
            · rw [h]; simp
        have har6 : (Run.exec E r5 (pkgOps E cfg i bm.1 (contentsOf r5.st ds) r5.log.length (r5.st.loc i.path)).1).arch = r.arch := by
          rw [exec_arch E r5 _ (fun op h => (hops6 op h).2), ar5, har4]
        split
        · -- upload: the archive already has the artifact
          refine ⟨_, rfl, ?_, ?_, ?_⟩
          · apply hfin
            · rw [exec_upload_st]; rfl
            · rfl
            · rfl
          · rw [exec_upload_arch]
            simp only [applyOp]
            have hb : (setAlreadyRun i (Run.exec E r5 (pkgOps E cfg i bm.1 (contentsOf r5.st ds) r5.log.length (r5.st.loc i.path)).1)).arch bm.1
                = some (.good cA (some (E.H cA))) := by
              show (Run.exec E r5 _).arch bm.1 = _
              rw [har6, g1]; exact hcA
            split
            · rename_i h1 h2
              rw [hb] at h2; cases h2
            · exact har6
          · intro p c hm
            have : Op.runPackage p c ∈ (Run.exec E r5 (pkgOps E cfg i bm.1 (contentsOf r5.st ds) r5.log.length (r5.st.loc i.path)).1).log ++ [Op.upload i.path bm.1] := hm
            rcases List.mem_append.mp this with h | h
            · exact hn6 p c h
            · simp at h
        · exact ⟨_, rfl, hfin _ rfl rfl rfl, har6, hn6⟩

/-- **every package at or below the download depth is downloaded, no script at or below it is executed** -/
theorem nb_all (hB : BidSound E) (hH : Function.Injective E.H) (hNA : NoAlias N) (hV : VidOK ρ N) (hAc : Acyc N)
    (hnp : ∀ u ∈ N, u.info.pred = none) (cfg : Cfg) (hc : cfg.canDownload = true) (t : Pkg) : NB E ρ N cfg t :=
  Pkg.rec (motive_1 := fun t => NB E ρ N cfg t) (motive_2 := fun ds => NBL E ρ N cfg ds)
    (fun i ds ih => nb_mk E ρ N hB hH hNA hV hAc hnp cfg hc i ds ih) (nbl_nil E ρ N cfg)
    (fun d ds hd hds => nbl_cons E ρ N hB hH hNA hV cfg d ds hd hds) t

end

end Download
