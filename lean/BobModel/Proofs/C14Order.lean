import BobModel.Proofs.C14Enc
/-
Helper lemmas for C14, part 4: `sorted(m.items())` is independent of the insertion order of a dict
(Python string order is a total order; insertion sort by key yields the unique sorted arrangement).
-/
namespace Audit

theorem char_lt_iff (a b : Char) : (a.val < b.val) ↔ a.val.toNat < b.val.toNat := UInt32.lt_iff_toNat_lt

theorem char_eq_iff (a b : Char) : a = b ↔ a.val.toNat = b.val.toNat := by
  constructor
  · intro h; rw [h]
  · intro h
    apply Char.ext
    exact UInt32.toNat_inj.1 h

theorem strLe_cons (a b : Char) (as bs : Str) :
    strLe (a :: as) (b :: bs) = true ↔ a.val.toNat < b.val.toNat ∨ (a = b ∧ strLe as bs = true) := by
  simp only [strLe, Bool.or_eq_true, decide_eq_true_eq, Bool.and_eq_true, beq_iff_eq, char_lt_iff]

theorem strLe_total : ∀ a b : Str, strLe a b = true ∨ strLe b a = true
  | [], _ => Or.inl (by simp [strLe])
  | _ :: _, [] => Or.inr (by simp [strLe])
  | a :: as, b :: bs => by
    rw [strLe_cons, strLe_cons]
    rcases Nat.lt_trichotomy a.val.toNat b.val.toNat with h | h | h
    · exact Or.inl (Or.inl h)
    · have hab := (char_eq_iff a b).2 h
      rcases strLe_total as bs with h' | h'
      · exact Or.inl (Or.inr ⟨hab, h'⟩)
      · exact Or.inr (Or.inr ⟨hab.symm, h'⟩)
    · exact Or.inr (Or.inl h)

theorem strLe_trans : ∀ a b c : Str, strLe a b = true → strLe b c = true → strLe a c = true
  | [], _, _, _, _ => by simp [strLe]
  | _ :: _, [], _, h, _ => by simp [strLe] at h
  | _ :: _, _ :: _, [], _, h => by simp [strLe] at h
  | a :: as, b :: bs, c :: cs, h1, h2 => by
    rw [strLe_cons] at h1 h2 ⊢
    rcases h1 with h1 | ⟨e1, h1⟩ <;> rcases h2 with h2 | ⟨e2, h2⟩
    · exact Or.inl (by omega)
    · subst e2; exact Or.inl h1
    · subst e1; exact Or.inl h2
    · subst e1; subst e2; exact Or.inr ⟨rfl, strLe_trans as bs cs h1 h2⟩

theorem strLe_antisymm : ∀ a b : Str, strLe a b = true → strLe b a = true → a = b
  | [], [], _, _ => rfl
  | [], _ :: _, _, h => by simp [strLe] at h
  | _ :: _, [], h, _ => by simp [strLe] at h
  | a :: as, b :: bs, h1, h2 => by
    rw [strLe_cons] at h1 h2
    rcases h1 with h1 | ⟨e1, h1⟩ <;> rcases h2 with h2 | ⟨e2, h2⟩
    · omega
    · subst e2; omega
    · subst e1; omega
    · subst e1; rw [strLe_antisymm as bs h1 h2]

/-- sorted by key -/
def SortedKV {α : Type} : List (Str × α) → Prop
  | [] => True
  | (k, _) :: rest => (∀ p ∈ rest, strLe k p.1 = true) ∧ SortedKV rest

theorem mem_insertKV {α : Type} {k : Str} {v : α} {l : List (Str × α)} {p : Str × α} :
    p ∈ insertKV k v l ↔ p = (k, v) ∨ p ∈ l := by
  induction l with
  | nil => simp [insertKV]
  | cons q rest ih =>
    obtain ⟨k', v'⟩ := q
    simp only [insertKV]
    split
    · simp
    · simp only [List.mem_cons, ih]
      constructor
      · rintro (h | h | h)
        · exact Or.inr (Or.inl h)
        · exact Or.inl h
        · exact Or.inr (Or.inr h)
      · rintro (h | h | h)
        · exact Or.inr (Or.inl h)
        · exact Or.inl h
        · exact Or.inr (Or.inr h)

theorem sorted_insertKV {α : Type} {k : Str} {v : α} {l : List (Str × α)} (h : SortedKV l) : SortedKV (insertKV k v l) := by
  induction l with
  | nil => simp [insertKV, SortedKV]
  | cons q rest ih =>
    obtain ⟨k', v'⟩ := q
    simp only [insertKV]
    split
    · rename_i hle
      refine ⟨?_, h⟩
      intro p hp
      rcases List.mem_cons.1 hp with hp | hp
      · subst hp; exact hle
      · exact strLe_trans _ _ _ hle (h.1 p hp)
    · rename_i hle
      have hle' : strLe k' k = true := by
        rcases strLe_total k k' with h1 | h1
        · exact absurd h1 hle
        · exact h1
      refine ⟨?_, ih h.2⟩
      intro p hp
      rcases mem_insertKV.1 hp with hp | hp
      · subst hp; exact hle'
      · exact h.1 p hp

theorem sorted_sortKV {α : Type} (l : List (Str × α)) : SortedKV (sortKV l) := by
  induction l with
  | nil => simp [sortKV, SortedKV]
  | cons q rest ih =>
    obtain ⟨k, v⟩ := q
    simp only [sortKV]
    exact sorted_insertKV ih

theorem mem_sortKV {α : Type} {l : List (Str × α)} {p : Str × α} : p ∈ sortKV l ↔ p ∈ l := by
  induction l with
  | nil => simp [sortKV]
  | cons q rest ih =>
    obtain ⟨k, v⟩ := q
    simp only [sortKV, mem_insertKV, ih, List.mem_cons]

theorem keys_nodup_insertKV {α : Type} {k : Str} {v : α} {l : List (Str × α)}
    (h : (l.map Prod.fst).Nodup) (hk : k ∉ l.map Prod.fst) : ((insertKV k v l).map Prod.fst).Nodup := by
  induction l with
  | nil => simp [insertKV]
  | cons q rest ih =>
    obtain ⟨k', v'⟩ := q
    simp only [insertKV]
    simp only [List.map_cons, List.nodup_cons, List.mem_cons, not_or] at h hk
    split
    · simp only [List.map_cons, List.nodup_cons, List.mem_cons, not_or]
      exact ⟨⟨hk.1, hk.2⟩, h.1, h.2⟩
    · simp only [List.map_cons, List.nodup_cons]
      refine ⟨?_, ih h.2 hk.2⟩
      intro hm
      rw [List.mem_map] at hm
      obtain ⟨p, hp, hpk⟩ := hm
      rcases mem_insertKV.1 hp with hp | hp
      · subst hp; exact hk.1 hpk
      · exact h.1 (List.mem_map.2 ⟨p, hp, hpk⟩)

theorem keys_nodup_sortKV {α : Type} {l : List (Str × α)} (h : (l.map Prod.fst).Nodup) :
    ((sortKV l).map Prod.fst).Nodup := by
  induction l with
  | nil => simp [sortKV]
  | cons q rest ih =>
    obtain ⟨k, v⟩ := q
    simp only [List.map_cons, List.nodup_cons] at h
    simp only [sortKV]
    apply keys_nodup_insertKV (ih h.2)
    intro hm
    rw [List.mem_map] at hm
    obtain ⟨p, hp, hpk⟩ := hm
    exact h.1 (List.mem_map.2 ⟨p, mem_sortKV.1 hp, hpk⟩)

/-- two key-sorted lists with distinct keys and the same entries are equal -/
theorem sorted_ext {α : Type} : ∀ (l l' : List (Str × α)), SortedKV l → SortedKV l' →
    (l.map Prod.fst).Nodup → (l'.map Prod.fst).Nodup → (∀ p, p ∈ l ↔ p ∈ l') → l = l'
  | [], [], _, _, _, _, _ => rfl
  | [], q :: _, _, _, _, _, h => by have := (h q).2 (by simp); simp at this
  | q :: _, [], _, _, _, _, h => by have := (h q).1 (by simp); simp at this
  | (k, v) :: rest, (k', v') :: rest', hs, hs', hn, hn', h => by
    simp only [List.map_cons, List.nodup_cons] at hn hn'
    have h1 : (k, v) ∈ (k', v') :: rest' := (h (k, v)).1 (by simp)
    have h2 : (k', v') ∈ (k, v) :: rest := (h (k', v')).2 (by simp)
    have hkk : k = k' := by
      rcases List.mem_cons.1 h1 with e | m1
      · exact (Prod.mk.inj e).1
      · rcases List.mem_cons.1 h2 with e | m2
        · exact (Prod.mk.inj e).1.symm
        · exact strLe_antisymm _ _ (hs.1 _ m2) (hs'.1 _ m1)
    subst hkk
    have hvv : v = v' := by
      rcases List.mem_cons.1 h1 with e | m1
      · exact (Prod.mk.inj e).2
      · exact absurd (List.mem_map.2 ⟨(k, v), m1, rfl⟩) hn'.1
    subst hvv
    have : rest = rest' := by
      apply sorted_ext rest rest' hs.2 hs'.2 hn.2 hn'.2
      intro p
      constructor
      · intro hp
        rcases List.mem_cons.1 ((h p).1 (List.mem_cons_of_mem _ hp)) with e | m
        · subst e; exact absurd (List.mem_map.2 ⟨(k, v), hp, rfl⟩) hn.1
        · exact m
      · intro hp
        rcases List.mem_cons.1 ((h p).2 (List.mem_cons_of_mem _ hp)) with e | m
        · subst e; exact absurd (List.mem_map.2 ⟨(k, v), hp, rfl⟩) hn'.1
        · exact m
    rw [this]

/-- `sorted(m.items())` does not depend on the insertion order of a dict -/
theorem sortKV_order_independent {α : Type} (l l' : List (Str × α)) (hn : (l.map Prod.fst).Nodup)
    (hn' : (l'.map Prod.fst).Nodup) (h : ∀ p, p ∈ l ↔ p ∈ l') : sortKV l = sortKV l' :=
  sorted_ext _ _ (sorted_sortKV l) (sorted_sortKV l') (keys_nodup_sortKV hn) (keys_nodup_sortKV hn')
    (fun p => by rw [mem_sortKV, mem_sortKV]; exact h p)

theorem canonKVs_eq_mapVals (l : List (Str × Data)) : canonKVs l = mapVals canon l := by
  induction l with
  | nil => simp [canonKVs, mapVals]
  | cons q rest ih => obtain ⟨k, v⟩ := q; simp [canonKVs, mapVals, ih]

theorem map_fst_mapVals {α β : Type} (f : α → β) (l : List (Str × α)) : (mapVals f l).map Prod.fst = l.map Prod.fst := by
  induction l with
  | nil => simp [mapVals]
  | cons q rest ih => obtain ⟨k, v⟩ := q; simp [mapVals, ih]

theorem mem_mapVals {α β : Type} {f : α → β} {l : List (Str × α)} {p : Str × β} :
    p ∈ mapVals f l ↔ ∃ q ∈ l, p = (q.1, f q.2) := by
  induction l with
  | nil => simp [mapVals]
  | cons q rest ih =>
    obtain ⟨k, v⟩ := q
    simp only [mapVals, List.mem_cons, ih]
    constructor
    · rintro (h | ⟨q, hq, h⟩)
      · exact ⟨(k, v), Or.inl rfl, h⟩
      · exact ⟨q, Or.inr hq, h⟩
    · rintro ⟨q, (hq | hq), h⟩
      · subst hq; exact Or.inl h
      · exact Or.inr ⟨q, hq, h⟩

/-- the canonical form of a dict does not depend on the insertion order of its entries -/
theorem canon_map_order_independent (kvs kvs' : List (Str × Data)) (hn : (kvs.map Prod.fst).Nodup)
    (hn' : (kvs'.map Prod.fst).Nodup) (h : ∀ p, p ∈ kvs ↔ p ∈ kvs') : canon (.map kvs) = canon (.map kvs') := by
  simp only [canon, canonKVs_eq_mapVals]
  congr 1
  apply sortKV_order_independent
  · rw [map_fst_mapVals]; exact hn
  · rw [map_fst_mapVals]; exact hn'
  · intro p
    simp only [mem_mapVals]
    constructor
    · rintro ⟨q, hq, e⟩; exact ⟨q, (h q).1 hq, e⟩
    · rintro ⟨q, hq, e⟩; exact ⟨q, (h q).2 hq, e⟩

end Audit
