import BobModel.Proofs.C18Eval
/-
Helper lemmas for C18: the constructor rewrites of `LocationPath.__init__` preserve the meaning;
the converted package tree is a well-formed graph.
-/
namespace PathSpec

/-! ### constructor normalisations -/

theorem nameTest_star (name : Str) : nameTest star name = true := by
  simp [nameTest]

theorem sem_dropTrivialSelf (g : Graph) : ∀ (s : Steps) (a b : Node), sem g (dropTrivialSelf s) a b ↔ sem g s a b
  | .nil, a, b => by simp [dropTrivialSelf]
  | .cons ax test op rest, a, b => by
    simp only [dropTrivialSelf]
    split
    · rename_i h
      simp only [Bool.and_eq_true, beq_iff_eq, Bool.not_eq_true'] at h
      obtain ⟨⟨hax, htest⟩, hop⟩ := h
      subst hax; subst htest
      have hop' : op = .none := by cases op <;> simp_all [OptPred.isSome]
      subst hop'
      rw [sem_dropTrivialSelf g rest a b]
      simp only [sem, axisRel, holdsOpt, nameTest_star, true_and]
      constructor
      · intro h; exact ⟨a, rfl, h⟩
      · rintro ⟨c, rfl, h⟩; exact h
    · simp only [sem]
      constructor
      · rintro ⟨c, h1, h2, h3, h4⟩; exact ⟨c, h1, h2, h3, (sem_dropTrivialSelf g rest c b).mp h4⟩
      · rintro ⟨c, h1, h2, h3, h4⟩; exact ⟨c, h1, h2, h3, (sem_dropTrivialSelf g rest c b).mpr h4⟩

theorem descendant_split (g : Graph) (a d : Node) :
    Relation.TransGen (edge g true) a d ↔
      ∃ c, (a = c ∨ Relation.TransGen (edge g true) a c) ∧ edge g true c d := by
  constructor
  · intro t
    cases t with
    | single h => exact ⟨a, Or.inl rfl, h⟩
    | tail t h => exact ⟨_, Or.inr t, h⟩
  · rintro ⟨c, rfl | t, h⟩
    · exact .single h
    · exact .tail t h

theorem sem_fuse (g : Graph) : ∀ (s : Steps) (a b : Node), sem g (fuse s) a b ↔ sem g s a b
  | .nil, a, b => by simp [fuse]
  | .cons ax test op .nil, a, b => by simp [fuse]
  | .cons ax test op (.cons ax2 test2 op2 rest), a, b => by
    simp only [fuse]
    split
    · rename_i h
      simp only [Bool.and_eq_true, beq_iff_eq, Bool.not_eq_true'] at h
      obtain ⟨⟨⟨hax, htest⟩, hop⟩, hax2⟩ := h
      subst hax; subst htest; subst hax2
      have hop' : op = .none := by cases op <;> simp_all [OptPred.isSome]
      subst hop'
      simp only [sem, axisRel, holdsOpt, nameTest_star, true_and]
      constructor
      · rintro ⟨d, hd, hname, hop2, hrest⟩
        obtain ⟨c, hc, he⟩ := (descendant_split g a d).mp hd
        exact ⟨c, hc, d, he, hname, hop2, (sem_fuse g rest d b).mp hrest⟩
      · rintro ⟨c, hc, d, he, hname, hop2, hrest⟩
        exact ⟨d, (descendant_split g a d).mpr ⟨c, hc, he⟩, hname, hop2, (sem_fuse g rest d b).mpr hrest⟩
    · simp only [sem]
      constructor
      · rintro ⟨c, h1, h2, h3, h4⟩
        exact ⟨c, h1, h2, h3, by simpa only [sem] using (sem_fuse g (.cons ax2 test2 op2 rest) c b).mp h4⟩
      · rintro ⟨c, h1, h2, h3, h4⟩
        exact ⟨c, h1, h2, h3, (sem_fuse g (.cons ax2 test2 op2 rest) c b).mpr (by simpa only [sem] using h4)⟩

mutual
theorem holds_normalize (g : Graph) : ∀ (p : Pred) (n : Node), holds g p.normalize n ↔ holds g p n
  | .not p, n => by simp only [Pred.normalize, holds, holds_normalize g p n]
  | .and l r, n => by simp only [Pred.normalize, holds, holds_normalize g l n, holds_normalize g r n]
  | .or l r, n => by simp only [Pred.normalize, holds, holds_normalize g l n, holds_normalize g r n]
  | .path abs steps, n => by
    simp only [Pred.normalize, holds]
    constructor
    · rintro ⟨m, hm⟩
      exact ⟨m, (sem_normalizeInner g steps _ m).mp ((sem_dropTrivialSelf g _ _ m).mp ((sem_fuse g _ _ m).mp hm))⟩
    · rintro ⟨m, hm⟩
      exact ⟨m, (sem_fuse g _ _ m).mpr ((sem_dropTrivialSelf g _ _ m).mpr ((sem_normalizeInner g steps _ m).mpr hm))⟩
  | .cmp op l r, n => by simp only [Pred.normalize]
  | .truth e, n => by simp only [Pred.normalize]
theorem holdsOpt_normalize (g : Graph) : ∀ (op : OptPred) (n : Node), holdsOpt g op.normalize n ↔ holdsOpt g op n
  | .none, n => by simp only [OptPred.normalize]
  | .some p, n => by simp only [OptPred.normalize, holdsOpt, holds_normalize g p n]
theorem sem_normalizeInner (g : Graph) : ∀ (s : Steps) (a b : Node), sem g s.normalizeInner a b ↔ sem g s a b
  | .nil, a, b => by simp only [Steps.normalizeInner]
  | .cons ax test op rest, a, b => by
    simp only [Steps.normalizeInner, sem]
    constructor
    · rintro ⟨c, h1, h2, h3, h4⟩
      exact ⟨c, h1, h2, (holdsOpt_normalize g op c).mp h3, (sem_normalizeInner g rest c b).mp h4⟩
    · rintro ⟨c, h1, h2, h3, h4⟩
      exact ⟨c, h1, h2, (holdsOpt_normalize g op c).mpr h3, (sem_normalizeInner g rest c b).mpr h4⟩
end

theorem sem_normalize (g : Graph) (s : Steps) (a b : Node) : sem g s.normalize a b ↔ sem g s a b := by
  unfold Steps.normalize
  rw [sem_fuse, sem_dropTrivialSelf, sem_normalizeInner]

/-! ### the converted package tree -/

/-- the keys of the ordered dict are distinct, every entry carries the name of its target and
points to a dependency -/
def ConvInv (p : Pkgs) (i : Node) (d : List Edge) : Prop :=
  (d.map (·.name)).Nodup ∧ (∀ e ∈ d, e.name = p.name e.node) ∧ (∀ e ∈ d, e.node ∈ p.direct i ∨ e.node ∈ p.indirect i)

theorem mem_odInsert {d : List Edge} {e x : Edge} (h : x ∈ odInsert d e) : x = e ∨ x ∈ d := by
  induction d with
  | nil => simp [odInsert] at h; exact Or.inl h
  | cons a as ih =>
    simp only [odInsert] at h
    split at h
    · rcases List.mem_cons.mp h with h | h
      · exact Or.inl h
      · exact Or.inr (List.mem_cons_of_mem _ h)
    · rcases List.mem_cons.mp h with h | h
      · exact Or.inr (by rw [h]; exact List.mem_cons.mpr (Or.inl rfl))
      · rcases ih h with h | h
        · exact Or.inl h
        · exact Or.inr (List.mem_cons_of_mem _ h)

theorem odInsert_names (d : List Edge) (e : Edge) :
    ∀ n, n ∈ (odInsert d e).map (·.name) ↔ n = e.name ∨ n ∈ d.map (·.name) := by
  induction d with
  | nil => intro n; simp [odInsert]
  | cons a as ih =>
    intro n
    simp only [odInsert]
    split
    · rename_i h
      have : a.name = e.name := by simpa using h
      simp only [List.map_cons, List.mem_cons, this]
      constructor
      · rintro (h | h)
        · exact Or.inl h
        · exact Or.inr (Or.inr h)
      · rintro (h | h | h)
        · exact Or.inl h
        · exact Or.inl h
        · exact Or.inr h
    · simp only [List.map_cons, List.mem_cons, ih n]
      constructor
      · rintro (h | h | h)
        · exact Or.inr (Or.inl h)
        · exact Or.inl h
        · exact Or.inr (Or.inr h)
      · rintro (h | h | h)
        · exact Or.inr (Or.inl h)
        · exact Or.inl h
        · exact Or.inr (Or.inr h)

theorem odInsert_nodup (d : List Edge) (e : Edge) (h : (d.map (·.name)).Nodup) :
    ((odInsert d e).map (·.name)).Nodup := by
  induction d with
  | nil => simp [odInsert]
  | cons a as ih =>
    simp only [List.map_cons, List.nodup_cons] at h
    simp only [odInsert]
    split
    · rename_i hn
      have : a.name = e.name := by simpa using hn
      simp only [List.map_cons, List.nodup_cons]
      exact ⟨by rw [← this]; exact h.1, h.2⟩
    · rename_i hn
      have hne : ¬ a.name = e.name := by simpa using hn
      simp only [List.map_cons, List.nodup_cons]
      refine ⟨?_, ih h.2⟩
      intro hmem
      rcases (odInsert_names as e a.name).mp hmem with h' | h'
      · exact hne h'
      · exact h.1 h'

theorem convChildren_inv (p : Pkgs) (i : Node) : ConvInv p i (convChildren p i) := by
  unfold convChildren
  -- first loop: direct dependencies
  have h1 : ∀ (cs : List Node) (acc : List Edge), (∀ c ∈ cs, c ∈ p.direct i) → ConvInv p i acc →
      ConvInv p i (cs.foldl (fun acc c => odInsert acc ⟨p.name c, c, true⟩) acc) := by
    intro cs
    induction cs with
    | nil => intro acc _ h; simpa using h
    | cons c cs ih =>
      intro acc hcs h
      simp only [List.foldl_cons]
      apply ih _ (fun c' hc' => hcs c' (List.mem_cons_of_mem _ hc'))
      obtain ⟨hn, hname, hdep⟩ := h
      refine ⟨odInsert_nodup _ _ hn, ?_, ?_⟩
      · intro e he
        rcases mem_odInsert he with rfl | he'
        · rfl
        · exact hname e he'
      · intro e he
        rcases mem_odInsert he with rfl | he'
        · exact Or.inl (hcs c (List.mem_cons.mpr (Or.inl rfl)))
        · exact hdep e he'
  -- second loop: indirect dependencies
  have h2 : ∀ (cs : List Node) (acc : List Edge), (∀ c ∈ cs, c ∈ p.indirect i) → ConvInv p i acc →
      ConvInv p i (cs.foldl (fun acc c => if hasName acc (p.name c) then acc else acc ++ [⟨p.name c, c, false⟩]) acc) := by
    intro cs
    induction cs with
    | nil => intro acc _ h; simpa using h
    | cons c cs ih =>
      intro acc hcs h
      simp only [List.foldl_cons]
      apply ih _ (fun c' hc' => hcs c' (List.mem_cons_of_mem _ hc'))
      split
      · exact h
      · rename_i hh
        obtain ⟨hn, hname, hdep⟩ := h
        have hnot : p.name c ∉ acc.map (·.name) := by
          intro hm
          apply hh
          obtain ⟨e, he, hen⟩ := List.mem_map.mp hm
          simp only [hasName, List.any_eq_true, beq_iff_eq]
          exact ⟨e, he, hen⟩
        refine ⟨?_, ?_, ?_⟩
        · rw [List.map_append, List.nodup_append]
          refine ⟨hn, by simp, ?_⟩
          intro a ha b hb
          simp only [List.map_cons, List.map_nil, List.mem_singleton] at hb
          subst hb
          intro hab; subst hab; exact hnot ha
        · intro e he
          rcases List.mem_append.mp he with he' | he'
          · exact hname e he'
          · simp only [List.mem_singleton] at he'; subst he'; rfl
        · intro e he
          rcases List.mem_append.mp he with he' | he'
          · exact hdep e he'
          · simp only [List.mem_singleton] at he'; subst he'
            exact Or.inr (hcs c (List.mem_cons.mpr (Or.inl rfl)))
  apply h2 _ _ (fun _ h => h)
  apply h1 _ _ (fun _ h => h)
  exact ⟨by simp, by simp, by simp⟩

theorem convChildren_targets_nodup (p : Pkgs) (i : Node) : ((convChildren p i).map (·.node)).Nodup := by
  obtain ⟨hn, hname, _⟩ := convChildren_inv p i
  generalize convChildren p i = d at hn hname
  induction d with
  | nil => simp
  | cons a as ih =>
    simp only [List.map_cons, List.nodup_cons] at hn ⊢
    refine ⟨?_, ih hn.2 (fun e he => hname e (List.mem_cons_of_mem _ he))⟩
    intro hmem
    obtain ⟨e, he, hen⟩ := List.mem_map.mp hmem
    apply hn.1
    have h1 := hname e (List.mem_cons_of_mem _ he)
    have h2 := hname a (List.mem_cons.mpr (Or.inl rfl))
    exact List.mem_map.mpr ⟨e, he, by rw [h1, h2, hen]⟩

/-- the graph written by `__convertPackageToGraph` is well formed -/
theorem toGraph_wf (p : Pkgs) (sval : Nat → Node → Str) (hroot : p.root < p.size)
    (hd : ∀ i c, c ∈ p.direct i → c < p.size) (hi : ∀ i c, c ∈ p.indirect i → c < p.size) :
    (p.toGraph sval).WF := by
  refine ⟨hroot, ?_, fun i => convChildren_targets_nodup p i⟩
  intro i e he
  rcases (convChildren_inv p i).2.2 e he with h | h
  · exact hd i _ h
  · exact hi i _ h

end PathSpec
