import BobModel.Proofs.C08Walk
/-
Helper lemmas for Props/C08.lean, part 3: the confinement relation `MStep` between two file
systems (names outside the destination unchanged, inodes that are not referenced from inside
unchanged, new references inside are fresh or copies of inside references), the structural
invariant `Inv`, and the six elementary updates the extraction performs.
-/
namespace TarExtract

def Inside (dest p : Path) : Prop := dest <+: p

theorem inside_append {dest p : Path} (h : Inside dest p) (q : Path) : Inside dest (p ++ q) :=
  List.IsPrefix.trans h (List.prefix_append p q)

/-- structural invariant of the file system during an extraction into `dest` -/
structure Inv (dest : Path) (fs : FS) : Prop where
  wf : WF fs
  fresh : ∀ p i, fs.look p = some (.ref i) → i < fs.next
  dirs : ∀ k, k ≤ dest.length → IsDir fs (dest.take k)

theorem Inv.root {dest : Path} {fs : FS} (h : Inv dest fs) : IsDir fs [] := by
  simpa using h.dirs 0 (Nat.zero_le _)

theorem Inv.destDir {dest : Path} {fs : FS} (h : Inv dest fs) : IsDir fs dest := by
  simpa using h.dirs dest.length (Nat.le_refl _)

/-- no inode is shared between a name inside and a name outside the destination -/
def Sep (dest : Path) (fs : FS) : Prop :=
  ∀ p q i, Inside dest p → ¬ Inside dest q → fs.look p = some (.ref i) → fs.look q ≠ some (.ref i)

/-- `b` differs from `a` only inside `dest` -/
structure MStep (dest : Path) (a b : FS) : Prop where
  out : ∀ q, ¬ Inside dest q → b.look q = a.look q
  ino : ∀ i, i < a.next → (∀ p, Inside dest p → a.look p ≠ some (.ref i)) → b.inode i = a.inode i
  refs : ∀ p i, Inside dest p → b.look p = some (.ref i) →
    a.next ≤ i ∨ ∃ p', Inside dest p' ∧ a.look p' = some (.ref i)
  next : a.next ≤ b.next
  dirsStay : ∀ p, IsDir a p → IsDir b p

theorem MStep.refl (dest : Path) (a : FS) : MStep dest a a :=
  ⟨fun _ _ => rfl, fun _ _ _ => rfl, fun p i hp h => Or.inr ⟨p, hp, h⟩, Nat.le_refl _, fun _ h => h⟩

theorem MStep.trans {dest : Path} {a b c : FS} (h1 : MStep dest a b) (h2 : MStep dest b c) : MStep dest a c where
  out q hq := (h2.out q hq).trans (h1.out q hq)
  ino i hi hno := by
    rw [h2.ino i (Nat.lt_of_lt_of_le hi h1.next) ?_, h1.ino i hi hno]
    intro p hp hl
    rcases h1.refs p i hp hl with h | ⟨p', hp', hl'⟩
    · omega
    · exact hno p' hp' hl'
  refs p i hp hl := by
    rcases h2.refs p i hp hl with h | ⟨p', hp', hl'⟩
    · exact Or.inl (Nat.le_trans h1.next h)
    · exact h1.refs p' i hp' hl'
  next := Nat.le_trans h1.next h2.next
  dirsStay p h := h2.dirsStay p (h1.dirsStay p h)

/-- the separation of inodes is kept by a confined step -/
theorem MStep.sep {dest : Path} {a b : FS} (h : MStep dest a b) (hf : ∀ p i, a.look p = some (.ref i) → i < a.next)
    (hs : Sep dest a) : Sep dest b := by
  intro p q i hp hq hl hlq
  rw [h.out q hq] at hlq
  rcases h.refs p i hp hl with hn | ⟨p', hp', hl'⟩
  · have := hf q i hlq; omega
  · exact hs p' q i hp' hq hl' hlq

/-- what a confined step guarantees for the part of the tree outside the destination -/
theorem MStep.outside_inode {dest : Path} {a b : FS} (h : MStep dest a b)
    (hf : ∀ p i, a.look p = some (.ref i) → i < a.next) (hs : Sep dest a)
    (q : Path) (i : Nat) (hq : ¬ Inside dest q) (hl : a.look q = some (.ref i)) : b.inode i = a.inode i :=
  h.ino i (hf q i hl) (fun p hp hlp => hs p q i hp hq hlp hl)

/-! ### elementary updates -/

theorem symTarget_congr {a b : FS} {q : Path} (hl : b.look q = a.look q)
    (hi : ∀ i, a.look q = some (.ref i) → b.inode i = a.inode i) : symTarget b q = symTarget a q := by
  unfold symTarget
  rw [hl]
  cases h : a.look q with
  | none => rfl
  | some e =>
    cases e with
    | dir m => rfl
    | ref i => simp only []; rw [hi i h]

/-- P1/P2: a directory entry at `loc`, which was missing or a directory before -/
theorem step_setDir {dest : Path} {a : FS} (hinv : Inv dest a) {D : Path} {c : Name} (mode : Nat)
    (hin : Inside dest (D ++ [c])) (hD : IsDir a D)
    (hold : a.look (D ++ [c]) = none ∨ IsDir a (D ++ [c])) :
    MStep dest a (a.setName (D ++ [c]) (.dir mode)) ∧ Inv dest (a.setName (D ++ [c]) (.dir mode)) ∧
      SameSym a (a.setName (D ++ [c]) (.dir mode)) := by
  have hds : ∀ p, IsDir a p → IsDir (a.setName (D ++ [c]) (.dir mode)) p := by
    intro p ⟨m, hm⟩
    by_cases hp : p = D ++ [c]
    · exact ⟨mode, by simp [hp]⟩
    · exact ⟨m, by simp [hp, hm]⟩
  have hnotref : ∀ i, a.look (D ++ [c]) ≠ some (.ref i) := by
    intro i h
    rcases hold with h' | ⟨m, h'⟩ <;> rw [h'] at h <;> cases h
  refine ⟨⟨?_, ?_, ?_, ?_, hds⟩, ⟨?_, ?_, ?_⟩, ?_⟩
  · intro q hq
    have : q ≠ D ++ [c] := fun e => hq (e ▸ hin)
    simp [this]
  · intro i _ _; rfl
  · intro p i hp hl
    by_cases hpl : p = D ++ [c]
    · simp [hpl] at hl
    · simp only [look_setName, hpl, if_false] at hl
      exact Or.inr ⟨p, hp, hl⟩
  · exact Nat.le_refl _
  · intro p x e hl
    by_cases hpl : p ++ [x] = D ++ [c]
    · have : p = D := (List.append_inj' hpl rfl).1
      exact hds p (this ▸ hD)
    · simp only [look_setName, hpl, if_false] at hl
      exact hds p (hinv.wf p x e hl)
  · intro p i hl
    by_cases hpl : p = D ++ [c]
    · simp [hpl] at hl
    · simp only [look_setName, hpl, if_false] at hl
      exact hinv.fresh p i hl
  · intro k hk; exact hds _ (hinv.dirs k hk)
  · intro q
    by_cases hq : q = D ++ [c]
    · subst hq
      have h1 : symTarget (a.setName (D ++ [c]) (.dir mode)) (D ++ [c]) = none := by simp [symTarget]
      rw [h1]
      rcases hold with h' | h'
      · exact symTarget_of_look_none h'
      · exact symTarget_of_isDir h'
    · exact (symTarget_congr (a := a) (b := a.setName (D ++ [c]) (.dir mode)) (by simp [hq]) (fun _ _ => rfl)).symm

/-- P3: the inode behind an inside name is rewritten; the kind of object (link or not) is kept -/
theorem step_setInode {dest : Path} {a : FS} (hinv : Inv dest a) {loc : Path} {i : Nat} (o o' : Inode)
    (hin : Inside dest loc) (hl : a.look loc = some (.ref i)) (ho : a.inode i = some o)
    (hsame : ∀ t, (∃ m, o = ⟨.symlink t, m⟩) ↔ (∃ m, o' = ⟨.symlink t, m⟩)) :
    MStep dest a (a.setInode i o') ∧ Inv dest (a.setInode i o') ∧ SameSym a (a.setInode i o') := by
  refine ⟨⟨fun _ _ => rfl, ?_, ?_, Nat.le_refl _, fun _ h => h⟩, ⟨hinv.wf, hinv.fresh, hinv.dirs⟩, ?_⟩
  · intro j _ hno
    have : j ≠ i := fun e => hno loc hin (e ▸ hl)
    simp [this]
  · intro p j hp h; exact Or.inr ⟨p, hp, h⟩
  · intro q
    unfold symTarget
    simp only [look_setInode]
    cases hq : a.look q with
    | none => rfl
    | some e =>
      cases e with
      | dir m => rfl
      | ref j =>
        simp only [inode_setInode]
        by_cases hj : j = i
        · subst hj
          simp only [if_true, ho]
          obtain ⟨ob, md⟩ := o
          obtain ⟨ob', md'⟩ := o'
          cases ob <;> cases ob' <;> simp_all
        · simp [hj]

/-- P4: a new non-link inode at a missing inside location -/
theorem step_create {dest : Path} {a : FS} (hinv : Inv dest a) {D : Path} {c : Name} (o : Inode)
    (hin : Inside dest (D ++ [c])) (hD : IsDir a D) (hmiss : a.look (D ++ [c]) = none)
    (hnl : ∀ t m, o ≠ ⟨.symlink t, m⟩) :
    MStep dest a ((a.alloc o).setName (D ++ [c]) (.ref a.next)) ∧
      Inv dest ((a.alloc o).setName (D ++ [c]) (.ref a.next)) ∧
      SameSym a ((a.alloc o).setName (D ++ [c]) (.ref a.next)) := by
  have hds : ∀ p, IsDir a p → IsDir ((a.alloc o).setName (D ++ [c]) (.ref a.next)) p := by
    intro p ⟨m, hm⟩
    have hp : p ≠ D ++ [c] := fun e => by rw [e, hmiss] at hm; cases hm
    exact ⟨m, by simp [hp, hm]⟩
  refine ⟨⟨?_, ?_, ?_, ?_, hds⟩, ⟨?_, ?_, ?_⟩, ?_⟩
  · intro q hq
    have : q ≠ D ++ [c] := fun e => hq (e ▸ hin)
    simp [this]
  · intro j hj _
    have : j ≠ a.next := by omega
    simp [this]
  · intro p j hp hl
    by_cases hpl : p = D ++ [c]
    · simp only [hpl, look_setName, if_true, Option.some.injEq, Entry.ref.injEq] at hl
      exact Or.inl (by omega)
    · simp only [look_setName, hpl, if_false, look_alloc] at hl
      exact Or.inr ⟨p, hp, hl⟩
  · simp
  · intro p x e hl
    by_cases hpl : p ++ [x] = D ++ [c]
    · have : p = D := (List.append_inj' hpl rfl).1
      exact hds p (this ▸ hD)
    · simp only [look_setName, hpl, if_false, look_alloc] at hl
      exact hds p (hinv.wf p x e hl)
  · intro p j hl
    by_cases hpl : p = D ++ [c]
    · simp only [hpl, look_setName, if_true, Option.some.injEq, Entry.ref.injEq] at hl
      simp; omega
    · simp only [look_setName, hpl, if_false, look_alloc] at hl
      have := hinv.fresh p j hl
      simp; omega
  · intro k hk; exact hds _ (hinv.dirs k hk)
  · intro q
    by_cases hq : q = D ++ [c]
    · subst hq
      rw [symTarget_of_look_none hmiss]
      unfold symTarget
      simp only [look_setName, if_true, inode_setName, inode_alloc]
      obtain ⟨ob, md⟩ := o
      cases ob with
      | symlink t => exact absurd rfl (hnl t md)
      | _ => rfl
    · refine (symTarget_congr (by simp [hq]) ?_).symm
      intro j hj
      have := hinv.fresh q j hj
      have hne : j ≠ a.next := by omega
      simp [hne]

/-- P5: `unlink` (of a non-directory) followed by `symlink` at an inside location -/
theorem step_symlink {dest : Path} {a : FS} (hinv : Inv dest a) {D : Path} {c : Name} (o : Inode)
    (hin : Inside dest (D ++ [c])) (hD : IsDir a D) (hnd : ¬ IsDir a (D ++ [c])) :
    MStep dest a (((a.delName (D ++ [c])).alloc o).setName (D ++ [c]) (.ref a.next)) ∧
      Inv dest (((a.delName (D ++ [c])).alloc o).setName (D ++ [c]) (.ref a.next)) := by
  have hds : ∀ p, IsDir a p → IsDir (((a.delName (D ++ [c])).alloc o).setName (D ++ [c]) (.ref a.next)) p := by
    intro p ⟨m, hm⟩
    have hp : p ≠ D ++ [c] := fun e => hnd (e ▸ ⟨m, hm⟩)
    exact ⟨m, by simp [hp, hm]⟩
  refine ⟨⟨?_, ?_, ?_, ?_, hds⟩, ⟨?_, ?_, ?_⟩⟩
  · intro q hq
    have : q ≠ D ++ [c] := fun e => hq (e ▸ hin)
    simp [this]
  · intro j hj _
    have : j ≠ a.next := by omega
    simp [this]
  · intro p j hp hl
    by_cases hpl : p = D ++ [c]
    · simp only [hpl, look_setName, if_true, Option.some.injEq, Entry.ref.injEq] at hl
      exact Or.inl (by omega)
    · simp only [look_setName, hpl, if_false, look_alloc, look_delName] at hl
      exact Or.inr ⟨p, hp, hl⟩
  · simp
  · intro p x e hl
    by_cases hpl : p ++ [x] = D ++ [c]
    · have : p = D := (List.append_inj' hpl rfl).1
      exact hds p (this ▸ hD)
    · simp only [look_setName, hpl, if_false, look_alloc, look_delName] at hl
      exact hds p (hinv.wf p x e hl)
  · intro p j hl
    by_cases hpl : p = D ++ [c]
    · simp only [hpl, look_setName, if_true, Option.some.injEq, Entry.ref.injEq] at hl
      simp; omega
    · simp only [look_setName, hpl, if_false, look_alloc, look_delName] at hl
      have := hinv.fresh p j hl
      simp; omega
  · intro k hk; exact hds _ (hinv.dirs k hk)

/-- P5a: `unlink` of a non-directory at an inside location -/
theorem step_unlink {dest : Path} {a : FS} (hinv : Inv dest a) {loc : Path}
    (hin : Inside dest loc) (hnd : ¬ IsDir a loc) :
    MStep dest a (a.delName loc) ∧ Inv dest (a.delName loc) := by
  have hds : ∀ p, IsDir a p → IsDir (a.delName loc) p := by
    intro p ⟨m, hm⟩
    have hp : p ≠ loc := fun e => hnd (e ▸ ⟨m, hm⟩)
    exact ⟨m, by simp [hp, hm]⟩
  refine ⟨⟨?_, fun _ _ _ => rfl, ?_, Nat.le_refl _, hds⟩, ⟨?_, ?_, ?_⟩⟩
  · intro q hq
    have : q ≠ loc := fun e => hq (e ▸ hin)
    simp [this]
  · intro p j hp hl
    by_cases hpl : p = loc
    · simp [hpl] at hl
    · simp only [look_delName, hpl, if_false] at hl
      exact Or.inr ⟨p, hp, hl⟩
  · intro p x e hl
    by_cases hpl : p ++ [x] = loc
    · simp [hpl] at hl
    · simp only [look_delName, hpl, if_false] at hl
      exact hds p (hinv.wf p x e hl)
  · intro p j hl
    by_cases hpl : p = loc
    · simp [hpl] at hl
    · simp only [look_delName, hpl, if_false] at hl
      exact hinv.fresh p j hl
  · intro k hk; exact hds _ (hinv.dirs k hk)

/-- P6: a second inside name for an inode that an inside name refers to and that is no link -/
theorem step_link {dest : Path} {a : FS} (hinv : Inv dest a) {D s : Path} {c : Name} {i : Nat}
    (hin : Inside dest (D ++ [c])) (hD : IsDir a D) (hmiss : a.look (D ++ [c]) = none)
    (hsin : Inside dest s) (hs : a.look s = some (.ref i)) (hnl : symTarget a s = none) :
    MStep dest a (a.setName (D ++ [c]) (.ref i)) ∧ Inv dest (a.setName (D ++ [c]) (.ref i)) ∧
      SameSym a (a.setName (D ++ [c]) (.ref i)) := by
  have hds : ∀ p, IsDir a p → IsDir (a.setName (D ++ [c]) (.ref i)) p := by
    intro p ⟨m, hm⟩
    have hp : p ≠ D ++ [c] := fun e => by rw [e, hmiss] at hm; cases hm
    exact ⟨m, by simp [hp, hm]⟩
  refine ⟨⟨?_, fun _ _ _ => rfl, ?_, Nat.le_refl _, hds⟩, ⟨?_, ?_, ?_⟩, ?_⟩
  · intro q hq
    have : q ≠ D ++ [c] := fun e => hq (e ▸ hin)
    simp [this]
  · intro p j hp hl
    by_cases hpl : p = D ++ [c]
    · simp only [hpl, look_setName, if_true, Option.some.injEq, Entry.ref.injEq] at hl
      exact Or.inr ⟨s, hsin, hl ▸ hs⟩
    · simp only [look_setName, hpl, if_false] at hl
      exact Or.inr ⟨p, hp, hl⟩
  · intro p x e hl
    by_cases hpl : p ++ [x] = D ++ [c]
    · have : p = D := (List.append_inj' hpl rfl).1
      exact hds p (this ▸ hD)
    · simp only [look_setName, hpl, if_false] at hl
      exact hds p (hinv.wf p x e hl)
  · intro p j hl
    by_cases hpl : p = D ++ [c]
    · simp only [hpl, look_setName, if_true, Option.some.injEq, Entry.ref.injEq] at hl
      exact hl ▸ hinv.fresh s i hs
    · simp only [look_setName, hpl, if_false] at hl
      exact hinv.fresh p j hl
  · intro k hk; exact hds _ (hinv.dirs k hk)
  · intro q
    by_cases hq : q = D ++ [c]
    · subst hq
      rw [symTarget_of_look_none hmiss]
      have : symTarget (a.setName (D ++ [c]) (.ref i)) (D ++ [c]) = symTarget a s := by
        unfold symTarget; simp [hs]
      rw [this, hnl]
    · exact (symTarget_congr (a := a) (b := a.setName (D ++ [c]) (.ref i)) (by simp [hq]) (fun _ _ => rfl)).symm

end TarExtract
