import BobModel.Model.Clean
import BobModel.Proofs.C16Dirs
import Mathlib.Data.Finset.Card
/-
Helper lemmas for C16 (`bob clean`): the recursive `walk` of `collectPaths` visits exactly the
packages reachable from the root, the op list of `doClean` and its effect on the world.
-/
namespace BobClean
open BobDirs (Str lookup)

/-- reachability over `getDirectDepSteps()` -/
inductive Reach (g : Graph) (root : Nat) : Nat → Prop
  | root : Reach g root root
  | step {i d : Nat} {p : Pkg} : Reach g root i → g.get i = some p → d ∈ p.deps → Reach g root d

/-- every finished package has all its dependencies finished, except those still on the call stack `S` -/
def Closed (g : Graph) (D S : List Nat) : Prop :=
  ∀ q ∈ D, q ∈ S ∨ ∀ p, g.get q = some p → ∀ d ∈ p.deps, d ∈ D

/-- the paths of every finished package were added -/
def PInv (g : Graph) (st : States) (acc : List Nat × List Str) : Prop :=
  ∀ q ∈ acc.1, ∀ p, g.get q = some p → ∀ x ∈ pathsOf st p, x ∈ acc.2

/-- only reachable packages are finished, only their paths were added -/
def Sound (g : Graph) (st : States) (root : Nat) (acc : List Nat × List Str) : Prop :=
  (∀ q ∈ acc.1, Reach g root q) ∧
  (∀ x ∈ acc.2, ∃ q p, Reach g root q ∧ g.get q = some p ∧ x ∈ pathsOf st p)

structure WalkOk (g : Graph) (st : States) (acc acc' : List Nat × List Str) : Prop where
  mono : ∀ x ∈ acc.1, x ∈ acc'.1
  closed : ∀ S, Closed g acc.1 S → Closed g acc'.1 S
  pinv : PInv g st acc → PInv g st acc'

theorem WalkOk.refl (g : Graph) (st : States) (a : List Nat × List Str) : WalkOk g st a a :=
  ⟨fun _ h => h, fun _ h => h, fun h => h⟩

theorem WalkOk.trans {g : Graph} {st : States} {a b c : List Nat × List Str}
    (h1 : WalkOk g st a b) (h2 : WalkOk g st b c) : WalkOk g st a c :=
  ⟨fun x h => h2.mono x (h1.mono x h), fun S h => h2.closed S (h1.closed S h), fun h => h2.pinv (h1.pinv h)⟩

theorem closed_cons_of_mono {g : Graph} {D S : List Nat} (i : Nat) (h : Closed g D S) :
    Closed g (i :: D) (i :: S) := by
  intro q hq
  rcases List.mem_cons.mp hq with heq | hmem
  · exact Or.inl (by simp [heq])
  · rcases h q hmem with h1 | h1
    · exact Or.inl (List.mem_cons_of_mem _ h1)
    · exact Or.inr (fun p hp d hd => List.mem_cons_of_mem _ (h1 p hp d hd))

/-- the loop over the dependencies, given the property for every recursive call -/
theorem fold_ok {g : Graph} {st : States} {f : Nat}
    (ih : ∀ acc i acc', walk g st f acc i = some acc' → WalkOk g st acc acc' ∧ i ∈ acc'.1)
    (deps : List Nat) (a a' : List Nat × List Str)
    (h : deps.foldlM (fun a d => walk g st f a d) a = some a') :
    WalkOk g st a a' ∧ ∀ d ∈ deps, d ∈ a'.1 := by
  induction deps generalizing a with
  | nil => simp only [List.foldlM_nil, pure, Option.some.injEq] at h; subst h; exact ⟨WalkOk.refl _ _ _, by simp⟩
  | cons d rest ihd =>
    simp only [List.foldlM_cons, bind, Option.bind_eq_some_iff] at h
    obtain ⟨a1, h1, h2⟩ := h
    obtain ⟨w1, m1⟩ := ih a d a1 h1
    obtain ⟨w2, m2⟩ := ihd a1 h2
    refine ⟨w1.trans w2, ?_⟩
    intro x hx
    rcases List.mem_cons.mp hx with heq | hmem
    · exact heq ▸ w2.mono d m1
    · exact m2 x hmem

theorem walk_ok (g : Graph) (st : States) (fuel : Nat) :
    ∀ acc i acc', walk g st fuel acc i = some acc' → WalkOk g st acc acc' ∧ i ∈ acc'.1 := by
  induction fuel with
  | zero =>
    intro acc i acc' h
    unfold walk at h
    split at h
    · rename_i hc; cases h; exact ⟨WalkOk.refl _ _ _, by simpa using hc⟩
    · cases h
  | succ f ih =>
    intro acc i acc' h
    unfold walk at h
    split at h
    · rename_i hc; cases h; exact ⟨WalkOk.refl _ _ _, by simpa using hc⟩
    · rename_i hc
      simp only at h
      split at h
      · -- unknown id
        rename_i hg
        cases h
        refine ⟨⟨fun x hx => List.mem_cons_of_mem _ hx, ?_, ?_⟩, by simp⟩
        · intro S hS q hq
          rcases List.mem_cons.mp hq with heq | hmem
          · exact Or.inr (fun p hp => by rw [heq, hg] at hp; cases hp)
          · rcases hS q hmem with h1 | h1
            · exact Or.inl h1
            · exact Or.inr (fun p hp d hd => List.mem_cons_of_mem _ (h1 p hp d hd))
        · intro hP q hq p hp x hx
          rcases List.mem_cons.mp hq with heq | hmem
          · rw [heq, hg] at hp; cases hp
          · exact hP q hmem p hp x hx
      · rename_i p hg
        obtain ⟨w, m⟩ := fold_ok ih p.deps _ acc' h
        have hi : i ∈ acc'.1 := w.mono i (by simp)
        refine ⟨⟨fun x hx => w.mono x (List.mem_cons_of_mem _ hx), ?_, ?_⟩, hi⟩
        · intro S hS
          have h1 := w.closed (i :: S) (closed_cons_of_mono i hS)
          intro q hq
          rcases h1 q hq with h2 | h2
          · rcases List.mem_cons.mp h2 with heq | hmem
            · refine Or.inr (fun p' hp' d hd => ?_)
              rw [heq, hg] at hp'; cases hp'
              exact m d hd
            · exact Or.inl hmem
          · exact Or.inr h2
        · intro hP
          apply w.pinv
          intro q hq p' hp' x hx
          rcases List.mem_cons.mp hq with heq | hmem
          · rw [heq, hg] at hp'; cases hp'
            exact List.mem_append_right _ hx
          · exact List.mem_append_left _ (hP q hmem p' hp' x hx)

theorem fold_sound {g : Graph} {st : States} {root : Nat} {f : Nat}
    (ih : ∀ acc i acc', walk g st f acc i = some acc' → Reach g root i → Sound g st root acc → Sound g st root acc')
    (deps : List Nat) (a a' : List Nat × List Str)
    (h : deps.foldlM (fun a d => walk g st f a d) a = some a')
    (hr : ∀ d ∈ deps, Reach g root d) (hs : Sound g st root a) : Sound g st root a' := by
  induction deps generalizing a with
  | nil => simp only [List.foldlM_nil, pure, Option.some.injEq] at h; subst h; exact hs
  | cons d rest ihd =>
    simp only [List.foldlM_cons, bind, Option.bind_eq_some_iff] at h
    obtain ⟨a1, h1, h2⟩ := h
    exact ihd a1 h2 (fun x hx => hr x (List.mem_cons_of_mem _ hx)) (ih a d a1 h1 (hr d (by simp)) hs)

theorem walk_sound (g : Graph) (st : States) (root : Nat) (fuel : Nat) :
    ∀ acc i acc', walk g st fuel acc i = some acc' → Reach g root i → Sound g st root acc → Sound g st root acc' := by
  induction fuel with
  | zero =>
    intro acc i acc' h _ hs
    unfold walk at h
    split at h
    · cases h; exact hs
    · cases h
  | succ f ih =>
    intro acc i acc' h hri hs
    unfold walk at h
    split at h
    · cases h; exact hs
    · simp only at h
      split at h
      · cases h
        refine ⟨?_, hs.2⟩
        intro q hq
        rcases List.mem_cons.mp hq with heq | hmem
        · exact heq ▸ hri
        · exact hs.1 q hmem
      · rename_i p hg
        refine fold_sound ih p.deps _ acc' h (fun d hd => Reach.step hri hg hd) ⟨?_, ?_⟩
        · intro q hq
          rcases List.mem_cons.mp hq with heq | hmem
          · exact heq ▸ hri
          · exact hs.1 q hmem
        · intro x hx
          rcases List.mem_append.mp hx with h1 | h1
          · exact hs.2 x h1
          · exact ⟨i, p, hri, hg, h1⟩

/-- a closed set that contains the root contains everything reachable -/
theorem reach_in_closed {g : Graph} {root : Nat} {D : List Nat} (hc : Closed g D []) (hr : root ∈ D)
    {q : Nat} (h : Reach g root q) : q ∈ D := by
  induction h with
  | root => exact hr
  | step _ hg hd ih =>
    rcases hc _ ih with h1 | h1
    · cases h1
    · exact h1 _ hg _ hd

theorem collect_complete {g : Graph} {st : States} {fuel root : Nat} {used : List Str}
    (h : collectPaths g st fuel root = some used) {q : Nat} {p : Pkg} (hr : Reach g root q)
    (hg : g.get q = some p) {x : Str} (hx : x ∈ pathsOf st p) : x ∈ used := by
  unfold collectPaths at h
  simp only [Option.map_eq_some_iff] at h
  obtain ⟨acc', hw, rfl⟩ := h
  obtain ⟨w, m⟩ := walk_ok g st fuel _ _ _ hw
  have hc : Closed g acc'.1 [] := w.closed [] (by intro q hq; cases hq)
  have hq := reach_in_closed hc m hr
  exact w.pinv (by intro q hq; cases hq) q hq p hg x hx

theorem collect_sound {g : Graph} {st : States} {fuel root : Nat} {used : List Str}
    (h : collectPaths g st fuel root = some used) {x : Str} (hx : x ∈ used) :
    ∃ q p, Reach g root q ∧ g.get q = some p ∧ x ∈ pathsOf st p := by
  unfold collectPaths at h
  simp only [Option.map_eq_some_iff] at h
  obtain ⟨acc', hw, rfl⟩ := h
  have := walk_sound g st root fuel _ _ _ hw Reach.root ⟨(by intro q hq; cases hq), (by intro q hq; cases hq)⟩
  exact this.2 x hx

/-! ### the filter and the op list -/

theorem mem_insertSorted (a x : Str) (l : List Str) : x ∈ insertSorted a l ↔ x = a ∨ x ∈ l := by
  induction l with
  | nil => simp [insertSorted]
  | cons b r ih =>
    simp only [insertSorted]
    split
    · simp
    · simp only [List.mem_cons, ih]; tauto

theorem mem_sortStr (x : Str) (l : List Str) : x ∈ sortStr l ↔ x ∈ l := by
  induction l with
  | nil => simp [sortStr]
  | cons a r ih =>
    have : sortStr (a :: r) = insertSorted a (sortStr r) := rfl
    rw [this, mem_insertSorted, ih]; simp

theorem mem_delPaths {o : Opts} {w : World} {used : List Str} {d : Str} :
    d ∈ delPaths o w used ↔ d ∈ delCandidates o w used := by
  unfold delPaths
  exact mem_sortStr _ _

theorem buildUsed_iff (st : States) (s : Step) (q : Str) :
    buildUsed st s q = true ↔ lookup st q = none ∨ lookup st q = some (.build s.vid) := by
  unfold buildUsed
  cases lookup st q with
  | none => simp
  | some v => cases v <;> simp [eq_comm]

theorem pkgUsed_iff (st : States) (s : Step) (q : Str) :
    pkgUsed st s q = true ↔ lookup st q = none ∨ lookup st q = some (.pkg s.vid) := by
  unfold pkgUsed
  cases lookup st q with
  | none => simp
  | some v => cases v <;> simp [eq_comm]

theorem apply_print_fold (w : World) (ops : List Op) (h : ∀ op ∈ ops, ∃ d, op = Op.print d) :
    ops.foldl applyOp w = w := by
  induction ops generalizing w with
  | nil => rfl
  | cons op rest ih =>
    obtain ⟨d, hd⟩ := h op (by simp)
    subst hd
    simp only [List.foldl_cons, applyOp]
    exact ih w (fun op' h' => h op' (List.mem_cons_of_mem _ h'))

theorem apply_existing (w : World) (ops : List Op) (x : Str) :
    x ∈ (ops.foldl applyOp w).existing ↔ x ∈ w.existing ∧ Op.rm x ∉ ops := by
  induction ops generalizing w with
  | nil => simp
  | cons op rest ih =>
    simp only [List.foldl_cons, ih, List.mem_cons, not_or]
    cases op with
    | print d => simp [applyOp]
    | rm d =>
      simp only [applyOp, List.mem_filter, bne_iff_ne, ne_eq, Op.rm.injEq]
      constructor
      · rintro ⟨⟨h1, h2⟩, h3⟩; exact ⟨h1, h2, h3⟩
      · rintro ⟨h1, h2, h3⟩; exact ⟨⟨h1, h2⟩, h3⟩
    | delState d => simp [applyOp]
    | delAttic d => simp [applyOp]

theorem lookup_filter_ne {β} (t : List (Str × β)) (d x : Str) :
    lookup (t.filter fun y => y.1 != d) x = if x = d then none else lookup t x := by
  induction t with
  | nil => simp [lookup]
  | cons y rest ih =>
    obtain ⟨k, v⟩ := y
    by_cases hk : k = d
    · subst hk
      simp only [List.filter_cons, bne_self_eq_false, Bool.false_eq_true, if_false, ih, lookup]
      by_cases hx : x = k
      · simp [hx]
      · simp [hx, Ne.symm hx]
    · have : (k != d) = true := by simpa using hk
      simp only [List.filter_cons, this, if_true, lookup, ih]
      by_cases hkx : k = x
      · subst hkx; simp [hk]
      · simp [hkx]

theorem apply_states (w : World) (ops : List Op) (x : Str) :
    lookup (ops.foldl applyOp w).states x = if Op.delState x ∈ ops then none else lookup w.states x := by
  induction ops generalizing w with
  | nil => simp
  | cons op rest ih =>
    simp only [List.foldl_cons, ih, List.mem_cons]
    cases op with
    | print d => simp [applyOp]
    | rm d => simp [applyOp]
    | delAttic d => simp [applyOp]
    | delState d =>
      simp only [applyOp, lookup_filter_ne, Op.delState.injEq]
      by_cases h1 : Op.delState x ∈ rest
      · simp [h1]
      · by_cases h2 : x = d <;> simp [h1, h2]

theorem mem_delOps {o : Opts} {d : Str} {op : Op} (h : op ∈ delOps o d) :
    op = Op.print d ∨ (o.dryRun = false ∧ (op = Op.rm d ∨ op = Op.delState d ∨ op = Op.delAttic d)) := by
  unfold delOps at h
  rcases List.mem_append.mp h with h1 | h1
  · split at h1
    · simp only [List.mem_singleton] at h1; exact Or.inl h1
    · cases h1
  · split at h1
    · rename_i hd
      have hd' : o.dryRun = false := by simpa using hd
      simp only [List.mem_cons, List.not_mem_nil, or_false] at h1
      rcases h1 with h2 | h2
      · exact Or.inr ⟨hd', Or.inl h2⟩
      · split at h2
        · exact Or.inr ⟨hd', Or.inr (Or.inr h2)⟩
        · exact Or.inr ⟨hd', Or.inr (Or.inl h2)⟩
    · cases h1

/-- where the ops of `cleanOps` come from -/
theorem mem_cleanOps {o : Opts} {w : World} {del : List Str} {op : Op} (h : op ∈ cleanOps o w del) :
    (∃ d ∈ del, op = Op.print d) ∨
    (o.dryRun = false ∧
      ((∃ d ∈ del, op = Op.rm d ∨ op = Op.delState d ∨ op = Op.delAttic d) ∨
       (∃ d, (d ∉ w.existing ∨ d ∈ del) ∧ (op = Op.delState d ∨ op = Op.delAttic d)))) := by
  unfold cleanOps at h
  rcases List.mem_append.mp h with h1 | h1
  · obtain ⟨d, hd, hop⟩ := List.mem_flatMap.mp h1
    rcases mem_delOps hop with h2 | ⟨h2, h3⟩
    · exact Or.inl ⟨d, hd, h2⟩
    · exact Or.inr ⟨h2, Or.inl ⟨d, hd, h3⟩⟩
  · unfold sweepOps at h1
    split at h1
    · cases h1
    · rename_i hd
      have hd' : o.dryRun = false := by simpa using hd
      refine Or.inr ⟨hd', Or.inr ?_⟩
      simp only [List.mem_append, List.mem_map, List.mem_filter] at h1
      have gone : ∀ d : Str, (!(w.existing.contains d && !del.contains d)) = true → (d ∉ w.existing ∨ d ∈ del) := by
        intro d hg
        simp only [List.contains_eq_mem, Bool.not_and, Bool.not_not, Bool.or_eq_true, Bool.not_eq_eq_eq_not,
          Bool.not_true, decide_eq_false_iff_not, decide_eq_true_eq] at hg
        exact hg
      rcases h1 with ⟨d, ⟨_, hg⟩, rfl⟩ | ⟨d, ⟨_, hg⟩, rfl⟩
      · exact ⟨d, gone d hg, Or.inl rfl⟩
      · exact ⟨d, gone d hg, Or.inr rfl⟩

/-! ### the recursion depth of `walk` is bounded by the number of packages -/

/-- packages of the graph that are not finished yet -/
def remaining (g : Graph) (D : List Nat) : Nat := ((g.map (·.id)).toFinset \ D.toFinset).card

theorem remaining_mono (g : Graph) {D D' : List Nat} (h : ∀ x ∈ D, x ∈ D') : remaining g D' ≤ remaining g D := by
  unfold remaining
  apply Finset.card_le_card
  intro x hx
  simp only [Finset.mem_sdiff, List.mem_toFinset] at hx ⊢
  exact ⟨hx.1, fun hd => hx.2 (h x hd)⟩

theorem remaining_cons_lt (g : Graph) {D : List Nat} {i : Nat} (hi : i ∈ g.map (·.id)) (hD : i ∉ D) :
    remaining g (i :: D) < remaining g D := by
  unfold remaining
  apply Finset.card_lt_card
  rw [Finset.ssubset_iff_of_subset]
  · exact ⟨i, by simp [hi, hD], by simp⟩
  · intro x hx
    simp only [Finset.mem_sdiff, List.mem_toFinset, List.mem_cons, not_or] at hx ⊢
    exact ⟨hx.1, hx.2.2⟩

theorem get_some {g : Graph} {i : Nat} {p : Pkg} (h : g.get i = some p) : p.id = i ∧ p ∈ g := by
  unfold Graph.get at h
  exact ⟨by simpa using List.find?_some h, List.mem_of_find?_eq_some h⟩

theorem fold_total {g : Graph} {st : States} {f : Nat}
    (ih : ∀ acc i, remaining g acc.1 < f → ∃ acc', walk g st f acc i = some acc')
    (deps : List Nat) (a : List Nat × List Str) (h : remaining g a.1 < f) :
    ∃ a', deps.foldlM (fun a d => walk g st f a d) a = some a' := by
  induction deps generalizing a with
  | nil => exact ⟨a, rfl⟩
  | cons d rest ihd =>
    obtain ⟨a1, h1⟩ := ih a d h
    have hm := (walk_ok g st f a d a1 h1).1.mono
    obtain ⟨a2, h2⟩ := ihd a1 (Nat.lt_of_le_of_lt (remaining_mono g hm) h)
    exact ⟨a2, by simp only [List.foldlM_cons, bind, Option.bind_eq_some_iff]; exact ⟨a1, h1, h2⟩⟩

/-- `walk` never runs out of fuel when the fuel exceeds the number of unfinished packages -/
theorem walk_total (g : Graph) (st : States) (fuel : Nat) :
    ∀ acc i, remaining g acc.1 < fuel → ∃ acc', walk g st fuel acc i = some acc' := by
  induction fuel with
  | zero => intro acc i h; omega
  | succ f ih =>
    intro acc i h
    unfold walk
    split
    · exact ⟨acc, rfl⟩
    · rename_i hc
      simp only
      split
      · exact ⟨_, rfl⟩
      · rename_i p hg
        have hid := get_some hg
        have hi : i ∈ g.map (·.id) := List.mem_map.mpr ⟨p, hid.2, hid.1⟩
        have hD : i ∉ acc.1 := by simpa using hc
        have := remaining_cons_lt g hi hD
        exact fold_total ih p.deps _ (by simp only; omega)

theorem remaining_le_length (g : Graph) : remaining g [] ≤ g.length := by
  unfold remaining
  simp only [List.toFinset_nil, Finset.sdiff_empty]
  exact (List.toFinset_card_le _).trans (by simp)

theorem collectPaths_total (g : Graph) (st : States) (fuel root : Nat) (h : g.length < fuel) :
    ∃ used, collectPaths g st fuel root = some used := by
  obtain ⟨acc', h'⟩ := walk_total g st fuel ([], []) root (Nat.lt_of_le_of_lt (remaining_le_length g) h)
  exact ⟨acc'.2, by simp [collectPaths, h']⟩

end BobClean
