import BobModel.Model.Audit
/-
Helper lemmas for C14, part 2: reference maps, merge, closure, trails over build DAGs.
-/
namespace Audit

/-! ### specifications -/

/-- every reference of the artifact and of every stored record is a key of `references` -/
def ClosedAll (a : Audit) : Prop :=
  (∀ i ∈ a.artifact.getReferences, i ∈ refKeys a.references) ∧
  (∀ p ∈ a.references, ∀ i ∈ p.2.getReferences, i ∈ refKeys a.references)

/-- the key of every stored record is the id of that record -/
def KeysOk (H : Bytes → Id) (a : Audit) : Prop :=
  ∀ p ∈ a.references, p.2.getId H = p.1

/-- `Sub s b`: `s` is a (transitive) dependency of `b` -/
inductive Sub : Build → Build → Prop
  | direct {f : List (Str × Data)} {deps : List (DepKind × Build)} {k : DepKind} {s : Build} :
      (k, s) ∈ deps → Sub s (.node f deps)
  | trans {f : List (Str × Data)} {deps : List (DepKind × Build)} {k : DepKind} {d s : Build} :
      (k, d) ∈ deps → Sub s d → Sub s (.node f deps)

/-- the artifact id of the trail of a step -/
def bid (H : Bytes → Id) (b : Build) : Id := (Audit.trail H b).artifact.getId H

/-! ### sets as lists -/

theorem mem_setAdd {s : List Id} {x y : Id} : y ∈ setAdd s x ↔ y ∈ s ∨ y = x := by
  unfold setAdd
  split
  · constructor
    · exact Or.inl
    · rintro (h | h)
      · exact h
      · subst h; assumption
  · simp

theorem mem_setUnion {t : List Id} : ∀ {s : List Id} {y : Id}, y ∈ setUnion s t ↔ y ∈ s ∨ y ∈ t := by
  induction t with
  | nil => intro s y; simp [setUnion]
  | cons x t ih =>
    intro s y
    simp only [setUnion, ih, mem_setAdd, List.mem_cons]
    constructor
    · rintro ((h | h) | h)
      · exact Or.inl h
      · exact Or.inr (Or.inl h)
      · exact Or.inr (Or.inr h)
    · rintro (h | h | h)
      · exact Or.inl (Or.inl h)
      · exact Or.inl (Or.inr h)
      · exact Or.inr h

theorem nodup_setAdd {s : List Id} {x : Id} (h : s.Nodup) : (setAdd s x).Nodup := by
  unfold setAdd
  split
  · exact h
  · rename_i hx
    rw [List.nodup_append]
    refine ⟨h, by simp, ?_⟩
    intro a ha b hb
    simp at hb
    subst hb
    intro heq
    subst heq
    exact hx ha

theorem nodup_setUnion {t : List Id} : ∀ {s : List Id}, s.Nodup → (setUnion s t).Nodup := by
  induction t with
  | nil => intro s h; simpa [setUnion] using h
  | cons x t ih => intro s h; exact ih (nodup_setAdd h)

/-! ### artifacts -/

namespace Artifact

theorem mem_getReferences {a : Artifact} {i : Id} :
    i ∈ a.getReferences ↔ i ∈ a.args.getD [] ∨ i ∈ a.sandbox.toList ∨ i ∈ (a.tools.getD []).map Prod.snd := by
  simp only [getReferences, mem_setUnion, List.mem_append]
  constructor
  · rintro (h | (h | h) | h)
    · simp at h
    · exact Or.inl h
    · exact Or.inr (Or.inl h)
    · exact Or.inr (Or.inr h)
  · rintro (h | h | h)
    · exact Or.inr (Or.inl (Or.inl h))
    · exact Or.inr (Or.inl (Or.inr h))
    · exact Or.inr (Or.inr h)

theorem nodup_getReferences (a : Artifact) : a.getReferences.Nodup := by
  unfold getReferences
  exact nodup_setUnion List.nodup_nil

@[simp] theorem getReferences_dump (H : Bytes → Id) (a : Artifact) : (a.dump H).getReferences = a.getReferences := rfl

@[simp] theorem getReferences_invalidate (a : Artifact) : a.invalidate.getReferences = a.getReferences := rfl

@[simp] theorem getId_dump (H : Bytes → Id) (a : Artifact) : (a.dump H).getId H = a.getId H := by
  simp [dump, getId]

@[simp] theorem dump_dump (H : Bytes → Id) (a : Artifact) : (a.dump H).dump H = a.dump H := by
  simp [dump, getId]

theorem mem_getReferences_addArg {a : Artifact} {x i : Id} :
    i ∈ (a.addArg x).getReferences ↔ i ∈ a.getReferences ∨ i = x := by
  simp only [mem_getReferences, addArg, invalidate, Option.getD_some, List.mem_append, List.mem_singleton]
  constructor
  · rintro ((h | h) | h | h)
    · exact Or.inl (Or.inl h)
    · exact Or.inr h
    · exact Or.inl (Or.inr (Or.inl h))
    · exact Or.inl (Or.inr (Or.inr h))
  · rintro ((h | h | h) | h)
    · exact Or.inl (Or.inl h)
    · exact Or.inr (Or.inl h)
    · exact Or.inr (Or.inr h)
    · exact Or.inl (Or.inr h)

theorem mem_vals_dictSet {d : List (Str × Id)} {k : Str} {v i : Id}
    (h : i ∈ (dictSet d k v).map Prod.snd) : i ∈ d.map Prod.snd ∨ i = v := by
  induction d with
  | nil => simp [dictSet] at h; exact Or.inr h
  | cons p rest ih =>
    obtain ⟨k', v'⟩ := p
    simp only [dictSet] at h
    split at h
    · simp only [List.map_cons, List.mem_cons] at h ⊢
      rcases h with h | h
      · exact Or.inr h
      · exact Or.inl (Or.inr h)
    · simp only [List.map_cons, List.mem_cons] at h ⊢
      rcases h with h | h
      · exact Or.inl (Or.inl h)
      · rcases ih h with h | h
        · exact Or.inl (Or.inr h)
        · exact Or.inr h

theorem val_mem_dictSet (d : List (Str × Id)) (k : Str) (v : Id) : v ∈ (dictSet d k v).map Prod.snd := by
  induction d with
  | nil => simp [dictSet]
  | cons p rest ih =>
    obtain ⟨k', v'⟩ := p
    simp only [dictSet]
    split
    · simp
    · simp only [List.map_cons, List.mem_cons]; exact Or.inr ih

theorem mem_getReferences_addTool {a : Artifact} {n : Str} {x i : Id}
    (h : i ∈ (a.addTool n x).getReferences) : i ∈ a.getReferences ∨ i = x := by
  simp only [mem_getReferences, addTool, invalidate, Option.getD_some] at h ⊢
  rcases h with h | h | h
  · exact Or.inl (Or.inl h)
  · exact Or.inl (Or.inr (Or.inl h))
  · rcases mem_vals_dictSet h with h | h
    · exact Or.inl (Or.inr (Or.inr h))
    · exact Or.inr h

theorem self_mem_getReferences_addTool (a : Artifact) (n : Str) (x : Id) : x ∈ (a.addTool n x).getReferences := by
  simp only [mem_getReferences, addTool, invalidate, Option.getD_some]
  exact Or.inr (Or.inr (val_mem_dictSet _ _ _))

theorem mem_getReferences_setSandbox {a : Artifact} {x i : Id}
    (h : i ∈ (a.setSandbox x).getReferences) : i ∈ a.getReferences ∨ i = x := by
  simp only [mem_getReferences, setSandbox, invalidate, Option.toList_some, List.mem_singleton] at h ⊢
  rcases h with h | h | h
  · exact Or.inl (Or.inl h)
  · exact Or.inr h
  · exact Or.inl (Or.inr (Or.inr h))

theorem self_mem_getReferences_setSandbox (a : Artifact) (x : Id) : x ∈ (a.setSandbox x).getReferences := by
  simp [mem_getReferences, setSandbox, invalidate]

end Artifact

/-! ### reference maps -/

theorem mem_refKeys_iff {refs : List (Id × Artifact)} {k : Id} : k ∈ refKeys refs ↔ ∃ r, (k, r) ∈ refs := by
  simp [refKeys]

theorem lookupRef_isSome_iff {refs : List (Id × Artifact)} {k : Id} : (lookupRef refs k).isSome ↔ k ∈ refKeys refs := by
  induction refs with
  | nil => simp [lookupRef, refKeys]
  | cons p rest ih =>
    obtain ⟨k', v⟩ := p
    simp only [lookupRef, refKeys, List.map_cons, List.mem_cons]
    split
    · rename_i h; simp [h]
    · rename_i h
      rw [ih]
      simp only [refKeys]
      constructor
      · exact Or.inr
      · rintro (h' | h')
        · exact absurd h'.symm h
        · exact h'

theorem lookupRef_eq_none_iff {refs : List (Id × Artifact)} {k : Id} : lookupRef refs k = none ↔ k ∉ refKeys refs := by
  rw [← lookupRef_isSome_iff]
  cases lookupRef refs k <;> simp

theorem lookupRef_mem {refs : List (Id × Artifact)} {k : Id} {r : Artifact} (h : lookupRef refs k = some r) :
    (k, r) ∈ refs := by
  induction refs with
  | nil => simp [lookupRef] at h
  | cons p rest ih =>
    obtain ⟨k', v⟩ := p
    simp only [lookupRef] at h
    split at h
    · rename_i hk; cases h; subst hk; simp
    · exact List.mem_cons_of_mem _ (ih h)

theorem mem_refKeys_refsInsert {refs : List (Id × Artifact)} {k k' : Id} {v : Artifact} :
    k' ∈ refKeys (refsInsert refs k v) ↔ k' ∈ refKeys refs ∨ k' = k := by
  induction refs with
  | nil => simp [refsInsert, refKeys]
  | cons p rest ih =>
    obtain ⟨k0, v0⟩ := p
    simp only [refsInsert]
    split
    · rename_i h
      subst h
      simp only [refKeys, List.map_cons, List.mem_cons]
      constructor
      · exact Or.inl
      · rintro (h | h)
        · exact h
        · exact Or.inl h
    · simp only [refKeys, List.map_cons, List.mem_cons] at ih ⊢
      rw [ih]
      constructor
      · rintro (h | h | h)
        · exact Or.inl (Or.inl h)
        · exact Or.inl (Or.inr h)
        · exact Or.inr h
      · rintro ((h | h) | h)
        · exact Or.inl h
        · exact Or.inr (Or.inl h)
        · exact Or.inr (Or.inr h)

theorem mem_refsInsert {refs : List (Id × Artifact)} {k : Id} {v : Artifact} {p : Id × Artifact}
    (h : p ∈ refsInsert refs k v) : p ∈ refs ∨ p = (k, v) := by
  induction refs with
  | nil => simp [refsInsert] at h; exact Or.inr h
  | cons q rest ih =>
    obtain ⟨k0, v0⟩ := q
    simp only [refsInsert] at h
    split at h
    · rename_i hk
      subst hk
      simp only [List.mem_cons] at h ⊢
      rcases h with h | h
      · exact Or.inr h
      · exact Or.inl (Or.inr h)
    · simp only [List.mem_cons] at h ⊢
      rcases h with h | h
      · exact Or.inl (Or.inl h)
      · rcases ih h with h | h
        · exact Or.inl (Or.inr h)
        · exact Or.inr h

theorem nodup_refKeys_refsInsert {refs : List (Id × Artifact)} {k : Id} {v : Artifact}
    (h : (refKeys refs).Nodup) : (refKeys (refsInsert refs k v)).Nodup := by
  induction refs with
  | nil => simp [refsInsert, refKeys]
  | cons q rest ih =>
    obtain ⟨k0, v0⟩ := q
    simp only [refsInsert]
    split
    · simpa [refKeys] using h
    · rename_i hk
      simp only [refKeys, List.map_cons, List.nodup_cons] at h ⊢
      refine ⟨?_, ih h.2⟩
      intro hm
      have := (mem_refKeys_refsInsert (refs := rest) (k := k) (k' := k0) (v := v)).1 hm
      rcases this with h' | h'
      · exact h.1 h'
      · exact hk h'

theorem mem_refKeys_refsUpdate {o : List (Id × Artifact)} : ∀ {refs : List (Id × Artifact)} {k : Id},
    k ∈ refKeys (refsUpdate refs o) ↔ k ∈ refKeys refs ∨ k ∈ refKeys o := by
  induction o with
  | nil => intro refs k; simp [refsUpdate, refKeys]
  | cons p rest ih =>
    intro refs k
    obtain ⟨k0, v0⟩ := p
    simp only [refsUpdate, ih, mem_refKeys_refsInsert]
    simp only [refKeys, List.map_cons, List.mem_cons]
    constructor
    · rintro ((h | h) | h)
      · exact Or.inl h
      · exact Or.inr (Or.inl h)
      · exact Or.inr (Or.inr h)
    · rintro (h | h | h)
      · exact Or.inl (Or.inl h)
      · exact Or.inl (Or.inr h)
      · exact Or.inr h

theorem mem_refsUpdate {o : List (Id × Artifact)} : ∀ {refs : List (Id × Artifact)} {p : Id × Artifact},
    p ∈ refsUpdate refs o → p ∈ refs ∨ p ∈ o := by
  induction o with
  | nil => intro refs p h; exact Or.inl (by simpa [refsUpdate] using h)
  | cons q rest ih =>
    intro refs p h
    simp only [refsUpdate] at h
    rcases ih h with h | h
    · rcases mem_refsInsert h with h | h
      · exact Or.inl h
      · exact Or.inr (by simp [h])
    · exact Or.inr (List.mem_cons_of_mem _ h)

theorem nodup_refKeys_refsUpdate {o : List (Id × Artifact)} : ∀ {refs : List (Id × Artifact)},
    (refKeys refs).Nodup → (refKeys (refsUpdate refs o)).Nodup := by
  induction o with
  | nil => intro refs h; simpa [refsUpdate] using h
  | cons q rest ih => intro refs h; exact ih (nodup_refKeys_refsInsert h)

/-! ### merge and the add operations -/

namespace Audit

theorem mem_refKeys_merge {H : Bytes → Id} {self other : Audit} {k : Id} :
    k ∈ refKeys (merge H self other).references ↔
      k ∈ refKeys self.references ∨ k ∈ refKeys other.references ∨ k = other.artifact.getId H := by
  simp only [merge, mem_refKeys_refsInsert, mem_refKeys_refsUpdate]
  constructor
  · rintro ((h | h) | h)
    · exact Or.inl h
    · exact Or.inr (Or.inl h)
    · exact Or.inr (Or.inr h)
  · rintro (h | h | h)
    · exact Or.inl (Or.inl h)
    · exact Or.inl (Or.inr h)
    · exact Or.inr h

theorem mem_merge {H : Bytes → Id} {self other : Audit} {p : Id × Artifact}
    (h : p ∈ (merge H self other).references) :
    p ∈ self.references ∨ p ∈ other.references ∨ p = (other.artifact.getId H, other.artifact.dump H) := by
  simp only [merge] at h
  rcases mem_refsInsert h with h | h
  · rcases mem_refsUpdate h with h | h
    · exact Or.inl h
    · exact Or.inr (Or.inl h)
  · exact Or.inr (Or.inr h)

/-- closure of the merged reference map, for any way the artifact's own references grow by at most the
id of the merged trail -/
theorem closedAll_merge_with {H : Bytes → Id} {self other : Audit} (hs : ClosedAll self) (ho : ClosedAll other)
    (art : Artifact)
    (hart : ∀ i ∈ art.getReferences, i ∈ self.artifact.getReferences ∨ i = other.artifact.getId H) :
    ClosedAll { merge H self other with artifact := art } := by
  constructor
  · intro i hi
    show i ∈ refKeys (merge H self other).references
    rw [mem_refKeys_merge]
    rcases hart i hi with h | h
    · exact Or.inl (hs.1 i h)
    · exact Or.inr (Or.inr h)
  · intro p hp i hi
    show i ∈ refKeys (merge H self other).references
    rw [mem_refKeys_merge]
    rcases mem_merge hp with h | h | h
    · exact Or.inl (hs.2 p h i hi)
    · exact Or.inr (Or.inl (ho.2 p h i hi))
    · subst h
      exact Or.inr (Or.inl (ho.1 i (by simpa using hi)))

theorem closedAll_create (fields : List (Str × Data)) : ClosedAll (create fields) := by
  constructor
  · intro i hi
    simp [create, Artifact.mem_getReferences] at hi
  · intro p hp
    simp [create] at hp

theorem closedAll_addArg {H : Bytes → Id} {self other : Audit} (hs : ClosedAll self) (ho : ClosedAll other) :
    ClosedAll (addArg H self other) :=
  closedAll_merge_with hs ho _ fun _ hi => Artifact.mem_getReferences_addArg.1 hi

theorem closedAll_addTool {H : Bytes → Id} {self other : Audit} {n : Str} (hs : ClosedAll self) (ho : ClosedAll other) :
    ClosedAll (addTool H self n other) :=
  closedAll_merge_with hs ho _ fun _ hi => Artifact.mem_getReferences_addTool hi

theorem closedAll_setSandbox {H : Bytes → Id} {self other : Audit} (hs : ClosedAll self) (ho : ClosedAll other) :
    ClosedAll (setSandbox H self other) :=
  closedAll_merge_with hs ho _ fun _ hi => Artifact.mem_getReferences_setSandbox hi

theorem closedAll_addDep {H : Bytes → Id} {self other : Audit} (k : DepKind) (hs : ClosedAll self) (ho : ClosedAll other) :
    ClosedAll (addDep H self k other) := by
  cases k
  · exact closedAll_addArg hs ho
  · exact closedAll_addTool hs ho
  · exact closedAll_setSandbox hs ho

theorem addDep_references {H : Bytes → Id} (self other : Audit) (k : DepKind) :
    (addDep H self k other).references = (merge H self other).references := by
  cases k <;> rfl

theorem self_mem_getReferences_addDep {H : Bytes → Id} (self other : Audit) (k : DepKind) :
    other.artifact.getId H ∈ (addDep H self k other).artifact.getReferences := by
  cases k
  · exact Artifact.mem_getReferences_addArg.2 (Or.inr rfl)
  · exact Artifact.self_mem_getReferences_addTool _ _ _
  · exact Artifact.self_mem_getReferences_setSandbox _ _

/-! ### save / load -/

theorem save_references (H : Bytes → Id) (a : Audit) :
    (save H a).references = a.references.map fun p => (p.1, p.2.dump H) := rfl

theorem load_save_list {H : Bytes → Id} {a : Audit} (hk : KeysOk H a) :
    ((save H a).references.map fun p => (p.2.getId H, p.2)) = a.references.map fun p => (p.1, p.2.dump H) := by
  rw [save_references, List.map_map]
  apply List.map_congr_left
  intro p hp
  simp [hk p hp]

theorem mem_refKeys_saveLoad {H : Bytes → Id} {a : Audit} (hk : KeysOk H a) {k : Id} :
    k ∈ refKeys (saveLoad H a).references ↔ k ∈ refKeys a.references := by
  simp only [saveLoad, load, load_save_list hk, mem_refKeys_refsUpdate]
  simp [refKeys, List.map_map, Function.comp_def]

theorem mem_saveLoad {H : Bytes → Id} {a : Audit} (hk : KeysOk H a) {p : Id × Artifact}
    (h : p ∈ (saveLoad H a).references) : ∃ q ∈ a.references, p = (q.1, q.2.dump H) := by
  simp only [saveLoad, load, load_save_list hk] at h
  rcases mem_refsUpdate h with h | h
  · simp at h
  · simp only [List.mem_map] at h
    obtain ⟨q, hq, rfl⟩ := h
    exact ⟨q, hq, rfl⟩

@[simp] theorem saveLoad_artifact (H : Bytes → Id) (a : Audit) : (saveLoad H a).artifact = a.artifact.dump H := rfl

theorem closedAll_saveLoad {H : Bytes → Id} {a : Audit} (hk : KeysOk H a) (hc : ClosedAll a) :
    ClosedAll (saveLoad H a) := by
  constructor
  · intro i hi
    rw [mem_refKeys_saveLoad hk]
    exact hc.1 i (by simpa using hi)
  · intro p hp i hi
    rw [mem_refKeys_saveLoad hk]
    obtain ⟨q, hq, rfl⟩ := mem_saveLoad hk hp
    exact hc.2 q hq i (by simpa using hi)

theorem nodup_refKeys_saveLoad (H : Bytes → Id) (a : Audit) : (refKeys (saveLoad H a).references).Nodup := by
  simp only [saveLoad, load]
  exact nodup_refKeys_refsUpdate (by simp [refKeys])

/-! ### trails of build DAGs -/

theorem sub_node_iff {s : Build} {f : List (Str × Data)} {deps : List (DepKind × Build)} :
    Sub s (.node f deps) ↔ ∃ k d, (k, d) ∈ deps ∧ (s = d ∨ Sub s d) := by
  constructor
  · intro h
    cases h with
    | direct hm => exact ⟨_, _, hm, Or.inl rfl⟩
    | trans hm hs => exact ⟨_, _, hm, Or.inr hs⟩
  · rintro ⟨k, d, hm, h | h⟩
    · subst h; exact Sub.direct hm
    · exact Sub.trans hm h

/-- what is known about a trail relative to a set `S` of steps -/
structure TrailInv (H : Bytes → Id) (a : Audit) (S : Build → Prop) : Prop where
  keys_sound : ∀ k ∈ refKeys a.references, ∃ s, S s ∧ k = bid H s
  keys_complete : ∀ s, S s → bid H s ∈ refKeys a.references
  values : ∀ p ∈ a.references, ∃ s, S s ∧ p = (bid H s, (trail H s).artifact.dump H)
  closed : ClosedAll a
  nodup : (refKeys a.references).Nodup

theorem TrailInv.keysOk {H : Bytes → Id} {a : Audit} {S : Build → Prop} (h : TrailInv H a S) : KeysOk H a := by
  intro p hp
  obtain ⟨s, _, rfl⟩ := h.values p hp
  simp [bid]

theorem TrailInv.congr {H : Bytes → Id} {a : Audit} {S S' : Build → Prop} (hS : ∀ s, S s ↔ S' s)
    (h : TrailInv H a S) : TrailInv H a S' := by
  have : S = S' := funext fun s => propext (hS s)
  subst this
  exact h

theorem trailInv_step {H : Bytes → Id} {acc : Audit} {S : Build → Prop} {k : DepKind} {b : Build}
    (ha : TrailInv H acc S) (hb : TrailInv H (trail H b) (fun s => Sub s b)) :
    TrailInv H (addDep H acc k (saveLoad H (trail H b))) (fun s => S s ∨ s = b ∨ Sub s b) := by
  have hkb := hb.keysOk
  have hid : (saveLoad H (trail H b)).artifact.getId H = bid H b := by simp [bid]
  refine ⟨?_, ?_, ?_, ?_, ?_⟩
  · intro i hi
    rw [addDep_references, mem_refKeys_merge, mem_refKeys_saveLoad hkb, hid] at hi
    rcases hi with h | h | h
    · obtain ⟨s, hs, rfl⟩ := ha.keys_sound i h
      exact ⟨s, Or.inl hs, rfl⟩
    · obtain ⟨s, hs, rfl⟩ := hb.keys_sound i h
      exact ⟨s, Or.inr (Or.inr hs), rfl⟩
    · exact ⟨b, Or.inr (Or.inl rfl), h⟩
  · intro s hs
    rw [addDep_references, mem_refKeys_merge, mem_refKeys_saveLoad hkb, hid]
    rcases hs with h | h | h
    · exact Or.inl (ha.keys_complete s h)
    · subst h; exact Or.inr (Or.inr rfl)
    · exact Or.inr (Or.inl (hb.keys_complete s h))
  · intro p hp
    rw [addDep_references] at hp
    rcases mem_merge hp with h | h | h
    · obtain ⟨s, hs, rfl⟩ := ha.values p h
      exact ⟨s, Or.inl hs, rfl⟩
    · obtain ⟨q, hq, rfl⟩ := mem_saveLoad hkb h
      obtain ⟨s, hs, rfl⟩ := hb.values q hq
      exact ⟨s, Or.inr (Or.inr hs), by simp⟩
    · refine ⟨b, Or.inr (Or.inl rfl), ?_⟩
      rw [h, hid]
      simp
  · exact closedAll_addDep k ha.closed (closedAll_saveLoad hkb hb.closed)
  · rw [addDep_references]
    simp only [merge]
    exact nodup_refKeys_refsInsert (nodup_refKeys_refsUpdate ha.nodup)

theorem trailInv_all (H : Bytes → Id) :
    (∀ b : Build, TrailInv H (trail H b) (fun s => Sub s b)) ∧
    (∀ (acc : Audit) (deps : List (DepKind × Build)), ∀ S : Build → Prop, TrailInv H acc S →
        TrailInv H (trailDeps H acc deps) (fun s => S s ∨ ∃ k d, (k, d) ∈ deps ∧ (s = d ∨ Sub s d))) := by
  apply trail.mutual_induct H
  · intro fields deps ih
    have h0 : TrailInv H (create fields) (fun _ => False) :=
      ⟨by intro k hk; simp [create, refKeys] at hk, by intro s hs; exact hs.elim,
       by intro p hp; simp [create] at hp, closedAll_create fields, by simp [create, refKeys]⟩
    have := ih _ h0
    rw [trail]
    exact this.congr fun s => by rw [sub_node_iff]; simp
  · intro acc S h
    rw [trailDeps]
    exact h.congr fun s => by simp
  · intro acc k b rest ihb ihrest S h
    rw [trailDeps]
    have := ihrest _ (trailInv_step (k := k) h ihb)
    exact this.congr fun s => by
      simp only [List.mem_cons, Prod.mk.injEq]
      constructor
      · rintro ((h | h | h) | ⟨k', d, hm, h⟩)
        · exact Or.inl h
        · exact Or.inr ⟨k, b, Or.inl ⟨rfl, rfl⟩, Or.inl h⟩
        · exact Or.inr ⟨k, b, Or.inl ⟨rfl, rfl⟩, Or.inr h⟩
        · exact Or.inr ⟨k', d, Or.inr hm, h⟩
      · rintro (h | ⟨k', d, (⟨rfl, rfl⟩ | hm), h⟩)
        · exact Or.inl (Or.inl h)
        · rcases h with h | h
          · exact Or.inl (Or.inr (Or.inl h))
          · exact Or.inl (Or.inr (Or.inr h))
        · exact Or.inr ⟨k', d, hm, h⟩

theorem trailInv (H : Bytes → Id) (b : Build) : TrailInv H (trail H b) (fun s => Sub s b) := (trailInv_all H).1 b

/-- the artifact of a trail refers exactly to its direct dependencies (for arguments; a later tool of the
same name or a second sandbox replaces the earlier entry, as the dict assignment in the source does) -/
theorem direct_refs_sub {H : Bytes → Id} :
    (∀ b : Build, ∀ i ∈ (trail H b).artifact.getReferences, ∃ k d, (match b with | .node _ deps => (k, d) ∈ deps) ∧ i = bid H d) ∧
    (∀ (acc : Audit) (deps : List (DepKind × Build)), ∀ i ∈ (trailDeps H acc deps).artifact.getReferences,
        i ∈ acc.artifact.getReferences ∨ ∃ k d, (k, d) ∈ deps ∧ i = bid H d) := by
  apply trail.mutual_induct H
  · intro fields deps ih i hi
    rw [trail] at hi
    rcases ih i hi with h | h
    · simp [create, Artifact.mem_getReferences] at h
    · exact h
  · intro acc i hi
    rw [trailDeps] at hi
    exact Or.inl hi
  · intro acc k b rest _ ihrest i hi
    rw [trailDeps] at hi
    rcases ihrest i hi with h | ⟨k', d, hm, h⟩
    · have : i ∈ acc.artifact.getReferences ∨ i = (saveLoad H (trail H b)).artifact.getId H := by
        cases k
        · exact Artifact.mem_getReferences_addArg.1 h
        · exact Artifact.mem_getReferences_addTool h
        · exact Artifact.mem_getReferences_setSandbox h
      rcases this with h | h
      · exact Or.inl h
      · exact Or.inr ⟨k, b, by simp, by simpa [bid] using h⟩
    · exact Or.inr ⟨k', d, List.mem_cons_of_mem _ hm, h⟩

end Audit

end Audit
