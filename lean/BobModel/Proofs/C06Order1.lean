import BobModel.Proofs.C06Deps1
/-
Ordering invariants of the scheduler model, part 1: a decomposition of `stepTask` for the operations that
neither start / end a script nor record a run nor enter a lock section ("inert" operations), and small
facts about task lists that the invariants of `C06Order2` need.
-/
namespace Sched
open JobSem

/-- operations of a lock section -/
def Op.sec : Op → Bool
  | .underLock _ _ | .run _ | .runWait _ _ | .setRun _ _ => true
  | _ => false

/-- the step an operation locks / runs / records -/
def Op.relStep : Op → Option Nat
  | .lock s _ _ | .lockWait s _ _ | .underLock s _ | .run s | .runWait s _ | .setRun s _ => some s
  | _ => none

theorem sec_iff_section {P : Project} {o : Op} : o.sec = true ↔ ∃ p, o.section? P = some p := by
  cases o <;> simp [Op.sec, Op.section?]

theorem section_relStep {P : Project} {o : Op} {p : Nat} (h : o.section? P = some p) :
    ∃ s, o.relStep = some s ∧ (P.info s).path = p := by
  cases o <;> simp [Op.section?, Op.relStep] at h ⊢ <;> exact h

def Op.isCookBody : Op → Bool
  | .cookBody _ _ => true
  | _ => false

/-- result of an inert operation of task `t`: the continuation is the clean-up part of the rest (an exception
started to propagate) or a body without lock-section operations in front of the rest; the `wasRun` table and
the disk are untouched -/
inductive Inert (P : Project) (st : St) (t : Nat) (op : Op) (rest : List Op) : St → Prop
  | body (g : St) (new : List Task) (body : List Op) (e : Option Err) :
      GrowT st g new → g.wasRun = st.wasRun → g.disk = st.disk →
      (∀ o ∈ body, o.sec = false ∧ (∀ s, o.relStep = some s → (P.info s).valid = true ∨ op.relStep = some s) ∧
        (o.relStep = none ∨ op.isCookBody = true)) →
      Inert P st t op rest (g.setTask t { kind := (st.task t).kind, ops := body ++ rest, err := e })
  | raise (g : St) (e : Err) : g.tasks = st.tasks → g.wasRun = st.wasRun → g.disk = st.disk →
      Inert P st t op rest (g.setTask t (Sched.raise (st.task t) e rest))

/-- operations handled one by one in `C06Order2` -/
def Op.special : Op → Bool
  | .lock _ _ _ | .lockWait _ _ _ | .underLock _ _ | .run _ | .runWait _ _ | .setRun _ _ => true
  | _ => false

theorem stepTask_inert {P : Project} {cfg : Cfg} {st st' : St} {t : Nat} {op : Op} {rest : List Op}
    (hpv : PathVid P) (hv : WrValid P st.wasRun) (hwf : ∀ x ∈ st.tasks, x.wf = true)
    (hops : (st.task t).ops = op :: rest) (hsp : op.special = false)
    (h : stepTask P cfg st t = some st') : Inert P st t op rest st' := by
  unfold Sched.stepTask at h
  simp only at h
  rw [hops] at h
  simp only at h
  have ht := task_lt hops
  have pop : ∀ (g : St), g.tasks = st.tasks → g.wasRun = st.wasRun → g.disk = st.disk →
      Inert P st t op rest (g.setTask t { kind := (st.task t).kind, ops := rest, err := (st.task t).err }) :=
    fun g h1 h2 h3 => .body g [] [] _ (GrowT.same h1) h2 h3 (by simp)
  cases op <;> simp only [Op.special, Bool.true_eq_false] at hsp <;> simp only at h
  case fence k =>
    split at h
    · split at h <;> cases h
      · exact .raise _ _ rfl rfl rfl
      · exact pop _ rfl rfl rfl
    · cases h
  case start =>
    split at h <;> cases h
    · refine .body _ [] (prog cfg (st.task t).kind ++ [Op.release]) _ (GrowT.same rfl) rfl rfl ?_
      generalize (st.task t).kind = k
      cases k <;> simp [prog, Op.sec, Op.relStep]
    · exact .body _ [] [_] _ (GrowT.same rfl) rfl rfl (by simp [Op.sec, Op.relStep])
  case startWait =>
    split at h <;> cases h
    refine .body _ [] (prog cfg (st.task t).kind ++ [Op.release]) _ (GrowT.same rfl) rfl rfl ?_
    generalize (st.task t).kind = k
    cases k <;> simp [prog, Op.sec, Op.relStep]
  case release =>
    split at h <;> cases h
    · exact pop _ rfl rfl rfl
    · exact .raise _ _ rfl rfl rfl
  case checkRunning =>
    split at h <;> cases h
    · exact pop _ rfl rfl rfl
    · exact .raise _ _ rfl rfl rfl
  case cook steps co =>
    have hw := (filterTodo_spec hpv hv co steps).1
    split at h <;> cases h
    · exact pop _ rfl hw rfl
    · exact .body _ [] [_] _ (GrowT.same rfl) hw rfl (by simp [Op.sec, Op.relStep])
  case spawn trk steps co =>
    split at h <;> cases h
    · obtain ⟨new, hg⟩ := createTasks_grow P trk co steps st
      exact .body _ new [_] _ hg.toT hg.wasRun hg.disk (by simp [Op.sec, Op.relStep])
    · exact .body _ [] [_] _ (GrowT.same rfl) rfl rfl (by simp [Op.sec, Op.relStep])
  case spawnSeq trk todo co made =>
    split at h
    · cases h
      exact .body _ [] [_] _ (GrowT.same rfl) rfl rfl (by simp [Op.sec, Op.relStep])
    · rename_i s todo'
      cases h
      obtain ⟨new, hg⟩ := createTask_grow P st trk s co
      exact .body _ new [_, _] _ hg.toT hg.wasRun hg.disk (by simp [Op.sec, Op.relStep])
  case yieldRel ks rs =>
    split at h <;> cases h
    · refine .body _ [] [_, _, _] _ (GrowT.same rfl) rfl rfl ?_
      cases rs <;> simp [Op.sec, Op.relStep]
    · exact .raise _ _ rfl rfl rfl
  case gather ks =>
    split at h
    · split at h <;> cases h
      · exact .raise _ _ rfl rfl rfl
      · exact pop _ rfl rfl rfl
    · cases h
  case waitOnly ks =>
    split at h <;> cases h
    exact pop _ rfl rfl rfl
  case results ks =>
    split at h <;> cases h
    · exact .raise _ _ rfl rfl rfl
    · exact pop _ rfl rfl rfl
  case reacq =>
    split at h <;> cases h
    · exact pop _ rfl rfl rfl
    · exact .body _ [] [_] _ (GrowT.same rfl) rfl rfl (by simp [Op.sec, Op.relStep])
  case reacqWait =>
    split at h <;> cases h
    exact pop _ rfl rfl rfl
  case cookBody s co =>
    have hw := (wasAlreadyRun_spec hpv hv s co).1
    split at h
    · cases h; exact .raise _ _ rfl rfl rfl
    · split at h
      · cases h; exact pop _ rfl rfl rfl
      · rename_i hval
        have hval' : (P.info s).valid = true := by simpa using hval
        split at h <;> cases h
        · exact pop _ rfl hw rfl
        · refine .body _ [] _ _ (GrowT.same rfl) hw rfl ?_
          generalize (P.info s).kind = k
          cases k <;> cases co <;> simp [Op.sec, Op.relStep, hval', Op.isCookBody]
  case download s =>
    cases h
    refine pop _ ?_ ?_ ?_ <;> split <;> rfl
  case unlock p =>
    split at h <;> cases h
    · exact pop _ rfl rfl rfl
    · exact .raise _ _ rfl rfl rfl
  case bidSingle s =>
    split at h
    · split at h <;> cases h
      · exact pop _ rfl rfl rfl
      · exact .body _ [] [_, _] _ (GrowT.same rfl) rfl rfl (by simp [Op.sec, Op.relStep])
    · split at h <;> cases h
      · exact pop _ rfl rfl rfl
      · exact .body _ [] [_, _] _ (GrowT.same rfl) rfl rfl (by simp [Op.sec, Op.relStep])
  case cacheSrc s => cases h; exact pop _ rfl rfl rfl
  case cacheDist s => cases h; exact pop _ rfl rfl rfl
  case spawnTop targets =>
    split at h <;> cases h
    · obtain ⟨new, hg⟩ := createTops_grow targets st
      exact .body _ new [_] _ hg.toT hg.wasRun hg.disk (by simp [Op.sec, Op.relStep])
    · exact .body _ [] [_] _ (GrowT.same rfl) rfl rfl (by simp [Op.sec, Op.relStep])
  case spawnTopSeq todo made =>
    split at h
    · cases h
      exact .body _ [] [_] _ (GrowT.same rfl) rfl rfl (by simp [Op.sec, Op.relStep])
    · rename_i s todo'
      cases h
      obtain ⟨new, hg⟩ := createTop_grow st s
      exact .body _ new [_, _] _ hg.toT hg.wasRun hg.disk (by simp [Op.sec, Op.relStep])
  case wrapEnd =>
    have hr0 : rest = [] := by
      obtain ⟨w1, _⟩ := Task.wf_iff.mp (hwf _ (task_mem ht))
      rw [hops] at w1
      cases hx : holdsTok (Op.wrapEnd :: rest) <;> simp [hx, Sched.wf] at w1
      exact w1
    subst hr0
    have key : ∀ (g : St) (e : Option Err), g.tasks = st.tasks → g.wasRun = st.wasRun → g.disk = st.disk →
        Inert P st t .wrapEnd [] (g.setTask t { kind := (st.task t).kind, ops := [], err := e }) :=
      fun g e h1 h2 h3 => .body g [] [] e (GrowT.same h1) h2 h3 (by simp)
    split at h
    · cases h
      apply key <;> split <;> rfl
    · cases h; exact key _ _ rfl rfl rfl
    · cases h; exact key _ _ rfl rfl rfl
    · cases h; exact key _ _ rfl rfl rfl

/-! ### tasks of an updated configuration -/

theorem task_default_ops (st : St) {i : Nat} (h : st.tasks.length ≤ i) : st.task i = default := by
  simp [St.task, List.getD, List.getElem?_eq_none h]

/-- the tasks of `g.setTask t x'` where `g` has the tasks of `st` and some new ones -/
theorem task_cases {st g : St} {new : List Task} {t : Nat} (x' : Task) (hg : GrowT st g new)
    (ht : t < st.tasks.length) (i : Nat) :
    (i = t ∧ (g.setTask t x').task i = x') ∨
    (i ≠ t ∧ i < st.tasks.length ∧ (g.setTask t x').task i = st.task i) ∨
    (i ≠ t ∧ st.tasks.length ≤ i ∧ Initial ((g.setTask t x').task i)) ∨
    (i ≠ t ∧ st.tasks.length ≤ i ∧ (g.setTask t x').task i = default) := by
  by_cases hi : i = t
  · left
    subst hi
    refine ⟨rfl, ?_⟩
    have hl : i < g.tasks.length := by rw [hg.tasks, List.length_append]; omega
    simp [St.task, St.setTask, List.getD, List.getElem?_set, hl]
  · right
    have e1 : (g.setTask t x').task i = g.task i := by
      simp [St.task, St.setTask, List.getD, Ne.symm hi]
    by_cases hl : i < st.tasks.length
    · left
      refine ⟨hi, hl, ?_⟩
      rw [e1]
      simp [St.task, List.getD, hg.tasks, List.getElem?_append_left hl]
    · right
      by_cases hl2 : i < g.tasks.length
      · left
        refine ⟨hi, by omega, ?_⟩
        rw [e1]
        have hlen : i - st.tasks.length < new.length := by
          rw [hg.tasks, List.length_append] at hl2; omega
        have hgi : g.task i = new[i - st.tasks.length] := by
          rw [task_eq_getElem hl2]
          simp [hg.tasks, List.getElem_append_right (Nat.le_of_not_lt hl)]
        rw [hgi]
        exact hg.init _ (List.getElem_mem _)
      · right
        exact ⟨hi, by omega, by rw [e1]; exact task_default_ops g (by omega)⟩

end Sched
