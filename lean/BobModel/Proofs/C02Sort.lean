import BobModel.Model.Digest
/-
Helper lemmas for C02/C03: `strLe` is a total order on strings, `sortBy` (insertion sort) returns a sorted
permutation, commutes with maps that keep the keys and depends only on the multiset of its input when the
keys are distinct.
-/
namespace Digest

theorem strLe_refl (a : Str) : strLe a a = true := by
  induction a with
  | nil => simp [strLe]
  | cons x xs ih => simp [strLe, ih]

theorem strLe_total (a b : Str) : strLe a b = true ∨ strLe b a = true := by
  induction a generalizing b with
  | nil => simp [strLe]
  | cons x xs ih =>
    cases b with
    | nil => simp [strLe]
    | cons y ys =>
      simp only [strLe]
      by_cases hxy : x.toNat < y.toNat
      · simp [hxy]
      · by_cases hyx : y.toNat < x.toNat
        · simp [hyx]
        · simp only [hxy, hyx, if_false]
          exact ih ys

theorem strLe_trans {a b c : Str} (h1 : strLe a b = true) (h2 : strLe b c = true) : strLe a c = true := by
  induction a generalizing b c with
  | nil => simp [strLe]
  | cons x xs ih =>
    cases b with
    | nil => simp [strLe] at h1
    | cons y ys =>
      cases c with
      | nil => simp [strLe] at h2
      | cons z zs =>
        simp only [strLe] at h1 h2 ⊢
        by_cases hxy : x.toNat < y.toNat
        · by_cases hyz : y.toNat < z.toNat
          · have : x.toNat < z.toNat := by omega
            simp [this]
          · by_cases hzy : z.toNat < y.toNat
            · simp [hyz, hzy] at h2
            · have : x.toNat < z.toNat := by omega
              simp [this]
        · by_cases hyx : y.toNat < x.toNat
          · simp [hxy, hyx] at h1
          · simp only [hxy, hyx, if_false] at h1
            by_cases hyz : y.toNat < z.toNat
            · have : x.toNat < z.toNat := by omega
              simp [this]
            · by_cases hzy : z.toNat < y.toNat
              · simp [hyz, hzy] at h2
              · simp only [hyz, hzy, if_false] at h2
                have h3 : ¬ x.toNat < z.toNat := by omega
                have h4 : ¬ z.toNat < x.toNat := by omega
                simp only [h3, h4, if_false]
                exact ih h1 h2

theorem strLe_antisymm {a b : Str} (h1 : strLe a b = true) (h2 : strLe b a = true) : a = b := by
  induction a generalizing b with
  | nil =>
    cases b with
    | nil => rfl
    | cons y ys => simp [strLe] at h2
  | cons x xs ih =>
    cases b with
    | nil => simp [strLe] at h1
    | cons y ys =>
      simp only [strLe] at h1 h2
      by_cases hxy : x.toNat < y.toNat
      · have : ¬ y.toNat < x.toNat := by omega
        simp [hxy, this] at h2
      · by_cases hyx : y.toNat < x.toNat
        · simp [hxy, hyx] at h1
        · simp only [hxy, hyx, if_false] at h1 h2
          have hc : x = y := Char.toNat_inj.mp (by omega)
          rw [hc, ih h1 h2]

variable {α : Type}

theorem insertBy_perm (le : α → α → Bool) (x : α) (l : List α) : (insertBy le x l).Perm (x :: l) := by
  induction l with
  | nil => simp [insertBy]
  | cons y ys ih =>
    simp only [insertBy]
    split
    · exact List.Perm.refl _
    · exact (List.Perm.cons y ih).trans (List.Perm.swap x y ys)

theorem sortBy_perm (le : α → α → Bool) (l : List α) : (sortBy le l).Perm l := by
  induction l with
  | nil => simp [sortBy]
  | cons y ys ih =>
    have : sortBy le (y :: ys) = insertBy le y (sortBy le ys) := rfl
    rw [this]
    exact (insertBy_perm le y _).trans (List.Perm.cons y ih)

theorem sortBy_length (le : α → α → Bool) (l : List α) : (sortBy le l).length = l.length :=
  (sortBy_perm le l).length_eq

theorem mem_sortBy (le : α → α → Bool) (l : List α) (x : α) : x ∈ sortBy le l ↔ x ∈ l :=
  (sortBy_perm le l).mem_iff

theorem sortBy_cons (le : α → α → Bool) (y : α) (ys : List α) :
    sortBy le (y :: ys) = insertBy le y (sortBy le ys) := rfl

theorem insertBy_sorted (le : α → α → Bool)
    (total : ∀ a b, le a b = true ∨ le b a = true)
    (trans : ∀ a b c, le a b = true → le b c = true → le a c = true)
    (x : α) (l : List α) (h : l.Pairwise (fun a b => le a b = true)) :
    (insertBy le x l).Pairwise (fun a b => le a b = true) := by
  induction l with
  | nil => simp [insertBy]
  | cons y ys ih =>
    simp only [insertBy]
    have hy : ∀ z ∈ ys, le y z = true := fun z hz => List.rel_of_pairwise_cons h hz
    have hys := List.Pairwise.of_cons h
    split
    · rename_i hxy
      refine List.Pairwise.cons ?_ h
      intro z hz
      rcases List.mem_cons.mp hz with rfl | hz
      · exact hxy
      · exact trans _ _ _ hxy (hy _ hz)
    · rename_i hxy
      have hyx : le y x = true := by
        rcases total x y with h' | h'
        · exact absurd h' hxy
        · exact h'
      refine List.Pairwise.cons ?_ (ih hys)
      intro z hz
      have := (insertBy_perm le x ys).mem_iff.mp hz
      rcases List.mem_cons.mp this with rfl | hz'
      · exact hyx
      · exact hy _ hz'

theorem sortBy_sorted (le : α → α → Bool)
    (total : ∀ a b, le a b = true ∨ le b a = true)
    (trans : ∀ a b c, le a b = true → le b c = true → le a c = true)
    (l : List α) : (sortBy le l).Pairwise (fun a b => le a b = true) := by
  induction l with
  | nil => simp [sortBy]
  | cons y ys ih =>
    rw [sortBy_cons]
    exact insertBy_sorted le total trans y _ ih

/-- sorting depends only on the multiset when elements with equivalent keys are equal -/
theorem sortBy_eq_of_perm (le : α → α → Bool)
    (total : ∀ a b, le a b = true ∨ le b a = true)
    (trans : ∀ a b c, le a b = true → le b c = true → le a c = true)
    {l l' : List α} (hp : l.Perm l')
    (anti : ∀ a b, a ∈ l → b ∈ l → le a b = true → le b a = true → a = b) :
    sortBy le l = sortBy le l' := by
  apply List.Perm.eq_of_pairwise (le := fun a b => le a b = true)
  · intro a b ha hb hab hba
    have ha' := (mem_sortBy le l a).mp ha
    have hb' := hp.mem_iff.mpr ((mem_sortBy le l' b).mp hb)
    exact anti a b ha' hb' hab hba
  · exact sortBy_sorted le total trans l
  · exact sortBy_sorted le total trans l'
  · exact ((sortBy_perm le l).trans hp).trans (sortBy_perm le l').symm

variable {β : Type}

theorem insertBy_map (le : α → α → Bool) (le' : β → β → Bool) (f : α → β)
    (h : ∀ a b, le' (f a) (f b) = le a b) (x : α) (l : List α) :
    insertBy le' (f x) (l.map f) = (insertBy le x l).map f := by
  induction l with
  | nil => simp [insertBy]
  | cons y ys ih =>
    simp only [List.map_cons, insertBy, h]
    split
    · simp
    · simp [ih]

/-- a map that does not change the keys commutes with sorting -/
theorem sortBy_map (le : α → α → Bool) (le' : β → β → Bool) (f : α → β)
    (h : ∀ a b, le' (f a) (f b) = le a b) (l : List α) :
    sortBy le' (l.map f) = (sortBy le l).map f := by
  induction l with
  | nil => simp [sortBy]
  | cons y ys ih =>
    rw [List.map_cons, sortBy_cons, sortBy_cons, ih, insertBy_map le le' f h]

theorem toolLe_total (a b : Tool) : toolLe a b = true ∨ toolLe b a = true := strLe_total _ _
theorem toolLe_trans (a b c : Tool) (h1 : toolLe a b = true) (h2 : toolLe b c = true) : toolLe a c = true :=
  strLe_trans h1 h2
theorem kvLe_total (a b : Str × Str) : kvLe a b = true ∨ kvLe b a = true := strLe_total _ _
theorem kvLe_trans (a b c : Str × Str) (h1 : kvLe a b = true) (h2 : kvLe b c = true) : kvLe a c = true :=
  strLe_trans h1 h2

/-- distinct keys: two members with the same key are the same member -/
theorem eq_of_key_eq {γ : Type} (key : α → γ) {l : List α} (nd : (l.map key).Nodup) {a b : α}
    (ha : a ∈ l) (hb : b ∈ l) (h : key a = key b) : a = b := by
  induction l with
  | nil => cases ha
  | cons x xs ih =>
    simp only [List.map_cons, List.nodup_cons, List.mem_map, not_exists, not_and] at nd
    rcases List.mem_cons.mp ha with rfl | ha'
    · rcases List.mem_cons.mp hb with rfl | hb'
      · rfl
      · exact absurd h.symm (nd.1 b hb')
    · rcases List.mem_cons.mp hb with rfl | hb'
      · exact absurd h (nd.1 a ha')
      · exact ih nd.2 ha' hb'

end Digest
