import BobModel.Proofs.C11Hash
/-
C11 helper lemmas, part 3: the hash cache.  A generic transparency lemma for `DirHasher`
parametrised by an index object, the invariant of `FileIndex`, soundness of the rewritten
index, and the induction over histories.
-/
namespace DirHash

/-! ### the generic walk -/

mutual
theorem Tree.leaves_mode : ∀ (t : Tree) (path : Bytes), ∀ x ∈ t.leaves path, x.2.mode ≠ 0
  | .file p c, path, x, hx => by
    simp only [Tree.leaves, List.mem_singleton] at hx; subst hx; simp [Tree.mode]
  | .link p c, path, x, hx => by
    simp only [Tree.leaves, List.mem_singleton] at hx; subst hx; simp [Tree.mode]
  | .dir p es, path, x, hx => by
    simp only [Tree.leaves] at hx; exact Forest.leaves_mode es path x hx
  | .dev _ _ _, path, x, hx => by simp [Tree.leaves] at hx
  | .fifo _, path, x, hx => by simp [Tree.leaves] at hx
  | .other _ _, path, x, hx => by simp [Tree.leaves] at hx
theorem Forest.leaves_mode : ∀ (f : Forest) (path : Bytes), ∀ x ∈ f.leaves path, x.2.mode ≠ 0
  | .nil, path, x, hx => by simp [Forest.leaves] at hx
  | .cons n t rest, path, x, hx => by
    simp only [Forest.leaves, List.mem_append] at hx
    rcases hx with hx | hx
    · exact Tree.leaves_mode t _ x hx
    · exact Forest.leaves_mode rest path x hx
end

set_option linter.unusedSectionVars false
section walk
variable (H : Bytes → Bytes) {σ : Type} (chk : Bytes → Stat → Bytes → σ → Bytes × σ) (statOf : Bytes → Stat)
variable (I : σ → Prop) (P : Bytes → Tree → Prop)
variable (hchk : ∀ p t s, P p t → I s →
    (chk p (statFor statOf p t) (t.digest H) s).1 = t.digest H ∧ I (chk p (statFor statOf p t) (t.digest H) s).2)
include hchk

mutual
/-- if the index object answers every `check` of a visited leaf with the true digest (and keeps its
invariant), hashing with it is hashing without it -/
theorem Tree.walk_transparent : ∀ (t : Tree) (path : Bytes) (s : σ), (∀ x ∈ t.leaves path, P x.1 x.2) → I s →
    (t.walk H chk statOf path s).1 = t.digest H ∧ I (t.walk H chk statOf path s).2
  | .file p c, path, s, hl, hi => by
    have := hchk path (.file p c) s (hl (path, .file p c) (by simp [Tree.leaves])) hi
    simpa [Tree.walk, Tree.digest] using this
  | .link p c, path, s, hl, hi => by
    have := hchk path (.link p c) s (hl (path, .link p c) (by simp [Tree.leaves])) hi
    simpa [Tree.walk, Tree.digest] using this
  | .dir p es, path, s, hl, hi => by
    have := Forest.walk_transparent es path s (by simpa [Tree.leaves] using hl) hi
    simp only [Tree.walk, Tree.digest]
    exact ⟨by rw [this.1], this.2⟩
  | .dev _ _ _, path, s, hl, hi => by simp [Tree.walk, Tree.digest, hi]
  | .fifo _, path, s, hl, hi => by simp [Tree.walk, Tree.digest, hi]
  | .other _ _, path, s, hl, hi => by simp [Tree.walk, Tree.digest, hi]
theorem Forest.walk_transparent : ∀ (f : Forest) (dirPath : Bytes) (s : σ), (∀ x ∈ f.leaves dirPath, P x.1 x.2) → I s →
    (f.walk H chk statOf dirPath s).1 = f.blob H ∧ I (f.walk H chk statOf dirPath s).2
  | .nil, dirPath, s, hl, hi => by simp [Forest.walk, Forest.blob, hi]
  | .cons n t rest, dirPath, s, hl, hi => by
    simp only [Forest.leaves, List.mem_append] at hl
    have h1 := Tree.walk_transparent t (joinPath dirPath n) s (fun x hx => hl x (Or.inl hx)) hi
    have h2 := Forest.walk_transparent rest dirPath (t.walk H chk statOf (joinPath dirPath n) s).2
      (fun x hx => hl x (Or.inr hx)) h1.2
    simp only [Forest.walk, Forest.blob]
    exact ⟨by rw [h1.1, h2.1], h2.2⟩
end

end walk

/-- `NullIndex`: the model of `hashDirectory(path)` as the implementation computes it (through the
index interface) is the pure `hashDir` -/
theorem walk_null (H : Bytes → Bytes) (statOf : Bytes → Stat) (es : Forest) :
    H (es.canon.walk H nullCheck statOf [] ()).1 = hashDir H es := by
  have := Forest.walk_transparent H nullCheck statOf (fun _ => True) (fun _ _ => True)
    (fun p t s _ _ => by simp [nullCheck]) es.canon [] () (fun _ _ => trivial) trivial
  unfold hashDir
  rw [this.1]

/-! ### `FileIndex` -/

def recsOf (ix : Option (List Rec)) : List Rec := ix.getD []

/-- an index is sound for a file system state if every record that carries the name and the stat
data of a file that is hashed also carries that file's digest.  Nothing is said about order,
duplicates, stale or foreign records. -/
def Sound (H : Bytes → Bytes) (statOf : Bytes → Stat) (es : Forest) (ix : Option (List Rec)) : Prop :=
  ∀ r ∈ recsOf ix, ∀ p t, (p, t) ∈ visited es → r.name = p → r.st = statFor statOf p t → r.digest = t.digest H

/-- a record written for a file of the current state -/
def Fresh (H : Bytes → Bytes) (statOf : Bytes → Stat) (es : Forest) (r : Rec) : Prop :=
  ∃ p t, (p, t) ∈ visited es ∧ r = ⟨p, statFor statOf p t, t.digest H⟩

def Inv (all : List Rec) (F : Rec → Prop) (s : IxState) : Prop :=
  (∀ r ∈ s.before, r ∈ all) ∧ (∀ r, s.cur = some r → r ∈ all) ∧ (∀ r ∈ s.rest, r ∈ all) ∧
  (∀ l, s.out = some l → ∀ r ∈ l, r ∈ all ∨ F r)

theorem advance_sub (all : List Rec) (name : Bytes) : ∀ (rest before : List Rec) (cur : Option Rec),
    (∀ r ∈ before, r ∈ all) → (∀ r, cur = some r → r ∈ all) → (∀ r ∈ rest, r ∈ all) →
    (∀ r ∈ (advance name before cur rest).1, r ∈ all) ∧
    (∀ r, (advance name before cur rest).2.1 = some r → r ∈ all) ∧
    (∀ r ∈ (advance name before cur rest).2.2, r ∈ all)
  | [], before, cur, hb, hc, hr => by simp only [advance]; exact ⟨hb, hc, hr⟩
  | x :: xs, before, cur, hb, hc, hr => by
    unfold advance
    split
    · apply advance_sub all name xs
      · intro r hr'
        simp only [List.mem_append, Option.mem_toList] at hr'
        rcases hr' with h | h
        · exact hb r h
        · exact hc r h
      · intro r h; cases h; exact hr x (by simp)
      · intro r h; exact hr r (by simp [h])
    · exact ⟨hb, hc, hr⟩

theorem initRec_mode : initRec.st.mode = 0 := rfl

theorem statFor_mode (statOf : Bytes → Stat) (p : Bytes) (t : Tree) : (statFor statOf p t).mode = t.mode := rfl

theorem openIndex_inv (ix : Option (List Rec)) (F : Rec → Prop) : Inv (recsOf ix) F (openIndex ix) := by
  cases ix with
  | none => simp [openIndex, Inv, recsOf]
  | some l =>
    cases l with
    | nil => simp [openIndex, Inv, recsOf]
    | cons r rs =>
      simp only [openIndex, Inv, recsOf, Option.getD_some]
      refine ⟨by simp, ?_, ?_, by simp⟩
      · intro r' h; cases h; simp
      · intro r' h; simp [h]

/-- one `check` call on a leaf of the tree: the digest is the true one and the invariant is kept -/
theorem check_sound (H : Bytes → Bytes) (statOf : Bytes → Stat) (es : Forest) (ix : Option (List Rec))
    (hs : Sound H statOf es ix) (p : Bytes) (t : Tree) (s : IxState)
    (hp : (p, t) ∈ visited es) (hi : Inv (recsOf ix) (Fresh H statOf es) s) :
    (check p (statFor statOf p t) (t.digest H) s).1 = t.digest H ∧
    Inv (recsOf ix) (Fresh H statOf es) (check p (statFor statOf p t) (t.digest H) s).2 := by
  obtain ⟨ib, ic, ir, io⟩ := hi
  obtain ⟨ab, ac, ar⟩ := advance_sub (recsOf ix) p s.rest s.before s.cur ib ic ir
  have hmode : t.mode ≠ 0 := Forest.leaves_mode es.canon [] (p, t) hp
  have hd : (check p (statFor statOf p t) (t.digest H) s).1 = t.digest H := by
    simp only [check]
    split
    · rename_i hhit
      simp only [decide_eq_true_eq] at hhit
      cases hc : (advance p s.before s.cur s.rest).2.1 with
      | none =>
        rw [hc] at hhit
        exfalso
        have := congrArg Stat.mode hhit.2
        rw [statFor_mode] at this
        exact hmode this.symm
      | some r =>
        rw [hc] at hhit
        exact hs r (ac r hc) p t hp hhit.1 hhit.2
    · rfl
  refine ⟨hd, ?_⟩
  have hd' := hd
  simp only [check] at hd'
  simp only [check, Inv]
  refine ⟨ab, ac, ar, ?_⟩
  intro l hl r hr
  split at hl
  · cases hl
    simp only [List.mem_append, List.mem_singleton] at hr
    rcases hr with hr | hr
    · cases ho : s.out with
      | none => rw [ho] at hr; exact Or.inl (ab r hr)
      | some l0 => rw [ho] at hr; exact io l0 ho r hr
    · right
      refine ⟨p, t, hp, ?_⟩
      rw [hr, hd']
  · exact io l hl r hr

/-- **cache transparency for one run**, with what the history induction needs about the new index -/
theorem hashDirCached_spec (H : Bytes → Bytes) (statOf : Bytes → Stat) (es : Forest) (ix : Option (List Rec))
    (hs : Sound H statOf es ix) :
    (hashDirCached H statOf ix es).1 = hashDir H es ∧
    ∀ r ∈ recsOf (newIndex ix (hashDirCached H statOf ix es).2), r ∈ recsOf ix ∨ Fresh H statOf es r := by
  have := Forest.walk_transparent H check statOf (Inv (recsOf ix) (Fresh H statOf es)) (fun p t => (p, t) ∈ visited es)
    (fun p t s hp hi => check_sound H statOf es ix hs p t s hp hi) es.canon [] (openIndex ix)
    (fun x hx => hx) (openIndex_inv ix _)
  refine ⟨by simp only [hashDirCached, hashDir]; rw [this.1], ?_⟩
  intro r hr
  simp only [hashDirCached, newIndex] at hr
  split at hr
  · rename_i l hl
    exact this.2.2.2.2 l hl r (by simpa [recsOf] using hr)
  · exact Or.inl hr

theorem fresh_sound (H : Bytes → Bytes) (statOf : Bytes → Stat) (es : Forest) (r : Rec) (hf : Fresh H statOf es r)
    (D : Bytes → Stat → Bytes) (hD : ∀ p t, (p, t) ∈ visited es → t.digest H = D p (statFor statOf p t)) :
    r.digest = D r.name r.st := by
  obtain ⟨p, t, hp, rfl⟩ := hf
  exact hD p t hp

/-! ### histories -/

/-- a file system state: the listing of the hashed directory and the stat data of its entries -/
structure FsState where
  es : Forest
  statOf : Bytes → Stat

/-- "every modification changes the file's stat data": throughout the history the digest of a
hashed file is a function `D` of its index name and its stat data -/
def Coherent (H : Bytes → Bytes) (D : Bytes → Stat → Bytes) (st : FsState) : Prop :=
  ∀ p t, (p, t) ∈ visited st.es → t.digest H = D p (statFor st.statOf p t)

/-- hash every state of the history with the cache, carrying `cache.bin` along -/
def runHistory (H : Bytes → Bytes) : Option (List Rec) → List FsState → List Bytes
  | _, [] => []
  | ix, st :: rest =>
    let r := hashDirCached H st.statOf ix st.es
    r.1 :: runHistory H (newIndex ix r.2) rest

theorem runHistory_spec (H : Bytes → Bytes) (D : Bytes → Stat → Bytes) :
    ∀ (hist : List FsState) (ix : Option (List Rec)), (∀ st ∈ hist, Coherent H D st) →
    (∀ st ∈ hist, Sound H st.statOf st.es ix) →
    runHistory H ix hist = hist.map (fun st => hashDir H st.es)
  | [], ix, _, _ => rfl
  | st :: rest, ix, hco, hso => by
    obtain ⟨h1, h2⟩ := hashDirCached_spec H st.statOf st.es ix (hso st (by simp))
    simp only [runHistory, List.map_cons, h1]
    congr 1
    apply runHistory_spec H D rest _ (fun s hs => hco s (by simp [hs]))
    intro st' hst' r hr p' t' hp' hn hst
    rcases h2 r hr with hold | hfresh
    · exact hso st' (by simp [hst']) r hold p' t' hp' hn hst
    · have e1 := fresh_sound H st.statOf st.es r hfresh D (hco st (by simp))
      rw [e1, hn, hst]
      exact (hco st' (by simp [hst']) p' t' hp').symm

end DirHash
