import BobModel.Proofs.C17Fuel
import BobModel.Model.SubstSpec
/-
C17: a fuel-free ("eventually") view of the parser functions and its introduction rules.
`GS … inp R` means: from some fuel on, `getString` on `inp` returns `R`.
-/
namespace C17
open StringParser SubstSpec

abbrev Res := Except PErr (Str × Str)

/-- prepend `s` to the value of a result -/
def cat (s : Str) (R : Res) : Res :=
  match R with
  | .error e => .error e
  | .ok (r, r2) => .ok (s ++ r, r2)

@[simp] theorem cat_ok (s r r2 : Str) : cat s (.ok (r, r2)) = .ok (s ++ r, r2) := rfl
@[simp] theorem cat_err (s : Str) (e : PErr) : cat s (.error e) = .error e := rfl
@[simp] theorem cat_nil (R : Res) : cat [] R = R := by
  cases R with
  | error e => rfl
  | ok p => cases p; rfl

theorem cat_cat (s t : Str) (R : Res) : cat s (cat t R) = cat (s ++ t) R := by
  cases R with
  | error e => rfl
  | ok p => cases p; simp

/-- sequencing on results (plain `match`, so that everything reduces by `rfl`) -/
def bindE {α : Type} (r : Except PErr α) (k : α → Res) : Res :=
  match r with
  | .error e => .error e
  | .ok v => k v

@[simp] theorem bindE_ok {α : Type} (v : α) (k : α → Res) : bindE (.ok v) k = k v := rfl
@[simp] theorem bindE_err {α : Type} (e : PErr) (k : α → Res) : bindE (.error e) k = .error e := rfl

def GS (cfg : Cfg) (E : List Char) (o k sb : Bool) (inp : Str) (R : Res) : Prop :=
  ∃ n, ∀ m, n ≤ m → getString cfg m E o k sb inp = R

def GV (cfg : Cfg) (sb : Bool) (inp : Str) (R : Res) : Prop :=
  ∃ n, ∀ m, n ≤ m → getVariable cfg m sb inp = R

def GC (cfg : Cfg) (sb : Bool) (inp : Str) (acc : List Str) (R : Res) : Prop :=
  ∃ n, ∀ m, n ≤ m → getCommand cfg m sb inp acc = R

theorem succ_of_le {n m : Nat} (h : n + 1 ≤ m) : ∃ M, m = M + 1 ∧ n ≤ M := ⟨m - 1, by omega, by omega⟩

/-! ### scanning -/

theorem scan_acc (E : List Char) : ∀ (k : Nat) (inp : Str), inp.length ≤ k → ∀ acc,
    scan E inp acc = match scan E inp [] with
      | .ok (s, r) => .ok (acc.reverse ++ s, r)
      | .error e => .error e := by
  intro k
  induction k with
  | zero =>
    intro inp h acc
    cases inp with
    | nil => simp [scan]
    | cons c r => simp at h
  | succ k ih =>
    intro inp h acc
    cases inp with
    | nil => simp [scan]
    | cons c rest =>
      rw [scan.eq_def E (c :: rest) acc, scan.eq_def E (c :: rest) []]
      simp only
      split
      · simp
      · split
        · cases rest with
          | nil => simp
          | cons d rest' =>
            simp only
            rw [ih rest' (by simp at h ⊢; omega) (d :: acc), ih rest' (by simp at h ⊢; omega) [d]]
            cases scan E rest' [] with
            | error e => rfl
            | ok p => cases p; simp
        · rw [ih rest (by simp at h ⊢; omega) (c :: acc), ih rest (by simp at h ⊢; omega) [c]]
          cases scan E rest [] with
          | error e => rfl
          | ok p => cases p; simp

/-- one literal step: if scanning `pre` in front of any `rest` just pushes `c`, then `getString`
on `pre ++ rest` is `c` in front of `getString` on `rest` -/
theorem GS_litstep (cfg : Cfg) (E : List Char) (o k sb : Bool) (p : Char) (pre' rest : Str) (c : Char)
    (hpd : isDelim E p = false)
    (hscan : ∀ acc, scan E (p :: pre' ++ rest) acc = scan E rest (c :: acc))
    (R : Res) (h : GS cfg E o k sb rest R) : GS cfg E o k sb (p :: pre' ++ rest) (cat [c] R) := by
  obtain ⟨n, hn⟩ := h
  refine ⟨n + 1, fun m hm => ?_⟩
  obtain ⟨M, rfl, hM⟩ := succ_of_le hm
  rw [getString]
  simp only [List.cons_append, nextToken, hpd, Bool.false_eq_true, if_false]
  have hs := hscan []
  simp only [List.cons_append] at hs
  rw [hs]
  cases rest with
  | nil =>
    simp only [scan, List.reverse_cons, List.reverse_nil, List.nil_append]
    rw [hn M hM]; cases R with
    | error e => rfl
    | ok q => cases q; rfl
  | cons d rest' =>
    cases hd : isDelim E d with
    | true =>
      rw [scan.eq_def]
      simp only [hd, if_true, List.reverse_cons, List.reverse_nil, List.nil_append]
      rw [hn M hM]; cases R with
      | error e => rfl
      | ok q => cases q; rfl
    | false =>
      have hR := hn (M + 1) (by omega)
      rw [getString] at hR
      simp only [nextToken, hd, Bool.false_eq_true, if_false] at hR
      rw [scan_acc E _ _ (Nat.le_refl _) [c]]
      cases hsc : scan E (d :: rest') [] with
      | error e =>
        rw [hsc] at hR
        simp only at hR ⊢
        rw [← hR]; rfl
      | ok q =>
        obtain ⟨s', r⟩ := q
        rw [hsc] at hR
        simp only at hR ⊢
        rw [← hR]
        cases getString cfg M E o k sb r with
        | error e => rfl
        | ok q => cases q; simp

/-! ### constants of the current source that the rules rely on -/

theorem esc_is_backslash : Consts.C17.escapeChar = '\\' := by decide
theorem base_sq : Consts.C17.baseDelims.contains '\'' = true := by decide
theorem base_dq : Consts.C17.baseDelims.contains '"' = true := by decide
theorem base_dollar : Consts.C17.baseDelims.contains '$' = true := by decide
theorem base_esc : Consts.C17.baseDelims.contains Consts.C17.escapeChar = false := by decide
theorem base_sub_meta : ∀ c ∈ Consts.C17.baseDelims, metaChars.contains c = true := by decide
theorem nameStart_not_special : ∀ c ∈ Consts.C17.nameStart, c ≠ '{' ∧ c ≠ '(' := by decide

/-! ### introduction rules for `getString` -/

section rules
variable (cfg : Cfg) (E : List Char) (o k sb : Bool)

theorem GS_eos : GS cfg E true k sb [] (.ok ([], [])) := by
  refine ⟨1, fun m hm => ?_⟩
  obtain ⟨M, rfl, _⟩ := succ_of_le hm
  simp [getString, nextToken]

theorem GS_close (c : Char) (t : Str) (hc : E.contains c = true) :
    GS cfg E o k sb (c :: t) (.ok ([], if k then c :: t else t)) := by
  refine ⟨1, fun m hm => ?_⟩
  obtain ⟨M, rfl, _⟩ := succ_of_le hm
  rw [getString]
  simp only [nextToken, isDelim, hc, Bool.or_true, if_true]

theorem GS_lit (c : Char) (rest : Str) (hnd : isDelim E c = false) (hne : c ≠ Consts.C17.escapeChar)
    (R : Res) (h : GS cfg E o k sb rest R) : GS cfg E o k sb (c :: rest) (cat [c] R) := by
  have := GS_litstep cfg E o k sb c [] rest c hnd
    (by intro acc; rw [scan.eq_def]; simp [hnd, hne]) R h
  simpa using this

theorem GS_esc (d : Char) (rest : Str) (hbs : isDelim E Consts.C17.escapeChar = false)
    (R : Res) (h : GS cfg E o k sb rest R) :
    GS cfg E o k sb (Consts.C17.escapeChar :: d :: rest) (cat [d] R) := by
  have := GS_litstep cfg E o k sb Consts.C17.escapeChar [d] rest d hbs
    (by intro acc; rw [scan.eq_def]; simp [hbs]) R h
  simpa using this

theorem getSingleQuoted_app (s rest : Str) (hs : s.contains '\'' = false) :
    getSingleQuoted (s ++ '\'' :: rest) = .ok (s, rest) := by
  induction s with
  | nil => simp [getSingleQuoted]
  | cons c s ih =>
    simp only [List.contains_cons, Bool.or_eq_false_iff] at hs
    have hc : c ≠ '\'' := by intro h; subst h; simp at hs
    simp only [List.cons_append, getSingleQuoted, hc, if_false, ih hs.2]

theorem GS_sq (s rest : Str) (hE : E.contains '\'' = false) (hs : s.contains '\'' = false)
    (R : Res) (h : GS cfg E o k sb rest R) :
    GS cfg E o k sb ('\'' :: s ++ '\'' :: rest) (cat s R) := by
  obtain ⟨n, hn⟩ := h
  refine ⟨n + 1, fun m hm => ?_⟩
  obtain ⟨M, rfl, hM⟩ := succ_of_le hm
  rw [getString]
  simp only [List.cons_append, nextToken, isDelim, base_sq, Bool.true_or, if_true, hE,
    Bool.false_eq_true, if_false, getSingleQuoted_app s rest hs, hn M hM]
  simp only [show ('\'' = '"') = False by decide, if_false]
  cases R with
  | error e => rfl
  | ok q => cases q; rfl

theorem GS_dq_ok (inner s r1 : Str) (hE : E.contains '"' = false) (R : Res)
    (h1 : GS cfg ['"'] false false sb inner (.ok (s, r1))) (h2 : GS cfg E o k sb r1 R) :
    GS cfg E o k sb ('"' :: inner) (cat s R) := by
  obtain ⟨n1, h1⟩ := h1
  obtain ⟨n2, h2⟩ := h2
  refine ⟨max n1 n2 + 1, fun m hm => ?_⟩
  obtain ⟨M, rfl, hM⟩ := succ_of_le hm
  rw [getString]
  simp only [nextToken, isDelim, base_dq, Bool.true_or, if_true, hE, Bool.false_eq_true, if_false,
    h1 M (by omega), h2 M (by omega)]
  cases R with
  | error e => rfl
  | ok q => cases q; rfl

theorem GS_dq_err (inner : Str) (e : PErr) (hE : E.contains '"' = false)
    (h1 : GS cfg ['"'] false false sb inner (.error e)) :
    GS cfg E o k sb ('"' :: inner) (.error e) := by
  obtain ⟨n1, h1⟩ := h1
  refine ⟨n1 + 1, fun m hm => ?_⟩
  obtain ⟨M, rfl, hM⟩ := succ_of_le hm
  rw [getString]
  simp only [nextToken, isDelim, base_dq, Bool.true_or, if_true, hE, Bool.false_eq_true, if_false,
    h1 M (by omega)]

theorem GS_var_ok (r0 s r1 : Str) (hE : E.contains '$' = false) (R : Res)
    (h1 : GV cfg sb r0 (.ok (s, r1))) (h2 : GS cfg E o k sb r1 R) :
    GS cfg E o k sb ('$' :: '{' :: r0) (cat s R) := by
  obtain ⟨n1, h1⟩ := h1
  obtain ⟨n2, h2⟩ := h2
  refine ⟨max n1 n2 + 1, fun m hm => ?_⟩
  obtain ⟨M, rfl, hM⟩ := succ_of_le hm
  rw [getString]
  simp only [nextToken, isDelim, base_dollar, Bool.true_or, if_true, hE, Bool.false_eq_true, if_false,
    show ('$' = '"') = False by decide, show ('$' = '\'') = False by decide, nextChar,
    h1 M (by omega), h2 M (by omega)]
  cases R with
  | error e => rfl
  | ok q => cases q; rfl

theorem GS_var_err (r0 : Str) (e : PErr) (hE : E.contains '$' = false)
    (h1 : GV cfg sb r0 (.error e)) : GS cfg E o k sb ('$' :: '{' :: r0) (.error e) := by
  obtain ⟨n1, h1⟩ := h1
  refine ⟨n1 + 1, fun m hm => ?_⟩
  obtain ⟨M, rfl, hM⟩ := succ_of_le hm
  rw [getString]
  simp only [nextToken, isDelim, base_dollar, Bool.true_or, if_true, hE, Bool.false_eq_true, if_false,
    show ('$' = '"') = False by decide, show ('$' = '\'') = False by decide, nextChar,
    h1 M (by omega)]

theorem GS_cmd_ok (r0 s r1 : Str) (hE : E.contains '$' = false) (R : Res)
    (h1 : GC cfg sb r0 [] (.ok (s, r1))) (h2 : GS cfg E o k sb r1 R) :
    GS cfg E o k sb ('$' :: '(' :: r0) (cat s R) := by
  obtain ⟨n1, h1⟩ := h1
  obtain ⟨n2, h2⟩ := h2
  refine ⟨max n1 n2 + 1, fun m hm => ?_⟩
  obtain ⟨M, rfl, hM⟩ := succ_of_le hm
  rw [getString]
  simp only [nextToken, isDelim, base_dollar, Bool.true_or, if_true, hE, Bool.false_eq_true, if_false,
    show ('$' = '"') = False by decide, show ('$' = '\'') = False by decide, nextChar,
    show ('(' = '{') = False by decide, h1 M (by omega), h2 M (by omega)]
  cases R with
  | error e => rfl
  | ok q => cases q; rfl

theorem GS_cmd_err (r0 : Str) (e : PErr) (hE : E.contains '$' = false)
    (h1 : GC cfg sb r0 [] (.error e)) : GS cfg E o k sb ('$' :: '(' :: r0) (.error e) := by
  obtain ⟨n1, h1⟩ := h1
  refine ⟨n1 + 1, fun m hm => ?_⟩
  obtain ⟨M, rfl, hM⟩ := succ_of_le hm
  rw [getString]
  simp only [nextToken, isDelim, base_dollar, Bool.true_or, if_true, hE, Bool.false_eq_true, if_false,
    show ('$' = '"') = False by decide, show ('$' = '\'') = False by decide, nextChar,
    show ('(' = '{') = False by decide, h1 M (by omega)]

theorem GS_bare (d : Char) (r0 nm r1 : Str) (hE : E.contains '$' = false)
    (hd : Consts.C17.nameStart.contains d = true) (hr : getRestOfName r0 = (nm, r1))
    (R : Res) (h2 : GS cfg E o k sb r1 R) :
    GS cfg E o k sb ('$' :: d :: r0)
      (bindE (varValue cfg sb (d :: nm)) fun v => cat v R) := by
  obtain ⟨n2, h2⟩ := h2
  refine ⟨n2 + 1, fun m hm => ?_⟩
  obtain ⟨M, rfl, hM⟩ := succ_of_le hm
  have hsp := nameStart_not_special d (by simpa using hd)
  rw [getString]
  simp only [nextToken, isDelim, base_dollar, Bool.true_or, if_true, hE, Bool.false_eq_true, if_false,
    show ('$' = '"') = False by decide, show ('$' = '\'') = False by decide, nextChar,
    hsp.1, hsp.2, hd, hr, varValue, bindE]
  cases lookup cfg.env (d :: nm) with
  | some v =>
    simp only [h2 M hM]
    cases R with
    | error e => rfl
    | ok q => cases q; rfl
  | none =>
    cases hs : (sb && cfg.nounset) with
    | true => simp
    | false =>
      simp only [Bool.false_eq_true, if_false, h2 M hM]
      cases R with
      | error e => rfl
      | ok q => cases q; rfl

end rules

/-! ### rules for `getVariable` and `getCommand` -/

section rules2
variable (cfg : Cfg) (sb : Bool)

theorem GV_err (inp : Str) (e : PErr) (h1 : GS cfg ctxName false true sb inp (.error e)) :
    GV cfg sb inp (.error e) := by
  obtain ⟨n1, h1⟩ := h1
  refine ⟨n1 + 1, fun m hm => ?_⟩
  obtain ⟨M, rfl, hM⟩ := succ_of_le hm
  rw [getVariable]
  have := h1 M hM
  simp only [ctxName] at this
  simp only [this]

theorem GV_plain (inp nm r3 : Str) (h1 : GS cfg ctxName false true sb inp (.ok (nm, '}' :: r3))) :
    GV cfg sb inp (bindE (varValue cfg sb nm) fun v => .ok (v, r3)) := by
  obtain ⟨n1, h1⟩ := h1
  refine ⟨n1 + 1, fun m hm => ?_⟩
  obtain ⟨M, rfl, hM⟩ := succ_of_le hm
  rw [getVariable]
  have := h1 M hM
  simp only [ctxName] at this
  simp only [this, nextChar, show ('}' = ':') = False by decide, if_false,
    show ('}' = '-') = False by decide, show ('}' = '+') = False by decide, if_true, varValue, bindE]
  cases lookup cfg.env nm with
  | some v => rfl
  | none => cases (sb && cfg.nounset) <;> rfl

theorem isUnset_eq (colon : Bool) (nm : Str) :
    isUnset cfg colon nm =
      if colon then ((lookup cfg.env nm).isNone || decide (lookup cfg.env nm = some []))
      else (lookup cfg.env nm).isNone := by
  unfold isUnset
  cases lookup cfg.env nm with
  | none => cases colon <;> rfl
  | some v => cases colon <;> simp

theorem GV_dflt (colon : Bool) (inp nm r3 : Str) (Rd : Res)
    (h1 : GS cfg ctxName false true sb inp (.ok (nm, colonStr colon ++ '-' :: r3)))
    (h2 : GS cfg ctxBranch false false (sb && isUnset cfg colon nm) r3 Rd) :
    GV cfg sb inp (bindE Rd fun p =>
      .ok (if isUnset cfg colon nm then p.1 else (lookup cfg.env nm).getD [], p.2)) := by
  obtain ⟨n1, h1⟩ := h1
  obtain ⟨n2, h2⟩ := h2
  refine ⟨max n1 n2 + 1, fun m hm => ?_⟩
  obtain ⟨M, rfl, hM⟩ := succ_of_le hm
  rw [getVariable]
  have a1 := h1 M (by omega)
  have a2 := h2 M (by omega)
  simp only [ctxName, ctxBranch, isUnset_eq, bindE] at a1 a2 ⊢
  cases colon with
  | true =>
    simp only [colonStr, if_true, List.cons_append, List.nil_append] at a1 a2 ⊢
    simp only [a1, nextChar, if_true, a2]
    cases Rd with
    | error e => rfl
    | ok q => cases q; rfl
  | false =>
    simp only [colonStr, Bool.false_eq_true, if_false, List.nil_append] at a1 a2 ⊢
    simp only [a1, nextChar, show ('-' = ':') = False by decide, if_false, if_true, a2]
    cases Rd with
    | error e => rfl
    | ok q => cases q; rfl

theorem GV_altv (colon : Bool) (inp nm r3 : Str) (Ra : Res)
    (h1 : GS cfg ctxName false true sb inp (.ok (nm, colonStr colon ++ '+' :: r3)))
    (h2 : GS cfg ctxBranch false false (sb && !isUnset cfg colon nm) r3 Ra) :
    GV cfg sb inp (bindE Ra fun p => .ok (if isUnset cfg colon nm then [] else p.1, p.2)) := by
  obtain ⟨n1, h1⟩ := h1
  obtain ⟨n2, h2⟩ := h2
  refine ⟨max n1 n2 + 1, fun m hm => ?_⟩
  obtain ⟨M, rfl, hM⟩ := succ_of_le hm
  rw [getVariable]
  have a1 := h1 M (by omega)
  have a2 := h2 M (by omega)
  simp only [ctxName, ctxBranch, isUnset_eq, bindE] at a1 a2 ⊢
  cases colon with
  | true =>
    simp only [colonStr, if_true, List.cons_append, List.nil_append] at a1 a2 ⊢
    simp only [a1, nextChar, if_true, show ('+' = '-') = False by decide, if_false, a2]
    cases Ra with
    | error e => rfl
    | ok q => cases q; rfl
  | false =>
    simp only [colonStr, Bool.false_eq_true, if_false, List.nil_append] at a1 a2 ⊢
    simp only [a1, nextChar, show ('+' = ':') = False by decide, show ('+' = '-') = False by decide,
      if_false, if_true, a2]
    cases Ra with
    | error e => rfl
    | ok q => cases q; rfl

/-- what `getCommand` does at the closing parenthesis; `wordsRev` in reverse order -/
def finish (cfg : Cfg) (sb : Bool) (wordsRev : List Str) (r2 : Str) : Res :=
  if !sb then .ok ([], r2)
  else match wordsRev.reverse with
    | [] => .error .funError
    | cmd :: args =>
      match callFun cfg cmd args with
      | .error e => .error e
      | .ok v => .ok (v, r2)

theorem GC_err (inp : Str) (acc : List Str) (e : PErr)
    (h1 : GS cfg ctxWord false true sb inp (.error e)) : GC cfg sb inp acc (.error e) := by
  obtain ⟨n1, h1⟩ := h1
  refine ⟨n1 + 1, fun m hm => ?_⟩
  obtain ⟨M, rfl, hM⟩ := succ_of_le hm
  rw [getCommand]
  have := h1 M hM
  simp only [ctxWord] at this
  simp only [this]

theorem GC_last (inp w r2 : Str) (acc : List Str)
    (h1 : GS cfg ctxWord false true sb inp (.ok (w, ')' :: r2))) :
    GC cfg sb inp acc (finish cfg sb (w :: acc) r2) := by
  obtain ⟨n1, h1⟩ := h1
  refine ⟨n1 + 1, fun m hm => ?_⟩
  obtain ⟨M, rfl, hM⟩ := succ_of_le hm
  rw [getCommand]
  have := h1 M hM
  simp only [ctxWord] at this
  simp only [this, nextChar, if_true, finish]
  cases sb with
  | false => rfl
  | true =>
    simp only [Bool.not_true, Bool.false_eq_true, if_false]
    cases (w :: acc).reverse with
    | nil => rfl
    | cons c a => dsimp only; cases callFun cfg c a <;> rfl

theorem GC_more (inp w r2 : Str) (acc : List Str) (R : Res)
    (h1 : GS cfg ctxWord false true sb inp (.ok (w, ',' :: r2)))
    (h2 : GC cfg sb r2 (w :: acc) R) : GC cfg sb inp acc R := by
  obtain ⟨n1, h1⟩ := h1
  obtain ⟨n2, h2⟩ := h2
  refine ⟨max n1 n2 + 1, fun m hm => ?_⟩
  obtain ⟨M, rfl, hM⟩ := succ_of_le hm
  rw [getCommand]
  have := h1 M (by omega)
  simp only [ctxWord] at this
  simp only [this, nextChar, show (',' = ')') = False by decide, if_false, h2 M (by omega)]

end rules2

end C17
