import BobModel.Proofs.C08Base
/-
Helper lemmas for Props/C08.lean, part 2: structural facts about `walk` on well-formed trees
(every entry has a directory as parent): splitting off the last component, walking through
missing components, walking along a chain of directories.
-/
namespace TarExtract

def IsDir (fs : FS) (p : Path) : Prop := ∃ m, fs.look p = some (.dir m)

/-- every entry lives in a directory -/
def WF (fs : FS) : Prop := ∀ p c e, fs.look (p ++ [c]) = some e → IsDir fs p

/-- a path component that is a real name -/
def Plain (c : Name) : Prop := c ≠ [] ∧ c ≠ dot ∧ c ≠ dotdot

theorem symTarget_of_look_none {fs : FS} {p : Path} (h : fs.look p = none) : symTarget fs p = none := by
  simp [symTarget, h]

theorem symTarget_of_isDir {fs : FS} {p : Path} (h : IsDir fs p) : symTarget fs p = none := by
  obtain ⟨m, hm⟩ := h
  simp [symTarget, hm]

theorem isDir_dropLast {fs : FS} (hwf : WF fs) {p : Path} (h : IsDir fs p) : IsDir fs p.dropLast := by
  rcases List.eq_nil_or_concat p with hp | ⟨q, c, hp⟩
  · subst hp; simpa using h
  · subst hp
    obtain ⟨m, hm⟩ := h
    rw [List.concat_eq_append] at hm
    simpa using hwf q c _ hm

theorem look_child_none {fs : FS} (hwf : WF fs) {p : Path} (h : fs.look p = none) (c : Name) :
    fs.look (p ++ [c]) = none := by
  cases hl : fs.look (p ++ [c]) with
  | none => rfl
  | some e =>
    obtain ⟨m, hm⟩ := hwf p c e hl
    rw [h] at hm; cases hm

/-- The kernel resolves `p/c` (without following `c`) to `D/c` where `D` is what `p` resolves
to, and `D` is an existing directory. -/
theorem walk_split_last (fs : FS) (hwf : WF fs) (hroot : IsDir fs []) (c : Name)
    (hc : c ≠ dot ∧ c ≠ dotdot) :
    ∀ (n : Nat) (cur : Path) (p : List Name) (L : Path), IsDir fs cur →
      walk fs true false n cur (p ++ [c]) = .ok L →
      ∃ D, walk fs true true n cur p = .ok D ∧ L = D ++ [c] ∧ IsDir fs D := by
  intro n
  induction n with
  | zero =>
    intro cur p L _ h
    cases p <;> simp [walk] at h
  | succ n ih =>
    intro cur p L hcur h
    cases p with
    | nil =>
      refine ⟨cur, by simp [walk], ?_, hcur⟩
      have key : walk fs true false (n + 1) cur [c] = .ok (cur ++ [c]) := by
        simp only [walk, hc.1, hc.2, if_false]
        split
        · simp
        · simp only [Bool.true_eq_false, if_false]
          split <;> simp [walk]
      simp only [List.nil_append] at h
      rw [key] at h
      exact (Except.ok.inj h).symm
    | cons x p =>
      simp only [List.cons_append, walk] at h ⊢
      by_cases hx1 : x = dot
      · simp only [hx1, if_true] at h ⊢; exact ih _ _ _ hcur h
      · by_cases hx2 : x = dotdot
        · simp only [hx1, hx2, if_true, if_false] at h ⊢
          exact ih _ _ _ (isDir_dropLast hwf hcur) h
        · simp only [hx1, hx2, if_false] at h ⊢
          cases hs : symTarget fs (cur ++ [x]) with
          | some t =>
            simp only [hs] at h ⊢
            rw [if_neg (by simp)] at h
            rw [if_neg (by simp)]
            rw [← List.append_assoc] at h
            refine ih _ _ _ ?_ h
            split
            · exact hroot
            · exact hcur
          | none =>
            simp only [hs, Bool.true_eq_false, if_false] at h ⊢
            cases hl : fs.look (cur ++ [x]) with
            | none => simp [hl] at h
            | some e =>
              cases e with
              | dir m =>
                simp only [hl] at h ⊢
                exact ih _ _ _ ⟨m, hl⟩ h
              | ref i => simp [hl] at h

/-- realpath through a missing location appends the remaining plain components -/
theorem walk_lenient_from_missing (fs : FS) (hwf : WF fs) :
    ∀ (b : List Name) (n : Nat) (cur r : Path), fs.look cur = none → (∀ c ∈ b, Plain c) →
      walk fs false true n cur b = .ok r → r = cur ++ b := by
  intro b
  induction b with
  | nil => intro n cur r _ _ h; simp [walk] at h; simp [h]
  | cons c b ih =>
    intro n cur r hcur hb h
    cases n with
    | zero => simp [walk] at h
    | succ n =>
      have hc := hb c (by simp)
      have hchild := look_child_none hwf hcur c
      simp only [walk, hc.2.1, hc.2.2, if_false, symTarget_of_look_none hchild, if_true] at h
      have := ih n (cur ++ [c]) r hchild (fun d hd => hb d (by simp [hd])) h
      simpa using this

theorem walk_lenient_append_missing (fs : FS) (hwf : WF fs) (b : List Name) (hb : ∀ c ∈ b, Plain c) :
    ∀ (n : Nat) (cur : Path) (a : List Name) (M r : Path),
      walk fs false true n cur a = .ok M → fs.look M = none →
      walk fs false true n cur (a ++ b) = .ok r → r = M ++ b := by
  intro n
  induction n with
  | zero =>
    intro cur a M r ha hM hab
    cases a with
    | nil =>
      simp [walk] at ha; subst ha
      exact walk_lenient_from_missing fs hwf b 0 cur r hM hb hab
    | cons x a => simp [walk] at ha
  | succ n ih =>
    intro cur a M r ha hM hab
    cases a with
    | nil =>
      simp [walk] at ha; subst ha
      exact walk_lenient_from_missing fs hwf b (n + 1) cur r hM hb hab
    | cons x a =>
      simp only [List.cons_append, walk] at ha hab
      by_cases hx1 : x = dot
      · simp only [hx1, if_true] at ha hab; exact ih _ _ _ _ ha hM hab
      · by_cases hx2 : x = dotdot
        · simp only [hx1, hx2, if_true, if_false] at ha hab; exact ih _ _ _ _ ha hM hab
        · simp only [hx1, hx2, if_false] at ha hab
          cases hs : symTarget fs (cur ++ [x]) with
          | some t =>
            simp only [hs] at ha hab
            rw [if_neg (by simp)] at ha hab
            rw [← List.append_assoc] at hab
            exact ih _ _ _ _ ha hM hab
          | none =>
            simp only [hs, if_true] at ha hab
            exact ih _ _ _ _ ha hM hab

/-- walking along existing directories -/
theorem walk_chain (fs : FS) (strict follow : Bool) :
    ∀ (q : List Name) (cur : Path) (n : Nat) (rest : List Name),
      (∀ c ∈ q, c ≠ dot ∧ c ≠ dotdot) →
      (∀ k, 0 < k → k ≤ q.length → IsDir fs (cur ++ q.take k)) → q.length ≤ n →
      walk fs strict follow n cur (q ++ rest) = walk fs strict follow (n - q.length) (cur ++ q) rest := by
  intro q
  induction q with
  | nil => intro cur n rest _ _ _; simp
  | cons x q ih =>
    intro cur n rest hq hd hn
    cases n with
    | zero => simp at hn
    | succ n =>
      have hx := hq x (by simp)
      have hdx : IsDir fs (cur ++ [x]) := by simpa using hd 1 (by omega) (by simp)
      obtain ⟨m, hm⟩ := hdx
      simp only [List.cons_append, walk, hx.1, hx.2, if_false, symTarget_of_isDir ⟨m, hm⟩, hm]
      have hrec := ih (cur ++ [x]) n rest (fun c hc => hq c (by simp [hc]))
        (fun k hk hk' => by
          have := hd (k + 1) (by omega) (by simpa using hk')
          simpa using this) (by simpa using hn)
      have e1 : n + 1 - (x :: q).length = n - q.length := by simp
      have e2 : cur ++ x :: q = cur ++ [x] ++ q := by simp
      rw [e1, e2, ← hrec]
      cases strict <;> simp

end TarExtract
