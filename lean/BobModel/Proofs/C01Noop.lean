import BobModel.Proofs.C01Done
/-
An immediately repeated invocation re-executes nothing but indeterministic checkouts:
in a state where every step is `Done` and `Settled` the cook functions take their skip branches
(and an indeterministic checkout that is re-run reproduces exactly the stored state).
-/
namespace Builder

variable {E : Env}

/-! ## states that agree on everything Bob reads -/

def Same (S st : St) : Prop :=
  ∀ q, st.results q = S.results q ∧ st.inputs q = S.inputs q ∧ st.dirStates q = S.dirStates q ∧
    st.variantIds q = S.variantIds q ∧ st.disk q = S.disk q

theorem Same.refl (S : St) : Same S S := fun _ => ⟨rfl, rfl, rfl, rfl, rfl⟩

theorem Same.trans {a b c : St} (h1 : Same a b) (h2 : Same b c) : Same a c := by
  intro q
  obtain ⟨a1, a2, a3, a4, a5⟩ := h1 q
  obtain ⟨b1, b2, b3, b4, b5⟩ := h2 q
  exact ⟨b1.trans a1, b2.trans a2, b3.trans a3, b4.trans a4, b5.trans a5⟩

theorem same_resultsOf {S st : St} (h : Same S st) (ds : List Step) : resultsOf st ds = resultsOf S ds := by
  unfold resultsOf
  apply List.map_congr_left
  intro d _
  exact (h d.path).1

theorem same_contentsOf {S st : St} (h : Same S st) (ds : List Step) : contentsOf st ds = contentsOf S ds := by
  unfold contentsOf
  apply List.map_congr_left
  intro d _
  rw [(h d.path).2.2.2.2]

theorem same_inputHashes {S st : St} (h : Same S st) (i : Info) (ds : List Step) :
    inputHashes st i ds = inputHashes S i ds := by
  unfold inputHashes
  rw [same_resultsOf h]

theorem same_ivid {S st : St} (h : Same S st) (i : Info) (ds : List Step) : ivid st i ds = ivid S i ds := by
  unfold ivid
  congr 1
  apply List.map_congr_left
  intro d _
  rw [(h d.path).2.2.2.1]

theorem same_hashOf {S st : St} (h : Same S st) (p : Path) : hashOf E st p = hashOf E S p := by
  unfold hashOf
  rw [(h p).2.2.2.2]

/-! ## what a quiet log may contain -/

/-- the operation neither prunes nor moves anything, and runs a script at most in workspace `p` -/
def Benign (p : Option Path) : Op → Prop
  | .scriptBegin q => p = some q
  | .emptyDir _ => False
  | .atticMove _ _ => False
  | .mkDir _ => False
  | _ => True

/-- the run `r'` extends the log of `r` by benign operations -/
def Extends (p : Option Path) (r r' : Run) : Prop := ∃ l, r'.log = r.log ++ l ∧ ∀ op ∈ l, Benign p op

theorem Extends.refl (p : Option Path) (r : Run) : Extends p r r := ⟨[], by simp, by simp⟩

/-! ## `_cookBuildStep`, `_preparePackageStep`, `_cookPackageStep` on a settled step -/

theorem constructDir_existing (p : Path) (r : Run) (c : Content) (hd : r.st.disk p = some c) (Q : Bool → Run → Prop)
    (A : Run → Prop) (h : Q false r) : wp (constructDir p) Q A r := by
  unfold constructDir
  simp only [wp_bind, wp_getSt, hd, Option.isNone_some, Bool.false_eq_true, if_false, wp_pure]
  exact h

theorem cookBuild_skip (cfg : Cfg) (hforce : cfg.force = false) (i : Info) (ds : List Step) (r : Run) (c : Content)
    (hd : r.st.disk i.path = some c)
    (hdir : r.st.dirStates i.path = some (DirState.build (ivid r.st i ds) (i.execPath :: ds.map fun d => d.info.execPath)))
    (hin : r.st.inputs i.path = some (inputHashes r.st i ds))
    (hres : r.st.results i.path = some (.hash (E.H c))) :
    wp (cookBuild E cfg i ds) (fun _ r' => Same r.st r'.st ∧ Extends none r r') (fun _ => True) r := by
  unfold cookBuild
  simp only [wp_bind, wp_getSt]
  apply constructDir_existing _ _ c hd
  simp only [hdir, ne_eq, not_true_eq_false, decide_false, Bool.or_self, Bool.false_eq_true, if_false, wp_pure, wp_bind,
    wp_getSt, hin, hforce, Bool.not_false, decide_true, Bool.and_self, if_true]
  cases hcb : cfg.cleanBuild with
  | true => simp only [Bool.not_true, wp_whenM_false]; exact ⟨Same.refl _, Extends.refl _ _⟩
  | false =>
    simp only [Bool.not_false, wp_whenM_true]
    rw [wp_prim]
    refine ⟨fun _ => trivial, ?_⟩
    intro k _
    constructor
    · intro q
      refine ⟨?_, rfl, rfl, rfl, rfl⟩
      show (r.st.setResult i.path (hashOf E r.st i.path)).results q = r.st.results q
      simp only [St.setResult, hashOf, hd, Option.getD_some]
      by_cases hq : q = i.path
      · subst hq; simp [hres]
      · simp [upd, hq]
    · exact ⟨[_], rfl, by intro op hop; simp at hop; subst hop; trivial⟩

theorem preparePackage_skip (i : Info) (ds : List Step) (r : Run) (c : Content) (hd : r.st.disk i.path = some c)
    (hdir : r.st.dirStates i.path = some (DirState.pkg (.mk i.sig (vids ds)))) :
    wp (preparePackage i ds) (fun _ r' => r' = r) (fun _ => True) r := by
  unfold preparePackage
  simp only [wp_bind, wp_getSt, hd, hdir, Option.isSome_some, ne_eq, not_true_eq_false, decide_false, Bool.and_false,
    Bool.false_eq_true, if_false, wp_pure, Bool.not_true, wp_whenM_false]

theorem cookPackage_skip (cfg : Cfg) (hforce : cfg.force = false) (i : Info) (pre ds : List Step) (r : Run) (c : Content)
    (hd : r.st.disk i.path = some c) (hin : r.st.inputs i.path = some (inputHashes r.st i (pre ++ ds))) :
    wp (cookPackage E cfg i pre ds) (fun _ r' => r' = r) (fun _ => True) r := by
  unfold cookPackage
  simp only [wp_bind, wp_getSt]
  apply constructDir_existing _ _ c hd
  simp only [hin, hforce, Bool.not_false, decide_true, Bool.and_self, if_true, wp_pure]

/-! ## `_cookCheckoutStep` on a settled step -/

theorem Extends.trans {p : Option Path} {a b c : Run} (h1 : Extends p a b) (h2 : Extends p b c) : Extends p a c := by
  obtain ⟨l1, e1, b1⟩ := h1
  obtain ⟨l2, e2, b2⟩ := h2
  refine ⟨l1 ++ l2, by rw [e2, e1, List.append_assoc], ?_⟩
  intro op hop
  rcases List.mem_append.mp hop with h | h
  · exact b1 op h
  · exact b2 op h

/-- one benign micro-operation -/
theorem wp_prim_benign {p : Option Path} (op : Op) (f : St → St) (Q : Unit → Run → Prop) (r : Run) (hb : Benign p op)
    (hq : ∀ r1, r1.st = f r.st → r1.mem = r.mem → Extends p r r1 → Q () r1) :
    wp (prim op f) Q (fun _ => True) r := by
  rw [wp_prim]
  refine ⟨fun _ => trivial, ?_⟩
  intro k _
  exact hq { r with st := f r.st, fuel := k, log := r.log ++ [op] } rfl rfl
    ⟨[op], rfl, by intro o ho; simp at ho; subst ho; exact hb⟩

theorem collides_self (c : Content) (scms : List (Dir × Digest)) (hf : FunScm scms) : collides E c scms scms = false := by
  unfold collides
  rw [List.any_eq_false]
  intro x hx
  have : lookupScm scms x.1 = some x.2 := lookupScm_of_mem hf (by simpa using hx)
  simp [this]

theorem cookCheckout_skip (cfg : Cfg) (hforce : cfg.force = false) (i : Info) (ds : List Step) (r : Run) (c : Content)
    (hdet : i.det = true) (hd : r.st.disk i.path = some c) (bo : Option BoState)
    (hdir : r.st.dirStates i.path = some (.co i.scms (some (Vid.mk i.sig (vids ds))) bo))
    (hin : r.st.inputs i.path = some (resultsOf r.st ds))
    (hres : r.st.results i.path = some (.hash (E.H c))) :
    wp (cookCheckout E cfg i ds) (fun _ r' => r' = r) (fun _ => True) r := by
  unfold cookCheckout
  simp only [wp_bind, wp_getSt]
  apply constructDir_existing _ _ c hd
  have hreason : checkoutReason E cfg i ds false (coParts (r.st.dirStates i.path)) r.st (resultsOf r.st ds) = false := by
    simp [checkoutReason, hforce, hdet, hdir, coParts, hin, hres, hashOf, hd]
  simp only [Bool.false_eq_true, if_false, wp_whenM_false, hreason, wp_pure]
  have : (decide (some (hashOf E r.st i.path) ≠ r.st.results i.path) || cfg.force) = false := by
    simp [hashOf, hd, hres, hforce]
  rw [this, wp_whenM_false]

theorem cookCheckout_rerun (cfg : Cfg) (i : Info) (ds : List Step) (r : Run) (c : Content)
    (hdet : i.det = false) (hd : r.st.disk i.path = some c) (hf : FunScm i.scms)
    (hacyc : ∀ d ∈ ds, d.path ≠ i.path)
    (hdir : r.st.dirStates i.path = some (.co i.scms (some (Vid.mk i.sig (vids ds)))
      (some { loc := i.boLoc, upd := i.boUpd, ins := resultsOf r.st ds })))
    (hin : r.st.inputs i.path = some (resultsOf r.st ds))
    (hres : r.st.results i.path = some (.hash (E.H c)))
    (hvid : r.st.variantIds i.path = some (ivid r.st i ds))
    (hsem : ∀ c', E.sem i.sig i.world c (contentsOf r.st ds) = .ok c' → c' = c) :
    wp (cookCheckout E cfg i ds) (fun _ r' => Same r.st r'.st ∧ Extends (some i.path) r r') (fun _ => True) r := by
  unfold cookCheckout
  simp only [wp_bind, wp_getSt]
  apply constructDir_existing _ _ c hd
  have hreason : checkoutReason E cfg i ds false (coParts (r.st.dirStates i.path)) r.st (resultsOf r.st ds) = true := by
    simp [checkoutReason, hdet]
  simp only [Bool.false_eq_true, if_false, wp_whenM_false, hreason, if_true]
  unfold checkoutRun
  simp only [wp_bind, wp_pure, wp_getSt, hdir, coParts]
  rw [atticLoop_noop cfg i.path i.scms hf _ _ i.scms i.scms (fun _ h => h)]
  simp only [wp_pure, collides_self _ _ hf, Bool.false_eq_true, if_false, wp_bind, wp_getSt]
  -- setDir without the variant-id key
  refine wp_prim_benign (p := some i.path) _ _ _ _ (by first | trivial | rfl) ?_
  intro r1 hs1 hm1 he1
  have hr1 : (r1.st.results i.path).isSome = true := by rw [hs1]; simp [St.setDir, hres]
  simp only [hr1, if_true, wp_bind, wp_pure]
  -- forge
  refine wp_prim_benign (p := some i.path) _ _ _ _ (by first | trivial | rfl) ?_
  intro r2 hs2 hm2 he2
  -- the script
  unfold runScript
  simp only [wp_bind, wp_getSt, Bool.false_eq_true, if_false]
  refine wp_prim_benign (p := some i.path) _ _ _ _ (by first | trivial | rfl) ?_
  intro r3 hs3 hm3 he3
  have hold : (r2.st.disk i.path).getD emptyC = c := by rw [hs2, hs1]; simp [St.forge, St.setDir, hd]
  have hcont : contentsOf r1.st ds = contentsOf r.st ds := by rw [hs1, contentsOf_setDir]
  rw [hold, hcont]
  cases hs : E.sem i.sig i.world c (contentsOf r.st ds) with
  | fail c' =>
    simp only [wp_bind]
    refine wp_prim_benign (p := some i.path) _ _ _ _ (by first | trivial | rfl) ?_
    intro r4 _ _ _
    simp only [wp_abort]
  | ok c' =>
    have hc' : c' = c := hsem c' hs
    subst hc'
    simp only []
    refine wp_prim_benign (p := some i.path) _ _ _ _ (by first | trivial | rfl) ?_
    intro r4 hs4 hm4 he4
    refine wp_prim_benign (p := some i.path) _ _ _ _ (by first | trivial | rfl) ?_
    intro r5 hs5 hm5 he5
    refine wp_prim_benign (p := some i.path) _ _ _ _ (by first | trivial | rfl) ?_
    intro r6 hs6 hm6 he6
    refine wp_prim_benign (p := some i.path) _ _ _ _ (by first | trivial | rfl) ?_
    intro r7 hs7 hm7 he7
    -- the final hash differs from the forged one: it is stored again
    have hne : (decide (some (hashOf E r7.st i.path) ≠ some (RH.forged r1.st.clock)) || cfg.force) = true := by
      simp [hashOf]
    rw [hne, wp_whenM_true]
    refine wp_prim_benign (p := some i.path) _ _ _ _ (by first | trivial | rfl) ?_
    intro r8 hs8 hm8 he8
    refine ⟨?_, (((((((he1.trans he2).trans he3).trans he4).trans he5).trans he6).trans he7).trans he8)⟩
    -- the state is what it was
    have hiv : ivid r6.st i ds = ivid r.st i ds := by
      rw [hs6, hs5, hs4, hs3, hs2, hs1]
      exact ivid_agree ((((((agree_setDir _ _ _).trans (agree_forge _ _)).trans (agree_setDisk _ _ _)).trans
        (agree_setDisk _ _ _)).trans (agree_setDir _ _ _)).trans (agree_setInputs _ _ _)) i ds hacyc
    intro q
    rw [hs8, hs7, hiv, hs6, hs5, hs4, hs3, hs2, hs1]
    by_cases hq : q = i.path
    · subst hq
      simp [St.setResult, St.setVid, St.setInputs, St.setDir, St.setDisk, St.forge, hashOf, hres, hin, hdir, hvid, hd]
    · simp [St.setResult, St.setVid, St.setInputs, St.setDir, St.setDisk, St.forge, upd, hq]

/-! ## the second invocation -/

variable {dev : Bool} {Γ : Path → List (Dir × Digest)}

/-- operations an immediately repeated invocation may perform: no prune, no directory creation,
no attic move, and scripts only of indeterministic checkouts of the project -/
def QuietOp (T : Step) : Op → Prop
  | .scriptBegin q => ∃ u ∈ subtrees T, u.path = q ∧ u.kind = .checkout ∧ u.info.det = false
  | .emptyDir _ => False
  | .atticMove _ _ => False
  | .mkDir _ => False
  | _ => True

def Quiet (T : Step) (log : List Op) : Prop := ∀ op ∈ log, QuietOp T op

theorem quiet_extends_none {T : Step} {r r' : Run} (hq : Quiet T r.log) (he : Extends none r r') : Quiet T r'.log := by
  obtain ⟨l, e, b⟩ := he
  rw [e]
  intro op hop
  rcases List.mem_append.mp hop with h | h
  · exact hq op h
  · have := b op h
    cases op <;> simp_all [Benign, QuietOp]

theorem quiet_extends_some {T : Step} {r r' : Run} {u : Step} (hu : u ∈ subtrees T) (hk : u.kind = .checkout)
    (hd : u.info.det = false) (hq : Quiet T r.log) (he : Extends (some u.path) r r') : Quiet T r'.log := by
  obtain ⟨l, e, b⟩ := he
  rw [e]
  intro op hop
  rcases List.mem_append.mp hop with h | h
  · exact hq op h
  · have := b op h
    cases op with
    | scriptBegin q =>
      simp only [Benign, Option.some.injEq] at this
      exact ⟨u, hu, this, hk, hd⟩
    | _ => simp_all [Benign, QuietOp]

/-- the state the second invocation starts from: everything reachable is done and settled -/
def Stable (E : Env) (T : Step) (S : St) : Prop := ∀ u ∈ reach T, Done E u S ∧ Settled E u S

structure NInv (T : Step) (S : St) (r : Run) : Prop where
  same : Same S r.st
  quiet : Quiet T r.log

def Stays (E : Env) (cfg : Cfg) (T : Step) (S : St) (m : M Unit) : Prop :=
  ∀ r, NInv T S r → wp m (fun _ r' => NInv T S r') (fun _ => True) r

theorem stays_pure {cfg : Cfg} {T : Step} {S : St} : Stays E cfg T S (pure ()) := by
  intro r h; simp only [wp_pure]; exact h

theorem stays_seq {cfg : Cfg} {T : Step} {S : St} {m1 m2 : M Unit} (h1 : Stays E cfg T S m1) (h2 : Stays E cfg T S m2) :
    Stays E cfg T S (do m1; m2) := by
  intro r h
  simp only [wp_bind]
  refine wp_mono _ _ _ _ _ _ ?_ (fun _ hx => hx) (h1 r h)
  intro _ r1 hr1
  exact h2 r1 hr1

theorem stays_wasAlreadyRun {cfg : Cfg} {T : Step} {S : St} (t : Step) (so : Bool) {f : Bool → M Unit}
    (h : ∀ b, Stays E cfg T S (f b)) : Stays E cfg T S (wasAlreadyRun t so >>= f) := by
  intro r hr
  simp only [wp_bind]
  apply wp_wasAlreadyRun
  intro b m
  exact h b { r with mem := m } ⟨hr.same, hr.quiet⟩

theorem stays_setAlreadyRun {cfg : Cfg} {T : Step} {S : St} (t : Step) (c s : Bool) :
    Stays E cfg T S (setAlreadyRun t c s) := by
  intro r hr
  apply wp_setAlreadyRun
  intro m
  exact ⟨hr.same, hr.quiet⟩

structure NHyp (E : Env) (dev : Bool) (Γ : Path → List (Dir × Digest)) (cfg : Cfg) (T : Step) (S : St) : Prop where
  sem : SemHyp E dev T
  wf : TreeWF Γ T
  force : cfg.force = false
  stable : Stable E T S

def NStep (E : Env) (cfg : Cfg) (T : Step) (S : St) (t : Step) : Prop :=
  (∀ u ∈ reach t, u ∈ reach T) → Stays E cfg T S (cookStep E cfg false t) ∧ Stays E cfg T S (bidDeps E cfg t.deps)

def NList (E : Env) (cfg : Cfg) (T : Step) (S : St) (ds : List Step) : Prop :=
  (∀ u ∈ reachL ds, u ∈ reach T) →
    (∀ parent, Stays E cfg T S (cookList E cfg false parent ds)) ∧ Stays E cfg T S (bidDeps E cfg ds)

theorem nlist_nil (cfg : Cfg) (T : Step) (S : St) : NList E cfg T S [] := by
  intro _
  constructor
  · intro parent; simp only [cookList]; exact stays_pure
  · simp only [bidDeps]; exact stays_pure

theorem nlist_cons (cfg : Cfg) (T : Step) (S : St) (d : Step) (ds : List Step) (hd : NStep E cfg T S d)
    (hds : NList E cfg T S ds) : NList E cfg T S (d :: ds) := by
  intro hsub
  obtain ⟨hd1, hd2⟩ := hd (fun u hu => hsub u (by simp [reachL, hu]))
  obtain ⟨hl1, hl2⟩ := hds (fun u hu => hsub u (by simp [reachL, hu]))
  constructor
  · intro parent
    simp only [cookList]
    split
    · exact hl1 parent
    · exact stays_seq hd1 (hl1 parent)
  · cases d with
    | mk i pre dd =>
      simp only [bidDeps]
      split
      · exact stays_seq hd1 hl2
      · exact stays_seq hd2 hl2

theorem nstep_mk {cfg : Cfg} {T : Step} {S : St} (H : NHyp E dev Γ cfg T S) (i : Info) (pre ds : List Step)
    (hds : NList E cfg T S ds) : NStep E cfg T S (.mk i pre ds) := by
  intro hsub
  have htR : Step.mk i pre ds ∈ reach T := hsub _ (self_mem_reach _)
  have ht : Step.mk i pre ds ∈ subtrees T := (reach_sub_subtrees T).1 _ htR
  have hsubds : ∀ u ∈ reachL ds, u ∈ reach T := fun u hu => hsub u (by simp [reach, hu])
  obtain ⟨hl1, hl2⟩ := hds hsubds
  have wt := stepWF_of_mem H.wf ht
  obtain ⟨hdone, hset⟩ := H.stable _ htR
  have hdepsDone : ∀ d ∈ ds, Done E d S := fun d hd => (H.stable d (hsubds d (mem_reachL_of_mem hd))).1
  refine ⟨?_, hl2⟩
  simp only [cookStep]
  apply stays_wasAlreadyRun
  intro b
  cases b with
  | true => simp only [if_true]; exact stays_pure
  | false =>
    simp only [Bool.false_eq_true, if_false]
    cases hk : i.sig.kind with
    | checkout =>
      simp only []
      apply stays_seq (hl1 i.pkg)
      apply stays_wasAlreadyRun
      intro b2
      cases b2 with
      | true => simp only [if_true]; exact stays_pure
      | false =>
        simp only [Bool.false_eq_true, if_false]
        refine stays_seq ?_ (stays_setAlreadyRun _ _ _)
        intro r hr
        have hpre : pre = [] := by
          have := (H.wf.pre _ ht).1 (by simp [Step.kind, Step.info, hk])
          simpa [Step.pre] using this
        subst hpre
        simp only [Settled, Step.info, Step.pre, Step.deps, hk] at hset
        obtain ⟨⟨bo, hdir⟩, hin, hres, hnd⟩ := hset
        obtain ⟨s1, s2, s3, s4, s5⟩ := hr.same i.path
        have hd' : r.st.disk i.path = some (value E (.mk i [] ds)) := by rw [s5]; exact hdone.1
        have hres' : r.st.results i.path = some (.hash (E.H (value E (.mk i [] ds)))) := by rw [s1]; exact hdone.2
        cases hdet : i.det with
        | true =>
          have := cookCheckout_skip (E := E) cfg H.force i ds r _ hdet hd' bo (by rw [s3]; exact hdir)
            (by rw [s2, same_resultsOf hr.same]; exact hin) hres'
          refine wp_mono _ _ _ _ _ _ ?_ (fun _ hx => hx) this
          intro _ r' he; rw [he]; exact hr
        | false =>
          obtain ⟨hdirF, hvid⟩ := hnd hdet
          have hco := wt.co (by simp [Step.kind, Step.info, hk])
          have hf : FunScm i.scms := by
            have := hco.funscm; rw [← hco.scms] at this; simpa [Step.info] using this
          have := cookCheckout_rerun (E := E) cfg i ds r _ hdet hd' hf (acyc_of_wf wt)
            (by rw [s3, same_resultsOf hr.same]; exact hdirF)
            (by rw [s2, same_resultsOf hr.same]; exact hin) hres'
            (by rw [s4, same_ivid hr.same]; exact hvid)
            (by
              intro c' hc'
              rw [same_contentsOf hr.same, contentsOf_done hdepsDone] at hc'
              exact value_of_ran H.sem i hk ds c' _ hc')
          refine wp_mono _ _ _ _ _ _ ?_ (fun _ hx => hx) this
          intro _ r' ⟨hs', he'⟩
          exact ⟨hr.same.trans hs', quiet_extends_some ht (by simp [Step.kind, Step.info, hk]) (by simpa [Step.info] using hdet)
            hr.quiet he'⟩
    | build =>
      simp only [Bool.not_false, if_true]
      apply stays_seq (hl1 i.pkg)
      apply stays_wasAlreadyRun
      intro b2
      cases b2 with
      | true => simp only [if_true]; exact stays_pure
      | false =>
        simp only [Bool.false_eq_true, if_false]
        refine stays_seq hl2 (stays_seq ?_ (stays_setAlreadyRun _ _ _))
        intro r hr
        simp only [Settled, Step.info, Step.pre, Step.deps, hk] at hset
        obtain ⟨hdir, hin⟩ := hset
        obtain ⟨s1, s2, s3, s4, s5⟩ := hr.same i.path
        have := cookBuild_skip (E := E) cfg H.force i ds r (value E (.mk i pre ds)) (by rw [s5]; exact hdone.1)
          (by rw [s3, same_ivid hr.same]; exact hdir) (by rw [s2, same_inputHashes hr.same]; exact hin)
          (by rw [s1]; exact hdone.2)
        refine wp_mono _ _ _ _ _ _ ?_ (fun _ hx => hx) this
        intro _ r' ⟨hs', he'⟩
        exact ⟨hr.same.trans hs', quiet_extends_none hr.quiet he'⟩
    | package =>
      simp only [Bool.not_false, if_true]
      simp only [Settled, Step.info, Step.pre, Step.deps, hk] at hset
      obtain ⟨hdir, hin⟩ := hset
      have hprep : Stays E cfg T S (preparePackage i ds) := by
        intro r hr
        obtain ⟨s1, s2, s3, s4, s5⟩ := hr.same i.path
        have := preparePackage_skip i ds r (value E (.mk i pre ds)) (by rw [s5]; exact hdone.1) (by rw [s3]; exact hdir)
        refine wp_mono _ _ _ _ _ _ ?_ (fun _ hx => hx) this
        intro _ r' he; rw [he]; exact hr
      apply stays_seq hprep
      apply stays_seq hl2
      apply stays_seq (hl1 i.pkg)
      apply stays_wasAlreadyRun
      intro b2
      cases b2 with
      | true => simp only [if_true]; exact stays_pure
      | false =>
        simp only [Bool.false_eq_true, if_false]
        refine stays_seq ?_ (stays_setAlreadyRun _ _ _)
        intro r hr
        obtain ⟨s1, s2, s3, s4, s5⟩ := hr.same i.path
        have := cookPackage_skip (E := E) cfg H.force i pre ds r (value E (.mk i pre ds)) (by rw [s5]; exact hdone.1)
          (by rw [s2, same_inputHashes hr.same]; exact hin)
        refine wp_mono _ _ _ _ _ _ ?_ (fun _ hx => hx) this
        intro _ r' he; rw [he]; exact hr

theorem nstep_all {cfg : Cfg} {T : Step} {S : St} (H : NHyp E dev Γ cfg T S) (t : Step) : NStep E cfg T S t :=
  Step.rec (motive_1 := fun t => NStep E cfg T S t) (motive_2 := fun ds => NList E cfg T S ds)
    (fun i pre ds _ hds => nstep_mk H i pre ds hds)
    (nlist_nil cfg T S)
    (fun d ds hd hds => nlist_cons cfg T S d ds hd hds)
    t

end Builder
