import BobModel.Proofs.C06Order4
/-
Ordering invariants of the scheduler model, part 5: script start, script end and the recording of a run
preserve `OnceInv`; `OnceInv` holds in every reachable configuration (**once**).
-/
namespace Sched
open JobSem

theorem WsStatus.cases4 (s : WsStatus) : s = .idle ∨ s = .running ∨ s = .ok ∨ s = .failed := by
  cases s <;> simp

/-! ### a script starts -/

theorem OnceInv.runStep {P : Project} {cfg : Cfg} {st st' : St} {t s : Nat} {rest : List Op}
    (hi : OnceInv P st) (hl : LockInv P st) (hops : (st.task t).ops = .run s :: rest)
    (h : stepTask P cfg st t = some st') : OnceInv P st' := by
  have ht := task_lt hops
  have hshape := hi.shape t
  rw [hops] at hshape
  have hsecT : (Op.run s).section? P = some (P.info s).path := rfl
  have hmemT : Op.run s ∈ (st.task t).ops := by rw [hops]; simp
  -- the workspace is neither running nor successfully built
  have hnr : statusOf P (P.info s).path .idle st.trace ≠ .running := by
    intro hc
    obtain ⟨i, s', r, rest', ho, hp⟩ := hi.runningRw _ hc
    have hne : i ≠ t := by intro e; subst e; rw [hops] at ho; cases ho
    exact hl.excl hne (o := .runWait s' r) (by rw [ho]; simp) (by simp [Op.section?, hp]) hmemT hsecT
  have hno : statusOf P (P.info s).path .idle st.trace ≠ .ok := by
    intro hc
    rcases hi.okRan _ hc with hr | ⟨i, s', rest', ho, hp⟩
    · exact hi.fresh t s (Or.inl hmemT) hr
    · have hne : i ≠ t := by intro e; subst e; rw [hops] at ho; cases ho
      exact hl.excl hne (o := .setRun s' false) (by rw [ho]; simp) (by simp [Op.section?, hp]) hmemT hsecT
  unfold Sched.stepTask at h
  simp only at h
  rw [hops] at h
  simp only at h
  cases h
  refine hi.update (g := st.emit (.start t s)) (GrowT.same rfl) ht _ ?_ ?_ hi.wv ?_ ?_ ?_ ?_ ?_ ?_ ?_
  · intro o ho s' hs
    simp only [List.mem_cons] at ho
    rcases ho with e | e
    · subst e
      exact hi.valid t (.run s) hmemT s' (by simpa [Op.relStep] using hs)
    · exact hi.valid t o (by rw [hops]; exact List.mem_cons_of_mem _ e) s' hs
  · simpa [secShape] using hshape
  · intro s' hm
    refine hi.fresh t s' ?_
    rw [hops]
    rcases hm with hm | hm
    · left; simp at hm; simp [hm]
    · right; simp at hm; simp [hm]
  · intro i _ s' hm; exact hi.fresh i s' hm
  · intro p
    simp only [emit_trace]
    by_cases hp : (P.info s).path = p
    · rw [legal_start_eq P p _ t s hp, hi.legal p]
      subst hp
      rcases WsStatus.cases4 (statusOf P (P.info s).path .idle st.trace) with e | e | e | e
      · simp [e]
      · exact absurd e hnr
      · exact absurd e hno
      · simp [e]
    · rw [legal_start_ne P p _ t s hp]; exact hi.legal p
  · intro i s' r rest' _ ho
    simp only [emit_trace]
    by_cases hp : (P.info s).path = (P.info s').path
    · exact status_start_eq P _ _ t s hp
    · rw [status_start_ne P _ _ t s hp]; exact hi.rwRunning i s' r rest' ho
  · intro s' r rest' ho
    simp only [List.cons.injEq, Op.runWait.injEq] at ho
    obtain ⟨⟨e, _⟩, _⟩ := ho
    subst e
    exact status_start_eq P _ _ t s rfl
  · intro p hp
    simp only [emit_trace] at hp
    by_cases hpp : (P.info s).path = p
    · exact Or.inr ⟨s, none, rest, rfl, hpp⟩
    · rw [status_start_ne P p _ t s hpp] at hp
      obtain ⟨i, s', r, rest', ho, hq⟩ := hi.runningRw p hp
      refine Or.inl ⟨i, s', r, rest', ?_, ho, hq⟩
      intro e; subst e; rw [hops] at ho; cases ho
  · intro p hp
    simp only [emit_trace] at hp
    by_cases hpp : (P.info s).path = p
    · rw [status_start_eq P p _ t s hpp] at hp; cases hp
    · rw [status_start_ne P p _ t s hpp] at hp
      rcases hi.okRan p hp with hr | ⟨i, s', rest', ho, hq⟩
      · exact Or.inl hr
      · refine Or.inr (Or.inl ⟨i, s', rest', ?_, ho, hq⟩)
        intro e; subst e; rw [hops] at ho; cases ho

/-! ### a script ends -/

theorem OnceInv.finStep {P : Project} {st g : St} {t s : Nat} {r : Option Bool} {rest : List Op} (ok : Bool)
    (hi : OnceInv P st) (hl : LockInv P st) (hops : (st.task t).ops = .runWait s r :: rest)
    (hg : g.tasks = st.tasks) (hwr : g.wasRun = st.wasRun) (htr : g.trace = st.trace ++ [.fin t s ok])
    (x' : Task) (hsub : ∀ o ∈ x'.ops, o ∈ rest) (hS : secShape P x'.ops = true)
    (hhead : ok = true → x'.ops = rest) (hfail : ok = false → ∀ s' rest', x'.ops ≠ .setRun s' false :: rest') :
    OnceInv P (g.setTask t x') := by
  have ht := task_lt hops
  have hshape := hi.shape t
  rw [hops] at hshape
  have hsecT : (Op.runWait s r).section? P = some (P.info s).path := rfl
  have hmemT : Op.runWait s r ∈ (st.task t).ops := by rw [hops]; simp
  have hrun := hi.rwRunning t s r rest hops
  refine hi.update (GrowT.same hg) ht x' ?_ hS (by rw [hwr]; exact hi.wv) ?_ ?_ ?_ ?_ ?_ ?_ ?_
  · intro o ho s' hs
    exact hi.valid t o (by rw [hops]; exact List.mem_cons_of_mem _ (hsub o ho)) s' hs
  · intro s' hm
    rw [hwr]
    refine hi.fresh t s' ?_
    rw [hops]
    rcases hm with hm | hm
    · exact Or.inl (List.mem_cons_of_mem _ (hsub _ hm))
    · exact Or.inr (List.mem_cons_of_mem _ (hsub _ hm))
  · intro i _ s' hm; rw [hwr]; exact hi.fresh i s' hm
  · intro p
    rw [htr]
    by_cases hp : (P.info s).path = p
    · rw [legal_fin_eq P p _ t s ok hp, hi.legal p]
      subst hp
      simp [hrun]
    · rw [legal_fin_ne P p _ t s ok hp]; exact hi.legal p
  · intro i s' r' rest' hne ho
    rw [htr]
    by_cases hp : (P.info s).path = (P.info s').path
    · exfalso
      exact hl.excl hne (o := .runWait s' r') (by rw [ho]; simp) (by simp [Op.section?, hp]) hmemT hsecT
    · rw [status_fin_ne P _ _ t s ok hp]; exact hi.rwRunning i s' r' rest' ho
  · intro s' r' rest' ho
    exfalso
    exact rest_no_runWait hl hops s' r' (hsub _ (by rw [ho]; simp))
  · intro p hp
    rw [htr] at hp
    by_cases hpp : (P.info s).path = p
    · rw [status_fin_eq P p _ t s ok hpp] at hp
      cases ok <;> simp at hp
    · rw [status_fin_ne P p _ t s ok hpp] at hp
      obtain ⟨i, s', r', rest', ho, hq⟩ := hi.runningRw p hp
      refine Or.inl ⟨i, s', r', rest', ?_, ho, hq⟩
      intro e; subst e; rw [hops] at ho; cases ho
      exact hpp hq
  · intro p hp
    rw [htr] at hp
    by_cases hpp : (P.info s).path = p
    · rw [status_fin_eq P p _ t s ok hpp] at hp
      cases ok with
      | false => simp at hp
      | true =>
        right; right
        have e := hhead rfl
        cases hr : rest with
        | nil => rw [hr] at hshape; simp [secShape] at hshape
        | cons a r1 =>
          cases r1 with
          | nil => rw [hr] at hshape; simp [secShape] at hshape
          | cons b r2 =>
            rw [hr] at hshape
            simp only [secShape, List.take_succ_cons, List.take_zero, Bool.and_eq_true, beq_iff_eq, List.cons.injEq,
              and_true] at hshape
            exact ⟨s, b :: r2, by rw [e, hr, hshape.1.1], hpp⟩
    · rw [status_fin_ne P p _ t s ok hpp] at hp
      rcases hi.okRan p hp with hr | ⟨i, s', rest', ho, hq⟩
      · exact Or.inl (by rw [hwr]; exact hr)
      · refine Or.inr (Or.inl ⟨i, s', rest', ?_, ho, hq⟩)
        intro e; subst e; rw [hops] at ho; cases ho

theorem OnceInv.runWaitStep {P : Project} {cfg : Cfg} {st st' : St} {t s : Nat} {r : Option Bool} {rest : List Op}
    (hi : OnceInv P st) (hl : LockInv P st) (hops : (st.task t).ops = .runWait s r :: rest)
    (h : stepTask P cfg st t = some st') : OnceInv P st' := by
  have hSr := secShape_tail (by rw [← hops]; exact hi.shape t : secShape P (_ :: rest) = true)
  unfold Sched.stepTask at h
  simp only at h
  rw [hops] at h
  simp only at h
  split at h
  · cases h
  · cases h
    exact hi.finStep (g := ({ st with disk := insert (P.info s).path (P.run s (inputs P st s)) st.disk } : St).emit (.fin t s true)) true hl hops rfl rfl rfl
      { kind := (st.task t).kind, ops := rest, err := (st.task t).err }
      (fun o ho => ho) hSr (fun _ => rfl) (by simp)
  · cases h
    refine hi.finStep (g := ({ st with disk := insert (P.info s).path (P.junk s) st.disk } : St).emit (.fin t s false)) false hl hops rfl rfl rfl
      (Sched.raise (st.task t) Err.build rest)
      (fun o ho => (List.mem_filter.mp ho).1) (secShape_filter P rest) (by simp) ?_
    intro _ s' rest' hc
    have hm : Op.setRun s' false ∈ (Sched.raise (st.task t) Err.build rest).ops := by rw [hc]; simp
    have := (List.mem_filter.mp hm).2
    simp [Op.isFin] at this

/-! ### a run is recorded -/

theorem OnceInv.setRunStep {P : Project} {cfg : Cfg} {st st' : St} {t s : Nat} {sk : Bool} {rest : List Op}
    (hi : OnceInv P st) (hl : LockInv P st) (hops : (st.task t).ops = .setRun s sk :: rest)
    (h : stepTask P cfg st t = some st') : OnceInv P st' := by
  have ht := task_lt hops
  have hshape := hi.shape t
  rw [hops] at hshape
  have hSr := secShape_tail hshape
  have hval : (P.info s).valid = true := hi.valid t (.setRun s sk) (by rw [hops]; simp) s rfl
  have hsecT : (Op.setRun s sk).section? P = some (P.info s).path := rfl
  have hmemT : Op.setRun s sk ∈ (st.task t).ops := by rw [hops]; simp
  obtain ⟨r', hr'⟩ : ∃ r', rest = .unlock (P.info s).path :: r' := by
    cases rest with
    | nil => simp [secShape] at hshape
    | cons a r' =>
      simp only [secShape, List.head?_cons, Bool.and_eq_true, beq_iff_eq, Option.some.injEq] at hshape
      exact ⟨r', by rw [hshape.1]⟩
  subst hr'
  unfold Sched.stepTask at h
  simp only at h
  rw [hops] at h
  simp only at h
  cases h
  have hst : ∀ p, statusOf P p .idle (st.trace ++ [Ev.setRun t s sk]) = statusOf P p .idle st.trace := by
    intro p; rw [statusOf_append]; simp [statusOf]
  have hsingle : ∀ o' ∈ Op.unlock (P.info s).path :: r', o'.section? P = some (P.info s).path → False := by
    intro o' ho' hs'
    simp only [List.mem_cons] at ho'
    rcases ho' with e | e
    · subst e; simp [Op.section?] at hs'
    · exact hl.single hops e hs'
  refine hi.update (g := ({ st with wasRun := insert (P.info s).path ((P.info s).vid, sk) st.wasRun } : St).emit
      (.setRun t s sk)) (GrowT.same rfl) ht _ ?_ hSr (hi.wv.insert s sk hval) ?_ ?_ ?_ ?_ ?_ ?_ ?_
  · intro o ho s' hs
    exact hi.valid t o (by rw [hops]; exact List.mem_cons_of_mem _ ho) s' hs
  · intro s' hm
    simp only [emit_wasRun]
    by_cases hp : (P.info s').path = (P.info s).path
    · exfalso
      rcases hm with hm | hm
      · exact hsingle _ hm (by simp [Op.section?, hp])
      · exact hsingle _ hm (by simp [Op.section?, hp])
    · rw [RanAt_insert_ne _ hp]
      refine hi.fresh t s' ?_
      rw [hops]
      rcases hm with hm | hm
      · exact Or.inl (List.mem_cons_of_mem _ hm)
      · exact Or.inr (List.mem_cons_of_mem _ hm)
  · intro i hne s' hm
    simp only [emit_wasRun]
    by_cases hp : (P.info s').path = (P.info s).path
    · exfalso
      rcases hm with hm | hm
      · exact hl.excl hne hm (by simp [Op.section?, hp]) hmemT hsecT
      · exact hl.excl hne hm (by simp [Op.section?, hp]) hmemT hsecT
    · rw [RanAt_insert_ne _ hp]; exact hi.fresh i s' hm
  · intro p
    simp only [emit_trace]
    rw [legalFrom_append, hi.legal p]; simp [legalFrom]
  · intro i s' r rest' _ ho
    simp only [emit_trace]
    rw [hst]; exact hi.rwRunning i s' r rest' ho
  · intro s' r rest' ho
    exfalso
    have ho' : Op.unlock (P.info s).path :: r' = Op.runWait s' r :: rest' := ho
    exact rest_no_runWait hl hops s' r (by rw [ho']; simp)
  · intro p hp
    simp only [emit_trace] at hp
    rw [hst] at hp
    obtain ⟨i, s', r, rest', ho, hq⟩ := hi.runningRw p hp
    refine Or.inl ⟨i, s', r, rest', ?_, ho, hq⟩
    intro e; subst e; rw [hops] at ho; cases ho
  · intro p hp
    simp only [emit_trace] at hp
    rw [hst] at hp
    simp only [emit_wasRun]
    have hself : sk = false → RanAt (insert (P.info s).path ((P.info s).vid, sk) st.wasRun) (P.info s).path := by
      intro e; subst e; exact ⟨_, lookup_insert_self _ _ _⟩
    rcases hi.okRan p hp with hr | ⟨i, s', rest', ho, hq⟩
    · by_cases hpp : p = (P.info s).path
      · subst hpp
        cases sk with
        | false => exact Or.inl (hself rfl)
        | true => exact absurd hr (hi.fresh t s (Or.inr hmemT))
      · exact Or.inl ((RanAt_insert_ne _ hpp).mpr hr)
    · by_cases hit : i = t
      · subst hit
        rw [hops] at ho
        simp only [List.cons.injEq, Op.setRun.injEq] at ho
        obtain ⟨⟨e1, e2⟩, _⟩ := ho
        subst e1; subst e2
        rw [← hq]
        exact Or.inl (hself rfl)
      · exact Or.inr (Or.inl ⟨i, s', rest', hit, ho, hq⟩)

/-! ### all steps -/

theorem OnceInv.stepTask {P : Project} {cfg : Cfg} {st st' : St} {t : Nat}
    (hpv : PathVid P) (hi : OnceInv P st) (hwf : ∀ x ∈ st.tasks, x.wf = true) (hl : LockInv P st)
    (h : stepTask P cfg st t = some st') : OnceInv P st' := by
  cases hops : (st.task t).ops with
  | nil => simp [Sched.stepTask, hops] at h
  | cons op rest =>
    by_cases hsp : op.special = true
    · cases op <;> simp [Op.special] at hsp
      case lock s co dl => exact hi.lockStep hl hops h
      case lockWait s co dl => exact hi.lockWaitStep hl hops h
      case underLock s co => exact hi.underLockStep hpv hl hops h
      case run s => exact hi.runStep hl hops h
      case runWait s r => exact hi.runWaitStep hl hops h
      case setRun s sk => exact hi.setRunStep hl hops h
    · have hsp' : op.special = false := by simpa using hsp
      obtain ⟨evs, he, hn⟩ := stepTask_trace h
      have hq : ∀ e ∈ evs, e.isStart = false ∧ e.isFin = false := by
        cases hn with
        | quiet _ hq => exact fun e he => quiet_noStartFin (hq e he)
        | start s r ho => rw [hops] at ho; cases ho; simp [Op.special] at hsp'
        | fin s ok r ho => rw [hops] at ho; cases ho; simp [Op.special] at hsp'
        | setRun s sk r ho => rw [hops] at ho; cases ho; simp [Op.special] at hsp'
      exact hi.inertStep hl hops hsp' ⟨evs, he, hq⟩ (stepTask_inert hpv hi.wv hwf hops hsp' h)

theorem OnceInv.of_eq {P : Project} {st st' : St} (hi : OnceInv P st) (h1 : st'.tasks = st.tasks)
    (h2 : st'.wasRun = st.wasRun) (h3 : st'.trace = st.trace) : OnceInv P st' := by
  have ht : ∀ i, st'.task i = st.task i := fun i => by simp [St.task, h1]
  refine ⟨?_, ?_, ?_, ?_, ?_, ?_, ?_, ?_⟩
  · intro i; rw [ht]; exact hi.valid i
  · rw [h2]; exact hi.wv
  · intro i; rw [ht]; exact hi.shape i
  · rw [h3]; exact hi.legal
  · intro i; rw [ht, h3]; exact hi.rwRunning i
  · intro p; rw [h3]; intro hp
    obtain ⟨i, s, r, rest, ho, hq⟩ := hi.runningRw p hp
    exact ⟨i, s, r, rest, by rw [ht]; exact ho, hq⟩
  · intro p; rw [h3, h2]; intro hp
    rcases hi.okRan p hp with h | ⟨i, s, rest, ho, hq⟩
    · exact Or.inl h
    · exact Or.inr ⟨i, s, rest, by rw [ht]; exact ho, hq⟩
  · intro i; rw [ht, h2]; exact hi.fresh i

theorem OnceInv.step {P : Project} {cfg : Cfg} {st st' : St} {c : Choice}
    (hpv : PathVid P) (hi : OnceInv P st) (hwf : ∀ x ∈ st.tasks, x.wf = true) (hl : LockInv P st)
    (h : step P cfg st c = some st') : OnceInv P st' := by
  cases c with
  | task t => exact hi.stepTask hpv hwf hl h
  | finish t ok =>
    simp only [Sched.step, finishScript] at h
    split at h
    · rename_i s rest hops
      cases h
      have ht := task_lt hops
      have hshape := hi.shape t
      rw [hops] at hshape
      refine hi.update (g := st) (GrowT.same rfl) ht _ ?_ ?_ hi.wv ?_ ?_ hi.legal ?_ ?_ ?_ ?_
      · intro o ho s' hs
        simp only [List.mem_cons] at ho
        rcases ho with e | e
        · subst e
          exact hi.valid t (.runWait s none) (by rw [hops]; simp) s' (by simpa [Op.relStep] using hs)
        · exact hi.valid t o (by rw [hops]; exact List.mem_cons_of_mem _ e) s' hs
      · simpa [secShape] using hshape
      · intro s' hm
        refine hi.fresh t s' ?_
        rw [hops]
        rcases hm with hm | hm
        · left; simp at hm; simp [hm]
        · right; simp at hm; simp [hm]
      · intro i _ s' hm; exact hi.fresh i s' hm
      · intro i s' r rest' _ ho; exact hi.rwRunning i s' r rest' ho
      · intro s' r rest' ho
        simp only [List.cons.injEq, Op.runWait.injEq] at ho
        obtain ⟨⟨e, _⟩, _⟩ := ho
        subst e
        exact hi.rwRunning t s none rest hops
      · intro p hp
        obtain ⟨i, s', r, rest', ho, hq⟩ := hi.runningRw p hp
        by_cases hit : i = t
        · subst hit
          rw [hops] at ho; cases ho
          exact Or.inr ⟨s, some ok, rest, rfl, hq⟩
        · exact Or.inl ⟨i, s', r, rest', hit, ho, hq⟩
      · intro p hp
        rcases hi.okRan p hp with hr | ⟨i, s', rest', ho, hq⟩
        · exact Or.inl hr
        · refine Or.inr (Or.inl ⟨i, s', rest', ?_, ho, hq⟩)
          intro e; subst e; rw [hops] at ho; cases ho
    · cases h
  | callback =>
    simp only [Sched.step] at h
    split at h
    · split at h <;> cases h
      exact hi.of_eq rfl rfl rfl
    · cases h
  | envTake =>
    simp only [Sched.step] at h
    split at h
    · rename_i s hs
      cases he : s.envTake with
      | none => simp [he] at h
      | some s' =>
        simp only [he, Option.map_some, Option.some.injEq] at h
        subst h
        exact hi.of_eq rfl rfl rfl
    · cases h
  | envReturn =>
    simp only [Sched.step] at h
    split at h
    · rename_i s hs
      cases he : s.envReturn with
      | none => simp [he] at h
      | some s' =>
        simp only [he, Option.map_some, Option.some.injEq] at h
        subst h
        exact hi.of_eq rfl rfl rfl
    · cases h

theorem default_task_ops : (default : Task).ops = [] := rfl

theorem OnceInv.init (P : Project) (cfg : Cfg) (r0 : Runners) : OnceInv P (init cfg r0) := by
  have hops : ∀ i, ∀ o ∈ ((Sched.init cfg r0).task i).ops, o = .spawnTop cfg.targets ∨ o = .wrapEnd := by
    intro i o ho
    cases i with
    | zero => simpa [St.task, Sched.init] using ho
    | succ k => simp [St.task, Sched.init, default_task_ops] at ho
  have hhead : ∀ i o r, ((Sched.init cfg r0).task i).ops = o :: r → o = .spawnTop cfg.targets := by
    intro i o r ho
    cases i with
    | zero => simp [St.task, Sched.init] at ho; exact ho.1.symm
    | succ k => simp [St.task, Sched.init, default_task_ops] at ho
  refine ⟨?_, ?_, ?_, ?_, ?_, ?_, ?_, ?_⟩
  · intro i o ho s hs
    rcases hops i o ho with e | e <;> subst e <;> simp [Op.relStep] at hs
  · intro p v sk hl
    simp [Sched.init, lookup] at hl
  · intro i
    cases i with
    | zero => simp [St.task, Sched.init, secShape]
    | succ k => simp [St.task, Sched.init, secShape, default_task_ops]
  · intro p; simp [Sched.init, legalFrom]
  · intro i s r rest ho
    have := hhead i _ _ ho; cases this
  · intro p hp
    simp [Sched.init, statusOf] at hp
  · intro p hp
    simp [Sched.init, statusOf] at hp
  · intro i s hm
    rcases hm with hm | hm <;> rcases hops i _ hm with e | e <;> cases e

theorem OnceInv.reach {n : Nat} {P : Project} {cfg : Cfg} {r0 : Runners} {st : St} (hpv : PathVid P)
    (hr : GoodRunners n r0) (h : Reach P cfg r0 st) : OnceInv P st := by
  induction h with
  | init => exact OnceInv.init P cfg r0
  | step c hprev hs ih => exact ih.step hpv (TokInv.reach hr hprev).wf (LockInv.reach hr hprev) hs

/-- **once**, for every workspace -/
theorem once_all {n : Nat} {P : Project} {cfg : Cfg} {r0 : Runners} {st : St} (hpv : PathVid P)
    (hr : GoodRunners n r0) (h : Reach P cfg r0 st) : onceLegal P st = true := by
  unfold onceLegal
  rw [List.all_eq_true]
  intro p _
  exact (OnceInv.reach hpv hr h).legal p

/-- every prefix-closed execution of a schedule stays reachable (used by the non-vacuity examples) -/
theorem reach_exec {P : Project} {cfg : Cfg} {r0 : Runners} {st : St} (h : Reach P cfg r0 st) (cs : List Choice) :
    Reach P cfg r0 (exec P cfg cs st) := by
  induction cs generalizing st with
  | nil => exact h
  | cons c r ih =>
    simp only [exec]
    cases hs : step P cfg st c with
    | none => simpa [hs] using ih h
    | some st' => simpa [hs] using ih (Reach.step c h hs)

end Sched
