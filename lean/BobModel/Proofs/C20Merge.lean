import BobModel.Proofs.C20AddChilds
/-
C20: the invariant of the merge phase of `JobNameCalculator.sanitize` and its preservation by one
guarded merge (`mergeInto` when `comparable` is false).
-/
namespace Jenkins

/-! ### the quotient graph, as a relation on variant ids -/

def SameJobV (m : Nat → Option Nat) (a b : Nat) : Prop := ∃ k, m a = some k ∧ m b = some k

/-- one step in the quotient graph: stay inside the job, or follow a dependency -/
def EdgeV (g : Graph) (m : Nat → Option Nat) (a b : Nat) : Prop :=
  SameJobV m a b ∨ (m a ≠ none ∧ b ∈ g.deps a)

abbrev QReachV (g : Graph) (m : Nat → Option Nat) : Nat → Nat → Prop := Reach (EdgeV g m)

theorem SameJobV.symm {m : Nat → Option Nat} {a b : Nat} (h : SameJobV m a b) : SameJobV m b a := by
  obtain ⟨k, h1, h2⟩ := h; exact ⟨k, h2, h1⟩

theorem SameJobV.reach {g : Graph} {m : Nat → Option Nat} {a b : Nat} (h : SameJobV m a b) : QReachV g m a b :=
  Reach.single (Or.inl h)

/-- the invariant of the merge phase -/
structure Inv (g : Graph) (n : Nat) (s : St) : Prop where
  lt : ∀ v k, s.v2j v = some k → v < n
  rep : ∀ v k, s.v2j v = some k → s.v2j k = some k
  closed : ∀ v, s.v2j v ≠ none → ∀ d ∈ g.deps v, s.v2j d ≠ none
  pkgs : ∀ k, s.v2j k = some k → ∀ w, w ∈ (s.job k).pkgs ↔ s.v2j w = some k
  parents : ∀ k, s.v2j k = some k → ∀ p, p ∈ (s.job k).parents ↔
      (s.v2j p ≠ none ∧ ∃ w, s.v2j w = some k ∧ w ∈ g.deps p)
  childs : ∀ k, s.v2j k = some k → ∀ w, w ∈ (s.job k).childs ↔ QReachV g s.v2j k w
  acyclic : ∀ v w, QReachV g s.v2j v w → QReachV g s.v2j w v → s.v2j v ≠ none → SameJobV s.v2j v w

section graph
variable {g : Graph} {m : Nat → Option Nat}

theorem known_of_edge (hc : ∀ v, m v ≠ none → ∀ d ∈ g.deps v, m d ≠ none) {a b : Nat}
    (e : EdgeV g m a b) (ha : m a ≠ none) : m b ≠ none := by
  rcases e with ⟨k, _, h2⟩ | ⟨_, hd⟩
  · rw [h2]; simp
  · exact hc a ha b hd

theorem known_of_reach (hc : ∀ v, m v ≠ none → ∀ d ∈ g.deps v, m d ≠ none) {a b : Nat}
    (h : QReachV g m a b) (ha : m a ≠ none) : m b ≠ none :=
  Reach.fwd_closed (G := fun x => m x ≠ none) h ha (fun _ _ e hu => known_of_edge hc e hu)

/-- the `vidToJob` map after collapsing job `j` into job `i` -/
def mrg (m : Nat → Option Nat) (i j : Nat) : Nat → Option Nat :=
  fun k => if m k = some j then some i else m k

def InIJ (m : Nat → Option Nat) (i j a : Nat) : Prop := m a = some i ∨ m a = some j

theorem mrg_known {i j a : Nat} : mrg m i j a ≠ none ↔ m a ≠ none := by
  unfold mrg; split
  · rename_i h; simp [h]
  · exact Iff.rfl

theorem mrg_of_j {i j a : Nat} (h : m a = some j) : mrg m i j a = some i := by simp [mrg, h]

theorem mrg_of_ne {i j a : Nat} (h : m a ≠ some j) : mrg m i j a = m a := by simp [mrg, h]

theorem sameJob_mrg {i j : Nat} (hij : i ≠ j) {a b : Nat} :
    SameJobV (mrg m i j) a b ↔ SameJobV m a b ∨ (InIJ m i j a ∧ InIJ m i j b) := by
  unfold SameJobV InIJ
  constructor
  · rintro ⟨k, ha, hb⟩
    by_cases h1 : m a = some j <;> by_cases h2 : m b = some j
    · exact Or.inr ⟨Or.inr h1, Or.inr h2⟩
    · rw [mrg_of_j h1] at ha; rw [mrg_of_ne h2] at hb
      cases ha
      exact Or.inr ⟨Or.inr h1, Or.inl hb⟩
    · rw [mrg_of_ne h1] at ha; rw [mrg_of_j h2] at hb
      cases hb
      exact Or.inr ⟨Or.inl ha, Or.inr h2⟩
    · rw [mrg_of_ne h1] at ha; rw [mrg_of_ne h2] at hb
      exact Or.inl ⟨k, ha, hb⟩
  · rintro (⟨k, ha, hb⟩ | ⟨ha, hb⟩)
    · by_cases hk : k = j
      · subst hk; exact ⟨i, mrg_of_j ha, mrg_of_j hb⟩
      · have h1 : m a ≠ some j := by rw [ha]; simpa using hk
        have h2 : m b ≠ some j := by rw [hb]; simpa using hk
        exact ⟨k, by rw [mrg_of_ne h1]; exact ha, by rw [mrg_of_ne h2]; exact hb⟩
    · refine ⟨i, ?_, ?_⟩
      · rcases ha with h | h
        · have : m a ≠ some j := by rw [h]; simpa using hij
          rw [mrg_of_ne this]; exact h
        · exact mrg_of_j h
      · rcases hb with h | h
        · have : m b ≠ some j := by rw [h]; simpa using hij
          rw [mrg_of_ne this]; exact h
        · exact mrg_of_j h

theorem edge_mrg {i j : Nat} (hij : i ≠ j) {a b : Nat} :
    EdgeV g (mrg m i j) a b ↔ EdgeV g m a b ∨ (InIJ m i j a ∧ InIJ m i j b) := by
  unfold EdgeV
  rw [sameJob_mrg hij, mrg_known]
  constructor
  · rintro ((h | h) | h)
    · exact Or.inl (Or.inl h)
    · exact Or.inr h
    · exact Or.inl (Or.inr h)
  · rintro ((h | h) | h)
    · exact Or.inl (Or.inl h)
    · exact Or.inr h
    · exact Or.inl (Or.inr h)

theorem inIJ_reach_to {i j a : Nat} (hi : m i = some i) (hj : m j = some j) (h : InIJ m i j a) :
    QReachV g m a i ∨ QReachV g m a j := by
  rcases h with h | h
  · exact Or.inl (SameJobV.reach ⟨i, h, hi⟩)
  · exact Or.inr (SameJobV.reach ⟨j, h, hj⟩)

theorem inIJ_reach_from {i j a : Nat} (hi : m i = some i) (hj : m j = some j) (h : InIJ m i j a) :
    QReachV g m i a ∨ QReachV g m j a := by
  rcases h with h | h
  · exact Or.inl (SameJobV.reach ⟨i, hi, h⟩)
  · exact Or.inr (SameJobV.reach ⟨j, hj, h⟩)

/-- reachability after the merge, in terms of reachability before -/
theorem reach_mrg {i j : Nat} (hij : i ≠ j) (hi : m i = some i) (hj : m j = some j) {a b : Nat} :
    QReachV g (mrg m i j) a b ↔
      QReachV g m a b ∨ ((QReachV g m a i ∨ QReachV g m a j) ∧ (QReachV g m i b ∨ QReachV g m j b)) := by
  constructor
  · intro h
    induction h with
    | refl => exact Or.inl (Reach.refl _)
    | @tail b c _ e ih =>
      rcases (edge_mrg hij).mp e with e | ⟨hb, hc⟩
      · rcases ih with ih | ⟨h1, h2⟩
        · exact Or.inl (Reach.tail ih e)
        · exact Or.inr ⟨h1, h2.imp (fun h => Reach.tail h e) (fun h => Reach.tail h e)⟩
      · rcases ih with ih | ⟨h1, _⟩
        · exact Or.inr ⟨(inIJ_reach_to hi hj hb).imp (Reach.trans ih) (Reach.trans ih), inIJ_reach_from hi hj hc⟩
        · exact Or.inr ⟨h1, inIJ_reach_from hi hj hc⟩
  · have up : ∀ x y, QReachV g m x y → QReachV g (mrg m i j) x y :=
      fun x y h => Reach.mono (fun _ _ e => (edge_mrg hij).mpr (Or.inl e)) h
    have hii : InIJ m i j i := Or.inl hi
    have hjj : InIJ m i j j := Or.inr hj
    have eij : QReachV g (mrg m i j) i j := Reach.single ((edge_mrg hij).mpr (Or.inr ⟨hii, hjj⟩))
    have eji : QReachV g (mrg m i j) j i := Reach.single ((edge_mrg hij).mpr (Or.inr ⟨hjj, hii⟩))
    rintro (h | ⟨h1, h2⟩)
    · exact up _ _ h
    · have toi : QReachV g (mrg m i j) a i := by
        rcases h1 with h | h
        · exact up _ _ h
        · exact Reach.trans (up _ _ h) eji
      rcases h2 with h | h
      · exact Reach.trans toi (up _ _ h)
      · exact Reach.trans toi (Reach.trans eij (up _ _ h))

end graph

/-! ### consequences of the invariant -/

section inv
variable {g : Graph} {n : Nat} {s : St}

theorem Inv.known_reach (h : Inv g n s) {a b : Nat} (r : QReachV g s.v2j a b) (ha : s.v2j a ≠ none) :
    s.v2j b ≠ none := known_of_reach h.closed r ha

theorem Inv.pkgs_sub_childs (h : Inv g n s) {k : Nat} (hk : s.v2j k = some k) {w : Nat}
    (hw : w ∈ (s.job k).pkgs) : w ∈ (s.job k).childs :=
  (h.childs k hk w).mpr (SameJobV.reach ⟨k, hk, (h.pkgs k hk w).mp hw⟩)

/-- the test of the merge loop decides reachability in the quotient graph -/
theorem Inv.reaches_iff (h : Inv g n s) {i j : Nat} (hi : s.v2j i = some i) (hj : s.v2j j = some j) :
    reaches s i j = true ↔ QReachV g s.v2j i j := by
  unfold reaches
  rw [subset_iff]
  constructor
  · intro hs
    have : j ∈ (s.job j).pkgs := (h.pkgs j hj j).mpr hj
    exact (h.childs i hi j).mp (hs j (mem_union.mpr (Or.inl this)))
  · intro r x hx
    rw [h.childs i hi]
    rcases mem_union.mp hx with hx | hx
    · exact Reach.trans r (SameJobV.reach ⟨j, hj, (h.pkgs j hj x).mp hx⟩)
    · exact Reach.trans r ((h.childs j hj x).mp hx)

theorem Inv.not_comparable (h : Inv g n s) {i j : Nat} (hi : s.v2j i = some i) (hj : s.v2j j = some j)
    (hc : comparable s i j = false) : ¬ QReachV g s.v2j i j ∧ ¬ QReachV g s.v2j j i := by
  unfold comparable at hc
  simp only [Bool.or_eq_false_iff] at hc
  constructor
  · intro r; have := (h.reaches_iff hi hj).mpr r; rw [hc.1] at this; cases this
  · intro r; have := (h.reaches_iff hj hi).mpr r; rw [hc.2] at this; cases this

end inv

/-! ### one guarded merge keeps the invariant -/

/-- `merge_keeps_acyclic` in the form used below: collapsing two jobs neither of which reaches the other
keeps the quotient graph antisymmetric -/
theorem acyclic_mrg {g : Graph} {m : Nat → Option Nat} {i j : Nat}
    (hc : ∀ v, m v ≠ none → ∀ d ∈ g.deps v, m d ≠ none)
    (hac : ∀ v w, QReachV g m v w → QReachV g m w v → m v ≠ none → SameJobV m v w)
    (hij : i ≠ j) (hi : m i = some i) (hj : m j = some j)
    (nij : ¬ QReachV g m i j) (nji : ¬ QReachV g m j i) :
    ∀ v w, QReachV g (mrg m i j) v w → QReachV g (mrg m i j) w v → mrg m i j v ≠ none →
      SameJobV (mrg m i j) v w := by
  -- a vertex between {i,j} and {i,j} belongs to i or j
  have between : ∀ x, m x ≠ none → (QReachV g m x i ∨ QReachV g m x j) → (QReachV g m i x ∨ QReachV g m j x) →
      InIJ m i j x := by
    intro x hx h1 h2
    rcases h1 with h1 | h1 <;> rcases h2 with h2 | h2
    · obtain ⟨k, hk1, hk2⟩ := hac x i h1 h2 hx
      rw [hi] at hk2; cases hk2; exact Or.inl hk1
    · exact absurd (Reach.trans h2 h1) nji
    · exact absurd (Reach.trans h2 h1) nij
    · obtain ⟨k, hk1, hk2⟩ := hac x j h1 h2 hx
      rw [hj] at hk2; cases hk2; exact Or.inr hk1
  intro v w hvw hwv hv
  have hv' : m v ≠ none := mrg_known.mp hv
  rw [sameJob_mrg hij]
  rcases (reach_mrg hij hi hj).mp hvw with a | ⟨a1, a2⟩ <;> rcases (reach_mrg hij hi hj).mp hwv with b | ⟨b1, b2⟩
  · exact Or.inl (hac v w a b hv')
  · -- v ->* w ->* {i,j} ->* v
    have hw' : m w ≠ none := known_of_reach hc a hv'
    refine Or.inr ⟨between v hv' (b1.imp (Reach.trans a) (Reach.trans a)) b2, between w hw' b1 (b2.imp (fun h => Reach.trans h a) (fun h => Reach.trans h a))⟩
  · have hw' : m w ≠ none := by
      rcases a2 with h | h
      · exact known_of_reach hc h (by rw [hi]; simp)
      · exact known_of_reach hc h (by rw [hj]; simp)
    refine Or.inr ⟨between v hv' a1 (a2.imp (fun h => Reach.trans h b) (fun h => Reach.trans h b)), between w hw' (a1.imp (Reach.trans b) (Reach.trans b)) a2⟩
  · have hw' : m w ≠ none := by
      rcases a2 with h | h
      · exact known_of_reach hc h (by rw [hi]; simp)
      · exact known_of_reach hc h (by rw [hj]; simp)
    exact Or.inr ⟨between v hv' a1 b2, between w hw' b1 a2⟩

end Jenkins

namespace Jenkins

theorem mrg_eq_some {m : Nat → Option Nat} {i j w k : Nat} :
    mrg m i j w = some k ↔ (m w = some j ∧ k = i) ∨ (m w ≠ some j ∧ m w = some k) := by
  by_cases h : m w = some j
  · rw [mrg_of_j h]
    constructor
    · intro e; cases e; exact Or.inl ⟨h, rfl⟩
    · rintro (⟨_, rfl⟩ | ⟨h', _⟩)
      · rfl
      · exact absurd h h'
  · rw [mrg_of_ne h]
    constructor
    · intro e; exact Or.inr ⟨h, e⟩
    · rintro (⟨h', _⟩ | ⟨_, e⟩)
      · exact absurd h' h
      · exact e

/-- `mergeInto` on a state that satisfies the invariant, for two distinct live jobs that are not
comparable: the invariant holds again (`childs_is_reachability` and acyclicity are its fields) -/
theorem inv_mergeInto {g : Graph} {n : Nat} {s : St} {i j : Nat} (h : Inv g n s)
    (hi : s.v2j i = some i) (hj : s.v2j j = some j) (hij : i ≠ j) (hc : comparable s i j = false) :
    Inv g n (mergeInto n i j s) ∧ (mergeInto n i j s).v2j = mrg s.v2j i j ∧
      (mergeInto n i j s).names = s.names := by
  obtain ⟨nij, nji⟩ := h.not_comparable hi hj hc
  -- abbreviations
  let ni : AJob := ⟨union (s.job i).pkgs (s.job j).pkgs, union (s.job i).parents (s.job j).parents,
    union (s.job i).childs (s.job j).childs⟩
  let s1 : St := { s with job := upd s.job i ni }
  let X := union ni.pkgs ni.childs
  let s2 := addChilds (n + 1) ni.parents X s1
  have hs' : mergeInto n i j s = { s2 with v2j := fun k => if (s.job j).pkgs.contains k then some i else s2.v2j k } := rfl
  have hs1i : s1.job i = ni := by simp [s1]
  have hs1o : ∀ k, k ≠ i → s1.job k = s.job k := fun k hk => by simp [s1, upd, hk]
  -- reachability facts about X
  have hXto : ∀ x, x ∈ X → QReachV g s.v2j i x ∨ QReachV g s.v2j j x := by
    intro x hx
    rcases mem_union.mp hx with hx | hx <;> rcases mem_union.mp hx with hx | hx
    · exact Or.inl (SameJobV.reach ⟨i, hi, (h.pkgs i hi x).mp hx⟩)
    · exact Or.inr (SameJobV.reach ⟨j, hj, (h.pkgs j hj x).mp hx⟩)
    · exact Or.inl ((h.childs i hi x).mp hx)
    · exact Or.inr ((h.childs j hj x).mp hx)
  have hXfrom : ∀ x, (QReachV g s.v2j i x ∨ QReachV g s.v2j j x) → x ∈ X := by
    intro x hx
    apply mem_union.mpr; right; apply mem_union.mpr
    exact hx.imp (h.childs i hi x).mpr (h.childs j hj x).mpr
  have up : ∀ x y, QReachV g s.v2j x y → QReachV g (mrg s.v2j i j) x y :=
    fun x y r => (reach_mrg hij hi hj).mpr (Or.inl r)
  have fromI : ∀ x, (QReachV g s.v2j i x ∨ QReachV g s.v2j j x) → QReachV g (mrg s.v2j i j) i x :=
    fun x r => (reach_mrg hij hi hj).mpr (Or.inr ⟨Or.inl (Reach.refl _), r⟩)
  have toI : ∀ x, (QReachV g s.v2j x i ∨ QReachV g s.v2j x j) → QReachV g (mrg s.v2j i j) x i :=
    fun x r => (reach_mrg hij hi hj).mpr (Or.inr ⟨r, Or.inl (Reach.refl _)⟩)
  have live : ∀ v k, s.v2j v = some k → s.v2j k = some k := h.rep
  -- hypotheses of the addChilds specification
  have hb : ∀ v k, s1.v2j v = some k → k < n := fun v k hv => h.lt k k (live v k hv)
  have hcnt : cnt n s1 X < n + 1 := Nat.lt_succ_of_le (cnt_le_n _ _ _)
  have hfull1i : full s1 X i := by
    intro x hx; rw [hs1i]
    exact mem_union.mpr ((hXto x hx).imp (h.childs i hi x).mpr (h.childs j hj x).mpr)
  have hlc : LC s1 X (fun k => k = i) := by
    intro v k hvk hfk hS p hp k' hk'
    have hki : k ≠ i := hS
    have hkl : s.v2j k = some k := live v k hvk
    rw [hs1o k hki] at hp
    obtain ⟨hpk, w, hwk, hwd⟩ := (h.parents k hkl p).mp hp
    have hk'l : s.v2j k' = some k' := live p k' hk'
    -- k reaches i and j
    have hkI : QReachV g s.v2j k i := by
      have : i ∈ X := hXfrom i (Or.inl (Reach.refl _))
      have := hfk i this; rw [hs1o k hki] at this; exact (h.childs k hkl i).mp this
    have hkJ : QReachV g s.v2j k j := by
      have : j ∈ X := hXfrom j (Or.inr (Reach.refl _))
      have := hfk j this; rw [hs1o k hki] at this; exact (h.childs k hkl j).mp this
    have hk'k : QReachV g s.v2j k' k :=
      Reach.trans (SameJobV.reach ⟨k', hk'l, hk'⟩)
        (Reach.trans (Reach.single (Or.inr ⟨hpk, hwd⟩)) (SameJobV.reach ⟨k, hwk, hkl⟩))
    intro x hx
    by_cases hk'i : k' = i
    · subst hk'i; exact hfull1i x hx
    · rw [hs1o k' hk'i, h.childs k' hk'l]
      rcases hXto x hx with r | r
      · exact Reach.trans hk'k (Reach.trans hkI r)
      · exact Reach.trans hk'k (Reach.trans hkJ r)
  let Q : Nat → Prop := fun p => QReachV g (mrg s.v2j i j) p i
  have hQP : ∀ p ∈ ni.parents, Q p := by
    intro p hp
    rcases mem_union.mp hp with hp | hp
    · obtain ⟨hpk, w, hw, hwd⟩ := (h.parents i hi p).mp hp
      exact toI p (Or.inl (Reach.trans (Reach.single (Or.inr ⟨hpk, hwd⟩)) (SameJobV.reach ⟨i, hw, hi⟩)))
    · obtain ⟨hpk, w, hw, hwd⟩ := (h.parents j hj p).mp hp
      exact toI p (Or.inr (Reach.trans (Reach.single (Or.inr ⟨hpk, hwd⟩)) (SameJobV.reach ⟨j, hw, hj⟩)))
  have hQc : ∀ p k, Q p → s1.v2j p = some k → ∀ q ∈ (s1.job k).parents, Q q := by
    intro p k hq hk q hqp
    by_cases hki : k = i
    · subst hki; rw [hs1i] at hqp; exact hQP q hqp
    · rw [hs1o k hki] at hqp
      obtain ⟨hqk, w, hw, hwd⟩ := (h.parents k (live p k hk) q).mp hqp
      exact Reach.trans (up q p (Reach.trans (Reach.single (Or.inr ⟨hqk, hwd⟩)) (SameJobV.reach ⟨k, hw, hk⟩))) hq
  have hAC : ACPost n X (fun k => k = i) Q ni.parents s1 s2 :=
    addChilds_spec n X Q (n + 1) ni.parents s1 _ hb hcnt hlc hQP hQc
  -- the new map
  have hv2 : s2.v2j = s.v2j := hAC.v2j
  have hm' : (mergeInto n i j s).v2j = (mrg s.v2j i j) := by
    rw [hs']; funext k
    show (if (s.job j).pkgs.contains k then some i else s2.v2j k) = mrg s.v2j i j k
    rw [hv2]
    by_cases hk : s.v2j k = some j
    · have : (s.job j).pkgs.contains k = true := by simpa using (h.pkgs j hj k).mpr hk
      rw [this, mrg_of_j hk]; rfl
    · have : (s.job j).pkgs.contains k = false := by
        cases hcn : (s.job j).pkgs.contains k with
        | false => rfl
        | true => exact absurd ((h.pkgs j hj k).mp (by simpa using hcn)) hk
      rw [this, mrg_of_ne hk]; rfl
  have hjob : (mergeInto n i j s).job = s2.job := by rw [hs']
  have hnames : (mergeInto n i j s).names = s.names := by rw [hs']; exact hAC.names
  -- live jobs of the new state
  have live' : ∀ k, (mrg s.v2j i j) k = some k → s.v2j k = some k ∧ k ≠ j := by
    intro k hk
    rcases mrg_eq_some.mp hk with ⟨hkj, hki⟩ | ⟨hkj, hkk⟩
    · subst hki; rw [hi] at hkj; cases hkj; exact absurd rfl hij
    · exact ⟨hkk, fun e => hkj (by rw [e]; exact hj)⟩
  have hm'i : ∀ w, (mrg s.v2j i j) w = some i ↔ (s.v2j w = some i ∨ s.v2j w = some j) := by
    intro w; rw [mrg_eq_some]
    constructor
    · rintro (⟨h1, _⟩ | ⟨_, h2⟩)
      · exact Or.inr h1
      · exact Or.inl h2
    · rintro (h1 | h1)
      · exact Or.inr ⟨by rw [h1]; simpa using hij, h1⟩
      · exact Or.inl ⟨h1, rfl⟩
  have hm'o : ∀ w k, k ≠ i → k ≠ j → ((mrg s.v2j i j) w = some k ↔ s.v2j w = some k) := by
    intro w k hki hkj; rw [mrg_eq_some]
    constructor
    · rintro (⟨_, h2⟩ | ⟨_, h2⟩)
      · exact absurd h2 hki
      · exact h2
    · intro h1; exact Or.inr ⟨by rw [h1]; simpa using hkj, h1⟩
  -- i is full after the propagation
  have hfull2i : full s2 X i := fun x hx => hAC.mono i x (hfull1i x hx)
  -- everything that reaches i in the new graph is full
  have hG : ∀ v, QReachV g (mrg s.v2j i j) v i → ∀ k0, (mrg s.v2j i j) v = some k0 → full s2 X k0 := by
    intro v r
    refine Reach.back_closed (G := fun v => ∀ k0, (mrg s.v2j i j) v = some k0 → full s2 X k0) r ?_ ?_
    · intro k0 hk0
      have : (mrg s.v2j i j) i = some i := (hm'i i).mpr (Or.inl hi)
      rw [this] at hk0; cases hk0; exact hfull2i
    · intro u d e hd ku hku
      rcases e with ⟨k, hu, hdk⟩ | ⟨huk, hdd⟩
      · rw [hu] at hku; cases hku; exact hd _ hdk
      · have huk' : s.v2j u ≠ none := mrg_known.mp huk
        have hdk' : s.v2j d ≠ none := h.closed u huk' d hdd
        obtain ⟨kd0, hkd0⟩ := Option.ne_none_iff_exists'.mp hdk'
        obtain ⟨ku0, hku0⟩ := Option.ne_none_iff_exists'.mp huk'
        have hkd0l := live d kd0 hkd0
        have hup : u ∈ (s.job kd0).parents := (h.parents kd0 hkd0l u).mpr ⟨huk', d, hkd0, hdd⟩
        have hfu0 : full s2 X ku0 := by
          by_cases hkdi : kd0 = i
          · subst hkdi
            exact hAC.startFull u (mem_union.mpr (Or.inl hup)) ku0 hku0
          · by_cases hkdj : kd0 = j
            · subst hkdj
              exact hAC.startFull u (mem_union.mpr (Or.inr hup)) ku0 hku0
            · have hd' : (mrg s.v2j i j) d = some kd0 := (hm'o d kd0 hkdi hkdj).mpr hkd0
              have hfd := hd kd0 hd'
              refine hAC.lc d kd0 (by rw [hv2]; exact hkd0) hfd hkdi u ?_ ku0 (by rw [hv2]; exact hku0)
              rw [hAC.parents, hs1o kd0 hkdi]; exact hup
        rcases mrg_eq_some.mp hku with ⟨_, hkui⟩ | ⟨_, hkuu⟩
        · subst hkui; exact hfull2i
        · rw [hku0] at hkuu; cases hkuu; exact hfu0
  refine ⟨?_, hm', hnames⟩
  constructor
  · -- lt
    intro v k hv; rw [hm'] at hv
    have : s.v2j v ≠ none := mrg_known.mp (by rw [hv]; simp)
    obtain ⟨k0, hk0⟩ := Option.ne_none_iff_exists'.mp this
    exact h.lt v k0 hk0
  · -- rep
    intro v k hv; rw [hm'] at hv ⊢
    rcases mrg_eq_some.mp hv with ⟨_, hki⟩ | ⟨hvj, hvk⟩
    · subst hki; exact (hm'i k).mpr (Or.inl hi)
    · have hkk := live v k hvk
      have hkj : k ≠ j := fun e => hvj (by rw [← e]; exact hvk)
      exact mrg_eq_some.mpr (Or.inr ⟨by rw [hkk]; simpa using hkj, hkk⟩)
  · -- closed
    intro v hv d hd; rw [hm'] at hv ⊢
    exact mrg_known.mpr (h.closed v (mrg_known.mp hv) d hd)
  · -- pkgs
    intro k hk w; rw [hm'] at hk ⊢; rw [hjob, hAC.pkgs]
    obtain ⟨hkk, hkj⟩ := live' k hk
    by_cases hki : k = i
    · subst hki; rw [hs1i, hm'i]
      show w ∈ union _ _ ↔ _
      rw [mem_union, h.pkgs k hi, h.pkgs j hj]
    · rw [hs1o k hki, h.pkgs k hkk, hm'o w k hki hkj]
  · -- parents
    intro k hk p; rw [hm'] at hk ⊢; rw [hjob, hAC.parents]
    obtain ⟨hkk, hkj⟩ := live' k hk
    rw [show ((mrg s.v2j i j) p ≠ none) = (s.v2j p ≠ none) from propext mrg_known]
    by_cases hki : k = i
    · subst hki; rw [hs1i]
      show p ∈ union _ _ ↔ _
      rw [mem_union, h.parents k hi, h.parents j hj]
      constructor
      · rintro (⟨h1, w, hw, hd⟩ | ⟨h1, w, hw, hd⟩)
        · exact ⟨h1, w, (hm'i w).mpr (Or.inl hw), hd⟩
        · exact ⟨h1, w, (hm'i w).mpr (Or.inr hw), hd⟩
      · rintro ⟨h1, w, hw, hd⟩
        rcases (hm'i w).mp hw with hw | hw
        · exact Or.inl ⟨h1, w, hw, hd⟩
        · exact Or.inr ⟨h1, w, hw, hd⟩
    · rw [hs1o k hki, h.parents k hkk]
      constructor
      · rintro ⟨h1, w, hw, hd⟩; exact ⟨h1, w, (hm'o w k hki hkj).mpr hw, hd⟩
      · rintro ⟨h1, w, hw, hd⟩; exact ⟨h1, w, (hm'o w k hki hkj).mp hw, hd⟩
  · -- childs = reachability in the new quotient graph
    intro k hk w; rw [hm'] at hk ⊢; rw [hjob]
    obtain ⟨hkk, hkj⟩ := live' k hk
    constructor
    · intro hw
      rcases hAC.upper k w hw with hw | ⟨hx, p, hq, hp⟩
      · by_cases hki : k = i
        · subst hki; rw [hs1i] at hw
          exact fromI w ((mem_union.mp hw).imp (h.childs k hi w).mp (h.childs j hj w).mp)
        · rw [hs1o k hki] at hw; exact up k w ((h.childs k hkk w).mp hw)
      · have hkp : QReachV g (mrg s.v2j i j) k p := up k p (SameJobV.reach ⟨k, hkk, hp⟩)
        exact Reach.trans hkp (Reach.trans hq (fromI w (hXto w hx)))
    · intro r0
      rcases (reach_mrg hij hi hj).mp r0 with r | ⟨r1, r2⟩
      · apply hAC.mono
        by_cases hki : k = i
        · subst hki; rw [hs1i]; exact mem_union.mpr (Or.inl ((h.childs k hi w).mpr r))
        · rw [hs1o k hki]; exact (h.childs k hkk w).mpr r
      · exact hG k (toI k r1) k hk w (hXfrom w r2)
  · -- acyclic
    rw [hm']
    exact acyclic_mrg h.closed h.acyclic hij hi hj nij nji

end Jenkins
