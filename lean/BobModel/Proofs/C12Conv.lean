import BobModel.Proofs.C12Checkout
import Mathlib.Data.List.Nodup
import Mathlib.Data.List.Pairwise
/-
Helper lemmas for C12 `converges`: a successful run of the checkout step on a workspace whose
SCM directories are untouched checkouts of the recorded specs leaves exactly the new SCM
directories, each a fresh checkout of its new spec.
-/
namespace Checkout

variable {σ κ : Type}

/-! ### file system facts under `Nodup` locations -/

theorem contentAt_of_mem {fs : List (Loc × κ)} (hn : (locs fs).Nodup) {l : Loc} {k : κ} (h : (l, k) ∈ fs) :
    contentAt fs l = some k := by
  induction fs with
  | nil => cases h
  | cons e rest ih =>
    simp only [locs, List.map_cons, List.nodup_cons] at hn
    rcases List.mem_cons.mp h with h1 | h1
    · subst h1; simp [contentAt, List.find?]
    · have hne : e.1 ≠ l := by
        intro he
        apply hn.1
        rw [he]
        exact List.mem_map.mpr ⟨(l, k), h1, rfl⟩
      have : (e.1 == l) = false := by simpa using hne
      have ih' := ih hn.2 h1
      simpa [contentAt, List.find?, this] using ih'

theorem mem_setContent_nodup {fs : List (Loc × κ)} (hn : (locs fs).Nodup) {l l1 : Loc} {k' k1 : κ}
    (h : (l1, k1) ∈ setContent fs l k') : (l1 = l ∧ k1 = k') ∨ ((l1, k1) ∈ fs ∧ l1 ≠ l) := by
  induction fs with
  | nil =>
    simp only [setContent, List.mem_singleton, Prod.mk.injEq] at h
    exact Or.inl h
  | cons e rest ih =>
    simp only [locs, List.map_cons, List.nodup_cons] at hn
    unfold setContent at h
    by_cases he : (e.1 == l) = true
    · have hel : e.1 = l := by simpa using he
      simp only [he, if_true] at h
      rcases List.mem_cons.mp h with h1 | h1
      · simp only [Prod.mk.injEq] at h1; exact Or.inl h1
      · right
        refine ⟨List.mem_cons_of_mem _ h1, ?_⟩
        intro hl
        apply hn.1
        rw [hel, ← hl]
        exact List.mem_map.mpr ⟨(l1, k1), h1, rfl⟩
    · have hel : e.1 ≠ l := by simpa using he
      simp only [he] at h
      rcases List.mem_cons.mp h with h1 | h1
      · right
        subst h1
        exact ⟨List.mem_cons_self, hel⟩
      · rcases ih hn.2 h1 with h2 | ⟨h2, h3⟩
        · exact Or.inl h2
        · exact Or.inr ⟨List.mem_cons_of_mem _ h2, h3⟩

theorem nodup_setContent {fs : List (Loc × κ)} (hn : (locs fs).Nodup) (l : Loc) (k : κ) :
    (locs (setContent fs l k)).Nodup := by
  rw [locs_setContent]
  split
  · exact hn
  · rename_i hc
    rw [List.nodup_append]
    refine ⟨hn, List.nodup_singleton l, ?_⟩
    intro a ha b hb
    simp only [List.mem_singleton] at hb
    subst hb
    intro hab
    subst hab
    exact hc (by simpa using ha)

theorem contentAt_setContent_same (fs : List (Loc × κ)) (l : Loc) (k : κ) :
    contentAt (setContent fs l k) l = some k := by
  induction fs with
  | nil => simp [setContent, contentAt, List.find?]
  | cons e rest ih =>
    unfold setContent
    by_cases he : (e.1 == l) = true
    · simp [he, contentAt, List.find?]
    · have he' : (e.1 == l) = false := by simpa using he
      simp only [he', Bool.false_eq_true, if_false]
      simpa [contentAt, List.find?, he'] using ih

theorem contentAt_setContent_other (fs : List (Loc × κ)) (l l' : Loc) (k : κ) (h : l' ≠ l) :
    contentAt (setContent fs l k) l' = contentAt fs l' := by
  induction fs with
  | nil =>
    have : (l == l') = false := by simpa using fun e => h e.symm
    simp [setContent, contentAt, List.find?, this]
  | cons e rest ih =>
    unfold setContent
    by_cases he : (e.1 == l) = true
    · have hel : e.1 = l := by simpa using he
      have h1 : (e.1 == l') = false := by rw [hel]; simpa using fun e => h e.symm
      have h2 : (l == l') = false := by simpa using fun e => h e.symm
      simp [he, contentAt, List.find?, h1, h2]
    · have he' : (e.1 == l) = false := by simpa using he
      simp only [he', Bool.false_eq_true, if_false]
      by_cases h3 : (e.1 == l') = true
      · simp [contentAt, List.find?, h3]
      · have h3' : (e.1 == l') = false := by simpa using h3
        simpa [contentAt, List.find?, h3'] using ih

theorem contentAt_filter (fs : List (Loc × κ)) (f : Loc → Bool) (l : Loc) (hl : f l = true) :
    contentAt (fs.filter (fun e => f e.1)) l = contentAt fs l := by
  induction fs with
  | nil => rfl
  | cons e rest ih =>
    by_cases hf : f e.1 = true
    · simp only [List.filter_cons, hf, if_true]
      by_cases he : (e.1 == l) = true
      · simp [contentAt, List.find?, he]
      · have he' : (e.1 == l) = false := by simpa using he
        simpa [contentAt, List.find?, he'] using ih
    · have hne : (e.1 == l) = false := by
        simp only [beq_eq_false_iff_ne, ne_eq]
        intro h; rw [h] at hf; exact hf hl
      simp only [List.filter_cons, hf]
      simpa [contentAt, List.find?, hne] using ih

/-! ### paths -/

theorem isPrefix_refl (p : Comps) : isPrefix p p = true := by
  induction p with
  | nil => rfl
  | cons a as ih => simp [isPrefix, ih]

theorem isPrefix_append_drop : ∀ (p q : Comps), isPrefix p q = true → q = p ++ q.drop p.length := by
  intro p
  induction p with
  | nil => intro q _; rfl
  | cons a as ih =>
    intro q h
    cases q with
    | nil => simp [isPrefix] at h
    | cons b bs =>
      simp only [isPrefix, Bool.and_eq_true, beq_iff_eq] at h
      simp only [List.length_cons, List.drop_succ_cons, List.cons_append, List.cons.injEq]
      exact ⟨h.1.symm, ih bs h.2⟩

theorem isPrefix_nil_right (p : Comps) (h : isPrefix p [] = true) : p = [] := by
  cases p with
  | nil => rfl
  | cons a as => simp [isPrefix] at h

/-- moving a directory to a fresh attic number keeps the locations distinct -/
theorem nodup_move {fs : List (Loc × κ)} (hn : (locs fs).Nodup) (p : Comps) (n : Nat)
    (hb : ∀ m q k, (Loc.attic m q, k) ∈ fs → m < n) :
    (locs (fs.map (fun e => (moveLoc p n e.1, e.2)))).Nodup := by
  have : locs (fs.map (fun e => (moveLoc p n e.1, e.2))) = (locs fs).map (moveLoc p n) := by
    simp [locs, List.map_map, Function.comp_def]
  rw [this]
  apply List.Nodup.map_on _ hn
  intro x hx y hy hxy
  have hxb : ∀ m q, x = Loc.attic m q → m < n := by
    intro m q he
    obtain ⟨e, hm, rfl⟩ := List.mem_map.mp hx
    obtain ⟨l, k⟩ := e
    simp only at he; subst he
    exact hb m q k hm
  have hyb : ∀ m q, y = Loc.attic m q → m < n := by
    intro m q he
    obtain ⟨e, hm, rfl⟩ := List.mem_map.mp hy
    obtain ⟨l, k⟩ := e
    simp only at he; subst he
    exact hb m q k hm
  cases x with
  | attic m q =>
    cases y with
    | attic m' q' => simpa [moveLoc] using hxy
    | ws r =>
      by_cases hr : isPrefix p r = true
      · simp only [moveLoc, hr, if_true, Loc.attic.injEq] at hxy
        have := hxb m q rfl
        omega
      · simp [moveLoc, hr] at hxy
  | ws r =>
    cases y with
    | attic m' q' =>
      by_cases hr : isPrefix p r = true
      · simp only [moveLoc, hr, if_true, Loc.attic.injEq] at hxy
        have := hyb m' q' rfl
        omega
      · simp [moveLoc, hr] at hxy
    | ws r' =>
      by_cases hr : isPrefix p r = true
      · by_cases hr' : isPrefix p r' = true
        · simp only [moveLoc, hr, hr', if_true, Loc.attic.injEq, true_and] at hxy
          rw [isPrefix_append_drop p r hr, isPrefix_append_drop p r' hr', hxy]
        · simp [moveLoc, hr, hr'] at hxy
      · by_cases hr' : isPrefix p r' = true
        · simp [moveLoc, hr, hr'] at hxy
        · simpa [moveLoc, hr, hr'] using hxy

/-! ### the SCM contract for convergence -/

/-- `fresh s`: the content of a fresh checkout of `s` now; `Unt s k`: `k` is an untouched checkout
of `s` (made now or earlier).  Running the SCM on nothing or on an untouched checkout yields the
fresh checkout; a successful switch of an untouched checkout yields the fresh checkout of the new spec. -/
structure ScmConv (sem : ScmSem σ κ) (fresh : σ → κ) (Unt : σ → κ → Prop) : Prop where
  invoke_fresh : ∀ s, sem.invoke s none = (fresh s, true)
  fresh_unt : ∀ s, Unt s (fresh s)
  invoke_unt : ∀ s k, Unt s k → sem.invoke s (some k) = (fresh s, true)
  switch_unt : ∀ o n k, Unt o k → (sem.switch o n k).2 = true → (sem.switch o n k).1 = fresh n

/-- the workspace is consistent and untouched: every SCM directory in it is an untouched checkout of
the spec recorded for it -/
structure WsGood (Unt : σ → κ → Prop) (st : St σ κ) : Prop where
  tracked : ∀ p k, (Loc.ws p, k) ∈ st.fs → ∃ e, e ∈ st.old ∧ normComps e.dir = p ∧ ∃ s, e.spec = some s ∧ Unt s k
  nodup : (locs st.fs).Nodup
  missing : st.wsMissing = true → ∀ p k, (Loc.ws p, k) ∉ st.fs
  inj : st.old.Pairwise (fun a b => normComps a.dir ≠ normComps b.dir)
  below : AtticBelow st

def Done (Unt : σ → κ → Prop) (new : List (NewEntry σ)) (p : Comps) (k : κ) : Prop :=
  ∃ n, n ∈ new ∧ normComps n.dir = p ∧ Unt n.spec k

structure LoopInv (Unt : σ → κ → Prop) (new : List (NewEntry σ)) (st : St σ κ) (tr : List (Comps × Nat))
    (es : List (OldEntry σ)) : Prop where
  ent : ∀ p k, (Loc.ws p, k) ∈ st.fs →
      (∃ e, e ∈ es ∧ normComps e.dir = p ∧ ∃ s, e.spec = some s ∧ Unt s k) ∨
      ((∀ e, e ∈ es → normComps e.dir ≠ p) ∧ Done Unt new p k)
  nodup : (locs st.fs).Nodup
  trk : ∀ q n, (q, n) ∈ tr → ∀ p k, (Loc.ws p, k) ∈ st.fs → isPrefix q p = false
  missing : st.wsMissing = true → ∀ p k, (Loc.ws p, k) ∉ st.fs
  below : AtticBelow st
  inj : es.Pairwise (fun a b => normComps a.dir ≠ normComps b.dir)

variable {Unt : σ → κ → Prop} {new : List (NewEntry σ)} {sem : ScmSem σ κ} {fresh : σ → κ}

/-- consuming the head entry `e`: every workspace directory of the new state is an old one elsewhere,
or lies at `e`'s path and is done -/
theorem LoopInv.consume {st st' : St σ κ} {tr tr' : List (Comps × Nat)} {e : OldEntry σ} {es : List (OldEntry σ)}
    (h : LoopInv Unt new st tr (e :: es))
    (hent : ∀ p' k', (Loc.ws p', k') ∈ st'.fs →
      ((Loc.ws p', k') ∈ st.fs ∧ p' ≠ normComps e.dir) ∨ (p' = normComps e.dir ∧ Done Unt new p' k'))
    (hnodup : (locs st'.fs).Nodup)
    (htrk : ∀ q n, (q, n) ∈ tr' → ∀ p k, (Loc.ws p, k) ∈ st'.fs → isPrefix q p = false)
    (hmiss : st'.wsMissing = true → ∀ p k, (Loc.ws p, k) ∉ st'.fs)
    (hbelow : AtticBelow st') : LoopInv Unt new st' tr' es := by
  have hinj := List.pairwise_cons.mp h.inj
  refine ⟨?_, hnodup, htrk, hmiss, hbelow, hinj.2⟩
  intro p' k' hm
  rcases hent p' k' hm with ⟨hm0, hne⟩ | ⟨hp, hd⟩
  · rcases h.ent p' k' hm0 with ⟨e0, he0, hd0, hs0⟩ | ⟨hno, hd⟩
    · rcases List.mem_cons.mp he0 with h1 | h1
      · subst h1; exact absurd hd0.symm hne
      · exact Or.inl ⟨e0, h1, hd0, hs0⟩
    · exact Or.inr ⟨fun e1 he1 => hno e1 (List.mem_cons_of_mem _ he1), hd⟩
  · subst hp
    exact Or.inr ⟨fun e1 he1 heq => hinj.1 e1 he1 heq.symm, hd⟩

/-- an entry at `e`'s own path is pending on `e` -/
theorem LoopInv.at_head {st : St σ κ} {tr : List (Comps × Nat)} {e : OldEntry σ} {es : List (OldEntry σ)}
    (h : LoopInv Unt new st tr (e :: es)) {k : κ} (hm : (Loc.ws (normComps e.dir), k) ∈ st.fs) :
    ∃ s, e.spec = some s ∧ Unt s k := by
  have hinj := List.pairwise_cons.mp h.inj
  rcases h.ent _ k hm with ⟨e0, he0, hd0, hs0⟩ | ⟨hno, _⟩
  · rcases List.mem_cons.mp he0 with h1 | h1
    · subst h1; exact hs0
    · exact absurd hd0.symm (hinj.1 e0 h1)
  · exact absurd rfl (hno e List.mem_cons_self)

theorem existsWs_false {st : St σ κ} {p : Comps} (h : existsWs st p = false) :
    st.wsMissing = true ∨ ∀ q k, (Loc.ws q, k) ∈ st.fs → isPrefix p q = false := by
  unfold existsWs at h
  cases hm : st.wsMissing with
  | true => exact Or.inl rfl
  | false =>
    right
    simp only [hm, Bool.not_false, Bool.true_and, Bool.or_eq_false_iff, List.any_eq_false] at h
    intro q k hq
    have := h.1.2 (Loc.ws q, k) hq
    simpa [wsUnder] using this

theorem findNew_mem {new : List (NewEntry σ)} {d : String} {n : NewEntry σ} (h : findNew new d = some n) :
    n ∈ new ∧ n.dir = d := by
  unfold findNew at h
  exact ⟨List.mem_of_find?_eq_some h, by simpa using List.find?_some h⟩

/-- the possible outcomes of the switch attempt -/
theorem trySwitch_cases (sem : ScmSem σ κ) (new : List (NewEntry σ)) (e : OldEntry σ) (p : Comps) (st : St σ κ) :
    ((trySwitch sem new e p st).1.old = st.old ∧ (trySwitch sem new e p st).1.wsMissing = st.wsMissing ∧
     (trySwitch sem new e p st).1.plain = st.plain ∧ (trySwitch sem new e p st).1.nextAttic = st.nextAttic) ∧
    (((trySwitch sem new e p st).1.fs = st.fs ∧ (trySwitch sem new e p st).2 = false) ∨
     (∃ n os k, findNew new e.dir = some n ∧ e.spec = some os ∧ contentAt st.fs (.ws p) = some k ∧
        (trySwitch sem new e p st).1.fs = setContent st.fs (.ws p) (sem.switch os n.spec k).1 ∧
        (trySwitch sem new e p st).2 = (sem.switch os n.spec k).2)) := by
  unfold trySwitch
  cases hn : findNew new e.dir with
  | none => exact ⟨⟨rfl, rfl, rfl, rfl⟩, Or.inl ⟨rfl, rfl⟩⟩
  | some n =>
    simp only
    cases hs : e.spec with
    | none => exact ⟨⟨rfl, rfl, rfl, rfl⟩, Or.inl ⟨rfl, rfl⟩⟩
    | some os =>
      simp only
      split
      · cases hk : contentAt st.fs (.ws p) with
        | some k => exact ⟨⟨rfl, rfl, rfl, rfl⟩, Or.inr ⟨n, os, k, rfl, rfl, rfl, rfl, rfl⟩⟩
        | none => exact ⟨⟨rfl, rfl, rfl, rfl⟩, Or.inl ⟨rfl, rfl⟩⟩
      · exact ⟨⟨rfl, rfl, rfl, rfl⟩, Or.inl ⟨rfl, rfl⟩⟩

theorem existsWs_congr {a b : St σ κ} (h1 : locs b.fs = locs a.fs) (h2 : b.wsMissing = a.wsMissing)
    (h3 : b.plain = a.plain) (p : Comps) : existsWs b p = existsWs a p := by
  unfold existsWs
  rw [h2, h3]
  have hb : (b.fs.any fun e => wsUnder p e.1) = ((locs b.fs).any fun l => wsUnder p l) := by
    simp [locs, List.any_map, Function.comp_def]
  have ha : (a.fs.any fun e => wsUnder p e.1) = ((locs a.fs).any fun l => wsUnder p l) := by
    simp [locs, List.any_map, Function.comp_def]
  rw [hb, ha, h1]

theorem existsWs_trySwitch (sem : ScmSem σ κ) (new : List (NewEntry σ)) (e : OldEntry σ) (p q : Comps) (st : St σ κ) :
    existsWs (trySwitch sem new e p st).1 q = existsWs st q := by
  obtain ⟨⟨_, hw, hp, _⟩, hc⟩ := trySwitch_cases sem new e p st
  apply existsWs_congr _ hw hp
  rcases hc with ⟨hfs, _⟩ | ⟨n, os, k, _, _, hk, hfs, _⟩
  · rw [hfs]
  · rw [hfs, locs_setContent, contentAt_some_contains hk]; simp

theorem mem_trackerAdd {tr : List (Comps × Nat)} {p q : Comps} {n m : Nat} (h : (q, m) ∈ trackerAdd tr p n) :
    (q, m) ∈ tr ∨ q = p := by
  unfold trackerAdd at h
  split at h
  · rw [List.mem_map] at h
    obtain ⟨x, hx, he⟩ := h
    split at he
    · right; simp only [Prod.mk.injEq] at he; exact he.1.symm
    · left; rw [← he]; exact hx
  · rcases List.mem_append.mp h with h1 | h1
    · exact Or.inl h1
    · right; simp only [List.mem_singleton, Prod.mk.injEq] at h1; exact h1.1

theorem trackerMatch_some {tr : List (Comps × Nat)} {p q : Comps} {n : Nat} (h : trackerMatch tr p = some (q, n)) :
    (q, n) ∈ tr ∧ isPrefix q p = true := by
  unfold trackerMatch at h
  exact ⟨List.mem_of_find?_eq_some h, by simpa using List.find?_some h⟩

theorem unchanged_some {new : List (NewEntry σ)} {e : OldEntry σ} (h : unchanged new e = true) :
    ∃ n, findNew new e.dir = some n ∧ e.digest = some n.digest := by
  unfold unchanged at h
  cases hd : e.digest with
  | none => simp [hd] at h
  | some d =>
    cases hn : findNew new e.dir with
    | none => simp [hd, hn] at h
    | some n =>
      simp only [hd, hn, beq_iff_eq] at h
      exact ⟨n, rfl, by rw [h]⟩

/-- the fs-preserving part of a step: same directories, so the side invariants carry over -/
theorem LoopInv.same_fs {st st' : St σ κ} {tr : List (Comps × Nat)} {e : OldEntry σ} {es : List (OldEntry σ)}
    (h : LoopInv Unt new st tr (e :: es)) (hfs : st'.fs = st.fs) (hw : st'.wsMissing = st.wsMissing)
    (hb : AtticBelow st')
    (hent : ∀ k', (Loc.ws (normComps e.dir), k') ∈ st.fs → Done Unt new (normComps e.dir) k') :
    LoopInv Unt new st' tr es := by
  refine h.consume ?_ (by rw [hfs]; exact h.nodup) (by rw [hfs]; exact h.trk) (by rw [hfs, hw]; exact h.missing) hb
  intro p' k' hm
  rw [hfs] at hm
  by_cases hp : p' = normComps e.dir
  · subst hp; exact Or.inr ⟨rfl, hent k' hm⟩
  · exact Or.inl ⟨hm, hp⟩

theorem LoopInv.of_same {st st' : St σ κ} {tr : List (Comps × Nat)} {es : List (OldEntry σ)}
    (h : LoopInv Unt new st tr es) (h1 : st'.fs = st.fs) (h2 : st'.wsMissing = st.wsMissing)
    (h3 : st'.nextAttic = st.nextAttic) : LoopInv Unt new st' tr es :=
  ⟨by rw [h1]; exact h.ent, by rw [h1]; exact h.nodup, by rw [h1]; exact h.trk, by rw [h1, h2]; exact h.missing,
   by intro n p k hm; rw [h1] at hm; rw [h3]; exact h.below n p k hm, h.inj⟩

theorem changedStep_inv (hc : ScmConv sem fresh Unt)
    (ae : Bool) (st st' : St σ κ) (tr tr' : List (Comps × Nat)) (e : OldEntry σ) (es : List (OldEntry σ))
    (hl : changedStep sem ae new st tr e = .ok (st', tr'))
    (h : LoopInv Unt new st tr (e :: es)) : LoopInv Unt new st' tr' es := by
  have hbelow : AtticBelow st' := (ext_changedStep (sem := sem) (new := new) ae st st' tr tr' e hl).2.1 h.below
  unfold changedStep at hl
  simp only at hl
  obtain ⟨⟨hold, hws, hpl, hna⟩, hcase⟩ := trySwitch_cases sem new e (normComps e.dir) st
  by_cases hok : (trySwitch sem new e (normComps e.dir) st).2 = true
  · -- the inline switch succeeded
    simp only [hok, if_true] at hl
    rcases hcase with ⟨_, hf⟩ | ⟨n, os, k, hn, hs, hk, hfs, hres⟩
    · rw [hf] at hok; cases hok
    · simp only [hn, Except.ok.injEq, Prod.mk.injEq] at hl
      obtain ⟨hl1, hl2⟩ := hl
      subst hl2
      have hfs' : st'.fs = setContent st.fs (.ws (normComps e.dir)) (sem.switch os n.spec k).1 := by
        rw [← hl1, fs_persist]; exact hfs
      have hw' : st'.wsMissing = st.wsMissing := by rw [← hl1]; exact hws
      have hkm := contentAt_some_mem hk
      obtain ⟨s, hs', hu⟩ := h.at_head hkm
      rw [hs] at hs'; cases hs'
      have hfresh : (sem.switch os n.spec k).1 = fresh n.spec := hc.switch_unt os n.spec k hu (by rw [← hres]; exact hok)
      obtain ⟨hnm, hnd⟩ := findNew_mem hn
      refine h.consume ?_ (by rw [hfs']; exact nodup_setContent h.nodup _ _) ?_ ?_ hbelow
      · intro p' k' hm'
        rw [hfs'] at hm'
        rcases mem_setContent_nodup h.nodup hm' with ⟨h1, h2⟩ | ⟨h1, h2⟩
        · right
          cases h1
          refine ⟨rfl, n, hnm, by rw [hnd], ?_⟩
          rw [h2, hfresh]; exact hc.fresh_unt _
        · left
          exact ⟨h1, fun hp => h2 (by rw [hp])⟩
      · intro q m hqm p' k' hm'
        rw [hfs'] at hm'
        rcases mem_setContent_nodup h.nodup hm' with ⟨h1, _⟩ | ⟨h1, _⟩
        · cases h1
          exact h.trk q m hqm _ k hkm
        · exact h.trk q m hqm p' k' h1
      · intro hmiss
        rw [hw'] at hmiss
        exact absurd hkm (h.missing hmiss _ k)
  · -- no switch or it failed
    have hok' : (trySwitch sem new e (normComps e.dir) st).2 = false := by simpa using hok
    simp only [hok', Bool.false_eq_true, if_false] at hl
    have hex := existsWs_trySwitch sem new e (normComps e.dir) (normComps e.dir) st
    -- entries of the state after the attempt: the old ones, possibly with new content at e's path
    have hsub : ∀ p' k', (Loc.ws p', k') ∈ (trySwitch sem new e (normComps e.dir) st).1.fs →
        p' ≠ normComps e.dir → (Loc.ws p', k') ∈ st.fs := by
      intro p' k' hm' hne
      rcases hcase with ⟨hf, _⟩ | ⟨n, os, k, _, _, _, hfs, _⟩
      · rw [hf] at hm'; exact hm'
      · rw [hfs] at hm'
        rcases mem_setContent_nodup h.nodup hm' with ⟨h1, _⟩ | ⟨h1, _⟩
        · cases h1; exact absurd rfl hne
        · exact h1
    have hnd : (locs (trySwitch sem new e (normComps e.dir) st).1.fs).Nodup := by
      rcases hcase with ⟨hf, _⟩ | ⟨n, os, k, _, _, _, hfs, _⟩
      · rw [hf]; exact h.nodup
      · rw [hfs]; exact nodup_setContent h.nodup _ _
    have hwsub : ∀ p' k', (Loc.ws p', k') ∈ (trySwitch sem new e (normComps e.dir) st).1.fs →
        ∃ k0, (Loc.ws p', k0) ∈ st.fs := by
      intro p' k' hm'
      rcases hcase with ⟨hf, _⟩ | ⟨n, os, k, _, _, hk, hfs, _⟩
      · rw [hf] at hm'; exact ⟨k', hm'⟩
      · rw [hfs] at hm'
        rcases mem_setContent_nodup h.nodup hm' with ⟨h1, _⟩ | ⟨h1, _⟩
        · cases h1; exact ⟨k, contentAt_some_mem hk⟩
        · exact ⟨k', h1⟩
    by_cases hexs : existsWs (trySwitch sem new e (normComps e.dir) st).1 (normComps e.dir) = true
    · simp only [hexs, if_true] at hl
      cases ae with
      | false => simp at hl
      | true =>
        simp only [Bool.not_true, Bool.false_eq_true, if_false, Except.ok.injEq, Prod.mk.injEq] at hl
        obtain ⟨hl1, hl2⟩ := hl
        -- moved to the attic
        have hfs' : st'.fs = (trySwitch sem new e (normComps e.dir) st).1.fs.map
            (fun x => (moveLoc (normComps e.dir) (trySwitch sem new e (normComps e.dir) st).1.nextAttic x.1, x.2)) := by
          rw [← hl1, fs_dropOld]; simp [moveAway, emit, applyOp]
        have hwsm : st'.wsMissing = (st.wsMissing || (normComps e.dir).isEmpty) := by
          rw [← hl1]; simp [dropOld, persist, moveAway, emit, hws]
        have hws_ent : ∀ p' k', (Loc.ws p', k') ∈ st'.fs →
            (Loc.ws p', k') ∈ (trySwitch sem new e (normComps e.dir) st).1.fs ∧ isPrefix (normComps e.dir) p' = false := by
          intro p' k' hm'
          rw [hfs', List.mem_map] at hm'
          obtain ⟨⟨l0, k0⟩, hm0, he0⟩ := hm'
          simp only [Prod.mk.injEq] at he0
          obtain ⟨he1, he2⟩ := he0
          subst he2
          cases l0 with
          | attic m r => simp [moveLoc] at he1
          | ws r =>
            by_cases hr : isPrefix (normComps e.dir) r = true
            · simp [moveLoc, hr] at he1
            · simp only [moveLoc, hr, Bool.false_eq_true, if_false, Loc.ws.injEq] at he1
              subst he1
              exact ⟨hm0, by simpa using hr⟩
        refine h.consume ?_ ?_ ?_ ?_ hbelow
        · intro p' k' hm'
          obtain ⟨h1, h2⟩ := hws_ent p' k' hm'
          have hne : p' ≠ normComps e.dir := by
            intro hp; rw [hp, isPrefix_refl] at h2; cases h2
          exact Or.inl ⟨hsub p' k' h1 hne, hne⟩
        · rw [hfs']
          apply nodup_move hnd
          intro m q k hmq
          rw [hna]
          rcases hcase with ⟨hf, _⟩ | ⟨n, os, k1, _, _, _, hfs, _⟩
          · rw [hf] at hmq; exact h.below m q k hmq
          · rw [hfs] at hmq
            rcases mem_setContent_inv hmq with h1 | h1
            · exact h.below m q k h1
            · cases h1
        · intro q m hqm p' k' hm'
          obtain ⟨h1, h2⟩ := hws_ent p' k' hm'
          rw [← hl2] at hqm
          rcases mem_trackerAdd hqm with h3 | h3
          · obtain ⟨k0, hk0⟩ := hwsub p' k' h1
            exact h.trk q m h3 p' k0 hk0
          · rw [h3]; exact h2
        · intro hmiss p' k' hm'
          obtain ⟨h1, h2⟩ := hws_ent p' k' hm'
          rw [hwsm, Bool.or_eq_true] at hmiss
          rcases hmiss with hm1 | hm1
          · obtain ⟨k0, hk0⟩ := hwsub p' k' h1
            exact h.missing hm1 p' k0 hk0
          · have : normComps e.dir = [] := by simpa using hm1
            rw [this] at h2
            simp [isPrefix] at h2
    · -- the directory does not exist: only the state entry is dropped
      have hexs0 : existsWs (trySwitch sem new e (normComps e.dir) st).1 (normComps e.dir) = false := by simpa using hexs
      simp only [hexs0, Bool.false_eq_true, if_false, Except.ok.injEq, Prod.mk.injEq] at hl
      obtain ⟨hl1, hl2⟩ := hl
      subst hl2
      have hexs' : existsWs st (normComps e.dir) = false := by
        rw [← hex]; simpa using hexs
      -- no attempt was made (it needs the directory), so nothing changed
      have hsame : (trySwitch sem new e (normComps e.dir) st).1.fs = st.fs := by
        rcases hcase with ⟨hf, _⟩ | ⟨n, os, k, _, _, hk, _, _⟩
        · exact hf
        · exfalso
          have hkm := contentAt_some_mem hk
          rcases existsWs_false hexs' with h1 | h1
          · exact h.missing h1 _ k hkm
          · have := h1 _ k hkm
            rw [isPrefix_refl] at this; cases this
      have hfs' : st'.fs = st.fs := by rw [← hl1, fs_dropOld]; exact hsame
      have hw' : st'.wsMissing = st.wsMissing := by rw [← hl1]; exact hws
      refine h.same_fs hfs' hw' hbelow ?_
      intro k' hk'
      exfalso
      rcases existsWs_false hexs' with h1 | h1
      · exact h.missing h1 _ k' hk'
      · have := h1 _ k' hk'
        rw [isPrefix_refl] at this; cases this

theorem loopStep_inv (hc : ScmConv sem fresh Unt)
    (hdig : ∀ (e : OldEntry σ) n, n ∈ new → e.dir = n.dir → e.digest = some n.digest →
      ∀ s k, e.spec = some s → Unt s k → Unt n.spec k)
    (ae : Bool) (st st' : St σ κ) (tr tr' : List (Comps × Nat)) (e : OldEntry σ) (es : List (OldEntry σ))
    (hl : loopStep sem ae new st tr e = .ok (st', tr'))
    (h : LoopInv Unt new st tr (e :: es)) : LoopInv Unt new st' tr' es := by
  have hbelow : AtticBelow st' := (ext_loopStep (sem := sem) (new := new) ae st st' tr tr' e hl).2.1 h.below
  unfold loopStep at hl
  simp only at hl
  cases hm : trackerMatch tr (normComps e.dir) with
  | some qn =>
    obtain ⟨q, n⟩ := qn
    obtain ⟨hq1, hq2⟩ := trackerMatch_some hm
    simp only [hm, Except.ok.injEq, Prod.mk.injEq] at hl
    obtain ⟨hl1, hl2⟩ := hl
    subst hl2
    have hfs : st'.fs = st.fs := by
      rw [← hl1, fs_dropOld]; split <;> rfl
    have hw : st'.wsMissing = st.wsMissing := by
      rw [← hl1]; simp only [dropOld, persist, emit]; split <;> rfl
    refine h.same_fs hfs hw hbelow ?_
    intro k' hk'
    have := h.trk q n hq1 _ k' hk'
    rw [hq2] at this; cases this
  | none =>
    simp only [hm] at hl
    by_cases hun : unchanged new e = true
    · simp only [hun, if_true, Except.ok.injEq, Prod.mk.injEq] at hl
      obtain ⟨hl1, hl2⟩ := hl
      subst hl1; subst hl2
      refine h.same_fs rfl rfl hbelow ?_
      intro k' hk'
      obtain ⟨n, hn, hd⟩ := unchanged_some hun
      obtain ⟨hnm, hnd⟩ := findNew_mem hn
      obtain ⟨s, hs, hu⟩ := h.at_head hk'
      exact ⟨n, hnm, by rw [hnd], hdig e n hnm hnd.symm hd s k' hs hu⟩
    · have hun' : unchanged new e = false := by simpa using hun
      simp only [hun', Bool.false_eq_true, if_false] at hl
      exact changedStep_inv hc ae _ st' tr tr' e es hl
        (h.of_same (fs_invalidate e st).1 (fs_invalidate e st).2.1 (fs_invalidate e st).2.2.1)

theorem loopAll_inv (hc : ScmConv sem fresh Unt)
    (hdig : ∀ (e : OldEntry σ) n, n ∈ new → e.dir = n.dir → e.digest = some n.digest →
      ∀ s k, e.spec = some s → Unt s k → Unt n.spec k) (ae : Bool) :
    ∀ (es : List (OldEntry σ)) (st : St σ κ) (tr : List (Comps × Nat)), LoopInv Unt new st tr es →
      (loopAll sem ae new es st tr).2 = none → ∃ tr', LoopInv Unt new (loopAll sem ae new es st tr).1 tr' [] := by
  intro es
  induction es with
  | nil => intro st tr h _; exact ⟨tr, h⟩
  | cons e rest ih =>
    intro st tr h hok
    unfold loopAll at hok ⊢
    cases hl : loopStep sem ae new st tr e with
    | error x => simp [hl] at hok
    | ok v =>
      obtain ⟨st', tr'⟩ := v
      simp only [hl] at hok ⊢
      exact ih st' tr' (loopStep_inv hc hdig ae st st' tr tr' e rest hl h) hok

/-! ### running the SCMs -/

structure RunInv (Unt : σ → κ → Prop) (new : List (NewEntry σ)) (fresh : σ → κ) (st : St σ κ)
    (done : List (NewEntry σ)) : Prop where
  ent : ∀ p k, (Loc.ws p, k) ∈ st.fs → Done Unt new p k
  nodup : (locs st.fs).Nodup
  got : ∀ n, n ∈ done → contentAt st.fs (.ws (normComps n.dir)) = some (fresh n.spec)
  below : AtticBelow st

theorem locs_filter (fs : List (Loc × κ)) (f : Loc → Bool) :
    locs (fs.filter (fun e => f e.1)) = (locs fs).filter f := by
  simp [locs, List.filter_map, Function.comp_def]

theorem runScm_inv (hc : ScmConv sem fresh Unt)
    (hinj : ∀ n m, n ∈ new → m ∈ new → normComps n.dir = normComps m.dir → n = m)
    (hprune : ∀ n, n ∈ new → sem.prunes n.spec = true → ∀ m, m ∈ new →
      isPrefix (normComps n.dir) (normComps m.dir) = true → m = n)
    (n : NewEntry σ) (hn : n ∈ new) (st : St σ κ) (done : List (NewEntry σ)) (hd : ∀ m, m ∈ done → m ∈ new)
    (h : RunInv Unt new fresh st done) :
    (runScm sem n st).2 = true ∧ RunInv Unt new fresh (runScm sem n st).1 (n :: done) ∧
      (runScm sem n st).1.wsMissing = false ∧ (runScm sem n st).1.old = st.old := by
  have hbelow : AtticBelow (runScm sem n st).1 := (ext_runScm (sem := sem) (new := new) n hn st).2.1 h.below
  unfold runScm at hbelow ⊢
  simp only at hbelow ⊢
  -- the state before the SCM runs: possibly pruned
  generalize hst2 : (if sem.prunes n.spec = true then
      emit (Op.emptyDir (normComps n.dir))
        { st with wsMissing := false, plain := List.filter (fun q => !(isPrefix (normComps n.dir) q && q != normComps n.dir)) st.plain }
      else { st with wsMissing := false }) = st2 at hbelow ⊢
  have h2 : (∀ p k, (Loc.ws p, k) ∈ st2.fs → (Loc.ws p, k) ∈ st.fs) ∧ (locs st2.fs).Nodup ∧
      (∀ m, m ∈ done → normComps m.dir ≠ normComps n.dir →
        contentAt st2.fs (.ws (normComps m.dir)) = contentAt st.fs (.ws (normComps m.dir))) ∧
      st2.wsMissing = false ∧ st2.old = st.old := by
    subst hst2
    split
    · rename_i hp
      simp only [emit, applyOp]
      refine ⟨fun p k hm => (List.mem_filter.mp hm).1, ?_, ?_, trivial, trivial⟩
      · have := locs_filter st.fs (fun l => !(l.under (.ws (normComps n.dir)) && l != .ws (normComps n.dir)))
        rw [this]; exact h.nodup.filter _
      · intro m hm hne
        apply contentAt_filter st.fs (fun l => !(l.under (.ws (normComps n.dir)) && l != .ws (normComps n.dir)))
        simp only [Loc.under, Bool.not_eq_true', Bool.and_eq_false_imp]
        intro hpre
        have := hprune n hn hp m (hd m hm) hpre
        rw [this] at hne; exact absurd rfl hne
    · exact ⟨fun p k hm => hm, h.nodup, fun _ _ _ => rfl, rfl, rfl⟩
  obtain ⟨hsub, hnd2, hgot2, hw2, hold2⟩ := h2
  have hinv : sem.invoke n.spec (contentAt st2.fs (.ws (normComps n.dir))) = (fresh n.spec, true) := by
    cases hk : contentAt st2.fs (.ws (normComps n.dir)) with
    | none => exact hc.invoke_fresh _
    | some k =>
      obtain ⟨n', hn', hd', hu⟩ := h.ent _ k (hsub _ k (contentAt_some_mem hk))
      have := hinj n' n hn' hn hd'
      subst this
      exact hc.invoke_unt _ k hu
  rw [hinv]
  refine ⟨rfl, ⟨?_, ?_, ?_, ?_⟩, ?_, ?_⟩
  · intro p k hm
    simp only [emitSet] at hm
    rcases mem_setContent_nodup hnd2 hm with ⟨h1, h3⟩ | ⟨h1, _⟩
    · cases h1
      exact ⟨n, hn, rfl, by rw [h3]; exact hc.fresh_unt _⟩
    · exact h.ent p k (hsub p k h1)
  · simp only [emitSet]; exact nodup_setContent hnd2 _ _
  · intro m hm
    simp only [emitSet]
    by_cases hmn : normComps m.dir = normComps n.dir
    · have hmm : m ∈ new := by
        rcases List.mem_cons.mp hm with h1 | h1
        · rw [h1]; exact hn
        · exact hd m h1
      have := hinj m n hmm hn hmn
      subst this
      exact contentAt_setContent_same _ _ _
    · rcases List.mem_cons.mp hm with h1 | h1
      · rw [h1] at hmn; exact absurd rfl hmn
      · rw [contentAt_setContent_other _ _ _ _ (by
            intro he
            simp only [Loc.ws.injEq] at he
            exact hmn he), hgot2 m h1 hmn]
        exact h.got m h1
  · rw [hinv] at hbelow; exact hbelow
  · simp only [emitSet]; exact hw2
  · simp only [emitSet]; exact hold2

theorem runScms_inv (hc : ScmConv sem fresh Unt)
    (hinj : ∀ n m, n ∈ new → m ∈ new → normComps n.dir = normComps m.dir → n = m)
    (hprune : ∀ n, n ∈ new → sem.prunes n.spec = true → ∀ m, m ∈ new →
      isPrefix (normComps n.dir) (normComps m.dir) = true → m = n) :
    ∀ (ns : List (NewEntry σ)) (st : St σ κ) (done : List (NewEntry σ)), (∀ m, m ∈ ns → m ∈ new) →
      (∀ m, m ∈ done → m ∈ new) → RunInv Unt new fresh st done →
      (runScms sem ns st).2 = none ∧ (∃ done', RunInv Unt new fresh (runScms sem ns st).1 done' ∧
        (∀ m, m ∈ ns → m ∈ done') ∧ (∀ m, m ∈ done → m ∈ done')) ∧
      (runScms sem ns st).1.old = st.old ∧ (ns ≠ [] → (runScms sem ns st).1.wsMissing = false) ∧
      (ns = [] → (runScms sem ns st).1 = st) := by
  intro ns
  induction ns with
  | nil =>
    intro st done _ _ h
    exact ⟨rfl, ⟨done, h, by simp, fun m hm => hm⟩, rfl, by simp, fun _ => rfl⟩
  | cons n rest ih =>
    intro st done hsub hd h
    obtain ⟨hok, hinv, hw, hold⟩ := runScm_inv hc hinj hprune n (hsub n List.mem_cons_self) st done hd h
    unfold runScms
    cases hr : runScm sem n st with
    | mk st' ok =>
      rw [hr] at hok hinv hw hold
      simp only at hok; subst hok
      simp only
      obtain ⟨h1, ⟨done', h2, h3, h4⟩, h5, h6, h7⟩ := ih st' (n :: done)
        (fun m hm => hsub m (List.mem_cons_of_mem _ hm))
        (fun m hm => by
          rcases List.mem_cons.mp hm with hh | hh
          · rw [hh]; exact hsub n List.mem_cons_self
          · exact hd m hh) hinv
      refine ⟨h1, ⟨done', h2, ?_, fun m hm => h4 m (List.mem_cons_of_mem _ hm)⟩, by rw [h5, hold], ?_, by simp⟩
      · intro m hm
        rcases List.mem_cons.mp hm with hh | hh
        · rw [hh]; exact h4 n List.mem_cons_self
        · exact h3 m hh
      · intro _
        by_cases hrest : rest = []
        · rw [h7 hrest]; exact hw
        · exact h6 hrest

/-! ### the whole step -/

/-- the workspace equals a fresh checkout of `new`: every new SCM directory holds the fresh checkout
of its spec, nothing else is in the workspace, and the recorded state describes it -/
structure Converged (Unt : σ → κ → Prop) (fresh : σ → κ) (new : List (NewEntry σ)) (st : St σ κ) : Prop where
  contents : ∀ n, n ∈ new → contentAt st.fs (.ws (normComps n.dir)) = some (fresh n.spec)
  only : ∀ p k, (Loc.ws p, k) ∈ st.fs → ∃ n, n ∈ new ∧ normComps n.dir = p
  good : WsGood Unt st
  full : ∀ e, e ∈ st.old → ∃ k, (Loc.ws (normComps e.dir), k) ∈ st.fs
  state : ∀ e, e ∈ st.old → ∃ n, n ∈ new ∧ e.dir = n.dir ∧ e.digest = some n.digest

theorem Converged.transfer {Unt : σ → κ → Prop} {fresh : σ → κ} {new : List (NewEntry σ)} {st st' : St σ κ}
    (h : Converged Unt fresh new st) (h1 : st'.fs = st.fs) (h2 : st'.old = st.old)
    (h3 : st'.wsMissing = st.wsMissing) (h4 : st'.nextAttic = st.nextAttic) : Converged Unt fresh new st' := by
  refine ⟨by rw [h1]; exact h.contents, by rw [h1]; exact h.only,
    ⟨by rw [h1, h2]; exact h.good.tracked, by rw [h1]; exact h.good.nodup, by rw [h1, h3]; exact h.good.missing,
     by rw [h2]; exact h.good.inj, ?_⟩, by rw [h1, h2]; exact h.full, by rw [h2]; exact h.state⟩
  intro n p k hm
  rw [h1] at hm; rw [h4]; exact h.good.below n p k hm

instance symmOld : Std.Symm (fun a b : OldEntry σ => normComps a.dir ≠ normComps b.dir) := ⟨fun _ _ h => h.symm⟩
instance symmNew : Std.Symm (fun a b : NewEntry σ => normComps a.dir ≠ normComps b.dir) := ⟨fun _ _ h => h.symm⟩

theorem pairwise_inj_old {l : List (OldEntry σ)} (h : l.Pairwise (fun a b => normComps a.dir ≠ normComps b.dir))
    {a b : OldEntry σ} (ha : a ∈ l) (hb : b ∈ l) (he : normComps a.dir = normComps b.dir) : a = b := by
  by_contra hne
  exact h.forall ha hb hne he

theorem pairwise_inj_new {l : List (NewEntry σ)} (h : l.Pairwise (fun a b => normComps a.dir ≠ normComps b.dir))
    {a b : NewEntry σ} (ha : a ∈ l) (hb : b ∈ l) (he : normComps a.dir = normComps b.dir) : a = b := by
  by_contra hne
  exact h.forall ha hb hne he

/-- `--clean-checkout` invalidation keeps directories and specs of the state entries -/
def invalidateEntry (sem : ScmSem σ κ) (new : List (NewEntry σ)) (st : St σ κ) (e : OldEntry σ) : OldEntry σ :=
  match findNew new e.dir with
  | none => e
  | some n =>
    if e.digest == some n.digest && existsWs st (normComps e.dir) &&
       sem.dirty n.spec (contentAt st.fs (.ws (normComps e.dir)))
    then { e with digest := none } else e

theorem invalidateEntry_same (sem : ScmSem σ κ) (new : List (NewEntry σ)) (st : St σ κ) (e : OldEntry σ) :
    (invalidateEntry sem new st e).dir = e.dir ∧ (invalidateEntry sem new st e).spec = e.spec := by
  unfold invalidateEntry
  cases findNew new e.dir with
  | none => exact ⟨rfl, rfl⟩
  | some n => simp only; split <;> exact ⟨rfl, rfl⟩

theorem cleanInvalidate_eq (sem : ScmSem σ κ) (new : List (NewEntry σ)) (st : St σ κ) :
    cleanInvalidate sem new st = { st with old := st.old.map (invalidateEntry sem new st) } := rfl

/-- the state a run starts the loop with (after `_constructDir` and `--clean-checkout`) -/
def prepared (sem : ScmSem σ κ) (fl : Flags) (new : List (NewEntry σ)) (st0 : St σ κ) : St σ κ :=
  let sta := if st0.wsMissing then { st0 with wsMissing := false, old := [], plain := [], complete := false } else st0
  if fl.cleanCheckout then cleanInvalidate sem new sta else sta

theorem prepared_spec (sem : ScmSem σ κ) (fl : Flags) (new : List (NewEntry σ)) (st0 : St σ κ)
    (hW : WsGood Unt st0) :
    (prepared sem fl new st0).fs = st0.fs ∧ (prepared sem fl new st0).wsMissing = false ∧
    (prepared sem fl new st0).nextAttic = st0.nextAttic ∧
    (∀ e', e' ∈ (prepared sem fl new st0).old → ∃ e, e ∈ st0.old ∧ e'.dir = e.dir ∧ e'.spec = e.spec) ∧
    (st0.wsMissing = false → ∀ e, e ∈ st0.old → ∃ e', e' ∈ (prepared sem fl new st0).old ∧ e'.dir = e.dir ∧ e'.spec = e.spec) ∧
    (prepared sem fl new st0).old.Pairwise (fun a b => normComps a.dir ≠ normComps b.dir) := by
  unfold prepared
  simp only
  cases hm : st0.wsMissing with
  | true =>
    have hno : ∀ e : OldEntry σ, e ∈ ([] : List (OldEntry σ)) → False := fun e h => by cases h
    cases fl.cleanCheckout with
    | true =>
      refine ⟨rfl, rfl, rfl, ?_, ?_, ?_⟩
      · intro e' he'; simp [cleanInvalidate_eq] at he'
      · intro h; cases h
      · simp [cleanInvalidate_eq]
    | false =>
      refine ⟨rfl, rfl, rfl, ?_, ?_, ?_⟩
      · intro e' he'; simp at he'
      · intro h; cases h
      · simp
  | false =>
    cases fl.cleanCheckout with
    | false =>
      exact ⟨rfl, hm, rfl, fun e' he' => ⟨e', he', rfl, rfl⟩, fun _ e he => ⟨e, he, rfl, rfl⟩, hW.inj⟩
    | true =>
      refine ⟨rfl, hm, rfl, ?_, ?_, ?_⟩
      · intro e' he'
        obtain ⟨e, he, rfl⟩ := List.mem_map.mp he'
        exact ⟨e, he, (invalidateEntry_same sem new st0 e).1, (invalidateEntry_same sem new st0 e).2⟩
      · intro _ e he
        exact ⟨_, List.mem_map.mpr ⟨e, he, rfl⟩, (invalidateEntry_same sem new st0 e).1, (invalidateEntry_same sem new st0 e).2⟩
      · show List.Pairwise _ (st0.old.map (invalidateEntry sem new st0))
        rw [List.pairwise_map]
        refine hW.inj.imp ?_
        intro a b hab
        rw [(invalidateEntry_same sem new st0 a).1, (invalidateEntry_same sem new st0 b).1]
        exact hab

theorem cook_eq (sem : ScmSem σ κ) (fl : Flags) (indet : Bool) (new : List (NewEntry σ)) (st0 : St σ κ) :
    cook sem fl indet new st0 =
      (if (prepared sem fl new st0).complete && (!st0.wsMissing && !indet && sameDirs (prepared sem fl new st0).old new)
       then (prepared sem fl new st0, none)
       else match loopAll sem fl.atticEnabled new (sortedOld (prepared sem fl new st0).old) (prepared sem fl new st0) [] with
        | (st1, some x) => (st1, some x)
        | (st1, none) =>
          match collision new st1 with
          | some d => (st1, some (.collides d))
          | none => markComplete (runScms sem new (emit (.setDirState (new.map (·.dir)))
              { st1 with old := new.map asOld, complete := false }))) := rfl

theorem cook_converges (hc : ScmConv sem fresh Unt)
    (hdig : ∀ (e : OldEntry σ) n, n ∈ new → e.dir = n.dir → e.digest = some n.digest →
      ∀ s k, e.spec = some s → Unt s k → Unt n.spec k)
    (hpw : new.Pairwise (fun a b => normComps a.dir ≠ normComps b.dir))
    (hprune : ∀ n, n ∈ new → sem.prunes n.spec = true → ∀ m, m ∈ new →
      isPrefix (normComps n.dir) (normComps m.dir) = true → m = n)
    (fl : Flags) (indet : Bool) (hdet : indet = false → ∀ s k, Unt s k → k = fresh s)
    (st0 : St σ κ) (hW : WsGood Unt st0)
    (hfull : ∀ e, e ∈ st0.old → ∃ k, (Loc.ws (normComps e.dir), k) ∈ st0.fs)
    (hok : (cook sem fl indet new st0).2 = none) :
    Converged Unt fresh new (cook sem fl indet new st0).1 := by
  have hinj : ∀ n m, n ∈ new → m ∈ new → normComps n.dir = normComps m.dir → n = m :=
    fun n m hn hm he => pairwise_inj_new hpw hn hm he
  obtain ⟨pfs, pws, pna, pold1, pold2, ppw⟩ := prepared_spec (Unt := Unt) sem fl new st0 hW
  rw [cook_eq] at hok ⊢
  generalize hstb : prepared sem fl new st0 = stb at *
  by_cases hskip : (stb.complete && (!st0.wsMissing && !indet && sameDirs stb.old new)) = true
  · -- nothing to do: deterministic and unchanged
    simp only [hskip, if_true]
    simp only [Bool.and_eq_true, Bool.not_eq_true'] at hskip
    obtain ⟨_, ⟨hm0, hind⟩, hsame⟩ := hskip
    unfold sameDirs at hsame
    simp only [Bool.and_eq_true, List.all_eq_true, List.any_eq_true, beq_iff_eq] at hsame
    obtain ⟨hs1, hs2⟩ := hsame
    -- every state entry has its directory, untouched, and is unchanged w.r.t. a new entry
    have key : ∀ e, e ∈ stb.old → ∃ n k, n ∈ new ∧ e.dir = n.dir ∧ e.digest = some n.digest ∧
        (Loc.ws (normComps e.dir), k) ∈ stb.fs ∧ Unt n.spec k := by
      intro e he
      obtain ⟨n, hn, hd⟩ := unchanged_some (hs1 e he)
      obtain ⟨hnm, hnd⟩ := findNew_mem hn
      obtain ⟨e0, he0, hd0, hsp0⟩ := pold1 e he
      obtain ⟨k, hk⟩ := hfull e0 he0
      obtain ⟨e1, he1, hd1, s, hs, hu⟩ := hW.tracked _ k hk
      have : e1 = e0 := pairwise_inj_old hW.inj he1 he0 hd1
      subst this
      refine ⟨n, k, hnm, hnd.symm, hd, by rw [pfs, hd0]; exact hk, ?_⟩
      exact hdig e n hnm hnd.symm hd s k (by rw [hsp0]; exact hs) hu
    have hnodup : (locs stb.fs).Nodup := by rw [pfs]; exact hW.nodup
    refine ⟨?_, ?_, ⟨?_, hnodup, ?_, ppw, ?_⟩, ?_, ?_⟩
    · intro n hn
      obtain ⟨e, he, hde⟩ := hs2 n hn
      obtain ⟨n', k, hn', hd', _, hk, hu⟩ := key e he
      have : n' = n := hinj n' n hn' hn (by rw [← hd', hde])
      subst this
      rw [← hd', contentAt_of_mem hnodup hk, hdet hind _ _ hu]
    · intro p k hm
      rw [pfs] at hm
      obtain ⟨e0, he0, hd0, _⟩ := hW.tracked p k hm
      obtain ⟨e, he, hde, _⟩ := pold2 hm0 e0 he0
      obtain ⟨n, _, hn, hd', _⟩ := key e he
      exact ⟨n, hn, by rw [← hd', hde]; exact hd0⟩
    · intro p k hm
      rw [pfs] at hm
      obtain ⟨e0, he0, hd0, s, hs, hu⟩ := hW.tracked p k hm
      obtain ⟨e, he, hde, hsp⟩ := pold2 hm0 e0 he0
      exact ⟨e, he, by rw [hde]; exact hd0, s, by rw [hsp]; exact hs, hu⟩
    · intro h; rw [pws] at h; cases h
    · intro n p k hm
      rw [pfs] at hm; rw [pna]; exact hW.below n p k hm
    · intro e he
      obtain ⟨_, k, _, _, _, hk, _⟩ := key e he
      exact ⟨k, hk⟩
    · intro e he
      obtain ⟨n, _, hn, hd, hdg, _⟩ := key e he
      exact ⟨n, hn, hd, hdg⟩
  · -- the checkout runs
    have hskip' : (stb.complete && (!st0.wsMissing && !indet && sameDirs stb.old new)) = false := by simpa using hskip
    simp only [hskip', Bool.false_eq_true, if_false] at hok ⊢
    have hL0 : LoopInv Unt new stb [] (sortedOld stb.old) := by
      have hperm := List.mergeSort_perm stb.old
        (fun a b => compsLe (normComps a.dir) (normComps b.dir))
      refine ⟨?_, (by rw [pfs]; exact hW.nodup), (by intro q n h; cases h), ?_, ?_, ?_⟩
      · intro p k hm
        rw [pfs] at hm
        obtain ⟨e0, he0, hd0, s, hs, hu⟩ := hW.tracked p k hm
        have hm0 : st0.wsMissing = false := by
          cases h : st0.wsMissing with
          | false => rfl
          | true => exact absurd hm (hW.missing h p k)
        obtain ⟨e, he, hde, hsp⟩ := pold2 hm0 e0 he0
        exact Or.inl ⟨e, hperm.mem_iff.mpr he, by rw [hde]; exact hd0, s, by rw [hsp]; exact hs, hu⟩
      · intro h; rw [pws] at h; cases h
      · intro n p k hm
        rw [pfs] at hm; rw [pna]; exact hW.below n p k hm
      · exact (hperm.pairwise_iff (fun h => h.symm)).mpr ppw
    cases hl : loopAll sem fl.atticEnabled new (sortedOld stb.old) stb [] with
    | mk st1 err =>
      rw [hl] at hok
      cases err with
      | some x => simp at hok
      | none =>
        simp only at hok ⊢
        obtain ⟨tr', hL⟩ := loopAll_inv hc hdig fl.atticEnabled (sortedOld stb.old) stb [] hL0 (by rw [hl])
        rw [hl] at hL
        simp only at hL
        cases hcol : collision new st1 with
        | some d => simp [hcol] at hok
        | none =>
          simp only [hcol] at hok ⊢
          have hdone : ∀ p k, (Loc.ws p, k) ∈ st1.fs → Done Unt new p k := by
            intro p k hm
            rcases hL.ent p k hm with ⟨e, he, _⟩ | ⟨_, hd⟩
            · cases he
            · exact hd
          have hR0 : RunInv Unt new fresh
              (emit (.setDirState (new.map (·.dir))) { st1 with old := new.map asOld, complete := false }) [] :=
            ⟨hdone, hL.nodup, (by intro n h; cases h), hL.below⟩
          obtain ⟨_, ⟨done', hR, hall, _⟩, hold, hwm, hnil⟩ :=
            runScms_inv hc hinj hprune new _ [] (fun _ h => h) (by intro m h; cases h) hR0
          obtain ⟨mf1, _, mf3, mf4, mf5, _⟩ := markComplete_fields (runScms sem new
            (emit (.setDirState (new.map (·.dir))) { st1 with old := new.map asOld, complete := false }))
          refine Converged.transfer (st := (runScms sem new
            (emit (.setDirState (new.map (·.dir))) { st1 with old := new.map asOld, complete := false })).1)
            ?_ mf1 mf4 mf5 mf3
          refine ⟨fun n hn => hR.got n (hall n hn), ?_, ⟨?_, hR.nodup, ?_, ?_, hR.below⟩, ?_, ?_⟩
          · intro p k hm
            obtain ⟨n, hn, hd, _⟩ := hR.ent p k hm
            exact ⟨n, hn, hd⟩
          · intro p k hm
            obtain ⟨n, hn, hd, hu⟩ := hR.ent p k hm
            refine ⟨asOld n, ?_, hd, n.spec, rfl, hu⟩
            rw [hold]; exact (show asOld n ∈ new.map asOld from List.mem_map.mpr ⟨n, hn, rfl⟩)
          · intro hmiss p k hm
            by_cases hnew : new = []
            · rw [hnil hnew] at hmiss hm
              exact hL.missing hmiss p k hm
            · rw [hwm hnew] at hmiss; cases hmiss
          · rw [hold]
            show List.Pairwise _ (new.map asOld)
            rw [List.pairwise_map]
            exact hpw
          · intro e he
            rw [hold] at he
            obtain ⟨n, hn, rfl⟩ := List.mem_map.mp (show e ∈ new.map asOld from he)
            exact ⟨fresh n.spec, contentAt_some_mem (hR.got n (hall n hn))⟩
          · intro e he
            rw [hold] at he
            obtain ⟨n, hn, rfl⟩ := List.mem_map.mp (show e ∈ new.map asOld from he)
            exact ⟨n, hn, rfl, rfl⟩

/-! ### histories of builds -/

/-- one build event: recipe SCM list, flags, and the SCM behaviour (i.e. the upstream state) at that time -/
structure Build (σ κ : Type) where
  sem : ScmSem σ κ
  fresh : σ → κ
  fl : Flags
  indet : Bool
  new : List (NewEntry σ)

/-- the hypotheses of `cook_converges` for one build -/
structure BuildOk (Unt : σ → κ → Prop) (b : Build σ κ) : Prop where
  conv : ScmConv b.sem b.fresh Unt
  dig : ∀ (e : OldEntry σ) n, n ∈ b.new → e.dir = n.dir → e.digest = some n.digest →
      ∀ s k, e.spec = some s → Unt s k → Unt n.spec k
  pw : b.new.Pairwise (fun x y => normComps x.dir ≠ normComps y.dir)
  prune : ∀ n, n ∈ b.new → b.sem.prunes n.spec = true → ∀ m, m ∈ b.new →
      isPrefix (normComps n.dir) (normComps m.dir) = true → m = n
  det : b.indet = false → ∀ s k, Unt s k → k = b.fresh s

def runBuilds : List (Build σ κ) → St σ κ → St σ κ
  | [], st => st
  | b :: rest, st => runBuilds rest (cook b.sem b.fl b.indet b.new st).1

/-- every build of the history succeeds -/
def AllOk : List (Build σ κ) → St σ κ → Prop
  | [], _ => True
  | b :: rest, st => (cook b.sem b.fl b.indet b.new st).2 = none ∧ AllOk rest (cook b.sem b.fl b.indet b.new st).1

theorem builds_converge : ∀ (bs : List (Build σ κ)) (st : St σ κ), WsGood Unt st →
    (∀ e, e ∈ st.old → ∃ k, (Loc.ws (normComps e.dir), k) ∈ st.fs) →
    (∀ b, b ∈ bs → BuildOk Unt b) → AllOk bs st → ∀ b, bs.getLast? = some b →
    Converged Unt b.fresh b.new (runBuilds bs st) := by
  intro bs
  induction bs with
  | nil => intro st _ _ _ _ b hb; simp at hb
  | cons b0 rest ih =>
    intro st hW hfull hok hall b hb
    obtain ⟨h1, h2⟩ := hall
    have hb0 := hok b0 List.mem_cons_self
    have hconv := cook_converges hb0.conv hb0.dig hb0.pw hb0.prune b0.fl b0.indet hb0.det st hW hfull h1
    cases rest with
    | nil =>
      simp only [List.getLast?_singleton, Option.some.injEq] at hb
      subst hb
      exact hconv
    | cons b1 rest' =>
      have hb' : (b1 :: rest').getLast? = some b := by simpa [List.getLast?_cons_cons] using hb
      exact ih _ hconv.good hconv.full (fun x hx => hok x (List.mem_cons_of_mem _ hx)) h2 b hb'

end Checkout
