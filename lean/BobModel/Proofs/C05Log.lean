import BobModel.Proofs.C01Truthful
/-
C05: whenever a step script is running, has failed or has just finished without its result being
recorded yet, the stored state claims nothing about that workspace (`NoClaim`).  A purely
"syntactic" property of the source order (delInputs / directory state without the variant-id key
precede the script): it holds for every project, every state and every environment.
-/
namespace Builder

variable {E : Env}

/-- the last micro-operation of the run -/
def lastOp (r : Run) : Option Op := r.log.getLast?

/-- if the last micro-operation is the begin or end of a script in workspace `p`, nothing is
claimed about `p` -/
def SafeLog (r : Run) : Prop :=
  ∀ p, (lastOp r = some (.scriptBegin p) ∨ ∃ ok, lastOp r = some (.scriptEnd p ok)) → NoClaim r.st p

def isScriptOp : Op → Bool
  | .scriptBegin _ => true
  | .scriptEnd _ _ => true
  | _ => false

/-- `m` keeps `SafeLog`, also at every cut -/
def LogSafe {α : Type} (m : M α) : Prop :=
  ∀ r, SafeLog r → wp m (fun _ r' => SafeLog r') SafeLog r

theorem logsafe_pure {α : Type} (a : α) : LogSafe (pure a : M α) := by
  intro r h; simp only [wp_pure]; exact h

theorem logsafe_bind {α β : Type} {m : M α} {f : α → M β} (h1 : LogSafe m) (h2 : ∀ a, LogSafe (f a)) :
    LogSafe (m >>= f) := by
  intro r h
  simp only [wp_bind]
  refine wp_mono _ _ _ _ _ _ ?_ (fun _ hx => hx) (h1 r h)
  intro a r1 hr1
  exact h2 a r1 hr1

theorem logsafe_getSt : LogSafe getSt := by
  intro r h; simp only [wp_getSt]; exact h

theorem logsafe_getMem : LogSafe getMem := by
  intro r h; simp only [wp_getMem]; exact h

theorem logsafe_setMem (m : Mem) : LogSafe (setMem m) := by
  intro r h; simp only [wp_setMem]; exact h

theorem logsafe_abort {α : Type} : LogSafe (abort : M α) := by
  intro r h; simp only [wp_abort]; exact h

theorem lastOp_append (st : St) (mem : Mem) (k : Nat) (l : List Op) (op : Op) :
    lastOp { st := st, mem := mem, fuel := k, log := l ++ [op] } = some op := by
  simp [lastOp]

/-- a micro-operation that is not a script boundary -/
theorem logsafe_prim (op : Op) (f : St → St) (hop : isScriptOp op = false) : LogSafe (prim op f) := by
  intro r h
  rw [wp_prim]
  refine ⟨fun _ => h, ?_⟩
  intro k _ p hp
  rw [lastOp_append] at hp
  rcases hp with hp | ⟨ok, hp⟩
  · cases hp; simp [isScriptOp] at hop
  · cases hp; simp [isScriptOp] at hop

theorem logsafe_whenM (b : Bool) {m : M Unit} (h : LogSafe m) : LogSafe (whenM b m) := by
  cases b
  · exact logsafe_pure ()
  · exact h

theorem logsafe_ite {α : Type} (c : Prop) [Decidable c] {m1 m2 : M α} (h1 : LogSafe m1) (h2 : LogSafe m2) :
    LogSafe (if c then m1 else m2) := by
  split
  · exact h1
  · exact h2

/-- `_runShell` when nothing is claimed about the workspace -/
theorem runScript_logsafe (i : Info) (clean : Bool) (ins : List Content) (r : Run) (hs : SafeLog r)
    (hc : NoClaim r.st i.path) :
    wp (runScript E i clean ins) (fun _ r' => SafeLog r' ∧ NoClaim r'.st i.path ∧ r'.st.inputs = r.st.inputs ∧
      r'.st.dirStates = r.st.dirStates) SafeLog r := by
  unfold runScript
  simp only [wp_bind, wp_getSt]
  rw [wp_prim]
  refine ⟨fun _ => hs, ?_⟩
  intro k1 _
  have nc1 : NoClaim (r.st.setDisk i.path E.junk) i.path := noclaim_setDisk _ hc
  have safe1 : SafeLog { r with st := r.st.setDisk i.path E.junk, fuel := k1, log := r.log ++ [Op.scriptBegin i.path] } := by
    intro p hp
    rw [lastOp_append] at hp
    rcases hp with hp | ⟨ok, hp⟩
    · cases hp; exact nc1
    · cases hp
  cases hsem : E.sem i.sig i.world (if clean = true then emptyC else (r.st.disk i.path).getD emptyC) ins with
  | ok c =>
    simp only []
    rw [wp_prim]
    refine ⟨fun _ => safe1, ?_⟩
    intro k2 _
    have nc2 : NoClaim ((r.st.setDisk i.path E.junk).setDisk i.path c) i.path := noclaim_setDisk _ nc1
    refine ⟨?_, nc2, rfl, rfl⟩
    intro p hp
    rw [lastOp_append] at hp
    rcases hp with hp | ⟨ok, hp⟩
    · cases hp
    · cases hp; exact nc2
  | fail c =>
    simp only [wp_bind]
    rw [wp_prim]
    refine ⟨fun _ => safe1, ?_⟩
    intro k2 _
    simp only [wp_abort]
    have nc2 : NoClaim ((r.st.setDisk i.path E.junk).setDisk i.path c) i.path := noclaim_setDisk _ nc1
    intro p hp
    rw [lastOp_append] at hp
    rcases hp with hp | ⟨ok, hp⟩
    · cases hp
    · cases hp; exact nc2

theorem safelog_after (st : St) (mem : Mem) (k : Nat) (l : List Op) (op : Op) (hop : isScriptOp op = false) :
    SafeLog { st := st, mem := mem, fuel := k, log := l ++ [op] } := by
  intro p hp
  rw [lastOp_append] at hp
  rcases hp with hp | ⟨ok, hp⟩
  · cases hp; simp [isScriptOp] at hop
  · cases hp; simp [isScriptOp] at hop

/-- structural closure: binds, conditionals, state reads, micro-operations other than scripts -/
macro "logsafe_step" : tactic => `(tactic| first
  | exact logsafe_pure _
  | exact logsafe_getSt
  | exact logsafe_getMem
  | exact logsafe_setMem _
  | exact logsafe_abort
  | exact logsafe_prim _ _ (by rfl)
  | assumption
  | (with_reducible split)
  | (with_reducible refine logsafe_whenM _ ?_)
  | (with_reducible refine logsafe_bind ?_ (fun _ => ?_)))

theorem logsafe_constructDir (p : Path) : LogSafe (constructDir p) := by
  unfold constructDir
  repeat logsafe_step

theorem logsafe_runRecord (i : Info) (clean : Bool) (st : St) (ins : List Step) (inH : Inputs) (iv : St → Vid) :
    LogSafe (runRecord E i clean st ins inH iv) := by
  intro r hs
  unfold runRecord
  simp only [wp_bind, wp_getSt]
  rw [wp_prim]
  refine ⟨fun _ => hs, ?_⟩
  intro k1 _
  rw [wp_prim]
  refine ⟨fun _ => safelog_after _ _ _ _ _ (by rfl), ?_⟩
  intro k2 _
  have nc2 : NoClaim ((r.st.delInputs i.path).forge i.path) i.path := Or.inl (by simp [St.delInputs, St.forge])
  refine wp_mono _ _ _ _ _ _ ?_ (fun _ hx => hx)
    (runScript_logsafe (E := E) i clean (contentsOf st ins) _ (safelog_after _ _ _ _ _ (by rfl)) nc2)
  intro _ r3 ⟨s3, _, _, _⟩
  have tail : LogSafe (do
      let st2 ← getSt
      prim (.setResult i.path (hashOf E st2 i.path)) (fun s => s.setResult i.path (hashOf E st2 i.path))
      prim (.setVid i.path (iv st2)) (fun s => s.setVid i.path (iv st2))
      prim (.setInputs i.path inH) (fun s => s.setInputs i.path inH)) := by
    repeat logsafe_step
  have := tail r3 s3
  simp only [wp_bind, wp_getSt] at this
  exact this

theorem logsafe_cookBuild (cfg : Cfg) (i : Info) (ds : List Step) : LogSafe (cookBuild E cfg i ds) := by
  have h1 := logsafe_constructDir (i.path)
  have h2 : ∀ st inH iv, LogSafe (runRecord E i cfg.cleanBuild st ds inH iv) := fun _ _ _ => logsafe_runRecord _ _ _ _ _ _
  unfold cookBuild
  dsimp only
  repeat (first | exact h2 _ _ _ | logsafe_step)

theorem logsafe_preparePackage (i : Info) (ds : List Step) : LogSafe (preparePackage i ds) := by
  unfold preparePackage
  dsimp only
  repeat logsafe_step

theorem logsafe_cookPackage (cfg : Cfg) (i : Info) (pre ds : List Step) : LogSafe (cookPackage E cfg i pre ds) := by
  have h1 := logsafe_constructDir (i.path)
  have h2 : ∀ st inH iv, LogSafe (runRecord E i true st (pre ++ ds) inH iv) := fun _ _ _ => logsafe_runRecord _ _ _ _ _ _
  unfold cookPackage
  dsimp only
  repeat (first | exact h2 _ _ _ | logsafe_step)

theorem logsafe_atticLoop (cfg : Cfg) (p : Path) (new : List (Dir × Digest)) (ov : Option Vid) (ob : Option BoState)
    (old keep : List (Dir × Digest)) : LogSafe (atticLoop E cfg p new ov ob old keep) := by
  induction old generalizing keep with
  | nil => simp only [atticLoop]; exact logsafe_pure _
  | cons x rest ih =>
    obtain ⟨d, g⟩ := x
    have ih' : ∀ k, LogSafe (atticLoop E cfg p new ov ob rest k) := ih
    simp only [atticLoop]
    repeat (first | exact ih' _ | logsafe_step)

theorem logsafe_checkoutRun (cfg : Cfg) (i : Info) (ds : List Step) (old : OldCo) (oldHash : Option RH) (inH : Inputs) :
    LogSafe (checkoutRun E cfg i ds old oldHash inH) := by
  intro r hs
  unfold checkoutRun
  simp only [wp_bind]
  refine wp_mono _ _ _ _ _ _ ?_ (fun _ hx => hx) (logsafe_atticLoop (E := E) cfg i.path i.scms _ _ _ _ r hs)
  intro keep r1 s1
  simp only [wp_getSt]
  split
  · simp only [wp_bind, wp_abort]; exact s1
  · simp only [wp_pure, wp_bind, wp_getSt]
    rw [wp_prim]
    refine ⟨fun _ => s1, ?_⟩
    intro k2 _
    -- after `setDir` without the variant-id key nothing is claimed
    have rest : ∀ (oh : Option RH) (r4 : Run), SafeLog r4 → NoClaim r4.st i.path →
        wp (do
            runScript E i false (contentsOf (r1.st.setDir i.path (.co i.scms none (some { loc := i.boLoc, upd := i.boUpd, ins := inH }))) ds)
            prim (.setDir i.path (.co i.scms (some (Vid.mk i.sig (vids ds))) (some { loc := i.boLoc, upd := i.boUpd, ins := inH })))
              (fun s => s.setDir i.path (.co i.scms (some (Vid.mk i.sig (vids ds))) (some { loc := i.boLoc, upd := i.boUpd, ins := inH })))
            prim (.setInputs i.path inH) (fun s => s.setInputs i.path inH)
            let st3 ← getSt
            prim (.setVid i.path (ivid st3 i ds)) (fun s => s.setVid i.path (ivid st3 i ds))
            pure oh)
          (fun _ r' => SafeLog r') SafeLog r4 := by
      intro oh r4 s4 nc4
      simp only [wp_bind]
      refine wp_mono _ _ _ _ _ _ ?_ (fun _ hx => hx) (runScript_logsafe (E := E) i false _ r4 s4 nc4)
      intro _ r5 ⟨s5, _, _, _⟩
      have tail : LogSafe (do
          prim (.setDir i.path (.co i.scms (some (Vid.mk i.sig (vids ds))) (some { loc := i.boLoc, upd := i.boUpd, ins := inH })))
            (fun s => s.setDir i.path (.co i.scms (some (Vid.mk i.sig (vids ds))) (some { loc := i.boLoc, upd := i.boUpd, ins := inH })))
          prim (.setInputs i.path inH) (fun s => s.setInputs i.path inH)
          let st3 ← getSt
          prim (.setVid i.path (ivid st3 i ds)) (fun s => s.setVid i.path (ivid st3 i ds))
          pure oh) := by
        repeat logsafe_step
      have := tail r5 s5
      simp only [wp_bind, wp_getSt, wp_pure] at this
      exact this
    have nc2 : NoClaim (r1.st.setDir i.path (.co i.scms none (some { loc := i.boLoc, upd := i.boUpd, ins := inH }))) i.path :=
      Or.inr (Or.inr ⟨i.scms, some { loc := i.boLoc, upd := i.boUpd, ins := inH }, by simp [St.setDir]⟩)
    split
    · simp only [wp_bind, wp_pure]
      rw [wp_prim]
      refine ⟨fun _ => safelog_after _ _ _ _ _ (by rfl), ?_⟩
      intro k3 _
      have := rest (some (RH.forged (r1.st.setDir i.path (.co i.scms none (some { loc := i.boLoc, upd := i.boUpd, ins := inH }))).clock))
        { st := (r1.st.setDir i.path (.co i.scms none (some { loc := i.boLoc, upd := i.boUpd, ins := inH }))).forge i.path,
          mem := r1.mem, fuel := k3,
          log := r1.log ++ [Op.setDir i.path (.co i.scms none (some { loc := i.boLoc, upd := i.boUpd, ins := inH }))] ++
            [Op.setResult i.path (.forged (r1.st.setDir i.path (.co i.scms none (some { loc := i.boLoc, upd := i.boUpd, ins := inH }))).clock)] }
        (safelog_after _ _ _ _ _ (by rfl)) (by simpa [NoClaim, St.forge] using nc2)
      simp only [wp_bind, wp_getSt, wp_pure] at this
      exact this
    · simp only [wp_pure]
      have := rest oldHash
        { st := r1.st.setDir i.path (.co i.scms none (some { loc := i.boLoc, upd := i.boUpd, ins := inH })),
          mem := r1.mem, fuel := k2,
          log := r1.log ++ [Op.setDir i.path (.co i.scms none (some { loc := i.boLoc, upd := i.boUpd, ins := inH }))] }
        (safelog_after _ _ _ _ _ (by rfl)) nc2
      simp only [wp_bind, wp_getSt, wp_pure] at this
      exact this

theorem logsafe_cookCheckout (cfg : Cfg) (i : Info) (ds : List Step) : LogSafe (cookCheckout E cfg i ds) := by
  have h1 := logsafe_constructDir (i.path)
  have h2 : ∀ old oh inH, LogSafe (checkoutRun E cfg i ds old oh inH) := fun _ _ _ => logsafe_checkoutRun _ _ _ _ _ _
  unfold cookCheckout
  dsimp only
  repeat (first | exact h2 _ _ _ | logsafe_step)

theorem logsafe_wasAlreadyRun (t : Step) (so : Bool) : LogSafe (wasAlreadyRun t so) := by
  unfold wasAlreadyRun
  repeat logsafe_step

theorem logsafe_setAlreadyRun (t : Step) (c s : Bool) : LogSafe (setAlreadyRun t c s) := by
  unfold setAlreadyRun
  repeat logsafe_step

/-- the depth-first driver -/
theorem logsafe_cook (cfg : Cfg) (t : Step) :
    (∀ co, LogSafe (cookStep E cfg co t)) ∧ LogSafe (bidDeps E cfg t.deps) :=
  Step.rec
    (motive_1 := fun t => (∀ co, LogSafe (cookStep E cfg co t)) ∧ LogSafe (bidDeps E cfg t.deps))
    (motive_2 := fun ds => (∀ co parent, LogSafe (cookList E cfg co parent ds)) ∧ LogSafe (bidDeps E cfg ds))
    (fun i pre ds _ hds => by
      obtain ⟨hl1, hl2⟩ := hds
      refine ⟨?_, hl2⟩
      intro co
      have w := logsafe_wasAlreadyRun (Step.mk i pre ds) co
      have s1 : ∀ c s, LogSafe (setAlreadyRun (Step.mk i pre ds) c s) := fun _ _ => logsafe_setAlreadyRun _ _ _
      have c1 := logsafe_cookCheckout (E := E) cfg i ds
      have c2 := logsafe_cookBuild (E := E) cfg i ds
      have c3 := logsafe_cookPackage (E := E) cfg i pre ds
      have c4 := logsafe_preparePackage i ds
      simp only [cookStep]
      repeat (first | exact hl1 _ _ | exact s1 _ _ | logsafe_step))
    ⟨fun co parent => by simp only [cookList]; exact logsafe_pure _, by simp only [bidDeps]; exact logsafe_pure _⟩
    (fun d ds hd hds => by
      obtain ⟨hd1, hd2⟩ := hd
      obtain ⟨hl1, hl2⟩ := hds
      constructor
      · intro co parent
        simp only [cookList]
        repeat (first | exact hl1 _ _ | exact hd1 _ | logsafe_step)
      · cases d with
        | mk i pre dd =>
          simp only [bidDeps]
          repeat (first | exact hd1 _ | exact hd2 | exact hl2 | logsafe_step))
    t

end Builder
